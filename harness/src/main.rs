//! Correspondence harness: runs the real aplang library (built from /repo's working
//! tree with the `verif` feature) on inputs read from a case file and prints one
//! canonical observation line per case.  See /verif/DESIGN.md section 2.4.
//!
//! usage: harness <lex|parse|run|render> <case file> <result file> [stmt budget] [max depth]
//! case file: one case per line, fields separated by a blank:
//!     <hex of the UTF-8 source> [name=<hex of a module file>]...
//! result file: one line per case, written and flushed as soon as the case is done, so
//! that a process abort (native stack overflow) is attributable to the next case.

use aplang_lib::lexer::token::{LiteralValue, Token};
use aplang_lib::lexer::Lexer;
use aplang_lib::parser::ast::*;
use aplang_lib::ApLang;
use miette::Report;
use std::fmt::Write as _;
use std::io::Write as _;
use std::panic::{catch_unwind, AssertUnwindSafe};
use std::sync::Mutex;

static LAST_PANIC: Mutex<Option<String>> = Mutex::new(None);

/// Memory budget of a run (part of H2's purpose: arbitrary generated programs must end without
/// exhausting the machine).  The harness's allocator counts live bytes; when a run grows more than
/// `MEM_CAP` bytes above the level at its start, the statement budget of hook H2 is set to zero, so
/// the run ends at its next statement with the budget error, and the case is reported as `BUDGET`
/// (skipped, never compared).  The library itself is untouched.
mod mem {
    use std::alloc::{GlobalAlloc, Layout, System};
    use std::sync::atomic::{AtomicBool, AtomicUsize, Ordering::Relaxed};

    pub static LIVE: AtomicUsize = AtomicUsize::new(0);
    pub static LIMIT: AtomicUsize = AtomicUsize::new(usize::MAX);
    pub static OVER: AtomicBool = AtomicBool::new(false);
    pub const MEM_CAP: usize = 4 << 20;

    pub struct Counting;

    #[inline]
    fn grew(n: usize) {
        let now = LIVE.fetch_add(n, Relaxed) + n;
        if now > LIMIT.load(Relaxed) && !OVER.swap(true, Relaxed) {
            // a const-initialised thread-local Cell: no allocation, no destructor
            let _ = aplang_lib::verif::BUDGET.try_with(|b| {
                if b.get().is_some() {
                    b.set(Some(0))
                }
            });
        }
    }

    unsafe impl GlobalAlloc for Counting {
        unsafe fn alloc(&self, l: Layout) -> *mut u8 {
            let p = System.alloc(l);
            if !p.is_null() {
                grew(l.size());
            }
            p
        }
        unsafe fn dealloc(&self, p: *mut u8, l: Layout) {
            System.dealloc(p, l);
            LIVE.fetch_sub(l.size(), Relaxed);
        }
        unsafe fn realloc(&self, p: *mut u8, l: Layout, new_size: usize) -> *mut u8 {
            let q = System.realloc(p, l, new_size);
            if !q.is_null() {
                if new_size >= l.size() {
                    grew(new_size - l.size());
                } else {
                    LIVE.fetch_sub(l.size() - new_size, Relaxed);
                }
            }
            q
        }
    }

    pub fn arm() {
        OVER.store(false, Relaxed);
        LIMIT.store(LIVE.load(Relaxed).saturating_add(MEM_CAP), Relaxed);
    }
    pub fn disarm() -> bool {
        LIMIT.store(usize::MAX, Relaxed);
        OVER.swap(false, Relaxed)
    }
}

#[global_allocator]
static ALLOC: mem::Counting = mem::Counting;

fn hex(bytes: &[u8]) -> String {
    let mut s = String::with_capacity(bytes.len() * 2);
    for b in bytes {
        write!(s, "{:02x}", b).unwrap();
    }
    s
}

fn unhex(s: &str) -> Vec<u8> {
    (0..s.len() / 2)
        .map(|i| u8::from_str_radix(&s[2 * i..2 * i + 2], 16).unwrap())
        .collect()
}

fn lit(l: &Option<LiteralValue>) -> String {
    match l {
        None => "-".to_string(),
        Some(LiteralValue::Number(n)) => format!("N{:016x}", n.to_bits()),
        Some(LiteralValue::String(s)) => format!("S{}", hex(s.as_bytes())),
    }
}

fn labels_of(report: &Report) -> String {
    let mut out = String::new();
    let code = report
        .code()
        .map(|c| c.to_string())
        .unwrap_or_else(|| "-".to_string());
    write!(out, "{}@", code).unwrap();
    let mut first = true;
    if let Some(labels) = report.labels() {
        for l in labels {
            if !first {
                out.push(',');
            }
            first = false;
            write!(out, "{}+{}", l.offset(), l.len()).unwrap();
        }
    }
    out
}

/// can every label of the report be read from the source text the report itself carries?
fn labels_readable(report: &Report) -> bool {
    let Some(labels) = report.labels() else { return true };
    let Some(source) = report.source_code() else { return labels.count() == 0 || true };
    for l in labels {
        if source.read_span(l.inner(), 0, 0).is_err() {
            return false;
        }
    }
    true
}

/// render every report the way the CLI would; only "returned without panicking" matters
fn render_all(reports: &[Report]) -> bool {
    catch_unwind(AssertUnwindSafe(|| {
        for r in reports {
            let s = format!("{:?}", r);
            std::hint::black_box(s);
        }
    }))
    .is_ok()
}

fn reports_line(tag: &str, reports: &[Report]) -> String {
    let rendered = render_all(reports);
    let mut out = format!("{} {}", tag, reports.len());
    for r in reports {
        out.push(' ');
        out.push_str(&labels_of(r));
    }
    if !rendered {
        out.push_str(" RENDERPANIC");
    }
    if !reports.iter().all(labels_readable) {
        out.push_str(" BADSPAN");
    }
    out
}

fn tokens_line(tokens: &[Token]) -> String {
    let mut out = String::from("OK");
    for t in tokens {
        write!(
            out,
            " {:?}:{}:{}:{}:{}",
            t.token_type,
            t.span.offset(),
            t.span.len(),
            hex(t.lexeme.as_bytes()),
            lit(&t.literal)
        )
        .unwrap();
    }
    out
}

fn do_lex(src: &str) -> String {
    let scanned = Lexer::scan(src.to_string(), "case.ap".to_string());
    // the tool reaches the scanner through ApLang::lex(): it must accept and reject exactly the same texts
    let api_ok = ApLang::new_from_stdin(src.to_string()).lex().is_ok();
    if api_ok != scanned.is_ok() {
        return format!("APIMISMATCH scan_ok={} api_ok={}", scanned.is_ok(), api_ok);
    }
    match scanned {
        Ok(tokens) => tokens_line(&tokens),
        Err(reports) => reports_line("ERR", &reports),
    }
}

// ---------------------------------------------------------------- AST printing

fn tk(t: &Token) -> String {
    format!("{}+{}", t.span.offset(), t.span.len())
}

fn name(s: &str) -> String {
    if s.is_empty() {
        "_".to_string()
    } else {
        hex(s.as_bytes())
    }
}

fn expr_s(e: &Expr, o: &mut String) {
    match e {
        Expr::Grouping(g) => {
            o.push_str("(g ");
            expr_s(&g.expr, o);
            o.push(')');
        }
        Expr::Literal(l) => match &l.value {
            Literal::Number(n) => write!(o, "(n {:016x})", n.to_bits()).unwrap(),
            Literal::String(s) => write!(o, "(s {})", name(s)).unwrap(),
            Literal::True => o.push('T'),
            Literal::False => o.push('F'),
            Literal::Null => o.push('N'),
        },
        Expr::Binary(b) => {
            write!(o, "(b {:?}@{} ", b.operator, tk(&b.token)).unwrap();
            expr_s(&b.left, o);
            o.push(' ');
            expr_s(&b.right, o);
            o.push(')');
        }
        Expr::Logical(b) => {
            write!(o, "(l {:?}@{} ", b.operator, tk(&b.token)).unwrap();
            expr_s(&b.left, o);
            o.push(' ');
            expr_s(&b.right, o);
            o.push(')');
        }
        Expr::Unary(u) => {
            write!(o, "(u {:?}@{} ", u.operator, tk(&u.token)).unwrap();
            expr_s(&u.right, o);
            o.push(')');
        }
        Expr::ProcCall(c) => {
            write!(
                o,
                "(c {}@{} {} {} [",
                name(&c.ident),
                tk(&c.token),
                tk(&c.parens.0),
                tk(&c.parens.1)
            )
            .unwrap();
            for (i, s) in c.arguments_spans.iter().enumerate() {
                if i > 0 {
                    o.push(' ');
                }
                write!(o, "{}+{}", s.offset(), s.len()).unwrap();
            }
            o.push(']');
            for a in &c.arguments {
                o.push(' ');
                expr_s(a, o);
            }
            o.push(')');
        }
        Expr::Access(a) => {
            write!(
                o,
                "(a {} {} {} ",
                tk(&a.list_token),
                tk(&a.brackets.0),
                tk(&a.brackets.1)
            )
            .unwrap();
            expr_s(&a.list, o);
            o.push(' ');
            expr_s(&a.key, o);
            o.push(')');
        }
        Expr::List(l) => {
            write!(o, "(L {} {}", tk(&l.brackets.0), tk(&l.brackets.1)).unwrap();
            for a in &l.items {
                o.push(' ');
                expr_s(a, o);
            }
            o.push(')');
        }
        Expr::Variable(v) => write!(o, "(v {}@{})", name(&v.ident), tk(&v.token)).unwrap(),
        Expr::Assign(a) => {
            write!(
                o,
                "(= {}@{} {} ",
                name(&a.target.ident),
                tk(&a.ident_token),
                tk(&a.arrow_token)
            )
            .unwrap();
            expr_s(&a.value, o);
            o.push(')');
        }
        Expr::Set(s) => {
            write!(
                o,
                "(S {} {} {} {} ",
                tk(&s.list_token),
                tk(&s.brackets.0),
                tk(&s.brackets.1),
                tk(&s.arrow_token)
            )
            .unwrap();
            expr_s(&s.list, o);
            o.push(' ');
            expr_s(&s.idx, o);
            o.push(' ');
            expr_s(&s.value, o);
            o.push(')');
        }
    }
}

fn stmt_s(s: &Stmt, o: &mut String) {
    match s {
        Stmt::Expr(e) => {
            o.push_str("(e ");
            expr_s(e, o);
            o.push(')');
        }
        Stmt::If(i) => {
            o.push_str("(if ");
            expr_s(&i.condition, o);
            o.push(' ');
            stmt_s(&i.then_branch, o);
            o.push(' ');
            match &i.else_branch {
                None => o.push('-'),
                Some(e) => stmt_s(e, o),
            }
            o.push(')');
        }
        Stmt::RepeatTimes(r) => {
            write!(o, "(rt {} ", tk(&r.count_token)).unwrap();
            expr_s(&r.count, o);
            o.push(' ');
            stmt_s(&r.body, o);
            o.push(')');
        }
        Stmt::RepeatUntil(r) => {
            o.push_str("(ru ");
            expr_s(&r.condition, o);
            o.push(' ');
            stmt_s(&r.body, o);
            o.push(')');
        }
        Stmt::ForEach(f) => {
            write!(
                o,
                "(fe {}@{} {} ",
                name(&f.item.ident),
                tk(&f.item_token),
                tk(&f.list_token)
            )
            .unwrap();
            expr_s(&f.list, o);
            o.push(' ');
            stmt_s(&f.body, o);
            o.push(')');
        }
        Stmt::ProcDeclaration(p) => {
            write!(o, "(p {} {} [", name(&p.name), if p.exported { 1 } else { 0 }).unwrap();
            for (i, v) in p.params.iter().enumerate() {
                if i > 0 {
                    o.push(' ');
                }
                write!(o, "{}", name(&v.ident)).unwrap();
            }
            o.push_str("] ");
            stmt_s(&p.body, o);
            o.push(')');
        }
        Stmt::Block(b) => {
            o.push_str("(B");
            for s in &b.statements {
                o.push(' ');
                stmt_s(s, o);
            }
            o.push(')');
        }
        Stmt::Return(r) => {
            o.push_str("(ret ");
            match &r.data {
                None => o.push('-'),
                Some(e) => expr_s(e, o),
            }
            o.push(')');
        }
        Stmt::Continue(_) => o.push_str("(cont)"),
        Stmt::Break(_) => o.push_str("(brk)"),
        Stmt::Import(i) => {
            write!(o, "(imp {}@{}", lit(&i.module_name.literal), tk(&i.module_name)).unwrap();
            match &i.only_functions {
                None => o.push_str(" -"),
                Some(fs) => {
                    o.push_str(" [");
                    for (k, f) in fs.iter().enumerate() {
                        if k > 0 {
                            o.push(' ');
                        }
                        write!(o, "{}@{}", lit(&f.literal), tk(f)).unwrap();
                    }
                    o.push(']');
                }
            }
            o.push(')');
        }
    }
}

fn do_parse(src: &str) -> String {
    let lexed = match ApLang::new_from_stdin(src.to_string()).lex() {
        Ok(l) => l,
        Err(reports) => return reports_line("LEXERR", &reports),
    };
    match lexed.parse() {
        Ok(parsed) => {
            let mut o = String::from("OK");
            for s in &parsed.verif_ast().program {
                o.push(' ');
                stmt_s(s, &mut o);
            }
            o
        }
        Err(reports) => reports_line("ERR", &reports),
    }
}

// ---------------------------------------------------------------- running

/// messages of RuntimeError -> canonical code (dynamic parts cut off)
fn message_code(m: &str) -> String {
    const EXACT: &[(&str, &str)] = &[
        ("Invalid Value for nTIMES", "InvalidCount"),
        ("Invalid Iterator", "InvalidIterator"),
        ("Invalid Variable", "InvalidVariable"),
        ("Invalid PROCEDURE", "InvalidProcedure"),
        ("Incorrect Number Of Args", "IncorrectArgs"),
        ("Invalid Index", "InvalidIndex"),
        ("Invalid List Index", "InvalidListIndex"),
        ("Invalid Type", "InvalidType"),
        ("Division by Zero", "DivisionByZero"),
        ("Modulo by Zero", "ModuloByZero"),
        ("Incomparable Values", "Incomparable"),
        ("Invalid Unary Op", "InvalidUnaryOp"),
        ("Invalid Argument Cast", "InvalidCast"),
        ("Invalid NATIVE_OBJECT variety for function", "InvalidObject"),
        ("Invalid Function", "InvalidFunction"),
        ("Invalid Range", "InvalidRange"),
        ("Invalid String Index", "InvalidStringIndex"),
        ("Invalid Format Arguments", "InvalidFormat"),
        ("user modules cannot be called when evaluating from stdin", "NoUserModules"),
    ];
    for (k, v) in EXACT {
        if m == *k {
            return v.to_string();
        }
    }
    if m.starts_with("std module not found") {
        return "ModuleNotFound".into();
    }
    if m.starts_with("file ") && m.contains("does not exist") {
        return "ModuleFileMissing".into();
    }
    if m.starts_with("user module ") && m.contains("could not read source") {
        return "ModuleUnreadable".into();
    }
    if m.starts_with("user module ") && m.contains("could not be") {
        return "ModuleInvalid".into();
    }
    format!("UNKNOWN:{}", hex(m.as_bytes()))
}

/// bytes that reached the real standard output / standard error so far (both are files set up by the driver)
fn direct_len() -> u64 {
    let _ = std::io::stdout().flush();
    let _ = std::io::stderr().flush();
    std::fs::metadata("/proc/self/fd/1").map(|m| m.len()).unwrap_or(0)
        + std::fs::metadata("/proc/self/fd/2").map(|m| m.len()).unwrap_or(0)
}

fn do_run(src: &str, modules: &[(String, Vec<u8>)], budget: u64, depth: u64, case_no: usize) -> String {
    let before = direct_len();
    let aplang = if modules.is_empty() {
        ApLang::new_from_stdin(src.to_string())
    } else {
        let dir = std::env::temp_dir().join(format!("aplang-verif-{}-{}", std::process::id(), case_no));
        let _ = std::fs::remove_dir_all(&dir);
        std::fs::create_dir_all(&dir).unwrap();
        for (n, content) in modules {
            let p = dir.join(n);
            if let Some(parent) = p.parent() {
                std::fs::create_dir_all(parent).unwrap();
            }
            std::fs::write(p, content).unwrap();
        }
        let main = dir.join("main.ap");
        std::fs::write(&main, src).unwrap();
        ApLang::new_from_file(main).unwrap()
    };
    let result = (|| {
        let lexed = match aplang.lex() {
            Ok(l) => l,
            Err(reports) => return reports_line("LEXERR", &reports),
        };
        let parsed = match lexed.parse() {
            Ok(p) => p,
            Err(reports) => return reports_line("PARSEERR", &reports),
        };
        aplang_lib::verif::set_budget(Some(budget), depth);
        aplang_lib::verif::sink_install();
        mem::arm();
        let r = catch_unwind(AssertUnwindSafe(|| parsed.execute()));
        let over = mem::disarm();
        let captured = aplang_lib::verif::sink_take().unwrap_or_default();
        aplang_lib::verif::set_budget(None, u64::MAX);
        if over {
            return "BUDGET".to_string();
        }
        let outcome = match r {
            Err(_) => {
                let msg = LAST_PANIC.lock().unwrap().take().unwrap_or_default();
                format!("PANIC:{}", hex(msg.as_bytes()))
            }
            Ok(Ok(_)) => "OK".to_string(),
            Ok(Err(report)) => {
                let rendered = render_all(std::slice::from_ref(&report));
                let message = report.to_string();
                if message == aplang_lib::verif::BUDGET_MESSAGE {
                    "BUDGET".to_string()
                } else {
                    let mut spans = String::new();
                    if let Some(labels) = report.labels() {
                        for l in labels {
                            write!(spans, ":{}+{}", l.offset(), l.len()).unwrap();
                        }
                    }
                    format!(
                        "RT:{}{}{}{}",
                        message_code(&message),
                        spans,
                        if rendered { "" } else { ":RENDERPANIC" },
                        if labels_readable(&report) { "" } else { ":BADSPAN" }
                    )
                }
            }
        };
        format!("{} {}", outcome, if captured.is_empty() { "-".to_string() } else { hex(captured.as_bytes()) })
    })();
    if !modules.is_empty() {
        let dir = std::env::temp_dir().join(format!("aplang-verif-{}-{}", std::process::id(), case_no));
        let _ = std::fs::remove_dir_all(&dir);
    }
    let after = direct_len();
    format!("{} D{}", result, after - before)
}

/// the Rust std function a MATH procedure names, evaluated directly (the libm oracle of the model)
fn do_math(line: &str) -> String {
    let mut it = line.split(' ');
    let name = it.next().unwrap_or("");
    let a: Vec<f64> = it.filter(|x| !x.is_empty()).map(|h| f64::from_bits(u64::from_str_radix(h, 16).unwrap())).collect();
    let g = |i: usize| a.get(i).copied().unwrap_or(f64::NAN);
    let r = match name {
        "sin" => f64::sin(g(0)),
        "cos" => f64::cos(g(0)),
        "tan" => f64::tan(g(0)),
        "asin" => f64::asin(g(0)),
        "acos" => f64::acos(g(0)),
        "atan" => f64::atan(g(0)),
        "atan2" => f64::atan2(g(0), g(1)),
        "sinh" => f64::sinh(g(0)),
        "cosh" => f64::cosh(g(0)),
        "tanh" => f64::tanh(g(0)),
        "asinh" => f64::asinh(g(0)),
        "acosh" => f64::acosh(g(0)),
        "atanh" => f64::atanh(g(0)),
        "exp" => f64::exp(g(0)),
        "log" => f64::log(g(0), g(1)),
        "log10" => f64::log10(g(0)),
        "log2" => f64::log2(g(0)),
        "ln" => f64::ln(g(0)),
        "sqrt" => f64::sqrt(g(0)),
        "round" => f64::round(g(0)),
        "floor" => f64::floor(g(0)),
        "ceil" => f64::ceil(g(0)),
        "trunc" => f64::trunc(g(0)),
        "show" => return hex(format!("{}", g(0)).as_bytes()),
        "parse" => return "?".to_string(),
        _ => f64::NAN,
    };
    format!("{:016x}", r.to_bits())
}

fn main() {
    let args: Vec<String> = std::env::args().collect();
    if args.len() < 4 {
        eprintln!("usage: harness <lex|parse|run> <cases> <results> [budget] [depth]");
        std::process::exit(2);
    }
    let mode = args[1].clone();
    let budget: u64 = args.get(4).map(|s| s.parse().unwrap()).unwrap_or(20000);
    let depth: u64 = args.get(5).map(|s| s.parse().unwrap()).unwrap_or(120);
    let cases = std::fs::read_to_string(&args[2]).unwrap();
    let mut out = std::fs::File::create(&args[3]).unwrap();

    std::panic::set_hook(Box::new(|info| {
        let loc = info
            .location()
            .map(|l| format!("{}:{}", l.file(), l.line()))
            .unwrap_or_default();
        let msg = if let Some(s) = info.payload().downcast_ref::<&str>() {
            s.to_string()
        } else if let Some(s) = info.payload().downcast_ref::<String>() {
            s.clone()
        } else {
            String::new()
        };
        *LAST_PANIC.lock().unwrap() = Some(format!("{} @ {}", msg, loc));
    }));

    if mode == "math" {
        for line in cases.lines() {
            writeln!(out, "{}", do_math(line)).unwrap();
        }
        return;
    }
    for (case_no, line) in cases.lines().enumerate() {
        let mut fields = line.split(' ');
        let src_bytes = unhex(fields.next().unwrap_or(""));
        let modules: Vec<(String, Vec<u8>)> = fields
            .filter(|f| !f.is_empty())
            .map(|f| {
                let (n, h) = f.split_once('=').unwrap();
                (n.to_string(), unhex(h))
            })
            .collect();
        let src = String::from_utf8(src_bytes).expect("case is not UTF-8");
        let mode2 = mode.clone();
        let before = direct_len();
        let handle = std::thread::Builder::new()
            .stack_size(1 << 30)
            .spawn(move || {
                catch_unwind(AssertUnwindSafe(|| match mode2.as_str() {
                    "lex" => do_lex(&src),
                    "parse" => do_parse(&src),
                    "run" => do_run(&src, &modules, budget, depth, case_no),
                    _ => panic!("unknown mode"),
                }))
            })
            .unwrap();
        let line = match handle.join() {
            Ok(Ok(s)) => s,
            _ => {
                // a panic escaped: report it with whatever the sink captured so far
                let captured = aplang_lib::verif::sink_take().unwrap_or_default();
                let _ = captured;
                let msg = LAST_PANIC.lock().unwrap().take().unwrap_or_default();
                let after = direct_len();
                format!("PANIC {} D{}", hex(msg.as_bytes()), after - before)
            }
        };
        writeln!(out, "{}", line).unwrap();
        out.flush().unwrap();
    }
}
