#!/usr/bin/env python3
"""Regenerates seeded/README.md from seeded/*/meta.json."""
import glob, json, os
V = os.path.dirname(os.path.dirname(os.path.abspath(__file__)))
rows = []
for d in sorted(glob.glob(os.path.join(V, "seeded", "*"))):
    mp = os.path.join(d, "meta.json")
    if not os.path.isfile(mp):
        continue
    m = json.load(open(mp))
    checks = m.get("checks_run", {})
    cells = []
    for p, r in sorted(checks.items()):
        if r["exit"] == 1:
            nf = any("no-failing-input-found" in l for l in r.get("violation_lines", []))
            cells.append("%s: **caught**%s" % (p, " (obligation only)" if nf else " (failing input)"))
        else:
            cells.append("%s: missed" % p)
    rows.append((os.path.basename(d), m.get("property", "?"), (m.get("summary") or "").replace("\n", " ").replace("|", "/")[:200],
                 (m.get("needs") or "").replace("\n", " ").replace("|", "/")[:200], "; ".join(cells)))
with open(os.path.join(V, "seeded", "README.md"), "w") as f:
    f.write("# Seeded breakages\n\nEach directory holds a change to snowfoxsh/aplang written by an independent sub-agent that saw only the "
            "property text and a scratch worktree: `patch.diff`, a demonstration that passes without the change and fails with it, and `meta.json` "
            "(what it needs to manifest, what was run to confirm it: the 57 tests pass with it, and which checks were run against it with what result). "
            "None of these changes is committed to /repo.  To try one: `git -C /repo apply seeded/<id>/patch.diff; ./check <Cxx> --tier quick; "
            "git -C /repo checkout -- .`.\n\n| id | property | change | needs | quick checks run against it (final state of the checks) |\n|---|---|---|---|---|\n")
    for r in rows:
        f.write("| %s | %s | %s | %s | %s |\n" % r)
    caught = sum(1 for r in rows if "**caught**" in r[4])
    f.write("\n%d seeded changes, %d caught by at least one of the checks run against them.\n" % (len(rows), caught))
print(len(rows), "rows")
