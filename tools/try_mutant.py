#!/usr/bin/env python3
"""EVIDENCE-NOTE: the checks run here rewrite /verif/evidence/*.json from a MUTATED tree; re-run `./check Cxx --tier quick` on the
unchanged tree for every property touched before committing.
tools/try_mutant.py <mutant dir> <worktree> <seed id> [props...]
Confirms a seeded change (tests pass with it, its demonstration fails with it and passes without), stores it under
/verif/seeded/<id>/, then applies it to /repo, runs the given checks (quick tier), and undoes it."""
import json, os, shutil, subprocess, sys, time
V = os.path.dirname(os.path.dirname(os.path.abspath(__file__)))
ENV = dict(os.environ, CARGO_NET_OFFLINE="true")

def sh(cmd, cwd=None, timeout=3000, env=None):
    p = subprocess.run(cmd, shell=True, cwd=cwd, stdout=subprocess.PIPE, stderr=subprocess.STDOUT, timeout=timeout, env=env or ENV)
    return p.returncode, p.stdout.decode("utf-8", "replace")

def main():
    mdir, wt, sid = sys.argv[1], sys.argv[2], sys.argv[3]
    props = sys.argv[4:]
    meta = json.load(open(os.path.join(mdir, "meta.json")))
    patch = os.path.join(mdir, "patch.diff")
    log = {"id": sid, "property": meta.get("property"), "summary": meta.get("summary"), "needs": meta.get("needs"), "ran": []}
    env = dict(ENV, CARGO_TARGET_DIR=os.path.join(wt, "target"))
    # 1. confirm in the scratch worktree
    sh("git checkout -- .", wt)
    rc, out = sh("git apply --check %s" % patch, wt)
    assert rc == 0, out
    rc, out = sh("cargo build --offline 2>&1 | tail -1", wt, env=env)
    rc0, d0 = sh("bash %s" % os.path.join(mdir, "demo.sh"), wt)
    log["ran"].append("demo on unchanged tree: rc=%d (%s)" % (rc0, d0.strip().split("\n")[-1]))
    sh("git apply %s" % patch, wt)
    rc, out = sh("cargo build --offline 2>&1 | tail -2 && cargo build --offline --features verif 2>&1 | tail -1", wt, env=env)
    log["ran"].append("build with change: " + out.strip().replace("\n", " | ")[-200:])
    rc, out = sh("cargo test --workspace --no-fail-fast --offline 2>&1 | grep -E '^test result'", wt, env=env)
    passed = sum(int(l.split(" passed")[0].split()[-1]) for l in out.strip().split("\n") if " passed" in l)
    failed = "FAILED" in out
    log["ran"].append("cargo test with change: %d passed, failed=%s" % (passed, failed))
    sh("cargo build --offline 2>&1 | tail -1", wt, env=env)
    rc1, d1 = sh("bash %s" % os.path.join(mdir, "demo.sh"), wt)
    log["ran"].append("demo with change: rc=%d (%s)" % (rc1, d1.strip().split("\n")[-1]))
    sh("git checkout -- .", wt)
    confirmed = (rc0 == 0 and rc1 != 0 and passed == 57 and not failed)
    log["confirmed"] = confirmed
    print("confirmed" if confirmed else "NOT CONFIRMED", log["ran"])
    if not confirmed:
        json.dump(log, open("/tmp/mut_out3/%s.rejected.json" % sid, "w"), indent=1)
        return 1
    dst = os.path.join(V, "seeded", sid)
    shutil.rmtree(dst, ignore_errors=True)
    shutil.copytree(mdir, dst)
    # 2. run the checks against it
    results = {}
    rc, out = sh("git -C /repo status --short")
    assert out.strip() == "", "repo not clean: " + out
    sh("git -C /repo apply %s" % patch)
    try:
        for p in props:
            t = time.time()
            rc, out = sh("./check %s --tier quick" % p, V, timeout=3000)
            viol = [l for l in out.split("\n") if l.startswith("VIOLATION")]
            results[p] = {"exit": rc, "violation_lines": viol[:3], "seconds": round(time.time() - t)}
            if viol:
                try:
                    rp = viol[0].split("replay=")[1].split()[0]
                    r = json.load(open(rp))
                    results[p]["what"] = r.get("what", "")[:300]
                    results[p]["replay_input"] = (r.get("input") or "")[-300:] if isinstance(r.get("input"), str) else None
                    results[p]["broken"] = [b[:200] for b in r.get("broken_obligations", [])][:3]
                except Exception as e:
                    results[p]["what"] = "?" + str(e)
            print(p, results[p]["exit"], viol[:1], results[p].get("what", "")[:150], flush=True)
    finally:
        sh("git -C /repo checkout -- .")
    log["checks"] = results
    log["detected_by"] = [p for p, r in results.items() if r["exit"] == 1]
    m = dict(meta)
    m.update({"seed_id": sid, "confirmed_by_me": log["ran"], "checks_run": results, "detected_by": log["detected_by"]})
    json.dump(m, open(os.path.join(dst, "meta.json"), "w"), indent=1)
    return 0

sys.exit(main())
