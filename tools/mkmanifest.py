#!/usr/bin/env python3
"""Regenerates /verif/MANIFEST.json from the table below."""
import json, os, subprocess
V = os.path.dirname(os.path.dirname(os.path.abspath(__file__)))
props = [json.loads(l) for l in open(os.path.join(V, "properties.jsonl"))]

CLAIMED = {
 "C01": ("operator tables regenerated from Interpreter::binary/unary/equals/is_truthy proved equal to the declarative reference tables; evaluation order, short-circuit, division-by-zero and output-only-grows theorems on the evaluator model; the model and the reference semantics are both run against the implementation on exhaustive operator x kind pairs and random traced expression trees", "3.1"),
 "C03": ("theorems on the reference semantics (argument order, lookup and arity before the body, fresh scope, caller frame restored, RETURN propagation, by-value binding) carried to the implementation model by the refinement theorem; both models run against the implementation on random procedure programs", "3.3"),
 "C07": ("scanner model proved sound and complete for the relational lexical grammar, failing exactly on the five lexical error classes, with exact spans and literals, for all strings; regenerated tables proved equal to the reference tables; model compared with Lexer::scan on exhaustive short strings and random/mutated texts", "3.7"),
 "C08": ("scanner and parser models proved total (no panic site reachable on scanner output, linear fuel never exhausted, a tree or a non-empty diagnostic list, recovery consumes input) for all inputs; models compared with the implementation on exhaustive token sequences and mutated programs; rendering and native stack only exercised", "3.8"),
 "C09": ("parser model proved to accept no program with RETURN outside a procedure or BREAK/CONTINUE outside a loop of the same body, and to reject with at least one diagnostic; acceptance of the documented grammar and the other rejection classes decided by correspondence of the parser model with the implementation on generated derivations and rejection classes (partial: no round-trip theorem yet)", "3.9"),
 "C17": ("grid-world invariants (inside the grid, never on a wall, rotations, one-cell moves, CAN_MOVE iff, checkpoints in order, malformed grids) proved for all grids and all command histories on the robot model; model compared with the implementation on random grids and walks; independent Python grid world as direct oracle", "3.17"),
}
PENDING_REASON = "check under construction in this session (model, theorems or generator not committed yet); not claimed until its check passes on the unchanged tree"

hooks_commit = "a8d4cf1"
m = {"version": 1, "setup_cmd": "./check --setup",
     "hooks": {"guard": "cargo feature `verif`", "enable": "the harness crate /verif/harness depends on aplang = { path = \"/repo\", features = [\"verif\"] }; `cargo build --offline` in /verif/harness (done by every check)",
               "baseline_off_cmd": "cd /repo && cargo test --workspace --no-fail-fast --offline", "source_commits": [hooks_commit], "add_only": True},
     "engines": [{"name": "rocq-proof+correspondence", "path": "/verif/check", "serves_properties": sorted(CLAIMED),
                  "kind_free_text": "Coq 8.16.1 development /verif/coq (executable models, reference specs, theorems), tables regenerated from /repo/src by vlib/translate.py on every run, models evaluated with vm_compute against the Rust harness /verif/harness built from /repo's working tree"}],
     "checks": [], "not_applicable": [], "notes": "see DESIGN.md; known findings in known_findings.jsonl; seeded breakages under seeded/"}
for p in props:
    i = p["id"]
    if i in CLAIMED:
        text, ref = CLAIMED[i]
        m["checks"].append({"property_id": i, "quick_cmd": "./check %s --tier quick" % i, "thorough_cmd": "./check %s --tier thorough" % i,
            "evidence_file": "/verif/evidence/%s.json" % i, "replay_cmd_template": "./check %s --replay {path}" % i,
            "engine": "rocq-proof+correspondence",
            "level_claimed": {"category": "proof", "text": "machine-checked Coq theorems: " + text, "design_ref": "DESIGN.md section " + ref},
            "level_note": "trusted: Coq kernel + VM (vm_compute), Print Assumptions of every theorem checked per run (closed, or kernel float/int primitives only, FloatAxioms where named in the evidence); translator and correspondence tie the hand-written model to /repo by sampling; see the evidence file's trusted_base",
            "technique": "Rocq (Coq) proof over an executable model regenerated/tied to the source + in-Coq correspondence check"})
    else:
        m["not_applicable"].append({"property_id": i, "reason": PENDING_REASON})
json.dump(m, open(os.path.join(V, "MANIFEST.json"), "w"), indent=1)
print("claimed:", sorted(CLAIMED))
