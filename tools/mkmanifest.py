#!/usr/bin/env python3
"""Regenerates /verif/MANIFEST.json from the table below."""
import json, os, subprocess
V = os.path.dirname(os.path.dirname(os.path.abspath(__file__)))
props = [json.loads(l) for l in open(os.path.join(V, "properties.jsonl"))]

CLAIMED = {
 "C01": ("the operator tables regenerated from Interpreter::binary/unary/equals/is_truthy are proved equal to the declarative reference tables; evaluation order, short-circuit, division-by-zero and output-only-grows theorems on the evaluator model; model and reference semantics both run against the implementation on exhaustive operator x kind pairs and random traced expression trees", "3"),
 "C02": ("refinement theorem: the evaluator model with flags, return slot and copied block scopes has the same observable behaviour as the signal-passing reference semantics for every program, fuel and start state; sanity theorems show the reference semantics means what the statement says; both run against the implementation on random control skeletons", "3"),
 "C03": ("theorems on the reference semantics (argument order, lookup and arity before the body, fresh scope, caller frame restored, RETURN propagation, by-value binding) carried to the implementation model by the refinement theorem; both models run against the implementation on random procedure programs", "3"),
 "C04": ("index arithmetic, bounds-checked reads/writes, APPEND/INSERT/REMOVE/LENGTH as sequence operations, fresh cells for + and literals, frame theorems (no other cell, variable or output changes) on the heap model; histories over aliased lists run against the implementation", "3"),
 "C05": ("the expression ladder regenerated from parser.rs is proved to be the documented one (table theorems); the behavioural statement is decided by running the minimal and the full parenthesisation of every tree with <= 2 operators (sampled at 3) on the implementation and the model (partial: no parse-print round-trip theorem)", "3.1"),
 "C06": ("keyword table has both spellings, implicit-terminator set is the reference one, trivia/newline/semicolon laws proved on the lexical grammar that the scanner is proved equivalent to (C07); behaviour under re-rendering decided by correspondence on re-rendered running programs (partial: no composite render theorem)", "3.1"),
 "C07": ("scanner model proved sound and complete for the relational lexical grammar, failing exactly on the five lexical error classes, with exact spans and literals, for all strings; regenerated tables proved equal to the reference tables; model compared with Lexer::scan on exhaustive short strings and random/mutated texts", "3"),
 "C08": ("scanner and parser models proved total (no panic site reachable on scanner output, linear fuel never exhausted, a tree or a non-empty diagnostic list, recovery consumes input) for all inputs; models compared with the implementation on exhaustive token sequences and mutated programs; rendering and native stack only exercised (partial)", "3.1"),
 "C09": ("parser model proved to accept no program with RETURN outside a procedure or BREAK/CONTINUE outside a loop of the same body, and to reject with at least one diagnostic; acceptance of the documented grammar and the other rejection classes decided by correspondence on generated derivations and rejection classes (partial)", "3.1"),
 "C10": ("no panic site of the evaluator / library model is reachable from any program the parser accepts, for every fuel (through the reference semantics and the refinement theorem); every library procedure of the regenerated signature table is total; type-chaos correspondence against the implementation", "3"),
 "C11": ("every syntactic label, every range stored in a syntax tree and every runtime label is a token range or a gap between two tokens, hence inside the source on character boundaries (composed with the scanner's span theorem); exact label ranges compared with the implementation; 'inside the failing construct' decided by correspondence with recorded construct positions", "3"),
 "C12": ("theorems on the driver model (status 0 iff completed, --check pure, debug mode irrelevant for stdout/status, front-end errors, mode equivalence, determinism); the real binary compared with the model over configurations (partial: clap, exit codes, buffering only observed)", "3.1"),
 "C13": ("IMPORT of library modules exposes exactly the module's procedures / the named ones, unknown names and modules are diagnostics, the importer's variables and pending state are untouched; regenerated registry is the reference; user-module scenarios run against the implementation (F21 known)", "3"),
 "C14": ("each STRING procedure's model proved to be the corresponding list-theoretic operation (JOIN(SPLIT) = id, CONTAINS/STARTS/ENDS, REPLACE, SUBSTRING, TRIM, positions consistent); models compared with the implementation and with Python str on exhaustive small strings (Unicode tables finite)", "3"),
 "C15": ("the regenerated MATH table is the documented one; rounding functions integral; printer output inside the rounding interval; RANDOM in range for every draw; libm and the sampler are oracles (partial); number text compared with the implementation and an independent Python reference on thousands of doubles", "3.1"),
 "C16": ("association-list map model refines the finite map under the key equality (insert/get laws, no duplicates, frame over cells, non-map argument is an error); histories compared with the implementation and a Python ideal map keyed by the language's == (F18b known, with a checked witness theorem)", "3"),
 "C17": ("grid-world invariants (inside the grid, never on a wall, rotations, one-cell moves, CAN_MOVE iff, checkpoints in order, malformed grids) proved for all grids and all command histories on the robot model; model compared with the implementation on random grids and walks; independent Python grid world as direct oracle", "3"),
 "C18": ("finite theorem over the regenerated inventory of every output statement in src/ (no direct write outside the front end and the channel); dynamically every library procedure runs with the channel captured and zero bytes may reach the real stdout/stderr (partial: wasm build not compilable here)", "3.1"),
 "C19": ("file-system model laws (frame, failure by value, create only if absent, write requires existing, read returns contents) proved; histories compared with the implementation, the real directory tree and a Python tree (partial: host FS behaviour)", "3.1"),
}
PENDING_REASON = "check under construction in this session (model, theorems or generator not committed yet); not claimed until its check passes on the unchanged tree"

hooks_commit = "a8d4cf1"
m = {"version": 1, "setup_cmd": "./check --setup",
     "hooks": {"guard": "cargo feature `verif`", "enable": "the harness crate /verif/harness depends on aplang = { path = \"/repo\", features = [\"verif\"] }; `cargo build --offline` in /verif/harness (done by every check)",
               "baseline_off_cmd": "cd /repo && cargo test --workspace --no-fail-fast --offline", "source_commits": [hooks_commit], "add_only": True},
     "engines": [{"name": "rocq-proof+correspondence", "path": "/verif/check", "serves_properties": sorted(CLAIMED),
                  "kind_free_text": "Coq 8.16.1 development /verif/coq (executable models, reference specs, theorems), tables regenerated from /repo/src by vlib/translate.py on every run, models evaluated with vm_compute against the Rust harness /verif/harness built from /repo's working tree"}],
     "checks": [], "not_applicable": [], "notes": "see DESIGN.md; known findings in known_findings.jsonl; seeded breakages under seeded/"}
for p in props:
    i = p["id"]
    if i in CLAIMED:
        text, ref = CLAIMED[i]
        m["checks"].append({"property_id": i, "quick_cmd": "./check %s --tier quick" % i, "thorough_cmd": "./check %s --tier thorough" % i,
            "evidence_file": "/verif/evidence/%s.json" % i, "replay_cmd_template": "./check %s --replay {path}" % i,
            "engine": "rocq-proof+correspondence",
            "level_claimed": {"category": "proof", "text": "machine-checked Coq theorems: " + text, "design_ref": "DESIGN.md section " + ref},
            "level_note": "trusted: Coq kernel + VM (vm_compute), Print Assumptions of every theorem checked per run (closed, or kernel float/int primitives only, FloatAxioms where named in the evidence); translator and correspondence tie the hand-written model to /repo by sampling; see the evidence file's trusted_base",
            "technique": "Rocq (Coq) proof over an executable model regenerated/tied to the source + in-Coq correspondence check"})
    else:
        m["not_applicable"].append({"property_id": i, "reason": PENDING_REASON})
json.dump(m, open(os.path.join(V, "MANIFEST.json"), "w"), indent=1)
print("claimed:", sorted(CLAIMED))
