#!/usr/bin/env python3
"""EVIDENCE-NOTE: the checks run here rewrite /verif/evidence/*.json from a MUTATED tree; re-run `./check Cxx --tier quick` on the
unchanged tree for every property touched before committing.
tools/refresh_seeded.py [ids...] — re-run, against every stored seeded change, the quick checks recorded for it (apply the
patch to /repo, run, undo) and rewrite `checks_run` / `detected_by` in its meta.json, so that the table in seeded/README.md
describes the final state of the checks.  The confirmation step (tests, demonstration) is not repeated."""
import json, os, subprocess, sys, time, glob
V = os.path.dirname(os.path.dirname(os.path.abspath(__file__)))
ENV = dict(os.environ, CARGO_NET_OFFLINE="true")

def sh(cmd, cwd=None, timeout=3000):
    p = subprocess.run(cmd, shell=True, cwd=cwd, stdout=subprocess.PIPE, stderr=subprocess.STDOUT, timeout=timeout, env=ENV)
    return p.returncode, p.stdout.decode("utf-8", "replace")

def main():
    ids = sys.argv[1:] or sorted(os.path.basename(os.path.dirname(p)) for p in glob.glob(os.path.join(V, "seeded", "*", "meta.json")))
    for sid in ids:
        d = os.path.join(V, "seeded", sid)
        meta = json.load(open(os.path.join(d, "meta.json")))
        props = list((meta.get("checks_run") or {}).keys()) or [meta.get("property") or sid[:3]]
        rc, out = sh("git -C /repo status --short")
        assert out.strip() == "", "repo not clean: " + out
        rc, out = sh("git -C /repo apply %s" % os.path.join(d, "patch.diff"))
        assert rc == 0, out
        results = {}
        try:
            for p in props:
                t = time.time()
                try:
                    rc, out = sh("./check %s --tier quick" % p, V, timeout=2400)
                except subprocess.TimeoutExpired:
                    rc, out = 124, "TIMEOUT"
                viol = [l for l in out.split("\n") if l.startswith("VIOLATION")]
                results[p] = {"exit": rc, "violation_lines": viol[:3], "seconds": round(time.time() - t)}
                if viol:
                    try:
                        rp = viol[0].split("replay=")[1].split()[0]
                        r = json.load(open(rp))
                        results[p]["what"] = r.get("what", "")[:300]
                        results[p]["replay_input"] = (r.get("input") or "")[-300:] if isinstance(r.get("input"), str) else None
                        results[p]["broken"] = [b[:200] for b in r.get("broken_obligations", [])][:3]
                    except Exception as e:
                        results[p]["what"] = "?" + str(e)
                print(sid, p, rc, viol[:1], results[p].get("what", "")[:120], flush=True)
        finally:
            sh("git -C /repo checkout -- .")
        meta["checks_run"] = results
        meta["detected_by"] = [p for p, r in results.items() if r["exit"] == 1]
        meta["refreshed"] = time.strftime("%Y-%m-%d %H:%M")
        json.dump(meta, open(os.path.join(d, "meta.json"), "w"), indent=1)
    sh("python3 -m vlib.translate", V)
    print("ALLDONE")

main()
