From Coq Require Import List Arith Lia Bool.
Import ListNotations.

Inductive tok := TNum (n:nat) | TPlus | TMinus | TStar | TSlash | TL | TR | TSemi.
Inductive bop := Add | Sub | Mul | Div.
Inductive expr := Num (n:nat) | Bin (o:bop) (l r:expr) | Neg (e:expr) | Grp (e:expr).
Definition tok_eq_dec : forall a b:tok, {a=b}+{a<>b}. decide equality; apply Nat.eq_dec. Defined.

Definition ops_of (lvl:nat) : list (tok*bop) :=
  match lvl with 0 => [(TPlus,Add);(TMinus,Sub)] | 1 => [(TStar,Mul);(TSlash,Div)] | _ => [] end.
Definition lvl_of (o:bop) : nat := match o with Add | Sub => 0 | Mul | Div => 1 end.
Definition tok_of (o:bop) : tok := match o with Add => TPlus | Sub => TMinus | Mul => TStar | Div => TSlash end.
Fixpoint find_op (t:tok) (l:list (tok*bop)) : option bop :=
  match l with [] => None | (t',o)::r => if tok_eq_dec t t' then Some o else find_op t r end.

Section Loop.
  Variable operand : list tok -> option (expr * list tok).
  Variable ops : list (tok*bop).
  Fixpoint loop (f:nat) (acc:expr) (ts:list tok) : option (expr * list tok) :=
    match f with O => None | S f =>
    match ts with
    | t :: r => match find_op t ops with
                | Some o => match operand r with
                            | Some (rhs, r') => loop f (Bin o acc rhs) r'
                            | None => None end
                | None => Some (acc, ts) end
    | [] => Some (acc, ts) end end.
End Loop.

Fixpoint parse (f:nat) (lvl:nat) (ts:list tok) : option (expr * list tok) :=
  match f with O => None | S f =>
  match lvl with
  | 0 | 1 => match parse f (S lvl) ts with
             | Some (l, r) => loop (parse f (S lvl)) (ops_of lvl) f l r
             | None => None end
  | _ => match ts with
         | TMinus :: r => match parse f 2 r with Some (e, r') => Some (Neg e, r') | None => None end
         | TNum n :: r => Some (Num n, r)
         | TL :: r => match parse f 0 r with
                      | Some (e, TR :: r') => Some (Grp e, r')
                      | _ => None end
         | _ => None end
  end end.

Definition elvl (e:expr) : nat := match e with Bin o _ _ => lvl_of o | _ => 2 end.
Fixpoint body (e:expr) : list tok :=
  match e with
  | Num n => [TNum n]
  | Bin o l r => (if elvl l <? lvl_of o then TL :: body l ++ [TR] else body l) ++ [tok_of o]
                 ++ (if elvl r <? S (lvl_of o) then TL :: body r ++ [TR] else body r)
  | Neg x => TMinus :: (if elvl x <? 2 then TL :: body x ++ [TR] else body x)
  | Grp x => TL :: body x ++ [TR]
  end.
Definition pr (req:nat) (e:expr) : list tok := if elvl e <? req then TL :: body e ++ [TR] else body e.
Fixpoint core (e:expr) : expr :=
  match e with
  | Num n => Num n
  | Bin o l r => Bin o (if elvl l <? lvl_of o then Grp (core l) else core l)
                       (if elvl r <? S (lvl_of o) then Grp (core r) else core r)
  | Neg x => Neg (if elvl x <? 2 then Grp (core x) else core x)
  | Grp x => Grp (core x)
  end.
Definition exp (req:nat) (e:expr) : expr := if elvl e <? req then Grp (core e) else core e.

Lemma body_bin o l r : body (Bin o l r) = pr (lvl_of o) l ++ [tok_of o] ++ pr (S (lvl_of o)) r. Proof. reflexivity. Qed.
Lemma core_bin o l r : core (Bin o l r) = Bin o (exp (lvl_of o) l) (exp (S (lvl_of o)) r). Proof. reflexivity. Qed.

Definition stops (lvl:nat) (rest:list tok) : Prop :=
  match rest with [] => True | t :: _ => forall l, lvl <= l -> find_op t (ops_of l) = None end.
Fixpoint size (e:expr) : nat := match e with Num _ => 1 | Bin _ l r => 1 + size l + size r | Neg x => 1 + size x | Grp x => 1 + size x end.

(* ---- fuel monotonicity ---- *)
Lemma loop_mono op op' ops :
  (forall ts r, op ts = Some r -> op' ts = Some r) ->
  forall f acc ts r, loop op ops f acc ts = Some r -> forall f', f <= f' -> loop op' ops f' acc ts = Some r.
Proof.
  intros Hop. induction f as [|f IH]; intros acc ts r H f' Hf; [discriminate|].
  destruct f' as [|f']; [lia|]. cbn in *. destruct ts as [|t r0]; auto.
  destruct (find_op t ops); auto.
  destruct (op r0) as [[rhs r']|] eqn:E; [|discriminate]. rewrite (Hop _ _ E). apply IH; auto; lia.
Qed.

Lemma parse_S_low f lvl ts : lvl <= 1 -> parse (S f) lvl ts =
  match parse f (S lvl) ts with Some (l, r) => loop (parse f (S lvl)) (ops_of lvl) f l r | None => None end.
Proof. destruct lvl as [|[|]]; [reflexivity|reflexivity|lia]. Qed.
Lemma parse_S_hi f lvl ts : 2 <= lvl -> parse (S f) lvl ts =
  match ts with
  | TMinus :: r => match parse f 2 r with Some (e, r') => Some (Neg e, r') | None => None end
  | TNum n :: r => Some (Num n, r)
  | TL :: r => match parse f 0 r with Some (e, TR :: r') => Some (Grp e, r') | _ => None end
  | _ => None end.
Proof. destruct lvl as [|[|]]; [lia|lia|reflexivity]. Qed.

Lemma parse_mono_S : forall f lvl ts r, parse f lvl ts = Some r -> parse (S f) lvl ts = Some r.
Proof.
  induction f as [|f IH]; intros lvl ts r H; [discriminate|].
  destruct (le_lt_dec lvl 1) as [Hl|Hl].
  - rewrite parse_S_low in H by auto. rewrite parse_S_low by auto.
    destruct (parse f (S lvl) ts) as [[l r0]|] eqn:E; [|discriminate]. rewrite (IH _ _ _ E).
    eapply loop_mono; [|exact H|lia]. intros; apply IH; auto.
  - rewrite parse_S_hi in H by lia. rewrite parse_S_hi by lia.
    destruct ts as [|[] r0]; try discriminate; auto.
    + destruct (parse f 2 r0) as [[e r']|] eqn:E; [|discriminate]. rewrite (IH _ _ _ E). auto.
    + destruct (parse f 0 r0) as [[e [|[] r']]|] eqn:E; try discriminate. rewrite (IH _ _ _ E). auto.
Qed.
Lemma parse_mono : forall f f' lvl ts r, f <= f' -> parse f lvl ts = Some r -> parse f' lvl ts = Some r.
Proof. induction 1; auto. intros. apply parse_mono_S. auto. Qed.

(* ---- descending the ladder when the rest stops ---- *)
Lemma loop_stop op ops f acc rest : (match rest with [] => True | t::_ => find_op t ops = None end) ->
  loop op ops (S f) acc rest = Some (acc, rest).
Proof. destruct rest as [|t r]; cbn; auto. intros ->. auto. Qed.

Lemma descend : forall lvl f a ts rest, lvl <= 1 -> parse f (S lvl) ts = Some (a, rest) -> stops lvl rest ->
  parse (S (S f)) lvl ts = Some (a, rest).
Proof.
  intros lvl f a ts rest Hl H Hs.
  assert (H' := parse_mono_S _ _ _ _ H).
  rewrite parse_S_low by auto. rewrite H'. apply loop_stop.
  destruct rest; auto; try (apply Hs; lia).
Qed.

Lemma descend_to : forall lvl hi f a ts rest, lvl <= hi -> hi <= 2 -> parse f hi ts = Some (a, rest) -> stops lvl rest ->
  exists f', parse f' lvl ts = Some (a, rest).
Proof.
  intros lvl hi. remember (hi - lvl) as d. revert lvl hi Heqd.
  induction d as [|d IH]; intros lvl hi Hd f a ts rest H1 H2 H Hs.
  - assert (lvl = hi) by lia. subst. eauto.
  - destruct (IH (S lvl) hi ltac:(lia) f a ts rest ltac:(lia) H2 H) as [f' Hf'].
    { destruct rest; cbn in *; auto. intros; apply Hs; lia. }
    exists (S (S f')). apply descend; auto. lia.
Qed.

(* ---- left spine decomposition ---- *)
Fixpoint chain (lo:nat) (e:expr) : expr * list (bop*expr) :=
  match e with
  | Bin o l r => if lvl_of o =? lo then let '(h, tl) := chain lo l in (h, tl ++ [(o,r)]) else (e, [])
  | _ => (e, [])
  end.
Definition tl_toks (lo:nat) (tl:list (bop*expr)) : list tok := flat_map (fun '(o,r) => tok_of o :: pr (S lo) r) tl.
Definition tl_fold (lo:nat) (tl:list (bop*expr)) (acc:expr) : expr := fold_left (fun a '(o,r) => Bin o a (exp (S lo) r)) tl acc.

Lemma pr_same_gt lo e : lo < elvl e -> pr lo e = pr (S lo) e /\ exp lo e = exp (S lo) e.
Proof. intros H. unfold pr, exp.
  assert (elvl e <? lo = false) as -> by (apply Nat.ltb_ge; lia).
  assert (elvl e <? S lo = false) as -> by (apply Nat.ltb_ge; lia). auto. Qed.
Lemma pr_same_lt lo e : elvl e < lo -> pr lo e = pr (S lo) e /\ exp lo e = exp (S lo) e.
Proof. intros H. unfold pr, exp.
  assert (elvl e <? lo = true) as -> by (apply Nat.ltb_lt; lia).
  assert (elvl e <? S lo = true) as -> by (apply Nat.ltb_lt; lia). auto. Qed.
Lemma pr_self e : pr (elvl e) e = body e /\ exp (elvl e) e = core e.
Proof. unfold pr, exp. rewrite Nat.ltb_irrefl. auto. Qed.

Lemma pr0 e : pr 0 e = body e /\ exp 0 e = core e.
Proof. unfold pr, exp. assert (elvl e <? 0 = false) as -> by (apply Nat.ltb_ge; lia). auto. Qed.
Lemma chain_leaf lo e : lo <= 1 -> lo < elvl e -> chain lo e = (e, []).
Proof. intros. destruct e; cbn in *; auto. destruct (lvl_of o =? lo) eqn:E; auto. apply Nat.eqb_eq in E. lia. Qed.
Lemma chain_lt lo e : elvl e < lo -> chain lo e = (e, []).
Proof. intros. destruct e; cbn in *; auto. destruct (lvl_of o =? lo) eqn:E; auto. apply Nat.eqb_eq in E. lia. Qed.

Definition chain_ok lo e h tl : Prop :=
  elvl h <> lo /\
  pr lo e = pr (S lo) h ++ tl_toks lo tl /\ exp lo e = tl_fold lo tl (exp (S lo) h) /\
  size h <= size e /\ Forall (fun '(o,r) => lvl_of o = lo /\ size r < size e) tl /\ (tl = [] \/ size h < size e).

Lemma chain_spec lo : lo <= 1 -> forall e h tl, chain lo e = (h, tl) -> elvl e <> lo \/ True ->
  (lo <= elvl e \/ elvl e < lo) -> chain_ok lo e h tl.
Proof.
  intros Hlo. induction e as [n|o l IHl r IHr|x IHx|x IHx]; intros h tl Hc _ Hcase.
  2:{ destruct (Nat.eq_dec (lvl_of o) lo) as [E|E].
      - cbn [chain] in Hc. rewrite (proj2 (Nat.eqb_eq _ _) E) in Hc.
        destruct (chain lo l) as [h0 tl0] eqn:Ec. inversion Hc; subst h tl. clear Hc.
        destruct (IHl h0 tl0 eq_refl (or_intror I) ltac:(lia)) as [H1 [H3 [H4 [H5 [H6 H7]]]]].
        destruct (pr_self (Bin o l r)) as [Hp He]. cbn [elvl] in Hp, He. rewrite E in Hp, He.
        unfold chain_ok. rewrite Hp, He, body_bin, core_bin, E, H3, H4.
        unfold tl_toks, tl_fold in *. rewrite flat_map_app, fold_left_app. cbn [flat_map fold_left].
        rewrite app_nil_r, <- !app_assoc. cbn [app size]. repeat split; auto; try lia.
        + apply Forall_app; split.
          * eapply Forall_impl; [|exact H6]. intros [o' r'] [? ?]; split; auto; lia.
          * constructor; auto. split; auto. lia.
      - assert (Hx : chain lo (Bin o l r) = (Bin o l r, [])).
        { cbn [chain]. rewrite (proj2 (Nat.eqb_neq _ _) E). auto. }
        rewrite Hx in Hc. inversion Hc; subst h tl. unfold chain_ok, tl_toks, tl_fold. cbn [flat_map fold_left elvl].
        rewrite app_nil_r.
        assert (pr lo (Bin o l r) = pr (S lo) (Bin o l r) /\ exp lo (Bin o l r) = exp (S lo) (Bin o l r)) as [-> ->].
        { cbn [elvl] in Hcase. destruct Hcase; [apply pr_same_gt|apply pr_same_lt]; cbn [elvl]; lia. }
        repeat split; auto; try lia. }
  all: cbn [chain] in Hc; inversion Hc; subst h tl; unfold chain_ok, tl_toks, tl_fold; cbn [flat_map fold_left];
       rewrite app_nil_r.
  - destruct (pr_same_gt lo (Num n)) as [-> ->]; [cbn [elvl]; lia|]. cbn [elvl]. repeat split; auto; lia.
  - destruct (pr_same_gt lo (Neg x)) as [-> ->]; [cbn [elvl]; lia|]. cbn [elvl]. repeat split; auto; lia.
  - destruct (pr_same_gt lo (Grp x)) as [-> ->]; [cbn [elvl]; lia|]. cbn [elvl]. repeat split; auto; lia.
Qed.

Lemma find_tok_of o : find_op (tok_of o) (ops_of (lvl_of o)) = Some o.
Proof. destruct o; reflexivity. Qed.

Definition M (e:expr) : Prop := forall req lvl rest, lvl <= req -> req <= 2 -> stops lvl rest ->
  exists f, parse f lvl (pr req e ++ rest) = Some (exp req e, rest).

Lemma tl_toks_cons lo o r tl : tl_toks lo ((o,r)::tl) = tok_of o :: pr (S lo) r ++ tl_toks lo tl.
Proof. reflexivity. Qed.
Lemma tl_fold_cons lo o r tl acc : tl_fold lo ((o,r)::tl) acc = tl_fold lo tl (Bin o acc (exp (S lo) r)).
Proof. reflexivity. Qed.
Lemma loop_S op ops f acc t r : loop op ops (S f) acc (t :: r) =
  match find_op t ops with
  | Some o => match op r with Some (rhs, r') => loop op ops f (Bin o acc rhs) r' | None => None end
  | None => Some (acc, t :: r) end.
Proof. reflexivity. Qed.
(* the loop eats a printed tail *)
Lemma loop_tail lo : lo <= 1 -> forall tl, Forall (fun '(o,r) => lvl_of o = lo /\ M r) tl ->
  forall rest, stops lo rest -> forall acc, exists f0, forall f fl, f0 <= f -> f0 <= fl ->
  loop (parse f (S lo)) (ops_of lo) fl acc (tl_toks lo tl ++ rest) = Some (tl_fold lo tl acc, rest).
Proof.
  intros Hlo. induction tl as [|[o r] tl IH]; intros HF rest Hs acc.
  - exists 1. intros f fl _ Hfl. destruct fl; [lia|]. cbn [tl_toks flat_map tl_fold fold_left app].
    apply loop_stop. destruct rest; auto; try (apply Hs; lia).
  - inversion HF as [|? ? Hhd HF']; subst. cbn beta iota in Hhd. destruct Hhd as [Ho Hr]. subst lo.
    destruct (IH HF' rest Hs (Bin o acc (exp (S (lvl_of o)) r))) as [f1 H1].
    assert (Hs' : stops (S (lvl_of o)) (tl_toks (lvl_of o) tl ++ rest)).
    { destruct tl as [|[o2 r2] tl2]; cbn.
      - destruct rest; cbn in *; auto. intros; apply Hs; lia.
      - inversion HF' as [|? ? Hhd2 _]; subst. cbn beta iota in Hhd2. destruct Hhd2 as [Ho2 _]. intros l Hl.
        destruct o2, l as [|[|l]]; cbn in *; try lia; auto. }
    destruct (Hr (S (lvl_of o)) (S (lvl_of o)) _ ltac:(lia) ltac:(lia) Hs') as [f2 H2].
    exists (S (f1 + f2)). intros f fl Hf Hfl. destruct fl as [|fl]; [lia|].
    rewrite tl_toks_cons, tl_fold_cons. cbn [app]. rewrite <- app_assoc. rewrite loop_S.
    rewrite find_tok_of. rewrite (parse_mono f2 f _ _ _ ltac:(lia) H2).
    apply H1; lia.
Qed.

Theorem parse_pr : forall n e, size e <= n -> M e.
Proof.
  induction n as [|n IH]; intros e Hn; [destruct e; cbn in Hn; lia|].
  assert (Hbody : forall lvl rest, lvl <= elvl e -> stops lvl rest ->
            exists f, parse f lvl (body e ++ rest) = Some (core e, rest)).
  { intros lvl rest Hl Hs.
    destruct e as [k|o l r|x|x].
    - (* Num *) apply (descend_to lvl 2 1); cbn in *; auto; lia.
    - (* Bin: work at level lo = lvl_of o through the spine *)
      set (lo := lvl_of o). assert (Hlo : lo <= 1) by (destruct o; cbn; lia).
      destruct (chain lo (Bin o l r)) as [h tl] eqn:Ec.
      destruct (chain_spec lo Hlo _ h tl Ec (or_intror I) ltac:(cbn [elvl]; fold lo; lia)) as [H1 [H3 [H4 [H5 [H6 H7]]]]].
      assert (Hne : tl <> []).
      { cbn [chain] in Ec. fold lo in Ec. rewrite Nat.eqb_refl in Ec. destruct (chain lo l). inversion Ec. destruct l0; discriminate. }
      destruct H7 as [H7|H7]; [contradiction|].
      assert (Hpr : pr lo (Bin o l r) = body (Bin o l r) /\ exp lo (Bin o l r) = core (Bin o l r)) by apply (pr_self (Bin o l r)).
      destruct Hpr as [Hp He]. rewrite <- Hp, <- He, H3, H4, <- app_assoc.
      assert (Hs0 : stops lo rest). { destruct rest; cbn in *; auto. intros; apply Hs; cbn in Hl; lia. }
      assert (HF : Forall (fun '(o0, r0) => lvl_of o0 = lo /\ M r0) tl).
      { eapply Forall_impl; [|exact H6]. intros [o0 r0] [? ?]; split; auto. apply IH. lia. }
      destruct (loop_tail lo Hlo tl HF rest Hs0 (exp (S lo) h)) as [f1 Hl1].
      assert (Hsh : stops (S lo) (tl_toks lo tl ++ rest)).
      { destruct tl as [|[o2 r2] tl2]; [contradiction|]. inversion HF as [|? ? Hhd2 _]; subst. cbn beta iota in Hhd2. destruct Hhd2 as [Ho2 _]. cbn.
        intros l0 Hl0. destruct o2, l0 as [|[|l0]]; cbn in *; try lia; auto. }
      assert (Mh : M h) by (apply IH; lia).
      destruct (Mh (S lo) (S lo) _ ltac:(lia) ltac:(lia) Hsh) as [f2 Hf2].
      assert (Hat : parse (S (f1 + f2)) lo (pr (S lo) h ++ tl_toks lo tl ++ rest) = Some (tl_fold lo tl (exp (S lo) h), rest)).
      { rewrite parse_S_low by auto.
        rewrite (parse_mono f2 (f1+f2) _ _ _ ltac:(lia) Hf2). apply Hl1; lia. }
      eapply descend_to; [| |exact Hat|]; auto; cbn in Hl; fold lo in Hl; lia.
    - (* Neg *)
      assert (Mx : M x) by (apply IH; cbn in Hn; lia).
      assert (Hsx : stops 2 rest). { destruct rest; cbn in *; auto. intros l0 Hl0. destruct l0 as [|[|l0]]; try lia; auto. }
      destruct (Mx 2 2 rest ltac:(lia) ltac:(lia) Hsx) as [f Hf].
      apply (descend_to lvl 2 (S f)); cbn in Hl; try lia; auto.
      rewrite parse_S_hi by lia. cbn [body app]. fold (pr 2 x). rewrite Hf. cbn [core]. fold (exp 2 x). auto.
    - (* Grp *)
      assert (Mx : M x) by (apply IH; cbn in Hn; lia).
      assert (Hsx : stops 0 (TR :: rest)). { cbn. intros l0 _. destruct l0 as [|[|l0]]; auto. }
      destruct (Mx 0 0 (TR :: rest) ltac:(lia) ltac:(lia) Hsx) as [f Hf].
      apply (descend_to lvl 2 (S f)); cbn in Hl; try lia; auto.
      rewrite parse_S_hi by lia. cbn [body app]. rewrite <- app_assoc. cbn [app].
      destruct (pr0 x) as [Hp0 He0]. rewrite Hp0, He0 in Hf. rewrite Hf. auto. }
  intros req lvl rest Hlr Hr2 Hs. unfold pr, exp.
  destruct (elvl e <? req) eqn:E.
  - (* parenthesised: a primary *)
    assert (Hsx : stops 0 (TR :: rest)). { cbn. intros l0 _. destruct l0 as [|[|l0]]; auto. }
    destruct (Hbody 0 (TR :: rest) ltac:(lia) Hsx) as [f Hf].
    apply (descend_to lvl 2 (S f)); try lia; auto.
    rewrite parse_S_hi by lia. cbn [app]. rewrite <- app_assoc. cbn [app]. rewrite Hf. auto.
  - apply Nat.ltb_ge in E. apply Hbody; auto. lia.
Qed.

Corollary roundtrip : forall e rest, stops 0 rest -> exists f, parse f 0 (pr 0 e ++ rest) = Some (exp 0 e, rest).
Proof. intros. eapply parse_pr; eauto. Qed.
Print Assumptions roundtrip.
