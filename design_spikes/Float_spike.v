From Coq Require Import Floats ZArith Bool List.
Import ListNotations.
Open Scope Z_scope.
Definition prec := 53. Definition emax := 1024.
Definition mag (f:float) : option (Z*Z) := match Prim2SF f with S754_finite _ m e => Some (Zpos m, e) | S754_zero _ => Some (0,0) | _ => None end.
Definition sign (f:float) : bool := match Prim2SF f with S754_zero s | S754_infinity s | S754_finite s _ _ => s | S754_nan => false end.
Definition of_mag (s:bool) (m e:Z) : float :=
  if m =? 0 then (if s then (-0)%float else 0%float)
  else SF2Prim (binary_normalize prec emax (if s then - m else m) e false).
Definition fmod (a b:float) : float :=
  match Prim2SF a, Prim2SF b with
  | S754_nan, _ | _, S754_nan | S754_infinity _, _ | _, S754_zero _ => nan
  | _, S754_infinity _ => a
  | S754_zero _, _ => a
  | S754_finite sa ma ea, S754_finite _ mb eb =>
      let e := Z.min ea eb in
      let A := Zpos ma * 2 ^ (ea - e) in let B := Zpos mb * 2 ^ (eb - e) in
      of_mag sa (A mod B) e
  end.
Definition to_usize (f:float) : Z :=
  match Prim2SF f with
  | S754_nan | S754_zero _ => 0
  | S754_infinity s => if s then 0 else 2^64-1
  | S754_finite s m e => if s then 0 else Z.min (2^64-1) (if e >=? 0 then Zpos m * 2^e else Zpos m / 2^(-e))
  end.
Open Scope float_scope.
Eval vm_compute in map (fun '(a,b) => fmod a b) [(5,-3);(-5,3);(5.5,2);(1e308,3);(0.3,0.1);(-0,1);(5e-324,3);(1,5e-324);(7,infinity)].
Eval vm_compute in map to_usize [2.9; -3; 0.5; 1e30; nan; infinity; 18446744073709551615; 3].
