From Coq Require Import List Arith Lia Bool.
Import ListNotations.

Inductive stmt :=
| Print (n:nat) | Brk | Cont | Ret (n:nat)
| Block (ss:list stmt) | If (c:bool) (t:stmt) (e:stmt) | Loop (k:nat) (b:stmt).

Fixpoint wf (inl:bool) (s:stmt) : bool :=
  match s with
  | Print _ | Ret _ => true
  | Brk | Cont => inl
  | Block ss => forallb (wf inl) ss
  | If _ t e => wf inl t && wf inl e
  | Loop _ b => wf true b
  end.

Inductive sig := Normal | SBrk | SCont | SRet (n:nat).
Inductive res (A:Type) := Ok (a:A) | Fuel.
Arguments Ok {A}. Arguments Fuel {A}.

(* ---------- Spec ---------- *)
Section SpecHelpers.
  Variable ex : stmt -> list nat -> res (sig * list nat).
  Fixpoint s_block (ss:list stmt) (out:list nat) : res (sig * list nat) :=
    match ss with
    | [] => Ok (Normal, out)
    | s :: r => match ex s out with
                | Fuel => Fuel
                | Ok (Normal, out') => s_block r out'
                | Ok (sg, out') => Ok (sg, out') end end.
  Fixpoint s_loop (b:stmt) (k:nat) (out:list nat) : res (sig * list nat) :=
    match k with
    | O => Ok (Normal, out)
    | S k' => match ex b out with
              | Fuel => Fuel
              | Ok (SBrk, out') => Ok (Normal, out')
              | Ok (SRet n, out') => Ok (SRet n, out')
              | Ok (_, out') => s_loop b k' out' end end.
End SpecHelpers.

Fixpoint sexec (f:nat) (s:stmt) (out:list nat) : res (sig * list nat) :=
  match f with O => Fuel | S f =>
  match s with
  | Print n => Ok (Normal, out ++ [n])
  | Brk => Ok (SBrk, out) | Cont => Ok (SCont, out)
  | Ret n => Ok (SRet n, out)
  | Block ss => s_block (sexec f) ss out
  | If c t e => sexec f (if c then t else e) out
  | Loop k b => s_loop (sexec f) b k out
  end end.

(* ---------- Impl ---------- *)
Record st := mk { out_ : list nat; loops : list (bool*bool); retv : option nat }.
Definition set_top (f:bool*bool -> bool*bool) (l:list (bool*bool)) :=
  match l with [] => [] | x::r => f x :: r end.
Definition pending (s:st) : bool :=
  match retv s with Some _ => true | None =>
  match loops s with (b,c)::_ => b || c | [] => false end end.

Section ImplHelpers.
  Variable ex : stmt -> st -> res st.
  Fixpoint i_block (ss:list stmt) (x:st) : res st :=
    match ss with
    | [] => Ok x
    | s :: r => if pending x then Ok x else
                match ex s x with Fuel => Fuel | Ok x' => i_block r x' end end.
  Fixpoint i_loop (b:stmt) (k:nat) (x:st) : res st :=
    match k with
    | O => Ok x
    | S k' => match ex b x with
              | Fuel => Fuel
              | Ok x' =>
                 match retv x' with Some _ => Ok x' | None =>
                 match loops x' with
                 | (_, true) :: r => i_loop b k' (mk (out_ x') ((false,false)::r) None)
                 | (true, _) :: r => Ok (mk (out_ x') ((false,false)::r) None)
                 | _ => i_loop b k' x' end end end end.
End ImplHelpers.

Fixpoint iexec (f:nat) (s:stmt) (x:st) : res st :=
  match f with O => Fuel | S f =>
  match s with
  | Print n => Ok (mk (out_ x ++ [n]) (loops x) (retv x))
  | Brk => Ok (mk (out_ x) (set_top (fun '(_,c) => (true,c)) (loops x)) (retv x))
  | Cont => Ok (mk (out_ x) (set_top (fun '(b,_) => (b,true)) (loops x)) (retv x))
  | Ret n => Ok (mk (out_ x) (loops x) (Some n))
  | Block ss => i_block (iexec f) ss x
  | If c t e => iexec f (if c then t else e) x
  | Loop k b =>
      match i_loop (iexec f) b k (mk (out_ x) ((false,false) :: loops x) (retv x)) with
      | Fuel => Fuel
      | Ok x' => Ok (mk (out_ x') (tl (loops x')) (retv x'))
      end
  end end.

(* entry condition and the encoding of signals by flags *)
Definition clean (inl:bool) (x:st) : Prop :=
  retv x = None /\ (inl = true -> exists r, loops x = (false,false)::r)
  /\ match loops x with (b,c)::_ => b = false /\ c = false | [] => True end.

Definition encodes (inl:bool) (x x':st) (sg:sig) : Prop :=
  match sg with
  | Normal => retv x' = None /\ loops x' = loops x
  | SRet n => retv x' = Some n /\ loops x' = loops x
  | SBrk => inl = true /\ retv x' = None /\ exists r, loops x = (false,false)::r /\ loops x' = (true,false)::r
  | SCont => inl = true /\ retv x' = None /\ exists r, loops x = (false,false)::r /\ loops x' = (false,true)::r
  end.

Definition related (inl:bool) (x:st) (rs:res (sig*list nat)) (ri:res st) : Prop :=
  match rs, ri with
  | Fuel, Fuel => True
  | Ok (sg, o), Ok x' => out_ x' = o /\ encodes inl x x' sg
  | _, _ => False
  end.

Definition sim (inl:bool) (es : stmt -> list nat -> res (sig*list nat)) (ei : stmt -> st -> res st) (s:stmt) : Prop :=
  forall x, clean inl x -> related inl x (es s (out_ x)) (ei s x).

Lemma clean_not_pending inl x : clean inl x -> (inl = false -> loops x = loops x) ->
  (match loops x with (b,c)::_ => b = false /\ c = false | [] => True end) -> pending x = false.
Proof. intros [Hr _] _ H. unfold pending. rewrite Hr. destruct (loops x) as [|[b c] ?]; auto. destruct H; subst; auto. Qed.

Lemma block_sim inl es ei ss :
  Forall (sim inl es ei) ss ->
  forall x, clean inl x ->
    related inl x (s_block es ss (out_ x)) (i_block ei ss x).
Proof.
  induction 1 as [|s r Hs Hr IH]; intros x Hc.
  - cbn. destruct Hc as [? [? ?]]. auto.
  - cbn [s_block i_block].
    assert (Hp : pending x = false).
    { unfold pending. destruct Hc as [Hrv [Hl Hf]]. rewrite Hrv.
      destruct (loops x) as [|[b c] ?]; auto. destruct Hf; subst; auto. }
    rewrite Hp. specialize (Hs x Hc). unfold related in Hs.
    destruct (es s (out_ x)) as [[sg o]|], (ei s x) as [x'|]; try contradiction; auto.
    destruct Hs as [Ho He].
    destruct sg; cbn in He.
    + destruct He as [Hrv Hlp].
      assert (Hc' : clean inl x'). { split; auto. rewrite Hlp. apply Hc. }
      specialize (IH x' Hc'). rewrite Ho in IH. unfold related in *.
      destruct (s_block es r o) as [[sg2 o2]|], (i_block ei r x') as [x2|]; try contradiction; auto.
      destruct IH as [Ho2 He2]. split; auto.
      destruct sg2; cbn in *; rewrite <- ?Hlp; auto.
    + destruct He as [Hi [Hrv [r0 [Ha Hb]]]].
      assert (pending x' = true) by (unfold pending; rewrite Hrv, Hb; auto).
      destruct r as [|s2 r2]; cbn [i_block]; [|rewrite H]; cbn; eauto 8.
    + destruct He as [Hi [Hrv [r0 [Ha Hb]]]].
      assert (pending x' = true) by (unfold pending; rewrite Hrv, Hb; auto).
      destruct r as [|s2 r2]; cbn [i_block]; [|rewrite H]; cbn; eauto 8.
    + destruct He as [Hrv Hlp].
      assert (pending x' = true) by (unfold pending; rewrite Hrv; auto).
      destruct r as [|s2 r2]; cbn [i_block]; [|rewrite H]; cbn; eauto.
Qed.

Lemma loop_sim es ei b k :
  sim true es ei b ->
  forall x r, retv x = None -> loops x = (false,false)::r ->
  match s_loop es b k (out_ x), i_loop ei b k x with
  | Fuel, Fuel => True
  | Ok (sg, o), Ok x' => out_ x' = o /\ loops x' = (false,false)::r /\
        match sg with Normal => retv x' = None | SRet n => retv x' = Some n | _ => False end
  | _, _ => False end.
Proof.
  intros Hb. induction k as [|k IH]; intros x r Hrv Hl.
  - cbn. auto.
  - cbn [s_loop i_loop].
    assert (Hc : clean true x) by (split; [auto|split; [eauto|rewrite Hl; auto]]).
    specialize (Hb x Hc). unfold related in Hb.
    destruct (es b (out_ x)) as [[sg o]|], (ei b x) as [x'|]; try contradiction; auto.
    destruct Hb as [Ho He]. destruct sg; cbn in He.
    + destruct He as [Hrv' Hl']. rewrite Hrv'. rewrite Hl', Hl. rewrite <- Ho.
      apply IH; congruence.
    + destruct He as [_ [Hrv' [r0 [Ha Hb']]]]. rewrite Hrv', Hb'. cbn.
      rewrite Hl in Ha. inversion Ha; subst. auto.
    + destruct He as [_ [Hrv' [r0 [Ha Hb']]]]. rewrite Hrv', Hb'.
      rewrite Hl in Ha. inversion Ha; subst.
      specialize (IH (mk (out_ x') ((false,false)::r0) None) r0 eq_refl eq_refl). cbn in IH. exact IH.
    + destruct He as [Hrv' Hl']. rewrite Hrv'. cbn. rewrite Hl', Hl. auto.
Qed.

Theorem refine : forall f s inl, wf inl s = true -> sim inl (sexec f) (iexec f) s.
Proof.
  induction f as [|f IH]; intros s inl Hwf x Hc; [exact I|].
  destruct s; cbn [sexec iexec wf] in *.
  - destruct Hc as [? [? ?]]. cbn. auto.
  - subst inl. destruct Hc as [Hrv [Hl _]]. destruct (Hl eq_refl) as [r Hr]. cbn. rewrite Hr. cbn. eauto 8.
  - subst inl. destruct Hc as [Hrv [Hl _]]. destruct (Hl eq_refl) as [r Hr]. cbn. rewrite Hr. cbn. eauto 8.
  - cbn. auto.
  - apply block_sim; auto.
    rewrite forallb_forall in Hwf. apply Forall_forall. intros s Hs. apply IH. auto.
  - apply andb_prop in Hwf as [Ht He]. destruct c; apply IH; auto.
  - pose proof (loop_sim (sexec f) (iexec f) s k (IH s true Hwf)
                 (mk (out_ x) ((false,false)::loops x) (retv x)) (loops x) (proj1 Hc) eq_refl) as H.
    cbn [out_] in H. unfold related.
    destruct (s_loop (sexec f) s k (out_ x)) as [[sg o]|], (i_loop _ _ _ _) as [x'|]; try contradiction; auto.
    destruct H as [Ho [Hl Hs]]. cbn. rewrite Hl. cbn.
    destruct sg; try contradiction; cbn; auto.
Qed.
Print Assumptions refine.
