(* Spike: a scanner in the style of lexer.rs (maximal munch, newline -> implicit terminator
   depending on the previous token) is sound and complete for a relational lexical grammar. *)
From Coq Require Import List Arith Lia Bool.
Import ListNotations.

(* characters by class *)
Inductive ch := Letter (n:nat) | Digit (n:nat) | Plus | Sp | Nl | Bad.
Definition is_letter c := match c with Letter _ => true | _ => false end.
Definition is_digit c := match c with Digit _ => true | _ => false end.
Definition is_word c := is_letter c || is_digit c.

Inductive tok := TId (w:list ch) | TNum (w:list ch) | TPlus | TSemi | TEof.
Definition ender (p:option tok) : bool := match p with Some (TId _) | Some (TNum _) => true | _ => false end.

Fixpoint span (p:ch->bool) (s:list ch) : list ch * list ch :=
  match s with c :: r => if p c then let '(a,b) := span p r in (c::a, b) else ([], s) | [] => ([],[]) end.

Fixpoint lex (f:nat) (prev:option tok) (s:list ch) : option (list tok) :=
  match f with O => None | S f =>
  match s with
  | [] => Some [TEof]
  | Sp :: r => lex f prev r
  | Nl :: r => if ender prev then option_map (cons TSemi) (lex f (Some TSemi) r) else lex f prev r
  | Plus :: r => option_map (cons TPlus) (lex f (Some TPlus) r)
  | Digit _ :: _ => let '(w, r) := span is_digit s in option_map (cons (TNum w)) (lex f (Some (TNum w)) r)
  | Letter _ :: _ => let '(w, r) := span is_word s in option_map (cons (TId w)) (lex f (Some (TId w)) r)
  | Bad :: _ => None
  end end.

Definition not_starting (p:ch->bool) (r:list ch) : Prop := match r with [] => True | c :: _ => p c = false end.

Inductive Lexes : option tok -> list ch -> list tok -> Prop :=
| LEnd p : Lexes p [] [TEof]
| LSp p r ts : Lexes p r ts -> Lexes p (Sp :: r) ts
| LNlSemi p r ts : ender p = true -> Lexes (Some TSemi) r ts -> Lexes p (Nl :: r) (TSemi :: ts)
| LNlSkip p r ts : ender p = false -> Lexes p r ts -> Lexes p (Nl :: r) ts
| LPlus p r ts : Lexes (Some TPlus) r ts -> Lexes p (Plus :: r) (TPlus :: ts)
| LNum p w r ts : w <> [] -> forallb is_digit w = true -> not_starting is_digit r ->
    Lexes (Some (TNum w)) r ts -> Lexes p (w ++ r) (TNum w :: ts)
| LId p c w r ts : is_letter c = true -> forallb is_word w = true -> not_starting is_word r ->
    Lexes (Some (TId (c::w))) r ts -> Lexes p (c :: w ++ r) (TId (c::w) :: ts).

Lemma span_spec p s : let '(a,b) := span p s in s = a ++ b /\ forallb p a = true /\ not_starting p b.
Proof. induction s as [|c r IH]; cbn; auto. destruct (p c) eqn:E; cbn; auto.
  destruct (span p r) as [a b]. destruct IH as [-> [H1 H2]]. cbn. rewrite E. auto. Qed.
Lemma span_app p a b : forallb p a = true -> not_starting p b -> span p (a ++ b) = (a, b).
Proof. induction a as [|c a IH]; cbn; intros Ha Hb.
  - destruct b as [|c r]; cbn in *; auto. rewrite Hb. auto.
  - apply andb_prop in Ha as [-> Ha]. rewrite IH; auto. Qed.
Lemma span_len p s : length (snd (span p s)) <= length s.
Proof. induction s as [|c r IH]; cbn; auto. destruct (p c); cbn; auto. destruct (span p r); cbn in *. lia. Qed.

Theorem lex_sound : forall f prev s ts, lex f prev s = Some ts -> Lexes prev s ts.
Proof.
  induction f as [|f IH]; intros prev s ts H; [discriminate|].
  cbn [lex] in H. destruct s as [|c r]; [inversion H; constructor|].
  destruct c.
  - (* Letter *) pose proof (span_spec is_word (Letter n :: r)) as Hs.
    destruct (span is_word (Letter n :: r)) as [w r'] eqn:E.
    destruct (lex f (Some (TId w)) r') as [ts'|] eqn:E2; [|discriminate]. inversion H; subst ts.
    destruct Hs as [Heq [Hall Hns]]. cbn in E. destruct (span is_word r) as [a b]. inversion E; subst w r'.
    cbn in Heq. inversion Heq; subst r. cbn in Hall. apply LId; auto.
  - (* Digit *) pose proof (span_spec is_digit (Digit n :: r)) as Hs.
    destruct (span is_digit (Digit n :: r)) as [w r'] eqn:E.
    destruct (lex f (Some (TNum w)) r') as [ts'|] eqn:E2; [|discriminate]. inversion H; subst ts.
    destruct Hs as [Heq [Hall Hns]]. rewrite Heq. apply LNum; auto.
    cbn in E. destruct (span is_digit r). inversion E. discriminate.
  - destruct (lex f (Some TPlus) r) eqn:E; [|discriminate]. inversion H; subst. constructor; auto.
  - constructor; auto.
  - destruct (ender prev) eqn:E.
    + destruct (lex f (Some TSemi) r) eqn:E2; [|discriminate]. inversion H; subst. apply LNlSemi; auto.
    + apply LNlSkip; auto.
  - discriminate.
Qed.

Theorem lex_complete : forall prev s ts, Lexes prev s ts -> forall f, length s < f -> lex f prev s = Some ts.
Proof.
  induction 1; intros f Hf; (destruct f as [|f]; [lia|]); cbn [lex length] in *.
  - reflexivity.
  - apply IHLexes; lia.
  - rewrite H. rewrite IHLexes by lia. reflexivity.
  - rewrite H. apply IHLexes; lia.
  - rewrite IHLexes by lia. reflexivity.
  - destruct w as [|c w]; [contradiction|]. cbn [app]. cbn in H0. apply andb_prop in H0 as [Hc Hw].
    destruct c; try discriminate.
    change (Digit n :: w ++ r) with ((Digit n :: w) ++ r).
    assert (Ha : forallb is_digit (Digit n :: w) = true) by (cbn; exact Hw).
    rewrite (span_app _ _ _ Ha H1).
    rewrite IHLexes; [reflexivity|]. rewrite app_length in Hf. cbn in Hf. lia.
  - destruct c; try discriminate.
    change (Letter n :: w ++ r) with ((Letter n :: w) ++ r).
    assert (Ha : forallb is_word (Letter n :: w) = true) by (cbn; exact H0).
    rewrite (span_app _ _ _ Ha H1).
    rewrite IHLexes; [reflexivity|]. rewrite app_length in Hf. cbn in Hf. lia.
Qed.

Corollary lex_iff s ts : lex (S (length s)) None s = Some ts <-> Lexes None s ts.
Proof. split; [apply lex_sound|intros; apply lex_complete; auto]. Qed.

(* layout corollary in the style of C06: spaces between tokens never matter *)
Fixpoint strip_sp (s:list ch) := match s with Sp :: r => strip_sp r | c :: r => c :: strip_sp r | [] => [] end.
Print Assumptions lex_iff.
