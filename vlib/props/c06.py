"""C06 — layout, comments and keyword case never change a program's meaning."""
from vlib import common as C
from vlib import lexgen as G
from vlib import runchan as R
from vlib import semgen as S
from vlib.runner import PropCheck, Case

ENDERS = {"Identifier", "Number", "StringLiteral", "Null", "True", "False", "Break", "Continue", "Return", "RightParen",
          "RightBracket", "RightBrace"}
KEYWORD_KINDS = {"Mod", "If", "Else", "Repeat", "Times", "Until", "For", "Each", "Continue", "Break", "In", "Procedure", "Return", "Not",
                 "And", "Or", "True", "False", "Null", "Import", "Export", "From"}


def wordlike(kind):
    return kind in KEYWORD_KINDS or kind in ("Identifier", "Number")


def fuses(a, b):
    (ka, ta), (kb, tb) = a, b
    if wordlike(ka) and wordlike(kb):
        return True
    if ka == "Number" and tb == "." or ta == "." and kb == "Number":
        return True
    return (ta[-1] + tb[0]) in ("<-", "<=", ">=", "==", "!=", "//", "\\\n")


def vary(tokens, rng):
    """tokens: [(kind, text)] of the canonical program incl. SoftSemi entries; a random rendering with the same token sequence"""
    out = []
    n = len(tokens)
    i = 0
    while i < n:
        kind, text = tokens[i]
        if kind == "Eof":
            break
        if kind == "SoftSemi":
            r = rng.random()
            prev = tokens[i - 1][0] if i else None
            # a terminator: ';' anywhere, a newline only after a statement-ending token
            if prev in ENDERS and r < 0.6:
                # a continuation right before the terminating newline is still just trivia
                out.append(rng.choice(["\n", "\r\n", " \n", "\n", " // c é \"\n", "\t\n", " \\\n\n", " \\\n // c\n", " \\\n \t\r\n"]))
            else:
                out.append(rng.choice([";", " ;", "; "]))
            # blank lines / more blanks after a terminator never add tokens (prev token is now SoftSemi)
            if rng.random() < 0.3:
                out.append(rng.choice(["\n", "\n\n", "  ", "\n // only a comment\n", "\t"]))
            i += 1
            continue
        if kind in KEYWORD_KINDS and rng.random() < 0.5:
            text = text.lower() if text.isupper() else text.upper()
        out.append(text)
        nxt = tokens[i + 1] if i + 1 < n else None
        if nxt is not None and nxt[0] not in ("SoftSemi", "Eof"):
            choices = [" ", " ", "  ", "\t", " \\\n", " \r", " \\\n  "]
            if not fuses((kind, tokens[i][1]), nxt):
                choices += ["", ""]
            if kind not in ENDERS:
                choices += ["\n", "\n\n", " // k\n", "\r\n"]
            out.append(rng.choice(choices))
        i += 1
    if rng.random() < 0.3:
        out.append(rng.choice(["\n", " ", "// end", "\n\n"]))
    return "".join(out)


class PROP(PropCheck):
    id = "C06"
    mismatch_is_failure = False
    theorems = ["C06_keywords_both_cases", "C06_end_set_is_reference", "C06_trivia_produces_no_token", "C06_newline_after_ender_terminates", "C06_semicolon_is_terminator",
                "C06_lex_render", "C06_layouts_same_views", "C06_keyword_case_same_view", "C06_layout_example", "C06_parse_view",
                "C06_eval_span_invariant", "C06_layout_never_changes_meaning", "C06_same_views_same_meaning"]
    audit_modules = ["C06", "C06b", "C06c", "C06d", "C06e"]
    coq_imports = ["Obs"]
    model_targets = ["theories/Obs.vo"]
    prop_targets = ["theories/Props/C06.vo", "theories/Props/C06b.vo", "theories/Props/C06c.vo", "theories/Props/C06d.vo", "theories/Props/C06e.vo"]
    harness_mode = "run"
    trusted_base = [
        "Coq 8.16.1 kernel and bytecode VM",
        "translator: keyword table (both spellings), blank characters, implicit-terminator set regenerated from the source; theorems over them",
        "scanner, parser and evaluator models tied to the code by K1/K3 on every rendering; direct oracle: the varied rendering yields the same "
        "token kinds / literals and the same output as the canonical rendering on the implementation",
    ]
    rule = ("running programs (control flow, procedures, lists) rendered canonically, then re-rendered with an independent random choice at every "
            "token boundary among the separators the termination rule allows there (nothing where the tokens do not fuse, blanks, tabs, CR, "
            "backslash-newline, comments incl. non-ASCII, newlines after non-ending tokens), ';' or newline per terminator, blank lines, and an "
            "independent case flip per keyword; 1 canonical + 3 variants per program. non-trivial = distinct variant differing from its canonical text")

    def cases(self, rng, tier, scale=1):
        nb = (220 if tier == "quick" else 1500) * scale
        bases = []
        for _ in range(nb):
            g = S.Sem(rng, dict(trace=0.2, err=0.03, lists=0.2, calls=0.4, ctl=0.7), maxd=rng.randint(1, 3))
            prog = g.program()
            if rng.random() < 0.5:      # the three IMPORT forms and EXPORT, so that every keyword occurs
                prog = rng.choice(['IMPORT ["ROUND", "FLOOR"] FROM MOD "MATH"\nDISPLAY(ROUND(2.5) + FLOOR(1.5))\n',
                                   'IMPORT "TO_UPPER" FROM MOD "STRING"\nDISPLAY(TO_UPPER("x"))\n', 'IMPORT MOD "MAP"\nmm <- MAP()\n',
                                   'EXPORT PROCEDURE ex(q) {\nRETURN NOT (q MOD 2 == 0) AND TRUE OR NULL\n}\nDISPLAY(ex(3))\n']) + prog
            bases.append(prog)
        # statements that begin with a prefix operator: whether the previous statement was ended by a line break or by ';'
        # must not matter (a parser that lets an expression continue across a line break before an operator)
        bases += ['x <- 10\n-3\nDISPLAY(x)\n', 'PROCEDURE f(n) {\nr <- n + 2\n-2\nRETURN r\n}\nDISPLAY(f(5))\n',
                  'y <- 4\n- y\nDISPLAY(y)\nz <- TRUE\nNOT z\nDISPLAY(z)\n', 'l <- [1, 2]\n-1\nDISPLAY(l)\n[3]\nDISPLAY(l)\n',
                  'a <- 5\n(a)\nDISPLAY(a)\n']
        lexed = C.run_harness("lex", bases, tag="C06lex")
        ran = C.run_harness("run", bases, self.budget, self.depth, tag="C06run")
        out = []
        for src, lx, rn in zip(bases, lexed, ran):
            if not lx or not lx.startswith("OK"):
                continue
            toks = [(t[0], t[3].decode("utf-8")) for t in G.parse_tokens(lx)]
            canon_kinds = [(t[0], t[4]) for t in G.parse_tokens(lx)]
            for _ in range(3):
                v = vary(toks, rng)
                out.append(Case(v, meta={"canon": src, "canon_result": R.expected_from_impl(rn), "canon_tokens": canon_kinds}))
        # token sequences of the variants on the implementation
        vl = C.run_harness("lex", [c.src for c in out], tag="C06lexv")
        for c, l in zip(out, vl):
            c.meta["variant_tokens"] = [(t[0], t[4]) for t in G.parse_tokens(l)] if l and l.startswith("OK") else l
        self.extra_evaluations = 2 * len(bases) + len(out)
        return out

    def model_expr(self, case):
        return "(run_obs %s)" % C.coq_text(case.src)

    def expected(self, case, impl):
        return R.expected_from_impl(impl)

    def oracle(self, case, impl):
        w = R.crash_oracle(impl)
        if w:
            return w
        vt = case.meta.get("variant_tokens")
        if vt != case.meta.get("canon_tokens"):
            return "the re-rendered text does not produce the canonical token sequence"
        mine, canon = R.expected_from_impl(impl), case.meta.get("canon_result")
        if mine is None or canon is None:
            return None

        def strip(o):
            head, _, rest = o.partition(" ")
            return (head.split(":")[0:2] if head.startswith("RT:") else [head]), rest
        if strip(mine) != strip(canon):
            return "the re-rendered program behaves differently (variant: %s ; canonical: %s)" % (mine[:100], canon[:100])
        return None

    def nontrivial(self, case, impl):
        return case.src if case.src != case.meta.get("canon") else None

    def sample(self, case, impl):
        return {"variant": case.src[:300], "impl": (impl or "")[:100]}

    def shrink_candidates(self, case):
        return []
