"""C02 — selection, iteration, BREAK and CONTINUE follow structured control flow."""
from vlib import common as C
from vlib import runchan as R
from vlib import semgen as S
from vlib.runner import PropCheck, Case

def _cross_loops():
    """a loop whose body calls a procedure that RETURNs from inside a loop of its own, then BREAKs / CONTINUEs: every pairing
    of the three loop kinds (the callee's loop state must not leak into the caller's loop)"""
    inner = {"times": "REPEAT 5 TIMES {\nk <- k + 1\nIF (k == t) {\nRETURN TRUE\n}\n}",
             "until": "REPEAT UNTIL (k > 5) {\nk <- k + 1\nIF (k == t) {\nRETURN TRUE\n}\n}",
             "each": "FOR EACH v IN [1, 2, 3, 4, 5] {\nk <- v\nIF (v == t) {\nRETURN TRUE\n}\n}"}
    outer = {"times": ("REPEAT 6 TIMES {", "}"), "until": ("REPEAT UNTIL (n >= 6) {", "}"), "each": ("FOR EACH w IN [1, 2, 3, 4, 5, 6] {", "}")}
    out = []
    for ik, ib in inner.items():
        for ok, (oh, ot) in outer.items():
            for ctl in ("CONTINUE", "BREAK"):
                out.append("PROCEDURE hit(t) {\nk <- 0\n%s\nRETURN FALSE\n}\nn <- 0\n%s\nn <- n + 1\nIF (hit(n) AND (n == 2 OR n == 4)) {\n%s\n}\n"
                           "DISPLAY(n)\n%s\nDISPLAY(\"n = \" + n)\n" % (ib, oh, ctl, ot))
    return out


def _mutating_each():
    """FOR EACH over a list that its own body grows, shrinks or replaces (directly, through an alias, through a procedure, in a
    nested loop): the elements visited are those the list had at its first len positions when the loop started, read as they are
    when reached - growth during the loop adds no iterations, shrinking ends it early"""
    grow = ["APPEND(l, x * 10)", "INSERT(l, 1, x * 10)", "INSERT(l, LENGTH(l), 0)", "APPEND(m, x + 0.5)", "grow(l, x)",
            "APPEND(l, x)\nAPPEND(l, x)", "DISPLAY(REMOVE(l, 1))\nAPPEND(l, 7)\nAPPEND(l, 8)", "l <- l + [x]", "l[1] <- x * 100\nAPPEND(l, 5)"]
    out = []
    for g in grow:
        for guard in ("IF (LENGTH(l) < 7) {\n%s\n}", "IF (x < 3) {\n%s\n}", "IF (n < 2) {\n%s\n}"):
            out.append("PROCEDURE grow(q, v) {\nAPPEND(q, v * 10)\n}\nl <- [1, 2, 3]\nm <- l\nn <- 0\nFOR EACH x IN l {\nDISPLAY(x)\n" +
                       (guard % g) + "\nn <- n + 1\n}\nDISPLAY(n)\nDISPLAY(l)\nDISPLAY(m)\n")
    out.append("l <- [1, 2]\nn <- 0\nFOR EACH x IN l {\nFOR EACH y IN l {\nn <- n + 1\nIF (LENGTH(l) < 5) {\nAPPEND(l, n)\n}\n}\n}\nDISPLAY(n)\nDISPLAY(l)\n")
    out.append("l <- [1, 2, 3, 4]\nFOR EACH x IN l {\nDISPLAY(x)\nDISPLAY(REMOVE(l, LENGTH(l)))\n}\nDISPLAY(l)\n")
    out.append("l <- [1, 2, 3]\nFOR EACH x IN l {\nDISPLAY(x)\nIF (x == 1) {\nDISPLAY(REMOVE(l, 1))\nAPPEND(l, 9)\n}\n}\nDISPLAY(l)\n")
    return out


CORPUS = _cross_loops() + _mutating_each() + [
    "REPEAT 2.9 TIMES { DISPLAY(1) }\nREPEAT -1 TIMES { DISPLAY(2) }\nREPEAT 0.5 TIMES { DISPLAY(3) }\n",
    "i <- 0\nREPEAT UNTIL (i >= 3) { i <- i + 1\nIF (i == 2) { CONTINUE }\nDISPLAY(i) }\n",
    "FOR EACH x IN [1,2,3] { IF (x == 2) { BREAK }\nDISPLAY(x) }\nDISPLAY(x)\n",
    "x <- 9\nFOR EACH x IN \"ab\" { DISPLAY(x) }\nDISPLAY(x)\n",
    "REPEAT 2 TIMES { REPEAT 2 TIMES { DISPLAY(1)\nBREAK\nDISPLAY(2) }\nDISPLAY(3) }\n",
    "REPEAT 3 TIMES { { { CONTINUE } }\nDISPLAY(0) }\nDISPLAY(1)\n",
    "l <- [1,2,3]\nFOR EACH v IN l { v <- v * 2 }\nDISPLAY(l)\nFOR EACH v IN l { v <- 0\nCONTINUE }\nDISPLAY(l)\n",
    "IF (0) { DISPLAY(1) } ELSE IF (\"\") { DISPLAY(2) } ELSE { DISPLAY(3) }\nIF (NULL) { DISPLAY(4) }\n",
    "REPEAT \"3\" TIMES { DISPLAY(1) }\n", "FOR EACH x IN 5 { DISPLAY(x) }\n",
    "n <- 3\nREPEAT n TIMES { n <- 0\nDISPLAY(n) }\n",
    "i <- 0\nREPEAT UNTIL (t(1, i >= 3)) { i <- i + 1\nIF (i == 2) { CONTINUE }\nDISPLAY(i) }\n",
    "i <- 0\nREPEAT UNTIL (t(1, i >= 2)) { i <- i + 1\nCONTINUE }\nDISPLAY(i)\n",
    "FOR EACH x IN [1, 2, 3] { IF (t(x, x == 2)) { CONTINUE }\nDISPLAY(x) }\n",
    "REPEAT t(1, 3) TIMES { IF (t(2, TRUE)) { BREAK } }\nREPEAT t(3, 2) TIMES { DISPLAY(t(4, 0)) }\n",
]


class PROP(PropCheck):
    id = "C02"
    theorems = ["C02_refine", "C02_fresh_state_clean", "C02_if_one_branch", "C02_count_nonpositive", "C02_times_zero", "C02_times_step",
                "C02_until_pretest", "C02_nothing_after_signal", "C02_block_in_order", "C02_loop_absorbs_break",
                "C02_times_runs_exactly", "C02_count_is_floor", "C02_until_step", "C02_each_step", "C02_each_done", "C02_each_past_end",
                "C02_foreach_restores_outer"]
    audit_modules = ["C02", "C02b"]
    allowed_axioms = ("FloatAxioms.leb_spec", "leb_spec")
    coq_imports = ["Obs"]
    model_targets = ["theories/Obs.vo"]
    prop_targets = ["theories/Props/C02.vo", "theories/Props/C02b.vo"]
    harness_mode = "run"
    quick_n = 700
    weights = dict(trace=0.2, err=0.05, lists=0.15, calls=0.15, ctl=0.9)
    trusted_base = [
        "Coq 8.16.1 kernel and bytecode VM; primitive floats evaluated by the VM",
        "hand-written evaluator model EvalImpl.v and reference semantics EvalSpec.v; the refinement theorem relates them, the "
        "correspondence (K3) ties EvalImpl.v to the code and additionally evaluates EvalSpec.v on every case as the direct oracle",
        "translator-regenerated operator and library tables (Gen/Generated.v)",
        "Rust harness with hooks H1 (output sink) and H2 (statement budget); Python driver and program generator",
    ]
    rule = ("random control skeletons: IF / ELSE IF / ELSE, REPEAT TIMES (counts 0,1,2,3,-1,2.9,0.5,4 or computed), REPEAT UNTIL driven by "
            "counters, FOR EACH over lists, strings, literals and concatenations, BREAK / CONTINUE guarded and unguarded at every statement "
            "position, nesting to depth 3 (quick) / 5 (thorough), a DISPLAY trace in every block position, loops inside procedures; a fixed "
            "family of FOR EACH loops whose body grows / shrinks / replaces the iterated list (directly, by alias, by procedure); each "
            "program is run by the implementation, by the implementation model and by the reference semantics; compared: output bytes "
            "and ending. non-trivial = distinct program containing at least one loop or IF that reaches the evaluator")

    def corpus(self):
        return [Case(S.HEADER + s, kind="corpus") for s in CORPUS]

    def cases(self, rng, tier, scale=1):
        n = (self.quick_n if tier == "quick" else 8000) * scale
        out = []
        for i in range(n):
            g = S.Sem(rng, self.weights, maxd=rng.randint(2, 3 if tier == "quick" else 5))
            out.append(Case(g.program()))
        return out

    def model_expr(self, case):
        return "(both_obs %s)" % C.coq_text(case.src)

    def expected(self, case, impl):
        e = R.expected_from_impl(impl)
        return None if e is None else e + "|" + e

    def oracle(self, case, impl):
        return R.crash_oracle(impl)

    def nontrivial(self, case, impl):
        r = R.parse_run(impl)
        if r["cls"] in ("LEXERR", "PARSEERR", "BUDGET"):
            return None
        if any(k in case.src for k in ("REPEAT", "FOR EACH", "IF (")):
            return case.src
        return None

    def sample(self, case, impl):
        return {"program": case.src[len(S.HEADER):][:400], "impl": (impl or "")[:160]}
