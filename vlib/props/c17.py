"""C17 — ROBOT follows the grid-world model."""
from vlib import common as C
from vlib.runner import PropCheck, Case

WALL_PANIC = "robot attempted to move into a wall"


def ap_string(s):
    """an aplang string literal denoting s"""
    out = []
    for ch in s:
        if ch == '"':
            out.append('\\"')
        elif ch == "\\":
            out.append("\\\\")
        elif ch == "\r":
            out.append("\\r")
        elif ch == "\t":
            out.append("\\t")
        else:
            out.append(ch)
    return '"' + "".join(out) + '"'


CMD_SRC = {
    "L": "DISPLAY(ROTATE_LEFT(r))",
    "R": "DISPLAY(ROTATE_RIGHT(r))",
    "M": "DISPLAY(MOVE_FORWARD(r))",
    "m": "DISPLAY(MOVE_FOWARD(r))",
    "S": "DISPLAY(FORMAT_ROBOT_ASCII(r))",
    "U": "DISPLAY(FORMAT_ROBOT(r))",
}
CMD_COQ = {"L": "CRotL", "R": "CRotR", "M": "CMove", "m": "CMove", "S": "CShow", "U": "CShowU"}


def program(grid, cmds):
    lines = ['IMPORT MOD "ROBOT"', "r <- ROBOT_MAP(%s)" % ap_string(grid), "IF (r == NULL) { DISPLAY(r) } ELSE {"]
    for c in cmds:
        if c[0] == "C":
            lines.append("DISPLAY(CAN_MOVE(r, %s))" % ap_string(c[1:]))
        else:
            lines.append(CMD_SRC[c])
    lines.append("}")
    return "\n".join(lines) + "\n"


def rust_lines(text):
    """str::lines(): split at \\n, a \\r directly before the \\n is dropped, no final empty line"""
    parts = text.split("\n")
    ends = [True] * (len(parts) - 1) + [False]
    if parts[-1] == "":
        parts.pop()
        ends.pop()
    return [p[:-1] if (nl and p.endswith("\r")) else p for p, nl in zip(parts, ends)]


# ---- the 40-line grid world of the property statement (direct oracle), independent of the Coq model
class World:
    def __init__(self, text):
        self.ok = False
        lines = rust_lines(text)
        if any(ord(ch) > 127 for l in lines for ch in l):
            return
        self.h = len(lines)
        self.w = max([len(l) for l in lines] or [0])
        self.cells = {}
        robots = []
        for y, l in enumerate(lines):
            for x, ch in enumerate(l.ljust(self.w)):
                if ch in "#@":
                    self.cells[(x, y)] = "#"
                elif ch in "., ":
                    self.cells[(x, y)] = "."
                elif ch in "xX":
                    self.cells[(x, y)] = "X"
                elif ch in "nNsSeEwW":
                    robots.append((x, y, "nesw".index(ch.lower())))
                    self.cells[(x, y)] = "."
                elif ch in "123456789":
                    self.cells[(x, y)] = int(ch)
                else:
                    return
        if len(robots) != 1:
            return
        self.x, self.y, self.d = robots[0]
        self.power = 1
        self.ok = True

    def ahead(self, rel):
        d = (self.d + rel) % 4
        dx, dy = [(0, -1), (1, 0), (0, 1), (-1, 0)][d]
        return self.x + dx, self.y + dy

    def can(self, rel):
        p = self.ahead(rel)
        return p in self.cells and self.cells[p] != "#"

    def move(self):
        if not self.can(0):
            return None
        self.x, self.y = self.ahead(0)
        c = self.cells[(self.x, self.y)]
        if c == "X":
            if any(isinstance(v, int) for v in self.cells.values()):
                return False
            self.cells[(self.x, self.y)] = "."
            return True
        if isinstance(c, int) and self.power >= c:
            self.cells[(self.x, self.y)] = "."
            if not any(isinstance(v, int) and v <= self.power for v in self.cells.values()):
                self.power += 1
        return False

    def show(self, uni=False):
        if uni:
            tl, h, tr, v, bl, br = "┌", "─", "┐", "│", "└", "┘"
            dirs = ["▲▲", "►►", "▼▼", "◄◄"]
            sym = {"#": "██", "X": "╳╳", ".": "░░"}
        else:
            tl, h, tr, v, bl, br = "+", "-", "+", "|", "+", "+"
            dirs = ["nn", "ee", "ss", "ww"]
            sym = {"#": "##", "X": "XX", ".": ".."}
        out = tl + h * (3 * self.w) + h + tr + "\n"
        for y in range(self.h):
            out += v + " "
            for x in range(self.w):
                if (x, y) == (self.x, self.y):
                    out += dirs[self.d]
                else:
                    c = self.cells[(x, y)]
                    out += sym[c] if c in sym else "%d%d" % (c, c)
                out += " "
            out += v + "\n"
        return out + bl + h * (3 * self.w) + h + br + "\n"


RELS = {"FORWARD": 0, "LEFT": -1, "RIGHT": 1, "BACKWARD": 2}


def reference(grid, cmds):
    """(expected program output, ended by wall)"""
    w = World(grid)
    if not w.ok:
        return "NULL\n", False
    out = ""
    for c in cmds:
        if c in ("L", "R"):
            w.d = (w.d + (-1 if c == "L" else 1)) % 4
            out += "NULL\n"
        elif c in ("M", "m"):
            r = w.move()
            if r is None:
                return out, True
            out += ("TRUE" if r else "FALSE") + "\n"
        elif c[0] == "C":
            k = "".join(ch.upper() if "a" <= ch <= "z" else ch for ch in c[1:])
            out += ("NULL" if k not in RELS else ("TRUE" if w.can(RELS[k]) else "FALSE")) + "\n"
        elif c == "S":
            out += w.show() + "\n"
        elif c == "U":
            out += w.show(True) + "\n"
    return out, False


def parse_impl(line):
    """-> (class, output text, direct bytes)"""
    if line is None or line.startswith("ABORT"):
        return "ABORT", "", 0
    parts = line.split(" ")
    head, sink, direct = parts[0], parts[-2], parts[-1]
    out = "" if sink == "-" else C.unhx(sink).decode("utf-8", "replace")
    d = int(direct[1:]) if direct.startswith("D") else 0
    if head == "OK":
        return "OK", out, d
    if head.startswith("PANIC:"):
        msg = C.unhx(head[6:]).decode("utf-8", "replace")
        return ("WALL" if WALL_PANIC in msg else "PANIC:" + msg), out, d
    return head, out, d


class PROP(PropCheck):
    id = "C17"
    theorems = ["C17_parse_grid_inv", "C17_step_inv", "C17_history_inv", "C17_no_bug", "C17_rotate_keeps_position",
                "C17_can_move_iff", "C17_move_advances_one", "C17_blocked_move_exits", "C17_true_only_at_goal",
                "C17_parse_cp_inv", "C17_move_cp_inv", "C17_checkpoints_in_order", "C17_move_frame",
                "C17_malformed_unknown_symbol", "C17_malformed_no_robot", "C17_malformed_two_robots",
                "C17_inv_holds_somewhere",
                "C17_parse_grid_digits", "C17_step_digits", "C17_render_faithful"]
    audit_modules = ["C17", "C17b"]
    coq_imports = ["Robot", "Obs"]
    model_targets = ["theories/Obs.vo"]
    prop_targets = ["theories/Props/C17.vo", "theories/Props/C17b.vo"]
    harness_mode = "run"
    trusted_base = [
        "Coq 8.16.1 kernel and its bytecode VM (vm_compute evaluates the model on the correspondence cases)",
        "hand-written Gallina model coq/theories/Robot.v of src/standard_library/robot.rs, tied to the code by the "
        "correspondence check only (the Rust is not verified directly)",
        "Rust harness /verif/harness (drives the aplang library built with cargo feature verif; output captured by the H1 sink)",
        "Python driver: generation, program synthesis, comparison; the 40-line Python grid world used as direct oracle",
        "no axioms: every C17 theorem is closed under the global context (Print Assumptions checked on every run)",
    ]
    rule = ("cases = random grids (1..7 x 1..6 over walls, spaces, goal, checkpoints 1-9, robot markers, ragged lines, CRLF; "
            "15% malformed: unknown symbol / no robot / two robots / digit 0) x random command histories biased to legal moves; "
            "each case is an aplang program run in-process; compared: displayed results after every command, ASCII and Unicode "
            "renderings, termination by a blocked move. non-trivial = distinct (grid, history) whose grid parses and whose "
            "history contains at least one MOVE_FORWARD or CAN_MOVE, or a malformed grid class")

    def gen_grid(self, rng, big):
        w = rng.randint(1, 7 if big else 4)
        h = rng.randint(1, 6 if big else 3)
        alphabet = "##..  ,xX12345@" if rng.random() < 0.7 else "#...x12"
        rows = [[rng.choice(alphabet) for _ in range(w)] for _ in range(h)]
        kind = rng.random()
        nrob = 1
        if kind < 0.05:
            nrob = 0
        elif kind < 0.10:
            nrob = 2
        for _ in range(nrob):
            rows[rng.randrange(h)][rng.randrange(w)] = rng.choice("nsewNSEW")
        if 0.10 <= kind < 0.15:
            rows[rng.randrange(h)][rng.randrange(w)] = rng.choice("?0é\ty+")
        lines = ["".join(r) for r in rows]
        if rng.random() < 0.3:   # ragged
            lines = [l.rstrip(" ") if rng.random() < 0.5 else l[:rng.randint(1, len(l))] if rng.random() < 0.3 else l for l in lines]
        sep = "\r\n" if rng.random() < 0.15 else "\n"
        g = sep.join(lines)
        if rng.random() < 0.3:
            g += sep
        if rng.random() < 0.03:
            g += "\r"
        return g

    def gen_cmds(self, rng, grid, n):
        w = World(grid)
        cmds = []
        for _ in range(n):
            x = rng.random()
            if not w.ok:
                cmds.append(rng.choice(["L", "M", "S"]))
                continue
            if x < 0.35:
                if w.can(0) or rng.random() < 0.04:
                    cmds.append("M" if rng.random() < 0.9 else "m")
                    if w.move() is None:
                        break
                else:
                    c = rng.choice(["L", "R"])
                    cmds.append(c)
                    w.d = (w.d + (-1 if c == "L" else 1)) % 4
            elif x < 0.55:
                c = rng.choice(["L", "R"])
                cmds.append(c)
                w.d = (w.d + (-1 if c == "L" else 1)) % 4
            elif x < 0.8:
                cmds.append("C" + rng.choice(["left", "RIGHT", "Forward", "backward", "LEFT", "right", "forward", "up", "", "lEfT "]))
            elif x < 0.97:
                cmds.append("S")
            else:
                cmds.append("U")
        cmds.append("S")
        return cmds

    def corpus(self):
        fixed = [
            ("#n.\n.1x", ["S", "Cright", "R", "M", "S", "R", "M", "M", "L", "L", "L", "M", "S", "M"]),
            ("n", ["M"]),
            ("e2 1x", ["M", "M", "M", "M", "S"]),
            ("e1 2x", ["M", "M", "M", "M", "S", "U"]),
            ("ex", ["M", "S", "L", "L", "M", "L", "L", "M"]),
            ("", ["S"]), ("\n", ["S"]), ("nn", ["S"]), ("n\r", ["S"]), ("#\r\nn\r\n", ["S", "M"]),
            ("w..\n#", ["M", "Cleft", "L", "M", "S"]),
            # every checkpoint digit 1..9 collected in order, then the goal; and the same with 9 missing / visited too early
            ("e123456789x", ["M"] * 10 + ["S"]), ("e12345678x", ["M"] * 9 + ["S"]), ("e9x", ["M", "S", "M", "S"]),
            ("e9 1x", ["M", "M", "M", "S", "M", "S"]), ("s\n1\n2\n9\nx", ["M", "M", "M", "S", "M", "S"]),
            # the west edge from every row, asked in all four relative directions
            ("#..\nw..\n...", ["Cforward", "Cleft", "Cright", "Cbackward", "S", "M"]),
            ("...\n...\nn..", ["Cleft", "L", "Cforward", "S", "M"]), ("...\ns..", ["Cright", "R", "Cforward", "M"]),
            (".#\ne.", ["Cbackward", "L", "L", "Cforward", "M"]),
        ]
        return [Case(program(g, c), meta={"grid": g, "cmds": c}, kind="corpus") for g, c in fixed]

    def cases(self, rng, tier, scale=1):
        n = (400 if tier == "quick" else 5000) * scale
        out = []
        for i in range(n):
            g = self.gen_grid(rng, big=(i % 3 != 0))
            c = self.gen_cmds(rng, g, rng.randint(1, 30 if tier == "quick" else 120))
            out.append(Case(program(g, c), meta={"grid": g, "cmds": c}))
        return out

    def model_expr(self, case):
        cs = []
        for c in case.meta["cmds"]:
            cs.append("CCan %s" % C.coq_text(c[1:]) if c[0] == "C" else CMD_COQ[c])
        return "(robot_obs %s [%s])" % (C.coq_text(case.meta["grid"]), "; ".join(cs))

    def expected(self, case, impl):
        cls, out, d = parse_impl(impl)
        if cls == "BUDGET":
            return None
        flag = {"OK": "0", "WALL": "1"}.get(cls, "X")
        return "E%s %s" % (flag, C.hx(out) if out else "-")

    def oracle(self, case, impl):
        cls, out, d = parse_impl(impl)
        if cls == "BUDGET":
            return None
        exp_out, exp_exit = reference(case.meta["grid"], case.meta["cmds"])
        if cls not in ("OK", "WALL"):
            return "the run ended with %s instead of completing or terminating at a wall" % cls
        if (cls == "WALL") != exp_exit:
            return "termination differs from the grid-world model: implementation %s, model %s" % (
                cls, "terminates at a blocked move" if exp_exit else "completes")
        if out != exp_out:
            return "displayed results differ from the grid-world model (expected %r, got %r)" % (exp_out[:200], out[:200])
        return None

    def nontrivial(self, case, impl):
        g, c = case.meta["grid"], case.meta["cmds"]
        w = World(g)
        if not w.ok:
            return ("malformed", g)
        if any(x in ("M", "m") or x[0] == "C" for x in c):
            return (g, tuple(c))
        return None

    def sample(self, case, impl):
        return {"grid": case.meta["grid"], "commands": case.meta["cmds"], "impl": (impl or "")[:200]}

    def shrink_candidates(self, case):
        g, c = case.meta["grid"], case.meta["cmds"]
        out = []
        for i in range(len(c)):
            c2 = c[:i] + c[i + 1:]
            out.append(Case(program(g, c2), meta={"grid": g, "cmds": c2}, kind="shrunk"))
        return out
