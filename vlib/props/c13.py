"""C13 — IMPORT exposes exactly the requested procedures and isolates module state."""
from vlib import common as C
from vlib import runchan as R
from vlib.runner import PropCheck, Case

# the documented procedures of every library module (the reference name lists)
REF = {
    "CORE": ["DISPLAY", "DISPLAY_NOLN", "INPUT", "INSERT", "APPEND", "REMOVE", "LENGTH", "RANDOM"],
    "FS": ["PATH_EXISTS", "PATH_IS_FILE", "PATH_IS_DIRECTORY", "FILE_REMOVE", "FILE_CREATE", "FILE_READ", "FILE_APPEND", "FILE_OVERWRITE",
           "DIRECTORY_READ", "DIRECTORY_CREATE", "DIRECTORY_CREATE_ALL", "DIRECTORY_REMOVE", "DIRECTORY_REMOVE_ALL"],
    "TIME": ["TIME", "SLEEP"],
    "MATH": ["SIN", "COS", "TAN", "ASIN", "ACOS", "ATAN", "ATAN2", "SINH", "COSH", "TANH", "ASINH", "ACOSH", "ATANH", "EXP", "LOG", "LOG10",
             "LOG2", "ROUND", "FLOOR", "CEIL", "INT", "CLAMP", "PI", "E", "TAU"],
    "IO": ["INPUT_PROMPT", "FORMAT", "DISPLAYF"],
    "STRING": ["TO_NUMBER", "TO_BOOL", "SPLIT", "TO_UPPER", "TO_LOWER", "TRIM", "CONTAINS", "REPLACE", "STARTS_WITH", "ENDS_WITH", "JOIN",
               "SUBSTRING", "TO_CHAR_ARRAY"],
    "STYLE": ["STYLE", "CLEAR_STYLE"],
    "MAP": ["MAP", "MAP_INSERT", "MAP_GET", "MAP_CONTAINS_KEY", "MAP_VALUES", "MAP_KEYS"],
    "ROBOT": ["ROBOT_MAP", "MOVE_FOWARD", "CAN_MOVE", "MOVE_FORWARD", "ROTATE_LEFT", "ROTATE_RIGHT", "FORMAT_ROBOT", "FORMAT_ROBOT_ASCII"],
}
ALL_NAMES = [(m, n) for m, ns in REF.items() for n in ns]
# a probe that cannot succeed by accident: 9 arguments -> "Incorrect Number Of Args" iff the name is callable
PROBE_ARGS = ", ".join(["0"] * 9)


def probe(name):
    return "%s(%s)\n" % (name, PROBE_ARGS)


MODULE_SRC = """DISPLAY("mod top")
secret <- 41
PROCEDURE helper(a) {
RETURN a + 1
}
EXPORT PROCEDURE pub(a) {
RETURN a * 2
}
EXPORT PROCEDURE shout(s) {
DISPLAY("mod says " + s)
RETURN NULL
}
EXPORT PROCEDURE uses_core(l) {
APPEND(l, 9)
RETURN LENGTH(l)
}
"""
MODULE_PRIV = """EXPORT PROCEDURE calls_private(a) {
RETURN hidden(a)
}
PROCEDURE hidden(a) {
RETURN a + 100
}
"""


class PROP(PropCheck):
    id = "C13"
    theorems = ["C13_registry_is_reference", "C13_only_core_preloaded", "C13_module_table_sound", "C13_import_mod_exact",
                "C13_ft_extend_spec", "C13_import_unknown_name", "C13_import_only_exact", "C13_unknown_module_is_error",
                "C13_missing_file_is_error", "C13_invalid_module_is_error", "C13_import_keeps_importer_state",
                "C13_import_user_exact", "C13_exports_only_from_export", "C13_import_user_error"]
    audit_modules = ["C13", "C13b"]
    coq_imports = ["Obs"]
    model_targets = ["theories/Obs.vo"]
    prop_targets = ["theories/Props/C13.vo", "theories/Props/C13b.vo"]
    harness_mode = "run"
    trusted_base = [
        "Coq 8.16.1 kernel and bytecode VM",
        "translator: module registry, std_function! signatures per module, the preloaded set, regenerated from the source",
        "IMPORT model in EvalImpl.exec (library lookup, user-file resolution relative to the importing file against a path -> text map, nested "
        "lex / parse / run in a fresh state, name filtering, merge); host files are written by the harness into a private temporary directory",
        "reference name lists of the nine library modules (vlib/props/c13.py) as the direct oracle",
    ]
    rule = ("every library module x import form (whole module, one name, several names, unknown name, duplicate name) followed by a probe of "
            "one procedure name of any module (callable iff it answers 'Incorrect Number Of Args' to a 9-argument call): all (module, form) x a "
            "seeded sample of probes (quick) / all probes (thorough); generated user modules (exported / private procedures, top-level "
            "statements, module variables, nested directories, syntax and runtime errors, double import). non-trivial = distinct (import, probe) "
            "or user-module scenario")

    def lib_case(self, mod, form, names, target):
        if form == "all":
            imp = 'IMPORT MOD "%s"' % mod
            exposed = set(REF.get(mod, []))
            err = mod not in REF
        elif form == "one":
            imp = 'IMPORT "%s" FROM MOD "%s"' % (names[0], mod)
            exposed = set(names)
            err = mod not in REF or names[0] not in REF[mod]
        else:
            imp = 'IMPORT [%s] FROM MOD "%s"' % (", ".join('"%s"' % n for n in names), mod)
            exposed = set(names)
            err = mod not in REF or any(n not in REF[mod] for n in names) or len(set(names)) != len(names)
        src = imp + "\nDISPLAY(\"imported\")\n" + probe(target)
        callable_ = (target in REF["CORE"]) or (not err and target in exposed)
        return Case(src, meta={"kind": "lib", "import_error": err, "callable": callable_, "target": target, "form": form, "mod": mod})

    def corpus(self):
        out = [self.lib_case("MATH", "all", [], "SIN"), self.lib_case("MATH", "all", [], "TO_UPPER"), self.lib_case("MATH", "one", ["SIN"], "COS"),
               self.lib_case("MATH", "many", ["SIN", "COS"], "COS"), self.lib_case("MATH", "one", ["NOPE"], "SIN"),
               self.lib_case("MATH", "many", ["SIN", "SIN"], "SIN"), self.lib_case("NOPE", "all", [], "DISPLAY"),
               self.lib_case("STRING", "one", ["SIN"], "SIN"), self.lib_case("CORE", "all", [], "LENGTH")]
        mods = {"m.ap": MODULE_SRC, "sub/n.ap": 'DISPLAY("n top")\nIMPORT MOD "o.ap"\nEXPORT PROCEDURE fromn() {\nRETURN fromo() + 1\n}\n',
                "sub/o.ap": 'EXPORT PROCEDURE fromo() {\nRETURN 10\n}\n', "bad.ap": "PROCEDURE p() { RETURN (a }\n",
                "lexbad.ap": 'x <- "unterminated\n', "rt.ap": 'DISPLAY("before")\nx <- 1 / 0\nEXPORT PROCEDURE q() { RETURN 1 }\n',
                "priv.ap": MODULE_PRIV, "MATH.ap": 'EXPORT PROCEDURE fake() { RETURN 1 }\n'}
        progs = [
            ('x <- 5\nIMPORT MOD "m.ap"\nDISPLAY(pub(3))\nshout("hi")\nDISPLAY(x)\n', "ok", "mod top\n6\nmod says hi\n5\n"),
            ('IMPORT MOD "m.ap"\nDISPLAY(helper(1))\n', "err", None), ('IMPORT MOD "m.ap"\nDISPLAY(secret)\n', "err", None),
            ('secret <- 1\nIMPORT MOD "m.ap"\nDISPLAY(secret)\n', "ok", "mod top\n1\n"),
            ('IMPORT MOD "m.ap"\nIMPORT MOD "m.ap"\nDISPLAY(pub(1))\n', "ok", "mod top\nmod top\n2\n"),
            ('IMPORT "pub" FROM MOD "m.ap"\nDISPLAY(pub(2))\nshout("x")\n', "err", None),
            ('IMPORT ["pub", "shout"] FROM MOD "m.ap"\nDISPLAY(pub(2))\nshout("x")\n', "ok", "mod top\n4\nmod says x\n"),
            ('IMPORT "helper" FROM MOD "m.ap"\n', "err", None),
            ('l <- [1]\nIMPORT MOD "m.ap"\nDISPLAY(uses_core(l))\nDISPLAY(l)\n', "ok", "mod top\n2\n[1, 9]\n"),
            ('IMPORT MOD "sub/n.ap"\nDISPLAY(fromn())\nDISPLAY(fromo())\n', "err", None),
            ('IMPORT MOD "sub/n.ap"\nDISPLAY(fromn())\n', "f21", "n top\n11\n"),    # fromn calls a procedure its module imported
            ('DISPLAY(1)\nIMPORT MOD "bad.ap"\nDISPLAY(2)\n', "err", None), ('IMPORT MOD "lexbad.ap"\n', "err", None),
            ('IMPORT MOD "rt.ap"\nDISPLAY(q())\n', "err", None), ('IMPORT MOD "missing.ap"\n', "err", None),
            ('IMPORT MOD "m.AP"\n', "err", None), ('IMPORT MOD "m.txt"\n', "err", None), ('IMPORT MOD "m"\n', "err", None),
            ('IMPORT MOD "MATH.ap"\nDISPLAY(fake())\nDISPLAY(SIN(0))\n', "err", None),
            ('IMPORT MOD "priv.ap"\nDISPLAY(calls_private(1))\n', "f21", "101\n"),
            ('PROCEDURE pub(a) { RETURN 0 }\nIMPORT MOD "m.ap"\nDISPLAY(pub(4))\n', "ok", "mod top\n8\n"),
            # an empty selection is not a selection of everything: it is not a program at all
            ('IMPORT [] FROM MOD "MATH"\nDISPLAY(FLOOR(1.5))\n', "parse", None), ('IMPORT [] FROM MOD "m.ap"\nDISPLAY(pub(1))\n', "parse", None),
            # what a module imported for its own use is not re-exported to its importer
            ('IMPORT MOD "sub/n.ap"\nDISPLAY(fromo())\n', "err", None),
        ]
        for src, cls, exp in progs:
            out.append(Case(src, mods=dict(mods), meta={"kind": "user", "cls": cls, "exp": exp}, kind="corpus"))
        return out

    def cases(self, rng, tier, scale=1):
        out = []
        for mod in list(REF) + ["NOPE", "math"]:
            forms = [("all", [])]
            names = REF.get(mod, ["SIN"])
            forms.append(("one", [rng.choice(names)]))
            forms.append(("many", rng.sample(names, min(len(names), rng.randint(1, 3)))))
            forms.append(("one", [rng.choice(["NOPE", "sin", "DISPLAY" if mod != "CORE" else "SIN"])]))
            forms.append(("many", [names[0], names[0]]))
            forms.append(("many", [names[0], "NOPE"]))
            for form, ns in forms:
                targets = ALL_NAMES if tier != "quick" else rng.sample(ALL_NAMES, 9 * scale)
                for (_, t) in targets:
                    out.append(self.lib_case(mod, form, ns, t))
                for t in ns[:2]:
                    out.append(self.lib_case(mod, form, ns, t))
        return out

    def model_expr(self, case):
        if case.mods:
            files = "; ".join("(%s, %s)" % (C.coq_text(k), C.coq_text(v)) for k, v in case.mods.items())
            return "(run_obs_files %s [%s])" % (C.coq_text(case.src), files)
        return "(run_obs %s)" % C.coq_text(case.src)

    def expected(self, case, impl):
        return R.expected_from_impl(impl)

    def oracle(self, case, impl):
        w = R.crash_oracle(impl)
        if w:
            return w
        r = R.parse_run(impl)
        m = case.meta
        if m["kind"] == "lib":
            if m["import_error"]:
                if r["cls"] != "RT" or r["out"] != "":
                    return "an import of an unknown module / unknown or duplicate name was not reported as a diagnostic before anything ran"
                return None
            if r["out"] != "imported\n":
                return "a valid import failed: " + (impl or "")[:100]
            if m["callable"] and r.get("code") != "IncorrectArgs":
                return "%s should be callable after this import but the call answered %s" % (m["target"], r.get("code"))
            if not m["callable"] and r.get("code") != "InvalidProcedure":
                return "%s should NOT be callable after this import but the call answered %s" % (m["target"], r.get("code"))
            return None
        if m["cls"] == "err":
            return None if r["cls"] == "RT" else "expected a runtime diagnostic, got " + (impl or "")[:100]
        if m["cls"] == "parse":
            return None if r["cls"] == "PARSEERR" else "expected a syntax diagnostic, got " + (impl or "")[:100]
        if m["cls"] in ("ok", "f21"):
            if r["cls"] != "OK" or r["out"] != m["exp"]:
                return "user-module scenario: expected %r, got %s %r" % (m["exp"], r["cls"], r["out"][:100])
        return None

    def known(self, case, impl, why):
        if case.meta.get("cls") == "f21" and "user-module scenario" in why:
            return "F21"
        return None

    def nontrivial(self, case, impl):
        return (case.src, tuple(sorted(case.mods)))

    def sample(self, case, impl):
        return {"program": case.src[:200], "modules": sorted(case.mods), "impl": (impl or "")[:100]}

    def shrink_candidates(self, case):
        return []
