"""C11 — diagnostics point into the source, at the construct that failed."""
import re

from vlib import common as C
from vlib import lexgen as G
from vlib import runchan as R
from vlib.runner import PropCheck, Case

PREAMBLES = ["", "// héllo wörld 中文 😀\n", 'z <- "é😀\nmulti\nline 中"\n', "\n\n   \n", "// c\n// d é\nq <- \"ü\" + \"\\n\"\n",
             'DISPLAY("中")\n', "w <- [\"é\", \"😀😀\"]\n// тест\n"]
SETUP = 'IMPORT MOD "STRING"\nIMPORT MOD "IO"\nIMPORT MOD "MAP"\nl <- [1, 2, 3]\ns <- "añb"\nm <- MAP()\nPROCEDURE two(a, b) {\nRETURN a\n}\n'

# (failing construct, expected error code); the label must lie inside the construct's extent
CONSTRUCTS = [
    ("1 / 0", "DivisionByZero"), ("7 MOD (1 - 1)", "ModuloByZero"), ("1 + TRUE", "Incomparable"), ('"é" < 2', "Incomparable"),
    ("[1] - [2]", "Incomparable"), ('-"añ"', "InvalidUnaryOp"), ("-NULL", "InvalidUnaryOp"), ("-[1]", "InvalidUnaryOp"),
    ("nosuchvar", "InvalidVariable"), ("nosuchproc(1, 2)", "InvalidProcedure"), ("two(1)", "IncorrectArgs"), ("two(1, 2, 3)", "IncorrectArgs"),
    ("two()", "IncorrectArgs"), ("LENGTH()", "IncorrectArgs"), ("l[4]", "InvalidListIndex"), ("l[0]", "InvalidListIndex"),
    ('l["é"]', "InvalidIndex"), ("s[4]", "InvalidListIndex"), ("l[ 9 + 1 ]", "InvalidListIndex"), ("5[1]", "InvalidType"),
    ("l[4] <- 1", "InvalidListIndex"), ("l[NULL] <- 1", "InvalidIndex"), ("s[1] <- 1", "InvalidType"),
    ("TO_UPPER(5)", "InvalidCast"), ('SUBSTRING("añb", "é", 1)', "InvalidCast"), ('SUBSTRING("añb", 0, 1)', "InvalidStringIndex"),
    ("INSERT(l, 9, 0)", "InvalidListIndex"), ("REMOVE(l,   0)", "InvalidListIndex"), ("RANDOM(5, 1)", "InvalidRange"),
    ('FORMAT("{} {}", [1])', "InvalidFormat"), ("MAP_GET(l, 1)", "InvalidCast"), ("MAP_GET(5, 1)", "InvalidCast"),
    ("APPEND(5, 1)", "InvalidCast"),
]
STMT_CONSTRUCTS = [
    ('REPEAT "é" TIMES {\nDISPLAY(1)\n}', "InvalidCount"), ("REPEAT l TIMES {\nDISPLAY(1)\n}", "InvalidCount"),
    ("FOR EACH x IN 5 + 1 {\nDISPLAY(x)\n}", "InvalidIterator"), ("FOR EACH x IN NULL {\nDISPLAY(x)\n}", "InvalidIterator"),
    ('IMPORT MOD "NOPE"', "ModuleNotFound"), ('IMPORT "NOPE" FROM MOD "MATH"', "InvalidFunction"),
    ('IMPORT ["SIN", "é"] FROM MOD "MATH"', "InvalidFunction"), ('IMPORT MOD "missing.ap"', "ModuleFileMissing"),
]
EXPR_CONTEXTS = ["DISPLAY({c})\n", "x <- {c}\n", "IF (TRUE) {{\nDISPLAY([0, {c}])\n}}\n", "REPEAT 2 TIMES {{\nx <- two({c}, 1)\n}}\n",
                 "PROCEDURE p(l, s, m) {{\nRETURN ({c})\n}}\nDISPLAY(p(l, s, m))\n", "FOR EACH e IN [1] {{\nIF (e == 1) {{\nl[1] <- {c}\n}}\n}}\n",
                 "x <- TRUE AND ({c})\n", "DISPLAY(\"é: \" + ({c}))\n", "{c}\n"]
STMT_CONTEXTS = ["{c}\n", "IF (1) {{\n{c}\n}}\n", "PROCEDURE p(l) {{\n{c}\n}}\np(l)\n", "REPEAT 1 TIMES {{\n{{\n{c}\n}}\n}}\n"]


def boundaries(src):
    out = set()
    pos = 0
    for ch in src:
        out.add(pos)
        pos += len(ch.encode("utf-8"))
    out.add(pos)
    return out


def labels_of(line):
    """all (offset, length) label ranges in a harness run / parse line"""
    out = []
    head = line.split(" ")[0]
    if head.startswith("RT:"):
        for f in head.split(":")[2:]:
            m = re.match(r"^(\d+)\+(\d+)$", f)
            if m:
                out.append((int(m.group(1)), int(m.group(2))))
    else:
        for part in line.split(" ")[2:]:
            if "@" in part:
                for f in part.split("@", 1)[1].split(","):
                    m = re.match(r"^(\d+)\+(\d+)$", f)
                    if m:
                        out.append((int(m.group(1)), int(m.group(2))))
    return out


class PROP(PropCheck):
    id = "C11"
    mismatch_is_failure = False
    theorems = ["C11_tok_label_ok", "C11_parse_error_labels", "C11_parse_ast_spans", "C11_parse_ast_pairs",
                "C11_runtime_label_from_tree", "C11_runtime_label_in_source", "C11_parse_label_in_source",
                "C11_parse_sound", "C11_label_roles", "C11_subnode_segment", "C11_own_label_within", "C11_label_at_construct"]
    audit_modules = ["C11", "C11b", "C11c", "C11d", "C11e"]
    coq_imports = ["Obs"]
    model_targets = ["theories/Obs.vo"]
    prop_targets = ["theories/Props/C11.vo", "theories/Props/C11b.vo", "theories/Props/C11c.vo", "theories/Props/C11d.vo", "theories/Props/C11e.vo"]
    harness_mode = "run"
    trusted_base = [
        "Coq 8.16.1 kernel and bytecode VM",
        "scanner / parser / evaluator models keep the byte ranges of the tokens each diagnostic uses; label ranges are compared exactly with "
        "the implementation's Report::labels() (K1 / K2 / K3)",
        "direct oracle in Python: every label inside the source, on UTF-8 character boundaries, and for runtime errors inside the extent of the "
        "failing construct whose position the generator recorded",
    ]
    rule = ("every runtime-error kind (33 failing expression constructs x 9 expression contexts, 8 failing statement constructs x 4 statement "
            "contexts: nested in IF / loops / procedure bodies / list literals / arguments) after one of 7 preambles containing 2-, 3- and "
            "4-byte characters, comments, blank lines and multi-line strings (so byte offsets differ from character offsets); lexical and "
            "syntactic diagnostics of random / mutated texts with non-ASCII characters. non-trivial = distinct failing program")

    def corpus(self):
        return []

    def cases(self, rng, tier, scale=1):
        out = []
        combos = [(c, code, ctx) for (c, code) in CONSTRUCTS for ctx in EXPR_CONTEXTS] + \
                 [(c, code, ctx) for (c, code) in STMT_CONSTRUCTS for ctx in STMT_CONTEXTS]
        for (c, code, ctx) in combos:
            pres = PREAMBLES if tier != "quick" else [rng.choice(PREAMBLES), rng.choice(PREAMBLES[1:])]
            for pre in pres:
                body = ctx.format(c=c)
                src = pre + SETUP + body
                at = len((pre + SETUP).encode("utf-8")) + len(body[:body.index(c)].encode("utf-8"))
                out.append(Case(src, meta={"region": [at, at + len(c.encode("utf-8"))], "code": code, "construct": c}))
        # runtime errors raised inside user modules: the label must be readable from the text the diagnostic names
        mods = {"m1.ap": 'DISPLAY("é top")\nlimit <- LENGTH(5) + 1\n', "m2.ap": 'EXPORT PROCEDURE bad(x) {\n// é 中\nRETURN x / 0\n}\n',
                "m3.ap": '// ' + "é" * 40 + '\nEXPORT PROCEDURE idx(l) {\nRETURN l[99]\n}\n', "m4.ap": 'x <- nosuch\n'}
        for pre in PREAMBLES:
            pad = pre + "// " + "x" * rng.randint(0, 300) + "\n"
            for src in ['IMPORT MOD "m1.ap"\n', 'IMPORT MOD "m2.ap"\nDISPLAY(bad(1))\n', 'IMPORT MOD "m3.ap"\nDISPLAY(idx([1]))\n',
                        'IMPORT MOD "m4.ap"\n', 'IMPORT "bad" FROM MOD "m2.ap"\nIF (TRUE) {\nDISPLAY(bad(2))\n}\n']:
                out.append(Case(pad + src, mods=dict(mods), meta={"module": True}))
        # ... and call diagnostics (argument count, a native's argument) raised inside an exported procedure of a module that is much
        # longer than the importing program: a label paired with the wrong file's text cannot be read there
        long_mod = "// " + "é" * 300 + "\n" + ("// filler line\n" * 10)
        mods2 = {"m5.ap": long_mod + 'EXPORT PROCEDURE rm(l) {\nRETURN REMOVE(l, 9)\n}\nEXPORT PROCEDURE ar(x) {\nRETURN LENGTH(x, x)\n}\n'
                                     'EXPORT PROCEDURE ins(l) {\nINSERT(l, 7, 0)\n}\nEXPORT PROCEDURE fm(s) {\nRETURN FORMAT(s, [1])\n}\n'}
        for src in ['IMPORT MOD "m5.ap"\nDISPLAY(rm([1]))\n', 'IMPORT MOD "m5.ap"\nDISPLAY(ar(1))\n', 'IMPORT MOD "m5.ap"\nins([1])\n',
                    'IMPORT MOD "IO"\nIMPORT MOD "m5.ap"\nDISPLAY(fm("{} {} {}"))\n']:
            out.append(Case(src, mods=dict(mods2), meta={"module": True}))
        # FORMAT / DISPLAYF with too few items, the format string not a literal, at the very end of the source
        for tail in ['s <- "{} and {} and {}"\nDISPLAY(FORMAT(s, [1]))', 'DISPLAY(FORMAT("a {}" + " b {}" + " c {}", [1]))',
                     's <- "{}{}{}{}{}{}{}{}{}{}{}{}"\nDISPLAYF(s, [])']:
            out.append(Case('IMPORT MOD "IO"\n' + tail, meta={"format": True}))
        progs = G.example_programs()
        for _ in range((500 if tier == "quick" else 10000) * scale):
            k = rng.random()
            if k < 0.4:
                s = G.random_tokenish(rng, rng.randint(2, 15))
            elif k < 0.7:
                s = rng.choice(PREAMBLES) + G.mutate(rng, rng.choice(progs))[:400]
            else:
                s = rng.choice(PREAMBLES) + G.random_string(rng, 30)
            if "\x00" not in s:
                out.append(Case(s, meta={"front": True}))
        return out

    def model_expr(self, case):
        if case.mods:
            files = "; ".join("(%s, %s)" % (C.coq_text(k), C.coq_text(v)) for k, v in case.mods.items())
            return "(run_obs_files %s [%s])" % (C.coq_text(case.src), files)
        return "(run_obs %s)" % C.coq_text(case.src)

    def expected(self, case, impl):
        return R.expected_from_impl(impl)

    def oracle(self, case, impl):
        w = R.crash_oracle(impl)
        if w:
            return w
        r = R.parse_run(impl)
        if r["cls"] in ("OK", "BUDGET"):
            if "region" in case.meta:
                return "the failing construct %r raised no runtime error" % case.meta["construct"]
            return None
        if case.meta.get("module"):
            return None      # labels refer to the module's text: readability is checked by the harness (BADSPAN)
        n = len(case.src.encode("utf-8"))
        b = boundaries(case.src)
        for (off, ln) in labels_of(impl):
            if off + ln > n:
                return "label %d+%d lies outside the source (%d bytes)" % (off, ln, n)
            if off not in b or off + ln not in b:
                return "label %d+%d is not on character boundaries" % (off, ln)
        if "region" in case.meta:
            if r["cls"] != "RT":
                return "expected a runtime error, got " + (impl or "")[:80]
            lo, hi = case.meta["region"]
            labs = labels_of(impl)
            if not labs:
                return "the runtime diagnostic carries no label"
            for (off, ln) in labs:
                if off < lo or off + ln > hi:
                    return "label %d+%d is not inside the failing construct %r at %d..%d" % (off, ln, case.meta["construct"], lo, hi)
            if r.get("code") != case.meta["code"]:
                return "expected error class %s, got %s" % (case.meta["code"], r.get("code"))
        return None

    def nontrivial(self, case, impl):
        r = R.parse_run(impl)
        return case.src if r["cls"] in ("RT", "LEXERR", "PARSEERR") else None

    def sample(self, case, impl):
        return {"program": case.src[-200:], "region": case.meta.get("region"), "impl": (impl or "")[:120]}

    def shrink_candidates(self, case):
        return []
