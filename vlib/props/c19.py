"""C19 — FS procedures act like a file-system model on the named paths only."""
import itertools
import os
import shutil

from vlib import common as C
from vlib import pyref as Y
from vlib import runchan as R
from vlib.runner import PropCheck, Case

NAMES = ["f1", "f2", "d", "d/f3", "d/e"]
UNARY = ["PATH_EXISTS", "PATH_IS_FILE", "PATH_IS_DIRECTORY", "FILE_REMOVE", "FILE_CREATE", "FILE_READ", "DIRECTORY_READ",
         "DIRECTORY_CREATE", "DIRECTORY_CREATE_ALL", "DIRECTORY_REMOVE", "DIRECTORY_REMOVE_ALL"]
BINARY = ["FILE_APPEND", "FILE_OVERWRITE"]
VALUES = [('"text é"', "text é"), ("12.5", "12.5"), ("NULL", "NULL"), ("TRUE", "TRUE"), ('[1, "a", [2]]', "[1, a, [2]]"), ('""', "")]
BASE = "/tmp/aplang-verif-fs"


class Tree:
    """the simple file-system model of the property (direct oracle)"""

    def __init__(self, root):
        self.t = {root: None}      # path -> None (directory) | str (file contents)
        self.root = root

    def parent(self, p):
        return p.rsplit("/", 1)[0]

    def isdir(self, p):
        return p in self.t and self.t[p] is None

    def isfile(self, p):
        return p in self.t and self.t[p] is not None

    def kids(self, p):
        return [q for q in self.t if self.parent(q) == p and q != p]

    def call(self, op, p, v=None):
        t = self.t
        if op == "PATH_EXISTS":
            return p in t
        if op == "PATH_IS_FILE":
            return self.isfile(p)
        if op == "PATH_IS_DIRECTORY":
            return self.isdir(p)
        if op == "FILE_REMOVE":
            if self.isfile(p):
                del t[p]
                return True
            return False
        if op == "FILE_CREATE":
            if p not in t and self.isdir(self.parent(p)):
                t[p] = ""
                return True
            return False
        if op == "FILE_READ":
            return t[p] if self.isfile(p) else None
        if op == "DIRECTORY_READ":
            return ("len", len(self.kids(p))) if self.isdir(p) else None
        if op == "DIRECTORY_CREATE":
            if p not in t and self.isdir(self.parent(p)):
                t[p] = None
                return True
            return False
        if op == "DIRECTORY_CREATE_ALL":
            q, missing = p, []
            while q not in t and q.startswith(self.root):
                missing.append(q)
                q = self.parent(q)
            if not self.isdir(q):
                return False
            for m in reversed(missing):
                t[m] = None
            return True
        if op == "DIRECTORY_REMOVE":
            if self.isdir(p) and not self.kids(p):
                del t[p]
                return True
            return False
        if op == "DIRECTORY_REMOVE_ALL":
            if self.isdir(p):
                for q in [q for q in t if q == p or q.startswith(p + "/")]:
                    del t[q]
                return True
            return False
        if op == "FILE_APPEND":
            if self.isfile(p):
                t[p] += v
                return True
            return False
        if op == "FILE_OVERWRITE":
            if self.isfile(p):
                t[p] = v
                return True
            return False
        raise ValueError(op)


def show_result(r):
    if isinstance(r, tuple):
        return str(r[1])
    return Y.show_value(r)


class PROP(PropCheck):
    id = "C19"
    uses_cli = True      # one scenario runs the real tool from a directory other than the script's
    theorems = ["C19_failure_by_value", "C19_fs_frame", "C19_fs_frame_write", "C19_queries_are_pure", "C19_create_only_if_absent",
                "C19_write_requires_existing", "C19_append_appends_displayed_form", "C19_read_returns_contents", "C19_get_put_same",
                "C19_get_put_other", "C19_remove_spec", "C19_history_frame", "C19_history_total", "C19_unrelated_example"]
    audit_modules = ["C19", "C19b"]
    coq_imports = ["Obs"]
    model_targets = ["theories/Obs.vo"]
    prop_targets = ["theories/Props/C19.vo", "theories/Props/C19b.vo"]
    harness_mode = "run"
    trusted_base = [
        "Coq 8.16.1 kernel and bytecode VM",
        "file-system model: a list of (path, file contents | directory) with the 13 procedures as total functions (EvalImpl.fs_call); paths are "
        "compared as written (the histories use canonical absolute paths inside a fresh temporary directory)",
        "NOT modelled: the host file system's own behaviour (permissions, symlinks, races, non-UTF-8 names); std::fs is only observed",
        "Python tree model as direct oracle; the real directory tree is dumped after every history and compared",
    ]
    rule = ("histories of the 13 FS procedures over five path names (file, second file, directory, file inside the directory, nested directory) "
            "inside a fresh temporary directory starting from the empty tree, contents of every value kind: all histories of length <= 2 "
            "(quick; <= 3 thorough), random histories to length 12 (quick) / 30 (thorough); every displayed result and the final tree (kind and "
            "contents of each named path, no stray entries) are compared with the model and the Python tree. non-trivial = distinct history "
            "with at least one successful mutation")

    def __init__(self):
        self.counter = 0

    def mk(self, ops):
        self.counter += 1
        root = "%s-%d-%d" % (BASE, os.getpid(), self.counter)
        tree = Tree(root)
        lines = ['IMPORT MOD "FS"']
        exp = []
        mutated = False
        for op in ops:
            name, pn = op[0], op[1]
            p = root + "/" + pn
            if name in BINARY:
                vexpr, vshow = op[2]
                lines.append("DISPLAY(%s(%s, %s))" % (name, Y.ap_str(p), vexpr))
                r = tree.call(name, p, vshow)
            elif name == "DIRECTORY_READ":
                lines.append("x <- DIRECTORY_READ(%s)\nIF (x == NULL) { DISPLAY(x) } ELSE { DISPLAY(LENGTH(x)) }" % Y.ap_str(p))
                r = tree.call(name, p)
            else:
                lines.append("DISPLAY(%s(%s))" % (name, Y.ap_str(p)))
                r = tree.call(name, p)
            if r is True and not name.startswith("PATH"):
                mutated = True
            exp.append(show_result(r))
        final = {pn: tree.t.get(root + "/" + pn, "-") for pn in NAMES}
        return Case("\n".join(lines) + "\n", meta={"root": root, "exp": "\n".join(exp) + "\n", "final": final, "mutated": mutated, "n": len(ops)})

    def gen_op(self, rng):
        if rng.random() < 0.25:
            return (rng.choice(BINARY), rng.choice(NAMES), rng.choice(VALUES))
        return (rng.choice(UNARY), rng.choice(NAMES))

    def corpus(self):
        fixed = [[("FILE_CREATE", "f1"), ("FILE_APPEND", "f1", VALUES[0]), ("FILE_APPEND", "f1", VALUES[4]), ("FILE_READ", "f1"), ("FILE_CREATE", "f1")],
                 [("DIRECTORY_CREATE_ALL", "d/e"), ("FILE_CREATE", "d/f3"), ("DIRECTORY_REMOVE", "d"), ("DIRECTORY_READ", "d"), ("DIRECTORY_REMOVE_ALL", "d"), ("PATH_EXISTS", "d/f3")],
                 [("FILE_CREATE", "d/f3"), ("FILE_APPEND", "f2", VALUES[1]), ("FILE_OVERWRITE", "f2", VALUES[1]), ("DIRECTORY_READ", "f2"), ("FILE_READ", "d")],
                 [("FILE_CREATE", "d"), ("DIRECTORY_CREATE", "d"), ("DIRECTORY_CREATE_ALL", "d/e"), ("FILE_REMOVE", "d"), ("DIRECTORY_REMOVE_ALL", "d")],
                 [("FILE_CREATE", "f1"), ("DIRECTORY_CREATE_ALL", "f1"), ("DIRECTORY_REMOVE_ALL", "f1"), ("DIRECTORY_REMOVE", "f1"), ("FILE_OVERWRITE", "f1", VALUES[5]), ("FILE_READ", "f1")]]
        return [self.mk(o) for o in fixed]

    def cases(self, rng, tier, scale=1):
        out = []
        alphabet = [(u, n) for u in UNARY for n in NAMES] + [(b, n, VALUES[0]) for b in BINARY for n in ("f1", "d", "d/f3")]
        for n in (1, 2) if tier == "quick" else (1, 2):
            hs = list(itertools.product(alphabet, repeat=n))
            if tier == "quick" and n == 2:
                rng.shuffle(hs)
                hs = hs[:600 * scale]
            out += [self.mk(list(h)) for h in hs]
        if tier != "quick":
            seeds = [("DIRECTORY_CREATE", "d"), ("FILE_CREATE", "f1"), ("DIRECTORY_CREATE_ALL", "d/e")]
            for s in seeds:
                hs = list(itertools.product(alphabet, repeat=2))
                rng.shuffle(hs)
                out += [self.mk([s] + list(h)) for h in hs[:3000]]
        for _ in range((250 if tier == "quick" else 6000) * scale):
            out.append(self.mk([self.gen_op(rng) for _ in range(rng.randint(3, 12 if tier == "quick" else 30))]))
        # write sequences on one file: every ordered pair of contents, appended then overwritten (shorter after longer included)
        for v1 in VALUES:
            for v2 in VALUES:
                for second in BINARY:
                    out.append(self.mk([("FILE_CREATE", "f1"), ("FILE_APPEND", "f1", v1), (second, "f1", v2), ("FILE_READ", "f1"),
                                        ("FILE_OVERWRITE", "f1", v1), ("FILE_READ", "f1")]))
        return out

    def run_impl(self, cases):
        os.makedirs(BASE + "-sentinel", exist_ok=True)
        with open(BASE + "-sentinel/keep", "w") as f:
            f.write("sentinel")
        for c in cases:
            shutil.rmtree(c.meta["root"], ignore_errors=True)
            os.makedirs(c.meta["root"])
        res = C.run_harness("run", [(c.src, {}) for c in cases], self.budget, self.depth, tag=self.id)
        out = []
        for c, r in zip(cases, res):
            root = c.meta["root"]
            dump = []
            for pn in NAMES:
                p = os.path.join(root, pn)
                if os.path.isdir(p):
                    dump.append("D")
                elif os.path.isfile(p):
                    dump.append("F" + C.hx(open(p, "rb").read()))
                else:
                    dump.append("-")
            stray = []
            for dp, dns, fns in os.walk(root):
                for n in dns + fns:
                    rel = os.path.relpath(os.path.join(dp, n), root)
                    if rel not in NAMES:
                        stray.append(rel)
            c.meta["stray"] = stray
            shutil.rmtree(root, ignore_errors=True)
            out.append((r or "ABORT") + " | " + " ".join(dump))
        ok = os.path.exists(BASE + "-sentinel/keep") and open(BASE + "-sentinel/keep").read() == "sentinel"
        self.sentinel_ok = ok
        shutil.rmtree(BASE + "-sentinel", ignore_errors=True)
        return out

    def model_expr(self, case):
        root = case.meta["root"]
        return "(run_obs_fs %s %s [%s])" % (C.coq_text(case.src), C.coq_text(root), "; ".join(C.coq_text(root + "/" + n) for n in NAMES))

    def expected(self, case, impl):
        run, _, dump = impl.partition(" | ")
        e = R.expected_from_impl(run)
        return None if e is None else e + " | " + dump

    def oracle(self, case, impl):
        run, _, dump = impl.partition(" | ")
        w = R.crash_oracle(run)
        if w:
            return w
        r = R.parse_run(run)
        if r["cls"] != "OK":
            return "an FS operation terminated the program: " + run[:100]
        if r["out"] != case.meta["exp"]:
            return "results differ from the file-system model: expected %r got %r" % (case.meta["exp"][:200], r["out"][:200])
        want = " ".join("-" if case.meta["final"][n] == "-" else ("D" if case.meta["final"][n] is None else "F" + C.hx(case.meta["final"][n]))
                        for n in NAMES)
        if dump != want:
            return "the resulting directory tree differs from the model: expected %s got %s" % (want, dump)
        if case.meta.get("stray"):
            return "entries outside the named paths were created: %s" % case.meta["stray"]
        if not getattr(self, "sentinel_ok", True):
            return "a sibling of the working directory was modified"
        return None

    def extra_checks(self, ctx):
        """relative paths name entries of the directory the tool was started in, wherever the script lives ("the named paths only")"""
        import subprocess
        import tempfile
        d = tempfile.mkdtemp(prefix="aplang-fs-cli-")
        fails = []
        try:
            os.makedirs(os.path.join(d, "sub"))
            src = ('IMPORT MOD "FS"\nDISPLAY(FILE_CREATE("made.txt"))\nDISPLAY(PATH_EXISTS("made.txt"))\nDISPLAY(PATH_IS_FILE("main.ap"))\n'
                   'DISPLAY(DIRECTORY_CREATE("newdir"))\n')
            with open(os.path.join(d, "sub", "main.ap"), "w") as f:
                f.write(src)
            try:
                p = subprocess.run([C.CLI_BIN, os.path.join("sub", "main.ap")], cwd=d, stdin=subprocess.DEVNULL, stdout=subprocess.PIPE,
                                   stderr=subprocess.PIPE, timeout=60, env=dict(C.ENV, NO_COLOR="1"), preexec_fn=C.limit_memory)
                out, rc = p.stdout.decode("utf-8", "replace"), p.returncode
            except subprocess.TimeoutExpired:
                out, rc = "TIMEOUT", -1
            tree = sorted(os.path.relpath(os.path.join(r, n), d) for r, ds, fs in os.walk(d) for n in ds + fs)
            want_tree = ["made.txt", "newdir", "sub", os.path.join("sub", "main.ap")]
            if rc != 0 or out != "TRUE\nTRUE\nFALSE\nTRUE\n" or tree != sorted(want_tree):
                fails.append(("a script in a sub-directory, run from its parent: relative FS paths must name entries of the directory the "
                              "tool was started in; got status %s, output %r, tree %s" % (rc, out, tree),
                              {"input": src, "how": "mkdir sub; put the program in sub/main.ap; run `aplang sub/main.ap` from the parent",
                               "implementation": "status %s output %r tree %s" % (rc, out, tree)}))
        finally:
            shutil.rmtree(d, ignore_errors=True)
        return fails

    def nontrivial(self, case, impl):
        return case.src.replace(case.meta["root"], "R") if case.meta.get("mutated") else None

    def sample(self, case, impl):
        return {"history": case.src.replace(case.meta["root"], "$ROOT")[16:300], "impl": (impl or "")[:120]}

    def shrink_candidates(self, case):
        return []
