"""C07 — tokenisation is correct and spans are exact for every source string."""
from vlib import common as C
from vlib import lexgen as G
from vlib.runner import PropCheck, Case


def canon_nan(line):
    return line


class PROP(PropCheck):
    id = "C07"
    theorems = ["C07_keywords_are_reference", "C07_single_char_tokens_are_reference", "C07_escapes_are_reference",
                "C07_end_set_is_reference", "C07_blanks_are_reference", "C07_keywords_are_words", "C07_lex_fuel_enough",
                "C07_lex_total", "C07_lex_ok_iff_grammar", "C07_grammar_deterministic", "C07_lex_err_iff", "C07_lex_spans",
                "C07_lex_literals", "C07_lex_labels_ok", "C07_example", "C07_uni_alnum_ascii_ok"]
    coq_imports = ["Token", "LexImpl", "Obs"]
    model_targets = ["theories/Obs.vo"]
    prop_targets = ["theories/Props/C07.vo"]
    harness_mode = "lex"
    trusted_base = [
        "Coq 8.16.1 kernel and bytecode VM (vm_compute evaluates the scanner model on every case)",
        "translator vlib/translate.py: keyword table, one-character token dispatch, compound tokens, blanks, implicit-terminator set, "
        "string escapes are regenerated from src/lexer/{token,lexer}.rs into Gen/Generated.v on every run",
        "hand-written scanner model coq/theories/LexImpl.v consuming those tables, tied to Lexer::scan by the correspondence (K1)",
        "Unicode classification (char::is_alphanumeric) is a Section variable; executed with a finite table (ASCII + 18 listed "
        "non-ASCII alphanumerics); generators draw non-ASCII characters only from that table and 8 listed non-alphanumerics",
        "decimal->double (FloatX.dec_to_float, exact Z arithmetic + SpecFloat.binary_round) validated against Rust's str::parse::<f64> by K1",
        "Rust harness (Lexer::scan through the public API), Python driver and the Python reference predicates lexical_error / spans_ok",
    ]
    rule = ("every string of length <= 2 (quick) / <= 3 (thorough) over a 34-symbol alphabet with a representative of every lexical "
            "class incl. 2-, 3-, 4-byte characters, a sample of the next length, random strings to length 60, token-structured texts "
            "with random trivia, and character-level mutations of examples.ap/*.ap; compared: full token list (kind, offset, length, "
            "lexeme, literal bits) or full error list (code, label ranges). non-trivial = distinct text with at least 2 characters "
            "that yields at least 2 tokens or at least one diagnostic")

    def corpus(self):
        fixed = ['DISPLAY("é")\nx <- 1 + 2.5\n', 'x <- "a\\qb"', ")", '"abc\\', "1.", "1.2.3", "a_b _c", "x\n\n// c\ny", "\\\n", "\\x",
                 "é٣ <- 12.50", "😀", '"\n"', "a\r\nb", "<-<=<>=>==!=", "!", "=", "", "\n", "//", "/", '"', "x // c", "007.5e3",
                 "RETURN\n}", "9" * 400, "0." + "0" * 330 + "1",
                 # fractional literals with 16-19 significant digits (double rounding when mantissa and scale are rounded separately)
                 "1.61803398874989485", "9007199254740993.0", "0.30000000000000004", "123456789012345.678", "2.718281828459045235",
                 "4503599627370497.5", "0.1234567890123456789", "9.999999999999999999", "72057594037927945.0", "1.0000000000000000001",
                 # a byte-order mark is not a character of the language, wherever it stands
                 "\ufeffDISPLAY(1)", "x <- 1\ufeff", "\ufeff"]
        return [Case(s, kind="corpus") for s in fixed]

    def cases(self, rng, tier, scale=1):
        out = []
        seen = set()

        def add(s):
            if "\x00" not in s and s not in seen:
                seen.add(s)
                out.append(Case(s))
        ex = 2 if tier == "quick" else 3
        for s in G.exhaustive(G.LEX_ALPHABET, ex):
            add(s)
        self.extra_coverage = {"exhaustive_space": "all %d strings of length <= %d over %d symbols" % (len(out), ex, len(G.LEX_ALPHABET))}
        nsample = (1500 if tier == "quick" else 60000) * scale
        for _ in range(nsample):
            add("".join(rng.choice(G.LEX_ALPHABET) for _ in range(ex + 1 + (rng.random() < 0.3))))
        for _ in range((700 if tier == "quick" else 20000) * scale):
            add(G.random_string(rng, 60))
        for _ in range((600 if tier == "quick" else 20000) * scale):
            add(G.random_tokenish(rng, rng.randint(1, 25)))
        # number literals of every length up to 22 digits, with and without a fraction: each denotes the nearest double
        for _ in range((250 if tier == "quick" else 6000) * scale):
            nd = rng.randint(1, 22)
            ds = "".join(rng.choice("0123456789") for _ in range(nd))
            cut = rng.randint(1, nd)
            lit = ds[:cut] + ("." + ds[cut:] if cut < nd else "")
            add(rng.choice(["", "x <- ", "DISPLAY("]) + lit)
        progs = G.example_programs()
        for _ in range((300 if tier == "quick" else 8000) * scale):
            s = rng.choice(progs)
            for _ in range(rng.randint(1, 3)):
                s = G.mutate(rng, s)
            add(s[:1500])
        return out

    def model_expr(self, case):
        return "(lex_obs %s)" % C.coq_text(case.src)

    def expected(self, case, impl):
        if impl is None or impl.startswith(("ABORT", "PANIC")):
            return "X " + str(impl)
        return impl.replace(" RENDERPANIC", "").replace(" BADSPAN", "")

    def oracle(self, case, impl):
        if impl is None or impl.startswith("ABORT"):
            return "the scanner aborted the process"
        if impl.startswith("PANIC"):
            return "the scanner panicked: " + C.unhx(impl.split(" ")[1]).decode("utf-8", "replace")[:200]
        if impl.startswith("APIMISMATCH"):
            return "Lexer::scan and the tool's lexing step (ApLang::lex) disagree on whether this text tokenises: " + impl
        has_err = G.lexical_error(case.src)
        if impl.startswith("OK"):
            if has_err:
                return "tokenisation succeeded although the string contains a lexical error"
            return G.spans_ok(case.src, G.parse_tokens(impl))
        if impl.startswith("ERR"):
            if not has_err:
                return "tokenisation failed although the string contains no lexical error"
            if int(impl.split(" ")[1]) < 1:
                return "failure without a diagnostic"
            return None
        return "unrecognised harness answer " + impl[:80]

    def nontrivial(self, case, impl):
        if len(case.src) >= 2 and impl and (impl.startswith("ERR") or impl.count(":") >= 8):
            return case.src
        return None

    def shrink_candidates(self, case):
        s = case.src
        out = [Case(s[:i] + s[i + 1:], kind="shrunk") for i in range(len(s))]
        return out[:60]
