"""C16 — MAP objects behave as finite maps under every operation history."""
import itertools
import math

from vlib import common as C
from vlib import pyref as Y
from vlib import runchan as R
from vlib.runner import PropCheck, Case

HEAD = 'IMPORT MOD "MAP"\nm1 <- MAP()\nm2 <- MAP()\n'
# key expression, Python-side normalised key (kind, value)
KEYS = [("1", ("n", 1.0)), ("1.0", ("n", 1.0)), ("0", ("n", 0.0)), ("-0", ("n", 0.0)), ('"1"', ("s", "1")), ("TRUE", ("b", True)),
        ("NULL", ("z", None)), ("0.5", ("n", 0.5)), ('""', ("s", "")), ("FALSE", ("b", False)), ("2", ("n", 2.0))]
NEAR = [("0.3", ("n", 0.3)), ("0.1+0.2", ("n", 0.1 + 0.2))]
VALS = [("10", 10.0), ('"v"', "v"), ("NULL", None), ("TRUE", True), ("7.5", 7.5)]
EPS = 2.220446049250313e-16
# boundary keys: whole numbers at and beyond 2^53 / 2^63 / the i64 and u64 ranges, huge and tiny magnitudes, halves,
# strings that print like other keys or share a long prefix (any normalisation of a key that conflates two of them shows)
WIDE = [("9007199254740992", ("n", 2.0 ** 53)), ("9007199254740994", ("n", 2.0 ** 53 + 2)), ("9223372036854775808", ("n", 2.0 ** 63)),
        ("10000000000000000000", ("n", 1e19)), ("20000000000000000000", ("n", 2e19)), ("-10000000000000000000", ("n", -1e19)),
        ("-20000000000000000000", ("n", -2e19)), ("18446744073709551616", ("n", 2.0 ** 64)), ("4294967296", ("n", 2.0 ** 32)),
        ("4294967297", ("n", 2.0 ** 32 + 1)), ("2147483648", ("n", 2.0 ** 31)), ("-2147483649", ("n", -2.0 ** 31 - 1)),
        ("1" + "0" * 30, ("n", float("1" + "0" * 30))), ("2" + "0" * 30, ("n", float("2" + "0" * 30))), ("1.5", ("n", 1.5)), ("2.5", ("n", 2.5)), ("-1", ("n", -1.0)), ("-1.5", ("n", -1.5)),
        ("0.000001", ("n", 1e-6)), ("0.000002", ("n", 2e-6)),
        ('"TRUE"', ("s", "TRUE")), ('"NULL"', ("s", "NULL")), ('"0"', ("s", "0")), ('" 1"', ("s", " 1")), ('"1.0"', ("s", "1.0")),
        ('"abcdefghijklmnopqrstuvwxyz0123456789-A"', ("s", "abcdefghijklmnopqrstuvwxyz0123456789-A")),
        ('"abcdefghijklmnopqrstuvwxyz0123456789-B"', ("s", "abcdefghijklmnopqrstuvwxyz0123456789-B")),
        ('"a"', ("s", "a")), ('"A"', ("s", "A")), ('"é"', ("s", "é")), ('"e"', ("s", "e"))]


def lang_equal(a, b):
    """the language's == on keys"""
    if a[0] != b[0]:
        return False
    if a[0] == "n":
        return abs(a[1] - b[1]) < EPS
    return a[1] == b[1]


class Ideal:
    """ideal finite map keyed by the language's own equality"""

    def __init__(self):
        self.items = []

    def find(self, k):
        for i, (kk, v) in enumerate(self.items):
            if lang_equal(kk, k):
                return i
        return None

    def insert(self, k, v):
        i = self.find(k)
        if i is None:
            self.items.append((k, v))
            return None
        old = self.items[i][1]
        self.items[i] = (self.items[i][0], v)
        return old

    def get(self, k):
        i = self.find(k)
        return None if i is None else self.items[i][1]


def run_ideal(ops):
    maps = {"m1": Ideal(), "m2": Ideal()}
    out = []
    for op in ops:
        kind, m = op[0], op[1]
        if kind == "ins":
            out.append(Y.show_value(maps[m].insert(op[2][1], op[3][1])))
        elif kind == "get":
            out.append(Y.show_value(maps[m].get(op[2][1])))
        elif kind == "has":
            out.append(Y.show_value(maps[m].find(op[2][1]) is not None))
        elif kind == "size":
            out.append(Y.rust_show(float(len(maps[m].items))))
            out.append(Y.rust_show(float(len(maps[m].items))))
    return "\n".join(out) + ("\n" if out else "")


def program(ops):
    lines = []
    for op in ops:
        kind, m = op[0], op[1]
        if kind == "ins":
            lines.append("DISPLAY(MAP_INSERT(%s, %s, %s))" % (m, op[2][0], op[3][0]))
        elif kind == "get":
            lines.append("DISPLAY(MAP_GET(%s, %s))" % (m, op[2][0]))
        elif kind == "has":
            lines.append("DISPLAY(MAP_CONTAINS_KEY(%s, %s))" % (m, op[2][0]))
        elif kind == "size":
            lines.append("DISPLAY(LENGTH(MAP_KEYS(%s, 0)))\nDISPLAY(LENGTH(MAP_VALUES(%s, 0)))" % (m, m))
    return HEAD + "\n".join(lines) + "\n"


def near_pair(ops):
    ks = {}
    for op in ops:
        if len(op) > 2 and op[2][1][0] == "n":
            ks.setdefault(op[1], []).append(op[2][1][1])
    for m, vs in ks.items():
        for a, b in itertools.combinations(vs, 2):
            if a != b and abs(a - b) < EPS:
                return True
    return False


class PROP(PropCheck):
    id = "C16"
    theorems = ["C16_insert_get_same", "C16_insert_get_other", "C16_insert_size", "C16_keys_values_exact", "C16_key_eq_sym",
                "C16_key_eq_refl_scalar", "C16_map_insert_spec", "C16_map_get_spec", "C16_map_contains_spec", "C16_maps_independent",
                "C16_non_map_is_error", "C16_near_keys_refuted",
                "C16_key_eq_cong", "C16_find_put", "C16_step_refines", "C16_history_refines", "C16_history_from_empty",
                "C16_history_distinct", "C16_cstep_is_native_insert", "C16_cstep_is_native_get", "C16_cstep_is_native_contains", "C16_history_example"]
    audit_modules = ["C16", "C16b"]
    allowed_axioms = ("FloatAxioms.eqb_spec", "eqb_spec")
    coq_imports = ["Obs"]
    model_targets = ["theories/Obs.vo"]
    prop_targets = ["theories/Props/C16.vo", "theories/Props/C16b.vo"]
    harness_mode = "run"
    trusted_base = [
        "Coq 8.16.1 kernel and bytecode VM",
        "map model: an association list under PartialEq for Value (EvalImpl.map_find / map_put); HashMap's internals are not modelled "
        "(hash consistency after the F18 repair is assumed; list keys mutated after insertion are outside the generated histories)",
        "evaluator model tied to the code by K3; Python ideal map keyed by the language's own equality as the direct oracle",
    ]
    rule = ("histories of MAP_INSERT / MAP_GET / MAP_CONTAINS_KEY / size of MAP_KEYS and MAP_VALUES over two maps, keys from "
            "{1, 1.0, 0, -0, \"1\", TRUE, NULL, 0.5, \"\", FALSE, 2} (equal-but-differently-written keys included) and 5 values, plus histories over "
            "small pools of boundary keys (whole numbers around 2^31, 2^32, 2^53, 2^63, 2^64, +-1e19, 1e30, halves, strings that print like "
            "other keys or share a long prefix): all histories "
            "of length <= 2 (quick) / <= 3 (thorough) over a reduced alphabet, random histories to length 12 (quick) / 40 (thorough); "
            "non-map first arguments. non-trivial = distinct history with >= 2 operations on the same map")

    def gen_op(self, rng, keys=KEYS):
        m = rng.choice(["m1", "m1", "m2"])
        k = rng.random()
        if k < 0.45:
            return ("ins", m, rng.choice(keys), rng.choice(VALS))
        if k < 0.7:
            return ("get", m, rng.choice(keys))
        if k < 0.9:
            return ("has", m, rng.choice(keys))
        return ("size", m)

    def corpus(self):
        fixed = [[("ins", "m1", KEYS[2], VALS[1]), ("get", "m1", KEYS[3]), ("has", "m1", KEYS[3])],
                 [("ins", "m1", KEYS[0], VALS[0]), ("ins", "m1", KEYS[1], VALS[1]), ("get", "m1", KEYS[4]), ("get", "m2", KEYS[0]), ("size", "m1")],
                 [("ins", "m1", NEAR[0], VALS[0]), ("get", "m1", NEAR[1])]]
        out = [Case(program(o), meta={"ops": o}, kind="corpus") for o in fixed]
        for bad in ["NULL", "1", '"m"', "[1]", "ROBOT"]:
            src = 'IMPORT MOD "MAP"\nIMPORT MOD "ROBOT"\nROBOT <- ROBOT_MAP("n")\nDISPLAY(MAP_GET(%s, 1))\n' % bad
            out.append(Case(src, meta={"bad": bad}, kind="corpus"))
        return out

    def cases(self, rng, tier, scale=1):
        out = []
        small_keys = [KEYS[0], KEYS[1], KEYS[2], KEYS[3], KEYS[4], KEYS[6]]
        alphabet = [("ins", "m1", k, VALS[0]) for k in small_keys] + [("get", "m1", k) for k in small_keys] + \
                   [("has", "m1", k) for k in small_keys[:3]] + [("ins", "m2", small_keys[0], VALS[1]), ("get", "m2", small_keys[0])]
        for n in (1, 2) if tier == "quick" else (1, 2, 3):
            for h in itertools.product(alphabet, repeat=n):
                out.append(Case(program(list(h) + [("size", "m1")]), meta={"ops": list(h) + [("size", "m1")]}))
        for _ in range((500 if tier == "quick" else 12000) * scale):
            ops = [self.gen_op(rng) for _ in range(rng.randint(2, 12 if tier == "quick" else 40))]
            out.append(Case(program(ops), meta={"ops": ops}))
        for _ in range((250 if tier == "quick" else 6000) * scale):
            # a small pool per history (boundary keys, with a few ordinary ones) so that the same few keys meet on one map
            pool = rng.sample(WIDE, rng.randint(2, 4)) + rng.sample(KEYS, rng.randint(0, 2))
            ops = [self.gen_op(rng, pool) for _ in range(rng.randint(3, 12 if tier == "quick" else 30))]
            out.append(Case(program(ops), meta={"ops": ops}))
        for _ in range(20 * scale):
            ops = [self.gen_op(rng, KEYS + NEAR) for _ in range(rng.randint(2, 10))]
            out.append(Case(program(ops), meta={"ops": ops}))
        return out

    def model_expr(self, case):
        return "(run_obs %s)" % C.coq_text(case.src)

    def expected(self, case, impl):
        return R.expected_from_impl(impl)

    def oracle(self, case, impl):
        w = R.crash_oracle(impl)
        if w:
            return w
        r = R.parse_run(impl)
        if "bad" in case.meta:
            return None if r["cls"] == "RT" else "a non-map first argument did not raise a runtime error"
        exp = run_ideal(case.meta["ops"])
        if r["cls"] != "OK":
            return "the history did not complete: " + (impl or "")[:100]
        if r["out"] != exp:
            return "results differ from the ideal finite map: expected %r got %r" % (exp[:160], r["out"][:160])
        return None

    def known(self, case, impl, why):
        if "ops" in case.meta and near_pair(case.meta["ops"]) and "ideal finite map" in why:
            return "F18b"
        return None

    def nontrivial(self, case, impl):
        ops = case.meta.get("ops")
        if ops and sum(1 for o in ops if o[1] == "m1") >= 2:
            return case.src
        return None

    def sample(self, case, impl):
        return {"program": case.src[len(HEAD):][:250], "impl": (impl or "")[:100]}

    def shrink_candidates(self, case):
        ops = case.meta.get("ops")
        if not ops:
            return []
        return [Case(program(ops[:i] + ops[i + 1:]), meta={"ops": ops[:i] + ops[i + 1:]}, kind="shrunk") for i in range(len(ops))]
