"""C09 — the parser accepts the documented grammar and rejects misplaced RETURN/BREAK/CONTINUE,
unbalanced brackets and operators lacking an operand."""
from vlib import common as C
from vlib import progen as P
from vlib.runner import PropCheck, Case


class PROP(PropCheck):
    id = "C09"
    mismatch_is_failure = False
    theorems = ["C09_parse_wf", "C09_misplaced_rejected", "C09_rejection_has_diagnostic", "C09_accepts_example",
                "C09_documented_grammar_accepted", "C09_accepted_tree_is_program", "C09_accepted_is_balanced", "C09_unbalanced_rejected", "C11_parse_sound"]
    audit_modules = ["C09", "C09b", "C09c", "C11b"]
    coq_imports = ["Token", "LexImpl", "Ast", "ParseImpl", "Obs"]
    model_targets = ["theories/Obs.vo"]
    prop_targets = ["theories/Props/C09.vo", "theories/Props/C09b.vo", "theories/Props/C09c.vo", "theories/Props/C11b.vo"]
    harness_mode = "parse"
    trusted_base = [
        "Coq 8.16.1 kernel and bytecode VM (vm_compute evaluates scanner + parser models on every case)",
        "translator vlib/translate.py: expression ladder (operator tokens, operand callees per rung), to_binary_op/to_unary_op maps, "
        "synchronize keyword set regenerated from src/parser/parser.rs and src/lexer/token.rs on every run",
        "hand-written parser model coq/theories/ParseImpl.v (statement dispatcher, blocks, loops, procedures, imports, flags, recovery), "
        "tied to Parser::parse by the correspondence (K2): ASTs with the spans of the tokens each node keeps, or the diagnostics with their label ranges",
        "Rust harness (ApLang::lex/parse + the H3 AST accessor), Python driver, generator of derivations and of rejection classes",
    ]
    rule = ("random derivations of the documented statement grammar (depth <= 3 quick / 5 thorough; every statement kind, bodies in braces and "
            "bare, the three IMPORT forms, nested procedures) rendered canonically and with random legal layouts (terminator newline / ';' / "
            "nothing before '}' or end of input); rejection classes: RETURN/BREAK/CONTINUE transplanted outside a procedure/loop, one bracket "
            "deleted or inserted, an operator lacking an operand; compared: the full AST (with token ranges) or the diagnostics; oracle: "
            "accepted / rejected as classified by the generator. non-trivial = distinct text with >= 2 statements or a rejection class")

    def corpus(self):
        valid = ["PROCEDURE f(){ RETURN 1 }", "PROCEDURE g(){ RETURN }", "{\n{\nDISPLAY(1)\n}\n}\n", 'IMPORT MOD "MATH"',
                 'IMPORT "SIN" FROM MOD "MATH"\nIMPORT ["SIN","COS"] FROM MOD "MATH"', "REPEAT 3 TIMES { IF (a) { BREAK } ELSE { CONTINUE } }",
                 "FOR EACH x IN [1,2] { DISPLAY(x) }", "REPEAT UNTIL (a > 3) { a <- a + 1 }", "a[1][2] <- f(1)[2] + -b * NOT c",
                 "IF (a) { } ELSE IF (b) { } ELSE { }", "EXPORT PROCEDURE p(a, b) { RETURN a + b\n}", "x <- y <- 3", "a AND b AND c OR d",
                 "REPEAT 2 TIMES { PROCEDURE q() { RETURN 1 } }", "x<-l[1]-1\ny<-l[i]-2*3\nREPEAT l[1]-3 TIMES{DISPLAY(f(x)-1)}",
                 "PROCEDURE f(n){RETURN n[1]-1}", "REPEAT 3 TIMES {\nBREAK\nDISPLAY(1)\nCONTINUE\nDISPLAY(2)\n}"]
        bad = ["RETURN 1", "BREAK", "CONTINUE", "REPEAT 1 TIMES { PROCEDURE f() { BREAK } }", "PROCEDURE f() { } RETURN 2", "(a", "a)", "[1, 2",
               "{ a", "a + ", "f(a,", "a <- ", "IF (a { }", "1 <- 2", "(a) <- 1", "EXPORT 3", "PROCEDURE (a) {}", "PROCEDURE f a) {}",
               "FOR x IN l {}", "FOR EACH IN l {}", "FOR EACH x l {}", "REPEAT 3 { }", "REPEAT UNTIL a {}", "IMPORT MOD", "IMPORT \"a\" MOD \"b\"",
               ") ) )", "a b", "}", "ELSE { }", 'IMPORT [] FROM MOD "MATH"', 'IMPORT ["SIN",] FROM MOD "MATH"', 'IMPORT [,] FROM MOD "MATH"']
        return [Case(s, meta={"cls": "valid"}, kind="corpus") for s in valid] + [Case(s, meta={"cls": "reject"}, kind="corpus") for s in bad]

    def cases(self, rng, tier, scale=1):
        out = []
        n = (1200 if tier == "quick" else 20000) * scale
        maxd = 3 if tier == "quick" else 5
        for i in range(n):
            g = P.Gen(rng, maxd=rng.randint(1, maxd))
            prog = g.program()
            toks = P.prog_toks(prog, full=(rng.random() < 0.1))
            k = rng.random()
            if k < 0.08:
                out.append(Case(P.render(toks, rng, compact=True), meta={"cls": "valid", "compact": True}))
            elif k < 0.55:
                out.append(Case(P.render(toks, rng, vary=(rng.random() < 0.6), keyword_case=True), meta={"cls": "valid"}))
            elif k < 0.7:
                out.append(Case(P.render(P.misplace(rng, toks), rng, vary=False), meta={"cls": "reject", "why": "misplaced"}))
            elif k < 0.85:
                out.append(Case(P.render(P.unbalance(rng, toks), rng, vary=False), meta={"cls": "reject", "why": "unbalanced"}))
            else:
                out.append(Case(P.render(P.drop_operand(rng, toks), rng, vary=False), meta={"cls": "reject", "why": "operand"}))
        return out

    def model_expr(self, case):
        return "(parse_obs %s)" % C.coq_text(case.src)

    def expected(self, case, impl):
        if impl is None or impl.startswith(("ABORT", "PANIC")):
            return "X " + str(impl)[:100]
        return impl.replace(" RENDERPANIC", "").replace(" BADSPAN", "")

    def oracle(self, case, impl):
        if impl is None or impl.startswith("ABORT"):
            return "the front end aborted the process"
        if impl.startswith("PANIC"):
            return "the front end panicked: " + C.unhx(impl.split(" ")[1]).decode("utf-8", "replace")[:200]
        cls = case.meta.get("cls")
        if cls == "valid" and not impl.startswith("OK"):
            return "a program derivable from the documented grammar was rejected: " + impl[:120]
        if cls == "reject":
            if impl.startswith("OK"):
                return "a program with %s was accepted" % case.meta.get("why", "a syntax error")
            if int(impl.split(" ")[1]) < 1:
                return "rejected without a diagnostic"
        return None

    def shrink_candidates(self, case):
        return []     # the accept/reject classification belongs to the generated text as a whole

    def nontrivial(self, case, impl):
        if case.meta.get("cls") == "reject" or case.src.count("\n") >= 1:
            return case.src
        return None
