"""C08 — lexing, parsing and diagnostic rendering terminate without crashing on any input."""
import itertools

from vlib import common as C
from vlib import lexgen as G
from vlib import progen as P
from vlib.runner import PropCheck, Case

TOKEN_TEXTS = [";", "(", ")", "[", "]", "{", "}", ",", ".", "-", "+", "/", "*", "<-", "==", "!=", ">", ">=", "<", "<=", "x", "1", '"s"',
               "MOD", "IF", "ELSE", "REPEAT", "TIMES", "UNTIL", "FOR", "EACH", "CONTINUE", "BREAK", "IN", "PROCEDURE", "RETURN", "NOT",
               "AND", "OR", "TRUE", "FALSE", "NULL", "IMPORT", "EXPORT", "FROM", "\n"]


class PROP(PropCheck):
    id = "C08"
    mismatch_is_failure = False
    theorems = ["C08_lex_total", "C08_lex_output_shaped", "C08_parse_no_panic", "C08_parse_fuel_enough", "C08_parse_result",
                "C08_synchronize_progress", "C08_declaration_progress", "C08_front_end_total"]
    coq_imports = ["Obs"]
    model_targets = ["theories/Obs.vo"]
    prop_targets = ["theories/Props/C08.vo"]
    harness_mode = "parse"
    trusted_base = [
        "Coq 8.16.1 kernel and bytecode VM",
        "scanner and parser models (LexImpl.v, ParseImpl.v) with every panic-capable site as an explicit outcome, driven by translator-"
        "regenerated tables; tied to the code by the correspondence K1/K2",
        "NOT modelled: miette's rendering of diagnostics (exercised by the harness: every report of every case is rendered with "
        "format!(\"{:?}\") under catch_unwind) and the native stack (derivation depth of generated inputs is bounded; see known finding F22)",
        "Rust harness, Python driver, generators",
    ]
    rule = ("every sequence of <= 2 (quick) / <= 3 (thorough) tokens over the full 46-kind token alphabet rendered to text; every string of "
            "length <= 2 over the 34-symbol lexical alphabet; random strings; valid programs mutated by token deletion, duplication, "
            "transposition and truncation; bracket nesting to depth 60. oracle: the front end returned (no panic, no abort), Ok xor a "
            "non-empty diagnostic list, every diagnostic rendered. non-trivial = distinct text of at least 2 tokens")

    def corpus(self):
        fixed = [")", "", "(((((", "}}}}", "IF", "IF (", "REPEAT", "FOR EACH", "PROCEDURE", "EXPORT", "IMPORT [", 'IMPORT ["a",', "x <-", "x[",
                 "f(", "[", "a AND", "NOT", "-", "RETURN", "(" * 60 + "1" + ")" * 60, "[" * 60 + "]" * 60, "{" * 40 + "}" * 40,
                 "-" * 200 + "1", "NOT " * 150 + "x", "a <- " * 100 + "1", "IF (a) {} ELSE " * 50 + "{}", "x " + "AND x " * 150,
                 'IMPORT [' + ",".join(['"f"'] * 70) + '] FROM MOD "M"', "PROCEDURE f(" + ",".join("p%d" % i for i in range(300)) + ") {}",
                 "f(" + ",".join(["1"] * 300) + ")", "\\", "!", "=", '"abc', "é(", "😀",
                 # every kind of expression as an (invalid) assignment target: the diagnostic quotes the expression
                 "[] <- 1", "f() <- 1", "[1] <- 2", "f(1, [2, 3]) <- 4", "(x) <- 1", "1 <- 2", '"s" <- 1', "TRUE <- 1", "NULL <- 1",
                 "-x <- 1", "NOT x <- 1", "a + b <- 1", "a AND b <- 1", "x[1][2] <- 3", "f()[1] <- 2", "[[]] <- []", "[f(), []] <- 0",
                 "x <- y <- [] <- 1", "l[[]] <- 1", "l[f()] <- 1"]
        return [Case(s, kind="corpus") for s in fixed]

    def cases(self, rng, tier, scale=1):
        out = []
        k = 2 if tier == "quick" else 3
        for n in range(1, k + 1):
            for t in itertools.product(TOKEN_TEXTS, repeat=n):
                out.append(Case(" ".join(t)))
        if tier == "quick":
            for _ in range(1500 * scale):
                out.append(Case(" ".join(rng.choice(TOKEN_TEXTS) for _ in range(rng.randint(3, 8)))))
        for s in G.exhaustive(G.LEX_ALPHABET, 2):
            out.append(Case(s))
        progs = G.example_programs()
        for _ in range((600 if tier == "quick" else 30000) * scale):
            g = P.Gen(rng, maxd=rng.randint(1, 3))
            toks = [t for t in P.prog_toks(g.program()) ]
            m = rng.random()
            if toks and m < 0.25:
                del toks[rng.randrange(len(toks))]
            elif toks and m < 0.5:
                i = rng.randrange(len(toks))
                toks.insert(i, toks[i])
            elif len(toks) > 1 and m < 0.75:
                i = rng.randrange(len(toks) - 1)
                toks[i], toks[i + 1] = toks[i + 1], toks[i]
            else:
                toks = toks[:rng.randrange(len(toks) + 1)]
            out.append(Case(P.render(toks)))
        for _ in range((300 if tier == "quick" else 10000) * scale):
            s = rng.choice(progs)
            out.append(Case(G.mutate(rng, s)[:rng.randint(1, 1200)]))
        for _ in range((300 if tier == "quick" else 10000) * scale):
            out.append(Case(G.random_string(rng, 40)))
        return out

    def model_expr(self, case):
        return "(parse_obs %s)" % C.coq_text(case.src)

    def expected(self, case, impl):
        if impl is None or impl.startswith(("ABORT", "PANIC")):
            return "X " + str(impl)[:100]
        return impl.replace(" RENDERPANIC", "").replace(" BADSPAN", "")

    def oracle(self, case, impl):
        if impl is None or impl.startswith("ABORT"):
            return "the front end aborted the process (%s)" % impl
        if impl.startswith("PANIC"):
            return "the front end panicked: " + C.unhx(impl.split(" ")[1]).decode("utf-8", "replace")[:200]
        if "RENDERPANIC" in impl:
            return "rendering a diagnostic panicked"
        if "BADSPAN" in impl:
            return "a diagnostic labels a byte range that cannot be read from the source"
        if impl.startswith(("ERR", "LEXERR")) and int(impl.split(" ")[1]) < 1:
            return "failure without a diagnostic"
        return None

    def known(self, case, impl, why):
        # F22: unbounded native recursion on unbracketed prefix / right-recursive chains
        if impl and impl.startswith("ABORT") and not any(b in case.src for b in "()[]{}") and len(case.src) > 5000:
            return "F22"
        return None

    def nontrivial(self, case, impl):
        return case.src if len(case.src.split()) >= 2 or len(case.src) >= 2 else None

    def shrink_candidates(self, case):
        s = case.src
        return [Case(s[:i] + s[i + 1:], kind="shrunk") for i in range(min(len(s), 60))]
