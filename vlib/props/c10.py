"""C10 — any valid program ends normally or with a runtime diagnostic, never a crash."""
import itertools

from vlib import common as C
from vlib import progen as P
from vlib import runchan as R
from vlib.runner import PropCheck, Case

EXCLUDED = {"INPUT", "INPUT_PROMPT"}          # not in the property's list (they block on stdin)
COVERED_MODULES = ["CORE", "MATH", "STRING", "MAP", "IO", "STYLE", "TIME", "ROBOT"]

STMT_FORMS = [
    "REPEAT {x} TIMES {{ DISPLAY(1) }}",
    "FOR EACH v IN {x} {{ DISPLAY(v) }}",
    "DISPLAY(({x})[1])",
    "DISPLAY(({x})[{y}])",
    "q <- {x}\nq[1] <- {y}\nDISPLAY(q)",
    "q <- {x}\nq[{y}] <- 0\nDISPLAY(q)",
    "IF ({x}) {{ DISPLAY(1) }} ELSE {{ DISPLAY(0) }}",
    "DISPLAY(NOT {x})",
    "DISPLAY(-{x})",
    "REPEAT UNTIL ({x}) {{ DISPLAY(1)\nBREAK }}",
    "DISPLAY({x} AND {y})",
    "DISPLAY({x} OR {y})",
    "PROCEDURE p(a, b) {{ RETURN a }}\nDISPLAY(p({x}))",
    "DISPLAY(nope({x}))",
    "display({x})",
    "DISPLAY(length({x}))",
    "DISPLAY(zz)",
]
BINOPS = ["+", "-", "*", "/", "MOD", "==", "!=", "<", "<=", ">", ">="]
BOUNDARY7 = ["0", "1", "2", R.BIG, '"a,b"', "l", "m"]
BOUNDARY10 = BOUNDARY7 + ["NULL", "-1", '"é"', "0.5", "2.5"]

STATEFUL = [
    "FOR EACH x IN l { REMOVE(l, 1) }\nDISPLAY(l)",
    "FOR EACH x IN l { APPEND(l, x)\nIF (LENGTH(l) > 8) { BREAK } }\nDISPLAY(l)",
    "l <- l\nDISPLAY(l)",
    "l[3] <- REMOVE(l, 1)\nDISPLAY(l)",
    "l2[LENGTH(l)] <- REMOVE(l, 2)\nDISPLAY(l)",
    "l[1] <- REMOVE(l, 1) + REMOVE(l, 1) + REMOVE(l, 1)\nDISPLAY(l)",
    "a <- [1]\nb <- [2]\na <- b\nb <- a\nDISPLAY(a + b)",
    "MAP_INSERT(m, l, 1)\nDISPLAY(MAP_GET(m, [10, 20, 30]))",
    "MAP_INSERT(m, m, m)\nDISPLAY(MAP_CONTAINS_KEY(m, m))",
    "REPEAT 3 TIMES { PROCEDURE inner() { RETURN 1 } }\nDISPLAY(inner())",
    "PROCEDURE rec(n) { IF (n == 0) { RETURN 0 }\nRETURN rec(n - 1) }\nDISPLAY(rec(50))",
    "INSERT(l, 4, 0)\nINSERT(l, 1, 0)\nDISPLAY(REMOVE(l, 5))\nDISPLAY(l)",
    "DISPLAY(FORMAT(\"{} {} {}\", [1, \"a\"]))",
    "DISPLAYF(\"{}{}\", [l, m, r])",
    "DISPLAY(SUBSTRING(\"héllo\", 2, 100))\nDISPLAY(SUBSTRING(\"abc\", 4, 1))\nDISPLAY(SUBSTRING(\"abc\", 0.5, 1))",
    "DISPLAY(RANDOM(3, 3))\nDISPLAY(RANDOM(5, 1))",
    "x <- MOVE_FORWARD(r)",
    "ROTATE_RIGHT(r)\nDISPLAY(MOVE_FORWARD(r))\nDISPLAY(MOVE_FORWARD(r))",
    "s <- \"abc\"\nFOR EACH c IN s { s <- s + c }\nDISPLAY(s)",
    "FOR EACH x IN l { x <- l }\nDISPLAY(LENGTH(l))",
    "STYLE(\"RED\")\nSTYLE(\"nope\")\nCLEAR_STYLE()\nDISPLAY(TIME() > 0)\nSLEEP(1)\nSLEEP(-5)",
    "IMPORT MOD \"NOPE\"",
    "IMPORT \"SIN\" FROM MOD \"STRING\"",
    "IMPORT MOD \"nope.ap\"",
    "PROCEDURE f(a, a) { RETURN a }\nDISPLAY(f(1, 2))",
]


class PROP(PropCheck):
    id = "C10"
    mismatch_is_failure = False
    theorems = ["C10_run_no_panic", "C10_fresh_state_ok", "C10_parse_prog_ok", "C10_lib_total", "C10_exit_only_from_move", "C10_pipeline_no_panic"]
    audit_modules = ["C10", "C10b"]
    allowed_axioms = ("FloatAxioms.leb_spec", "leb_spec", "FloatAxioms.Prim2SF_valid", "Prim2SF_valid")
    coq_imports = ["Obs"]
    model_targets = ["theories/Obs.vo"]
    prop_targets = ["theories/Props/C10.vo", "theories/Props/C10b.vo"]
    harness_mode = "run"
    trusted_base = [
        "Coq 8.16.1 kernel and bytecode VM; primitive floats (PrimFloat) evaluated by the VM on hardware doubles",
        "translator vlib/translate.py: std_function! signatures (arity, argument casts), module registry, operator arms of "
        "Interpreter::binary/unary/equals/is_truthy, MATH bodies, STYLE table regenerated from the source on every run",
        "hand-written evaluator and library model coq/theories/{Value,StrLib,EvalImpl}.v with every panic-capable site as an explicit outcome, "
        "tied to the code by the correspondence (K3): captured output bytes and the outcome (error class and label range)",
        "FloatX (decimal<->double, fmod, casts) validated against Rust through K3 only; libm functions are an oracle table",
        "hook H2 (statement budget / call depth) ends runaway programs; such cases are skipped, not compared",
        "Rust harness, Python driver and generators (type chaos over every library procedure of the listed modules)",
    ]
    rule = ("type chaos: every procedure of CORE, MATH, STRING, MAP, IO (FORMAT/DISPLAYF), STYLE, TIME, ROBOT (INPUT excluded) applied to "
            "argument tuples from a 29-value pool (NULL, booleans, 0, -0, -1, fractions, 1e300, inf, NaN, -inf, strings incl. non-ASCII, "
            "empty/nested/aliased lists, a map, a robot): all tuples for arity <= 1, a seeded sample for arity 2 and 3; every statement form "
            "and binary operator applied to every kind; stateful sequences (lists shrunk/grown while iterated, self-assignment, list keys, "
            "recursion); random derivations. oracle: outcome in {normal, runtime diagnostic, robot-at-wall}; non-trivial = distinct program "
            "that reaches the evaluator")

    def corpus(self):
        return [Case(R.PRELUDE + s + "\n", kind="corpus") for s in STATEFUL]

    def cases(self, rng, tier, scale=1):
        out = []
        sigs = [s for s in R.sigs_from_generated() if s[0] in COVERED_MODULES and s[1] not in EXCLUDED]
        quick = tier == "quick"
        for (m, name, kinds) in sigs:
            n = len(kinds)
            if n == 0:
                combos = [()]
            elif n == 1:
                combos = [(a,) for a in R.POOL]
            else:
                k = (14 if quick else 120) * scale
                combos = [tuple(rng.choice(R.POOL) for _ in range(n)) for _ in range(k)]
            # boundary values crossed exhaustively (crashes hide where two boundary arguments meet: an in-range start with a
            # huge length, an index with an aliased list, ...)
            if n == 2:
                combos += list(itertools.product(BOUNDARY10, repeat=2))
            elif n == 3:
                combos += list(itertools.product(BOUNDARY7 if quick else BOUNDARY10, repeat=3))
            # wrong argument counts too
            combos += [tuple(rng.choice(R.POOL) for _ in range(n + 1))]
            if n:
                combos += [tuple(rng.choice(R.POOL) for _ in range(n - 1))]
            for c in combos:
                if name == "SLEEP" and c and c[0] in (R.BIG, R.INF, "3", "2.9"):
                    continue
                if name == "REPEAT":
                    continue
                if name == "RANDOM":      # nondeterministic value: only "does not crash" and the range are observable
                    out.append(Case(R.PRELUDE + "x <- RANDOM(%s)\nDISPLAY(x != NULL)\n" % ", ".join(c),
                                    meta={"proc": name}))
                    continue
                if name == "TIME" and not c:
                    out.append(Case(R.PRELUDE + "DISPLAY(TIME() > 1000)\n", meta={"proc": name}))
                    continue
                meta = {"proc": name}
                if m == "MATH" and all(a in R.POOL_NUM for a in c):
                    meta["math"] = [(name, [R.POOL_NUM[a] for a in c])]
                out.append(Case(R.PRELUDE + "DISPLAY(%s(%s))\nDISPLAY(l)\n" % (name, ", ".join(c)), meta=meta))
        pool_small = [p for p in R.POOL if p not in (R.BIG, R.INF)]
        for form in STMT_FORMS:
            for x in R.POOL:
                if "REPEAT {x} TIMES" in form and x in (R.BIG, R.INF):
                    continue
                y = rng.choice(R.POOL)
                out.append(Case(R.PRELUDE + form.format(x=x, y=y) + "\n", meta={"form": form[:20]}))
        pairs = list(itertools.product(R.POOL, R.POOL))
        rng.shuffle(pairs)
        for op in BINOPS:
            for (x, y) in pairs[: (25 if quick else 400) * scale]:
                out.append(Case(R.PRELUDE + "DISPLAY(%s %s %s)\n" % (x, op, y), meta={"op": op}))
        for _ in range((150 if quick else 3000) * scale):
            g = P.Gen(rng, maxd=rng.randint(1, 3), names=("l", "l2", "m", "a", "s"),
                      procs=[("LENGTH", 1), ("APPEND", 2), ("REMOVE", 2), ("INSERT", 3), ("MAP_GET", 2), ("TO_UPPER", 1), ("ROUND", 1)])
            out.append(Case(R.PRELUDE + "a <- 2\ns <- \"st\"\n" + P.render(P.prog_toks(g.program())), meta={"gen": True}))
        return out

    def prepare(self, cases):
        """resolve the libm oracle entries of all cases with one harness call"""
        calls = []
        for c in cases:
            calls += c.meta.get("math", [])
        if not calls:
            return
        entries = R.libm_entries(calls)
        table = {}
        for fn, a, r in entries:
            table[(fn, tuple(R.float_bits(x) for x in a))] = (fn, a, r)
        mb = R.math_bodies_from_generated()
        for c in cases:
            es = []
            for proc, args in c.meta.get("math", []):
                if proc in mb and mb[proc][0]:
                    fn, order = mb[proc]
                    key = (fn, tuple(R.float_bits(args[i]) for i in order if i < len(args)))
                    if key in table:
                        es.append(table[key])
            c.meta["libm"] = es

    def model_expr(self, case):
        if case.mods:
            files = "; ".join("(%s, %s)" % (C.coq_text(k), C.coq_text(v)) for k, v in case.mods.items())
            return "(run_obs_files %s [%s])" % (C.coq_text(case.src), files)
        if case.meta.get("libm"):
            return "(run_obs_libm %s %s)" % (C.coq_text(case.src), R.coq_libm_table(case.meta["libm"]))
        return "(run_obs %s)" % C.coq_text(case.src)

    def expected(self, case, impl):
        return R.expected_from_impl(impl)

    def oracle(self, case, impl):
        return R.crash_oracle(impl)

    def nontrivial(self, case, impl):
        r = R.parse_run(impl)
        if r["cls"] in ("LEXERR", "PARSEERR", "BUDGET"):
            return None
        return case.src

    def sample(self, case, impl):
        return {"program": case.src[len(R.PRELUDE):][:300], "impl": (impl or "")[:160]}

    def shrink_candidates(self, case):
        if not case.src.startswith(R.PRELUDE):
            return []
        body = case.src[len(R.PRELUDE):].split("\n")
        return [Case(R.PRELUDE + "\n".join(body[:i] + body[i + 1:]), meta=case.meta, kind="shrunk") for i in range(len(body))]
