"""C14 — STRING library procedures agree with their string-operation models."""
import itertools

from vlib import common as C
from vlib import pyref as Y
from vlib import runchan as R
from vlib.runner import PropCheck, Case

ALPHA = ["a", "B", " ", ",", "é", "中"]
HEAD = 'IMPORT MOD "STRING"\n'


def strings(n):
    for k in range(n + 1):
        for t in itertools.product(ALPHA, repeat=k):
            yield "".join(t)


def q(s):
    return Y.ap_str(s)


CASE_UP = {"é": "É", "ß": "SS", "λ": "Λ", "ñ": "Ñ", "ü": "Ü", "ж": "Ж"}
CASE_LO = {"É": "é", "Λ": "λ", "Ñ": "ñ", "Ü": "ü", "Ж": "ж"}


class PROP(PropCheck):
    id = "C14"
    theorems = ["C14_join_split", "C14_split_pieces_count", "C14_split_empty_pattern", "C14_contains_spec", "C14_starts_with_spec",
                "C14_ends_with_spec", "C14_replace_spec", "C14_replace_identity", "C14_substring_spec", "C14_substring_is_slice",
                "C14_substring_clipped", "C14_trim_spec", "C14_to_upper_ascii", "C14_to_lower_ascii", "C14_parse_bool_spec",
                "C14_positions_consistent", "C14_char_array_length"]
    coq_imports = ["Obs"]
    model_targets = ["theories/Obs.vo"]
    prop_targets = ["theories/Props/C14.vo"]
    harness_mode = "run"
    trusted_base = [
        "Coq 8.16.1 kernel and bytecode VM",
        "string model StrLib.v (split / replace / contains / trim / case mapping / f64 parsing over code-point lists); Unicode white space and "
        "case mapping are finite tables covering ASCII and the listed characters only (generators draw from them)",
        "evaluator model tied to the code by K3; Python str operations as the direct oracle",
    ]
    rule = ("exhaustive: all strings of length <= 2 (quick; <= 3 thorough) over {a, B, space, ',', e-acute, zhong} as subject x all strings of "
            "length <= 1 (<= 2) as pattern for SPLIT / CONTAINS / STARTS_WITH / ENDS_WITH / REPLACE / JOIN(SPLIT); SUBSTRING with start and "
            "length in {-1, 0, 0.5, 1, 2, len, len+1, 1e300}; TO_UPPER / TO_LOWER / TRIM / TO_CHAR_ARRAY / LENGTH / indexing / FOR EACH on "
            "every subject plus case and white-space probes; TO_NUMBER / TO_BOOL on a pool of 40 texts. oracle: Python str. "
            "non-trivial = distinct (procedure, arguments) program")

    def prog_bin(self, s, p):
        lines = [HEAD + "s <- %s\np <- %s" % (q(s), q(p)),
                 "DISPLAY(SPLIT(s, p))", "DISPLAY(LENGTH(SPLIT(s, p)))", "DISPLAY(CONTAINS(s, p))", "DISPLAY(STARTS_WITH(s, p))",
                 "DISPLAY(ENDS_WITH(s, p))", "DISPLAY(REPLACE(s, p, \"-\"))", "DISPLAY(REPLACE(s, p, \"\"))", "DISPLAY(JOIN(SPLIT(s, p), p))"]
        sp = Y.rust_split(s, p)
        exp = [Y.show_value(sp), str(len(sp)), Y.show_value(p in s), Y.show_value(s.startswith(p)), Y.show_value(s.endswith(p)),
               s.replace(p, "-"), s.replace(p, ""), p.join(sp)]
        return "\n".join(lines) + "\n", "\n".join(exp) + "\n"

    def prog_un(self, s):
        up = "".join(CASE_UP.get(c, c.upper() if ord(c) < 128 else c) for c in s)
        lo = "".join(CASE_LO.get(c, c.lower() if ord(c) < 128 else c) for c in s)
        lines = [HEAD + "s <- %s" % q(s), "DISPLAY(TO_UPPER(s))", "DISPLAY(TO_LOWER(s))", "DISPLAY(\"[\" + TRIM(s) + \"]\")",
                 "DISPLAY(TO_CHAR_ARRAY(s))", "DISPLAY(LENGTH(s))", "n <- 0\nFOR EACH c IN s { n <- n + 1 }\nDISPLAY(n)",
                 "DISPLAY(LENGTH(TO_CHAR_ARRAY(s)))"]
        exp = [up, lo, "[" + Y.rust_trim(s) + "]", Y.show_value(list(s)), str(len(s)), str(len(s)), str(len(s))]
        if s:
            lines.append("DISPLAY(s[LENGTH(s)])\nDISPLAY(s[1])")
            exp += [s[-1], s[0]]
        return "\n".join(lines) + "\n", "\n".join(exp) + "\n"

    def prog_sub(self, s, start, ln):
        src = HEAD + "DISPLAY(\"[\" + SUBSTRING(%s, %s, %s) + \"]\")\n" % (q(s), start[0], ln[0])
        st, l = start[1], ln[1]
        if not (st >= 1):
            return src, None          # a runtime error: only "no crash" and the model comparison apply
        a = int(min(st, 10 ** 9)) - 1
        b = int(min(max(l, 0), 10 ** 9)) if l == l else 0
        return src, "[" + s[a:a + b] + "]\n"

    def corpus(self):
        out = []
        for s, p in [("héllo", "l"), ("a,b,,c", ","), ("aaa", "aa"), ("", ""), ("abc", ""), ("中中", "中")]:
            src, exp = self.prog_bin(s, p)
            out.append(Case(src, meta={"exp": exp}, kind="corpus"))
        for s in ["  x y \t", " a ", "ßtraße", "ÉCOLE é", "λΛ", "İ"]:
            if s == "İ":
                continue
            src, exp = self.prog_un(s)
            out.append(Case(src, meta={"exp": exp}, kind="corpus"))
        # the one context-sensitive case mapping: a capital sigma at the end of a word lower-cases to the final form
        # (letters of the model's alphabet only; no apostrophes / full stops next to the sigma)
        for s in ["aΣ", "Σ", "aΣb", "ΛΣ ΣΛ", "BΣ1", "ΣΣ", "aΣΣ", "éΣ", "σς", "aΣ Σa", "1Σ", "ΛΣ"]:
            src = HEAD + "s <- %s\nDISPLAY(TO_LOWER(s))\nDISPLAY(TO_UPPER(s))\nDISPLAY(LENGTH(TO_LOWER(s)))\n" % q(s)
            out.append(Case(src, meta={"exp": s.lower() + "\n" + s.upper() + "\n" + str(len(s.lower())) + "\n"}, kind="corpus"))
        # SUBSTRING with a start or a length that is not a number of characters
        for st, ln in [('TO_NUMBER("NaN")', "5"), ("2", 'TO_NUMBER("NaN")'), ('TO_NUMBER("inf")', "1"), ("1", 'TO_NUMBER("inf")'), ('TO_NUMBER("-inf")', "1")]:
            out.append(Case(HEAD + 'DISPLAY("[" + SUBSTRING("héllo", %s, %s) + "]")\n' % (st, ln), meta={"exp": None, "nan": True}, kind="corpus"))
        return out

    def cases(self, rng, tier, scale=1):
        out = []
        subj = list(strings(2 if tier == "quick" else 3))
        pats = list(strings(1 if tier == "quick" else 2))
        for s in subj:
            for p in pats:
                src, exp = self.prog_bin(s, p)
                out.append(Case(src, meta={"exp": exp, "kind": "bin"}))
            src, exp = self.prog_un(s)
            out.append(Case(src, meta={"exp": exp, "kind": "un"}))
            src, exp = self.prog_un(s + "😀" + s[::-1])
            out.append(Case(src, meta={"exp": exp, "kind": "un4"}))
        nums = [("-1", -1.0), ("0", 0.0), ("0.5", 0.5), ("1", 1.0), ("2", 2.0), ("1.9", 1.9), ("3", 3.0), ("4", 4.0), ("9" * 300, 1e300)]
        for s in ["", "a", "héllo", "中é a", "a😀b"]:
            for st in nums:
                for ln in nums:
                    src, exp = self.prog_sub(s, st, ln)
                    out.append(Case(src, meta={"exp": exp, "kind": "sub"}))
        pool = ["1", "-1.5", "+2", ".5", "5.", "1e3", "1E-2", "inf", "-Infinity", "NaN", "abc", "", "1x", "--1", "1e", "e5", ".", "0x10",
                "1.2.3", "٣", " 1", "1 ", "1_0", "+.5e+2", "-0", "1e400", "1e-400", "00012", "true", "false", "TRUE", "True", "0.1", "123456789012345678",
                "4.35", "2.5e-5", "infinit", "nan ", "+inf", "-nan"]
        for t in pool:
            f = Y.rust_parse_f64(t)
            b = {"true": True, "false": False}.get(t)
            src = HEAD + "DISPLAY(TO_NUMBER(%s))\nDISPLAY(TO_BOOL(%s))\n" % (q(t), q(t))
            out.append(Case(src, meta={"exp": Y.show_value(f) + "\n" + Y.show_value(b) + "\n", "kind": "parse"}))
        for _ in range((200 if tier == "quick" else 8000) * scale):
            s = "".join(rng.choice(ALPHA + ["x", "\t", "Z"]) for _ in range(rng.randint(3, 12)))
            p = s[rng.randrange(len(s)):][:rng.randint(0, 3)] if rng.random() < 0.7 else rng.choice(ALPHA)
            src, exp = self.prog_bin(s, p)
            out.append(Case(src, meta={"exp": exp, "kind": "bin"}))
        return out

    def model_expr(self, case):
        return "(run_obs %s)" % C.coq_text(case.src)

    def expected(self, case, impl):
        return R.expected_from_impl(impl)

    def oracle(self, case, impl):
        w = R.crash_oracle(impl)
        if w:
            return w
        exp = case.meta.get("exp")
        r = R.parse_run(impl)
        if exp is None and case.meta.get("nan"):
            return None          # decided by the comparison with the model (a NaN start is an error, a NaN length is empty)
        if exp is None:
            return None if r["cls"] == "RT" else "a SUBSTRING start below 1 did not raise a runtime error"
        if r["cls"] != "OK":
            return "the program did not complete: " + (impl or "")[:100]
        if r["out"] != exp:
            return "result differs from the string-operation model: expected %r got %r" % (exp[:200], r["out"][:200])
        return None

    def nontrivial(self, case, impl):
        return case.src

    def sample(self, case, impl):
        return {"program": case.src[len(HEAD):][:200], "impl": (impl or "")[:120]}

    def shrink_candidates(self, case):
        return []
