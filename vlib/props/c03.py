"""C03 — procedure calls: fresh scope, positional binding, RETURN ends the activation."""
from vlib import runchan as R
from vlib import semgen as S
from vlib.props import c02
from vlib.runner import Case

CORPUS = [
    # procedure names are case sensitive: a name that exists only in another spelling is undefined
    "PROCEDURE TOTAL(a, b) {\nRETURN a + b\n}\nDISPLAY(TOTAL(1, 2))\nDISPLAY(total(t(3, 3), 4))\nDISPLAY(\"after\")\n",
    "PROCEDURE f(a) {\nRETURN a\n}\nDISPLAY(f(1))\nDISPLAY(F(2))\n", "display(1)\nDISPLAY(2)\n", "l <- [1]\nDISPLAY(length(l))\n",
    # a variable assigned in one activation is gone in the next, and in an activation of another procedure
    "PROCEDURE remember(v) {\nsecret <- v * 2\nRETURN secret\n}\nPROCEDURE peek() {\nRETURN secret\n}\nDISPLAY(remember(21))\nDISPLAY(peek())\nDISPLAY(\"after\")\n",
    "PROCEDURE once(n) {\nIF (n == 1) {\nkept <- 7\n}\nRETURN kept\n}\nDISPLAY(once(1))\nDISPLAY(once(2))\n",
    "PROCEDURE f() {\nRETURN 1\nDISPLAY(\"x\")\nRETURN 2\n}\nDISPLAY(f())\n",
    "PROCEDURE g(l) {\nFOR EACH x IN l {\nIF (x == 2) { RETURN x\n}\nDISPLAY(x)\n}\nRETURN 0\n}\nDISPLAY(g([1,2,3]))\n",
    "a <- 1\nPROCEDURE f(p) {\nDISPLAY(a)\n}\nf(2)\n", "a <- 1\nPROCEDURE f(p) {\na <- p\nRETURN a\n}\nDISPLAY(f(5))\nDISPLAY(a)\n",
    "PROCEDURE f(p) {\nIF (p > 0) { q <- p\nDISPLAY(f(p - 1))\nDISPLAY(q) }\nRETURN p\n}\nDISPLAY(f(3))\n",
    "PROCEDURE f(a, b) { RETURN a }\nDISPLAY(f(t(1, 1)))\n", "DISPLAY(nope(t(1, 1)))\n", "PROCEDURE f() { }\nDISPLAY(f())\nDISPLAY(f(1))\n",
    "PROCEDURE f(l) {\nAPPEND(l, 9)\nl <- [0]\n}\nm <- [1]\nf(m)\nDISPLAY(m)\n", "PROCEDURE f(s) {\ns <- s + \"x\"\n}\nq <- \"a\"\nf(q)\nDISPLAY(q)\n",
    "PROCEDURE f(n) {\nREPEAT 5 TIMES {\nREPEAT UNTIL (FALSE) {\nRETURN n\n}\n}\n}\nDISPLAY(f(7))\n",
    "PROCEDURE even(n) {\nIF (n == 0) { RETURN TRUE }\nRETURN odd(n - 1)\n}\nPROCEDURE odd(n) {\nIF (n == 0) { RETURN FALSE }\nRETURN even(n - 1)\n}\nDISPLAY(even(5))\n",
    "DISPLAY(f(1))\nPROCEDURE f(x) { RETURN x }\n", "PROCEDURE f(x) { RETURN 1 }\nPROCEDURE f(x, y) { RETURN 2 }\nDISPLAY(f(1, 2))\n",
    "PROCEDURE f(p, p) { RETURN p }\nDISPLAY(f(1, 2))\n",
    "PROCEDURE f(n) {\ni <- 0\nREPEAT UNTIL (t(1, i >= 3)) {\ni <- i + 1\nIF (i == 2) { RETURN i }\n}\nRETURN 0\n}\nDISPLAY(f(1))\n",
    "PROCEDURE f(l) {\nREPEAT UNTIL (l[1] > 5) {\nx <- REMOVE(l, 1)\nRETURN x\n}\nRETURN 0\n}\nDISPLAY(f([1]))\n",
    "PROCEDURE f(l) {\nFOR EACH x IN l {\nREPEAT t(1, 2) TIMES {\nIF (t(2, x > 1)) { RETURN x }\n}\n}\nRETURN t(3, 0)\n}\nDISPLAY(f([1, 2, 3]))\n",
    "PROCEDURE f() {\nRETURN\nDISPLAY(\"dead\")\n}\nDISPLAY(f())\nPROCEDURE g(l) {\nIF (TRUE) {\nRETURN\nAPPEND(l, 1)\n}\n}\nm <- [0]\ng(m)\nDISPLAY(m)\n",
]


def _calls_after_continue():
    """the value of a call is the value its body RETURNs whatever the loop state at the call site: user procedures called from the
    condition of a REPEAT UNTIL directly after a pass that ended in CONTINUE (at several block depths), from inside another
    procedure's loop, and as part of a larger condition"""
    out = []
    for cont in ("CONTINUE", "{\nCONTINUE\n}", "IF (TRUE) {\n{\nCONTINUE\n}\n}"):
        for cond in ("reached(i, 3)", "val(i) + 1 > 3", "NOT (val(i) < 3)", "val(val(i)) >= 3 AND reached(i, 3)"):
            body = "i <- i + 1\nIF (i MOD 2 == 1) {\n%s\n}\nDISPLAY(\"even \" + i)\n" % cont
            decl = ("PROCEDURE reached(n, limit) {\nDISPLAY(\"check \" + n)\nRETURN n >= limit\n}\n"
                    "PROCEDURE val(n) {\nw <- n\nIF (w > 100) {\nRETURN 0\n}\nRETURN w\n}\n")
            out.append(decl + "i <- 0\nREPEAT UNTIL (%s) {\n%s}\nDISPLAY(\"done at \" + i)\n" % (cond, body))
            out.append(decl + "PROCEDURE run(i) {\nREPEAT UNTIL (%s) {\n%s}\nRETURN i\n}\nDISPLAY(run(0))\nDISPLAY(run(1))\n" % (cond, body))
    return out


CORPUS = CORPUS + _calls_after_continue()


class PROP(c02.PROP):
    id = "C03"
    audit_modules = ["C03"]
    theorems = ["C03_undefined_is_error", "C03_arity_is_error", "C03_call_value_and_frame", "C03_callee_scope",
                "C03_call_independent_of_caller_env", "C03_return_propagates_through_blocks",
                "C03_return_propagates_through_loops", "C03_binding_copies_values"]
    prop_targets = ["theories/Props/C03.vo", "theories/Props/C02.vo"]
    allowed_axioms = ()
    theorems_extra = ["C02_refine"]
    quick_n = 700
    weights = dict(trace=0.25, err=0.15, lists=0.15, calls=0.9, ctl=0.4)
    rule = ("random programs with up to ~4 procedures of 0-3 parameters (parameter / local / global name collisions in both directions), "
            "calls nested in arbitrary expressions, direct and mutual recursion bounded by a depth parameter, RETURN (with and without a "
            "value) at every statement position inside nested IFs and the three loop forms and followed by trace statements, wrong argument "
            "counts (-1, +1) and undefined names, procedures declared after use and redeclared, a fixed family of user procedures called from "
            "the condition of a REPEAT UNTIL right after a CONTINUE pass; run by the implementation, the implementation "
            "model and the reference semantics. non-trivial = distinct program that declares and calls at least one procedure")

    def corpus(self):
        return [Case(S.HEADER + s, kind="corpus") for s in CORPUS]

    def nontrivial(self, case, impl):
        r = R.parse_run(impl)
        if r["cls"] in ("LEXERR", "PARSEERR", "BUDGET"):
            return None
        if case.src.count("PROCEDURE") >= 2:
            return case.src
        return None
