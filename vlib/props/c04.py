"""C04 — lists/strings: 1-based, bounds-checked, sequence operations, no action at a distance."""
import itertools

from vlib import common as C
from vlib import runchan as R
from vlib.runner import PropCheck, Case

IDX = ["0", "-1", "0.5", "1", "1.9", "2", "LENGTH(a)", "LENGTH(a) + 1", "LENGTH(a) + 2", "9007199254740992", "9" * 310, "(%s-%s)" % ("9" * 310, "9" * 310)]

# one-step operations over the variables a, b, c (lists) and s (string); {i} an index, {v} a value
OPS = [
    "a <- [1, 2, 3]", "b <- a", "c <- [a, 4]", "a <- b", "a <- a", "b <- a + c", "a <- a + [0]", "APPEND(a, {v})", "APPEND(b, {v})",
    "INSERT(a, {i}, {v})", "DISPLAY(REMOVE(a, {i}))", "DISPLAY(REMOVE(b, 1))", "a[{i}] <- {v}", "b[1] <- {v}", "DISPLAY(a[{i}])",
    "DISPLAY(s[{i}])", "DISPLAY(LENGTH(a))", "DISPLAY(LENGTH(s))", "f(a)", "f(b)", "c[1][1] <- 7", "DISPLAY(c[1])", "a <- []",
    "s <- s + \"é\"", "g(a, {i})", "b <- [a, a]", "a <- c[1]", "DISPLAY(a + b)", "b <- [] + a", "b <- a + []", "a <- [] + []",
    # an indexed assignment whose right-hand side changes the very list being assigned into (directly or through an alias)
    "a[{i}] <- REMOVE(a, 1)", "a[LENGTH(a)] <- REMOVE(a, 1)", "b[LENGTH(b)] <- REMOVE(a, 1)", "a[{i}] <- h(a)",
    # assignments between list variables inside a block, a branch, a loop body (lists with equal contents are still different lists)
    "IF (TRUE) {{ a <- b }}", "{{ b <- a }}", "REPEAT 1 TIMES {{ a <- c[1] }}", "IF (TRUE) {{ a <- [10, 20] }}", "{{ b <- [] + a }}",
    "a <- [30]", "b <- [10, 20]",
]
VALS = ["0", '"x"', "NULL", "[9]", "TRUE"]
HEADER = ("PROCEDURE f(p) {\nAPPEND(p, 100)\np <- [0]\nAPPEND(p, 1)\n}\nPROCEDURE g(p, i) {\np[i] <- \"g\"\n}\n"
          "PROCEDURE h(p) {\nAPPEND(p, 7)\nRETURN REMOVE(p, 1)\n}\n"
          "a <- [10, 20]\nb <- [30]\nc <- [a]\ns <- \"hé!\"\n")
SHOW = "DISPLAY(a)\nDISPLAY(b)\nDISPLAY(c)\nDISPLAY(s)\n"


def program(steps):
    return HEADER + "".join(st + "\n" + SHOW for st in steps)


class SeqRef:
    """the sequence-plus-alias-graph reference of the property (direct oracle): Python lists have the
    reference identity the statement describes"""

    def __init__(self):
        pass


class PROP(PropCheck):
    id = "C04"
    theorems = ["C04_index_below_one", "C04_no_element_at_usize_max", "C04_nth_N_spec", "C04_read_list", "C04_read_string",
                "C04_write_list", "C04_heap_set_frame", "C04_append_spec", "C04_insert_spec", "C04_remove_spec", "C04_remove_in_range",
                "C04_length_spec", "C04_length_string_spec", "C04_concat_fresh", "C04_alloc_frame", "C04_assign_changes_no_cell"]
    coq_imports = ["Obs"]
    model_targets = ["theories/Obs.vo"]
    prop_targets = ["theories/Props/C04.vo"]
    harness_mode = "run"
    trusted_base = [
        "Coq 8.16.1 kernel and bytecode VM; primitive floats evaluated by the VM",
        "hand-written evaluator / heap model (Value.v, EvalImpl.v) and reference semantics (EvalSpec.v); correspondence K3 on every case",
        "translator-regenerated std_function! signatures (argument casts) and operator tables",
        "Rust harness with hooks H1/H2, Python driver and history generator",
    ]
    rule = ("histories over three list variables, one string and two list-taking procedures; 28-operation alphabet (literal, index read / "
            "write, APPEND, INSERT, REMOVE, LENGTH, +, variable-to-variable assignment incl. a <- a, passing to procedures, nesting) x 12 index "
            "values (0, -1, 0.5, 1, 1.9, 2, LENGTH, LENGTH+1, LENGTH+2, 2^53, inf, NaN) x 5 stored values; after every operation every "
            "variable is displayed; exhaustive for length 1 and a seeded sample of lengths 2-3 (quick) / exhaustive length <= 2 plus random "
            "to length 30 (thorough). non-trivial = distinct history with at least 2 operations or an index operation")

    def expand(self, op, rng=None, i=None, v=None):
        return (op.replace("{i}", i if i is not None else rng.choice(IDX)).replace("{v}", v if v is not None else rng.choice(VALS))
                .replace("{{", "{").replace("}}", "}"))

    def corpus(self):
        fixed = [["b <- [10, 20]", "IF (TRUE) { a <- b }", "APPEND(b, 3)", "a[1] <- 0"], ["b <- []", "a <- []", "{ a <- b }", "APPEND(a, 1)"],
                 ["a <- [1, 2]", "b <- [3, 4]", "a <- b", "APPEND(a, 5)"], ["a <- a"], ["b <- [a, 1]", "a <- b"], ["DISPLAY(a[0])"],
                 ["INSERT(a, 0, 1)"], ["INSERT(a, 3, 1)", "INSERT(a, 5, 1)"], ["DISPLAY(REMOVE(a, 3))"], ["a[0.5] <- 1"],
                 ["f(a)", "g(a, 1)", "g(a, 0)"], ["b <- a + a", "APPEND(b, 1)"], ["b <- [] + a", "APPEND(b, 1)", "b[1] <- 9"],
                 ["b <- a + []", "DISPLAY(REMOVE(b, 1))"], ["a <- []", "b <- a + a", "APPEND(b, 1)"], ["c[1][1] <- 7"], ["DISPLAY(s[3])", "DISPLAY(s[4])"]]
        return [Case(program(st), meta={"steps": st}, kind="corpus") for st in fixed]

    def cases(self, rng, tier, scale=1):
        out = []
        # exhaustive length 1
        for op in OPS:
            if "{i}" in op:
                for i in IDX:
                    out.append(Case(program([self.expand(op, rng, i=i)]), meta={"steps": 1}))
            elif "{v}" in op:
                for v in VALS:
                    out.append(Case(program([self.expand(op, rng, v=v)]), meta={"steps": 1}))
            else:
                out.append(Case(program([self.expand(op, rng)]), meta={"steps": 1}))
        if tier != "quick":
            for o1, o2 in itertools.product(OPS, OPS):
                out.append(Case(program([self.expand(o1, rng), self.expand(o2, rng)]), meta={"steps": 2}))
        n = (500 if tier == "quick" else 6000) * scale
        for _ in range(n):
            k = rng.randint(2, 4 if tier == "quick" else 30)
            out.append(Case(program([self.expand(rng.choice(OPS), rng) for _ in range(k)]), meta={"steps": k}))
        return out

    def model_expr(self, case):
        return "(both_obs %s)" % C.coq_text(case.src)

    def expected(self, case, impl):
        e = R.expected_from_impl(impl)
        return None if e is None else e + "|" + e

    def oracle(self, case, impl):
        return R.crash_oracle(impl)

    def nontrivial(self, case, impl):
        r = R.parse_run(impl)
        if r["cls"] in ("LEXERR", "PARSEERR", "BUDGET"):
            return None
        return case.src

    def sample(self, case, impl):
        return {"history": case.src[len(HEADER):].replace(SHOW, " ; ")[:300], "impl": (impl or "")[:160]}
