"""C01 — expressions evaluate to the value the language semantics defines."""
import itertools

from vlib import common as C
from vlib import runchan as R
from vlib import semgen as S
from vlib.props import c02
from vlib.runner import Case

REPS = {"num": ["0", "-0", "-1", "0.5", "3", S.INF, "(%s-%s)" % (S.INF, S.INF), "0.1+0.2", "0.3", "9" * 300],
        "str": ['""', '"a"', '"1"', '"é"', '"' + "é" * 20 + '"'], "bool": ["TRUE", "FALSE"], "null": ["NULL"],
        "list": ["[]", "[[1], 2]", "l"]}
OPS = ["+", "-", "*", "/", "MOD", "==", "!=", "<", "<=", ">", ">=", "AND", "OR"]

CORPUS = [
    "DISPLAY(t(1, TRUE) OR t(2, FALSE))\nDISPLAY(t(3, 0) AND t(4, 1))\nDISPLAY(t(5, NULL) OR t(6, \"x\"))\n",
    "DISPLAY(t(1, 8) / t(2, 4) / t(3, 2))\nDISPLAY(t(1, 1) + t(2, 2) * t(3, 3))\n",
    "DISPLAY(1)\nDISPLAY(2 / 0)\nDISPLAY(3)\n", "DISPLAY(5 MOD -0)\n", "DISPLAY(\"a\" + 1 + [1, \"b\"] + NULL + TRUE)\n",
    "DISPLAY(NOT 0)\nDISPLAY(NOT \"\")\nDISPLAY(NOT NULL)\nDISPLAY(-\"a\")\n", "x <- (y <- 2) + y\nDISPLAY(x)\n",
    "l <- [1, 2]\nDISPLAY(l + l)\nDISPLAY(l == l)\nDISPLAY([1] == [1])\nDISPLAY(0.1 + 0.2 == 0.3)\n",
    "DISPLAY(1 < \"2\")\n", "DISPLAY(TRUE + 1)\n", "DISPLAY(NULL == NULL)\nDISPLAY(NULL == 0)\nDISPLAY(\"1\" == 1)\n",
    "DISPLAY(5.5 MOD 2)\nDISPLAY(-5.5 MOD 2)\nDISPLAY(7 MOD 0.1)\n",
    # a bare variable as the left operand of an operator whose right operand assigns that variable: left is read first
    "x <- 1\nDISPLAY(x - (x <- 5))\nDISPLAY(x)\nDISPLAY(x + (x <- 7) * x)\nDISPLAY(x)\n",
    "y <- 2\nDISPLAY(y == (y <- 3))\nDISPLAY(y < (y <- 1))\nDISPLAY(y / (y <- 4))\nDISPLAY(y MOD (y <- 3))\nDISPLAY(y)\n",
    "z <- 0\nDISPLAY(z OR (z <- 5))\nDISPLAY(z AND (z <- 0))\nDISPLAY(z)\nDISPLAY(\"s\" + z + (z <- -0))\nDISPLAY(\"z=\" + -0)\nDISPLAY(-0)\n",
    "DISPLAY(q - (q <- 5))\n",
    "l <- [7]\nDISPLAY(l + (l <- [8]))\nDISPLAY(l)\nw <- 0\nw <- 0 * -1\nDISPLAY(w)\nw <- 0\nDISPLAY(w)\n",
]


class PROP(c02.PROP):
    id = "C01"
    theorems = ["C01_binop_is_reference", "C01_unop_is_reference", "C01_truthy_spec", "C01_equals_spec", "C01_binary_order",
                "C01_logical_short_circuit", "C01_logical_otherwise_right", "C01_div_mod_zero_is_error",
                "C01_output_only_grows_eval", "C01_output_only_grows_exec", "C01_fmod_exact", "C01_fmod_specials"]
    audit_modules = ["C01", "C01b"]
    prop_targets = ["theories/Props/C01.vo", "theories/Props/C01b.vo"]
    allowed_axioms = ()
    quick_n = 500
    weights = dict(trace=0.45, err=0.25, lists=0.1, calls=0.2, ctl=0.2)
    rule = ("exhaustive: every binary operator (incl. AND / OR) applied to every ordered pair of operand representatives of every kind "
            "(numbers 0, -0, -1, 0.5, 3, inf, NaN, 0.1+0.2, 0.3, 1e300; strings; booleans; NULL; empty / nested / aliased lists), NOT and unary "
            "minus on every representative, singly and stacked (NOT NOT x, - - x, NOT - x, - NOT x); random expression trees to depth 3 (quick) / 5 (thorough) whose leaves include tracing calls "
            "t(k, v) (display k, return v) and embedded assignments so evaluation order, exactly-once evaluation and short-circuit are "
            "visible in the output, with forced type errors; run by the implementation, the implementation model and the reference "
            "semantics. non-trivial = distinct program whose evaluation reaches an operator")

    def corpus(self):
        return [Case(S.HEADER + "l <- [7]\n" + s, kind="corpus") for s in CORPUS]

    def cases(self, rng, tier, scale=1):
        out = []
        flat = [v for vs in REPS.values() for v in vs]
        pairs = list(itertools.product(flat, flat))
        if tier == "quick":
            rng.shuffle(pairs)
            pairs = pairs[:110 * scale]
        for (x, y) in pairs:
            body = "".join("DISPLAY(%s %s %s)\n" % (x, op, y) for op in OPS[5:]) if tier == "quick" else ""
            out.append(Case(S.HEADER + "l <- [7]\n" + body, meta={"pair": [x[:20], y[:20]]}))
            for op in OPS[:5]:
                out.append(Case(S.HEADER + "l <- [7]\nDISPLAY(%s %s %s)\n" % (x, op, y), meta={"op": op}))
            if tier != "quick":
                for op in OPS[5:]:
                    out.append(Case(S.HEADER + "l <- [7]\nDISPLAY(%s %s %s)\n" % (x, op, y), meta={"op": op}))
        for x in flat:
            out.append(Case(S.HEADER + "l <- [7]\nDISPLAY(NOT %s)\nDISPLAY(-%s)\n" % (x, x), meta={"un": x[:20]}))
            # stacked unary operators (each application counts: NOT NOT 5 is TRUE, - - "a" is an error)
            out.append(Case(S.HEADER + "l <- [7]\nDISPLAY(NOT NOT %s)\nDISPLAY(NOT NOT NOT %s)\nDISPLAY(NOT - %s)\n" % (x, x, x), meta={"un2": x[:20]}))
            out.append(Case(S.HEADER + "l <- [7]\nDISPLAY(- - %s)\n" % x, meta={"un2": x[:20]}))
            out.append(Case(S.HEADER + "l <- [7]\nDISPLAY(- NOT %s)\n" % x, meta={"un2": x[:20]}))
        out += super().cases(rng, tier, scale)
        return out

    def nontrivial(self, case, impl):
        r = R.parse_run(impl)
        if r["cls"] in ("LEXERR", "PARSEERR", "BUDGET"):
            return None
        return case.src
