"""C05 — operator precedence and associativity match the documented grammar."""
import itertools

from vlib import common as C
from vlib import progen as P
from vlib import runchan as R
from vlib import semgen as S
from vlib.runner import PropCheck, Case

BIN = ["OR", "AND", "==", "!=", "<", "<=", ">", ">=", "+", "-", "*", "/", "MOD"]
UN = ["-", "NOT"]
SETUP = S.HEADER + "a <- 8\nb <- 4\nc <- 2\nx <- 1\nl <- [1, 2, 3]\ns <- \"s\"\nPROCEDURE f(p) {\nDISPLAY(\"f\")\nRETURN p\n}\n"
TAIL = "DISPLAY(a)\nDISPLAY(x)\nDISPLAY(l)\n"


def node(kind, op, kids):
    if kind == "bin":
        return ("log" if op in ("AND", "OR") else "bin", op, kids[0], kids[1])
    if kind == "un":
        return ("un", op, kids[0])
    if kind == "asg":
        return ("asg", "x", kids[0])
    if kind == "idx":
        return ("idx", kids[0], kids[1])
    if kind == "call":
        return ("call", "f", [kids[0]])
    raise ValueError(kind)


OPKINDS = [("bin", o, 2) for o in BIN] + [("un", o, 1) for o in UN] + [("asg", "<-", 1), ("idx", "[]", 2), ("call", "f", 1)]


def shapes(n):
    """all operator trees with exactly n operator nodes; leaves are None"""
    if n == 0:
        return [None]
    out = []
    for kind, op, ar in OPKINDS:
        if ar == 1:
            for t in shapes(n - 1):
                out.append((kind, op, [t]))
        else:
            for k in range(n):
                for l in shapes(k):
                    for r in shapes(n - 1 - k):
                        out.append((kind, op, [l, r]))
    return out


def fill(shape, rng, ctr):
    if shape is None:
        x = rng.random()
        ctr[0] += 1
        if x < 0.45:
            # x is the variable the assignment nodes write: a bare `x` next to `(x <- ..)` makes the operand order visible
            return ("var", rng.choice(["a", "b", "c", "x"]))
        if x < 0.7:
            return ("call", "t", [("num", str(ctr[0])), ("var", rng.choice(["a", "b", "c"]))])
        if x < 0.8:
            return ("num", rng.choice(["1", "3", "0.5", "16", "0"]))
        if x < 0.88:
            return ("kw", rng.choice(["TRUE", "FALSE", "NULL"]))
        if x < 0.94:
            return ("var", rng.choice(["s", "l"]))
        return ("call", "t", [("num", str(ctr[0])), ("kw", rng.choice(["TRUE", "FALSE"]))])
    kind, op, kids = shape
    ks = [fill(k, rng, ctr) for k in kids]
    if kind == "idx":
        # index a list-valued base most of the time so the access is meaningful
        if kids[0] is None and rng.random() < 0.8:
            ks[0] = ("var", "l")
    return node(kind, op, ks)


PROBES = [
    (("var", "s"), ("num", "1"), ("num", "2")),
    (("num", "10000000000000000"), ("num", "1"), ("num", "1")),
    (("num", "8"), ("num", "4"), ("num", "2")),
    (("kw", "FALSE"), ("kw", "TRUE"), ("kw", "NULL")),
    (("var", "x"), ("asg", "x", ("num", "5")), ("var", "x")),       # x op (x <- 5) op x: operand order and exactly-once evaluation
    (("num", "0"), ("num", "0"), ("var", "s")),
]


# operands of a unary operator inside every other operator: zero (its sign shows), a string, a boolean
UNARY_PROBES = [
    (("num", "0"), ("num", "0"), ("num", "0")),
    (("num", "3"), ("var", "s"), ("num", "0")),
    (("kw", "TRUE"), ("num", "0"), ("kw", "NULL")),
]


def fill_fixed(shape, leaves):
    if shape is None:
        return next(leaves)
    kind, op, kids = shape
    return node(kind, op, [fill_fixed(k, leaves) for k in kids])


class PROP(PropCheck):
    id = "C05"
    mismatch_is_failure = False
    theorems = ["C05_ladder_is_reference", "C05_unary_is_reference", "C05_entry_points_are_reference", "C05_binop_of_token_is_reference", "C05_group_transparent",
                "C05_parse_print", "C05_strip_expected", "C05_eval_ungroup", "C05_eval_fuel_mono", "C05_and_assoc_eval",
                "C05_min_full_same_behaviour"]
    audit_modules = ["C05", "C05b"]
    coq_imports = ["Obs"]
    model_targets = ["theories/Obs.vo"]
    prop_targets = ["theories/Props/C05.vo", "theories/Props/C05b.vo"]
    harness_mode = "run"
    trusted_base = [
        "Coq 8.16.1 kernel and bytecode VM",
        "translator: the expression ladder (operator tokens, operand / loop callees per rung), to_binary_op / to_unary_op regenerated from parser.rs / token.rs",
        "parser and evaluator models tied to the code by K3 on both renderings of every tree; the direct oracle runs the minimally and the fully "
        "parenthesised rendering on the implementation and demands identical output and ending",
        "Python minimal / full printers (vlib/progen.py) implement the documented ladder: assignment < OR < AND < == != < comparisons < + - < * / MOD < unary < postfix",
    ]
    rule = ("every expression tree with <= 2 operator nodes (quick; <= 3 thorough, sampled beyond 40k) over 13 binary operators, unary - and NOT, "
            "assignment, indexing and calls, leaves drawn at random (numbers 8/4/2 so that groupings differ, tracing calls t(k,v) so that the "
            "order of evaluation shows, strings / lists / booleans / NULL so that type errors show); each tree is printed with only the "
            "parentheses the documented grammar requires and fully parenthesised; both are run. non-trivial = distinct tree with >= 2 operators")

    def build(self, e, over=False):
        """the minimal rendering and the fully parenthesised one (over: variables and literals are wrapped too)"""
        mn = SETUP + "DISPLAY(" + " ".join(P.toks(e, 0, False)) + ")\n" + TAIL
        fl = SETUP + "DISPLAY(" + " ".join(P.toks(e, 0, 2 if over else True)) + ")\n" + TAIL
        return mn, fl

    def corpus(self):
        return []

    def cases(self, rng, tier, scale=1):
        trees = []
        for n in ((1, 2) if tier == "quick" else (1, 2, 3)):
            sh = shapes(n)
            if len(sh) > 40000:
                rng.shuffle(sh)
                sh = sh[:40000]
            if tier == "quick" and n == 2:
                rng.shuffle(sh)
                sh = sh[:700 * scale]
            trees += [(n, s) for s in sh]
        if tier == "quick":
            sh3 = shapes(3)
            rng.shuffle(sh3)
            trees += [(3, s) for s in sh3[:250 * scale]]
        out = []
        fulls = []
        for n, sh in trees:
            ctr = [0]
            e = fill(sh, rng, ctr)
            mn, fl = self.build(e, over=(rng.random() < 0.5))
            out.append(Case(mn, meta={"ops": n, "full": fl}))
            fulls.append(fl)
        # associativity / grouping probes: every pair of binary operators, both nestings, with leaf triples for which regrouping
        # or re-ordering is visible (string + number + number, a sum that rounds differently when regrouped, 8 4 2, booleans)
        def has_un(sh):
            return sh is not None and (sh[0] == "un" or any(has_un(k) for k in sh[2]))
        for sh in shapes(1) + shapes(2):
            two_bin = sh[0] == "bin" and any(k is not None and k[0] == "bin" for k in sh[2])
            if not two_bin and not has_un(sh):
                continue
            for leaves in (PROBES if two_bin else UNARY_PROBES):
                e = fill_fixed(sh, iter(leaves))
                for over in (False, True):
                    mn, fl = self.build(e, over=over)
                    out.append(Case(mn, meta={"ops": 2, "full": fl, "probe": True}))
                    fulls.append(fl)
        # the fully parenthesised renderings are run here; the runner runs the minimal ones
        res = C.run_harness("run", [(f, {}) for f in fulls], self.budget, self.depth, tag="C05full")
        for c, r in zip(out, res):
            c.meta["full_result"] = R.expected_from_impl(r)
        self.extra_evaluations = len(fulls)
        return out

    def model_expr(self, case):
        return "(run_obs %s)" % C.coq_text(case.src)

    def expected(self, case, impl):
        return R.expected_from_impl(impl)

    def oracle(self, case, impl):
        w = R.crash_oracle(impl)
        if w:
            return w
        mine = R.expected_from_impl(impl)
        full = case.meta.get("full_result")
        if mine is None or full is None:
            return None
        # spans differ between the renderings: compare output and the class of the ending
        def strip(o):
            head, _, rest = o.partition(" ")
            return (head.split(":")[0:2] if head.startswith("RT:") else [head]), rest
        if strip(mine) != strip(full):
            return "the minimally parenthesised rendering behaves differently from the fully parenthesised one (min: %s ; full: %s)" % (mine[:120], full[:120])
        return None

    def nontrivial(self, case, impl):
        return case.src if case.meta.get("ops", 0) >= 2 else None

    def sample(self, case, impl):
        return {"min": case.src[len(SETUP):].split("\n")[0], "full": case.meta["full"][len(SETUP):].split("\n")[0], "impl": (impl or "")[:120]}

    def shrink_candidates(self, case):
        return []
