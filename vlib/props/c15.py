"""C15 — MATH procedures, number text round-trips and RANDOM's range."""
import math
import struct

from vlib import common as C
from vlib import pyref as Y
from vlib import runchan as R
from vlib.runner import PropCheck, Case

HEAD = 'IMPORT MOD "MATH"\nIMPORT MOD "STRING"\n'
# documented meaning of every MATH procedure: (rust std function, argument order) -- independent of the generated table
DOC = {"SIN": ("sin", [0]), "COS": ("cos", [0]), "TAN": ("tan", [0]), "ASIN": ("asin", [0]), "ACOS": ("acos", [0]), "ATAN": ("atan", [0]),
       "ATAN2": ("atan2", [0, 1]), "SINH": ("sinh", [0]), "COSH": ("cosh", [0]), "TANH": ("tanh", [0]), "ASINH": ("asinh", [0]),
       "ACOSH": ("acosh", [0]), "ATANH": ("atanh", [0]), "EXP": ("exp", [0]), "LOG": ("log", [0, 1]), "LOG10": ("log10", [0]),
       "LOG2": ("log2", [0]), "ROUND": ("round", [0]), "FLOOR": ("floor", [0]), "CEIL": ("ceil", [0]), "INT": ("trunc", [0])}
ARITY = {k: len(v[1]) for k, v in DOC.items()}
SPECIAL = [0.0, -0.0, 1.0, -1.0, 0.5, -0.5, 2.0, 2.5, -2.5, 3.5, 0.49999999999999994, 1e-300, 5e-324, 1e300, 1.7976931348623157e308, math.inf,
           -math.inf, math.nan, math.pi, 10.0, 8.0, 0.1, 4503599627370496.5, 9007199254740993.0, -1e-9, 1e22, 1e21, 123456.789]


def lit(x):
    """an aplang expression denoting the double x (the language has no exponent syntax)"""
    if math.isnan(x):
        return "(%s-%s)" % ("9" * 310, "9" * 310)
    if math.isinf(x):
        return ("-" if x < 0 else "") + "9" * 310
    s = Y.rust_show(x)
    return s


def rnd_double(rng):
    k = rng.random()
    if k < 0.12:
        return struct.unpack(">d", struct.pack(">Q", rng.getrandbits(64)))[0]
    if k < 0.4:   # random mantissa, moderate exponent (huge exponents cost ~1 s each in the VM's bignum arithmetic)
        return struct.unpack(">d", struct.pack(">Q", (rng.getrandbits(52) | (rng.randint(1023 - 70, 1023 + 70) << 52) | (rng.getrandbits(1) << 63))))[0]
    if k < 0.6:
        return rng.uniform(-10, 10)
    if k < 0.8:
        return float(rng.randint(-1000, 1000)) / rng.choice([1, 2, 4, 10, 3])
    return rng.choice(SPECIAL)


class PROP(PropCheck):
    id = "C15"
    theorems = ["C15_math_table_is_reference", "C15_round_int_integral", "C15_round_int_specials", "C15_show_specials",
                "C15_search_in_interval", "C15_layout_integer", "C15_random_in_range", "C15_random_reaches_both_ends",
                "C15_roundtrip_examples", "C15_show_total", "C15_show_shortest", "C15_show_parse_roundtrip",
                "C15_round_int_value", "C15_round_int_shape"]
    audit_modules = ["C15", "C15b", "C15c"]
    allowed_axioms = ("FloatAxioms.Prim2SF_valid", "Prim2SF_valid", "FloatAxioms.Prim2SF_SF2Prim", "Prim2SF_SF2Prim")
    coq_imports = ["Obs"]
    model_targets = ["theories/Obs.vo"]
    prop_targets = ["theories/Props/C15.vo", "theories/Props/C15b.vo", "theories/Props/C15c.vo"]
    harness_mode = "run"
    trusted_base = [
        "Coq 8.16.1 kernel and bytecode VM; primitive floats",
        "translator: MATH bodies (named std function, argument order) regenerated from math.rs; theorem: the table is the documented one",
        "libm / Rust std functions (sin, log, asinh ...) are NOT modelled: an oracle table filled by evaluating the same Rust std function in the "
        "harness; ROUND / FLOOR / CEIL / INT / CLAMP, decimal->double and double->shortest text are Gallina (FloatX.v)",
        "rand's sampler is not modelled (range and both ends observed over 400 draws; theorem on the draw-oracle model)",
        "Python reference for number text (repr-based shortest digits, positional layout) as the direct oracle",
    ]
    rule = ("every MATH procedure on 28 special values / domain boundaries (pairs and triples for ATAN2, LOG, CLAMP) and random bit patterns; "
            "doubles written as shortest decimal literals, displayed, and read back with TO_NUMBER (special values, powers of two and ten, "
            "random bit patterns, integers); decimal literals with up to 17 digits and rounding-midpoint literals; RANDOM(a, b) for all integer "
            "pairs -3 <= a <= b <= 3 with 400 draws each (all in range, integers, both ends reached). non-trivial = distinct program")

    def math_case(self, name, args):
        src = HEAD + "DISPLAY(%s(%s))\n" % (name, ", ".join(lit(a) for a in args))
        return Case(src, meta={"math": [(name, args)], "doc": (name, args)})

    def text_case(self, xs):
        lines = []
        for x in xs:
            t = lit(x)
            lines.append("DISPLAY(%s)" % t)
            if not (math.isnan(x) or math.isinf(x)):
                lines.append("DISPLAY(TO_NUMBER(%s) == %s)" % (Y.ap_str(Y.rust_show(x)), t))
                lines.append("DISPLAY(TO_NUMBER(%s))" % Y.ap_str(Y.rust_show(x)))
        exp = []
        for x in xs:
            exp.append(Y.rust_show(x))
            if not (math.isnan(x) or math.isinf(x)):
                exp.append("TRUE" if abs(x) < 1e300 else Y.show_value(abs(x - x) < 2.220446049250313e-16))
                exp.append(Y.rust_show(x))
        return Case(HEAD + "\n".join(lines) + "\n", meta={"exp": "\n".join(exp) + "\n"})

    def literal_case(self, texts):
        lines = ["DISPLAY(%s)" % t for t in texts]
        exp = [Y.rust_show(float(t)) for t in texts]
        return Case(HEAD + "\n".join(lines) + "\n", meta={"exp": "\n".join(exp) + "\n"})

    def random_case(self, a, b, draws=400):
        src = (HEAD + "lo <- %d\nhi <- %d\nok <- TRUE\nREPEAT %d TIMES {\nx <- RANDOM(%d, %d)\nIF (x < lo) { lo <- x }\nIF (x > hi) { hi <- x }\n"
               "IF (x < %d OR x > %d OR x != FLOOR(x)) { ok <- FALSE }\n}\nDISPLAY(ok)\nDISPLAY(lo == %d)\nDISPLAY(hi == %d)\n") % (
                   b, a, draws, a, b, a, b, a, b)
        return Case(src, meta={"exp": "TRUE\nTRUE\nTRUE\n", "random": True})

    def frac_random_case(self, a, b):
        """RANDOM with fractional bounds: whatever integer range the bounds are taken to mean, the call ends normally or with a
        diagnostic and a returned value is an integer between the bounds (rounded outward)"""
        import math
        src = (HEAD + "ok <- TRUE\nREPEAT 50 TIMES {\nx <- RANDOM(%s, %s)\nIF (x < %d OR x > %d OR x != FLOOR(x)) { ok <- FALSE }\n}\nDISPLAY(ok)\n"
               % (a, b, math.floor(float(a)), math.ceil(float(b))))
        return Case(src, meta={"exp": None, "random": True, "frac": True})

    def corpus(self):
        out = [self.frac_random_case(a, b) for a, b in [("0.2", "0.8"), ("2.5", "2.5"), ("0.5", "2.9"), ("-0.5", "0.5"), ("1.5", "1.2"), ("-2.5", "-2.5")]]
        out += [self.math_case("LOG", [8.0, 2.0]), self.math_case("ATAN2", [1.0, -1.0]), self.math_case("ROUND", [2.5]),
               self.math_case("ROUND", [-2.5]), self.math_case("INT", [-2.7]), self.math_case("ROUND", [0.49999999999999994]),
               Case(HEAD + "DISPLAY(CLAMP(5, 1, 3))\nDISPLAY(CLAMP(0, 1, 3))\nDISPLAY(CLAMP(2, 3, 1))\nDISPLAY(PI())\nDISPLAY(E())\nDISPLAY(TAU())\n",
                    meta={"exp": "3\n1\n1\n3.141592653589793\n2.718281828459045\n6.283185307179586\n"}),
               self.text_case([0.1 + 0.2, 1e21, 1e22, 5e-324, 1 / 3, 100.0, 1e23, 1.7976931348623157e308, 2.2250738585072014e-308, 9007199254740993.0]),
               self.literal_case(["0.1", "0.30000000000000004", "9007199254740993", "4.35", "0.000001", "123456789012345678901234567890",
                                  "1.7976931348623157" + "0" * 292, "0." + "0" * 323 + "5", "0." + "0" * 323 + "2", "2.5", "1.0", "007"]),
               self.random_case(1, 2), self.random_case(3, 3)]
        return out

    def cases(self, rng, tier, scale=1):
        out = []
        quick = tier == "quick"
        for name, ar in ARITY.items():
            if ar == 1:
                for x in SPECIAL:
                    out.append(self.math_case(name, [x]))
                for _ in range((5 if quick else 150) * scale):
                    out.append(self.math_case(name, [rnd_double(rng)]))
            else:
                for _ in range((40 if quick else 800) * scale):
                    out.append(self.math_case(name, [rng.choice(SPECIAL) if rng.random() < 0.6 else rnd_double(rng) for _ in range(ar)]))
        for _ in range((60 if quick else 3000) * scale):
            v = [rng.choice(SPECIAL[:20]) if rng.random() < 0.5 else rnd_double(rng) for _ in range(3)]
            src = HEAD + "DISPLAY(CLAMP(%s))\n" % ", ".join(lit(a) for a in v)
            r = v[0]
            r = (v[1] if math.isnan(r) else (r if math.isnan(v[1]) else max(r, v[1])))
            r = (v[2] if math.isnan(r) else (r if math.isnan(v[2]) else min(r, v[2])))
            out.append(Case(src, meta={"clamp": v}))
        for _ in range((100 if quick else 4000) * scale):
            out.append(self.text_case([rnd_double(rng) for _ in range(3)]))
        for e in range(-8, 23):
            out.append(self.text_case([10.0 ** e, 2.0 ** e, float(3 * 10 ** max(e, 0))]))
        for _ in range((100 if quick else 4000) * scale):
            d = rng.randint(1, 17)
            t = str(rng.randint(1, 10 ** d - 1))
            k = rng.randint(0, len(t))
            txt = (t[:k] or "0") + ("." + t[k:] if k < len(t) else "") + ("0" * rng.randint(0, 20) if k == len(t) else "")
            out.append(self.literal_case([txt, "0." + "0" * rng.randint(0, 10) + t]))
        rng_pairs = [(a, b) for a in range(-3, 4) for b in range(a, 4)]
        if quick:
            rng.shuffle(rng_pairs)
            rng_pairs = rng_pairs[:8]
        for a, b in rng_pairs:
            out.append(self.random_case(a, b))
        return out

    def prepare(self, cases):
        # the documented meaning, evaluated with Rust's std (for the oracle) ...
        doc_calls = []
        for c in cases:
            if "doc" in c.meta:
                name, args = c.meta["doc"]
                fn, order = DOC[name]
                doc_calls.append((fn, [args[i] for i in order]))
        res = R.rust_math(doc_calls)
        i = 0
        for c in cases:
            if "doc" in c.meta:
                c.meta["exp"] = Y.rust_show(res[i]) + "\n"
                i += 1
        # ... and the libm entries the model needs (through the regenerated table)
        calls = []
        for c in cases:
            calls += c.meta.get("math", [])
        entries = R.libm_entries(calls) if calls else []
        table = {(fn, tuple(R.float_bits(x) for x in a)): (fn, a, r) for fn, a, r in entries}
        mb = R.math_bodies_from_generated()
        for c in cases:
            es = []
            for proc, args in c.meta.get("math", []):
                if proc in mb and mb[proc][0]:
                    fn, order = mb[proc]
                    key = (fn, tuple(R.float_bits(args[i]) for i in order if i < len(args)))
                    if key in table:
                        es.append(table[key])
            c.meta["libm"] = es

    def model_expr(self, case):
        if case.meta.get("libm"):
            return "(run_obs_libm %s %s)" % (C.coq_text(case.src), R.coq_libm_table(case.meta["libm"]))
        return "(run_obs %s)" % C.coq_text(case.src)

    def expected(self, case, impl):
        if case.meta.get("random"):
            return None        # the sampler is not modelled
        return R.expected_from_impl(impl)

    def oracle(self, case, impl):
        w = R.crash_oracle(impl)
        if w:
            return w
        r = R.parse_run(impl)
        if r["cls"] == "BUDGET":
            return None
        if case.meta.get("frac"):
            if r["cls"] == "RT":
                return None
            return None if r["cls"] == "OK" and r["out"] == "TRUE\n" else "RANDOM with fractional bounds returned a value outside the bounds or not an integer: " + (impl or "")[:80]
        if r["cls"] != "OK":
            return "the program did not complete: " + (impl or "")[:100]
        exp = case.meta.get("exp")
        if exp is not None and not Y.same_output_numbers(r["out"], exp):
            return "result differs from the reference (expected %r got %r)" % (exp[:200], r["out"][:200])
        return None

    def nontrivial(self, case, impl):
        return case.src

    def sample(self, case, impl):
        return {"program": case.src[len(HEAD):][:200], "impl": (impl or "")[:100]}

    def shrink_candidates(self, case):
        return []
