"""C12 — CLI contract: exit status, stream separation, --check purity, mode equivalence."""
import os
import shutil
import subprocess
import tempfile
from concurrent.futures import ThreadPoolExecutor

from vlib import common as C
from vlib import semgen as S
from vlib.runner import PropCheck, Case

MODES = ["file", "eval", "stdin"]
DEBUGS = ["none", "time", "all", "lexer", "parser", "interpreter"]

PROGRAMS = [
    ("ok", 'DISPLAY("hello")\nDISPLAY(1 + 2)\n'),
    ("ok", "x <- 0\nREPEAT 3 TIMES { x <- x + 1\nDISPLAY(x) }\n"),
    ("ok", 'IMPORT ["ROUND"] FROM MOD "MATH"\nDISPLAY(ROUND(2.5))\n'),
    ("ok", 'IMPORT MOD "IO"\nDISPLAYF("{}-{}", [1, 2])\nDISPLAY_NOLN("no newline")'),
    ("ok", "1 + 2\n\"expr\"\n"),
    ("ok", ""),
    ("lex", 'DISPLAY("a")\nx <- "unterminated\n'),
    ("lex", "DISPLAY(1)\nx = 3\n"),
    ("lex", "\ufeffDISPLAY(\"bom\")\n"),
    ("ok", "DISPLAY(\"crlf\")\r\nDISPLAY(2)\r\n"),
    ("ok", "DISPLAY(\"no final newline\")"),
    ("ok", "DISPLAY(\"a\r\nb\")\r\nDISPLAY(\"c\")\r\n"),            # a CR LF inside a string literal: the CR is part of the text
    ("lex", "x <- 1 \\\r\nDISPLAY(x)\r\n"),                          # backslash, CR, LF: not a continuation (in every mode)
    ("ok", "// only a comment"),
    ("parse", "DISPLAY(1)\nDISPLAY((2)\n"),
    ("parse", "RETURN 1\n"),
    ("parse", 'IMPORT ["A"] FROM MOD\n'),
    ("runtime", 'DISPLAY("before")\nDISPLAY(1 / 0)\nDISPLAY("after")\n'),
    ("runtime", "DISPLAY(1)\nDISPLAY(nope)\n"),
    ("runtime", 'IMPORT MOD "NOPE"\n'),
    ("wall", 'IMPORT MOD "ROBOT"\nr <- ROBOT_MAP("n")\nDISPLAY("go")\nMOVE_FORWARD(r)\nDISPLAY("never")\n'),
    ("input", 'x <- INPUT()\nDISPLAY("got " + x)\ny <- INPUT()\nDISPLAY("[" + y + "]")\n'),
    ("input", 'IMPORT MOD "IO"\nx <- INPUT_PROMPT("name? ")\nDISPLAY(x)\n'),
] + [("ok", 'DISPLAY("%s°é中😀 tail")\n%sé中 <- 1\nDISPLAY(%sé中)\n' % ("a" * k, "v" * k, "v" * k)) for k in range(17, 27)]

# a program that imports a user module: the module file lies in the directory the tool is started from (and next to main.ap)
MODULE_PROGRAMS = [
    ("ok", 'DISPLAY("start")\nIMPORT MOD "helper.ap"\nDISPLAY(twice(21))\n', {"helper.ap": "EXPORT PROCEDURE twice(n) {\nRETURN n * 2\n}\n"}),
    ("runtime", 'DISPLAY("before")\nIMPORT MOD "broken.ap"\nDISPLAY("after")\n', {"broken.ap": "x <- * 2\n"}),
]


def run_cli(binpath, src, mode, debug, check, stdin_bytes, mods=None, both=False):
    d = tempfile.mkdtemp(prefix="aplang-cli-")
    try:
        for name, content in (mods or {}).items():
            with open(os.path.join(d, name), "wb") as f:
                f.write(content.encode("utf-8"))
        args = [binpath]
        inp = stdin_bytes
        if mode == "file":
            with open(os.path.join(d, "main.ap"), "wb") as f:
                f.write(src.encode("utf-8"))
            args.append("main.ap")
        elif mode == "eval":
            args += ["-e", src]
        else:
            args.append("--eval-stdin")
            inp = src.encode("utf-8")
        if check:
            args.append("--check")
            if both and debug != "none":
                args += ["--debug", debug]
        elif debug != "none":
            args += ["--debug", debug]
        try:
            p = subprocess.run(args, cwd=d, input=inp if inp is not None else b"", stdout=subprocess.PIPE, stderr=subprocess.PIPE,
                               timeout=60, env=dict(C.ENV, RUST_BACKTRACE="0", NO_COLOR="1"), preexec_fn=C.limit_memory)
            return "S%d %s E%d" % (p.returncode, C.hx(p.stdout) if p.stdout else "-", 1 if p.stderr else 0)
        except subprocess.TimeoutExpired:
            return "TIMEOUT"
    finally:
        shutil.rmtree(d, ignore_errors=True)


class PROP(PropCheck):
    id = "C12"
    mismatch_is_failure = False
    theorems = ["C12_exit0_iff_completed", "C12_check_is_pure", "C12_debug_mode_irrelevant_for_stdout", "C12_front_end_error",
                "C12_mode_equivalence", "C12_deterministic",
                "C12_layout_invariant"]
    audit_modules = ["C12", "C12b"]
    coq_imports = ["Obs"]
    model_targets = ["theories/Obs.vo"]
    prop_targets = ["theories/Props/C12.vo", "theories/Props/C12b.vo"]
    uses_cli = True
    trusted_base = [
        "Coq 8.16.1 kernel and bytecode VM",
        "driver model coq/theories/Driver.v (a transcription of main.rs::run) over the scanner / parser / evaluator models",
        "NOT modelled, only observed through the real binary (K5): clap's argument parsing, process exit codes of errors and panics, "
        "stream buffering and flushing, the OS",
        "the binary is built from /repo's working tree with default features (the shipped configuration), not with the verif hooks",
    ]
    rule = ("programs that succeed, fail in each phase (lexical, syntactic, runtime error after output, robot at a wall), read input, plus "
            "random running programs, crossed with the invocation configurations {file, -e, --eval-stdin} x {--debug none, time, all, lexer, "
            "parser, interpreter} x {--check} x stdin {empty, two lines}; the real binary's exit status, standard output bytes and "
            "standard-error emptiness are compared with the driver model and with the contract itself (status 0 iff completed, stdout = "
            "displayed bytes whatever the debug mode, --check prints nothing, the three modes agree). non-trivial = distinct (program, configuration)")

    def run_impl(self, cases):
        with ThreadPoolExecutor(max_workers=C.NCPU) as ex:
            res = list(ex.map(lambda c: run_cli(C.CLI_BIN, c.src, c.meta["mode"], c.meta["debug"], c.meta["check"],
                                                c.meta["stdin"].encode("utf-8"), c.mods, c.meta.get("both", False)), cases))
        # mode equivalence, checked on the implementation itself: same source + configuration, different way of supplying it
        groups = {}
        for c, r in zip(cases, res):
            if c.meta["cls"] != "input" and c.meta["stdin"] == "":
                groups.setdefault((c.src, c.meta["debug"], c.meta["check"], bool(c.meta.get("both")), tuple(sorted((c.mods or {}).items()))),
                                  []).append((c, r))
        for g in groups.values():
            if len(set(r for _, r in g)) > 1:
                for c, _ in g:
                    c.meta["mode_mismatch"] = sorted(set("%s: %s" % (cc.meta["mode"], rr[:60]) for cc, rr in g))
        return res

    def mk(self, cls, src, mode, debug, check, stdin):
        return Case(src, meta={"cls": cls, "mode": mode, "debug": debug, "check": check, "stdin": stdin})

    def corpus(self):
        out = []
        for cls, src in PROGRAMS:
            for mode in MODES:
                out.append(self.mk(cls, src, mode, "none", False, "ann\nbob\n" if cls == "input" else ""))
                out.append(self.mk(cls, src, mode, "none", True, ""))
            # --check together with every --debug mode: whatever the tool makes of the combination, nothing goes to standard output
            for k, dbg in enumerate(DEBUGS[1:]):
                c = self.mk(cls, src, MODES[(k + 1) % len(MODES)], dbg, True, "")
                c.meta["both"] = True
                out.append(c)
            # every debug mode on every program (the way the source is supplied rotates)
            for k, dbg in enumerate(DEBUGS[1:]):
                out.append(self.mk(cls, src, MODES[k % len(MODES)], dbg, False, "ann\nbob\n" if cls == "input" else ""))
        for cls, src, mods in MODULE_PROGRAMS:
            for mode in MODES:
                c = self.mk(cls, src, mode, "none", False, "")
                c.mods = dict(mods)
                c.meta["nomodel"] = True
                out.append(c)
        return out

    def cases(self, rng, tier, scale=1):
        out = []
        n = (90 if tier == "quick" else 1500) * scale
        for _ in range(n):
            if rng.random() < 0.5:
                cls, src = rng.choice(PROGRAMS)
            else:
                g = S.Sem(rng, dict(trace=0.2, err=0.1, lists=0.2, calls=0.3, ctl=0.5), maxd=2)
                cls, src = "gen", g.program(rng.randint(1, 3))
            out.append(self.mk(cls, src, rng.choice(MODES), rng.choice(DEBUGS), rng.random() < 0.15,
                               rng.choice(["", "", "ann\nbob\n", "x"])))
        # the real binary has no statement budget: generated programs go to it only when the budgeted harness (hook H2) shows that
        # they end (normally or with a diagnostic) within the budget; the rest are dropped before any comparison
        gen = [c for c in out if c.meta["cls"] == "gen"]
        if gen:
            res = C.run_harness("run", [(c.src, {}) for c in gen], 4000, 120, tag="C12pre")
            bad = set(id(c) for c, r in zip(gen, res) if r is None or r.startswith(("BUDGET", "ABORT", "PANIC")))
            out = [c for c in out if id(c) not in bad]
            # ... and the way the budgeted run ended classifies the program, so that the contract itself can be checked on it
            for c, r in zip(gen, res):
                if id(c) in bad:
                    continue
                c.meta["cls"] = ("ok" if r.startswith("OK") else "runtime" if r.startswith("RT:") else "wall" if r.startswith("EXIT")
                                 else "lex" if r.startswith("LEXERR") else "parse" if r.startswith("PARSEERR") else "gen")
        return out

    def model_expr(self, case):
        m = case.meta
        dbg = 0 if m["check"] else DEBUGS.index(m["debug"])
        return "(cli_obs %d %d %s %s %s)" % (MODES.index(m["mode"]), dbg, "true" if m["check"] else "false",
                                             C.coq_text(case.src), C.coq_text(m["stdin"]))

    def expected(self, case, impl):
        if case.meta.get("both") or case.meta.get("nomodel"):
            return None      # clap's handling of the flag combination / host module files are outside the driver model
        return impl

    def oracle(self, case, impl):
        if impl == "TIMEOUT":
            return "the tool did not terminate"
        if case.meta.get("mode_mismatch"):
            return "the same source gives different results as a file, with -e and on standard input: %s" % case.meta["mode_mismatch"]
        st, out, err = impl.split(" ")
        status = int(st[1:])
        cls = case.meta["cls"]
        if case.meta["check"]:
            if out != "-":
                return "--check printed to standard output"
            if case.meta.get("both"):
                return None
            if cls in ("ok", "runtime", "wall", "input") and status != 0:
                return "--check failed on a syntactically valid program"
            if cls in ("lex", "parse") and status == 0:
                return "--check accepted a program with a %s error" % cls
            return None
        if cls == "ok" and status != 0:
            return "a program that runs to completion exited with status %d" % status
        if cls in ("lex", "parse", "runtime", "wall") and status == 0:
            return "a program failing in the %s phase exited with status 0" % cls
        if cls in ("lex", "parse") and out != "-":
            return "output on standard output although nothing executed"
        if status != 0 and err != "E1":
            return "non-zero status without a diagnostic on standard error"
        if cls == "runtime" and "before" in case.src and C.unhx(out).decode() != "before\n":
            return "standard output is not exactly what the program displayed before the error"
        return None

    def nontrivial(self, case, impl):
        m = case.meta
        return (case.src, m["mode"], m["debug"], m["check"], m["stdin"])

    def sample(self, case, impl):
        m = case.meta
        return {"program": case.src[:200], "mode": m["mode"], "debug": m["debug"], "check": m["check"], "impl": (impl or "")[:100]}

    def shrink_candidates(self, case):
        return []
