"""C18 — all user-visible output goes through the single output channel of the build."""
from vlib import runchan as R
from vlib.props import c10
from vlib.runner import Case

EXTRA = [
    'IMPORT ["ROUND"] FROM MOD "MATH"\nDISPLAY(ROUND(0.5))\n', 'IMPORT "FORMAT" FROM MOD "IO"\nDISPLAY(FORMAT("{}", [1]))\n',
    'IMPORT MOD "IO"\nDISPLAYF("{} and {}", [1, "b"])\nDISPLAYF("plain", [])\n', 'IMPORT MOD "STYLE"\nSTYLE("bold")\nCLEAR_STYLE()\n',
    "DISPLAY_NOLN(1)\nDISPLAY_NOLN(\"x\")\nDISPLAY(2)\n", 'IMPORT ["A", "B", "C"] FROM MOD "NOPE"\n', "x <- INPUT()\nDISPLAY(x)\n",
    'IMPORT MOD "IO"\nx <- INPUT_PROMPT("? ")\nDISPLAY(x)\n',
]


# user modules that fail to lex / parse / run, or display while being imported: whatever they show goes through the channel
MODULE_CASES = [
    ('IMPORT MOD "bad.ap"\nDISPLAY(1)\n', {"bad.ap": "EXPORT PROCEDURE f(x) {\nRETURN x * * 2\n}\n"}),
    ('IMPORT MOD "bad.ap"\nDISPLAY(1)\n', {"bad.ap": 'x <- "unterminated\n'}),
    ('DISPLAY("main")\nIMPORT MOD "boom.ap"\nDISPLAY(1)\n', {"boom.ap": 'DISPLAY("in module")\nDISPLAY(1 / 0)\n'}),
    ('IMPORT MOD "talk.ap"\nDISPLAY(say(2))\n', {"talk.ap": 'DISPLAY("loading")\nEXPORT PROCEDURE say(n) {\nDISPLAY("say")\nRETURN n\n}\n'}),
    ('IMPORT ["nope"] FROM MOD "talk.ap"\n', {"talk.ap": 'EXPORT PROCEDURE say(n) {\nRETURN n\n}\n'}),
]


class PROP(c10.PROP):
    id = "C18"
    mismatch_is_failure = False
    audit_modules = ["C18"]
    theorems = ["C18_no_direct_output_outside_front_end", "C18_lexer_parser_silent", "C18_channel_is_used"]
    prop_targets = ["theories/Props/C18.vo"]
    trusted_base = [
        "Coq 8.16.1 kernel and bytecode VM (the source-level theorem is a finite check over the regenerated inventory, lifted by forallb_forall)",
        "translator: the inventory of print! / println! / eprint! / eprintln! / dbg! / display! / display_error! / io::stdout / io::stderr "
        "occurrences in src/ with file and enclosing fn (text-based, so both cfg configurations are covered)",
        "hook H1: the crate-local print! shadow captures what goes through display!; a direct println! is NOT captured and shows up as bytes "
        "on the harness's real standard output (column D of the run channel)",
        "the wasm build cannot be compiled here (no wasm32 target): its configuration is covered by the source-level theorem only",
    ]
    rule = ("source level: every output statement of src/ (regenerated inventory) is in the front end, in the channel's definition, or is the "
            "channel macro. dynamic: every library procedure and statement form (the C10 type-chaos generator plus IMPORT / FORMAT / DISPLAYF / "
            "STYLE / INPUT probes) run with the channel captured: captured bytes equal the model's output and zero bytes reach the real "
            "standard output. non-trivial = distinct program that displays something")

    def corpus(self):
        return super().corpus() + [Case(s, kind="corpus") for s in EXTRA] + [Case(s, mods=m, kind="corpus") for s, m in MODULE_CASES]

    def oracle(self, case, impl):
        w = R.crash_oracle(impl)
        if w:
            return w
        r = R.parse_run(impl)
        if r.get("direct", 0) != 0:
            return "%d byte(s) reached the standard output or standard error of the process directly, bypassing the output channel" % r["direct"]
        return None

    def nontrivial(self, case, impl):
        r = R.parse_run(impl)
        return case.src if r.get("out") else None
