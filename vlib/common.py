"""Shared machinery of the aplang verification checks (see /verif/DESIGN.md section 2)."""
import binascii
import fcntl
import hashlib
import json
import os
import random
import re
import shutil
import subprocess
import sys
import time
from concurrent.futures import ThreadPoolExecutor

VERIF = os.path.dirname(os.path.dirname(os.path.abspath(__file__)))
REPO = "/repo"
COQ = os.path.join(VERIF, "coq")
HARNESS_DIR = os.path.join(VERIF, "harness")
HARNESS_BIN = os.path.join(HARNESS_DIR, "target", "debug", "aplang-verif-harness")
CLI_TARGET = os.path.join(HARNESS_DIR, "target_cli")
CLI_BIN = os.path.join(CLI_TARGET, "debug", "aplang")
WORK = os.path.join(VERIF, "work")
REPLAYS = os.path.join(VERIF, "replays")
EVIDENCE = os.path.join(VERIF, "evidence")
NCPU = min(16, os.cpu_count() or 4)

ENV = dict(os.environ)
ENV.update({"CARGO_NET_OFFLINE": "true", "GOPROXY": "off", "PIP_NO_INDEX": "1"})

FORBIDDEN = re.compile(
    r"\b(Admitted|admit|Axiom|Axioms|Parameter|Parameters|Conjecture|Hypothesis|Hypotheses|Variable|Variables|"
    r"Unset\s+Guard|bypass_check|type-in-type|impredicative-set|Admit\s+Obligations|Unset\s+Positivity|Unset\s+Universe)\b")

# kernel primitives Print Assumptions lists under "Axioms:" although they are not axioms
PRIMITIVE_OK = re.compile(r"^(PrimFloat\.|Uint63\.|PrimInt63\.|Sint63\.|float\b|int\b|FloatOps\.|PrimFloat$)")


class CheckBroken(Exception):
    """the machinery itself could not run (never reported as a property verdict silently)"""


def hx(b):
    if isinstance(b, str):
        b = b.encode("utf-8")
    return binascii.hexlify(b).decode()


def unhx(s):
    return binascii.unhexlify(s)


def log(*a):
    print("[check]", *a, file=sys.stderr, flush=True)


class Lock:
    def __init__(self, name):
        os.makedirs(WORK, exist_ok=True)
        self.path = os.path.join(WORK, name + ".lock")

    def __enter__(self):
        self.f = open(self.path, "w")
        fcntl.flock(self.f, fcntl.LOCK_EX)
        return self

    def __exit__(self, *a):
        fcntl.flock(self.f, fcntl.LOCK_UN)
        self.f.close()


def run(cmd, timeout, cwd=None, env=None, stdin=subprocess.DEVNULL):
    p = subprocess.run(cmd, cwd=cwd, env=env or ENV, stdin=stdin, stdout=subprocess.PIPE,
                       stderr=subprocess.STDOUT, timeout=timeout)
    return p.returncode, p.stdout.decode("utf-8", "replace")


# ------------------------------------------------------------------ builds

def build_harness():
    """(re)build the harness against /repo's current working tree, feature verif"""
    with Lock("cargo"):
        shutil.copy(os.path.join(REPO, "Cargo.lock"), os.path.join(HARNESS_DIR, "Cargo.lock"))
        t = time.time()
        rc, out = run(["cargo", "build", "--offline"], 1500, cwd=HARNESS_DIR)
        if rc != 0:
            raise CheckBroken("harness build failed (does /repo still compile with --features verif?)\n" + out[-3000:])
        log("harness built in %.1fs" % (time.time() - t))
    return HARNESS_BIN


def build_cli():
    """the real binary, default features (the shipped configuration), from the current tree"""
    with Lock("cargo_cli"):
        t = time.time()
        env = dict(ENV)
        env["CARGO_TARGET_DIR"] = CLI_TARGET
        rc, out = run(["cargo", "build", "--offline", "--bin", "aplang"], 1500, cwd=REPO, env=env)
        if rc != 0:
            raise CheckBroken("cli build failed\n" + out[-3000:])
        log("cli built in %.1fs" % (time.time() - t))
    return CLI_BIN


def translate():
    """regenerate Gen/Generated.v from /repo's sources; returns translator notes"""
    from vlib import translate as tr
    return tr.regenerate()


def coq_make(targets, timeout=1500):
    """full .vo build of the given targets (never -vos); returns (ok, log)"""
    with Lock("coq"):
        mk = os.path.join(COQ, "Makefile")
        cp = os.path.join(COQ, "_CoqProject")
        if not os.path.exists(mk) or os.path.getmtime(mk) < os.path.getmtime(cp):
            rc, out = run(["coq_makefile", "-f", "_CoqProject", "-o", "Makefile"], 120, cwd=COQ)
            if rc != 0:
                raise CheckBroken("coq_makefile failed\n" + out)
        t = time.time()
        try:
            rc, out = run(["make", "-j%d" % NCPU] + list(targets), timeout, cwd=COQ)
        except subprocess.TimeoutExpired:
            return False, "make timed out after %ds" % timeout
        log("coq make %s: rc=%d in %.1fs" % (" ".join(targets) or "all", rc, time.time() - t))
        return rc == 0, out


def grep_forbidden():
    """no Admitted/Axiom/... anywhere in the development (comments stripped)"""
    bad = []
    for root, _, files in os.walk(os.path.join(COQ, "theories")):
        for fn in files:
            if not fn.endswith(".v"):
                continue
            p = os.path.join(root, fn)
            src = open(p, encoding="utf-8").read()
            src = strip_coq_comments(src)
            in_section = 0
            for i, line in enumerate(src.split("\n"), 1):
                if re.match(r"\s*Section\b", line):
                    in_section += 1
                if re.match(r"\s*End\b", line) and in_section:
                    in_section -= 1
                for m in FORBIDDEN.finditer(line):
                    w = m.group(1)
                    if w.startswith(("Variable", "Hypothes")) and in_section:
                        continue  # Section variables are universally quantified, not axioms
                    bad.append("%s:%d: %s" % (os.path.relpath(p, VERIF), i, line.strip()[:120]))
    return bad


def strip_coq_comments(src):
    out = []
    depth = 0
    i = 0
    in_str = False
    while i < len(src):
        c = src[i]
        if depth == 0 and c == '"':
            in_str = not in_str
            out.append(c)
            i += 1
            continue
        if not in_str and src.startswith("(*", i):
            depth += 1
            i += 2
            continue
        if not in_str and depth and src.startswith("*)", i):
            depth -= 1
            i += 2
            continue
        if depth == 0:
            out.append(c)
        elif c == "\n":
            out.append(c)
        i += 1
    return "".join(out)


def coqc_file(path, timeout=900, extra_q=()):
    args = ["coqc", "-noglob", "-Q", os.path.join(COQ, "theories"), "Aplang"]
    for d, n in extra_q:
        args += ["-Q", d, n]
    args.append(path)
    # long string literals are deeply nested terms: lift the native stack limit for coqc
    args = ["bash", "-c", "ulimit -s unlimited 2>/dev/null || ulimit -s 1000000; ulimit -v 12000000 2>/dev/null; exec \"$@\"", "coqc-wrapper"] + args
    try:
        rc, out = run(args, timeout, cwd=os.path.dirname(path))
    except subprocess.TimeoutExpired:
        return 124, "coqc timed out"
    return rc, out


def audit(prop_id, theorems, allowed_axioms=(), modules=None):
    """Check every property theorem exists and report its assumptions.
    theorems: list of names defined in Aplang.Props.<prop_id>.
    returns (discharged names, problems, assumptions per theorem)"""
    os.makedirs(os.path.join(WORK, prop_id), exist_ok=True)
    p = os.path.join(WORK, prop_id, "Audit_%s.v" % prop_id)
    with open(p, "w") as f:
        for m in (modules or [prop_id]):
            f.write("From Aplang Require Import Props.%s.\n" % m)
        for t in theorems:
            f.write('Goal unit. idtac "BEGIN %s". exact tt. Qed.\n' % t)
            f.write("Print Assumptions %s.\n" % t)
        f.write('Goal unit. idtac "END". exact tt. Qed.\n')
    rc, out = coqc_file(p)
    problems = []
    if rc != 0:
        problems.append("audit of %s failed: %s" % (prop_id, out[-1500:]))
        return [], problems, {}
    assumptions = {}
    discharged = []
    chunks = re.split(r"BEGIN (\S+)\n", out)
    for i in range(1, len(chunks), 2):
        name, body = chunks[i], chunks[i + 1].split("END")[0]
        axs = []
        if "Closed under the global context" not in body:
            # lines of the form "name : type" possibly wrapped; take identifiers at line start
            for m in re.finditer(r"^([A-Za-z_][\w.']*)\s*:", body, re.M):
                if m.group(1) not in ("Axioms", "Opaque", "Transparent"):
                    axs.append(m.group(1))
        assumptions[name] = axs
        bad = [a for a in axs if not PRIMITIVE_OK.match(a) and a not in allowed_axioms]
        if bad:
            problems.append("theorem %s depends on unexpected assumptions: %s" % (name, ", ".join(bad)))
        else:
            discharged.append(name)
    missing = [t for t in theorems if t not in assumptions]
    for t in missing:
        problems.append("theorem %s missing from audit output" % t)
    return discharged, problems, assumptions


def coqchk(prop_id, timeout=2400, modules=None):
    """independent re-check of the compiled property file and everything it depends on (thorough tier)"""
    t = time.time()
    try:
        rc, out = run(["coqchk", "-o", "-silent", "-Q", os.path.join(COQ, "theories"), "Aplang"] + ["Aplang.Props." + m for m in (modules or [prop_id])], timeout, cwd=COQ)
    except subprocess.TimeoutExpired:
        return {"ok": False, "note": "coqchk timed out"}
    tail = out[-3000:]
    axioms = []
    if "* Axioms:" in tail:
        sect = tail.split("* Axioms:")[1].split("* Constants/Inductives")[0]
        axioms = [l.strip() for l in sect.strip().split("\n") if l.strip()]
    return {"ok": rc == 0, "seconds": round(time.time() - t), "axioms": axioms[:60]}


def limit_memory():
    """preexec_fn for implementation processes: cap the address space so that a non-terminating, allocating run (an error
    recovery loop that makes no progress, an unbounded doubling) aborts within seconds instead of exhausting the machine"""
    import resource
    cap = 6 * 1024 ** 3
    resource.setrlimit(resource.RLIMIT_AS, (cap, cap))


# ------------------------------------------------------------------ harness runs

def run_harness(mode, cases, budget=20000, depth=120, tag="h"):
    """cases: list of (src_bytes_or_str, {name: bytes}) or plain str/bytes; returns list of result lines
    (None where the harness process died before answering: native abort)"""
    norm = []
    for c in cases:
        if isinstance(c, (str, bytes)):
            c = (c, {})
        src, mods = c
        line = hx(src)
        for n, content in mods.items():
            line += " %s=%s" % (n, hx(content))
        norm.append(line)
    n = len(norm)
    if n == 0:
        return []
    nshards = max(1, min(NCPU, (n + 49) // 50))
    bounds = [(i * n // nshards, (i + 1) * n // nshards) for i in range(nshards)]
    d = os.path.join(WORK, "harness_%s_%d" % (tag, os.getpid()))
    os.makedirs(d, exist_ok=True)
    results = [None] * n

    aborts = [0]

    def shard(k):
        lo, hi = bounds[k]
        pos = lo
        while pos < hi:
            if aborts[0] >= 12:
                # the implementation keeps dying (each abort of a non-terminating, allocating run costs tens of seconds):
                # a dozen failing inputs are enough; the rest of the cases are left unanswered (treated as skipped)
                for j in range(pos, hi):
                    results[j] = "SKIPPED-AFTER-ABORTS"
                return
            cf = os.path.join(d, "c%d.txt" % k)
            rf = os.path.join(d, "r%d.txt" % k)
            of = os.path.join(d, "o%d.txt" % k)
            with open(cf, "w") as f:
                f.write("\n".join(norm[pos:hi]) + "\n")
            if os.path.exists(rf):
                os.remove(rf)
            with open(of, "w") as o, open(of + ".err", "w") as oe:
                try:
                    # stdout and stderr are regular files: the harness measures how much each case writes to them directly
                    p = subprocess.run([HARNESS_BIN, mode, cf, rf, str(budget), str(depth)], stdin=subprocess.DEVNULL,
                                       stdout=o, stderr=oe, timeout=600, env=ENV, preexec_fn=limit_memory)
                    rc = p.returncode
                except subprocess.TimeoutExpired:
                    rc = -999
            lines = open(rf).read().split("\n") if os.path.exists(rf) else []
            if lines and lines[-1] == "":
                lines.pop()
            for j, l in enumerate(lines):
                results[pos + j] = l
            pos += len(lines)
            if pos < hi:
                # the process died on case `pos` (abort / stack overflow / timeout)
                err = open(of + ".err", errors="replace").read() if os.path.exists(of + ".err") else ""
                results[pos] = "ABORT rc=%d%s" % (rc, " STACKOVERFLOW" if "has overflowed its stack" in err else "")
                aborts[0] += 1
                pos += 1

    with ThreadPoolExecutor(max_workers=nshards) as ex:
        list(ex.map(shard, range(nshards)))
    shutil.rmtree(d, ignore_errors=True)
    return results


# ------------------------------------------------------------------ evaluating the model inside Coq

def coq_string(b):
    """a Coq string literal for ASCII/UTF-8 text without NUL"""
    if isinstance(b, bytes):
        b = b.decode("utf-8")
    return '"' + b.replace('"', '""') + '"'


def coq_text(s):
    """a Coq term of type text for a Python str (code points)"""
    if isinstance(s, bytes):
        s = s.decode("utf-8")
    if all((32 <= ord(c) or c in "\n\t") and ord(c) != 127 for c in s):
        return "(txt %s)" % coq_string(s)
    return "[" + ";".join(str(ord(c)) for c in s) + "]%N"


def run_coq_cases(prop_id, imports, items, per_shard=150, timeout=1500, prelude=""):
    """items: list of (model_expr : Coq term of type text, expected : ascii str).
    Evaluates every model_expr with vm_compute inside Coq and compares with expected.
    returns (mismatch indices, {index: model observation}, total vm seconds)"""
    n = len(items)
    if n == 0:
        return [], {}, 0.0
    d = os.path.join(WORK, prop_id, "cases_%d" % os.getpid())
    shutil.rmtree(d, ignore_errors=True)
    os.makedirs(d, exist_ok=True)
    nshards = max(1, min(4 * NCPU, (n + per_shard - 1) // per_shard))
    bounds = [(i * n // nshards, (i + 1) * n // nshards) for i in range(nshards)]
    header = "From Aplang Require Import Base %s.\nOpen Scope string_scope.\n%s\n" % (" ".join(imports), prelude) + \
        "Definition mism (l : list (N * text * string)) : list N :=\n" \
        "  map (fun x => fst (fst x)) (filter (fun x => negb (text_eqb (snd (fst x)) (string_bytes (snd x)))) l).\n"

    def shard(k):
        lo, hi = bounds[k]
        p = os.path.join(d, "cases_%d.v" % k)
        with open(p, "w") as f:
            f.write(header)
            f.write("Definition cases : list (N * text * string) := [\n")
            f.write(";\n".join("(%d%%N, %s, %s)" % (i, items[i][0], coq_string(items[i][1])) for i in range(lo, hi)))
            f.write("].\n")
            f.write('Goal unit. idtac "MISM-BEGIN". exact tt. Qed.\n')
            f.write("Eval vm_compute in mism cases.\n")
            f.write('Goal unit. idtac "MISM-END". exact tt. Qed.\n')
        t = time.time()
        rc, out = coqc_file(p, timeout)
        return k, rc, out, time.time() - t

    mism = []
    total = 0.0
    with ThreadPoolExecutor(max_workers=NCPU) as ex:
        for k, rc, out, dt in ex.map(shard, range(nshards)):
            total += dt
            if rc != 0 or "MISM-BEGIN" not in out or "MISM-END" not in out:
                raise CheckBroken("coqc failed on case shard %d of %s:\n%s" % (k, prop_id, out[-2500:]))
            body = out.split("MISM-BEGIN")[1].split("MISM-END")[0]
            m = re.search(r"=\s*\[(.*?)\]\s*:\s*list N", body, re.S)
            if not m:
                raise CheckBroken("cannot parse the mismatch list printed by Coq:\n" + body[-500:])
            mism += [int(x) for x in re.findall(r"\d+", m.group(1).replace("%N", ""))]
    observed = {}
    if mism:
        show = sorted(mism)[:6]
        p = os.path.join(d, "show.v")
        with open(p, "w") as f:
            f.write(header)
            for i in show:
                f.write('Goal unit. idtac "OBS-BEGIN %d". exact tt. Qed.\n' % i)
                f.write("Eval vm_compute in bytes_string (%s).\n" % items[i][0])
            f.write('Goal unit. idtac "OBS-END". exact tt. Qed.\n')
        rc, out = coqc_file(p, timeout)
        for m in re.finditer(r"OBS-BEGIN (\d+)\n(.*?)(?=OBS-BEGIN|OBS-END)", out, re.S):
            txt = m.group(2)
            q = re.search(r'=\s*"(.*)"\s*:\s*string', txt, re.S)
            observed[int(m.group(1))] = re.sub(r"\s+", " ", q.group(1)) if q else txt.strip()[:2000]
    shutil.rmtree(d, ignore_errors=True)
    return sorted(mism), observed, total


# ------------------------------------------------------------------ findings, evidence, verdicts

def known_findings(prop_id):
    out = []
    p = os.path.join(VERIF, "known_findings.jsonl")
    if os.path.exists(p):
        for line in open(p):
            line = line.strip()
            if line:
                e = json.loads(line)
                if e.get("property") == prop_id and e.get("status") == "known":
                    out.append(e)
    return out


def write_replay(prop_id, seed, k, payload):
    os.makedirs(REPLAYS, exist_ok=True)
    p = os.path.join(REPLAYS, "%s-%d-%d.json" % (prop_id, seed, k))
    with open(p, "w") as f:
        json.dump(payload, f, indent=1, ensure_ascii=False)
    return p


def write_evidence(prop_id, tier, seed, coverage, assumptions, wall, violations):
    os.makedirs(EVIDENCE, exist_ok=True)
    ev = {
        "property_id": prop_id,
        "tier": tier,
        "seed": seed,
        "level": "proof",
        "coverage": coverage,
        "assumptions": assumptions,
        "wall_s": round(wall, 2),
        "violations": violations,
    }
    with open(os.path.join(EVIDENCE, prop_id + ".json"), "w") as f:
        json.dump(ev, f, indent=1, ensure_ascii=False)


def seeded_rng(seed, prop_id):
    h = int(hashlib.sha256(prop_id.encode()).hexdigest()[:8], 16)
    return random.Random(seed ^ h)


def distinct(items):
    seen = set()
    n = 0
    for x in items:
        k = x if isinstance(x, (str, bytes, tuple)) else json.dumps(x, sort_keys=True)
        if k not in seen:
            seen.add(k)
            n += 1
    return n
