"""Random programs of the documented grammar, their renderings, and syntactic mutations."""

PREC = {"OR": 1, "AND": 2, "==": 3, "!=": 3, "<": 4, "<=": 4, ">": 4, ">=": 4, "+": 5, "-": 5, "*": 6, "/": 6, "MOD": 6}
BINOPS = ["==", "!=", "<", "<=", ">", ">=", "+", "-", "*", "/", "MOD"]
ENDERS_KW = {"NULL", "TRUE", "FALSE", "BREAK", "CONTINUE", "RETURN"}
KEYWORDS = {"MOD", "IF", "ELSE", "REPEAT", "TIMES", "UNTIL", "FOR", "EACH", "CONTINUE", "BREAK", "IN", "PROCEDURE", "RETURN",
            "NOT", "AND", "OR", "TRUE", "FALSE", "NULL", "IMPORT", "EXPORT", "FROM"}
TERM = "\x00TERM"


def level(e):
    k = e[0]
    if k in ("asg", "set"):
        return 0
    if k in ("bin", "log"):
        return PREC[e[1]]
    if k == "un":
        return 7
    if k in ("idx",):
        return 8
    return 9


def toks(e, req=0, full=False):
    """token strings of expression e in a position that admits level >= req"""
    k = e[0]
    if full and k != "grp" and (full == 2 or k not in ("num", "str", "kw", "var")):      # full == 2: atoms are wrapped as well
        inner = _toks(e, full)
        return ["("] + inner + [")"]
    out = _toks(e, full)
    if level(e) < req:
        return ["("] + out + [")"]
    return out


def _toks(e, full):
    k = e[0]
    if k == "num":
        return [e[1]]
    if k == "str":
        return [e[1]]
    if k == "kw":
        return [e[1]]
    if k == "var":
        return [e[1]]
    if k == "grp":
        return ["("] + toks(e[1], 0, full) + [")"]
    if k in ("bin", "log"):
        p = PREC[e[1]]
        return toks(e[2], p, full) + [e[1]] + toks(e[3], p + 1, full)
    if k == "un":
        return [e[1]] + toks(e[2], 7, full)
    if k == "call":
        out = [e[1], "("]
        for i, a in enumerate(e[2]):
            if i:
                out.append(",")
            out += toks(a, 0, full)
        return out + [")"]
    if k == "list":
        out = ["["]
        for i, a in enumerate(e[1]):
            if i:
                out.append(",")
            out += toks(a, 0, full)
        return out + ["]"]
    if k == "idx":
        return toks(e[1], 9 if e[1][0] != "idx" else 8, full) + ["["] + toks(e[2], 0, full) + ["]"]
    if k == "asg":
        return [e[1], "<-"] + toks(e[2], 0, full)
    if k == "set":
        return toks(e[1], 9 if e[1][0] != "idx" else 8, full) + ["["] + toks(e[2], 0, full) + ["]", "<-"] + toks(e[3], 0, full)
    raise ValueError(k)


def stoks(s, full=False):
    """token strings of a statement, with TERM markers after statements"""
    k = s[0]
    if k == "expr":
        return toks(s[1], 0, full) + [TERM]
    if k == "if":
        out = ["IF", "("] + toks(s[1], 0, full) + [")"] + body(s[2], full)
        if s[3] is not None:
            out += ["ELSE"] + (stoks(s[3], full)[:-1] if s[3][0] == "if" else body(s[3], full))
        return out + [TERM]
    if k == "rt":
        return ["REPEAT"] + toks(s[1], 0, full) + ["TIMES"] + body(s[2], full) + [TERM]
    if k == "ru":
        return ["REPEAT", "UNTIL", "("] + toks(s[1], 0, full) + [")"] + body(s[2], full) + [TERM]
    if k == "fe":
        return ["FOR", "EACH", s[1], "IN"] + toks(s[2], 0, full) + body(s[3], full) + [TERM]
    if k == "proc":
        out = (["EXPORT"] if s[2] else []) + ["PROCEDURE", s[1], "("]
        for i, p in enumerate(s[3]):
            if i:
                out.append(",")
            out.append(p)
        return out + [")"] + body(s[4], full) + [TERM]
    if k == "block":
        return body(s, full) + [TERM]
    if k == "ret":
        return ["RETURN"] + (toks(s[1], 0, full) if s[1] is not None else []) + [TERM]
    if k == "brk":
        return ["BREAK", TERM]
    if k == "cont":
        return ["CONTINUE", TERM]
    if k == "imp":
        out = ["IMPORT"]
        if isinstance(s[2], list):
            out.append("[")
            for i, n in enumerate(s[2]):
                if i:
                    out.append(",")
                out.append('"%s"' % n)
            out += ["]", "FROM"]
        elif isinstance(s[2], str):
            out += ['"%s"' % s[2], "FROM"]
        return out + ["MOD", '"%s"' % s[1], TERM]
    raise ValueError(k)


def body(s, full):
    if s[0] == "block":
        out = ["{"]
        for x in s[1]:
            out += stoks(x, full)
        return out + ["}"]
    return stoks(s, full)[:-1]


def prog_toks(stmts, full=False):
    out = []
    for s in stmts:
        out += stoks(s, full)
    return out


def is_word(t):
    return t[0].isalnum() or t[0] == "_" or ord(t[0]) > 127


def ender(t):
    """does a newline after this token terminate the statement?"""
    if t in (")", "]", "}"):
        return True
    if t.upper() in KEYWORDS:
        return t.upper() in ENDERS_KW
    return is_word(t) or t[0] == '"'


def fuse(a, b):
    """would the texts of a and b fuse into something else when adjacent?"""
    if is_word(a) and is_word(b):
        return True
    if is_word(a) and b[0] == ".":
        return False
    pair = a[-1] + b[0]
    if pair in ("<-", "<=", ">=", "==", "!=", "//"):
        return True
    if a[-1].isdigit() and b[0] == "." or a[-1] == "." and b[0].isdigit():
        return True
    return False


def render(tokens, rng=None, vary=False, keyword_case=False, compact=False):
    """canonical rendering (single blanks, newline terminators) or a random legal variation"""
    out = []
    real = [t for t in tokens]
    n = len(real)
    for i, t in enumerate(real):
        if t == TERM:
            continue
        txt = t
        if keyword_case and rng and t in KEYWORDS and rng.random() < 0.5:
            txt = t.lower()
        out.append(txt)
        nxt = real[i + 1] if i + 1 < n else None
        if nxt is None:
            break
        if nxt == TERM:
            j = i + 2
            while j < n and real[j] == TERM:
                j += 1
            after = real[j] if j < n else None
            optional = after is None or after == "}"
            if not vary or rng is None:
                out.append("\n")
            else:
                r = rng.random()
                if optional and r < 0.35:
                    out.append(rng.choice(["", " "]))
                elif r < 0.55:
                    out.append(rng.choice([";", " ; ", ";\n", " ;; "]))
                elif r < 0.7:
                    out.append(rng.choice(["\n\n", "\r\n", " \n", "\n\t", " // c\n", "\n// c é\n"]))
                else:
                    out.append("\n")
            continue
        if compact:
            out.append("" if not fuse(t, nxt) else " ")      # no blank wherever the two tokens cannot fuse: l[i]-1, f(x)*2, a<-b
            continue
        if not vary or rng is None:
            out.append(" ")
            continue
        # between two tokens of one statement
        choices = [" "]
        if not fuse(t, nxt):
            choices.append("")
        choices += ["  ", "\t", " \\\n", " \r "]
        if not ender(t):
            choices += ["\n", " // k\n", "\n\n "]
        out.append(rng.choice(choices) if rng.random() < 0.5 else " ")
    return "".join(out)


class Gen:
    """random derivations; `sem` = restrict to programs that run (used by the evaluator checks)"""

    def __init__(self, rng, maxd=3, names=("a", "b", "c", "l", "s"), procs=None):
        self.rng = rng
        self.maxd = maxd
        self.names = list(names)
        self.procs = procs if procs is not None else [("f", 1), ("g", 2), ("h", 0)]

    def lit(self):
        r = self.rng
        k = r.random()
        if k < 0.45:
            return ("num", r.choice(["0", "1", "2", "3", "7", "10", "0.5", "2.5", "100", "1.25", "3.0", "12345678901234567890"]))
        if k < 0.7:
            return ("str", r.choice(['"a"', '""', '"hi there"', '"é"', '"1"', '"x\\ny"', '"q\\"q"', '"{}"']))
        return ("kw", r.choice(["TRUE", "FALSE", "NULL"]))

    def expr(self, d=0):
        r = self.rng
        if d >= self.maxd or r.random() < 0.25:
            return self.lit() if r.random() < 0.5 else ("var", r.choice(self.names))
        k = r.random()
        if k < 0.35:
            return ("bin", r.choice(BINOPS), self.expr(d + 1), self.expr(d + 1))
        if k < 0.45:
            return ("log", r.choice(["AND", "OR"]), self.expr(d + 1), self.expr(d + 1))
        if k < 0.55:
            return ("un", r.choice(["-", "NOT"]), self.expr(d + 1))
        if k < 0.62:
            return ("grp", self.expr(d + 1))
        if k < 0.74:
            name, ar = r.choice(self.procs + [("DISPLAY", 1), ("LENGTH", 1), ("APPEND", 2)])
            n = ar if r.random() < 0.9 else r.randint(0, 3)
            return ("call", name, [self.expr(d + 1) for _ in range(n)])
        if k < 0.82:
            return ("list", [self.expr(d + 1) for _ in range(r.randint(0, 3))])
        if k < 0.9:
            base = r.choice([("var", r.choice(self.names)), ("list", [self.expr(d + 1)]), ("call", "f", [self.expr(d + 1)]),
                             ("grp", self.expr(d + 1)), ("idx", ("var", "l"), self.expr(d + 1))])
            return ("idx", base, self.expr(d + 1))
        if k < 0.96:
            return ("asg", r.choice(self.names), self.expr(d + 1))
        return ("set", ("var", r.choice(self.names)), self.expr(d + 1), self.expr(d + 1))

    def block(self, d, in_fn, in_loop, n=None):
        r = self.rng
        n = r.randint(0, 3) if n is None else n
        return ("block", [self.stmt(d + 1, in_fn, in_loop) for _ in range(n)])

    def stmt(self, d=0, in_fn=False, in_loop=False):
        r = self.rng
        k = r.random()
        if d >= self.maxd:
            k = k * 0.45
        if k < 0.3:
            return ("expr", self.expr(max(d, 1)))
        if k < 0.36 and in_fn:
            return ("ret", self.expr(max(d, 1)) if r.random() < 0.7 else None)
        if k < 0.42 and in_loop:
            return ("brk",) if r.random() < 0.5 else ("cont",)
        if k < 0.45:
            m = r.choice(["MATH", "STRING", "IO", "MAP", "TIME", "STYLE"])
            f = r.random()
            if f < 0.5:
                return ("imp", m, None)
            if f < 0.75:
                return ("imp", m, r.choice(["SIN", "TO_UPPER", "X"]))
            return ("imp", m, [r.choice(["SIN", "COS", "FORMAT"]) for _ in range(r.randint(1, 3))])
        if k < 0.6:
            els = None
            x = r.random()
            if x < 0.3:
                els = self.block(d, in_fn, in_loop)
            elif x < 0.45:
                els = ("if", self.expr(max(d, 1)), self.block(d, in_fn, in_loop), self.block(d, in_fn, in_loop) if r.random() < 0.5 else None)
            then = self.block(d, in_fn, in_loop)
            if els is None and r.random() < 0.15:
                then = self.stmt(self.maxd, in_fn, in_loop)
                if then[0] in ("if",):
                    then = ("block", [then])
            return ("if", self.expr(max(d, 1)), then, els)
        if k < 0.7:
            return ("rt", self.expr(max(d, 1)), self.block(d, in_fn, True))
        if k < 0.78:
            return ("ru", self.expr(max(d, 1)), self.block(d, in_fn, True))
        if k < 0.86:
            return ("fe", r.choice(["x", "y", "a"]), self.expr(max(d, 1)), self.block(d, in_fn, True))
        if k < 0.94:
            name, ar = r.choice(self.procs)
            return ("proc", name, r.random() < 0.15, ["p%d" % i for i in range(ar)], self.block(d, True, False))
        return self.block(d, in_fn, in_loop)

    def program(self, n=None):
        n = self.rng.randint(1, 5) if n is None else n
        return [self.stmt(0, False, False) for _ in range(n)]


# ---------------------------------------------------------------- rejection classes

def misplace(rng, tokens):
    """insert RETURN / BREAK / CONTINUE at a top-level position outside any procedure / loop"""
    kw = rng.choice(["RETURN", "BREAK", "CONTINUE"])
    return [kw, TERM] + tokens if rng.random() < 0.5 else tokens + [kw, TERM]


def unbalance(rng, tokens):
    """delete or insert one bracket (the generated programs contain no brackets inside strings)"""
    idx = [i for i, t in enumerate(tokens) if t in "()[]{}" and len(t) == 1]
    if idx and rng.random() < 0.6:
        i = rng.choice(idx)
        return tokens[:i] + tokens[i + 1:]
    i = rng.randrange(len(tokens) + 1)
    return tokens[:i] + [rng.choice("([{")] + tokens[i:]


BAD_OPERAND = [["a", "+"], ["*", "a"], ["a", "AND"], ["NOT"], ["a", "<-"], ["f", "(", "a", ",", ")"], ["a", "[", "]"],
               ["a", "==", "==", "b"], ["-"], ["a", "MOD"], ["(", "a", "+", ")"], ["[", "1", ",", ",", "2", "]"], ["a", "<", ">", "b"]]


def drop_operand(rng, tokens):
    """insert a statement in which an operator lacks an operand, at a top-level statement boundary"""
    bad = rng.choice(BAD_OPERAND)
    # an explicit ';' ends the statement even after a binary operator (a newline would not)
    return bad + [";"] + tokens if rng.random() < 0.5 else tokens + bad + [TERM]
