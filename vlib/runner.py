"""Generic verdict protocol of a property check (DESIGN.md section 2.6)."""
import json
import os
import re
import sys
import time

from vlib import common as C


class Case:
    """one correspondence / oracle case"""
    __slots__ = ("src", "mods", "meta", "kind")

    def __init__(self, src, mods=None, meta=None, kind="gen"):
        self.src = src
        self.mods = mods or {}
        self.meta = meta or {}
        self.kind = kind

    def key(self):
        return (self.src, tuple(sorted(self.mods.items())), json.dumps(self.meta, sort_keys=True, default=str))


class PropCheck:
    id = "C00"
    theorems = []
    allowed_axioms = ()
    coq_imports = []
    model_targets = []        # .vo files the correspondence needs
    prop_targets = []         # .vo files holding the property theorems
    harness_mode = "run"
    budget = 4000
    depth = 120
    trusted_base = []
    rule = ""
    level_text = ""
    uses_cli = False
    # True: the property says "behaves as the reference semantics / model", so an input on which the implementation and the
    # proved model disagree is itself a failing input.  False: the property is a predicate on the implementation alone (the
    # direct oracle); a disagreement then only breaks the correspondence and is reported as no-failing-input-found.
    mismatch_is_failure = True

    # --- to override
    def run_impl(self, cases):
        """observations of the implementation, one line per case (default: the Rust harness)"""
        return C.run_harness(self.harness_mode, [(c.src, c.mods) for c in cases], self.budget, self.depth, tag=self.id)

    def corpus(self):
        return []

    def cases(self, rng, tier, scale=1):
        return []

    def model_expr(self, case):
        raise NotImplementedError

    def expected(self, case, impl):
        """ascii observation the model must produce, or None to skip the comparison"""
        raise NotImplementedError

    def oracle(self, case, impl):
        """None, or a description of how the implementation's behaviour violates the property"""
        return None

    def nontrivial(self, case, impl):
        """a hashable class key when the case is non-trivial, else None"""
        return case.key()

    def known(self, case, impl, why):
        """id of the known finding this failure belongs to, or None"""
        return None

    def sample(self, case, impl):
        return {"input": case.src if len(case.src) < 400 else case.src[:400] + "...", "impl": (impl or "")[:300]}

    def shrink_candidates(self, case):
        """smaller variants of a failing case (generic: delete one line)"""
        lines = case.src.split("\n")
        out = []
        if len(lines) > 1:
            for i in range(len(lines)):
                out.append(Case("\n".join(lines[:i] + lines[i + 1:]), case.mods, case.meta, "shrunk"))
        return out

    def extra_checks(self, ctx):
        """property-specific additional work; returns list of (description, replay payload) failures"""
        return []


def first_coq_error(out):
    m = re.search(r'File "([^"]+)", line (\d+)[^\n]*\n(?:.*\n)*?Error:(.*?)(?:\n\n|\Z)', out, re.S)
    if m:
        return "%s:%s: %s" % (os.path.relpath(m.group(1), C.VERIF) if m.group(1).startswith("/") else m.group(1), m.group(2),
                              re.sub(r"\s+", " ", m.group(3))[:400])
    return re.sub(r"\s+", " ", out[-400:])


def evaluate(prop, cases):
    """run the implementation and the model on the cases; returns per-case records"""
    if hasattr(prop, "prepare"):
        prop.prepare(cases)
    impl = prop.run_impl(cases)
    recs = []
    items = []
    idx = []
    for i, (c, r) in enumerate(zip(cases, impl)):
        if r == "SKIPPED-AFTER-ABORTS":
            recs.append({"case": c, "impl": r, "oracle": None, "expected": None, "mismatch": False, "model": None, "overflow": False})
            continue
        why = prop.oracle(c, r)
        exp = prop.expected(c, r) if prop.model_available else None
        expr = None
        if isinstance(r, str) and r.startswith("ABORT") and "STACKOVERFLOW" in r and prop.harness_mode == "run":
            # a native stack overflow is accepted only in the classes the properties exclude (a list / map that contains
            # itself, recursion beyond a fixed depth); whether the program is in one of them is decided by the model
            files = "; ".join("(%s, %s)" % (C.coq_text(k), C.coq_text(v)) for k, v in (c.mods or {}).items())
            expr, exp = "(excluded_obs %s [%s])" % (C.coq_text(c.src), files), "EXCLUDED"
            if not prop.model_available:
                exp = None
        recs.append({"case": c, "impl": r, "oracle": why, "expected": exp, "mismatch": False, "model": None, "overflow": expr is not None})
        if exp is not None:
            items.append((expr or prop.model_expr(c), exp))
            idx.append(i)
    vm = 0.0
    if items:
        mism, observed, vm = C.run_coq_cases(prop.id, prop.coq_imports, items)
        for m in mism:
            recs[idx[m]]["mismatch"] = True
            recs[idx[m]]["model"] = observed.get(m)
            if recs[idx[m]]["overflow"] and recs[idx[m]]["oracle"] is None:
                recs[idx[m]]["oracle"] = ("the process aborted (native stack overflow) on a program outside the excluded classes: "
                                          "the model run neither exhausts its fuel nor ends with a self-containing list")
    return recs, vm


def failing(rec):
    return rec["oracle"] is not None or rec["mismatch"]


def describe(rec):
    if rec["oracle"] is not None:
        return rec["oracle"]
    return "implementation and verified model disagree"


def run_check(prop, tier, seed, replay=None):
    t0 = time.time()
    os.makedirs(os.path.join(C.WORK, prop.id), exist_ok=True)
    if not replay and os.path.isdir(C.REPLAYS):
        for fn in os.listdir(C.REPLAYS):        # replays of earlier runs of this property are stale
            if fn.startswith(prop.id + "-"):
                os.remove(os.path.join(C.REPLAYS, fn))
    notes = []
    broken = []          # proof obligations / correspondence channels that no longer check
    assumptions_seen = {}

    # 1. tie to the source: regenerate tables
    try:
        notes += C.translate()
    except Exception as e:  # translator could not read the source: tie cannot be established
        broken.append("translator: %s" % e)

    # 2. development hygiene
    bad = C.grep_forbidden()
    if bad:
        raise C.CheckBroken("forbidden declarations in the Coq development:\n" + "\n".join(bad))

    # 3. models, then theorems
    ok, out = C.coq_make(prop.model_targets)
    prop.model_available = ok
    if not ok:
        broken.append("model does not build: " + first_coq_error(out))
    discharged = []
    if ok:
        ok2, out2 = C.coq_make(prop.prop_targets)
        if not ok2:
            broken.append("proof obligation fails: " + first_coq_error(out2))
        else:
            discharged, problems, assumptions_seen = C.audit(prop.id, prop.theorems, prop.allowed_axioms, getattr(prop, 'audit_modules', None))
            broken += problems

    chk = None
    if tier == "thorough" and not broken and not replay:
        chk = C.coqchk(prop.id, modules=getattr(prop, 'audit_modules', None))
        if not chk.get("ok"):
            broken.append("coqchk rejected the compiled development: %s" % chk)
        else:
            bad_ax = [a for a in chk["axioms"] if a != "<none>" and
                      not any(x in a for x in ("PrimFloat", "PrimInt63", "Uint63", "FloatAxioms", "Floats."))]
            if bad_ax:
                broken.append("coqchk lists unexpected axioms: %s" % bad_ax[:5])

    # 4. implementation
    C.build_harness()
    if prop.uses_cli:
        C.build_cli()

    rng = C.seeded_rng(seed, prop.id)
    scale = 1 if not broken else 3   # a broken obligation enlarges the search for a failing input
    if replay:
        payload = json.load(open(replay))
        cases = [Case(payload["input"], payload.get("modules") or {}, payload.get("meta") or {}, "replay")]
    else:
        cases = [c for c in prop.corpus()] + prop.cases(rng, tier, scale)
    recs, vm = evaluate(prop, cases) if cases else ([], 0.0)
    extra_fail = prop.extra_checks({"tier": tier, "seed": seed, "rng": rng, "scale": scale}) if not replay else []

    # 5. verdict
    fails = [r for r in recs if failing(r)]
    known_lines = []
    unknown = []
    for r in fails:
        k = prop.known(r["case"], r["impl"], describe(r))
        if k:
            known_lines.append(k)
        else:
            unknown.append(r)
    kf = {e["id"]: e for e in C.known_findings(prop.id)}
    for k in sorted(set(known_lines)):
        print("KNOWN-FINDING: property=%s %s" % (prop.id, kf[k]["what"] if k in kf else k), flush=True)
    # listed known findings are always reported, whether or not this run's generator hit them
    for k, e in kf.items():
        if k not in known_lines:
            print("KNOWN-FINDING: property=%s %s" % (prop.id, e["what"]), flush=True)

    violations = 0
    nrep = 0
    corr_only = []
    if not prop.mismatch_is_failure:
        corr_only = [r for r in unknown if r["oracle"] is None]
        unknown = [r for r in unknown if r["oracle"] is not None]
    for r in unknown[:3]:
        r = shrink(prop, r)
        c = r["case"]
        path = C.write_replay(prop.id, seed, nrep, {
            "property": prop.id, "what": describe(r), "input": c.src, "modules": c.mods, "meta": c.meta,
            "implementation": r["impl"], "model_expected_form": r["expected"], "model": r["model"],
            "broken_obligations": broken,
            "how_to_replay": "./check %s --replay <this file>" % prop.id})
        print("VIOLATION property=%s replay=%s" % (prop.id, path), flush=True)
        nrep += 1
        violations += 1
    for (why, payload) in extra_fail[:3]:
        payload = dict(payload)
        payload.update({"property": prop.id, "what": why, "broken_obligations": broken})
        path = C.write_replay(prop.id, seed, nrep, payload)
        print("VIOLATION property=%s replay=%s" % (prop.id, path), flush=True)
        nrep += 1
        violations += 1
    if not violations and corr_only:
        r = shrink(prop, corr_only[0])
        c = r["case"]
        path = C.write_replay(prop.id, seed, nrep, {
            "property": prop.id,
            "what": "the correspondence between the model the theorems are about and the implementation no longer checks "
                    "(%d of %d inputs disagree); the property's direct oracle found no input on which the property itself fails"
                    % (len(corr_only), len(recs)),
            "broken_correspondence": "channel %s (%s): model expression %s" % (prop.harness_mode, prop.id, ", ".join(prop.coq_imports)),
            "disagreeing_input": c.src, "modules": c.mods, "meta": c.meta, "input": c.src,
            "implementation": r["impl"], "model_expected_form": r["expected"], "model": r["model"],
            "broken_obligations": broken,
            "how_to_replay": "./check %s --replay <this file>" % prop.id})
        print("VIOLATION property=%s replay=%s no-failing-input-found" % (prop.id, path), flush=True)
        nrep += 1
        violations += 1
    if not violations and broken:
        path = C.write_replay(prop.id, seed, nrep, {
            "property": prop.id, "what": "a proof obligation or the correspondence no longer checks; "
            "the search over %d cases found no input on which the property itself fails" % len(recs),
            "broken_obligations": broken})
        print("VIOLATION property=%s replay=%s no-failing-input-found" % (prop.id, path), flush=True)
        violations += 1

    # 6. evidence
    nontriv = set()
    for r in recs:
        k = prop.nontrivial(r["case"], r["impl"])
        if k is not None:
            nontriv.add(k)
    samples = [prop.sample(r["case"], r["impl"]) for r in recs[:2] + recs[len(recs) // 2:len(recs) // 2 + 2]]
    # the axioms actually reported by Print Assumptions on this run, named in the trusted base
    used = {}
    for th, axs in (assumptions_seen or {}).items():
        for a in axs:
            if not C.PRIMITIVE_OK.match(a):
                used.setdefault(a, []).append(th)
    tb = list(prop.trusted_base)
    if used:
        tb.append("Coq standard-library axioms used (Print Assumptions, this run): " +
                  "; ".join("%s by %s" % (a, ", ".join(sorted(ths))) for a, ths in sorted(used.items())) +
                  " — Floats.FloatAxioms states that the kernel's primitive floats behave as SpecFloat's binary64")
    else:
        tb.append("axioms (Print Assumptions, this run): none beyond the kernel primitives PrimFloat.* / PrimInt63.* (primitive types and operations, not propositions)")
    cov = {
        "obligations": len(prop.theorems),
        "discharged": len(discharged),
        "checker_cmd": "coq_makefile -f _CoqProject -o Makefile && make %s (full .vo build, coqc 8.16.1) ; "
                       "coqc work/%s/Audit_%s.v (Print Assumptions of every property theorem)" % (
                           " ".join(prop.prop_targets), prop.id, prop.id),
        "trusted_base": tb,
        "theorems": prop.theorems,
        "theorem_assumptions": assumptions_seen,
        "broken_obligations": broken,
        "evaluations": len(recs) + getattr(prop, "extra_evaluations", 0),
        "distinct_nontrivial": len(nontriv) + getattr(prop, "extra_nontrivial", 0),
        "traces_validated_against_impl": sum(1 for r in recs if r["expected"] is not None and not r["mismatch"]),
        "model_vs_impl_mismatches": sum(1 for r in recs if r["mismatch"]),
        "oracle_failures": sum(1 for r in recs if r["oracle"] is not None),
        "known_finding_hits": len(known_lines),
        "skipped_budget": sum(1 for r in recs if r["expected"] is None),
        "rule": prop.rule,
        "samples": samples or [{"note": "no dynamic cases in this run"}],
        "distribution": getattr(prop, "distribution", {}),
        "translator_notes": notes[:20],
        "coq_vm_seconds": round(vm, 1),
        "coqchk": chk,
        "exhaustive": False,
    }
    cov.update(getattr(prop, "extra_coverage", {}))
    C.write_evidence(prop.id, tier, seed, cov, tb, time.time() - t0, violations)
    C.log("%s %s: %d cases, %d violations, %.1fs" % (prop.id, tier, len(recs), violations, time.time() - t0))
    return 1 if violations else 0


def shrink(prop, rec, rounds=6):
    """greedy shrinking: keep a smaller case while it still fails"""
    cur = rec
    for _ in range(rounds):
        cands = prop.shrink_candidates(cur["case"])[:40]
        if not cands:
            break
        try:
            recs, _ = evaluate(prop, cands)
        except C.CheckBroken:
            break
        smaller = [r for r in recs if failing(r) and not prop.known(r["case"], r["impl"], describe(r))]
        if not smaller:
            break
        cur = min(smaller, key=lambda r: len(r["case"].src))
    return cur
