"""Generator of programs that *run*: expression trees with tracing calls, control-flow skeletons
with a trace in every block position, procedures with RETURN anywhere, list/alias histories."""

INF = "9" * 310
NUMS = ["0", "-0", "1", "-1", "2", "3", "0.5", "2.9", "10", "7", "100", "0.1", "0.2", "1e", INF, "(%s-%s)" % (INF, INF)]
NUMS = [n for n in NUMS if n != "1e"]
STRS = ['""', '"a"', '"1"', '"é"', '"hi there"', '"x,y"']
ATOMS = ["TRUE", "FALSE", "NULL"]
COUNTS = ["0", "1", "2", "3", "-1", "2.9", "0.5", "4"]
ARITH = ["+", "-", "*", "/", "MOD"]
CMP = ["<", "<=", ">", ">=", "==", "!="]

HEADER = "PROCEDURE t(k, v) {\nDISPLAY(k)\nRETURN v\n}\n"


class Sem:
    def __init__(self, rng, w=None, maxd=3):
        self.r = rng
        self.maxd = maxd
        self.k = 0            # trace label counter
        self.ctr = 0          # loop counter names
        self.vars = ["a", "b", "c"]
        self.lists = ["l", "m"]
        self.procs = []       # (name, nparams)
        self.w = dict(trace=0.3, err=0.1, lists=0.3, calls=0.3, ctl=0.5)
        if w:
            self.w.update(w)

    # ------------------------------------------------------------ expressions
    def lab(self):
        self.k += 1
        return str(self.k)

    def leaf(self, kind=None):
        r = self.r
        kind = kind or r.choice(["num", "num", "num", "str", "atom", "var", "list"])
        if kind == "num":
            v = r.choice(NUMS)
        elif kind == "str":
            v = r.choice(STRS)
        elif kind == "atom":
            v = r.choice(ATOMS)
        elif kind == "var":
            v = r.choice(self.vars + self.lists)
        else:
            v = r.choice(["[]", "[1, 2]", "[\"s\", [0]]", "l", "m"])
        if r.random() < self.w["trace"]:
            return "t(%s, %s)" % (self.lab(), v)
        return v

    def num(self, d):
        r = self.r
        if d >= self.maxd or r.random() < 0.3:
            x = r.random()
            if x < 0.15 and self.vars:
                return r.choice(self.vars)
            if x < 0.25:
                return "LENGTH(%s)" % r.choice(self.lists)
            return self.leaf("num")
        x = r.random()
        if x < 0.6:
            return "(%s %s %s)" % (self.num(d + 1), r.choice(ARITH), self.num(d + 1))
        if x < 0.7:
            return "-%s" % self.num(d + 1)
        if x < 0.8 and self.procs and r.random() < self.w["calls"] * 2:
            return self.call(d)
        if x < 0.9:
            return "(%s <- %s)" % (r.choice(self.vars), self.num(d + 1))
        return "%s[%s]" % (r.choice(self.lists), r.choice(["1", "2", "LENGTH(l)", "0", "3", "1.9"]))

    def boolean(self, d):
        r = self.r
        if d >= self.maxd or r.random() < 0.25:
            return self.leaf(r.choice(["atom", "num", "var"]))
        x = r.random()
        if x < 0.4:
            return "(%s %s %s)" % (self.num(d + 1), r.choice(CMP), self.num(d + 1))
        if x < 0.75:
            return "(%s %s %s)" % (self.boolean(d + 1), r.choice(["AND", "OR"]), self.boolean(d + 1))
        if x < 0.9:
            return "NOT %s" % self.boolean(d + 1)
        return "(%s == %s)" % (self.any(d + 1), self.any(d + 1))

    def any(self, d=0):
        r = self.r
        x = r.random()
        if r.random() < self.w["err"] * 0.5:
            # a likely type error somewhere
            return "(%s %s %s)" % (self.leaf(), r.choice(ARITH + CMP), self.leaf())
        if x < 0.4:
            return self.num(d)
        if x < 0.6:
            return self.boolean(d)
        if x < 0.75:
            return "(%s + %s)" % (self.leaf("str"), self.any(d + 1) if d < self.maxd else self.leaf())
        if x < 0.85:
            return "(%s + %s)" % (self.leaf("list"), self.leaf("list"))
        return self.leaf()

    def call(self, d):
        name, n = self.r.choice(self.procs)
        k = n if self.r.random() > self.w["err"] else max(0, n + self.r.choice([-1, 1]))
        return "%s(%s)" % (name, ", ".join(self.any(d + 1) for _ in range(k)))

    # ------------------------------------------------------------ statements
    def trace(self):
        return "DISPLAY(%s)" % self.lab()

    def block(self, d, in_loop, in_fn, n=None):
        n = self.r.randint(1, 3) if n is None else n
        out = []
        for _ in range(n):
            out += self.stmt(d + 1, in_loop, in_fn)
        return out

    def braces(self, lines):
        return ["{"] + lines + ["}"]

    def stmt(self, d, in_loop, in_fn):
        r = self.r
        x = r.random()
        if d >= self.maxd:
            x *= 0.35
        if x < 0.12:
            return [self.trace()]
        if x < 0.22:
            return ["DISPLAY(%s)" % self.any(1)]
        if x < 0.3:
            return ["%s <- %s" % (r.choice(self.vars), self.any(1))]
        if x < 0.35 and r.random() < self.w["lists"] * 2:
            return [self.listop()]
        if x < 0.4 and in_loop:
            k = r.choice(["BREAK", "CONTINUE"])
            y = r.random()
            if y < 0.5:
                return ["IF (%s) {" % self.boolean(2), k, "}"]
            if y < 0.65:      # inside a free-standing block, with a statement after the block that must not run
                return ["{", k, "}", self.trace()]
            if y < 0.75:
                return ["{", "IF (%s) {" % self.boolean(2), k, "}", self.trace(), "}", self.trace()]
            return [k]
        if x < 0.45 and in_fn:
            k = "RETURN %s" % self.any(1) if r.random() < 0.8 else "RETURN"
            y = r.random()
            if y < 0.4:
                return ["IF (%s) {" % self.boolean(2), k, "}"]
            if y < 0.55:      # inside a free-standing block, with a statement after the block that must not run
                return ["{", k, "}", self.trace()]
            if y < 0.7:
                return ["{", "IF (%s) {" % self.boolean(2), k, "}", self.trace(), "}", self.trace()]
            if k == "RETURN":      # a bare RETURN ended only by the line break, with a statement right after it
                return [k, self.trace()]
            return [k]
        if x < 0.6:
            out = ["IF (%s) {" % self.boolean(1)] + self.block(d, in_loop, in_fn) + ["}"]
            y = r.random()
            if y < 0.3:
                out[-1] = "} ELSE {"
                out += self.block(d, in_loop, in_fn) + ["}"]
            elif y < 0.45:
                out[-1] = "} ELSE IF (%s) {" % self.boolean(1)
                out += self.block(d, in_loop, in_fn) + ["} ELSE {"] + self.block(d, in_loop, in_fn) + ["}"]
            return out
        if x < 0.7:
            return ["REPEAT %s TIMES {" % (r.choice(COUNTS) if r.random() < 0.8 else self.num(2))] + [self.trace()] + \
                self.block(d, True, in_fn) + ["}"]
        if x < 0.78:
            self.ctr += 1
            i = "i%d" % self.ctr
            cond = "%s >= %s" % (i, r.choice(["0", "1", "2", "3"]))
            if r.random() < 0.5:      # the condition runs a procedure body (a block) every time it is tested
                cond = "t(%s, %s)" % (self.lab(), cond)
            return ["%s <- 0" % i, "REPEAT UNTIL (%s) {" % cond, "%s <- %s + 1" % (i, i)] + \
                self.block(d, True, in_fn) + ["}"]
        if x < 0.86:
            v = r.choice(["x", "y", "a"])
            src = r.choice(["l", "m", "[1, 2, 3]", '"abc"', '"é1"', "[]", "l + m"])
            if v == "a":      # `a` is assigned arbitrary values: iterate over a temporary so no list ends up inside itself
                src = r.choice(["[1, 2, 3]", '"abc"', "[]", "l + m", '"é1"'])
            body = self.block(d, True, in_fn)
            if r.random() < 0.3:
                body.append("%s <- %s" % (v, self.num(2)))
            return ["FOR EACH %s IN %s {" % (v, src), "DISPLAY(%s)" % v] + body + ["}"]
        if x < 0.93 and r.random() < self.w["calls"] * 2 and d <= 1:
            return self.procdecl(d)
        if x < 0.97 and self.procs:
            return ["DISPLAY(%s)" % self.call(1)]
        return ["{"] + self.block(d, in_loop, in_fn) + ["}"]

    def listop(self):
        r = self.r
        l = r.choice(self.lists)
        i = r.choice(["0", "1", "2", "-1", "0.5", "1.9", "LENGTH(%s)" % l, "LENGTH(%s) + 1" % l, "LENGTH(%s) + 2" % l, "100"])
        v = r.choice(["1", '"s"', "NULL", "[9]", "[[1], 2]", "a", "TRUE"])   # never a list variable: no self-containing lists
        return r.choice([
            "APPEND(%s, %s)" % (l, v), "INSERT(%s, %s, %s)" % (l, i, v), "DISPLAY(REMOVE(%s, %s))" % (l, i),
            "%s[%s] <- %s" % (l, i, v), "DISPLAY(%s[%s])" % (l, i), "DISPLAY(LENGTH(%s))" % l,
            "%s <- %s + %s" % (r.choice(self.lists), r.choice(self.lists), r.choice(self.lists + ["[0]", "[]"])),
            "%s <- [] + %s" % (r.choice(self.lists), r.choice(self.lists)),
            "%s <- %s" % (r.choice(self.lists), r.choice(self.lists)), "%s <- [%s, %s]" % (l, v, v), "DISPLAY(%s)" % l])

    def procdecl(self, d):
        r = self.r
        name = r.choice(["f", "g", "h"])
        n = r.randint(0, 3)
        params = [r.choice(["a", "p", "q", "l"]) for _ in range(n)] if r.random() < 0.3 else ["p%d" % i for i in range(n)]
        if r.random() < 0.12:
            # a procedure with an empty body: the call yields NULL and the caller goes on with its own variables
            self.procs.append((name, n))
            args = ", ".join(r.choice(["a", "1", "l", '"v"']) for _ in range(n))
            return ["PROCEDURE %s(%s) {" % (name, ", ".join(params)), "}", "DISPLAY(%s(%s))" % (name, args), "DISPLAY(a)",
                    "a <- a", "DISPLAY(%s)" % r.choice(self.vars)]
        saved_vars, saved_lists = self.vars, self.lists
        self.vars = list(dict.fromkeys([p for p in params if p != "l"] + ["a"]))
        self.lists = ["l"] if "l" in params else []
        body = ["DISPLAY(%s)" % self.lab()]
        if "a" not in params and r.random() < 0.5:
            body.append("a <- 5")
        if params:
            body.append("DISPLAY(%s)" % params[0])
        if not self.lists:
            body.append("l <- [1]")
            self.lists = ["l"]
        # bounded recursion through a depth parameter
        rec = []
        if n >= 1 and r.random() < 0.4:
            rec = ["IF (%s > 0 AND %s < 4) {" % (params[0], params[0]),
                   "DISPLAY(%s(%s))" % (name, ", ".join(["%s - 1" % params[0]] + ["0"] * (n - 1))), "}"]
        self.procs.append((name, n))
        inner = self.block(d + 1, False, True, r.randint(1, 3))
        self.vars, self.lists = saved_vars, saved_lists
        tail = ["RETURN %s" % r.choice(["p0", "1", '"r"', "NULL", "l"])] if (n and r.random() < 0.6) else []
        if tail and "p0" in tail[0] and "p0" not in params:
            tail = ["RETURN 1"]
        return ["PROCEDURE %s(%s) {" % (name, ", ".join(params))] + body + rec + inner + tail + ["}"]

    def program(self, nstmts=None):
        r = self.r
        n = r.randint(2, 6) if nstmts is None else nstmts
        lines = [HEADER.rstrip("\n"), "a <- 1", "b <- \"s\"", "c <- 2.5", "l <- [10, 20, 30]", "m <- l" if r.random() < 0.3 else "m <- [\"u\", [1]]"]
        for _ in range(n):
            lines += self.stmt(0, False, False)
        lines += ["DISPLAY(a)", "DISPLAY(b)", "DISPLAY(c)", "DISPLAY(l)", "DISPLAY(m)"]
        return "\n".join(lines) + "\n"
