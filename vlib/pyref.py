"""Python reference functions used as direct oracles (independent of the Coq models)."""
import math
import re
import struct


def rust_show(x):
    """Rust's `{}` for f64: shortest round-trip digits, positional, no exponent"""
    if isinstance(x, bool):
        return "TRUE" if x else "FALSE"
    if math.isnan(x):
        return "NaN"
    if math.isinf(x):
        return "inf" if x > 0 else "-inf"
    if x == 0:
        return "-0" if math.copysign(1, x) < 0 else "0"
    r = repr(abs(x))
    sign = "-" if x < 0 else ""
    if "e" in r:
        mant, exp = r.split("e")
        exp = int(exp)
    else:
        mant, exp = r, 0
    if "." in mant:
        ip, fp = mant.split(".")
    else:
        ip, fp = mant, ""
    digits = (ip + fp).lstrip("0")
    # value = 0.digits * 10^point  where point = len(ip) + exp - leading zeros stripped
    lead = len(ip + fp) - len((ip + fp).lstrip("0"))
    point = len(ip) + exp - lead
    digits = digits.rstrip("0") or "0"
    if point <= 0:
        return sign + "0." + "0" * (-point) + digits
    if point >= len(digits):
        return sign + digits + "0" * (point - len(digits))
    return sign + digits[:point] + "." + digits[point:]


F64_RE = re.compile(r"^[+-]?(\d+\.?\d*([eE][+-]?\d+)?|\.\d+([eE][+-]?\d+)?)$")


def rust_parse_f64(s):
    """<f64 as FromStr>::from_str -> float or None"""
    low = s.lower()
    body = low[1:] if low[:1] in "+-" else low
    if body in ("inf", "infinity", "nan"):
        v = math.nan if body == "nan" else math.inf
        return -v if low[:1] == "-" and body != "nan" else v
    if F64_RE.match(s) and all(ord(c) < 128 for c in s):
        try:
            return float(s)
        except (ValueError, OverflowError):
            return None
    return None


def show_value(v):
    """displayed form of a Python-side value: None, bool, float, str, list"""
    if v is None:
        return "NULL"
    if isinstance(v, bool):
        return "TRUE" if v else "FALSE"
    if isinstance(v, (int, float)):
        return rust_show(float(v))
    if isinstance(v, str):
        return v
    if isinstance(v, list):
        return "[" + ", ".join(show_value(x) for x in v) + "]"
    return "NATIVE"


def rust_split(s, p):
    if p == "":
        return [""] + list(s) + [""]
    return s.split(p)


WS = set([9, 10, 11, 12, 13, 32, 133, 160, 5760, 8232, 8233, 8239, 8287, 12288] + list(range(8192, 8203)))


def rust_trim(s):
    i, j = 0, len(s)
    while i < j and ord(s[i]) in WS:
        i += 1
    while j > i and ord(s[j - 1]) in WS:
        j -= 1
    return s[i:j]


def ap_str(s):
    """aplang string literal for s"""
    out = []
    for ch in s:
        if ch == '"':
            out.append('\\"')
        elif ch == "\\":
            out.append("\\\\")
        elif ch == "\n":
            out.append("\\n")
        elif ch == "\r":
            out.append("\\r")
        elif ch == "\t":
            out.append("\\t")
        else:
            out.append(ch)
    return '"' + "".join(out) + '"'


def bits(x):
    return struct.unpack(">Q", struct.pack(">d", x))[0]


def same_number_text(got, exp):
    """C15: `exp` is one shortest decimal of a double (Python repr's choice); `got` is acceptable when it is that text or another
    decimal of the same length that reads back as the same double (when the double lies exactly half-way between two shortest
    candidates both are 'the shortest decimal that reads back', and Rust and Python break the tie differently)"""
    if got == exp:
        return True
    a, b = rust_parse_f64(got), rust_parse_f64(exp)
    if a is None or b is None or a != a or b != b:
        return False
    if bits(a) != bits(b):
        return False
    strip = lambda t: t.lstrip("-").replace(".", "").strip("0")
    return len(got) == len(exp) and len(strip(got)) == len(strip(exp)) and ("." in got) == ("." in exp)


def same_output_numbers(got, exp):
    gl, el = got.split("\n"), exp.split("\n")
    return len(gl) == len(el) and all(same_number_text(g, e) for g, e in zip(gl, el))
