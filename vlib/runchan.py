"""The run channel (K3): shared helpers for the properties decided by running programs."""
import math
import re
import struct

from vlib import common as C

WALL_PANIC = "robot attempted to move into a wall"


def parse_run(line):
    """harness run line -> dict(cls, code, span, out, direct, raw)"""
    if line is None or line.startswith("ABORT"):
        return {"cls": "ABORT", "out": "", "direct": 0, "raw": line}
    parts = line.split(" ")
    head = parts[0]
    direct = 0
    if parts[-1].startswith("D") and parts[-1][1:].isdigit():
        direct = int(parts[-1][1:])
        parts = parts[:-1]
    r = {"cls": head, "out": "", "direct": direct, "raw": line, "code": None, "span": None}
    if head in ("LEXERR", "PARSEERR"):
        r["rest"] = " ".join(parts[1:])
        return r
    sink = parts[1] if len(parts) > 1 else "-"
    r["out"] = "" if sink == "-" else C.unhx(sink).decode("utf-8", "replace")
    r["outhex"] = sink
    if head == "OK" or head == "BUDGET":
        return r
    if head.startswith("RT:"):
        f = head.split(":")
        r["cls"] = "RT"
        r["code"] = f[1]
        r["spans"] = f[2:]
        return r
    if head.startswith("PANIC:"):
        msg = C.unhx(head[6:]).decode("utf-8", "replace")
        r["cls"] = "EXIT" if WALL_PANIC in msg else "PANIC"
        r["msg"] = msg
        return r
    return r


def expected_from_impl(line):
    """the observation the model must print for this implementation result (None = skip)"""
    r = parse_run(line)
    if r["cls"] == "BUDGET":
        return None
    if r["cls"] == "ABORT":
        return "X ABORT"      # (a stack overflow is routed to the model's excluded-class test by the runner)
    if r["cls"] == "LEXERR":
        return "LEXERR " + r["rest"].replace(" RENDERPANIC", "").replace(" BADSPAN", "")
    if r["cls"] == "PARSEERR":
        return "PARSEERR " + r["rest"].replace(" RENDERPANIC", "").replace(" BADSPAN", "")
    if r["cls"] == "OK":
        return "OK " + r["outhex"]
    if r["cls"] == "RT":
        return "RT:%s:%s %s" % (r["code"], ":".join(s for s in r["spans"] if s not in ("RENDERPANIC", "BADSPAN")), r["outhex"])
    if r["cls"] == "EXIT":
        return "EXIT " + r["outhex"]
    if r["cls"] == "PANIC":
        return "PANIC-IMPL " + r["outhex"]
    return "X " + str(line)[:80]


def crash_oracle(line, allow_exit=True):
    """C10's direct oracle: the run ended normally, with a runtime diagnostic, or at a wall"""
    r = parse_run(line)
    if r["cls"] == "ABORT":
        if "STACKOVERFLOW" in (r["raw"] or ""):
            return None               # decided by the model: see runner.evaluate (excluded_obs)
        return "the process aborted (%s)" % r["raw"]
    if r["cls"] == "PANIC":
        return "the run panicked: %s" % r.get("msg", "")[:200]
    if r["cls"] == "EXIT" and not allow_exit:
        return "unexpected termination at a wall"
    if "RENDERPANIC" in (r["raw"] or ""):
        return "rendering the diagnostic panicked"
    if "BADSPAN" in (r["raw"] or ""):
        return "a diagnostic labels a byte range that cannot be read from the source text it names"
    return None


# ---- value pool for "type chaos"
INF = "9" * 400
BIG = "9" * 300
POOL = ["NULL", "TRUE", "FALSE", "0", "-0", "-1", "0.5", "1", "2", "3", "2.9", BIG, INF, "(%s-%s)" % (INF, INF), "-" + INF,
        '""', '"é"', '"' + "é" * 20 + '"', '"' + "a" * 31 + 'é中"', '"a,b"', '"1.5"', '"true"', '" x "', "[]", "[1, 2, 3]", "[[1], \"s\"]", "l", "l2", "m", "r", "0.1+0.2"]
PRELUDE = ('IMPORT MOD "MATH"\nIMPORT MOD "STRING"\nIMPORT MOD "MAP"\nIMPORT MOD "IO"\nIMPORT MOD "STYLE"\nIMPORT MOD "TIME"\n'
           'IMPORT MOD "ROBOT"\nl <- [10, 20, 30]\nl2 <- l\nm <- MAP()\nMAP_INSERT(m, 1, "one")\nr <- ROBOT_MAP("n.#")\n')


def float_bits(x):
    return struct.unpack(">Q", struct.pack(">d", x))[0]


def coq_libm_table(entries):
    """entries: list of (name, [float args], float result)"""
    rows = []
    for name, args, res in entries:
        rb = float_bits(res)
        if math.isnan(res):
            rb = 0x7FF8000000000000
        rows.append('("%s"%%string, [%s], %d%%N)' % (name, "; ".join("%d%%N" % float_bits(a) for a in args), rb))
    return "[" + "; ".join(rows) + "]"


def sigs_from_generated():
    """(module, name, [kinds]) parsed back from Gen/Generated.v"""
    import os
    txt = open(os.path.join(C.COQ, "theories", "Gen", "Generated.v")).read()
    body = txt.split("Definition std_sigs")[1].split("].\n")[0]
    out = []
    for m in re.finditer(r'\("(\w+)"%string, "(\w+)"%string, \[([^\]]*)\]\)', body):
        kinds = [k.strip() for k in m.group(3).split(";") if k.strip()]
        out.append((m.group(1), m.group(2), kinds))
    return out


POOL_NUM = {"0": 0.0, "-0": -0.0, "-1": -1.0, "0.5": 0.5, "1": 1.0, "2": 2.0, "3": 3.0, "2.9": 2.9, "2.5": 2.5, BIG: float(BIG), INF: math.inf,
            "(%s-%s)" % (INF, INF): math.nan, "-" + INF: -math.inf, "0.1+0.2": 0.1 + 0.2}


def math_bodies_from_generated():
    """MATH procedure -> (rust function name or None, argument order)"""
    import os
    txt = open(os.path.join(C.COQ, "theories", "Gen", "Generated.v")).read()
    body = txt.split("Definition math_bodies")[1].split("].\n")[0]
    out = {}
    for m in re.finditer(r'\("(\w+)"%string, \((\w+)(?: "(\w+)"%string)?\), \[([^\]]*)\]\)', body):
        order = [int(x.replace("%nat", "")) for x in m.group(4).split(";") if x.strip()]
        out[m.group(1)] = (m.group(3) if m.group(2) == "MFn" else None, order)
    return out


EXACT_FNS = {"round", "floor", "ceil", "trunc"}


def rust_math(calls):
    """calls: list of (rust fn name, [floats]) -> list of floats, evaluated by the harness with Rust's std"""
    import os
    import subprocess
    if not calls:
        return []
    d = os.path.join(C.WORK, "math_%d" % os.getpid())
    os.makedirs(d, exist_ok=True)
    cf, rf = os.path.join(d, "c.txt"), os.path.join(d, "r.txt")
    with open(cf, "w") as f:
        for name, args in calls:
            f.write(name + " " + " ".join("%016x" % float_bits(a) for a in args) + "\n")
    subprocess.run([C.HARNESS_BIN, "math", cf, rf], check=True, stdin=subprocess.DEVNULL, stdout=subprocess.DEVNULL)
    out = [struct.unpack(">d", struct.pack(">Q", int(l, 16)))[0] for l in open(rf).read().split()]
    import shutil
    shutil.rmtree(d, ignore_errors=True)
    return out


def libm_entries(proc_calls):
    """proc_calls: list of (MATH procedure, [float args]); returns the oracle table entries the model needs"""
    mb = math_bodies_from_generated()
    calls = []
    for proc, args in proc_calls:
        if proc in mb and mb[proc][0] and mb[proc][0] not in EXACT_FNS:
            fn, order = mb[proc]
            if all(i < len(args) for i in order):
                calls.append((fn, [args[i] for i in order]))
    res = rust_math(calls)
    return [(fn, a, r) for (fn, a), r in zip(calls, res)]
