"""Translator: regenerates coq/theories/Gen/Generated.v from /repo's current sources.

The tabular parts of the code are re-extracted on every run (anchored on item names,
not line numbers).  Anything unrecognised becomes an `Unknown` entry (or makes the
generated file fail to compile), never a silently smaller table."""
import os
import re

from vlib import common as C

OUT = os.path.join(C.COQ, "theories", "Gen", "Generated.v")
SRC = os.path.join(C.REPO, "src")

TOKEN_KINDS = """SoftSemi LeftParen RightParen LeftBracket RightBracket LeftBrace RightBrace Comma Dot Minus Plus Slash
Star Arrow EqualEqual BangEqual Greater GreaterEqual Less LessEqual Identifier Number StringLiteral Mod If Else Repeat
Times Until For Each Continue Break In Procedure Return Not And Or True False Null Import Export From Eof""".split()


class TranslateError(Exception):
    pass


def read(rel):
    p = os.path.join(SRC, rel)
    if not os.path.exists(p):
        raise TranslateError("source file missing: src/" + rel)
    return open(p, encoding="utf-8").read()


def strip_comments(src):
    """remove // and /* */ comments, keeping string and char literals intact"""
    out = []
    i = 0
    n = len(src)
    while i < n:
        c = src[i]
        if src.startswith("//", i):
            while i < n and src[i] != "\n":
                i += 1
            continue
        if src.startswith("/*", i):
            j = src.find("*/", i + 2)
            i = n if j < 0 else j + 2
            continue
        if c == "r" and re.match(r'r#+"', src[i:]):
            hashes = re.match(r'r(#+)"', src[i:]).group(1)
            j = src.find('"' + hashes, i + 2 + len(hashes))
            i = n if j < 0 else j + 1 + len(hashes)
            out.append('""')
            continue
        if c == '"':
            j = i + 1
            while j < n and src[j] != '"':
                j += 2 if src[j] == "\\" else 1
            out.append(src[i:j + 1])
            i = j + 1
            continue
        if c == "'":
            m = re.match(r"'(\\.|[^\\'])'", src[i:])
            if m:
                out.append(m.group(0))
                i += len(m.group(0))
                continue
        out.append(c)
        i += 1
    return "".join(out)


def match_brace(src, i, open_="{", close="}"):
    """src[i] is the opening bracket; returns the index just after the matching close"""
    depth = 0
    n = len(src)
    while i < n:
        c = src[i]
        if c == '"':
            j = i + 1
            while j < n and src[j] != '"':
                j += 2 if src[j] == "\\" else 1
            i = j + 1
            continue
        if c == "'":
            m = re.match(r"'(\\.|[^\\'])'", src[i:])
            if m:
                i += len(m.group(0))
                continue
        if c == open_:
            depth += 1
        elif c == close:
            depth -= 1
            if depth == 0:
                return i + 1
        i += 1
    raise TranslateError("unbalanced brackets")


def fn_body(src, name):
    m = re.search(r"\bfn\s+%s\s*(<[^>]*>)?\s*\(" % re.escape(name), src)
    if not m:
        raise TranslateError("function `%s` not found" % name)
    i = src.index("{", match_brace(src, m.end() - 1, "(", ")") - 1)
    j = match_brace(src, i)
    return src[i + 1:j - 1]


ESC = {"n": 10, "r": 13, "t": 9, "\\": 92, "'": 39, '"': 34, "0": 0}


def rust_char(lit):
    """code point of a Rust char literal such as 'a' or '\\n'"""
    body = lit[1:-1]
    if body.startswith("\\"):
        if body[1] in ESC:
            return ESC[body[1]]
        raise TranslateError("unknown char escape " + lit)
    return ord(body)


def coq_text(s):
    return "[" + "; ".join(str(ord(c)) for c in s) + "]"


def tkname(n):
    if n not in TOKEN_KINDS:
        return "(UnknownTk %s)" % n   # makes Generated.v fail to compile: a new token kind needs a model update
    return "T" + n


# ---------------------------------------------------------------- lexer tables

def lexer_tables(notes):
    tok = strip_comments(read("lexer/token.rs"))
    lx = strip_comments(read("lexer/lexer.rs"))
    out = []

    # keywords
    body = fn_body(tok, "get_keywords_hashmap")
    kws = re.findall(r'"([^"]*)"\s*=>\s*(\w+)', body)
    if not kws:
        raise TranslateError("keyword table not recognised")
    out.append("Definition keywords : list (text * tk) := [\n  " +
               ";\n  ".join("(%s, %s)" % (coq_text(k), tkname(v)) for k, v in kws) + "].\n")

    st = fn_body(lx, "scan_token")
    # single-character tokens: 'c' => self.add_token(Kind),
    singles = re.findall(r"('(?:\\.|[^\\'])')\s*=>\s*self\.add_token\((\w+)\)\s*,", st)
    out.append("Definition single_char_tokens : list (N * tk) := [" +
               "; ".join("(%d, %s)" % (rust_char(c), tkname(k)) for c, k in singles) + "].\n")

    # compound tokens: arms '!' '=' '<' '>' : which second characters give which token, and the fallback
    comp = []
    for ch in ["!", "=", "<", ">"]:
        m = re.search(r"'%s'\s*=>\s*\{" % re.escape(ch), st)
        if not m:
            notes.append("scan_token has no arm for %r" % ch)
            continue
        arm = st[m.end() - 1:match_brace(st, m.end() - 1)]
        alts = re.findall(r"self\.char_match\(('(?:\\.|[^\\'])')\)\s*\{\s*(?:self\.add_token\()?(\w+)\)?", arm)
        fb = None
        if "return Err" not in arm:
            m2 = re.search(r"else\s*\{\s*(\w+)\s*\}\s*;", arm)
            fb = m2.group(1) if m2 else "UnknownFallback"
        comp.append("(%d, ([%s], %s))" % (ord(ch), "; ".join("(%d, %s)" % (rust_char(c), tkname(k)) for c, k in alts),
                                         "Some " + tkname(fb) if fb else "None"))
    out.append("Definition compound_tokens : list (N * (list (N * tk) * option tk)) := [\n  " + ";\n  ".join(comp) + "].\n")

    # blanks: ' ' | '\r' | '\t' => { /* nop */ }
    m = re.search(r"((?:'(?:\\.|[^\\'])'\s*\|\s*)*'(?:\\.|[^\\'])')\s*=>\s*\{\s*\}", st)
    if not m:
        raise TranslateError("blank-character arm of scan_token not recognised")
    blanks = re.findall(r"'(?:\\.|[^\\'])'", m.group(1))
    out.append("Definition blank_chars : list N := [" + "; ".join(str(rust_char(c)) for c in blanks) + "].\n")

    # implicit-terminator set: match prev.token_type { A | B ... => { self.add_token(SoftSemi) } ... }
    m = re.search(r"match\s+prev\.token_type\s*\{", st)
    if not m:
        raise TranslateError("newline rule (match prev.token_type) not found")
    arm = st[m.end():match_brace(st, m.end() - 1) - 1]
    m2 = re.search(r"^([\w\s|]+?)=>\s*\{\s*self\.add_token\(SoftSemi\)", arm.strip(), re.S)
    if not m2:
        raise TranslateError("newline rule: terminator arm not recognised")
    ends = [x.strip() for x in m2.group(1).split("|") if x.strip()]
    out.append("Definition end_set : list tk := [" + "; ".join(tkname(k) for k in ends) + "].\n")

    # string escapes: 'n' => { result.push('\n');
    sb = fn_body(lx, "string")
    escs = re.findall(r"('(?:\\.|[^\\'])')\s*=>\s*\{\s*result\.push\(('(?:\\.|[^\\'])')\)", sb)
    out.append("Definition escapes : list (N * N) := [" +
               "; ".join("(%d, %d)" % (rust_char(a), rust_char(b)) for a, b in escs) + "].\n")
    return "".join(out)


# ---------------------------------------------------------------- parser tables

LEVELS = {"assignment": "LvAssignment", "or": "LvOr", "and": "LvAnd", "equality": "LvEquality", "comparison": "LvComparison",
          "addition": "LvAddition", "multiplication": "LvMultiplication", "unary": "LvUnary", "access": "LvAccess",
          "primary": "LvPrimary", "expression": "LvAssignment"}
BINOPS = {"EqualEqual": "BEqualEqual", "NotEqual": "BNotEqual", "Less": "BLess", "LessEqual": "BLessEqual", "Greater": "BGreater",
          "GreaterEqual": "BGreaterEqual", "Plus": "BPlus", "Minus": "BMinus", "Star": "BStar", "Slash": "BSlash", "Modulo": "BModulo"}


def lv(name):
    return LEVELS.get(name, "(LvUnknown_%s)" % name)


def token_list(text):
    """the token kinds of `match_token(&A)` / `match_tokens(&[A, B])`"""
    m = re.search(r"match_tokens\(&\[([^\]]*)\]\)", text)
    if m:
        return [x.strip() for x in m.group(1).split(",") if x.strip()]
    m = re.search(r"match_token\(&(\w+)\)", text)
    if m:
        return [m.group(1)]
    raise TranslateError("operator tokens not recognised in: " + text[:80])


def parser_tables(notes):
    ps = strip_comments(read("parser/parser.rs"))
    tok = strip_comments(read("lexer/token.rs"))
    out = []
    rungs = []
    for fn in ["or", "and", "equality", "comparison", "addition", "multiplication"]:
        b = fn_body(ps, fn)
        m1 = re.search(r"let\s+mut\s+expr\s*=\s*self\.(\w+)\(\)\?", b)
        m2 = re.search(r"while\s+(self\.match_tokens?\([^)]*\))\s*\{", b)
        m3 = re.search(r"let\s+right\s*=\s*self\.(\w+)\(\)\?", b)
        if not (m1 and m2 and m3):
            raise TranslateError("ladder function `%s` not recognised" % fn)
        ml = re.search(r"operator:\s*LogicalOp::(\w+)", b)
        if ml:
            mk = "MkLog L" + ml.group(1)
        elif "to_binary_op" in b and "Expr::Binary" in b:
            mk = "MkBin"
        else:
            mk = "MkUnknown"
        # the operands of the node must be (left: expr-so-far, right: right)
        if re.search(r"left:\s*right|right:\s*expr\b|right:\s*left", b):
            mk = "MkSwapped"
        rungs.append("(%s, mkRung [%s] %s %s (%s))" % (lv(fn), "; ".join(tkname(t) for t in token_list(m2.group(1))),
                                                      lv(m1.group(1)), lv(m3.group(1)), mk))
    out.append("Definition ladder : list (level * rung) := [\n  " + ";\n  ".join(rungs) + "].\n")

    b = fn_body(ps, "unary")
    m2 = re.search(r"if\s+(self\.match_tokens?\([^)]*\))\s*\{", b)
    m3 = re.search(r"let\s+right\s*=\s*self\.(\w+)\(\)\?", b)
    m4 = re.search(r"else\s*\{\s*self\.(\w+)\(\)\s*\}", b)
    if not (m2 and m3 and m4):
        raise TranslateError("`unary` not recognised")
    out.append("Definition unary_ops : list tk := [%s].\nDefinition unary_operand : level := %s.\nDefinition unary_else : level := %s.\n" % (
        "; ".join(tkname(t) for t in token_list(m2.group(1))), lv(m3.group(1)), lv(m4.group(1))))

    b = fn_body(ps, "assignment")
    m1 = re.search(r"let\s+expr\s*=\s*self\.(\w+)\(\)\?", b)
    m3 = re.search(r"let\s+value\s*=\s*self\.(\w+)\(\)\?", b)
    b2 = fn_body(ps, "expression")
    m5 = re.search(r"self\.(\w+)\(\)", b2)
    b3 = fn_body(ps, "access")
    m6 = re.search(r"let\s+mut\s+expr\s*=\s*self\.(\w+)\(\)\?", b3)
    if not (m1 and m3 and m5 and m6):
        raise TranslateError("`assignment`/`expression`/`access` not recognised")
    out.append("Definition assignment_first : level := %s.\nDefinition assignment_value : level := %s.\n"
               "Definition expression_entry : level := %s.\nDefinition access_first : level := %s.\n" % (
                   lv(m1.group(1)), lv(m3.group(1)), lv(m5.group(1)), lv(m6.group(1))))

    b = fn_body(tok, "to_binary_op")
    pairs = re.findall(r"TokenType::(\w+)\s*=>\s*Ok\(BinaryOp::(\w+)\)", b)
    out.append("Definition binop_of_token : list (tk * binop) := [" + "; ".join(
        "(%s, %s)" % (tkname(a), BINOPS.get(c, "BUnknown_" + c)) for a, c in pairs) + "].\n")
    b = fn_body(tok, "to_unary_op")
    pairs = re.findall(r"TokenType::(\w+)\s*=>\s*Ok\(UnaryOp::(\w+)\)", b)
    out.append("Definition unop_of_token : list (tk * unop) := [" + "; ".join(
        "(%s, U%s)" % (tkname(a), c) for a, c in pairs) + "].\n")

    b = fn_body(ps, "synchronize")
    m = re.search(r"match\s+self\.peek\(\)\.token_type\s*\{\s*([\w\s|]+?)=>", b)
    if not m:
        raise TranslateError("`synchronize` keyword set not recognised")
    out.append("Definition sync_set : list tk := [" + "; ".join(tkname(x.strip()) for x in m.group(1).split("|") if x.strip()) + "].\n")
    adv = len(re.findall(r"self\.advance\(\)", b))
    out.append("Definition sync_advances_first : bool := %s.\n" % ("true" if re.match(r"\s*self\.advance\(\)\s*;", b) else "false"))
    return "".join(out)


# ---------------------------------------------------------------- interpreter tables

def split_arms(body):
    """split the body of a `match` into (pattern, guard, expression) triples"""
    arms = []
    i = 0
    n = len(body)
    while i < n:
        while i < n and body[i] in " \t\r\n,":
            i += 1
        if i >= n:
            break
        # pattern up to '=>' at depth 0
        depth = 0
        j = i
        while j < n:
            c = body[j]
            if c in "([{":
                depth += 1
            elif c in ")]}":
                depth -= 1
            elif depth == 0 and body.startswith("=>", j):
                break
            j += 1
        pat = body[i:j].strip()
        j += 2
        while j < n and body[j] in " \t\r\n":
            j += 1
        if j < n and body[j] == "{":
            k = match_brace(body, j)
            expr = body[j:k]
        else:
            depth = 0
            k = j
            while k < n:
                c = body[k]
                if c == '"':
                    k += 1
                    while k < n and body[k] != '"':
                        k += 2 if body[k] == "\\" else 1
                elif c in "([{":
                    depth += 1
                elif c in ")]}":
                    depth -= 1
                elif c == "," and depth == 0:
                    break
                k += 1
            expr = body[j:k]
        guard = None
        m = re.match(r"(.*?)\s+if\s+(.*)$", pat, re.S)
        if m:
            pat, guard = m.group(1).strip(), m.group(2).strip()
        arms.append((pat, guard, expr.strip()))
        i = k
    return arms


def squash(t):
    return re.sub(r"\s+", "", t)


def vpat(p):
    """(kind, bound variable) of a value pattern"""
    p = p.strip().replace("Value::", "")
    if p == "_":
        return "PAny", None
    m = re.match(r"(Number|String|List|Bool|NativeObject|NativeFunction|Function)\((.*)\)$", p)
    if m:
        k = {"Number": "PNum", "String": "PStr", "List": "PList", "Bool": "PBool", "NativeObject": "PObj",
             "NativeFunction": "PNever", "Function": "PNever"}[m.group(1)]
        return k, m.group(2).strip()
    if p == "Null":
        return "PNull", None
    if re.match(r"^[a-z_]\w*$", p):
        return "PAny", p
    return "PUnknownPattern", None


def coq_str(s):
    return '"' + s.replace('"', '""') + '"%string'


def err_message(raw):
    m = re.search(r'message:\s*"([^"]*)"\s*\.to_string\(\)', raw)
    return m.group(1) if m else None


def interp_tables(notes):
    it = strip_comments(read("interpreter/interpreter.rs"))
    out = []
    # ---- binary
    b = fn_body(it, "binary")
    m = re.search(r"match\s*\(&lhs,\s*&node\.operator,\s*&rhs\)\s*\{", b)
    if not m:
        raise TranslateError("`binary`: operator match not found")
    if not re.search(r"let\s+lhs\s*=\s*self\.expr\(&node\.left\)\?;\s*let\s+rhs\s*=\s*self\.expr\(&node\.right\)\?;", b):
        notes.append("binary: operand evaluation prologue not recognised")
        out.append("Definition binary_evaluates_left_then_right : bool := false.\n")
    else:
        out.append("Definition binary_evaluates_left_then_right : bool := true.\n")
    arms = split_arms(b[m.end():match_brace(b, m.end() - 1) - 1])
    rows = []
    for pat, guard, expr in arms:
        sq = squash(expr)
        if pat.strip() == "_":
            lp, op, rp, lv_, rv_ = "PAny", "None", "PAny", None, None
        else:
            inner = pat.strip()[1:-1]
            parts = [x.strip() for x in re.split(r",\s*(?![^()]*\))", inner)]
            if len(parts) != 3:
                rows.append("mkBArm PAny None PAny AUnknown")
                continue
            (lp, lv_), (rp, rv_) = vpat(parts[0]), vpat(parts[2])
            op = "None" if parts[1] == "_" else "(Some %s)" % BINOPS.get(parts[1], "BUnknown_" + parts[1])
        ab = (lv_ == "a" and rv_ == "b")
        act = "AUnknown"
        if guard:
            act = "AUnknown"
        elif sq == "Ok(Bool(Self::equals(&lhs,&rhs)))":
            act = "AEq"
        elif sq == "Ok(Bool(!Self::equals(&lhs,&rhs)))":
            act = "ANeq"
        elif ab and re.fullmatch(r"Ok\(Bool\(a(<=|>=|<|>)b\)\)", sq):
            act = "ACmp " + {"<": "CLt", "<=": "CLe", ">": "CGt", ">=": "CGe"}[re.fullmatch(r"Ok\(Bool\(a(<=|>=|<|>)b\)\)", sq).group(1)]
        elif ab and re.fullmatch(r"Ok\(Number\(a([+\-*])b\)\)", sq):
            act = "AArith " + {"+": "OAdd", "-": "OSub", "*": "OMul"}[re.fullmatch(r"Ok\(Number\(a([+\-*])b\)\)", sq).group(1)]
        elif ab and re.fullmatch(r"\{if\*b!=0\.0\{Ok\(Number\(a([/%])b\)\)\}else\{Err\(RuntimeError\{.*span:node\.token\.span,.*\}\)\}\}", sq):
            o = re.fullmatch(r"\{if\*b!=0\.0\{Ok\(Number\(a([/%])b\)\)\}else.*", sq).group(1)
            act = "AGuarded %s %s" % ("ODiv" if o == "/" else "OMod", coq_str(err_message(expr) or "?"))
        elif ab and sq == 'Ok(String(format!("{a}{b}")))':
            act = "AConcat"
        elif ab and "a.borrow().iter().cloned().chain(b.borrow().iter().cloned()).collect()" in sq and \
                sq.endswith("Ok(List(RefCell::new(new_list).into()))}"):
            act = "AListConcat"
        elif re.fullmatch(r"Err\(RuntimeError\{.*span:node\.token\.span,.*\}\)", sq) and err_message(expr):
            act = "AErr " + coq_str(err_message(expr))
        rows.append("mkBArm %s %s %s (%s)" % (lp, op, rp, act))
    out.append("Definition binop_arms : list barm := [\n  " + ";\n  ".join(rows) + "].\n")

    # ---- unary
    b = fn_body(it, "unary")
    m = re.search(r"match\s*\(&node\.operator,\s*value\)\s*\{", b)
    if not m:
        raise TranslateError("`unary`: operator match not found")
    rows = []
    for pat, guard, expr in split_arms(b[m.end():match_brace(b, m.end() - 1) - 1]):
        sq = squash(expr)
        inner = pat.strip()[1:-1]
        parts = [x.strip() for x in re.split(r",\s*(?![^()]*\))", inner)]
        op = {"Minus": "(Some UMinus)", "Not": "(Some UNot)"}.get(parts[0], "None")
        vp, var = vpat(parts[1])
        if vp == "PNever":
            continue
        act = "UUnknown"
        if var and sq == "Ok(Number(-%s))" % var:
            act = "UNeg"
        elif var and sq == "Ok(Bool(!Self::is_truthy(&%s)))" % var:
            act = "UNot_"
        elif re.fullmatch(r"Err\(RuntimeError\{.*span:node\.token\.span,.*\}\)", sq) and err_message(expr):
            act = "UErr " + coq_str(err_message(expr))
        rows.append("mkUArm %s %s (%s)" % (op, vp, act))
    out.append("Definition unop_arms : list uarm := [\n  " + ";\n  ".join(rows) + "].\n")

    # ---- equals
    b = fn_body(it, "equals")
    m = re.search(r"match\s*\(lhs,\s*rhs\)\s*\{", b)
    rows = []
    for pat, guard, expr in split_arms(b[m.end():match_brace(b, m.end() - 1) - 1]):
        sq = squash(expr)
        inner = pat.strip()[1:-1]
        parts = [x.strip() for x in re.split(r",\s*(?![^()]*\))", inner)]
        (lp, lv_), (rp, rv_) = vpat(parts[0]), vpat(parts[1])
        act = "QUnknown"
        if lv_ and rv_ and sq == "(%s-%s).abs()<f64::EPSILON" % (lv_, rv_):
            act = "QEps"
        elif lv_ and rv_ and sq == "%s==%s" % (lv_, rv_):
            act = "QSame"
        elif sq == "true":
            act = "QTrue"
        elif sq == "false":
            act = "QFalse"
        rows.append("mkQArm %s %s (%s)" % (lp, rp, act))
    out.append("Definition equals_arms : list qarm := [" + "; ".join(rows) + "].\n")

    # ---- truthiness
    b = fn_body(it, "is_truthy")
    m = re.search(r"match\s+value\s*\{", b)
    rows = []
    for pat, guard, expr in split_arms(b[m.end():match_brace(b, m.end() - 1) - 1]):
        sq = squash(expr)
        vp, var = vpat(pat)
        act = "YUnknown"
        if guard is None and var and sq == "*" + var and vp == "PBool":
            act = "YBoolValue"
        elif guard is not None and var and squash(guard) == "*%s==0.0" % var and sq == "false":
            act = "YZeroFalse"
        elif guard is None and sq in ("true", "false"):
            act = "YConst " + sq
        rows.append("mkYArm %s (%s)" % (vp, act))
    out.append("Definition truthy_arms : list yarm := [" + "; ".join(rows) + "].\n")
    return "".join(out)


KINDS = {None: "KAny", "Number": "KNum", "String": "KStr", "Bool": "KBool", "List": "KList", "Null": "KNull"}


def stdlib_tables(notes):
    mod = strip_comments(read("standard_library/mod.rs"))
    out = []
    regs = re.findall(r'self\.register\("(\w+)",\s*([\w:]+)\)', fn_body(mod, "inject"))
    files = {}
    libdir = os.path.join(SRC, "standard_library")
    for fn in sorted(os.listdir(libdir)):
        if fn.endswith(".rs"):
            files[fn] = strip_comments(open(os.path.join(libdir, fn), encoding="utf-8").read())
    sigs = []
    bodies = {}
    registry = []
    for name, inj in regs:
        fnname = inj.split("::")[-1]
        src = None
        for fn, text in files.items():
            if re.search(r"\bfn\s+%s\s*\(" % fnname, text):
                src = text
                break
        if src is None:
            raise TranslateError("injector %s of module %s not found" % (inj, name))
        registry.append(name)
        body = fn_body(src, fnname)
        for m in re.finditer(r"std_function!\(\s*functions\s*=>\s*fn\s+(\w+)\s*(?:\[\w+\])?\s*\(", body):
            j = match_brace(body, m.end() - 1, "(", ")")
            params = body[m.end():j - 1]
            kinds = []
            for p in [x.strip() for x in params.split(",") if x.strip()]:
                pm = re.match(r"\w+\s*:\s*Value(?:\s*::\s*(\w+))?(?:\s*<\s*(\w+)\s*>)?$", p)
                if not pm:
                    kinds.append("KUnknown")
                elif pm.group(1) == "NativeObject":
                    kinds.append("(KObj %s)" % {"ApLangMap": "OMap", "Robot": "ORobot"}.get(pm.group(2), "OUnknown_" + str(pm.group(2))))
                else:
                    kinds.append(KINDS.get(pm.group(1), "KUnknown"))
            k = body.index("{", j)
            bodies[(name, m.group(1))] = body[k:match_brace(body, k)]
            sigs.append('(%s, %s, [%s])' % (coq_str(name), coq_str(m.group(1)), "; ".join(kinds)))
    out.append("Definition module_registry : list string := [" + "; ".join(coq_str(r) for r in registry) + "].\n")
    out.append("Definition std_sigs : list (string * string * list akind) := [\n  " + ";\n  ".join(sigs) + "].\n")
    it = strip_comments(read("interpreter/interpreter.rs"))
    pre = re.findall(r'modules\.lookup\("(\w+)"\)\.unwrap\(\)\(\)', fn_body(it, "new"))
    out.append("Definition preloaded : list string := [" + "; ".join(coq_str(x) for x in pre) + "].\n")

    # MATH bodies
    rows = []
    for (mname, fname), btxt in bodies.items():
        if mname != "MATH":
            continue
        sq = squash(btxt)
        m = re.search(r"fn\s+%s\s*\(([^)]*)\)" % fname, files["math.rs"])
        params = [x.split(":")[0].strip() for x in m.group(1).split(",") if x.strip()] if m else []
        f = "MUnknown"
        args = []
        m1 = re.fullmatch(r"\{letresult=f64::(\w+)\(([\w,]*)\);returnOk\(Value::Number\(result\)\);\}", sq)
        m2 = re.fullmatch(r"\{letresult=(\w+)\.max\((\w+)\)\.min\((\w+)\);returnOk\(Value::Number\(result\)\);\}", sq)
        m3 = re.fullmatch(r"\{returnOk\(Value::Number\(std::f64::consts::(\w+)\)\);\}", sq)
        if m1:
            f = "MFn " + coq_str(m1.group(1))
            args = [params.index(a) if a in params else 99 for a in m1.group(2).split(",") if a]
        elif m2:
            f = "MClamp"
            args = [params.index(a) if a in params else 99 for a in m2.groups()]
        elif m3:
            f = "MConst " + coq_str(m3.group(1))
        rows.append("(%s, (%s), [%s])" % (coq_str(fname), f, "; ".join("%d%%nat" % a for a in args)))
    out.append("Definition math_bodies : list (string * mathfn * list nat) := [\n  " + ";\n  ".join(rows) + "].\n")

    # STYLE table
    st = bodies.get(("STYLE", "STYLE"), "")
    pairs = re.findall(r'"(\w+)"\s*=>\s*"((?:\\x1b|\\u\{1b\})\[[0-9;]*m)"', st)
    out.append("Definition style_table : list (string * string) := [" + "; ".join(
        "(%s, %s)" % (coq_str(a), coq_str(re.sub(r"^\\x1b|^\\u\{1b\}", "", b))) for a, b in pairs) + "].\n")
    return "".join(out)


OUTPUT_MACROS = ["println!", "print!", "eprintln!", "eprint!", "dbg!", "display!", "display_error!"]


def output_sites(notes):
    """every occurrence of an output macro / std stream handle in src/, with file and enclosing fn"""
    rows = []
    for root, _, fs in os.walk(SRC):
        for fn in sorted(fs):
            if not fn.endswith(".rs"):
                continue
            rel = os.path.relpath(os.path.join(root, fn), SRC)
            text = strip_comments(open(os.path.join(root, fn), encoding="utf-8").read())
            # drop string literals so that text inside messages does not count
            plain = re.sub(r'"(?:\\.|[^"\\])*"', '""', text)
            for m in re.finditer(r"(?<![\w!])(println!|print!|eprintln!|eprint!|dbg!|display!|display_error!|io::stdout\(\)|io::stderr\(\)|std::io::stdout\(\)|std::io::stderr\(\))", plain):
                head = plain[:m.start()]
                # skip the macro_rules! definitions themselves
                line = head[head.rfind("\n") + 1:]
                if "macro_rules!" in line:
                    continue
                fns = re.findall(r"\bfn\s+(\w+)", head)
                test = bool(re.search(r"#\[(cfg\(test\)|test)\]", head[max(0, head.rfind("\nfn ")):])) or rel.endswith("tests.rs")
                rows.append((rel, fns[-1] if fns else "-", m.group(1).replace("std::", ""), test))
    out = "Definition output_sites : list (string * string * string * bool) := [\n  " + ";\n  ".join(
        "(%s, %s, %s, %s)" % (coq_str(a), coq_str(b), coq_str(c), "true" if t else "false") for a, b, c, t in rows) + "].\n"
    return out


def regenerate():
    notes = []
    parts = ["(** GENERATED by /verif/vlib/translate.py from /repo/src on every check run. Do not edit. *)\n",
             "From Aplang Require Import Base Token Ast.\nOpen Scope N_scope.\n\n"]
    parts.append("(* ---- lexer tables: src/lexer/token.rs, src/lexer/lexer.rs *)\n")
    parts.append(lexer_tables(notes))
    parts.append("\n(* ---- parser tables: src/parser/parser.rs, src/lexer/token.rs *)\n")
    parts.append(parser_tables(notes))
    parts.append("\n(* ---- interpreter tables: src/interpreter/interpreter.rs *)\n")
    parts.append("From Aplang Require Import Tables.\n")
    parts.append(interp_tables(notes))
    parts.append("\n(* ---- library tables: src/standard_library/*.rs *)\n")
    parts.append(stdlib_tables(notes))
    parts.append("\n(* ---- every output statement of src/ *)\n")
    parts.append(output_sites(notes))
    text = "".join(parts)
    os.makedirs(os.path.dirname(OUT), exist_ok=True)
    old = open(OUT).read() if os.path.exists(OUT) else None
    if old != text:
        with open(OUT, "w") as f:
            f.write(text)
        notes.append("Generated.v changed")
    return notes


if __name__ == "__main__":
    print(regenerate())
    print(open(OUT).read())
