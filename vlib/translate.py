"""Translator: regenerates coq/theories/Gen/Generated.v from /repo's current sources.

The tabular parts of the code are re-extracted on every run (anchored on item names,
not line numbers).  Anything unrecognised becomes an `Unknown` entry (or makes the
generated file fail to compile), never a silently smaller table."""
import os
import re

from vlib import common as C

OUT = os.path.join(C.COQ, "theories", "Gen", "Generated.v")
SRC = os.path.join(C.REPO, "src")

TOKEN_KINDS = """SoftSemi LeftParen RightParen LeftBracket RightBracket LeftBrace RightBrace Comma Dot Minus Plus Slash
Star Arrow EqualEqual BangEqual Greater GreaterEqual Less LessEqual Identifier Number StringLiteral Mod If Else Repeat
Times Until For Each Continue Break In Procedure Return Not And Or True False Null Import Export From Eof""".split()


class TranslateError(Exception):
    pass


def read(rel):
    p = os.path.join(SRC, rel)
    if not os.path.exists(p):
        raise TranslateError("source file missing: src/" + rel)
    return open(p, encoding="utf-8").read()


def strip_comments(src):
    """remove // and /* */ comments, keeping string and char literals intact"""
    out = []
    i = 0
    n = len(src)
    while i < n:
        c = src[i]
        if src.startswith("//", i):
            while i < n and src[i] != "\n":
                i += 1
            continue
        if src.startswith("/*", i):
            j = src.find("*/", i + 2)
            i = n if j < 0 else j + 2
            continue
        if c == '"':
            j = i + 1
            while j < n and src[j] != '"':
                j += 2 if src[j] == "\\" else 1
            out.append(src[i:j + 1])
            i = j + 1
            continue
        if c == "'":
            m = re.match(r"'(\\.|[^\\'])'", src[i:])
            if m:
                out.append(m.group(0))
                i += len(m.group(0))
                continue
        out.append(c)
        i += 1
    return "".join(out)


def match_brace(src, i, open_="{", close="}"):
    """src[i] is the opening bracket; returns the index just after the matching close"""
    depth = 0
    n = len(src)
    while i < n:
        c = src[i]
        if c == '"':
            j = i + 1
            while j < n and src[j] != '"':
                j += 2 if src[j] == "\\" else 1
            i = j + 1
            continue
        if c == "'":
            m = re.match(r"'(\\.|[^\\'])'", src[i:])
            if m:
                i += len(m.group(0))
                continue
        if c == open_:
            depth += 1
        elif c == close:
            depth -= 1
            if depth == 0:
                return i + 1
        i += 1
    raise TranslateError("unbalanced brackets")


def fn_body(src, name):
    m = re.search(r"\bfn\s+%s\s*(<[^>]*>)?\s*\(" % re.escape(name), src)
    if not m:
        raise TranslateError("function `%s` not found" % name)
    i = src.index("{", match_brace(src, m.end() - 1, "(", ")") - 1)
    j = match_brace(src, i)
    return src[i + 1:j - 1]


ESC = {"n": 10, "r": 13, "t": 9, "\\": 92, "'": 39, '"': 34, "0": 0}


def rust_char(lit):
    """code point of a Rust char literal such as 'a' or '\\n'"""
    body = lit[1:-1]
    if body.startswith("\\"):
        if body[1] in ESC:
            return ESC[body[1]]
        raise TranslateError("unknown char escape " + lit)
    return ord(body)


def coq_text(s):
    return "[" + "; ".join(str(ord(c)) for c in s) + "]"


def tkname(n):
    if n not in TOKEN_KINDS:
        return "(UnknownTk %s)" % n   # makes Generated.v fail to compile: a new token kind needs a model update
    return "T" + n


# ---------------------------------------------------------------- lexer tables

def lexer_tables(notes):
    tok = strip_comments(read("lexer/token.rs"))
    lx = strip_comments(read("lexer/lexer.rs"))
    out = []

    # keywords
    body = fn_body(tok, "get_keywords_hashmap")
    kws = re.findall(r'"([^"]*)"\s*=>\s*(\w+)', body)
    if not kws:
        raise TranslateError("keyword table not recognised")
    out.append("Definition keywords : list (text * tk) := [\n  " +
               ";\n  ".join("(%s, %s)" % (coq_text(k), tkname(v)) for k, v in kws) + "].\n")

    st = fn_body(lx, "scan_token")
    # single-character tokens: 'c' => self.add_token(Kind),
    singles = re.findall(r"('(?:\\.|[^\\'])')\s*=>\s*self\.add_token\((\w+)\)\s*,", st)
    out.append("Definition single_char_tokens : list (N * tk) := [" +
               "; ".join("(%d, %s)" % (rust_char(c), tkname(k)) for c, k in singles) + "].\n")

    # compound tokens: arms '!' '=' '<' '>' : which second characters give which token, and the fallback
    comp = []
    for ch in ["!", "=", "<", ">"]:
        m = re.search(r"'%s'\s*=>\s*\{" % re.escape(ch), st)
        if not m:
            notes.append("scan_token has no arm for %r" % ch)
            continue
        arm = st[m.end() - 1:match_brace(st, m.end() - 1)]
        alts = re.findall(r"self\.char_match\(('(?:\\.|[^\\'])')\)\s*\{\s*(?:self\.add_token\()?(\w+)\)?", arm)
        fb = None
        if "return Err" not in arm:
            m2 = re.search(r"else\s*\{\s*(\w+)\s*\}\s*;", arm)
            fb = m2.group(1) if m2 else "UnknownFallback"
        comp.append("(%d, ([%s], %s))" % (ord(ch), "; ".join("(%d, %s)" % (rust_char(c), tkname(k)) for c, k in alts),
                                         "Some " + tkname(fb) if fb else "None"))
    out.append("Definition compound_tokens : list (N * (list (N * tk) * option tk)) := [\n  " + ";\n  ".join(comp) + "].\n")

    # blanks: ' ' | '\r' | '\t' => { /* nop */ }
    m = re.search(r"((?:'(?:\\.|[^\\'])'\s*\|\s*)*'(?:\\.|[^\\'])')\s*=>\s*\{\s*\}", st)
    if not m:
        raise TranslateError("blank-character arm of scan_token not recognised")
    blanks = re.findall(r"'(?:\\.|[^\\'])'", m.group(1))
    out.append("Definition blank_chars : list N := [" + "; ".join(str(rust_char(c)) for c in blanks) + "].\n")

    # implicit-terminator set: match prev.token_type { A | B ... => { self.add_token(SoftSemi) } ... }
    m = re.search(r"match\s+prev\.token_type\s*\{", st)
    if not m:
        raise TranslateError("newline rule (match prev.token_type) not found")
    arm = st[m.end():match_brace(st, m.end() - 1) - 1]
    m2 = re.search(r"^([\w\s|]+?)=>\s*\{\s*self\.add_token\(SoftSemi\)", arm.strip(), re.S)
    if not m2:
        raise TranslateError("newline rule: terminator arm not recognised")
    ends = [x.strip() for x in m2.group(1).split("|") if x.strip()]
    out.append("Definition end_set : list tk := [" + "; ".join(tkname(k) for k in ends) + "].\n")

    # string escapes: 'n' => { result.push('\n');
    sb = fn_body(lx, "string")
    escs = re.findall(r"('(?:\\.|[^\\'])')\s*=>\s*\{\s*result\.push\(('(?:\\.|[^\\'])')\)", sb)
    out.append("Definition escapes : list (N * N) := [" +
               "; ".join("(%d, %d)" % (rust_char(a), rust_char(b)) for a, b in escs) + "].\n")
    return "".join(out)


# ---------------------------------------------------------------- parser tables

LEVELS = {"assignment": "LvAssignment", "or": "LvOr", "and": "LvAnd", "equality": "LvEquality", "comparison": "LvComparison",
          "addition": "LvAddition", "multiplication": "LvMultiplication", "unary": "LvUnary", "access": "LvAccess",
          "primary": "LvPrimary", "expression": "LvAssignment"}
BINOPS = {"EqualEqual": "BEqualEqual", "NotEqual": "BNotEqual", "Less": "BLess", "LessEqual": "BLessEqual", "Greater": "BGreater",
          "GreaterEqual": "BGreaterEqual", "Plus": "BPlus", "Minus": "BMinus", "Star": "BStar", "Slash": "BSlash", "Modulo": "BModulo"}


def lv(name):
    return LEVELS.get(name, "(LvUnknown_%s)" % name)


def token_list(text):
    """the token kinds of `match_token(&A)` / `match_tokens(&[A, B])`"""
    m = re.search(r"match_tokens\(&\[([^\]]*)\]\)", text)
    if m:
        return [x.strip() for x in m.group(1).split(",") if x.strip()]
    m = re.search(r"match_token\(&(\w+)\)", text)
    if m:
        return [m.group(1)]
    raise TranslateError("operator tokens not recognised in: " + text[:80])


def parser_tables(notes):
    ps = strip_comments(read("parser/parser.rs"))
    tok = strip_comments(read("lexer/token.rs"))
    out = []
    rungs = []
    for fn in ["or", "and", "equality", "comparison", "addition", "multiplication"]:
        b = fn_body(ps, fn)
        m1 = re.search(r"let\s+mut\s+expr\s*=\s*self\.(\w+)\(\)\?", b)
        m2 = re.search(r"while\s+(self\.match_tokens?\([^)]*\))\s*\{", b)
        m3 = re.search(r"let\s+right\s*=\s*self\.(\w+)\(\)\?", b)
        if not (m1 and m2 and m3):
            raise TranslateError("ladder function `%s` not recognised" % fn)
        ml = re.search(r"operator:\s*LogicalOp::(\w+)", b)
        if ml:
            mk = "MkLog L" + ml.group(1)
        elif "to_binary_op" in b and "Expr::Binary" in b:
            mk = "MkBin"
        else:
            mk = "MkUnknown"
        # the operands of the node must be (left: expr-so-far, right: right)
        if re.search(r"left:\s*right|right:\s*expr\b|right:\s*left", b):
            mk = "MkSwapped"
        rungs.append("(%s, mkRung [%s] %s %s (%s))" % (lv(fn), "; ".join(tkname(t) for t in token_list(m2.group(1))),
                                                      lv(m1.group(1)), lv(m3.group(1)), mk))
    out.append("Definition ladder : list (level * rung) := [\n  " + ";\n  ".join(rungs) + "].\n")

    b = fn_body(ps, "unary")
    m2 = re.search(r"if\s+(self\.match_tokens?\([^)]*\))\s*\{", b)
    m3 = re.search(r"let\s+right\s*=\s*self\.(\w+)\(\)\?", b)
    m4 = re.search(r"else\s*\{\s*self\.(\w+)\(\)\s*\}", b)
    if not (m2 and m3 and m4):
        raise TranslateError("`unary` not recognised")
    out.append("Definition unary_ops : list tk := [%s].\nDefinition unary_operand : level := %s.\nDefinition unary_else : level := %s.\n" % (
        "; ".join(tkname(t) for t in token_list(m2.group(1))), lv(m3.group(1)), lv(m4.group(1))))

    b = fn_body(ps, "assignment")
    m1 = re.search(r"let\s+expr\s*=\s*self\.(\w+)\(\)\?", b)
    m3 = re.search(r"let\s+value\s*=\s*self\.(\w+)\(\)\?", b)
    b2 = fn_body(ps, "expression")
    m5 = re.search(r"self\.(\w+)\(\)", b2)
    b3 = fn_body(ps, "access")
    m6 = re.search(r"let\s+mut\s+expr\s*=\s*self\.(\w+)\(\)\?", b3)
    if not (m1 and m3 and m5 and m6):
        raise TranslateError("`assignment`/`expression`/`access` not recognised")
    out.append("Definition assignment_first : level := %s.\nDefinition assignment_value : level := %s.\n"
               "Definition expression_entry : level := %s.\nDefinition access_first : level := %s.\n" % (
                   lv(m1.group(1)), lv(m3.group(1)), lv(m5.group(1)), lv(m6.group(1))))

    b = fn_body(tok, "to_binary_op")
    pairs = re.findall(r"TokenType::(\w+)\s*=>\s*Ok\(BinaryOp::(\w+)\)", b)
    out.append("Definition binop_of_token : list (tk * binop) := [" + "; ".join(
        "(%s, %s)" % (tkname(a), BINOPS.get(c, "BUnknown_" + c)) for a, c in pairs) + "].\n")
    b = fn_body(tok, "to_unary_op")
    pairs = re.findall(r"TokenType::(\w+)\s*=>\s*Ok\(UnaryOp::(\w+)\)", b)
    out.append("Definition unop_of_token : list (tk * unop) := [" + "; ".join(
        "(%s, U%s)" % (tkname(a), c) for a, c in pairs) + "].\n")

    b = fn_body(ps, "synchronize")
    m = re.search(r"match\s+self\.peek\(\)\.token_type\s*\{\s*([\w\s|]+?)=>", b)
    if not m:
        raise TranslateError("`synchronize` keyword set not recognised")
    out.append("Definition sync_set : list tk := [" + "; ".join(tkname(x.strip()) for x in m.group(1).split("|") if x.strip()) + "].\n")
    adv = len(re.findall(r"self\.advance\(\)", b))
    out.append("Definition sync_advances_first : bool := %s.\n" % ("true" if re.match(r"\s*self\.advance\(\)\s*;", b) else "false"))
    return "".join(out)


def regenerate():
    notes = []
    parts = ["(** GENERATED by /verif/vlib/translate.py from /repo/src on every check run. Do not edit. *)\n",
             "From Aplang Require Import Base Token Ast.\nOpen Scope N_scope.\n\n"]
    parts.append("(* ---- lexer tables: src/lexer/token.rs, src/lexer/lexer.rs *)\n")
    parts.append(lexer_tables(notes))
    parts.append("\n(* ---- parser tables: src/parser/parser.rs, src/lexer/token.rs *)\n")
    parts.append(parser_tables(notes))
    text = "".join(parts)
    os.makedirs(os.path.dirname(OUT), exist_ok=True)
    old = open(OUT).read() if os.path.exists(OUT) else None
    if old != text:
        with open(OUT, "w") as f:
            f.write(text)
        notes.append("Generated.v changed")
    return notes


if __name__ == "__main__":
    print(regenerate())
    print(open(OUT).read())
