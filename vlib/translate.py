"""Translator: regenerates coq/theories/Gen/Generated.v from /repo's current sources."""
import os
import re

from vlib import common as C

OUT = os.path.join(C.COQ, "theories", "Gen", "Generated.v")


def regenerate():
    notes = []
    return notes
