"""Generators of source texts and the Python reference predicates of the lexical properties."""
import glob
import itertools
import os
import struct

ALNUM_EXTRA = [233, 201, 955, 923, 223, 20013, 1635, 241, 252, 1078, 12354, 178, 189, 170, 181, 186, 8544, 65313]
NON_ALNUM_EXTRA = [0x1F600, 0x20AC, 0xA0, 0x2028, 0xB7, 0x2014, 0x3000, 0xD7]   # emoji euro nbsp LS middot emdash ideographic-space times

# one representative (at least) of every lexical class
LEX_ALPHABET = ["a", "E", "0", "7", "_", ".", '"', "\\", "/", "\n", "\r", " ", "\t", ";", ",", "(", ")", "[", "]", "{", "}",
                "+", "-", "*", "<", ">", "=", "!", "n", "é", "中", "😀", " ", "#"]

KEYWORDS = ["mod", "if", "else", "repeat", "times", "until", "for", "each", "continue", "break", "in", "procedure",
            "return", "not", "and", "or", "true", "false", "null", "import", "export", "from"]


def is_alnum(ch):
    o = ord(ch)
    if o < 128:
        return ch.isalnum()
    return o in ALNUM_EXTRA


def lexical_error(s):
    """the property's definition: does the string contain a lexical error?
    (a character outside the language, a lone '=' or '!', an unknown escape, an unterminated
    string, a backslash not followed by a newline)"""
    i = 0
    n = len(s)
    while i < n:
        c = s[i]
        if c == '"':
            i += 1
            while True:
                if i >= n:
                    return True            # unterminated
                if s[i] == '"':
                    i += 1
                    break
                if s[i] == "\\":
                    if i + 1 >= n or s[i + 1] not in 'nrt\\"':
                        return True        # unknown escape
                    i += 2
                else:
                    i += 1
            continue
        if c == "/" and i + 1 < n and s[i + 1] == "/":
            while i < n and s[i] != "\n":
                i += 1
            continue
        if c == "\\":
            if i + 1 < n and s[i + 1] == "\n":
                i += 2
                continue
            return True
        if c in "!=":
            if i + 1 < n and s[i + 1] == "=":
                i += 2
                continue
            return True
        if c == "<":
            i += 2 if (i + 1 < n and s[i + 1] in "=-") else 1
            continue
        if c == ">":
            i += 2 if (i + 1 < n and s[i + 1] == "=") else 1
            continue
        if c in "()[]{},.-+*;/ \r\t\n":
            i += 1
            continue
        if c.isdigit() and ord(c) < 128:
            while i < n and s[i].isdigit() and ord(s[i]) < 128:
                i += 1
            if i + 1 < n and s[i] == "." and s[i + 1].isdigit() and ord(s[i + 1]) < 128:
                i += 1
                while i < n and s[i].isdigit() and ord(s[i]) < 128:
                    i += 1
            continue
        if is_alnum(c):
            while i < n and (is_alnum(s[i]) or s[i] == "_"):
                i += 1
            continue
        return True
    return False


def unescape(body):
    out = []
    i = 0
    m = {"n": "\n", "r": "\r", "t": "\t", "\\": "\\", '"': '"'}
    while i < len(body):
        if body[i] == "\\" and i + 1 < len(body):
            out.append(m.get(body[i + 1], "?"))
            i += 2
        else:
            out.append(body[i])
            i += 1
    return "".join(out)


def parse_tokens(line):
    """harness 'OK ...' line -> list of (kind, off, len, lexeme bytes, literal)"""
    toks = []
    for f in line.split(" ")[1:]:
        kind, off, ln, lexh, lit = f.split(":")
        toks.append((kind, int(off), int(ln), bytes.fromhex(lexh), lit))
    return toks


def spans_ok(src, toks):
    """C07's span clause checked on the implementation's tokens; returns None or a description"""
    b = src.encode("utf-8")
    boundaries = set()
    pos = 0
    for ch in src:
        boundaries.add(pos)
        pos += len(ch.encode("utf-8"))
    boundaries.add(pos)
    if not toks or toks[-1][0] != "Eof":
        return "token sequence does not end with the end-of-input marker"
    if sum(1 for t in toks if t[0] == "Eof") != 1:
        return "more than one end-of-input marker"
    prev_end = 0
    for (kind, off, ln, lex, lit) in toks[:-1]:
        if off < prev_end:
            return "token ranges overlap or decrease at offset %d" % off
        if off not in boundaries or off + ln not in boundaries:
            return "token range %d+%d is not on character boundaries" % (off, ln)
        if ln == 0:
            return "empty token range at %d" % off
        if b[off:off + ln] != lex:
            return "range %d+%d does not reproduce the token text %r" % (off, ln, lex)
        prev_end = off + ln
        if kind == "Number":
            want = struct.unpack(">Q", struct.pack(">d", float(lex.decode())))[0]
            if lit != "N%016x" % want:
                return "number literal %r is not the nearest double" % lex
        if kind == "StringLiteral":
            want = unescape(lex.decode("utf-8")[1:-1]).encode("utf-8").hex()
            if lit != "S" + want:
                return "string literal %r not decoded as the escapes define" % lex
    kind, off, ln, lex, lit = toks[-1]
    if ln != 0 or off > len(b) or off not in boundaries:
        return "end-of-input marker range %d+%d is not an empty range inside the source" % (off, ln)
    return None


def exhaustive(alphabet, maxlen):
    for n in range(0, maxlen + 1):
        for t in itertools.product(alphabet, repeat=n):
            yield "".join(t)


WEIGHTED = (["a", "b", "x", "E", "T", "0", "1", "7", "_", ".", '"', '"', "\\", "/", "\n", "\n", "\r", " ", " ", "\t", ";", ",",
             "(", ")", "[", "]", "{", "}", "+", "-", "*", "<", ">", "=", "!", "n", "r", "t", "é", "λ", "中", "😀", " ",
             "#", "ß", "٣", "€", "'", "%", "@", " "])


def random_string(rng, maxlen):
    n = rng.randint(0, maxlen)
    return "".join(rng.choice(WEIGHTED) for _ in range(n))


def random_tokenish(rng, ntok):
    """token-structured text with random trivia between tokens"""
    out = []
    for _ in range(ntok):
        k = rng.random()
        if k < 0.2:
            w = rng.choice(KEYWORDS)
            out.append(w.upper() if rng.random() < 0.6 else w)
        elif k < 0.4:
            out.append(rng.choice(["x", "y1", "foo_bar", "é", "λx", "a_", "i", "DISPLAY", "中中"]))
        elif k < 0.55:
            out.append(rng.choice(["0", "1", "42", "3.14", "0.5", "10.", "007", "1.2.3", "9999999999999999999999", "0.1"]))
        elif k < 0.7:
            body = "".join(rng.choice(['a', ' ', '\\n', '\\t', '\\\\', '\\"', 'é', '😀', '\n', '//', '{}', '\\q', '\\'])
                           for _ in range(rng.randint(0, 5)))
            out.append('"' + body + ('"' if rng.random() < 0.9 else ""))
        else:
            out.append(rng.choice(["(", ")", "[", "]", "{", "}", ",", ".", "-", "+", "/", "*", ";", "<-", "==", "!=", ">", ">=",
                                   "<", "<=", "=", "!", "<-", "<-"]))
        t = rng.random()
        if t < 0.5:
            out.append(" ")
        elif t < 0.65:
            out.append("\n")
        elif t < 0.7:
            out.append("// cé " + rng.choice(["", "\"", "\\"]) + "\n")
        elif t < 0.75:
            out.append("\\\n")
        elif t < 0.8:
            out.append("\r\n")
        elif t < 0.85:
            out.append("\t")
    return "".join(out)


def example_programs():
    out = []
    for p in sorted(glob.glob("/repo/examples.ap/*.ap")):
        try:
            out.append(open(p, encoding="utf-8").read())
        except Exception:
            pass
    return out


def mutate(rng, s):
    if not s:
        return s
    k = rng.random()
    i = rng.randrange(len(s))
    if k < 0.3:
        return s[:i] + s[i + 1:]
    if k < 0.6:
        return s[:i] + rng.choice(WEIGHTED) + s[i:]
    if k < 0.8:
        return s[:i] + rng.choice(WEIGHTED) + s[i + 1:]
    if k < 0.9:
        return s[:i]
    j = rng.randrange(len(s))
    a, b = min(i, j), max(i, j)
    return s[:a] + s[b:a:-1] + s[b:] if b > a else s
