(** ShowProofs: the number printer / reader round trip (Props/C15b): [show_total],
    [show_shortest], [show_parse_roundtrip].

    Pure Z / Q proofs: no reals, no Flocq, nothing classical.  The only assumptions are two
    statements of the standard library's specification of primitive floats (Coq.Floats):
    [Prim2SF_valid] and [Prim2SF_SF2Prim], used only by [show_parse_roundtrip].

    Part I   (text): [dec] / [layout] / [strip_zeros] against [digits_val] / [parse_f64]
    Part II  (binary_round): a dyadic number inside the rounding interval of a valid binary64
             (m, e) is rounded to (m, e) by [SpecFloat.binary_round]
    Part III (rationals): [cmp_scaled] / [div_scaled] / [in_interval] / [floor_log10] as facts about
             rationals a * 10^p, b * 2^q; the digit search; [dec_to_sf]; the theorems. *)
From Aplang Require Import Base FloatX StrLib.
From Coq Require Import Lia.

(** * Part I: text *)
Open Scope N_scope.

(** * digits_val *)

Lemma digits_val_app : forall l1 l2 a, digits_val (l1 ++ l2) a = digits_val l2 (digits_val l1 a).
Proof. induction l1 as [|c l1 IH]; intros l2 a; simpl; auto. Qed.

Lemma repeat_text_length c n : length (repeat_text c n) = n.
Proof. induction n; simpl; auto. Qed.

Lemma zeros_length k : length (zeros k) = Z.to_nat k.
Proof. apply repeat_text_length. Qed.

Lemma digits_val_repeat0 : forall n a, digits_val (repeat_text 48 n) a = a * 10 ^ N.of_nat n.
Proof.
  induction n as [|n IH]; intro a.
  - simpl. lia.
  - change (repeat_text 48 (S n)) with (48 :: repeat_text 48 n).
    change (digits_val (48 :: repeat_text 48 n) a) with (digits_val (repeat_text 48 n) (a * 10 + (48 - 48))).
    rewrite IH, Nat2N.inj_succ, N.pow_succ_r'. change (48 - 48) with 0. lia.
Qed.

Lemma digits_val_zeros : forall k a, digits_val (zeros k) a = (a * 10 ^ Z.to_N k)%N.
Proof.
  intros k a. unfold zeros. rewrite digits_val_repeat0.
  replace (N.of_nat (Z.to_nat k)) with (Z.to_N k) by lia. reflexivity.
Qed.

(** * digits *)

Lemma isdig_iff c : isdig c = true <-> 48 <= c <= 57.
Proof.
  unfold isdig. rewrite andb_true_iff, !N.leb_le. tauto.
Qed.

Lemma isdig_cases c : isdig c = true ->
  c = 48 \/ c = 49 \/ c = 50 \/ c = 51 \/ c = 52 \/ c = 53 \/ c = 54 \/ c = 55 \/ c = 56 \/ c = 57.
Proof. rewrite isdig_iff. lia. Qed.

Lemma repeat0_all_digits n : Forall (fun c => isdig c = true) (repeat_text 48 n).
Proof. induction n; simpl; constructor; auto. Qed.

Lemma zeros_all_digits k : Forall (fun c => isdig c = true) (zeros k).
Proof. apply repeat0_all_digits. Qed.

(** * dec *)

Lemma dec_digits_spec : forall f n acc, (0 < f)%nat -> n < 10 ^ N.of_nat f ->
  exists l, dec_digits f n acc = l ++ acc
    /\ Forall (fun c => isdig c = true) l
    /\ l <> []
    /\ (forall a, digits_val l a = a * 10 ^ N.of_nat (length l) + n)
    /\ n < 10 ^ N.of_nat (length l)
    /\ (0 < n -> 10 ^ (N.of_nat (length l) - 1) <= n).
Proof.
  induction f as [|f IH]; intros n acc Hf Hn; [lia|].
  change (dec_digits (S f) n acc) with
    (if n <? 10 then (48 + n mod 10) :: acc else dec_digits f (n / 10) ((48 + n mod 10) :: acc)).
  assert (Hm : n mod 10 < 10) by (apply N.mod_lt; lia).
  assert (Hd : n = 10 * (n / 10) + n mod 10) by (apply N.div_mod; lia).
  destruct (n <? 10) eqn:E.
  - apply N.ltb_lt in E.
    clear Hm Hd. rewrite N.mod_small by assumption.
    exists [48 + n]. split; [reflexivity|].
    split; [constructor; [apply isdig_iff; lia|constructor]|].
    split; [discriminate|].
    change (N.of_nat (length [48 + n])) with 1.
    change (10 ^ 1) with 10. change (10 ^ (1 - 1)) with 1.
    split; [intro a; change (digits_val [48 + n] a) with (a * 10 + (48 + n - 48)); lia|].
    split; lia.
  - apply N.ltb_ge in E.
    rewrite Nat2N.inj_succ, N.pow_succ_r' in Hn.
    remember (n / 10) as q eqn:Hq0. remember (n mod 10) as r eqn:Hr0. clear Hq0 Hr0.
    assert (Hq : q < 10 ^ N.of_nat f) by lia.
    assert (Hq1 : 1 <= q) by lia.
    assert (Hf' : (0 < f)%nat).
    { destruct f; [simpl in Hq; lia|lia]. }
    destruct (IH (q) ((48 + r) :: acc) Hf' Hq) as (l & E1 & E2 & E3 & E4 & E5 & E6).
    exists (l ++ [48 + r]).
    split; [rewrite E1, <- app_assoc; reflexivity|].
    split.
    { apply Forall_app. split; [assumption|]. constructor; [apply isdig_iff; lia|constructor]. }
    split; [destruct l; discriminate|].
    assert (HL : N.of_nat (length (l ++ [48 + r])) = N.succ (N.of_nat (length l))).
    { rewrite app_length. simpl. lia. }
    rewrite HL, N.pow_succ_r'.
    assert (Hl1 : 1 <= N.of_nat (length l)).
    { destruct l; [congruence|simpl; lia]. }
    split.
    { intro a. rewrite digits_val_app, E4.
      generalize (10 ^ N.of_nat (length l)). intro P.
      change (digits_val [48 + r] (a * P + q)) with ((a * P + q) * 10 + (48 + r - 48)).
      replace (48 + r - 48) with r by lia. lia. }
    split.
    { revert E5. generalize (10 ^ N.of_nat (length l)). intros P E5. lia. }
    intros _.
    replace (N.succ (N.of_nat (length l)) - 1) with (N.succ (N.of_nat (length l) - 1)) by lia.
    rewrite N.pow_succ_r'.
    assert (H6 := E6 ltac:(lia)). revert H6.
    generalize (10 ^ (N.of_nat (length l) - 1)). intros Q H6. lia.
Qed.

Lemma dec_fuel_ok n : n < 10 ^ N.of_nat (S (N.to_nat (N.log2 n))).
Proof.
  rewrite Nat2N.inj_succ, N2Nat.id.
  destruct (N.eq_dec n 0) as [->|Hn]; [reflexivity|].
  assert (H := N.log2_spec n ltac:(lia)).
  assert (H2 : 2 ^ N.succ (N.log2 n) <= 10 ^ N.succ (N.log2 n)) by (apply N.pow_le_mono_l; lia).
  lia.
Qed.

Lemma dec_spec n :
  Forall (fun c => isdig c = true) (dec n)
  /\ dec n <> []
  /\ (forall a, digits_val (dec n) a = a * 10 ^ N.of_nat (length (dec n)) + n)
  /\ n < 10 ^ N.of_nat (length (dec n))
  /\ (0 < n -> 10 ^ (N.of_nat (length (dec n)) - 1) <= n).
Proof.
  unfold dec.
  destruct (dec_digits_spec (S (N.to_nat (N.log2 n))) n [] ltac:(lia) (dec_fuel_ok n))
    as (l & E1 & E2 & E3 & E4 & E5 & E6).
  rewrite app_nil_r in E1. rewrite E1. repeat split; assumption.
Qed.

Lemma dec_nonempty : forall n, dec n <> [].
Proof. intro n. apply (dec_spec n). Qed.

Lemma dec_length_bounds : forall n : N, (0 < n)%N ->
  (10 ^ (N.of_nat (length (dec n)) - 1) <= n < 10 ^ N.of_nat (length (dec n)))%N.
Proof.
  intros n Hn. destruct (dec_spec n) as (_ & _ & _ & H1 & H2). split; auto.
Qed.

Lemma dec_all_digits : forall n, Forall (fun c => isdig c = true) (dec n).
Proof. intro n. apply (dec_spec n). Qed.

Lemma digits_val_dec_acc : forall n a, digits_val (dec n) a = a * 10 ^ N.of_nat (length (dec n)) + n.
Proof. intro n. apply (dec_spec n). Qed.

Lemma digits_val_dec : forall n, digits_val (dec n) 0 = n.
Proof. intro n. rewrite digits_val_dec_acc. lia. Qed.

(** * take_digits *)

Lemma take_digits_all : forall l, Forall (fun c => isdig c = true) l -> take_digits l = (l, []).
Proof.
  induction l as [|c l IH]; intro H; [reflexivity|].
  inversion H as [|? ? Hc Hl]; subst. simpl. rewrite Hc, (IH Hl). reflexivity.
Qed.

Lemma take_digits_app : forall l c r, Forall (fun c => isdig c = true) l -> isdig c = false ->
  take_digits (l ++ c :: r) = (l, c :: r).
Proof.
  induction l as [|x l IH]; intros c r H Hc.
  - simpl. rewrite Hc. reflexivity.
  - inversion H as [|? ? Hx Hl]; subst. simpl. rewrite Hx, (IH c r Hl Hc). reflexivity.
Qed.

(** * parse_f64 on  [-] digits [. digits] *)

Local Opaque dec_to_float.

(* the part of [parse_f64] after the sign and the inf/nan spellings *)
Definition parse_num (neg : bool) (body : text) : option float :=
    let '(ip, r1) := take_digits body in
    let '(fp, r2) := match r1 with 46 :: r => take_digits r | _ => ([], r1) end in
    let dot := match r1 with 46 :: _ => true | _ => false end in
    match ip, fp with
    | [], [] => None
    | _, _ =>
      match r2 with
      | [] => Some (dec_to_float neg (digits_val (ip ++ fp) 0) (- Z.of_nat (length fp))%Z)
      | e :: r3 =>
        if (e =? 101) || (e =? 69) then
          let '(eneg, r4) := match r3 with 45 :: r => (true, r) | 43 :: r => (false, r) | _ => (false, r3) end in
          let '(ed, r5) := take_digits r4 in
          match ed, r5 with
          | _ :: _, [] =>
            let ev := Z.of_N (N.min (digits_val ed 0) 100000) in
            Some (dec_to_float neg (digits_val (ip ++ fp) 0) ((if eneg then - ev else ev) - Z.of_nat (length fp))%Z)
          | _, _ => None
          end
        else None
      end
    end.

Definition parse_body (neg : bool) (body : text) : option float :=
  let low := map ascii_lower body in
  if text_eqb low [105; 110; 102] || text_eqb low [105; 110; 102; 105; 110; 105; 116; 121] then
    Some (if neg then neg_infinity else infinity)
  else if text_eqb low [110; 97; 110] then Some nan
  else parse_num neg body.

Lemma parse_f64_neg body : parse_f64 (45 :: body) = parse_body true body.
Proof. reflexivity. Qed.

Lemma parse_f64_digit c r : isdig c = true -> parse_f64 (c :: r) = parse_body false (c :: r).
Proof.
  intro H. apply isdig_cases in H.
  repeat (destruct H as [->|H]; [reflexivity|]). subst c. reflexivity.
Qed.

Lemma parse_body_digit neg c r : isdig c = true -> parse_body neg (c :: r) = parse_num neg (c :: r).
Proof.
  intro H. apply isdig_cases in H.
  repeat (destruct H as [->|H]; [reflexivity|]). subst c. reflexivity.
Qed.

Lemma parse_signed (s : bool) c r : isdig c = true ->
  parse_f64 ((if s then [45] else []) ++ c :: r) = parse_num s (c :: r).
Proof.
  intro H. destruct s; simpl app.
  - rewrite parse_f64_neg. apply parse_body_digit, H.
  - rewrite parse_f64_digit by assumption. apply parse_body_digit, H.
Qed.

Lemma parse_num_int neg ip : ip <> [] -> Forall (fun c => isdig c = true) ip ->
  parse_num neg ip = Some (dec_to_float neg (digits_val ip 0) 0).
Proof.
  intros Hne Hip. unfold parse_num. rewrite (take_digits_all ip Hip).
  destruct ip as [|c ip']; [congruence|].
  rewrite app_nil_r. reflexivity.
Qed.

Lemma parse_num_frac neg ip fp : ip <> [] ->
  Forall (fun c => isdig c = true) ip -> Forall (fun c => isdig c = true) fp ->
  parse_num neg (ip ++ [46] ++ fp) =
  Some (dec_to_float neg (digits_val (ip ++ fp) 0) (- Z.of_nat (length fp))).
Proof.
  intros Hne Hip Hfp. unfold parse_num. simpl app.
  rewrite (take_digits_app ip 46 fp Hip eq_refl).
  rewrite (take_digits_all fp Hfp).
  destruct ip as [|c ip']; [congruence|]. reflexivity.
Qed.

Lemma parse_digits_int (s : bool) ip : ip <> [] -> Forall (fun c => isdig c = true) ip ->
  parse_f64 ((if s then [45] else []) ++ ip) = Some (dec_to_float s (digits_val ip 0) 0).
Proof.
  intros Hne Hip. destruct ip as [|c ip']; [congruence|].
  rewrite parse_signed by (inversion Hip; assumption).
  apply parse_num_int; assumption.
Qed.

Lemma parse_digits_frac (s : bool) ip fp : ip <> [] ->
  Forall (fun c => isdig c = true) ip -> Forall (fun c => isdig c = true) fp ->
  parse_f64 ((if s then [45] else []) ++ ip ++ [46] ++ fp) =
  Some (dec_to_float s (digits_val (ip ++ fp) 0) (- Z.of_nat (length fp))).
Proof.
  intros Hne Hip Hfp.
  rewrite <- (parse_num_frac s ip fp Hne Hip Hfp).
  destruct ip as [|c ip']; [congruence|].
  apply parse_signed. inversion Hip; assumption.
Qed.

(** * the main lemma *)

Lemma Forall_firstn {A} (P : A -> Prop) n l : Forall P l -> Forall P (firstn n l).
Proof.
  revert n; induction l as [|x l IH]; intros [|n] H; simpl; auto.
  inversion H; subst. constructor; auto.
Qed.

Lemma Forall_skipn {A} (P : A -> Prop) n l : Forall P l -> Forall P (skipn n l).
Proof.
  revert n; induction l as [|x l IH]; intros [|n] H; simpl; auto.
  inversion H; subst. auto.
Qed.

Lemma parse_layout : forall (s : bool) (d p : Z), (0 < d)%Z ->
  parse_f64 ((if s then [45%N] else []) ++ layout d p) =
  Some (if (0 <=? p)%Z then dec_to_float s (Z.to_N (d * 10 ^ p)) 0
        else dec_to_float s (Z.to_N d) p).
Proof.
  intros s d p Hd. unfold layout.
  set (ds := dec (Z.to_N d)).
  assert (Hds : Forall (fun c => isdig c = true) ds) by apply dec_all_digits.
  assert (Hne : ds <> []) by apply dec_nonempty.
  assert (Hv : digits_val ds 0 = Z.to_N d) by apply digits_val_dec.
  destruct (0 <=? p)%Z eqn:Ep.
  - apply Z.leb_le in Ep.
    rewrite parse_digits_int.
    + rewrite digits_val_app, Hv, digits_val_zeros.
      rewrite Z2N.inj_mul, Z2N.inj_pow by lia. reflexivity.
    + destruct ds; [congruence|discriminate].
    + apply Forall_app; split; [assumption|apply zeros_all_digits].
  - apply Z.leb_gt in Ep.
    destruct (0 <? Z.of_nat (length ds) + p)%Z eqn:Eq.
    + apply Z.ltb_lt in Eq.
      set (j := Z.to_nat (Z.of_nat (length ds) + p)).
      assert (Hj : (0 < j < length ds)%nat) by lia.
      rewrite parse_digits_frac.
      * rewrite firstn_skipn, Hv, skipn_length.
        replace (- Z.of_nat (length ds - j))%Z with p by lia. reflexivity.
      * intro H0. apply (f_equal (@length N)) in H0. rewrite firstn_length in H0. simpl in H0. lia.
      * apply Forall_firstn, Hds.
      * apply Forall_skipn, Hds.
    + apply Z.ltb_ge in Eq.
      change ([48; 46] ++ zeros (- (Z.of_nat (length ds) + p)) ++ ds)
        with ([48] ++ [46] ++ (zeros (- (Z.of_nat (length ds) + p)) ++ ds)).
      rewrite parse_digits_frac.
      * rewrite app_length, zeros_length.
        replace (- Z.of_nat (Z.to_nat (- (Z.of_nat (length ds) + p)) + length ds))%Z with p by lia.
        rewrite digits_val_app. simpl (digits_val [48] 0).
        rewrite digits_val_app, digits_val_zeros.
        rewrite N.mul_0_l, Hv. reflexivity.
      * discriminate.
      * constructor; [reflexivity|constructor].
      * apply Forall_app; split; [apply zeros_all_digits|assumption].
Qed.

(** * strip_zeros *)

Open Scope Z_scope.

Lemma strip_zeros_S fuel d p :
  strip_zeros (S fuel) d p =
  if (d mod 10 =? 0) && (0 <? d) then strip_zeros fuel (d / 10) (p + 1) else (d, p).
Proof. reflexivity. Qed.

Lemma strip_zeros_spec : forall fuel d p d' p', (0 < d)%Z -> strip_zeros fuel d p = (d', p') ->
  (0 < d')%Z /\ (p <= p')%Z /\ d = (d' * 10 ^ (p' - p))%Z.
Proof.
  induction fuel as [|f IH]; intros d p d' p' Hd H.
  - simpl in H. inversion H; subst. rewrite Z.sub_diag. simpl. lia.
  - rewrite strip_zeros_S in H.
    destruct ((d mod 10 =? 0) && (0 <? d)) eqn:E.
    + apply andb_true_iff in E as [E1 _]. apply Z.eqb_eq in E1.
      assert (Hdm : d = 10 * (d / 10) + d mod 10) by (apply Z.div_mod; lia).
      destruct (IH (d / 10) (p + 1) d' p' ltac:(lia) H) as (H1 & H2 & H3).
      split; [assumption|]. split; [lia|].
      replace (p' - p) with (Z.succ (p' - (p + 1))) by lia.
      rewrite Z.pow_succ_r by lia.
      set (Q := 10 ^ (p' - (p + 1))) in *. lia.
    + inversion H; subst. rewrite Z.sub_diag. simpl. lia.
Qed.

Lemma strip_zeros_full : forall fuel d p d' p', (0 < d)%Z -> (d < 10 ^ Z.of_nat fuel)%Z ->
  strip_zeros fuel d p = (d', p') -> (d' mod 10 <> 0)%Z.
Proof.
  induction fuel as [|f IH]; intros d p d' p' Hd Hlt H.
  - simpl in Hlt. lia.
  - rewrite strip_zeros_S in H.
    destruct ((d mod 10 =? 0) && (0 <? d)) eqn:E.
    + apply andb_true_iff in E as [E1 _]. apply Z.eqb_eq in E1.
      assert (Hdm : d = 10 * (d / 10) + d mod 10) by (apply Z.div_mod; lia).
      rewrite Nat2Z.inj_succ, Z.pow_succ_r in Hlt by lia.
      apply (IH (d / 10) (p + 1) d' p'); [lia|lia|assumption].
    + inversion H; subst.
      apply andb_false_iff in E as [E|E].
      * apply Z.eqb_neq in E. assumption.
      * apply Z.ltb_ge in E. lia.
Qed.

Transparent dec_to_float.
Close Scope Z_scope.
Close Scope N_scope.

(** * Part II: binary_round on the rounding interval *)
From Coq Require Import SpecFloat Lia ZArith Zpower Bool.
Open Scope Z_scope.
(** ** digits *)
Lemma digits2_pos_bounds : forall p,
  2 ^ (Zpos (digits2_pos p) - 1) <= Zpos p < 2 ^ (Zpos (digits2_pos p)).
Proof.
  induction p as [p IH|p IH|]; cbn [digits2_pos].
  - rewrite Pos2Z.inj_succ.
    replace (Z.succ (Zpos (digits2_pos p)) - 1) with (Z.succ (Zpos (digits2_pos p) - 1)) by lia.
    rewrite !Z.pow_succ_r by lia. lia.
  - rewrite Pos2Z.inj_succ.
    replace (Z.succ (Zpos (digits2_pos p)) - 1) with (Z.succ (Zpos (digits2_pos p) - 1)) by lia.
    rewrite !Z.pow_succ_r by lia. lia.
  - simpl. lia.
Qed.

Lemma digits2_pos_log2 : forall p, Zpos (digits2_pos p) = Z.log2 (Zpos p) + 1.
Proof.
  intros p. pose proof (digits2_pos_bounds p) as H.
  assert (Z.log2 (Zpos p) = Zpos (digits2_pos p) - 1); [|lia].
  apply Z.log2_unique; [lia|].
  replace (Z.succ (Zpos (digits2_pos p) - 1)) with (Zpos (digits2_pos p)) by lia. exact H.
Qed.

Lemma digits_unique : forall p d, 2 ^ (d - 1) <= Zpos p < 2 ^ d -> Zpos (digits2_pos p) = d.
Proof.
  intros p d H. rewrite digits2_pos_log2.
  assert (0 <= d - 1).
  { destruct (Z_lt_le_dec (d - 1) 0) as [Hn|Hn]; [|exact Hn].
    exfalso. destruct (Z_lt_le_dec d 0) as [Hd|Hd].
    - rewrite (Z.pow_neg_r 2 d Hd) in H. lia.
    - assert (d = 0) by lia. subst d. simpl in H. lia. }
  assert (Z.log2 (Zpos p) = d - 1); [|lia].
  apply Z.log2_unique; [assumption|].
  replace (Z.succ (d - 1)) with d by lia. exact H.
Qed.

(** ** validity *)
Lemma fexp_eq : forall x, fexp prec emax x = Z.max (x - 53) (-1074).
Proof. reflexivity. Qed.

Lemma valid_binary_canonical : forall s m e,
  valid_binary prec emax (S754_finite s m e) = true ->
  fexp prec emax (Zpos (digits2_pos m) + e) = e /\ e <= 971.
Proof.
  intros s m e H. unfold valid_binary, bounded, canonical_mantissa in H.
  apply andb_true_iff in H. destruct H as [H1 H2].
  apply Zeq_bool_eq in H1. apply Zle_bool_imp_le in H2.
  split; [exact H1|]. unfold prec, emax in H2. lia.
Qed.

Lemma valid_binary_bounds : forall s m e, valid_binary prec emax (S754_finite s m e) = true ->
  -1074 <= e <= 971 /\ Zpos m < 2 ^ 53 /\ (2 ^ 52 <= Zpos m \/ e = -1074).
Proof.
  intros s m e H. apply valid_binary_canonical in H. destruct H as [H1 H2].
  rewrite fexp_eq in H1.
  pose proof (digits2_pos_bounds m) as [Hlo Hhi].
  set (d := Zpos (digits2_pos m)) in *.
  assert (Hd : 1 <= d) by (unfold d; lia).
  split; [lia|]. split.
  - assert (d <= 53) by lia.
    eapply Z.lt_le_trans; [exact Hhi|]. apply Z.pow_le_mono_r; lia.
  - destruct (Z.eq_dec e (-1074)) as [He|He]; [right; exact He|left].
    assert (d = 53) by lia.
    replace 52 with (d - 1) by lia. exact Hlo.
Qed.

(** ** [shr]: iterated right shift with round and sticky bits *)
Lemma nat_iter_add : forall (A : Type) (f : A -> A) a b x,
  Nat.iter (a + b) f x = Nat.iter a f (Nat.iter b f x).
Proof.
  intros A f a b x. induction a as [|a IH]; [reflexivity|].
  change (Nat.iter (S a + b) f x) with (f (Nat.iter (a + b) f x)). rewrite IH. reflexivity.
Qed.

Lemma iter_pos_nat : forall (A : Type) (f : A -> A) p x,
  SpecFloat.iter_pos f p x = Nat.iter (Pos.to_nat p) f x.
Proof.
  intros A f. induction p as [p IH|p IH|]; intros x; cbn [SpecFloat.iter_pos].
  - rewrite !IH. rewrite Pos2Nat.inj_xI.
    replace (S (2 * Pos.to_nat p))%nat with (Pos.to_nat p + (Pos.to_nat p + 1))%nat by lia.
    rewrite !nat_iter_add. reflexivity.
  - rewrite !IH. rewrite Pos2Nat.inj_xO.
    replace (2 * Pos.to_nat p)%nat with (Pos.to_nat p + Pos.to_nat p)%nat by lia.
    rewrite nat_iter_add. reflexivity.
  - reflexivity.
Qed.

Lemma shr_1_nonneg_eq : forall m r s, 0 <= m ->
  shr_1 {| shr_m := m; shr_r := r; shr_s := s |} =
  {| shr_m := m / 2; shr_r := Z.odd m; shr_s := r || s |}.
Proof.
  intros m r s Hm. rewrite <- Z.div2_div.
  destruct m as [|[q|q|]|q]; try lia; reflexivity.
Qed.

Definition rbit (m k : Z) : bool := Z.odd (m / 2 ^ (k - 1)).
Definition sticky (m k : Z) : bool := negb (m mod 2 ^ (k - 1) =? 0).

Lemma sticky_succ : forall m k, 0 <= m -> 1 <= k ->
  sticky m (k + 1) = rbit m k || sticky m k.
Proof.
  intros m k Hm Hk. unfold sticky, rbit.
  replace (k + 1 - 1) with (Z.succ (k - 1)) by lia.
  rewrite Z.pow_succ_r by lia.
  set (h := 2 ^ (k - 1)).
  assert (Hh : 0 < h) by (apply Z.pow_pos_nonneg; lia).
  rewrite (Z.mul_comm 2 h).
  rewrite Z.rem_mul_r by lia.
  pose proof (Z.mod_pos_bound m h Hh) as Ht.
  rewrite Zmod_odd.
  destruct (Z.odd (m / h)); simpl.
  - destruct (m mod h + h * 1 =? 0) eqn:E; [apply Z.eqb_eq in E; nia|reflexivity].
  - rewrite Z.mul_0_r, Z.add_0_r. reflexivity.
Qed.

Lemma shr_iter_nat : forall m k, 0 <= m -> (1 <= k)%nat ->
  Nat.iter k shr_1 {| shr_m := m; shr_r := false; shr_s := false |} =
  {| shr_m := m / 2 ^ Z.of_nat k; shr_r := rbit m (Z.of_nat k); shr_s := sticky m (Z.of_nat k) |}.
Proof.
  intros m k Hm Hk. induction k as [|k IH]; [lia|].
  destruct k as [|k].
  - cbn [Nat.iter]. rewrite shr_1_nonneg_eq by exact Hm.
    unfold rbit, sticky. simpl (Z.of_nat 1). simpl (1 - 1). simpl (2 ^ 0). simpl (2 ^ 1).
    rewrite Z.div_1_r, Z.mod_1_r. reflexivity.
  - change (Nat.iter (S (S k)) shr_1 ?x) with (shr_1 (Nat.iter (S k) shr_1 x)).
    rewrite IH by lia.
    rewrite shr_1_nonneg_eq by (apply Z.div_pos; [lia|apply Z.pow_pos_nonneg; lia]).
    rewrite (Nat2Z.inj_succ (S k)).
    set (j := Z.of_nat (S k)). assert (Hj : 1 <= j) by (unfold j; lia).
    f_equal.
    + rewrite Z.pow_succ_r by lia. rewrite Z.div_div; [|apply Z.pow_nonzero; lia|lia].
      f_equal. lia.
    + unfold rbit. f_equal. f_equal. f_equal. lia.
    + replace (Z.succ j) with (j + 1) by lia. symmetry. apply sticky_succ; lia.
Qed.

Lemma shr_iter_pos : forall m p, 0 <= m ->
  SpecFloat.iter_pos shr_1 p {| shr_m := m; shr_r := false; shr_s := false |} =
  {| shr_m := m / 2 ^ Zpos p; shr_r := rbit m (Zpos p); shr_s := sticky m (Zpos p) |}.
Proof.
  intros m p Hm. rewrite iter_pos_nat, shr_iter_nat by lia.
  rewrite positive_nat_Z. reflexivity.
Qed.

(** the rounded mantissa, arithmetically *)
Definition rne (M n : Z) : Z :=
  let q := M / 2 ^ n in
  let r := M mod 2 ^ n in
  match 2 * r ?= 2 ^ n with
  | Lt => q
  | Gt => q + 1
  | Eq => if Z.even q then q else q + 1
  end.

Lemma rne_0 : forall M, rne M 0 = M.
Proof.
  intros M. unfold rne. simpl (2 ^ 0). rewrite Z.mod_1_r, Z.div_1_r. reflexivity.
Qed.

Lemma rne_shr : forall M p, 0 <= M ->
  let rec := SpecFloat.iter_pos shr_1 p {| shr_m := M; shr_r := false; shr_s := false |} in
  round_nearest_even (shr_m rec) (loc_of_shr_record rec) = rne M (Zpos p).
Proof.
  intros M p HM rec. unfold rec. rewrite shr_iter_pos by exact HM.
  cbn [shr_m]. unfold rne, rbit, sticky.
  set (n := Zpos p). assert (Hn : 1 <= n) by (unfold n; lia).
  replace (2 ^ n) with (2 ^ (n - 1) * 2)
    by (replace n with (Z.succ (n - 1)) at 2 by lia; rewrite Z.pow_succ_r by lia; lia).
  set (h := 2 ^ (n - 1)).
  assert (Hh : 0 < h) by (apply Z.pow_pos_nonneg; lia).
  rewrite (Z.rem_mul_r M h 2) by lia.
  pose proof (Z.mod_pos_bound M h Hh) as Ht.
  rewrite Zmod_odd.
  set (t := M mod h) in *. set (q := M / (h * 2)).
  destruct (Z.odd (M / h)); simpl negb.
  - destruct (t =? 0) eqn:E.
    + apply Z.eqb_eq in E. rewrite E. cbn [negb loc_of_shr_record round_nearest_even].
      replace (2 * (0 + h * 1) ?= h * 2) with Eq; [reflexivity|].
      symmetry. apply Z.compare_eq_iff. lia.
    + apply Z.eqb_neq in E. cbn [negb loc_of_shr_record round_nearest_even].
      replace (2 * (t + h * 1) ?= h * 2) with Gt; [reflexivity|].
      symmetry. apply Z.compare_gt_iff. lia.
  - replace (2 * (t + h * 0) ?= h * 2) with Lt by (symmetry; apply Z.compare_lt_iff; lia).
    destruct (t =? 0); reflexivity.
Qed.

(** ** the two stages of [binary_round_aux] *)
Lemma shr_fexp_first : forall M ez',
  ez' <= fexp prec emax (Zpos (digits2_pos M) + ez') ->
  exists rec, shr_fexp prec emax (Zpos M) ez' loc_Exact =
              (rec, fexp prec emax (Zpos (digits2_pos M) + ez')) /\
    round_nearest_even (shr_m rec) (loc_of_shr_record rec) =
    rne (Zpos M) (fexp prec emax (Zpos (digits2_pos M) + ez') - ez').
Proof.
  intros M ez'. set (e1 := fexp prec emax (Zpos (digits2_pos M) + ez')). intros Hle.
  unfold shr_fexp. cbn [Zdigits2 shr_record_of_loc]. fold e1.
  destruct (e1 - ez') as [|p|p] eqn:En.
  - eexists. split.
    + unfold shr. f_equal. lia.
    + cbn [shr_m loc_of_shr_record round_nearest_even]. rewrite rne_0. reflexivity.
  - eexists. split.
    + unfold shr. f_equal. lia.
    + apply rne_shr. lia.
  - lia.
Qed.

Lemma bra_plain : forall s M ez' p,
  ez' <= fexp prec emax (Zpos (digits2_pos M) + ez') ->
  rne (Zpos M) (fexp prec emax (Zpos (digits2_pos M) + ez') - ez') = Zpos p ->
  fexp prec emax (Zpos (digits2_pos p) + fexp prec emax (Zpos (digits2_pos M) + ez')) =
    fexp prec emax (Zpos (digits2_pos M) + ez') ->
  fexp prec emax (Zpos (digits2_pos M) + ez') <= 971 ->
  binary_round_aux prec emax s (Zpos M) ez' loc_Exact =
  S754_finite s p (fexp prec emax (Zpos (digits2_pos M) + ez')).
Proof.
  intros s M ez' p Hle Hr Hf Hmax.
  destruct (shr_fexp_first M ez' Hle) as (rec & E1 & E2).
  set (e1 := fexp prec emax (Zpos (digits2_pos M) + ez')) in *.
  unfold binary_round_aux. rewrite E1. rewrite E2, Hr.
  assert (Hs : shr_fexp prec emax (Zpos p) e1 loc_Exact =
               ({| shr_m := Zpos p; shr_r := false; shr_s := false |}, e1)).
  { unfold shr_fexp. cbn [Zdigits2 shr_record_of_loc]. rewrite Hf, Z.sub_diag. reflexivity. }
  rewrite Hs. cbn [shr_m].
  replace (Zle_bool e1 (emax - prec)) with true; [reflexivity|].
  symmetry. apply Zle_imp_le_bool. unfold emax, prec. lia.
Qed.

Lemma bra_carry : forall s M ez',
  ez' <= fexp prec emax (Zpos (digits2_pos M) + ez') ->
  rne (Zpos M) (fexp prec emax (Zpos (digits2_pos M) + ez') - ez') = 9007199254740992 ->
  fexp prec emax (Zpos (digits2_pos M) + ez') <= 970 ->
  binary_round_aux prec emax s (Zpos M) ez' loc_Exact =
  S754_finite s 4503599627370496 (fexp prec emax (Zpos (digits2_pos M) + ez') + 1).
Proof.
  intros s M ez' Hle Hr Hmax.
  destruct (shr_fexp_first M ez' Hle) as (rec & E1 & E2).
  set (e1 := fexp prec emax (Zpos (digits2_pos M) + ez')) in *.
  assert (He1 : -1074 <= e1) by (unfold e1; rewrite fexp_eq; lia).
  unfold binary_round_aux. rewrite E1. rewrite E2, Hr.
  assert (Hs : shr_fexp prec emax 9007199254740992 e1 loc_Exact =
               ({| shr_m := 4503599627370496; shr_r := false; shr_s := false |}, e1 + 1)).
  { unfold shr_fexp. cbn [Zdigits2 shr_record_of_loc].
    change (Zpos (digits2_pos 9007199254740992)) with 54.
    rewrite fexp_eq. replace (Z.max (54 + e1 - 53) (-1074) - e1) with 1 by lia.
    reflexivity. }
  rewrite Hs. cbn [shr_m].
  replace (Zle_bool (e1 + 1) (emax - prec)) with true; [reflexivity|].
  symmetry. apply Zle_imp_le_bool. unfold emax, prec. lia.
Qed.

(** ** [shl_align] *)
Lemma shl_align_spec : forall mx ex ex',
  exists M, shl_align mx ex ex' = (M, Z.min ex ex') /\
            Zpos M = Zpos mx * 2 ^ (ex - Z.min ex ex') /\
            Zpos (digits2_pos M) + Z.min ex ex' = Zpos (digits2_pos mx) + ex.
Proof.
  intros mx ex ex'. unfold shl_align.
  destruct (ex' - ex) as [|d|d] eqn:Ed.
  - exists mx. replace (Z.min ex ex') with ex by lia. rewrite Z.sub_diag. simpl (2 ^ 0).
    repeat split; lia.
  - exists mx. replace (Z.min ex ex') with ex by lia. rewrite Z.sub_diag. simpl (2 ^ 0).
    repeat split; lia.
  - exists (shift_pos d mx). replace (Z.min ex ex') with ex' by lia.
    split; [reflexivity|].
    assert (Hd : ex - ex' = Zpos d) by lia.
    split.
    + rewrite shift_pos_correct, Z.pow_pos_fold, Hd. lia.
    + assert (Hdig : digits2_pos (shift_pos d mx) = (digits2_pos mx + d)%positive).
      { unfold shift_pos. clear Ed Hd.
        induction d as [|d IHd] using Pos.peano_ind.
        - simpl. lia.
        - rewrite Pos.iter_succ. simpl. rewrite IHd. lia. }
      rewrite Hdig. lia.
Qed.

(** ** arithmetic of round-to-nearest-even *)
Lemma pow2_pos : forall a, 0 <= a -> 0 < 2 ^ a.
Proof. intros a Ha. apply Z.pow_pos_nonneg; lia. Qed.

Lemma pow2_add : forall a b, 0 <= a -> 0 <= b -> 2 ^ (a + b) = 2 ^ a * 2 ^ b.
Proof. intros a b Ha Hb. apply Z.pow_add_r; assumption. Qed.

Lemma mul_lt_cancel : forall a b P, 0 < P -> a * P < b * P -> a < b.
Proof. intros a b P HP H. apply Zmult_lt_reg_r with P; assumption. Qed.

Lemma mul_le_cancel : forall a b P, 0 < P -> a * P <= b * P -> a <= b.
Proof. intros a b P HP H. apply Zmult_le_reg_r with P; [lia|assumption]. Qed.

Lemma rne_mid : forall M n m, 0 <= n -> 0 <= M ->
  (2 * m - 1) * 2 ^ n <= 2 * M <= (2 * m + 1) * 2 ^ n ->
  (Z.even m = false -> (2 * m - 1) * 2 ^ n < 2 * M < (2 * m + 1) * 2 ^ n) ->
  rne M n = m.
Proof.
  intros M n m Hn HM Hc Ho. unfold rne.
  pose proof (pow2_pos n Hn) as HP. set (P := 2 ^ n) in *.
  pose proof (Z.div_mod M P ltac:(lia)) as Hdm.
  pose proof (Z.mod_pos_bound M P HP) as Hr.
  set (q := M / P) in *. set (r := M mod P) in *. clearbody q r P.
  destruct Hc as [Hc1 Hc2].
  destruct (2 * r ?= P) eqn:C.
  - assert (C' : 2 * r = P) by (apply Z.compare_eq_iff; exact C).
    assert (HM2 : 2 * M = (2 * q + 1) * P) by lia.
    rewrite HM2 in Hc1, Hc2.
    apply mul_le_cancel in Hc1; [|exact HP]. apply mul_le_cancel in Hc2; [|exact HP].
    destruct (Z.even m) eqn:Em.
    + assert (Hcase : q = m \/ q = m - 1) by lia.
      destruct Hcase as [->| ->].
      * rewrite Em. reflexivity.
      * replace (m - 1) with (Z.pred m) by lia. rewrite Z.even_pred, <- Z.negb_even, Em.
        simpl. lia.
    + specialize (Ho eq_refl). exfalso. rewrite HM2 in Ho. destruct Ho as [Ho1 Ho2].
      apply mul_lt_cancel in Ho1; [|exact HP]. apply mul_lt_cancel in Ho2; [|exact HP]. lia.
  - assert (C' : 2 * r < P) by (apply Z.compare_lt_iff; exact C).
    assert (H1 : (2 * m - 1) * P < (2 * q + 1) * P) by lia.
    assert (H2 : (2 * q) * P <= (2 * m + 1) * P) by lia.
    apply mul_lt_cancel in H1; [|exact HP]. apply mul_le_cancel in H2; [|exact HP]. lia.
  - assert (C' : P < 2 * r) by (apply Z.compare_gt_iff; exact C).
    assert (H1 : (2 * m - 1) * P < (2 * q + 2) * P) by lia.
    assert (H2 : (2 * q + 1) * P < (2 * m + 1) * P) by lia.
    apply mul_lt_cancel in H1; [|exact HP]. apply mul_lt_cancel in H2; [|exact HP]. lia.
Qed.

(** ** dyadic comparisons over a common base exponent [g] *)
Lemma mag_upper : forall XI K a b j, 0 <= a -> 0 <= b -> 0 <= j ->
  2 ^ a <= XI -> XI <= K * 2 ^ b -> K < 2 ^ j -> a < j + b.
Proof.
  intros XI K a b j Ha Hb Hj H1 H2 H3.
  pose proof (pow2_pos b Hb) as HT.
  assert (H : 2 ^ a < 2 ^ (j + b)).
  { rewrite pow2_add by assumption.
    apply Z.le_lt_trans with (K * 2 ^ b); [lia|].
    apply Zmult_lt_compat_r; assumption. }
  apply Z.pow_lt_mono_r_iff in H; lia.
Qed.

Lemma mag_lower : forall XI K a b j, 0 <= a -> 0 <= b -> 0 <= j ->
  XI < 2 ^ a -> K * 2 ^ b <= XI -> 2 ^ j <= K -> j + b < a.
Proof.
  intros XI K a b j Ha Hb Hj H1 H2 H3.
  pose proof (pow2_pos b Hb) as HT.
  assert (H : 2 ^ (j + b) < 2 ^ a).
  { rewrite pow2_add by assumption.
    apply Z.le_lt_trans with (K * 2 ^ b); [|lia].
    apply Zmult_le_compat_r; lia. }
  apply Z.pow_lt_mono_r_iff in H; lia.
Qed.

(** moving an inequality between [K * 2^t] and [mz * 2^ez] to the scale of the aligned mantissa *)
Lemma rescale : forall mz ez g t e1 K, g <= ez -> g <= t -> t <= e1 ->
  let ez' := Z.min ez e1 in
  let M := mz * 2 ^ (ez - ez') in
  let P := 2 ^ (e1 - ez') in
  let S := 2 ^ (e1 - t) in
  (K * 2 ^ (t - g) <= mz * 2 ^ (ez - g) -> K * P <= M * S) /\
  (K * 2 ^ (t - g) < mz * 2 ^ (ez - g) -> K * P < M * S) /\
  (mz * 2 ^ (ez - g) <= K * 2 ^ (t - g) -> M * S <= K * P) /\
  (mz * 2 ^ (ez - g) < K * 2 ^ (t - g) -> M * S < K * P).
Proof.
  intros mz ez g t e1 K Hg1 Hg2 Ht ez' M P S.
  assert (Hez' : g <= ez' <= ez /\ ez' <= e1) by (unfold ez'; lia).
  set (U := 2 ^ (ez' - g)).
  assert (HU : 0 < U) by (apply pow2_pos; lia).
  assert (HS : 0 < S) by (apply pow2_pos; lia).
  assert (E1 : mz * 2 ^ (ez - g) * S = M * S * U).
  { unfold M, U. replace (ez - g) with ((ez - ez') + (ez' - g)) by lia.
    rewrite pow2_add by lia. ring. }
  assert (E2 : K * 2 ^ (t - g) * S = K * P * U).
  { unfold P, U, S.
    rewrite <- !Z.mul_assoc, <- !pow2_add by lia. do 2 f_equal. lia. }
  repeat split; intros H.
  - apply mul_le_cancel with U; [exact HU|]. rewrite <- E1, <- E2.
    apply Zmult_le_compat_r; lia.
  - apply mul_lt_cancel with U; [exact HU|]. rewrite <- E1, <- E2.
    apply Zmult_lt_compat_r; lia.
  - apply mul_le_cancel with U; [exact HU|]. rewrite <- E1, <- E2.
    apply Zmult_le_compat_r; lia.
  - apply mul_lt_cancel with U; [exact HU|]. rewrite <- E1, <- E2.
    apply Zmult_lt_compat_r; lia.
Qed.

(** ** the rounding interval *)
Definition dy_in_interval (m e mz ez : Z) : Prop :=
  let c := Z.min ez (e - 2) in
  let A := mz * 2 ^ (ez - c) in
  let lo4 := if (m =? 4503599627370496) && (-1074 <? e) then 4 * m - 1 else 4 * m - 2 in
  let hi4 := 4 * m + 2 in
  let L := lo4 * 2 ^ (e - 2 - c) in
  let H := hi4 * 2 ^ (e - 2 - c) in
  if Z.even m then L <= A <= H else L < A < H.

Lemma interval_base : forall m e mz ez g, g <= ez -> g <= e - 2 ->
  dy_in_interval m e mz ez ->
  let lo4 := if (m =? 4503599627370496) && (-1074 <? e) then 4 * m - 1 else 4 * m - 2 in
  let T := 2 ^ (e - 2 - g) in
  let XI := mz * 2 ^ (ez - g) in
  (lo4 * T <= XI <= (4 * m + 2) * T) /\
  (Z.even m = false -> lo4 * T < XI < (4 * m + 2) * T).
Proof.
  intros m e mz ez g Hg1 Hg2 Hin lo4 T XI.
  unfold dy_in_interval in Hin. fold lo4 in Hin.
  set (c := Z.min ez (e - 2)) in *.
  assert (Hc : g <= c /\ c <= ez /\ c <= e - 2) by (unfold c; lia).
  set (K := 2 ^ (c - g)).
  assert (HK : 0 < K) by (apply pow2_pos; lia).
  assert (ET : T = 2 ^ (e - 2 - c) * K).
  { unfold T, K. rewrite <- pow2_add by lia. f_equal. lia. }
  assert (EX : XI = mz * 2 ^ (ez - c) * K).
  { unfold XI, K. rewrite <- Z.mul_assoc, <- pow2_add by lia. do 2 f_equal. lia. }
  rewrite ET, EX. rewrite !Z.mul_assoc.
  destruct (Z.even m).
  - destruct Hin as [H1 H2]. split; [|discriminate].
    split; apply Zmult_le_compat_r; lia.
  - destruct Hin as [H1 H2].
    assert (lo4 * 2 ^ (e - 2 - c) * K < mz * 2 ^ (ez - c) * K <
            (4 * m + 2) * 2 ^ (e - 2 - c) * K).
    { split; apply Zmult_lt_compat_r; lia. }
    split; [lia|intros _; assumption].
Qed.

Lemma caseI : forall m e mz ez g, g <= ez -> g <= e - 2 -> 0 < mz ->
  (4 * m - 2) * 2 ^ (e - 2 - g) <= mz * 2 ^ (ez - g) <= (4 * m + 2) * 2 ^ (e - 2 - g) ->
  (Z.even m = false ->
   (4 * m - 2) * 2 ^ (e - 2 - g) < mz * 2 ^ (ez - g) < (4 * m + 2) * 2 ^ (e - 2 - g)) ->
  rne (mz * 2 ^ (ez - Z.min ez e)) (e - Z.min ez e) = m.
Proof.
  intros m e mz ez g Hg1 Hg2 Hmz [Hlo Hhi] Hodd.
  pose proof (rescale mz ez g (e - 2) e (4 * m - 2) Hg1 Hg2 ltac:(lia)) as (L1 & L2 & _ & _).
  pose proof (rescale mz ez g (e - 2) e (4 * m + 2) Hg1 Hg2 ltac:(lia)) as (_ & _ & U1 & U2).
  cbv zeta in L1, L2, U1, U2.
  replace (e - (e - 2)) with 2 in * by lia. change (2 ^ 2) with 4 in *.
  set (ez' := Z.min ez e) in *.
  assert (Hn : 0 <= e - ez') by (unfold ez'; lia).
  assert (HM : 0 < mz * 2 ^ (ez - ez')).
  { apply Z.mul_pos_pos; [exact Hmz|apply pow2_pos; unfold ez'; lia]. }
  set (M := mz * 2 ^ (ez - ez')) in *. set (P := 2 ^ (e - ez')) in *.
  apply rne_mid; [exact Hn|lia| |].
  - fold P. specialize (L1 Hlo). specialize (U1 Hhi). lia.
  - intros Ho. fold P. destruct (Hodd Ho) as [Ho1 Ho2].
    specialize (L2 Ho1). specialize (U2 Ho2). lia.
Qed.

Lemma caseII : forall e mz ez g, g <= ez -> g <= e - 2 -> 0 < mz ->
  18014398509481983 * 2 ^ (e - 2 - g) <= mz * 2 ^ (ez - g) ->
  mz * 2 ^ (ez - g) < 18014398509481984 * 2 ^ (e - 2 - g) ->
  rne (mz * 2 ^ (ez - Z.min ez (e - 1))) (e - 1 - Z.min ez (e - 1)) = 9007199254740992.
Proof.
  intros e mz ez g Hg1 Hg2 Hmz Hlo Hhi.
  pose proof (rescale mz ez g (e - 2) (e - 1) 18014398509481983 Hg1 Hg2 ltac:(lia))
    as (L1 & _ & _ & _).
  pose proof (rescale mz ez g (e - 2) (e - 1) 18014398509481984 Hg1 Hg2 ltac:(lia))
    as (_ & _ & _ & U2).
  cbv zeta in L1, U2.
  replace (e - 1 - (e - 2)) with 1 in * by lia. change (2 ^ 1) with 2 in *.
  set (ez' := Z.min ez (e - 1)) in *.
  assert (Hn : 0 <= e - 1 - ez') by (unfold ez'; lia).
  assert (HM : 0 < mz * 2 ^ (ez - ez')).
  { apply Z.mul_pos_pos; [exact Hmz|apply pow2_pos; unfold ez'; lia]. }
  set (M := mz * 2 ^ (ez - ez')) in *. set (P := 2 ^ (e - 1 - ez')) in *.
  specialize (L1 Hlo). specialize (U2 Hhi).
  assert (HP : 0 < P) by (apply pow2_pos; exact Hn).
  apply rne_mid; [exact Hn|lia| |].
  - fold P. lia.
  - intros Ho. discriminate Ho.
Qed.

Lemma round_core : forall m e mz ez d,
  -1074 <= e -> 0 < m < 9007199254740992 -> (4503599627370496 <= m \/ e = -1074) ->
  2 ^ (d - 1) <= mz < 2 ^ d -> 1 <= d ->
  dy_in_interval m e mz ez ->
  let e1 := Z.max (d + ez - 53) (-1074) in
  let ez' := Z.min ez e1 in
  let M := mz * 2 ^ (ez - ez') in
  (e1 = e /\ rne M (e1 - ez') = m) \/
  (m = 4503599627370496 /\ -1074 < e /\ e1 = e - 1 /\ rne M (e1 - ez') = 9007199254740992).
Proof.
  intros m e mz ez d He Hm Hnorm Hd Hd1 Hin e1 ez' M.
  set (g := Z.min ez (-1076)).
  assert (Hg1 : g <= ez) by (unfold g; lia).
  assert (Hg2 : g <= e - 2) by (unfold g; lia).
  assert (Hmz : 0 < mz).
  { destruct Hd as [Hd _]. pose proof (pow2_pos (d - 1) ltac:(lia)). lia. }
  destruct (interval_base m e mz ez g Hg1 Hg2 Hin) as [[Hlo Hhi] Hodd].
  cbv zeta in Hlo, Hhi, Hodd.
  set (T := 2 ^ (e - 2 - g)) in *. set (XI := mz * 2 ^ (ez - g)) in *.
  assert (HT : 0 < T) by (apply pow2_pos; lia).
  assert (Hmag : 2 ^ (d - 1 + ez - g) <= XI < 2 ^ (d + ez - g)).
  { unfold XI.
    replace (d - 1 + ez - g) with ((d - 1) + (ez - g)) by lia.
    replace (d + ez - g) with (d + (ez - g)) by lia.
    rewrite !pow2_add by lia.
    pose proof (pow2_pos (ez - g) ltac:(lia)) as HU.
    destruct Hd as [Hda Hdb]. split.
    - apply Zmult_le_compat_r; lia.
    - apply Zmult_lt_compat_r; lia. }
  destruct Hmag as [Hmag1 Hmag2].
  (* the value stays below 2^(53+e) *)
  assert (Hup : d + ez <= 53 + e).
  { assert (d - 1 + ez - g < 55 + (e - 2 - g)); [|lia].
    apply (mag_upper XI (4 * m + 2)); try lia; try assumption.
    all: try (change (2 ^ 55) with 36028797018963968; lia). }
  destruct ((m =? 4503599627370496) && (-1074 <? e)) eqn:Eb.
  - (* binade boundary *)
    apply andb_true_iff in Eb. destruct Eb as [Em Ee].
    apply Z.eqb_eq in Em. apply Z.ltb_lt in Ee.
    assert (Hlow : 52 + e <= d + ez).
    { assert (53 + (e - 2 - g) < d + ez - g); [|lia].
      apply (mag_lower XI (4 * m - 1)); try lia; try assumption.
      all: try (change (2 ^ 53) with 9007199254740992; lia). }
    destruct (Z.eq_dec (d + ez) (53 + e)) as [Hmag|Hmag].
    + left. assert (E1 : e1 = e) by (unfold e1; lia).
      split; [exact E1|]. unfold M, ez'. rewrite E1.
      apply (caseI m e mz ez g Hg1 Hg2 Hmz).
      * fold T XI. lia.
      * intros Ho. fold T XI. specialize (Hodd Ho). lia.
    + right. assert (Hmag' : d + ez = 52 + e) by lia.
      assert (E1 : e1 = e - 1) by (unfold e1; lia).
      split; [exact Em|]. split; [exact Ee|]. split; [exact E1|].
      unfold M, ez'. rewrite E1.
      apply (caseII e mz ez g Hg1 Hg2 Hmz).
      * fold T XI. subst m. lia.
      * fold T XI.
        replace (d + ez - g) with (54 + (e - 2 - g)) in Hmag2 by lia.
        rewrite pow2_add in Hmag2 by lia. fold T in Hmag2.
        change (2 ^ 54) with 18014398509481984 in Hmag2. exact Hmag2.
  - (* ordinary interval *)
    left.
    assert (E1 : e1 = e).
    { destruct (Z.eq_dec e (-1074)) as [Ee|Ee]; [unfold e1; lia|].
      destruct Hnorm as [Hnorm|Hnorm]; [|lia].
      assert (Hmne : m <> 4503599627370496).
      { intros Em. apply andb_false_iff in Eb. destruct Eb as [Eb|Eb].
        - apply Z.eqb_neq in Eb. lia.
        - apply Z.ltb_ge in Eb. lia. }
      assert (Hlow : 53 + e <= d + ez).
      { assert (54 + (e - 2 - g) < d + ez - g); [|lia].
        apply (mag_lower XI (4 * m - 2)); try lia; try assumption.
        all: try (change (2 ^ 54) with 18014398509481984; lia). }
      unfold e1. lia. }
    split; [exact E1|]. unfold M, ez'. rewrite E1.
    apply (caseI m e mz ez g Hg1 Hg2 Hmz).
    + fold T XI. lia.
    + intros Ho. fold T XI. specialize (Hodd Ho). lia.
Qed.

(** ** main result *)
Lemma binary_round_in_interval : forall s m e mz ez,
  valid_binary prec emax (S754_finite s m e) = true ->
  dy_in_interval (Zpos m) e (Zpos mz) ez ->
  binary_round prec emax s mz ez = S754_finite s m e.
Proof.
  intros s m e mz ez Hv Hin.
  pose proof (valid_binary_bounds s m e Hv) as (He & Hm & Hnorm).
  pose proof (valid_binary_canonical s m e Hv) as (Hcan & _).
  change (2 ^ 53) with 9007199254740992 in Hm.
  change (2 ^ 52) with 4503599627370496 in Hnorm.
  pose proof (digits2_pos_bounds mz) as Hd.
  pose proof (round_core (Zpos m) e (Zpos mz) ez (Zpos (digits2_pos mz))
                ltac:(lia) ltac:(lia) Hnorm Hd ltac:(lia) Hin) as Hcore.
  cbv zeta in Hcore. rewrite <- fexp_eq in Hcore.
  unfold binary_round.
  set (e1 := fexp prec emax (Zpos (digits2_pos mz) + ez)) in *.
  destruct (shl_align_spec mz ez e1) as (M & Esh & HM & Hdig).
  rewrite Esh. rewrite <- HM in Hcore.
  set (ez' := Z.min ez e1) in *.
  assert (Ee1 : fexp prec emax (Zpos (digits2_pos M) + ez') = e1).
  { rewrite Hdig. reflexivity. }
  assert (Hle : ez' <= e1) by (unfold ez'; lia).
  destruct Hcore as [[E1 Hr]|(Em & Ee & E1 & Hr)].
  - rewrite <- E1.
    rewrite <- Ee1. apply bra_plain; rewrite ?Ee1.
    + exact Hle.
    + exact Hr.
    + rewrite E1. exact Hcan.
    + lia.
  - assert (Em' : m = 4503599627370496%positive) by (injection Em; auto).
    subst m. replace e with (e1 + 1) by lia.
    rewrite <- Ee1. apply bra_carry; rewrite ?Ee1.
    + exact Hle.
    + exact Hr.
    + lia.
Qed.

(** sanity: the closed lower end at a binade boundary (goes through the carry), and a subnormal tie *)
Example interval_boundary_example :
  binary_round prec emax false 18014398509481983 (-2) = S754_finite false 4503599627370496 0.
Proof. apply binary_round_in_interval; [reflexivity|]. cbv. split; discriminate. Qed.

Example interval_subnormal_tie_example :
  binary_round prec emax false 3 (-1075) = S754_finite false 2 (-1074).
Proof. apply binary_round_in_interval; [reflexivity|]. cbv. split; discriminate. Qed.


(** * Part III: rationals, the search, dec_to_sf, the theorems *)
From Coq Require Import QArith Qpower Lqa.
Open Scope Z_scope.
(** * 1. fast powers *)
Lemma pow_pos_fast_spec : forall b p, pow_pos_fast b p = b ^ Zpos p.
Proof.
  intros b p. induction p as [p IH|p IH|]; cbn [pow_pos_fast].
  - rewrite IH. rewrite Pos2Z.inj_xI. rewrite Z.pow_add_r by lia.
    rewrite Z.pow_twice_r. lia.
  - rewrite IH. rewrite Pos2Z.inj_xO. rewrite Z.pow_twice_r. reflexivity.
  - lia.
Qed.

Lemma pow10_spec : forall k, 0 <= k -> pow10 k = 10 ^ k.
Proof. intros [|p|p] H; try lia. - reflexivity. - apply pow_pos_fast_spec. Qed.

Lemma pow2_spec : forall k, 0 <= k -> pow2 k = 2 ^ k.
Proof.
  intros k H. unfold pow2. destruct k as [|p|p]; try lia.
  - reflexivity.
  - apply Z.shiftl_1_l.
Qed.

(** * 2. the rational view: a * 10^p and b * 2^q as rationals *)
Definition p10 (k : Z) : Q := (10 # 1) ^ k.
Definition p2 (k : Z) : Q := (2 # 1) ^ k.
Definition iz (z : Z) : Q := inject_Z z.

Lemma p10_pos k : (0 < p10 k)%Q.
Proof. apply Qpower_0_lt. reflexivity. Qed.
Lemma p2_pos k : (0 < p2 k)%Q.
Proof. apply Qpower_0_lt. reflexivity. Qed.

Lemma p10_add a b : (p10 (a + b) == p10 a * p10 b)%Q.
Proof. apply Qpower_plus. discriminate. Qed.
Lemma p2_add a b : (p2 (a + b) == p2 a * p2 b)%Q.
Proof. apply Qpower_plus. discriminate. Qed.

Lemma p10_0 : (p10 0 == 1)%Q. Proof. reflexivity. Qed.
Lemma p2_0 : (p2 0 == 1)%Q. Proof. reflexivity. Qed.

Lemma p10_opp k : (p10 k * p10 (- k) == 1)%Q.
Proof. rewrite <- p10_add. rewrite Z.add_opp_diag_r. reflexivity. Qed.
Lemma p2_opp k : (p2 k * p2 (- k) == 1)%Q.
Proof. rewrite <- p2_add. rewrite Z.add_opp_diag_r. reflexivity. Qed.

Lemma p10_Z k : 0 <= k -> (p10 k == iz (10 ^ k))%Q.
Proof. intros H. unfold p10, iz. rewrite Zpower_Qpower by exact H. reflexivity. Qed.
Lemma p2_Z k : 0 <= k -> (p2 k == iz (2 ^ k))%Q.
Proof. intros H. unfold p2, iz. rewrite Zpower_Qpower by exact H. reflexivity. Qed.

Lemma iz_mul a b : (iz (a * b) == iz a * iz b)%Q.
Proof. unfold iz. rewrite inject_Z_mult. reflexivity. Qed.
Lemma iz_add a b : (iz (a + b) == iz a + iz b)%Q.
Proof. unfold iz. rewrite inject_Z_plus. reflexivity. Qed.
Lemma iz_le a b : a <= b <-> (iz a <= iz b)%Q.
Proof. unfold iz. rewrite Zle_Qle. reflexivity. Qed.
Lemma iz_lt a b : a < b <-> (iz a < iz b)%Q.
Proof. unfold iz. rewrite Zlt_Qlt. reflexivity. Qed.
Lemma iz_eq a b : a = b <-> (iz a == iz b)%Q.
Proof. unfold iz. split; [intros ->; reflexivity | apply inject_Z_injective]. Qed.

Definition up10 (p : Z) : Z := if 0 <=? p then pow10 p else 1.
Definition dn10 (p : Z) : Z := if p <? 0 then pow10 (- p) else 1.
Definition up2 (q : Z) : Z := if 0 <=? q then pow2 q else 1.
Definition dn2 (q : Z) : Z := if q <? 0 then pow2 (- q) else 1.

Lemma dn10_pos p : 0 < dn10 p.
Proof. unfold dn10. destruct (p <? 0) eqn:E; [|lia]. apply Z.ltb_lt in E. rewrite pow10_spec by lia. apply Z.pow_pos_nonneg; lia. Qed.
Lemma dn2_pos p : 0 < dn2 p.
Proof. unfold dn2. destruct (p <? 0) eqn:E; [|lia]. apply Z.ltb_lt in E. rewrite pow2_spec by lia. apply Z.pow_pos_nonneg; lia. Qed.

Lemma up10_dn10 p : (iz (up10 p) == p10 p * iz (dn10 p))%Q.
Proof.
  unfold up10, dn10. destruct (0 <=? p) eqn:E.
  - apply Z.leb_le in E. assert (p <? 0 = false) as -> by (apply Z.ltb_ge; lia).
    rewrite pow10_spec by lia. rewrite p10_Z by lia. change (iz 1) with 1%Q. ring.
  - apply Z.leb_gt in E. assert (p <? 0 = true) as -> by (apply Z.ltb_lt; lia).
    rewrite pow10_spec by lia. rewrite <- p10_Z by lia. rewrite p10_opp. reflexivity.
Qed.
Lemma up2_dn2 p : (iz (up2 p) == p2 p * iz (dn2 p))%Q.
Proof.
  unfold up2, dn2. destruct (0 <=? p) eqn:E.
  - apply Z.leb_le in E. assert (p <? 0 = false) as -> by (apply Z.ltb_ge; lia).
    rewrite pow2_spec by lia. rewrite p2_Z by lia. change (iz 1) with 1%Q. ring.
  - apply Z.leb_gt in E. assert (p <? 0 = true) as -> by (apply Z.ltb_lt; lia).
    rewrite pow2_spec by lia. rewrite <- p2_Z by lia. rewrite p2_opp. reflexivity.
Qed.

Definition qd (a p : Z) : Q := iz a * p10 p.
Definition qb (b q : Z) : Q := iz b * p2 q.

Lemma cmp_scaled_spec a p b q :
  CompareSpec (qd a p == qb b q)%Q (qd a p < qb b q)%Q (qb b q < qd a p)%Q (cmp_scaled a p b q).
Proof.
  unfold cmp_scaled. fold (up10 p) (dn2 q) (up2 q) (dn10 p).
  set (l := a * up10 p * dn2 q). set (r := b * up2 q * dn10 p).
  pose proof (dn10_pos p) as H1. pose proof (dn2_pos q) as H2.
  apply iz_lt in H1, H2. change (iz 0) with 0%Q in H1, H2.
  assert (Hl : (iz l == qd a p * (iz (dn10 p) * iz (dn2 q)))%Q).
  { unfold l, qd. rewrite !iz_mul, up10_dn10. ring. }
  assert (Hr : (iz r == qb b q * (iz (dn10 p) * iz (dn2 q)))%Q).
  { unfold r, qb. rewrite !iz_mul, up2_dn2. ring. }
  assert (HK : (0 < iz (dn10 p) * iz (dn2 q))%Q) by nra.
  set (K := (iz (dn10 p) * iz (dn2 q))%Q) in *.
  destruct (Z.compare_spec l r) as [E|E|E]; constructor.
  - apply iz_eq in E. rewrite Hl, Hr in E. apply Qmult_inj_r in E; [exact E|lra].
  - apply iz_lt in E. rewrite Hl, Hr in E. apply Qmult_lt_r in E; assumption.
  - apply iz_lt in E. rewrite Hl, Hr in E. apply Qmult_lt_r in E; assumption.
Qed.

Lemma div_scaled_spec b q p : 0 <= b ->
  (qd (div_scaled b q p) p <= qb b q < qd (div_scaled b q p + 1) p)%Q /\ 0 <= div_scaled b q p.
Proof.
  intros Hb. unfold div_scaled. fold (up10 p) (dn2 q) (up2 q) (dn10 p).
  set (num := b * up2 q * dn10 p). set (den := dn2 q * up10 p).
  pose proof (dn10_pos p) as H1. pose proof (dn2_pos q) as H2.
  assert (H3 : 0 < up10 p).
  { apply iz_lt. rewrite up10_dn10. apply iz_lt in H1. change (iz 0) with 0%Q in *. pose proof (p10_pos p). nra. }
  assert (H4 : 0 < up2 q).
  { apply iz_lt. rewrite up2_dn2. apply iz_lt in H2. change (iz 0) with 0%Q in *. pose proof (p2_pos q). nra. }
  assert (Hden : 0 < den) by (unfold den; nia).
  assert (Hnum : 0 <= num) by (unfold num; nia).
  pose proof (Z.div_mod num den ltac:(lia)) as Hdm.
  pose proof (Z.mod_pos_bound num den Hden) as Hmb.
  set (dl := num / den) in *.
  assert (Hdl : 0 <= dl) by (apply Z.div_pos; lia).
  split; [|exact Hdl].
  apply iz_lt in H1, H2. change (iz 0) with 0%Q in H1, H2.
  assert (Hn : (iz num == qb b q * (iz (dn10 p) * iz (dn2 q)))%Q).
  { unfold num, qb. rewrite !iz_mul, up2_dn2. ring. }
  assert (Hd : forall x, (iz (den * x) == qd x p * (iz (dn10 p) * iz (dn2 q)))%Q).
  { intros x. unfold den, qd. rewrite !iz_mul, up10_dn10. ring. }
  assert (HK : (0 < iz (dn10 p) * iz (dn2 q))%Q) by nra.
  set (K := (iz (dn10 p) * iz (dn2 q))%Q) in *.
  split.
  - assert (E : den * dl <= num) by lia. apply iz_le in E. rewrite Hn, Hd in E.
    apply Qmult_le_r in E; assumption.
  - assert (E : num < den * (dl + 1)) by lia. apply iz_lt in E. rewrite Hn, Hd in E.
    apply Qmult_lt_r in E; assumption.
Qed.

(** * 3. the rounding interval as a set of rationals *)
Definition lo4 (m e : Z) : Z :=
  if (m =? 4503599627370496) && (-1074 <? e) then 4 * m - 1 else 4 * m - 2.
Definition Qlo (m e : Z) : Q := qb (lo4 m e) (e - 2).
Definition Qhi (m e : Z) : Q := qb (4 * m + 2) (e - 2).

Definition inI (m e : Z) (x : Q) : Prop :=
  (if Z.even m then Qlo m e <= x else Qlo m e < x)%Q /\
  (if Z.even m then x <= Qhi m e else x < Qhi m e)%Q.

Lemma in_interval_spec m e d p : in_interval m e d p = true <-> inI m e (qd d p).
Proof.
  unfold in_interval, inI, Qlo, Qhi. fold (lo4 m e).
  destruct (cmp_scaled_spec d p (lo4 m e) (e - 2)) as [E1|E1|E1];
  destruct (cmp_scaled_spec d p (4 * m + 2) (e - 2)) as [E2|E2|E2];
  destruct (Z.even m); cbn [andb]; (split; [intros H; try discriminate; split; lra | intros [Ha Hb]; try reflexivity; exfalso; lra]).
Qed.

Lemma inI_proper m e x y : (x == y)%Q -> inI m e x -> inI m e y.
Proof. unfold inI. intros E [H1 H2]. destruct (Z.even m); split; lra. Qed.

Lemma qb_rescale b q j : 0 <= j -> (qb (b * 2 ^ j) (q - j) == qb b q)%Q.
Proof.
  intros Hj. unfold qb. rewrite iz_mul. rewrite <- p2_Z by lia.
  replace q with ((q - j) + j) at 2 by lia. rewrite (p2_add (q - j) j). ring.
Qed.

Lemma qd_rescale a p j : 0 <= j -> (qd (a * 10 ^ j) (p - j) == qd a p)%Q.
Proof.
  intros Hj. unfold qd. rewrite iz_mul. rewrite <- p10_Z by lia.
  replace p with ((p - j) + j) at 2 by lia. rewrite (p10_add (p - j) j). ring.
Qed.

(** value, ends, and convexity *)
Lemma Qv_4 m e : (qb (4 * m) (e - 2) == qb m e)%Q.
Proof. rewrite <- (qb_rescale m e 2) by lia. change (2 ^ 2) with 4. rewrite (Z.mul_comm m 4). reflexivity. Qed.

Lemma Qlo_lt_v m e : (Qlo m e < qb m e)%Q.
Proof.
  rewrite <- Qv_4. unfold Qlo, qb, lo4. pose proof (p2_pos (e - 2)).
  assert (iz (if (m =? 4503599627370496) && (-1074 <? e) then 4 * m - 1 else 4 * m - 2) < iz (4 * m))%Q.
  { apply (proj1 (iz_lt _ _)). destruct ((m =? 4503599627370496) && (-1074 <? e)); lia. }
  nra.
Qed.

Lemma Qv_lt_hi m e : (qb m e < Qhi m e)%Q.
Proof.
  rewrite <- Qv_4. unfold Qhi, qb. pose proof (p2_pos (e - 2)).
  assert (iz (4 * m) < iz (4 * m + 2))%Q by (apply (proj1 (iz_lt _ _)); lia). nra.
Qed.

Lemma inI_convex_lo m e x y : inI m e x -> (x <= y <= qb m e)%Q -> inI m e y.
Proof.
  unfold inI. intros [H1 H2] [H3 H4]. pose proof (Qv_lt_hi m e). destruct (Z.even m); split; lra.
Qed.
Lemma inI_convex_hi m e x y : inI m e x -> (qb m e <= y <= x)%Q -> inI m e y.
Proof.
  unfold inI. intros [H1 H2] [H3 H4]. pose proof (Qlo_lt_v m e). destruct (Z.even m); split; lra.
Qed.

(** * 4. floor_log10 *)
Definition fl_chk (L : Z) : bool :=
  let est := L * 30103 / 100000 in
  (match cmp_scaled 1 (est - 1) 1 L with Gt => false | _ => true end) &&
  (match cmp_scaled 1 (est + 2) 2 L with Lt => false | _ => true end).

Definition zrange (lo : Z) (n : nat) : list Z := map (fun i => lo + Z.of_nat i) (seq 0 n).
Lemma zrange_In lo n x : lo <= x < lo + Z.of_nat n -> In x (zrange lo n).
Proof.
  intros H. unfold zrange. apply in_map_iff. exists (Z.to_nat (x - lo)). split; [lia|].
  apply in_seq. lia.
Qed.

Lemma fl_chk_all : forallb fl_chk (zrange (-1074) 2098) = true.
Proof. vm_compute. reflexivity. Qed.

Lemma fl_chk_range L : -1074 <= L <= 1023 -> fl_chk L = true.
Proof.
  intros H. pose proof fl_chk_all as A. rewrite forallb_forall in A. apply A.
  apply zrange_In. lia.
Qed.

Lemma log2_bounds_Q m e : 0 < m ->
  (p2 (Z.log2 m + e) <= qb m e /\ qb m e < qb 2 (Z.log2 m + e))%Q.
Proof.
  intros Hm. pose proof (Z.log2_spec m Hm) as [H1 H2]. pose proof (Z.log2_nonneg m) as H0.
  unfold qb. rewrite p2_add. rewrite p2_Z by lia. pose proof (p2_pos e).
  apply iz_le in H1. apply iz_lt in H2. replace (Z.succ (Z.log2 m)) with (1 + Z.log2 m) in H2 by lia.
  rewrite Z.pow_add_r in H2 by lia. rewrite iz_mul in H2. change (iz (2 ^ 1)) with (iz 2) in H2.
  set (t := iz (2 ^ Z.log2 m)) in *.
  assert (0 < t)%Q. { unfold t. change 0%Q with (iz 0). apply (proj1 (iz_lt _ _)). apply Z.pow_pos_nonneg; lia. }
  split; nra.
Qed.

Lemma floor_log10_correct m e : 0 < m -> -1074 <= Z.log2 m + e <= 1023 ->
  (qd 1 (floor_log10 m e) <= qb m e < qd 1 (floor_log10 m e + 1))%Q.
Proof.
  intros Hm HL. pose proof (fl_chk_range _ HL) as C. unfold fl_chk in C. cbv zeta in C.
  apply andb_true_iff in C as [C1 C2].
  pose proof (log2_bounds_Q m e Hm) as [B1 B2].
  unfold floor_log10. cbv zeta.
  set (est := (Z.log2 m + e) * 30103 / 100000) in *.
  assert (D1 : (qd 1 (est - 1) <= qb m e)%Q).
  { destruct (cmp_scaled_spec 1 (est - 1) 1 (Z.log2 m + e)) as [E|E|E]; try discriminate;
    unfold qb at 1 in E; change (iz 1) with 1%Q in E; lra. }
  assert (D2 : (qb m e < qd 1 (est + 2))%Q).
  { destruct (cmp_scaled_spec 1 (est + 2) 2 (Z.log2 m + e)) as [E|E|E]; try discriminate; lra. }
  replace (est - 1 + 2) with (est + 1) by lia. replace (est - 1 + 1) with est by lia.
  destruct (cmp_scaled_spec 1 (est + 1) m e) as [E1|E1|E1].
  - replace (est + 1 + 1) with (est + 2) by lia. lra.
  - replace (est + 1 + 1) with (est + 2) by lia. lra.
  - destruct (cmp_scaled_spec 1 est m e) as [E2|E2|E2].
    + lra.
    + lra.
    + replace (est - 1 + 1) with est by lia. lra.
Qed.

(** * 5. the digit search *)
Lemma search_S : forall m e f n k,
  search m e (S f) n k =
  let p := (k - (n - 1))%Z in
  let dl := div_scaled (4 * m) (e - 2) p in
  let dh := (dl + 1)%Z in
  let inl := in_interval m e dl p && (10 ^ (n - 1) <=? dl)%Z in
  let inh := in_interval m e dh p in
  if inl && inh then Some (if upper_closer m e dl dh p then dh else dl, p)
  else if inl then Some (dl, p)
  else if inh then Some (dh, p)
  else search m e f (n + 1)%Z k.
Proof. reflexivity. Qed.

Lemma p10_mono a b : a <= b -> (p10 a <= p10 b)%Q.
Proof.
  intros H. replace b with (a + (b - a)) by lia. rewrite p10_add. rewrite (p10_Z (b - a)) by lia.
  assert (iz 1 <= iz (10 ^ (b - a)))%Q by (apply (proj1 (iz_le _ _)); pose proof (Z.pow_pos_nonneg 10 (b - a)); lia).
  change (iz 1) with 1%Q in H0. pose proof (p10_pos a). nra.
Qed.

Lemma qd_mono a b p : a <= b -> (qd a p <= qd b p)%Q.
Proof. intros H. unfold qd. apply iz_le in H. pose proof (p10_pos p). nra. Qed.

Lemma qd_lt_inv a b p : (qd a p < qd b p)%Q -> a < b.
Proof.
  intros H. destruct (Z_lt_le_dec a b) as [L|L]; [exact L|]. apply (qd_mono _ _ p) in L. lra.
Qed.

Lemma qd_1 k : (qd 1 k == p10 k)%Q.
Proof. unfold qd. change (iz 1) with 1%Q. ring. Qed.

Lemma qd_pow n p : 0 <= n -> (qd (10 ^ n) p == p10 (p + n))%Q.
Proof. intros H. unfold qd. rewrite <- p10_Z by lia. rewrite p10_add. ring. Qed.

Section SearchProofs.
  Variables (m e k : Z).
  Hypothesis Hm : 0 < m.
  Hypothesis Hk : (qd 1 k <= qb m e < qd 1 (k + 1))%Q.

  Definition pn (n : Z) : Z := k - (n - 1).
  Definition dln (n : Z) : Z := div_scaled (4 * m) (e - 2) (pn n).

  Lemma dln_spec n : (qd (dln n) (pn n) <= qb m e < qd (dln n + 1) (pn n))%Q /\ 0 <= dln n.
  Proof.
    unfold dln. pose proof (div_scaled_spec (4 * m) (e - 2) (pn n) ltac:(lia)) as [H1 H2].
    rewrite Qv_4 in H1. split; assumption.
  Qed.

  (** the lower candidate has exactly n digits *)
  Lemma dln_digits n : 1 <= n -> 10 ^ (n - 1) <= dln n < 10 ^ n.
  Proof.
    intros Hn. pose proof (dln_spec n) as [[H1 H2] H3]. destruct Hk as [K1 K2].
    rewrite qd_1 in K1, K2. split.
    - assert (qd (10 ^ (n - 1)) (pn n) < qd (dln n + 1) (pn n))%Q.
      { rewrite qd_pow by lia. replace (pn n + (n - 1)) with k by (unfold pn; lia). lra. }
      apply qd_lt_inv in H. lia.
    - assert (qd (dln n) (pn n) < qd (10 ^ n) (pn n))%Q.
      { rewrite qd_pow by lia. replace (pn n + n) with (k + 1) by (unfold pn; lia). lra. }
      apply qd_lt_inv in H. lia.
  Qed.

  Lemma search_step f n : 1 <= n ->
    search m e (S f) n k =
    (if in_interval m e (dln n) (pn n) && in_interval m e (dln n + 1) (pn n)
     then Some (if upper_closer m e (dln n) (dln n + 1) (pn n) then dln n + 1 else dln n, pn n)
     else if in_interval m e (dln n) (pn n) then Some (dln n, pn n)
     else if in_interval m e (dln n + 1) (pn n) then Some (dln n + 1, pn n)
     else search m e f (n + 1) k).
  Proof.
    intros Hn. rewrite search_S. cbv zeta. fold (pn n). fold (dln n).
    pose proof (dln_digits n Hn) as [H _]. apply Z.leb_le in H. rewrite H. rewrite !andb_true_r. reflexivity.
  Qed.

  (** any decimal inside the interval with nD digits makes step nD succeed *)
  Lemma step_succeeds D P nD : 1 <= nD -> 10 ^ (nD - 1) <= D < 10 ^ nD ->
    inI m e (qd D P) ->
    in_interval m e (dln nD) (pn nD) = true \/ in_interval m e (dln nD + 1) (pn nD) = true.
  Proof.
    intros HnD HD HI. pose proof (dln_spec nD) as [[H1 H2] H3].
    pose proof (dln_digits nD HnD) as [G1 G2].
    destruct (Z_le_gt_dec (pn nD) P) as [L|L].
    - (* D * 10^P is on the grid of step nD *)
      set (D' := D * 10 ^ (P - pn nD)).
      assert (E : (qd D' (pn nD) == qd D P)%Q).
      { unfold D'. replace (pn nD) with (P - (P - pn nD)) at 2 by lia. apply qd_rescale. lia. }
      destruct (Z_le_gt_dec D' (dln nD)) as [C|C].
      + left. apply in_interval_spec. apply (inI_convex_lo m e (qd D P)); [exact HI|].
        apply (qd_mono _ _ (pn nD)) in C. lra.
      + right. apply in_interval_spec. apply (inI_convex_hi m e (qd D P)); [exact HI|].
        assert (C' : dln nD + 1 <= D') by lia. apply (qd_mono _ _ (pn nD)) in C'. lra.
    - (* finer grid: the value is below 10^k <= dl * 10^p *)
      left. apply in_interval_spec. apply (inI_convex_lo m e (qd D P)); [exact HI|].
      split; [|lra].
      assert (A1 : (qd D P <= qd (10 ^ nD) P)%Q) by (apply qd_mono; lia).
      rewrite qd_pow in A1 by lia.
      assert (A2 : (p10 (P + nD) <= p10 k)%Q) by (apply p10_mono; unfold pn in L; lia).
      assert (A3 : (qd (10 ^ (nD - 1)) (pn nD) <= qd (dln nD) (pn nD))%Q) by (apply qd_mono; lia).
      rewrite qd_pow in A3 by lia. replace (pn nD + (nD - 1)) with k in A3 by (unfold pn; lia).
      lra.
  Qed.

  (** what a successful search returns *)
  Lemma search_found fuel : forall n d p, 1 <= n ->
    search m e fuel n k = Some (d, p) ->
    exists n0, n <= n0 < n + Z.of_nat fuel /\ p = pn n0 /\ (d = dln n0 \/ d = dln n0 + 1) /\
      in_interval m e d p = true /\
      forall n', n <= n' < n0 ->
        in_interval m e (dln n') (pn n') = false /\ in_interval m e (dln n' + 1) (pn n') = false.
  Proof.
    induction fuel as [|f IH]; intros n d p Hn Hs; [discriminate|].
    rewrite search_step in Hs by exact Hn.
    destruct (in_interval m e (dln n) (pn n)) eqn:El;
      destruct (in_interval m e (dln n + 1) (pn n)) eqn:Eh; cbn [andb] in Hs.
    - exists n. split; [lia|]. destruct (upper_closer m e (dln n) (dln n + 1) (pn n));
        inversion Hs; subst; (split; [reflexivity|]); (split; [auto|]); (split; [assumption|]); intros; lia.
    - exists n. split; [lia|]. inversion Hs; subst. repeat split; auto; intros; lia.
    - exists n. split; [lia|]. inversion Hs; subst. repeat split; auto; intros; lia.
    - apply IH in Hs; [|lia]. destruct Hs as (n0 & R & Hp & Hd & Hi & Hall).
      exists n0. split; [lia|]. repeat split; auto.
      + destruct (Z.eq_dec n' n) as [->|Ne]; [exact El|]. apply Hall. lia.
      + destruct (Z.eq_dec n' n) as [->|Ne]; [exact Eh|]. apply Hall. lia.
  Qed.

  (** 17 digits suffice *)
  Hypothesis Hm53 : m < 2 ^ 53.
  Lemma step17 : in_interval m e (dln 17) (pn 17) = true \/ in_interval m e (dln 17 + 1) (pn 17) = true.
  Proof.
    pose proof (dln_spec 17) as [[H1 H2] H3]. destruct Hk as [K1 K2].
    rewrite qd_1 in K1. replace k with (pn 17 + 16) in K1 by (unfold pn; lia).
    rewrite p10_add, (p10_Z 16) in K1 by lia.
    pose proof (p10_pos (pn 17)) as Gp. pose proof (p2_pos (e - 2)) as Wp.
    set (g := p10 (pn 17)) in *. set (w := p2 (e - 2)) in *.
    assert (V : (qb m e == iz (4 * m) * w)%Q) by (rewrite <- Qv_4; reflexivity).
    unfold qd in H1, H2. fold g in H1, H2. rewrite iz_add in H2. change (iz 1) with 1%Q in H2.
    assert (Hlo : (Qlo m e == iz (lo4 m e) * w)%Q) by reflexivity.
    assert (Hhi : (Qhi m e == iz (4 * m) * w + 2 * w)%Q).
    { unfold Qhi, qb. fold w. rewrite iz_add. change (iz 2) with 2%Q. ring. }
    assert (M53 : (iz (4 * m) * w <= iz (4 * 2 ^ 53) * w)%Q).
    { assert (iz (4 * m) <= iz (4 * 2 ^ 53))%Q by (apply (proj1 (iz_le _ _)); lia). nra. }
    assert (Strict : forall x, (Qlo m e < x < Qhi m e)%Q -> inI m e x).
    { intros x [X1 X2]. unfold inI. destruct (Z.even m); split; lra. }
    unfold lo4 in Hlo.
    destruct ((m =? 4503599627370496) && (-1074 <? e)) eqn:B.
    - (* binade boundary: the grid step is below 2w, the upper neighbour is inside *)
      apply andb_true_iff in B as [B _]. apply Z.eqb_eq in B.
      right. apply in_interval_spec. apply Strict. unfold qd. fold g. rewrite iz_add. change (iz 1) with 1%Q.
      rewrite B in *.
      change (iz (4 * 4503599627370496 - 1)) with (18014398509481983 # 1)%Q in *.
      change (iz (4 * 4503599627370496)) with (18014398509481984 # 1)%Q in *.
      change (iz (10 ^ 16)) with (10000000000000000 # 1)%Q in *.
      split; lra.
    - assert (Hlo' : (Qlo m e == iz (4 * m) * w - 2 * w)%Q).
      { rewrite Hlo. replace (4 * m - 2) with (4 * m + -2) by lia. rewrite iz_add. change (iz (-2)) with (-2 # 1)%Q. ring. }
      change (iz (4 * 2 ^ 53)) with (36028797018963968 # 1)%Q in *.
      change (iz (10 ^ 16)) with (10000000000000000 # 1)%Q in *.
      destruct (Qlt_le_dec (qb m e - iz (dln 17) * g) (2 * w)) as [C|C].
      + left. apply in_interval_spec. apply Strict. unfold qd. fold g. split; lra.
      + right. apply in_interval_spec. apply Strict. unfold qd. fold g. rewrite iz_add. change (iz 1) with 1%Q.
        split; lra.
  Qed.

  Lemma search_total fuel : forall n, 1 <= n <= 17 -> 18 - n <= Z.of_nat fuel ->
    exists d p, search m e fuel n k = Some (d, p) /\ 0 < d.
  Proof.
    induction fuel as [|f IH]; intros n Hn Hf; [lia|].
    rewrite search_step by lia.
    pose proof (dln_digits n ltac:(lia)) as [G1 G2].
    assert (0 < 10 ^ (n - 1)) by (apply Z.pow_pos_nonneg; lia).
    destruct (in_interval m e (dln n) (pn n)) eqn:El;
      destruct (in_interval m e (dln n + 1) (pn n)) eqn:Eh; cbn [andb].
    - destruct (upper_closer m e (dln n) (dln n + 1) (pn n)); eexists; eexists; (split; [reflexivity|lia]).
    - eexists; eexists; (split; [reflexivity|lia]).
    - eexists; eexists; (split; [reflexivity|lia]).
    - destruct (Z.eq_dec n 17) as [->|Ne].
      + destruct step17 as [S|S]; congruence.
      + apply IH; lia.
  Qed.
End SearchProofs.



(** * 8. the printer is total and shortest *)
Lemma valid_floor_log10 s m e : valid_binary prec emax (S754_finite s m e) = true ->
  (qd 1 (floor_log10 (Zpos m) e) <= qb (Zpos m) e < qd 1 (floor_log10 (Zpos m) e + 1))%Q.
Proof.
  intros V. apply valid_binary_bounds in V as (He & Hm & _).
  apply floor_log10_correct; [lia|].
  pose proof (Z.log2_nonneg (Zpos m)). assert (Z.log2 (Zpos m) < 53) by (apply Z.log2_lt_pow2; lia). lia.
Qed.

Theorem show_total : forall s m e, valid_binary prec emax (S754_finite s m e) = true ->
  exists d p, search (Zpos m) e 18 1 (floor_log10 (Zpos m) e) = Some (d, p) /\ (0 < d)%Z.
Proof.
  intros s m e V. pose proof (valid_floor_log10 s m e V) as Hk.
  apply valid_binary_bounds in V as (He & Hm & _).
  apply (search_total (Zpos m) e _ ltac:(lia) Hk Hm 18 1); lia.
Qed.

Definition sig_digits (d : Z) : nat := length (dec (Z.to_N (fst (strip_zeros 400 d 0)))).

Lemma dec_length_Z d : 0 < d ->
  1 <= Z.of_nat (length (dec (Z.to_N d))) /\
  10 ^ (Z.of_nat (length (dec (Z.to_N d))) - 1) <= d < 10 ^ Z.of_nat (length (dec (Z.to_N d))).
Proof.
  intros Hd. pose proof (dec_length_bounds (Z.to_N d) ltac:(lia)) as [B1 B2].
  pose proof (dec_nonempty (Z.to_N d)) as Ne.
  set (l := length (dec (Z.to_N d))) in *.
  assert (1 <= l)%nat by (destruct (dec (Z.to_N d)); [congruence|cbn in l; lia]).
  split; [lia|].
  apply N2Z.inj_le in B1. apply N2Z.inj_lt in B2. rewrite N2Z.inj_pow in B1, B2.
  rewrite N2Z.inj_sub in B1 by lia. rewrite nat_N_Z in B1, B2. rewrite Z2N.id in B1, B2 by lia.
  change (Z.of_N 10) with 10 in *. change (Z.of_N 1) with 1 in *. lia.
Qed.

(** number of digits is monotone *)
Lemma dec_length_le d n : 0 < d -> 0 <= n -> d < 10 ^ n -> Z.of_nat (length (dec (Z.to_N d))) <= n.
Proof.
  intros Hd Hn H. pose proof (dec_length_Z d Hd) as (L1 & L2 & L3).
  set (l := Z.of_nat (length (dec (Z.to_N d)))) in *.
  destruct (Z_le_gt_dec l n) as [C|C]; [exact C|].
  assert (10 ^ n <= 10 ^ (l - 1)) by (apply Z.pow_le_mono_r; lia). lia.
Qed.

Lemma strip_zeros_pow10 : forall fuel j p, 0 <= j <= Z.of_nat fuel -> strip_zeros fuel (10 ^ j) p = (1, p + j).
Proof.
  induction fuel as [|f IH]; intros j p Hj.
  - assert (j = 0) as -> by lia. cbn. f_equal. lia.
  - rewrite strip_zeros_S. destruct (Z.eq_dec j 0) as [->|Ne].
    + cbn. f_equal. lia.
    + assert (E : 10 ^ j = 10 ^ (j - 1) * 10).
      { replace j with (Z.succ (j - 1)) at 1 by lia. rewrite Z.pow_succ_r by lia. lia. }
      rewrite E. rewrite Z.mod_mul by lia. rewrite Z.div_mul by lia.
      assert (0 < 10 ^ (j - 1) * 10) by (pose proof (Z.pow_pos_nonneg 10 (j - 1)); lia).
      cbn [Z.eqb andb]. assert ((0 <? 10 ^ (j - 1) * 10) = true) as -> by (apply Z.ltb_lt; lia).
      rewrite IH by lia. f_equal. lia.
Qed.

Theorem show_shortest : forall s m e, valid_binary prec emax (S754_finite s m e) = true ->
  forall d p, search (Zpos m) e 18 1 (floor_log10 (Zpos m) e) = Some (d, p) ->
  forall d' p', (0 < d')%Z -> in_interval (Zpos m) e d' p' = true ->
  (sig_digits d <= sig_digits d')%nat.
Proof.
  intros s m e V d p Hs d' p' Hd' Hi'.
  pose proof (valid_floor_log10 s m e V) as Hk.
  set (k := floor_log10 (Zpos m) e) in *.
  apply (search_found (Zpos m) e k ltac:(lia) Hk) in Hs; [|lia].
  destruct Hs as (n0 & Hn0 & Hp & Hd & Hi & Hall).
  pose proof (dln_digits (Zpos m) e k ltac:(lia) Hk n0 ltac:(lia)) as [G1 G2].
  (* the result has at most n0 significant digits *)
  assert (A : Z.of_nat (sig_digits d) <= n0).
  { unfold sig_digits.
    assert (0 < 10 ^ (n0 - 1)) by (apply Z.pow_pos_nonneg; lia).
    assert (Hdpos : 0 < d) by (destruct Hd; lia).
    destruct (Z.eq_dec d (10 ^ n0)) as [E|E].
    - rewrite E. rewrite strip_zeros_pow10 by (cbn; lia). cbn. lia.
    - destruct (strip_zeros 400 d 0) as [ds j] eqn:S.
      pose proof (strip_zeros_spec _ _ _ _ _ Hdpos S) as (S1 & S2 & S3). cbn [fst].
      apply dec_length_le; [lia|lia|].
      assert (1 <= 10 ^ (j - 0)) by (pose proof (Z.pow_pos_nonneg 10 (j - 0)); lia).
      assert (ds <= d) by nia. destruct Hd; lia. }
  (* any decimal inside the interval has at least n0 digits *)
  assert (B : n0 <= Z.of_nat (sig_digits d')).
  { unfold sig_digits. destruct (strip_zeros 400 d' 0) as [ds j] eqn:S.
    pose proof (strip_zeros_spec _ _ _ _ _ Hd' S) as (S1 & S2 & S3). cbn [fst].
    pose proof (dec_length_Z ds S1) as (L1 & L2 & L3).
    set (nD := Z.of_nat (length (dec (Z.to_N ds)))) in *.
    destruct (Z_le_gt_dec n0 nD) as [C|C]; [exact C|exfalso].
    assert (I : inI (Zpos m) e (qd ds (p' + j))).
    { apply in_interval_spec in Hi'. eapply inI_proper; [|exact Hi'].
      rewrite S3. rewrite <- (qd_rescale ds (p' + j) (j - 0)) by lia.
      replace (p' + j - (j - 0)) with p' by lia. reflexivity. }
    destruct (Hall nD ltac:(lia)) as [F1 F2].
    destruct (step_succeeds (Zpos m) e k ltac:(lia) Hk ds (p' + j) nD L1 ltac:(lia) I); congruence. }
  lia.
Qed.

(** * 9. decimal -> binary64: a decimal inside the rounding interval reads back as that double *)
Lemma p2_mono a b : a <= b -> (p2 a <= p2 b)%Q.
Proof.
  intros H. replace b with (a + (b - a)) by lia. rewrite p2_add. rewrite (p2_Z (b - a)) by lia.
  assert (iz 1 <= iz (2 ^ (b - a)))%Q by (apply (proj1 (iz_le _ _)); pose proof (Z.pow_pos_nonneg 2 (b - a)); lia).
  change (iz 1) with 1%Q in H0. pose proof (p2_pos a). nra.
Qed.
Lemma p2_lt_inv a b : (p2 a < p2 b)%Q -> a < b.
Proof. intros H. destruct (Z_lt_le_dec a b) as [L|L]; [exact L|]. apply p2_mono in L. lra. Qed.
Lemma p10_lt_inv a b : (p10 a < p10 b)%Q -> a < b.
Proof. intros H. destruct (Z_lt_le_dec a b) as [L|L]; [exact L|]. apply p10_mono in L. lra. Qed.

Lemma qb_mono a b q : a <= b -> (qb a q <= qb b q)%Q.
Proof. intros H. unfold qb. apply iz_le in H. pose proof (p2_pos q). nra. Qed.
Lemma qb_lt_mono a b q : a < b -> (qb a q < qb b q)%Q.
Proof. intros H. unfold qb. apply iz_lt in H. pose proof (p2_pos q). nra. Qed.
Lemma qb_lt_inv a b q : (qb a q < qb b q)%Q -> a < b.
Proof. intros H. destruct (Z_lt_le_dec a b) as [L|L]; [exact L|]. apply (qb_mono _ _ q) in L. lra. Qed.
Lemma qb_le_inv a b q : (qb a q <= qb b q)%Q -> a <= b.
Proof. intros H. destruct (Z_le_gt_dec a b) as [L|L]; [exact L|]. apply Z.gt_lt, (qb_lt_mono _ _ q) in L. lra. Qed.
Lemma qb_pow n q : 0 <= n -> (qb (2 ^ n) q == p2 (q + n))%Q.
Proof. intros H. unfold qb. rewrite <- p2_Z by lia. rewrite p2_add. ring. Qed.
Lemma qb_1 q : (qb 1 q == p2 q)%Q.
Proof. unfold qb. change (iz 1) with 1%Q. ring. Qed.

Lemma inI_dy m e mz ez : inI m e (qb mz ez) -> dy_in_interval m e mz ez.
Proof.
  unfold dy_in_interval, inI. cbv zeta. fold (lo4 m e). set (c := Z.min ez (e - 2)).
  assert (EA : (qb (mz * 2 ^ (ez - c)) c == qb mz ez)%Q).
  { replace c with (ez - (ez - c)) at 2 by lia. apply qb_rescale. lia. }
  assert (EL : (qb (lo4 m e * 2 ^ (e - 2 - c)) c == Qlo m e)%Q).
  { replace c with (e - 2 - (e - 2 - c)) at 2 by lia. apply qb_rescale. lia. }
  assert (EH : (qb ((4 * m + 2) * 2 ^ (e - 2 - c)) c == Qhi m e)%Q).
  { replace c with (e - 2 - (e - 2 - c)) at 2 by lia. apply qb_rescale. lia. }
  intros [H1 H2]. destruct (Z.even m).
  - split; apply qb_le_inv with c; lra.
  - split; apply qb_lt_inv with c; lra.
Qed.

Lemma binary_round_inI s m e mz ez : valid_binary prec emax (S754_finite s m e) = true ->
  inI (Zpos m) e (qb (Zpos mz) ez) -> binary_round prec emax s mz ez = S754_finite s m e.
Proof. intros V H. apply binary_round_in_interval; [exact V|]. apply inI_dy. exact H. Qed.

(** the interval of a valid double lies within [2^(e-1), 2^(e+53)) *)
Lemma interval_bounds s m e x : valid_binary prec emax (S754_finite s m e) = true ->
  inI (Zpos m) e x -> (p2 (e - 1) <= x < p2 (e + 53))%Q.
Proof.
  intros V [H1 H2]. apply valid_binary_bounds in V as (He & Hm & _).
  assert (A : (p2 (e - 1) <= Qlo (Zpos m) e)%Q).
  { unfold Qlo. replace (e - 1) with (e - 2 + 1) by lia.
    rewrite <- (qb_pow 1 (e - 2)) by lia. apply qb_mono. unfold lo4.
    destruct ((Z.pos m =? 4503599627370496) && (-1074 <? e)); change (2 ^ 1) with 2; lia. }
  assert (B : (Qhi (Zpos m) e < p2 (e + 53))%Q).
  { unfold Qhi. replace (e + 53) with (e - 2 + 55) by lia. rewrite <- (qb_pow 55 (e - 2)) by lia.
    apply qb_lt_mono. change (2 ^ 55) with (4 * 2 ^ 53). lia. }
  destruct (Z.even (Zpos m)); split; lra.
Qed.

Lemma pow2_ge_pow10 L : 0 <= L -> 10 ^ (L * 3 / 10) <= 2 ^ L.
Proof.
  intros HL. set (t := L * 3 / 10).
  assert (Ht : 0 <= t /\ 10 * t <= 3 * L).
  { unfold t. pose proof (Z.div_mod (L * 3) 10 ltac:(lia)). pose proof (Z.mod_pos_bound (L * 3) 10 ltac:(lia)).
    split; [apply Z.div_pos; lia|lia]. }
  apply (Z.pow_le_mono_l_iff _ _ 10); [apply Z.pow_nonneg; lia|apply Z.pow_nonneg; lia|lia|].
  rewrite <- !Z.pow_mul_r by lia.
  apply Z.le_trans with (10 ^ (3 * L)); [apply Z.pow_le_mono_r; lia|].
  rewrite (Z.mul_comm L 10). rewrite !Z.pow_mul_r by lia. apply Z.pow_le_mono_l. cbn. lia.
Qed.

Lemma pow2_le_pow10 L : 0 <= L -> 2 ^ (L + 1) <= 10 ^ (L / 3 + 1).
Proof.
  intros HL. set (t := L / 3).
  assert (Ht : 0 <= t /\ L <= 3 * t + 2).
  { unfold t. pose proof (Z.div_mod L 3 ltac:(lia)). pose proof (Z.mod_pos_bound L 3 ltac:(lia)).
    split; [apply Z.div_pos; lia|lia]. }
  apply Z.le_trans with (2 ^ (3 * (t + 1))); [apply Z.pow_le_mono_r; lia|].
  rewrite Z.pow_mul_r by lia. apply Z.pow_le_mono_l. cbn. lia.
Qed.

Lemma big_consts : (p2 1024 < p10 331)%Q /\ (p10 (-346) < p2 (-1075))%Q.
Proof.
  split.
  - destruct (cmp_scaled_spec 1 331 1 1024) as [E|E|E].
    + exfalso. revert E. vm_compute. discriminate.
    + exfalso. revert E. vm_compute. discriminate.
    + rewrite qd_1, qb_1 in E. exact E.
  - destruct (cmp_scaled_spec 1 (-346) 1 (-1075)) as [E|E|E].
    + exfalso. revert E. vm_compute. discriminate.
    + rewrite qd_1, qb_1 in E. exact E.
    + exfalso. revert E. vm_compute. discriminate.
Qed.

Lemma qd_lt_mono a b p : a < b -> (qd a p < qd b p)%Q.
Proof. intros H. unfold qd. apply iz_lt in H. pose proof (p10_pos p). nra. Qed.

Section DecToSf.
  Variables (s : bool) (m : positive) (e : Z) (D : positive) (P : Z).
  Hypothesis V : valid_binary prec emax (S754_finite s m e) = true.
  Hypothesis HI : inI (Zpos m) e (qd (Zpos D) P).

  Lemma dts_not_inf : (330 <? P + Z.log2 (Zpos D) * 3 / 10) = false.
  Proof.
    apply Z.ltb_ge. destruct (Z_le_gt_dec (P + Z.log2 (Z.pos D) * 3 / 10) 330) as [L|L]; [exact L|exfalso].
    pose proof (interval_bounds s m e _ V HI) as [_ B]. apply valid_binary_bounds in V as (He & _ & _).
    pose proof (Z.log2_spec (Zpos D) ltac:(lia)) as [L1 _]. pose proof (Z.log2_nonneg (Zpos D)) as L0.
    pose proof (pow2_ge_pow10 _ L0) as G. set (t := Z.log2 (Z.pos D) * 3 / 10) in *.
    assert (0 <= t) by (apply Z.div_pos; lia).
    assert (A : (qd (10 ^ t) P <= qd (Zpos D) P)%Q) by (apply qd_mono; lia).
    rewrite qd_pow in A by lia.
    assert (A2 : (p10 331 <= p10 (P + t))%Q) by (apply p10_mono; lia).
    assert (A3 : (p2 (e + 53) <= p2 1024)%Q) by (apply p2_mono; lia).
    pose proof big_consts as [C _]. lra.
  Qed.

  Lemma dts_not_zero : (P + (Z.log2 (Zpos D) / 3 + 1) <? -345) = false.
  Proof.
    apply Z.ltb_ge. destruct (Z_le_gt_dec (-345) (P + (Z.log2 (Z.pos D) / 3 + 1))) as [L|L]; [exact L|exfalso].
    pose proof (interval_bounds s m e _ V HI) as [B _]. apply valid_binary_bounds in V as (He & _ & _).
    pose proof (Z.log2_spec (Zpos D) ltac:(lia)) as [_ L1]. pose proof (Z.log2_nonneg (Zpos D)) as L0.
    pose proof (pow2_le_pow10 _ L0) as G. set (t := Z.log2 (Z.pos D) / 3) in *.
    assert (0 <= t) by (apply Z.div_pos; lia).
    assert (A : (qd (Zpos D) P < qd (10 ^ (t + 1)) P)%Q).
    { apply qd_lt_mono. replace (Z.succ (Z.log2 (Z.pos D))) with (Z.log2 (Z.pos D) + 1) in L1 by lia. lia. }
    rewrite qd_pow in A by lia.
    assert (A2 : (p10 (P + (t + 1)) <= p10 (-346))%Q) by (apply p10_mono; lia).
    assert (A3 : (p2 (-1075) <= p2 (e - 1))%Q) by (apply p2_mono; lia).
    pose proof big_consts as [_ C]. lra.
  Qed.

  Lemma dts_nonneg : 0 <= P ->
    binary_round prec emax s (D * Z.to_pos (pow10 P)) 0 = S754_finite s m e.
  Proof.
    intros HP. apply binary_round_inI; [exact V|]. eapply inI_proper; [|exact HI].
    rewrite pow10_spec by lia.
    assert (0 < 10 ^ P) by (apply Z.pow_pos_nonneg; lia).
    rewrite Pos2Z.inj_mul, Z2Pos.id by lia.
    unfold qd, qb. rewrite iz_mul, p2_0, p10_Z by lia. ring.
  Qed.

  Lemma dts_neg : P < 0 ->
    (let den := pow10 (- P) in
     let sh := Z.max 0 (66 + Z.log2 den - Z.log2 (Zpos D)) in
     let num := Zpos D * pow2 sh in
     let q := num / den in
     let sticky := if num mod den =? 0 then 0 else 1 in
     match 2 * q + sticky with
     | Zpos q' => binary_round prec emax s q' (- sh - 1)
     | _ => S754_zero s
     end) = S754_finite s m e.
  Proof.
    intros HP. cbv zeta. rewrite pow10_spec by lia.
    set (den := 10 ^ (- P)). set (sh := Z.max 0 (66 + Z.log2 den - Z.log2 (Z.pos D))).
    assert (Hsh : 0 <= sh) by lia. rewrite pow2_spec by exact Hsh.
    set (num := Z.pos D * 2 ^ sh).
    assert (Hden : 0 < den) by (apply Z.pow_pos_nonneg; lia).
    assert (H2sh : 0 < 2 ^ sh) by (apply Z.pow_pos_nonneg; lia).
    pose proof (Z.div_mod num den ltac:(lia)) as Hdm.
    pose proof (Z.mod_pos_bound num den Hden) as Hmb.
    set (q := num / den) in *. set (r := num mod den) in *.
    (* q has at least 66 bits *)
    assert (Hq : 2 ^ 65 <= q).
    { apply Z.div_le_lower_bound; [exact Hden|].
      pose proof (Z.log2_spec den Hden) as [_ D2]. pose proof (Z.log2_spec (Zpos D) ltac:(lia)) as [D1 _].
      pose proof (Z.log2_nonneg den). pose proof (Z.log2_nonneg (Zpos D)).
      assert (2 ^ (65 + Z.succ (Z.log2 den)) <= 2 ^ (Z.log2 (Zpos D) + sh)) by (apply Z.pow_le_mono_r; lia).
      rewrite !Z.pow_add_r in H1 by lia. unfold num.
      assert (0 < 2 ^ 65) by (apply Z.pow_pos_nonneg; lia).
      assert (den * 2 ^ 65 <= 2 ^ Z.succ (Z.log2 den) * 2 ^ 65) by (apply Z.mul_le_mono_nonneg_r; lia).
      assert (2 ^ Z.log2 (Z.pos D) * 2 ^ sh <= Z.pos D * 2 ^ sh) by (apply Z.mul_le_mono_nonneg_r; lia).
      lia. }
    assert (Hq0 : 0 < q) by (pose proof (Z.pow_pos_nonneg 2 65); lia).
    (* the exact value *)
    set (u := p2 (- sh)). pose proof (p2_pos (- sh)) as Hu. fold u in Hu.
    assert (X : (qd (Zpos D) P * iz den == iz num * u)%Q).
    { assert (E1 : (qd (Z.pos D) P * iz den == iz (Z.pos D))%Q).
      { unfold qd, den. rewrite <- p10_Z by lia.
        setoid_replace (iz (Z.pos D) * p10 P * p10 (- P))%Q with (iz (Z.pos D) * (p10 P * p10 (- P)))%Q by ring.
        rewrite p10_opp. ring. }
      assert (E2 : (iz num * u == iz (Z.pos D))%Q).
      { unfold num, u. rewrite iz_mul. rewrite <- p2_Z by lia.
        setoid_replace (iz (Z.pos D) * p2 sh * p2 (- sh))%Q with (iz (Z.pos D) * (p2 sh * p2 (- sh)))%Q by ring.
        rewrite p2_opp. ring. }
      rewrite E1, E2. reflexivity. }
    assert (Hdq : (0 < iz den)%Q) by (change 0%Q with (iz 0); apply (proj1 (iz_lt _ _)); exact Hden).
    assert (Hnum : (iz num == iz den * iz q + iz r)%Q) by (rewrite <- iz_mul, <- iz_add; apply (proj1 (iz_eq _ _)); exact Hdm).
    pose proof (interval_bounds s m e _ V HI) as [B1 B2].
    destruct (r =? 0) eqn:Er.
    - (* exact quotient *)
      apply Z.eqb_eq in Er. rewrite Z.add_0_r.
      destruct (2 * q) as [|q'|q'] eqn:Eq; try lia.
      apply binary_round_inI; [exact V|]. eapply inI_proper; [|exact HI].
      rewrite <- Eq. rewrite Er in Hnum. change (iz 0) with 0%Q in Hnum.
      rewrite (Z.mul_comm 2 q). change 2 with (2 ^ 1) at 1.
      replace (- sh - 1) with (- sh - 1)%Z by reflexivity. rewrite (qb_rescale q (- sh) 1) by lia.
      unfold qb. fold u. 
      assert (E : (qd (Zpos D) P * iz den == iz q * u * iz den)%Q) by (rewrite X, Hnum; ring).
      apply Qmult_inj_r in E; [exact E|lra].
    - (* inexact: the sticky bit keeps the value strictly between the same neighbours *)
      apply Z.eqb_neq in Er.
      destruct (2 * q + 1) as [|q'|q'] eqn:Eq; try lia.
      apply binary_round_inI; [exact V|]. rewrite <- Eq.
      set (x := qd (Zpos D) P) in *.
      assert (Xlo : (iz q * u < x)%Q).
      { assert (iz den * iz q < iz num)%Q by (rewrite <- iz_mul; apply (proj1 (iz_lt _ _)); lia).
        assert (iz q * u * iz den < x * iz den)%Q by (rewrite X; nra).
        apply Qmult_lt_r in H0; assumption. }
      assert (Xhi : (x < (iz q + 1) * u)%Q).
      { assert (iz num < iz den * (iz q + 1))%Q.
        { change 1%Q with (iz 1). rewrite <- iz_add, <- iz_mul. apply (proj1 (iz_lt _ _)). lia. }
        assert (x * iz den < (iz q + 1) * u * iz den)%Q by (rewrite X; nra).
        apply Qmult_lt_r in H0; assumption. }
      (* the ends of the interval are multiples of 2^-sh *)
      assert (Hj : 0 <= e - 2 + sh).
      { assert (iz (2 ^ 65) <= iz q)%Q by (apply (proj1 (iz_le _ _)); exact Hq).
        rewrite <- p2_Z in H by lia.
        assert (p2 (65 - sh) < p2 (e + 53))%Q.
        { replace (65 - sh) with (65 + - sh) by lia. rewrite p2_add. fold u. nra. }
        apply p2_lt_inv in H0. lia. }
      set (j := e - 2 + sh) in *.
      assert (EL : (qb (lo4 (Zpos m) e * 2 ^ j) (- sh) == Qlo (Zpos m) e)%Q).
      { replace (- sh) with (e - 2 - j) by (unfold j; lia). apply qb_rescale. exact Hj. }
      assert (EH : (qb ((4 * Zpos m + 2) * 2 ^ j) (- sh) == Qhi (Zpos m) e)%Q).
      { replace (- sh) with (e - 2 - j) by (unfold j; lia). apply qb_rescale. exact Hj. }
      set (Lz := lo4 (Zpos m) e * 2 ^ j) in *. set (Hz := (4 * Zpos m + 2) * 2 ^ j) in *.
      assert (EX : (qb (2 * q + 1) (- sh - 1) == (iz q + (1 # 2)) * u)%Q).
      { unfold qb. replace (- sh - 1) with (- sh + -1) by lia. rewrite p2_add. fold u.
        rewrite iz_add, iz_mul. change (p2 (-1)) with (1 # 2)%Q. change (iz 2) with 2%Q. change (iz 1) with 1%Q. ring. }
      unfold qb in EL, EH. fold u in EL, EH.
      destruct HI as [I1 I2].
      assert (S1 : Lz <= q).
      { assert (iz Lz * u < (iz q + 1) * u)%Q by (destruct (Z.even (Zpos m)); lra).
        apply Qmult_lt_r in H; [|exact Hu]. change 1%Q with (iz 1) in H. rewrite <- iz_add in H.
        apply iz_lt in H. lia. }
      assert (S2 : q + 1 <= Hz).
      { assert (iz q * u < iz Hz * u)%Q by (destruct (Z.even (Zpos m)); lra).
        apply Qmult_lt_r in H; [|exact Hu]. apply iz_lt in H. lia. }
      apply iz_le in S1, S2. rewrite iz_add in S2. change (iz 1) with 1%Q in S2.
      split; destruct (Z.even (Zpos m)); rewrite EX; nra.
  Qed.

  Lemma dec_to_sf_in_interval : dec_to_sf s (Npos D) P = S754_finite s m e.
  Proof.
    unfold dec_to_sf. rewrite dts_not_inf, dts_not_zero.
    destruct (0 <=? P) eqn:EP.
    - apply Z.leb_le in EP. apply dts_nonneg. exact EP.
    - apply Z.leb_gt in EP. apply dts_neg. exact EP.
  Qed.
End DecToSf.

(** * 10. the text round trip *)
Lemma search_in_interval' : forall m e fuel n k d p,
  search m e fuel n k = Some (d, p) -> in_interval m e d p = true.
Proof.
  intros m e fuel. induction fuel as [|f IHf]; intros n k d p Hs.
  - discriminate Hs.
  - rewrite search_S in Hs. cbv zeta in Hs.
    remember (k - (n - 1))%Z as p0 eqn:Hp0.
    remember (div_scaled (4 * m) (e - 2) p0) as dl eqn:Hdl.
    destruct (in_interval m e dl p0) eqn:Hil;
      destruct (10 ^ (n - 1) <=? dl)%Z eqn:Hlow;
      destruct (in_interval m e (dl + 1) p0) eqn:Hih; cbn [andb] in Hs;
      try (apply IHf in Hs; exact Hs).
    + destruct (upper_closer m e dl (dl + 1) p0); inversion Hs; subst; assumption.
    + inversion Hs; subst; assumption.
    + inversion Hs; subst; assumption.
    + inversion Hs; subst; assumption.
    + inversion Hs; subst; assumption.
Qed.

Lemma sf_dec_to_float_finite s m e D P : valid_binary prec emax (S754_finite s m e) = true ->
  0 < D -> inI (Zpos m) e (qd D P) ->
  sf (dec_to_float s (Z.to_N D) P) = S754_finite s m e.
Proof.
  intros V HD HI. unfold dec_to_float, sf. destruct D as [|D|D]; try lia.
  change (Z.to_N (Zpos D)) with (Npos D).
  rewrite (dec_to_sf_in_interval s m e D P V HI).
  apply Prim2SF_SF2Prim. exact V.
Qed.

Lemma show_finite_roundtrip s m e : valid_binary prec emax (S754_finite s m e) = true ->
  option_map sf (parse_f64 (show_sf (S754_finite s m e))) = Some (S754_finite s m e).
Proof.
  intros V. cbn [show_sf].
  destruct (show_total s m e V) as (d & p & Hs & Hd). rewrite Hs.
  apply search_in_interval' in Hs. apply in_interval_spec in Hs.
  destruct (strip_zeros 20 d p) as [d' p'] eqn:S.
  pose proof (strip_zeros_spec _ _ _ _ _ Hd S) as (S1 & S2 & S3).
  assert (I : inI (Zpos m) e (qd d' p')).
  { eapply inI_proper; [|exact Hs]. rewrite S3.
    rewrite <- (qd_rescale d' p' (p' - p)) by lia. replace (p' - (p' - p)) with p by lia. reflexivity. }
  rewrite parse_layout by exact S1. cbn [option_map]. f_equal.
  destruct (0 <=? p') eqn:EP.
  - apply Z.leb_le in EP. apply sf_dec_to_float_finite; [exact V| |].
    + assert (0 < 10 ^ p') by (apply Z.pow_pos_nonneg; lia). nia.
    + eapply inI_proper; [|exact I]. unfold qd. rewrite iz_mul, p10_0, p10_Z by lia. ring.
  - apply sf_dec_to_float_finite; assumption.
Qed.

Theorem show_parse_roundtrip : forall x : float, option_map sf (parse_f64 (show_float x)) = Some (sf x).
Proof.
  intros x. unfold show_float. pose proof (Prim2SF_valid x) as V. fold (sf x) in V.
  destruct (sf x) as [s|s| |s m e] eqn:E.
  - destruct s; vm_compute; reflexivity.
  - destruct s; vm_compute; reflexivity.
  - vm_compute. reflexivity.
  - apply show_finite_roundtrip. exact V.
Qed.
