(** Driver: model of src/main.rs::run — source selection, phase order, early return on
    --check, debug text to standard error, errors become exit status 1 (a panic 101).
    clap's argument parsing, process exit codes, stream buffering are outside the model. *)
From Aplang Require Import Base FloatX Token Ast Tables Value StrLib LexImpl ParseImpl EvalImpl.
Open Scope N_scope.

Inductive source := SrcFile (path : text) | SrcEval (code : text) | SrcStdin.
Inductive debug := DNone | DTime | DAll | DLexer | DParser | DInterpreter.

Record config := mkConfig { c_src : source; c_debug : debug; c_check : bool }.

Record cli_result := mkCli {
  status : N;
  stdout_ : text;
  stderr_nonempty : bool
}.

Definition run_fuel_cli : nat := N.to_nat 6000.

(* [files]: the host files (path -> contents); [stdin0]: what is on standard input *)
Definition cli_run (cfg : config) (files : list (text * text)) (stdin0 : text) (orc0 : oracle) : cli_result :=
  (* 1. choose the source *)
  let chosen : option (text * text * text) :=      (* source text, directory for user modules, stdin left for the program *)
    match c_src cfg with
    | SrcFile p => match find (fun e => text_eqb (fst e) p) files with
                   | Some e => Some (snd e, dirname p, stdin0)
                   | None => None
                   end
    | SrcEval code => Some (code, [], stdin0)
    | SrcStdin => Some (stdin0, [], [])             (* read_to_string consumed it all *)
    end in
  match chosen with
  | None => mkCli 1 [] true                                        (* "Could not read file" *)
  | Some (src, dir, input) =>
    (* 2. lex, 3. parse: an error ends the run with status 1 and nothing on stdout *)
    match lex src with
    | LexErr _ | LexFuel => mkCli 1 [] true
    | LexOk ts =>
      match parse_tokens ts with
      | ParseErr _ | ParsePanic _ | ParseFuel => mkCli 1 [] true
      | ParseOk prog =>
        (* 4. --check stops here: nothing executes, nothing is printed *)
        if c_check cfg then mkCli 0 [] false
        else
          (* 5. execute; both execute() and execute_with_debug() run the same statements *)
          let o := mkOracle (o_libm orc0) (o_draws orc0) (o_clock orc0) files (o_fs orc0) in
          match block_top (exec run_fuel_cli) prog (fresh_state [] [] input o dir) with
          | ROk _ st =>
            (* 6. debug text (if any) goes to standard error *)
            mkCli 0 (output_of st) (match c_debug cfg with DNone => false | _ => true end)
          | RErr _ _ st => mkCli 1 (output_of st) true
          | RExit st => mkCli 101 (output_of st) true              (* the robot's panic *)
          | RPanic _ st => mkCli 101 (output_of st) true
          | RFuel => mkCli 124 [] true                             (* not a real outcome: budget of the model *)
          end
      end
    end
  end.

(** did the program lex, parse and run to completion? *)
Definition completes (src dir input : text) (files : list (text * text)) (orc0 : oracle) : bool :=
  match lex src with
  | LexOk ts =>
    match parse_tokens ts with
    | ParseOk prog =>
      match block_top (exec run_fuel_cli) prog
                      (fresh_state [] [] input (mkOracle (o_libm orc0) (o_draws orc0) (o_clock orc0) files (o_fs orc0)) dir) with
      | ROk _ _ => true | _ => false
      end
    | _ => false
    end
  | _ => false
  end.

Definition checks_ok (src : text) : bool :=
  match lex src with
  | LexOk ts => match parse_tokens ts with ParseOk _ => true | _ => false end
  | _ => false
  end.
