(** FloatX: the IEEE-754 binary64 helpers the models need beyond the kernel primitives
    [+ - * / < <= =]: decimal -> double (correctly rounded), double -> shortest decimal text
    in Rust's positional layout, fmod, saturating casts, floor/ceil/trunc/round, bits.
    Everything is defined on the [spec_float] view ([Prim2SF] / [SF2Prim] at the boundary). *)
From Aplang Require Import Base.
From Coq Require Export Floats.
From Coq Require Import SpecFloat.
Open Scope Z_scope.

Definition prec := 53%Z.
Definition emax := 1024%Z.

Definition sf (f : float) : spec_float := Prim2SF f.

(** ** bits (for the correspondence check: numbers cross the boundary as bit patterns) *)
Definition float_bits (f : float) : N :=
  match sf f with
  | S754_nan => 9221120237041090560%N                       (* canonical quiet NaN 0x7ff8... ; sign ignored *)
  | S754_zero s => if s then 9223372036854775808%N else 0%N
  | S754_infinity s => ((if s then 9223372036854775808 else 0) + 9218868437227405312)%N
  | S754_finite s m e =>
    let mz := Zpos m in
    let sign := (if s then 9223372036854775808 else 0)%N in
    if mz <? 4503599627370496 then (sign + Z.to_N mz)%N      (* subnormal: e = -1074 *)
    else (sign + Z.to_N (e + 1075) * 4503599627370496 + Z.to_N (mz - 4503599627370496))%N
  end.

Definition float_of_bits (b : N) : float :=
  let s := (9223372036854775808 <=? b)%N in
  let r := (if s then b - 9223372036854775808 else b)%N in
  let ex := Z.of_N (r / 4503599627370496)%N in
  let fr := Z.of_N (r mod 4503599627370496)%N in
  if (ex =? 2047)%Z then (if (fr =? 0)%Z then (if s then neg_infinity else infinity) else nan)
  else if (ex =? 0)%Z then
    match fr with Zpos p => SF2Prim (S754_finite s p (-1074)%Z) | _ => if s then neg_zero else zero end
  else match (fr + 4503599627370496)%Z with Zpos p => SF2Prim (S754_finite s p (ex - 1075)%Z) | _ => nan end.

(** fast powers (square and multiply); [Z.pow] iterates the multiplication exponent-many times *)
Fixpoint pow_pos_fast (b : Z) (p : positive) : Z :=
  match p with
  | xH => b
  | xO p' => let t := pow_pos_fast b p' in t * t
  | xI p' => let t := pow_pos_fast b p' in b * (t * t)
  end.
Definition pow10 (k : Z) : Z := match k with Zpos p => pow_pos_fast 10 p | Z0 => 1 | Zneg _ => 0 end.
Definition pow2 (k : Z) : Z := match k with Zneg _ => 0 | _ => Z.shiftl 1 k end.

(** ** decimal -> double: the nearest double of  (-1)^neg * m * 10^e10, ties to even *)
Definition dec_to_sf (neg : bool) (m : N) (e10 : Z) : spec_float :=
  match m with
  | N0 => S754_zero neg
  | Npos p =>
    let digits := Z.log2 (Zpos p) / 3 + 1 in          (* >= number of decimal digits *)
    if 330 <? e10 + (Z.log2 (Zpos p) * 3 / 10) then S754_infinity neg      (* certainly >= 2^1024 *)
    else if e10 + digits <? -345 then S754_zero neg                        (* certainly < 2^-1075 *)
    else if 0 <=? e10 then binary_round prec emax neg (p * Z.to_pos (pow10 e10)) 0
    else
      let den := pow10 (- e10) in
      let s := Z.max 0 (66 + Z.log2 den - Z.log2 (Zpos p)) in
      let num := Zpos p * pow2 s in
      let q := num / den in
      let sticky := if num mod den =? 0 then 0 else 1 in
      match 2 * q + sticky with
      | Zpos q' => binary_round prec emax neg q' (- s - 1)
      | _ => S754_zero neg
      end
  end.

Definition dec_to_float (neg : bool) (m : N) (e10 : Z) : float := SF2Prim (dec_to_sf neg m e10).

(** digits (code points 48..57) to a number *)
Fixpoint digits_val (ds : text) (acc : N) : N :=
  match ds with [] => acc | d :: r => digits_val r (acc * 10 + (d - 48))%N end.

(** the lexer's number literal: [int] digits, optional [frac] digits *)
Definition literal_float (int_ frac : text) : float :=
  dec_to_float false (digits_val (int_ ++ frac) 0%N) (- Z.of_nat (length frac))%Z.

(** ** double -> text: shortest decimal that reads back, Rust's positional layout *)

(* compare a * 10^p with b * 2^q  (a, b >= 0) *)
Definition cmp_scaled (a p b q : Z) : comparison :=
  let l := a * (if 0 <=? p then pow10 p else 1) * (if q <? 0 then pow2 (- q) else 1) in
  let r := b * (if 0 <=? q then pow2 q else 1) * (if p <? 0 then pow10 (- p) else 1) in
  l ?= r.

(* floor (b * 2^q / 10^p) *)
Definition div_scaled (b q p : Z) : Z :=
  let num := b * (if 0 <=? q then pow2 q else 1) * (if p <? 0 then pow10 (- p) else 1) in
  let den := (if q <? 0 then pow2 (- q) else 1) * (if 0 <=? p then pow10 p else 1) in
  num / den.

(* floor(log10 (m * 2^e)) for m > 0 *)
Definition floor_log10 (m e : Z) : Z :=
  let est := ((Z.log2 m + e) * 30103) / 100000 in     (* within 1 of the answer *)
  let k := est - 1 in
  (* largest k' in {k, k+1, k+2} with 10^k' <= m*2^e *)
  let ok k' := match cmp_scaled 1 k' m e with Gt => false | _ => true end in
  if ok (k + 2) then k + 2 else if ok (k + 1) then k + 1 else k.

(* the digits and decimal exponent of the shortest representation of m * 2^e
   (value = 0.d1d2...dn * 10^(k+1), i.e. d1.d2...dn * 10^k) *)
Section Shortest.
  Variables (m e : Z).
  (* interval in units of 2^(e-2): value 4m, low 4m-lowgap, high 4m+2 *)
  Let v4 := 4 * m.
  Let boundary := (m =? 4503599627370496) && (-1074 <? e).
  Let lo4 := if boundary then v4 - 1 else v4 - 2.
  Let hi4 := v4 + 2.
  Let closed := Z.even m.
  Definition in_interval (d p : Z) : bool :=
    let c1 := cmp_scaled d p lo4 (e - 2) in
    let c2 := cmp_scaled d p hi4 (e - 2) in
    (match c1 with Gt => true | Eq => closed | Lt => false end) &&
    (match c2 with Lt => true | Eq => closed | Gt => false end).

  (* |d*10^p - v| compared for two candidates below/above: returns true when the upper one is
     at least as close (ties go up) *)
  Definition upper_closer (dl dh p : Z) : bool :=
    (* (v - dl*10^p) >= (dh*10^p - v)  <=>  2v >= (dl+dh)*10^p ; in units 2^(e-2): 2*v4 ... *)
    match cmp_scaled (dl + dh) p (2 * v4) (e - 2) with Gt => false | _ => true end.

  Fixpoint search (fuel : nat) (n : Z) (k : Z) : option (Z * Z) :=
    match fuel with
    | O => None
    | S f =>
      let p := k - (n - 1) in
      let dl := div_scaled v4 (e - 2) p in
      let dh := dl + 1 in
      let inl := in_interval dl p && (10 ^ (n - 1) <=? dl) in
      let inh := in_interval dh p in
      if inl && inh then Some (if upper_closer dl dh p then dh else dl, p)
      else if inl then Some (dl, p)
      else if inh then Some (dh, p)
      else search f (n + 1) k
    end.
End Shortest.

Fixpoint strip_zeros (fuel : nat) (d p : Z) : Z * Z :=
  match fuel with O => (d, p) | S f => if (d mod 10 =? 0) && (0 <? d) then strip_zeros f (d / 10) (p + 1) else (d, p) end.

Definition zeros (n : Z) : text := repeat_text 48%N (Z.to_nat n).

(* positional layout of digits [ds] (as a number d with nd digits) times 10^p *)
Definition layout (d p : Z) : text :=
  let ds := dec (Z.to_N d) in
  let nd := Z.of_nat (length ds) in
  if 0 <=? p then ds ++ zeros p
  else if 0 <? nd + p then firstn (Z.to_nat (nd + p)) ds ++ [46%N] ++ skipn (Z.to_nat (nd + p)) ds
  else [48%N; 46%N] ++ zeros (- (nd + p)) ++ ds.

Definition show_sf (x : spec_float) : text :=
  match x with
  | S754_nan => [78; 97; 78]%N
  | S754_infinity s => (if s then [45%N] else []) ++ [105; 110; 102]%N
  | S754_zero s => (if s then [45%N] else []) ++ [48%N]
  | S754_finite s m e =>
    let k := floor_log10 (Zpos m) e in
    (if s then [45%N] else []) ++
    match search (Zpos m) e 18 1 k with
    | Some (d, p) => let '(d', p') := strip_zeros 20 d p in layout d' p'
    | None => [63%N]          (* never: 17 digits always suffice *)
    end
  end.

Definition show_float (f : float) : text := show_sf (sf f).

(** ** fmod (Rust's [%] on f64) *)
Definition sf_fmod (a b : spec_float) : spec_float :=
  match a, b with
  | S754_nan, _ | _, S754_nan => S754_nan
  | S754_infinity _, _ => S754_nan
  | _, S754_zero _ => S754_nan
  | S754_zero s, _ => S754_zero s
  | S754_finite _ _ _, S754_infinity _ => a
  | S754_finite sa ma ea, S754_finite _ mb eb =>
    let e := Z.min ea eb in
    let A := Zpos ma * 2 ^ (ea - e) in
    let B := Zpos mb * 2 ^ (eb - e) in
    match A mod B with
    | Zpos r => binary_round prec emax sa r e
    | _ => S754_zero sa
    end
  end.
Definition fmod (a b : float) : float := SF2Prim (sf_fmod (sf a) (sf b)).

(** ** integer part and casts *)
(* truncation toward zero of a finite value, as a signed integer *)
Definition sf_trunc_Z (x : spec_float) : option Z :=
  match x with
  | S754_zero _ => Some 0
  | S754_finite s m e =>
    let a := if 0 <=? e then Zpos m * 2 ^ e else Zpos m / 2 ^ (- e) in
    Some (if s then - a else a)
  | _ => None
  end.

(* Rust's saturating [as usize] / [as u64] (64-bit) *)
Definition to_usize (f : float) : N :=
  match sf f with
  | S754_nan => 0%N
  | S754_infinity s => if s then 0%N else 18446744073709551615%N
  | x => match sf_trunc_Z x with
         | Some z => if z <? 0 then 0%N else if 18446744073709551615 <? z then 18446744073709551615%N else Z.to_N z
         | None => 0%N
         end
  end.

(* Rust's saturating [as i64] *)
Definition to_i64 (f : float) : Z :=
  match sf f with
  | S754_nan => 0
  | S754_infinity s => if s then -9223372036854775808 else 9223372036854775807
  | x => match sf_trunc_Z x with
         | Some z => Z.max (-9223372036854775808) (Z.min 9223372036854775807 z)
         | None => 0
         end
  end.

Definition of_Z (z : Z) : float :=
  match z with
  | Z0 => zero
  | Zpos p => SF2Prim (binary_round prec emax false p 0)
  | Zneg p => SF2Prim (binary_round prec emax true p 0)
  end.
Definition of_N (n : N) : float := of_Z (Z.of_N n).

(** rounding functions of the MATH module; [mode]: how the fractional part decides *)
Inductive rmode := RFloor | RCeil | RTrunc | RRound.

Definition sf_round_int (mode : rmode) (x : spec_float) : spec_float :=
  match x with
  | S754_finite s m e =>
    if 0 <=? e then x
    else
      let d := 2 ^ (- e) in
      let q := Zpos m / d in
      let r := Zpos m mod d in
      let up :=                     (* increase the magnitude? *)
        if r =? 0 then false else
        match mode with
        | RTrunc => false
        | RFloor => s
        | RCeil => negb s
        | RRound => d <=? 2 * r     (* half away from zero *)
        end in
      match (if up then q + 1 else q) with
      | Zpos p => binary_round prec emax s p 0
      | _ => S754_zero s
      end
  | _ => x
  end.
Definition round_int (mode : rmode) (f : float) : float := SF2Prim (sf_round_int mode (sf f)).

(** comparisons with Rust's semantics are the primitives: [ltb], [leb], [eqb] (NaN unordered) *)
Definition is_nan_f (f : float) : bool := match sf f with S754_nan => true | _ => false end.
