(** Refine: the implementation model (EvalImpl: scope stack with block copies, return slot,
    loop-flag stack) refines the reference semantics (EvalSpec: signals, one scope per
    activation), for every fuel, on well-formed programs. *)
From Aplang Require Import Base FloatX Token Ast Tables Robot Value StrLib LexImpl ParseImpl ParseSpec EvalImpl EvalSpec.
From Aplang.Gen Require Import Generated.
From Coq Require Import Lia.
Open Scope N_scope.

Definition fn_wf (f : fn) : Prop :=
  match f with FUser params body => wf_stmt true false body /\ (length params <= 255)%nat | FNative _ _ _ => True end.
Definition clean (st : state) : Prop :=
  (exists s, venv st = [s]) /\ retv st = None /\ loops st = [] /\
  Forall (fun p => fn_wf (snd p)) (funcs st) /\ Forall (fun p => fn_wf (snd p)) (exports st).

Definition tbl_wf (t : ftable) : Prop := Forall (fun p => fn_wf (snd p)) t.

(** * the frame: the fields the shared operations never look at *)
Definition FR (v : list scope) (fu ex : ftable) (r : option value) (l : list (bool * bool)) (p : text)
              (st : state) : state :=
  mkState v fu ex r l (heap st) (out st) (stdin_ st) (orc st) p.

Definition lift {A} (f : state -> state) (r : res A) : res A :=
  match r with
  | ROk x st => ROk x (f st)
  | RErr k sp st => RErr k sp (f st)
  | RExit st => RExit (f st)
  | RPanic s st => RPanic s (f st)
  | RFuel => RFuel
  end.

Definition commutes {A} (op : state -> res A) : Prop :=
  forall v fu ex r l p st, op (FR v fu ex r l p st) = lift (FR v fu ex r l p) (op st).

Lemma commutes_bind {A B} (m : state -> res A) (k : A -> state -> res B) :
  commutes m -> (forall a, commutes (k a)) -> commutes (fun st => rbind (m st) k).
Proof.
  intros Hm Hk v fu ex r l p st. rewrite Hm. destruct (m st); cbn; auto. apply Hk.
Qed.

Ltac break_match :=
  match goal with
  | |- context [match ?x with _ => _ end] => destruct x eqn:?
  end.

Lemma show_v_FR v fu ex r l p st x : show_v (FR v fu ex r l p st) x = show_v st x.
Proof. reflexivity. Qed.

Lemma map_find_FR v fu ex r l p st m k : map_find (FR v fu ex r l p st) m k = map_find st m k.
Proof. induction m as [|[k' v'] m IH]; cbn; auto. rewrite IH. reflexivity. Qed.

Lemma map_put_FR v fu ex r l p st m k x : map_put (FR v fu ex r l p st) m k x = map_put st m k x.
Proof. induction m as [|[k' v'] m IH]; cbn; auto. rewrite IH. reflexivity. Qed.

Lemma math_call_FR v fu ex r l p st n a : math_call (FR v fu ex r l p st) n a = math_call st n a.
Proof. reflexivity. Qed.

Lemma format_segments_FR v fu ex r l p st segs : forall items,
  format_segments segs items (FR v fu ex r l p st) = format_segments segs items st.
Proof.
  induction segs as [|s segs IH]; intros items; cbn; auto.
  destruct segs as [|s2 segs]; auto. destruct items as [|x items]; auto.
  rewrite IH. reflexivity.
Qed.

Lemma check_args_comm sig : forall args spans, commutes (check_args sig args spans).
Proof.
  induction sig as [|k sig IH]; intros args spans v fu ex r l p st; cbn; auto.
  destruct args as [|x args]; auto. destruct spans as [|sp spans]; auto.
  rewrite IH. cbn [heap FR].
  destruct k, x; auto; repeat break_match; auto.
Qed.

Lemma new_list_comm items : commutes (fun st => new_list st items).
Proof. intros v fu ex r l p st. reflexivity. Qed.

Lemma display_comm x nl : commutes (fun st => display st x nl).
Proof. intros v fu ex r l p st. unfold display. rewrite show_v_FR. destruct (show_v st x); reflexivity. Qed.

Lemma join_go_comm v fu ex r l p st sep : forall items acc,
  (fix go (l0 : list value) (acc0 : list text) {struct l0} : res value :=
     match l0 with
     | [] => ROk (VStr (join_with sep (rev acc0))) (FR v fu ex r l p st)
     | x :: r0 => match show_v (FR v fu ex r l p st) x with Some t => go r0 (t :: acc0) | None => RFuel end
     end) items acc =
  lift (FR v fu ex r l p)
  ((fix go (l0 : list value) (acc0 : list text) {struct l0} : res value :=
     match l0 with
     | [] => ROk (VStr (join_with sep (rev acc0))) st
     | x :: r0 => match show_v st x with Some t => go r0 (t :: acc0) | None => RFuel end
     end) items acc).
Proof.
  induction items as [|x items IH]; intros acc; auto.
  rewrite show_v_FR. destruct (show_v st x); auto.
Qed.

Lemma read_line_FR v fu ex r l p st :
  read_line (FR v fu ex r l p st) = (fst (read_line st), FR v fu ex r l p (snd (read_line st))).
Proof. unfold read_line. cbn [stdin_ FR]. destruct (take_while _ _). reflexivity. Qed.

Lemma native_body_comm m name args spans : commutes (native_body m name args spans).
Proof.
  intros v fu ex r l p st.
  unfold native_body, alloc, emit, heap_set.
  cbn [heap out stdin_ orc FR set_heap set_out set_stdin set_orc].
  repeat first
    [ reflexivity
    | rewrite math_call_FR
    | rewrite map_find_FR
    | rewrite map_put_FR
    | rewrite format_segments_FR
    | rewrite read_line_FR; destruct (read_line st); cbn [fst snd]
    | match goal with |- context [read_line (set_out (FR v fu ex r l p st) ?o)] =>
        change (set_out (FR v fu ex r l p st) o) with (FR v fu ex r l p (set_out st o));
        rewrite read_line_FR; destruct (read_line (set_out st o)); cbn [fst snd] end
    | apply (display_comm _ _ v fu ex r l p st)
    | apply join_go_comm
    | break_match ].
Qed.

Lemma fs_call_comm name args : commutes (fs_call name args).
Proof.
  intros v fu ex r l p st.
  unfold fs_call, set_fs, new_list, alloc.
  cbn [heap out stdin_ orc FR set_heap set_out set_stdin set_orc].
  repeat first [ reflexivity | rewrite show_v_FR | break_match ].
Qed.

Lemma native_call_comm m name sig args spans : commutes (native_call m name sig args spans).
Proof.
  unfold native_call. apply commutes_bind.
  - apply check_args_comm.
  - intros _. destruct (str_eq m "FS"); [apply fs_call_comm | apply native_body_comm].
Qed.

Lemma apply_binop_comm op tok a b : commutes (apply_binop op tok a b).
Proof.
  intros v fu ex r l p st. unfold apply_binop.
  cbn [heap FR].
  repeat first [ reflexivity | rewrite show_v_FR | break_match ].
Qed.

Lemma apply_unop_comm op tok a : commutes (apply_unop op tok a).
Proof.
  intros v fu ex r l p st. unfold apply_unop.
  repeat first [ reflexivity | break_match ].
Qed.

Lemma truthy_r_comm a : commutes (truthy_r a).
Proof. intros v fu ex r l p st. unfold truthy_r. destruct (truthy a); reflexivity. Qed.

(** * tables of well-formed procedures *)
Lemma ft_get_wf t x f : tbl_wf t -> ft_get t x = Some f -> fn_wf f.
Proof.
  unfold tbl_wf. induction t as [|[y g] t IH]; cbn; intros Hw H; [discriminate|].
  inversion Hw; subst. destruct (text_eqb x y); [inversion H; subst; auto | auto].
Qed.

Lemma ft_remove_wf t x : tbl_wf t -> tbl_wf (ft_remove t x).
Proof.
  unfold tbl_wf. induction t as [|[y g] t IH]; cbn; intros Hw; auto.
  inversion Hw; subst. destruct (text_eqb x y); [auto | constructor; auto].
Qed.

Lemma ft_set_wf t x f : tbl_wf t -> fn_wf f -> tbl_wf (ft_set t x f).
Proof. intros Hw Hf. unfold ft_set. constructor; auto. apply ft_remove_wf; auto. Qed.

Lemma ft_extend_wf more : forall t, tbl_wf t -> tbl_wf more -> tbl_wf (ft_extend t more).
Proof.
  unfold ft_extend. induction more as [|[y g] more IH]; cbn; intros t Ht Hm; auto.
  inversion Hm; subst. apply IH; auto. apply ft_set_wf; auto.
Qed.

Lemma module_table_wf m : tbl_wf (module_table m).
Proof.
  unfold module_table, tbl_wf. apply Forall_forall. intros x Hx.
  apply in_map_iff in Hx. destruct Hx as [e [<- _]]. exact I.
Qed.

Lemma initial_funcs_wf : tbl_wf initial_funcs.
Proof.
  unfold initial_funcs, tbl_wf. apply Forall_forall. intros x Hx.
  apply in_flat_map in Hx. destruct Hx as [m [_ Hx]].
  pose proof (module_table_wf m) as H. unfold tbl_wf in H. rewrite Forall_forall in H. auto.
Qed.

Lemma tbl_wf_rev t : tbl_wf t -> tbl_wf (rev t).
Proof. unfold tbl_wf. intros H. apply Forall_forall. intros x Hx. rewrite Forall_forall in H. apply H. apply in_rev. auto. Qed.

Theorem fresh_state_clean : forall h o i orc0 d, clean (fresh_state h o i orc0 d).
Proof.
  intros. unfold clean, fresh_state. cbn. repeat split; eauto. apply initial_funcs_wf.
Qed.

(** * the simulation relation *)
Record R (si ss : state) : Prop := mkR {
  R_funcs : funcs si = funcs ss;
  R_exports : exports si = exports ss;
  R_heap : heap si = heap ss;
  R_out : out si = out ss;
  R_stdin : stdin_ si = stdin_ ss;
  R_orc : orc si = orc ss;
  R_path : path si = path ss;
  R_venv : exists top below, venv si = top :: below /\ venv ss = [top];
  R_fwf : tbl_wf (funcs si);
  R_ewf : tbl_wf (exports si) }.

Definition same_frame (si si' : state) : Prop :=
  tl (venv si') = tl (venv si) /\ retv si' = retv si /\ loops si' = loops si.

Definition flags_clear (l : list (bool * bool)) : Prop :=
  match l with (b, c) :: _ => b = false /\ c = false | [] => True end.
Definition ent (si : state) : Prop := retv si = None /\ flags_clear (loops si).

Lemma same_frame_refl si : same_frame si si.
Proof. repeat split. Qed.
Lemma same_frame_trans a b c : same_frame a b -> same_frame b c -> same_frame a c.
Proof. unfold same_frame. intros (?&?&?) (?&?&?). repeat split; congruence. Qed.
Lemma ent_frame a b : ent a -> same_frame a b -> ent b.
Proof. unfold ent, same_frame. intros (?&?) (?&?&?). split; congruence. Qed.

Definition res_rel {A B} (P : A -> state -> B -> state -> Prop) (ri : res A) (rs : res B) : Prop :=
  match ri, rs with
  | ROk a si, ROk b ss => P a si b ss
  | RErr k sp si, RErr k' sp' ss => k = k' /\ sp = sp' /\ out si = out ss
  | RExit si, RExit ss => out si = out ss
  | RPanic p si, RPanic p' ss => p = p' /\ out si = out ss
  | RFuel, RFuel => True
  | _, _ => False
  end.

Lemma res_rel_bind {A B A' B'} (P : A -> state -> B -> state -> Prop) (Q : A' -> state -> B' -> state -> Prop)
      (mi : res A) (ms : res B) ki ks :
  res_rel P mi ms ->
  (forall a si b ss, P a si b ss -> res_rel Q (ki a si) (ks b ss)) ->
  res_rel Q (rbind mi ki) (rbind ms ks).
Proof. intros H Hk. destruct mi, ms; cbn in *; try contradiction; auto. Qed.

Lemma res_rel_mono {A B} (P Q : A -> state -> B -> state -> Prop) ri rs :
  res_rel P ri rs -> (forall a si b ss, P a si b ss -> Q a si b ss) -> res_rel Q ri rs.
Proof. intros H Hk. destruct ri, rs; cbn in *; try contradiction; auto. Qed.

Lemma res_rel_observe {A B} (P : A -> state -> B -> state -> Prop) ri rs :
  res_rel P ri rs -> (forall a si b ss, P a si b ss -> out si = out ss) -> observe ri = observe rs.
Proof.
  intros H Hk. destruct ri, rs; cbn in *; try contradiction; auto; unfold output_of.
  - rewrite (Hk _ _ _ _ H). reflexivity.
  - destruct H as (-> & -> & ->). reflexivity.
  - rewrite H. reflexivity.
  - destruct H as (_ & ->). reflexivity.
Qed.

Definition Qe (si : state) : value -> state -> value -> state -> Prop :=
  fun a si' b ss' => a = b /\ R si' ss' /\ same_frame si si'.

Lemma R_FR si ss : R si ss -> si = FR (venv si) (funcs si) (exports si) (retv si) (loops si) (path si) ss.
Proof. intros []. destruct si, ss; cbn in *; subst. reflexivity. Qed.

Lemma shared_op {A} (op : state -> res A) : commutes op -> forall si ss, R si ss ->
  res_rel (fun a si' b ss' => a = b /\ R si' ss' /\ same_frame si si') (op si) (op ss).
Proof.
  intros Hc si ss HR.
  pose proof (Hc (venv si) (funcs si) (exports si) (retv si) (loops si) (path si) ss) as E.
  rewrite <- (R_FR _ _ HR) in E. rewrite E.
  pose proof (Hc (venv ss) (funcs ss) (exports ss) (retv ss) (loops ss) (path ss) ss) as E2.
  assert (Hss : FR (venv ss) (funcs ss) (exports ss) (retv ss) (loops ss) (path ss) ss = ss) by (destruct ss; reflexivity).
  rewrite Hss in E2.
  destruct (op ss) as [x s|k sp s|s|site s|]; cbn; auto.
  cbn in E2. inversion E2 as [E3].
  split; [reflexivity|]. split; [|repeat split].
  destruct HR. constructor; cbn; auto.

Qed.

(** * how [R] moves under the state setters *)
Lemma R_inv si ss : R si ss ->
  exists top below, venv si = top :: below /\ venv ss = [top] /\ cur_scope ss = top.
Proof.
  intros HR. destruct (R_venv _ _ HR) as (top & below & H1 & H2).
  exists top, below. repeat split; auto. unfold cur_scope. rewrite H2. reflexivity.
Qed.

Lemma R_venv_upd si ss t b : R si ss -> R (set_venv si (t :: b)) (set_venv ss [t]).
Proof. intros []. constructor; cbn; eauto. Qed.

Lemma R_set_loops si ss l : R si ss -> R (set_loops si l) ss.
Proof. intros []. constructor; cbn; eauto. Qed.

Lemma R_set_retv si ss r : R si ss -> R (set_retv si r) ss.
Proof. intros []. constructor; cbn; eauto. Qed.

Lemma R_set_heap si ss h : R si ss -> R (set_heap si h) (set_heap ss h).
Proof. intros []. constructor; cbn; eauto. Qed.

Lemma R_heap_set si ss a c : R si ss -> R (heap_set si a c) (heap_set ss a c).
Proof. intros HR. unfold heap_set. rewrite (R_heap _ _ HR). apply R_set_heap; auto. Qed.

Lemma R_set_funcs si ss t : R si ss -> tbl_wf t -> R (set_funcs si t) (set_funcs ss t).
Proof. intros [] Ht. constructor; cbn; eauto. Qed.

Lemma R_set_exports si ss t : R si ss -> tbl_wf t -> R (set_exports si t) (set_exports ss t).
Proof. intros [] Ht. constructor; cbn; eauto. Qed.

Lemma R_refl_clean st : clean st -> R st st.
Proof. intros ((s & Hs) & _ & _ & Hf & He). constructor; auto. exists s, []. auto. Qed.

(** * the statements of the induction *)
Definition ev_ok (ev sev : expr -> state -> res value) : Prop :=
  forall e si ss, R si ss -> ent si -> res_rel (Qe si) (ev e si) (sev e ss).

Definition encodes (in_fn in_loop : bool) (si si' : state) (sg : signal) : Prop :=
  match sg with
  | Normal => retv si' = None /\ loops si' = loops si
  | Return v => in_fn = true /\ retv si' = Some v /\ loops si' = loops si
  | Break => in_loop = true /\ retv si' = None /\
             exists r, loops si = (false, false) :: r /\ loops si' = (true, false) :: r
  | Continue => in_loop = true /\ retv si' = None /\
             exists r, loops si = (false, false) :: r /\ loops si' = (false, true) :: r
  end.

Definition Qs (in_fn in_loop : bool) (si : state) : unit -> state -> signal -> state -> Prop :=
  fun _ si' sg ss' => R si' ss' /\ tl (venv si') = tl (venv si) /\ encodes in_fn in_loop si si' sg.

Definition entry (in_loop : bool) (si : state) : Prop :=
  ent si /\ (in_loop = true -> exists r, loops si = (false, false) :: r).

Definition ex_ok (ex : stmt -> state -> res unit) (sex : stmt -> state -> res signal) : Prop :=
  forall s in_fn in_loop si ss, wf_stmt in_fn in_loop s -> R si ss -> entry in_loop si ->
    res_rel (Qs in_fn in_loop si) (ex s si) (sex s ss).

(* the outcome of a loop, seen from inside the pushed flag frame [r] *)
Definition Ql (in_fn : bool) (r : list (bool * bool)) (si : state) : unit -> state -> signal -> state -> Prop :=
  fun _ si' sg ss' => R si' ss' /\ tl (venv si') = tl (venv si) /\ loops si' = (false, false) :: r /\
    match sg with
    | Normal => retv si' = None
    | Return v => in_fn = true /\ retv si' = Some v
    | _ => False
    end.

Lemma Qe_shift si si1 ri rs : same_frame si si1 -> res_rel (Qe si1) ri rs -> res_rel (Qe si) ri rs.
Proof.
  intros HF H. eapply res_rel_mono; [exact H|]. intros a s b s' (-> & HR & HF2).
  split; [reflexivity|]. split; auto. eapply same_frame_trans; eauto.
Qed.

Lemma encodes_shift in_fn in_loop si si1 si' sg :
  loops si1 = loops si -> encodes in_fn in_loop si1 si' sg -> encodes in_fn in_loop si si' sg.
Proof. intros E. destruct sg; cbn; rewrite E; auto. Qed.

Lemma Qs_shift in_fn in_loop si si1 ri rs :
  tl (venv si1) = tl (venv si) -> loops si1 = loops si ->
  res_rel (Qs in_fn in_loop si1) ri rs -> res_rel (Qs in_fn in_loop si) ri rs.
Proof.
  intros Hv Hl H. eapply res_rel_mono; [exact H|]. intros a s b s' (HR & Hv2 & He).
  split; auto. split; [congruence|]. eapply encodes_shift; eauto.
Qed.

Lemma Ql_shift in_fn r si si1 ri rs :
  tl (venv si1) = tl (venv si) ->
  res_rel (Ql in_fn r si1) ri rs -> res_rel (Ql in_fn r si) ri rs.
Proof.
  intros Hv H. eapply res_rel_mono; [exact H|]. intros a s b s' (HR & Hv2 & He).
  split; auto. split; [congruence|]. auto.
Qed.

Lemma ent_entry si r : retv si = None -> loops si = (false, false) :: r -> entry true si.
Proof. intros H1 H2. split; [split; auto; rewrite H2; cbn; auto | eauto]. Qed.

Lemma wf_block_forall in_fn in_loop ss : wf_stmt in_fn in_loop (SBlock ss) -> Forall (wf_stmt in_fn in_loop) ss.
Proof.
  induction ss as [|s ss IH]; intros H; constructor.
  - exact (proj1 H).
  - apply IH. exact (proj2 H).
Qed.

(** * arguments *)
Lemma eval_args_ok ev sev : ev_ok ev sev -> forall es si ss, R si ss -> ent si ->
  res_rel (fun vs si' vs' ss' => vs = vs' /\ R si' ss' /\ same_frame si si')
          (eval_args ev es si) (eval_args sev es ss).
Proof.
  intros Hev. induction es as [|e es IH]; intros si ss HR He; cbn [eval_args].
  - cbn. split; [|split]; auto using same_frame_refl.
  - eapply res_rel_bind; [apply Hev; auto|]. intros a si1 b ss1 (-> & HR1 & HF1).
    eapply res_rel_bind; [apply IH; eauto using ent_frame|]. intros vs si2 vs' ss2 (-> & HR2 & HF2).
    cbn. split; [|split]; auto. eapply same_frame_trans; eauto.
Qed.

(** * blocks *)
Lemma block_ok ex sex in_fn in_loop : ex_ok ex sex -> forall l, Forall (wf_stmt in_fn in_loop) l ->
  forall si ss, R si ss -> entry in_loop si ->
  res_rel (Qs in_fn in_loop si) (block_stmts ex l si) (s_block sex l ss).
Proof.
  intros Hex l Hl. induction Hl as [|s l Hs Hl IH]; intros si ss HR Hen.
  - cbn. split; [|split]; auto. split; auto. apply Hen.
  - cbn [block_stmts s_block].
    destruct Hen as [[Hrv Hfc] Hlp].
    assert (Htf : top_flags si = false).
    { unfold top_flags. destruct (loops si) as [|[b c] r]; auto. destruct Hfc; subst; auto. }
    rewrite Htf, Hrv.
    eapply res_rel_bind; [apply (Hex s in_fn in_loop); auto; split; [split|]; auto|].
    intros [] si1 sg ss1 (HR1 & Hv1 & He1).
    destruct sg; cbn in He1.
    + destruct He1 as [Hrv1 Hl1].
      eapply Qs_shift; [exact Hv1 | exact Hl1 |].
      apply IH; auto. split; [split|]; auto; rewrite Hl1; auto.
    + destruct He1 as (Hil & Hrv1 & r & Hr & Hr1).
      assert (E : block_stmts ex l si1 = ROk tt si1).
      { destruct l; cbn [block_stmts]; auto. unfold top_flags. rewrite Hr1. reflexivity. }
      rewrite E. cbn. split; [auto | split; [auto | cbn; eauto 8]].
    + destruct He1 as (Hil & Hrv1 & r & Hr & Hr1).
      assert (E : block_stmts ex l si1 = ROk tt si1).
      { destruct l; cbn [block_stmts]; auto. unfold top_flags. rewrite Hr1. reflexivity. }
      rewrite E. cbn. split; [auto | split; [auto | cbn; eauto 8]].
    + destruct He1 as (Hif & Hrv1 & Hl1).
      assert (E : block_stmts ex l si1 = ROk tt si1).
      { destruct l; cbn [block_stmts]; auto. rewrite Hrv1. destruct (top_flags si1); reflexivity. }
      rewrite E. cbn. split; [auto | split; [auto | cbn; eauto 8]].
Qed.

(** * loops *)
Lemma after_times_enc in_fn si si' sg r :
  loops si = (false, false) :: r -> encodes in_fn true si si' sg ->
  match sg with
  | Normal => after_times si' = Some (GoOn, si') /\ retv si' = None /\ loops si' = (false, false) :: r
  | Continue => after_times si' = Some (GoOn, set_loops si' ((false, false) :: r)) /\ retv si' = None
  | Break => after_times si' = Some (Stop, set_loops si' ((false, false) :: r)) /\ retv si' = None
  | Return v => after_times si' = Some (Stop, si') /\ in_fn = true /\ retv si' = Some v /\
                loops si' = (false, false) :: r
  end.
Proof.
  intros Hl He. unfold after_times. destruct sg; cbn in He.
  - destruct He as [H1 H2]. rewrite H1, H2, Hl. auto.
  - destruct He as (_ & H1 & r' & H2 & H3). rewrite Hl in H2. inversion H2; subst r'. rewrite H1, H3. auto.
  - destruct He as (_ & H1 & r' & H2 & H3). rewrite Hl in H2. inversion H2; subst r'. rewrite H1, H3. auto.
  - destruct He as (H0 & H1 & H2). rewrite H1. repeat split; auto. congruence.
Qed.

Lemma after_until_enc in_fn si si' sg r :
  loops si = (false, false) :: r -> encodes in_fn true si si' sg ->
  match sg with
  | Normal => after_until si' = Some (GoOn, true, si') /\ retv si' = None /\ loops si' = (false, false) :: r
  | Continue => after_until si' = Some (GoOn, false, set_loops si' ((false, false) :: r)) /\ retv si' = None
  | Break => after_until si' = Some (Stop, false, set_loops si' ((false, false) :: r)) /\ retv si' = None
  | Return v => after_until si' = Some (Stop, false, si') /\ in_fn = true /\ retv si' = Some v /\
                loops si' = (false, false) :: r
  end.
Proof.
  intros Hl He. unfold after_until. destruct sg; cbn in He.
  - destruct He as [H1 H2]. rewrite H1, H2, Hl. auto.
  - destruct He as (_ & H1 & r' & H2 & H3). rewrite Hl in H2. inversion H2; subst r'. rewrite H1, H3. auto.
  - destruct He as (_ & H1 & r' & H2 & H3). rewrite Hl in H2. inversion H2; subst r'. rewrite H1, H3. auto.
  - destruct He as (H0 & H1 & H2). rewrite H1. repeat split; auto. congruence.
Qed.

Lemma Ql_intro in_fn r si si' ss' sg :
  R si' ss' -> tl (venv si') = tl (venv si) -> loops si' = (false, false) :: r ->
  match sg with Normal => retv si' = None | Return v => in_fn = true /\ retv si' = Some v | _ => False end ->
  Ql in_fn r si tt si' sg ss'.
Proof. intros. split; [|split; [|split]]; auto. Qed.

Lemma times_ok ex sex in_fn body : ex_ok ex sex -> wf_stmt in_fn true body ->
  forall k n si ss r, R si ss -> retv si = None -> loops si = (false, false) :: r ->
  res_rel (Ql in_fn r si) (times_loop ex k n body si) (s_times sex k n body ss).
Proof.
  intros Hex Hwf. induction k as [|k IH]; intros n si ss r HR Hrv Hl; cbn [times_loop s_times]; [exact I|].
  destruct (n =? 0).
  { cbn. apply Ql_intro; auto. }
  eapply res_rel_bind; [apply (Hex body in_fn true); eauto using ent_entry|].
  intros [] si1 sg ss1 (HR1 & Hv1 & He1).
  pose proof (after_times_enc _ _ _ _ _ Hl He1) as Ha.
  destruct sg.
  - destruct Ha as (-> & Hrv1 & Hl1). eapply Ql_shift; [exact Hv1|]. apply IH; auto.
  - destruct Ha as (-> & Hrv1). cbn. apply Ql_intro; cbn; auto using R_set_loops.
  - destruct Ha as (-> & Hrv1). eapply Ql_shift with (si1 := set_loops si1 ((false, false) :: r)); [exact Hv1|].
    apply IH; cbn; auto using R_set_loops.
  - destruct Ha as (-> & Hif & Hrv1 & Hl1). cbn. apply Ql_intro; auto.
Qed.

Lemma until_ok ev sev ex sex in_fn c body : ev_ok ev sev -> ex_ok ex sex -> wf_stmt in_fn true body ->
  forall k si ss r, R si ss -> retv si = None -> loops si = (false, false) :: r ->
  res_rel (Ql in_fn r si) (until_loop ev ex k c body si) (s_until sev sex k c body ss).
Proof.
  intros Hev Hex Hwf. induction k as [|k IH]; intros si ss r HR Hrv Hl; cbn [until_loop s_until]; [exact I|].
  assert (Hent : ent si) by (split; auto; rewrite Hl; cbn; auto).
  eapply res_rel_bind; [apply Hev; auto|]. intros a sa b sb (-> & HRa & HFa).
  eapply res_rel_bind; [apply (shared_op _ (truthy_r_comm b)); auto|]. intros t sb1 t' sb1' (-> & HRb & HFb).
  pose proof (same_frame_trans _ _ _ HFa HFb) as (Hv0 & Hrv0 & Hl0).
  destruct t'.
  { cbn. apply Ql_intro; auto; congruence. }
  rewrite Hrv in Hrv0. rewrite Hl in Hl0.
  eapply res_rel_bind; [apply (Hex body in_fn true); eauto using ent_entry|].
  intros [] si1 sg ss1 (HR1 & Hv1 & He1).
  pose proof (after_until_enc _ _ _ _ _ Hl0 He1) as Ha.
  assert (Hv : tl (venv si1) = tl (venv si)) by congruence.
  destruct sg.
  - destruct Ha as (-> & Hrv1 & Hl1). eapply Ql_shift; [exact Hv|]. apply IH; auto.
  - destruct Ha as (-> & Hrv1). cbn. apply Ql_intro; cbn; auto using R_set_loops.
  - destruct Ha as (-> & Hrv1). eapply Ql_shift with (si1 := set_loops si1 ((false, false) :: r)); [exact Hv|].
    apply IH; cbn; auto using R_set_loops.
  - destruct Ha as (-> & Hif & Hrv1 & Hl1). cbn. apply Ql_intro; auto.
Qed.

Lemma each_ok ex sex in_fn body a x len : ex_ok ex sex -> wf_stmt in_fn true body ->
  forall k i si ss r, R si ss -> retv si = None -> loops si = (false, false) :: r ->
  res_rel (Ql in_fn r si) (each_loop ex k a x i len body si) (s_each sex k a x i len body ss).
Proof.
  intros Hex Hwf. induction k as [|k IH]; intros i si ss r HR Hrv Hl; cbn [each_loop s_each]; [exact I|].
  destruct (Nat.leb len i).
  { cbn. apply Ql_intro; auto. }
  rewrite (R_heap _ _ HR).
  destruct (list_at (heap ss) a) as [l|]; [|cbn; split; auto; apply HR].
  destruct (nth_error l i) as [item|]; [|cbn; apply Ql_intro; auto].
  destruct (R_inv _ _ HR) as (top & below & Hvi & Hvs & Hcs).
  unfold define. rewrite Hvi, Hcs. unfold with_scope.
  pose proof (R_venv_upd si ss (scope_set top x item) below HR) as HR0.
  eapply res_rel_bind; [apply (Hex body in_fn true); eauto using ent_entry|].
  intros [] si1 sg ss1 (HR1 & Hv1 & He1). cbn [venv set_venv tl] in Hv1.
  assert (Hl0 : loops (set_venv si (scope_set top x item :: below)) = (false, false) :: r) by exact Hl.
  pose proof (after_until_enc _ _ _ _ _ Hl0 He1) as Ha.
  assert (Hv : tl (venv si1) = tl (venv si)) by (rewrite Hvi; exact Hv1).
  destruct sg.
  - destruct Ha as (-> & Hrv1 & Hl1).
    destruct (R_inv _ _ HR1) as (top1 & below1 & Hvi1 & Hvs1 & Hcs1).
    rewrite Hvi1, Hcs1. rewrite Hvi1 in Hv1. cbn [tl] in Hv1. subst below1.
    destruct (scope_get top1 x) as [v|]; [|cbn; split; auto; apply HR1].
    pose proof (R_venv_upd si1 ss1 (scope_remove top1 x) below HR1) as HR2.
    cbn [heap set_venv]. rewrite (R_heap _ _ HR1).
    destruct (list_at (heap ss1) a) as [l'|].
    + destruct (Nat.ltb i (length l')).
      * eapply Ql_shift; [|apply IH; [apply R_heap_set; exact HR2| |]]; cbn; auto. rewrite Hvi; reflexivity.
      * eapply Ql_shift; [|apply IH; [exact HR2| |]]; cbn; auto. rewrite Hvi; reflexivity.
    + eapply Ql_shift; [|apply IH; [exact HR2| |]]; cbn; auto. rewrite Hvi; reflexivity.
  - destruct Ha as (-> & Hrv1). cbn. apply Ql_intro; cbn; auto using R_set_loops.
  - destruct Ha as (-> & Hrv1). eapply Ql_shift with (si1 := set_loops si1 ((false, false) :: r)); [exact Hv|].
    apply IH; cbn; auto using R_set_loops.
  - destruct Ha as (-> & Hif & Hrv1 & Hl1). cbn. apply Ql_intro; auto.
Qed.

(** * procedure calls *)
Lemma bind_params pvs : forall st sc rest, venv st = sc :: rest ->
  fold_left (fun s pv => match define s (fst pv) (snd pv) with Some s' => s' | None => s end) pvs st
  = set_venv st (fold_left (fun sc0 (pv : text * value) => scope_set sc0 (fst pv) (snd pv)) pvs sc :: rest).
Proof.
  induction pvs as [|[y v] pvs IH]; intros st sc rest Hv; cbn [fold_left].
  - destruct st; cbn in *; subst; reflexivity.
  - unfold define at 2. rewrite Hv. cbn [fst snd].
    rewrite (IH _ (scope_set sc y v) rest); reflexivity.
Qed.

Lemma Qe_intro si a si' ss' : R si' ss' -> same_frame si si' -> Qe si a si' a ss'.
Proof. intros. split; [reflexivity|]. split; auto. Qed.

Ltac err_leaf HR := cbn [res_rel]; repeat split; auto; apply (R_out _ _ HR).

(** * expressions, one fuel step *)
Lemma eval_step f : ev_ok (eval f) (seval f) -> ex_ok (exec f) (sexec f) -> ev_ok (eval (S f)) (seval (S f)).
Proof.
  intros Hev Hex e si ss HR He. destruct e; cbn [eval seval].
  - (* EGroup *) apply Hev; auto.
  - cbn. apply Qe_intro; auto using same_frame_refl.
  - cbn. apply Qe_intro; auto using same_frame_refl.
  - cbn. apply Qe_intro; auto using same_frame_refl.
  - cbn. apply Qe_intro; auto using same_frame_refl.
  - cbn. apply Qe_intro; auto using same_frame_refl.
  - (* EBin *)
    eapply res_rel_bind; [apply Hev; auto|]. intros a s1 b s1' (-> & HR1 & HF1).
    eapply res_rel_bind; [apply Hev; eauto using ent_frame|]. intros a2 s2 b2 s2' (-> & HR2 & HF2).
    eapply Qe_shift; [eapply same_frame_trans; eauto|].
    apply (shared_op _ (apply_binop_comm op tok b b2)); auto.
  - (* ELog *)
    eapply res_rel_bind; [apply Hev; auto|]. intros a s1 b s1' (-> & HR1 & HF1).
    eapply res_rel_bind; [apply (shared_op _ (truthy_r_comm b)); auto|]. intros t s2 t' s2' (-> & HR2 & HF2).
    pose proof (same_frame_trans _ _ _ HF1 HF2) as HF.
    destruct (match op with LOr => t' | LAnd => negb t' end).
    + cbn. apply Qe_intro; auto.
    + eapply Qe_shift; [exact HF|]. apply Hev; eauto using ent_frame.
  - (* EUn *)
    eapply res_rel_bind; [apply Hev; auto|]. intros a s1 b s1' (-> & HR1 & HF1).
    eapply Qe_shift; [exact HF1|].
    apply (shared_op _ (apply_unop_comm op tok b)); auto.
  - (* ECall *)
    eapply res_rel_bind; [apply eval_args_ok; eauto|]. intros vs s1 vs' s1' (-> & HR1 & HF1).
    rewrite (R_funcs _ _ HR1).
    destruct (ft_get (funcs s1') name) as [fnv|] eqn:Eg; [|err_leaf HR1].
    assert (Hfw : fn_wf fnv).
    { eapply ft_get_wf; [|exact Eg]. rewrite <- (R_funcs _ _ HR1). apply HR1. }
    destruct fnv as [params body|m nm sig].
    + destruct Hfw as [Hwb Hlen].
      assert (Hlt : (N.of_nat (length params) <? 256) = true) by (apply N.ltb_lt; lia).
      rewrite Hlt.
      destruct (Nat.eqb (length params) (length vs')); cbn [negb]; [|err_leaf HR1].
      destruct (R_inv _ _ HR1) as (top & below & Hvi & Hvs & Hcs).
      rewrite (bind_params _ _ [] (venv s1)) by reflexivity.
      set (callee := fold_left (fun sc0 (pv : text * value) => scope_set sc0 (fst pv) (snd pv)) (combine params vs') []).
      assert (HRc : R (set_venv (set_retv (set_venv s1 ([] :: venv s1)) None) (callee :: venv s1))
                      (with_scope s1' callee)).
      { destruct HR1. constructor; cbn; eauto. }
      destruct HF1 as (Hv1 & Hrv1 & Hl1). destruct He as [Hrv Hfc].
      eapply res_rel_bind.
      { apply (Hex body true false); [exact Hwb | exact HRc |].
        split; [split; cbn; auto; rewrite Hl1; auto | discriminate]. }
      intros [] s4 sg s4' (HR4 & Hv4 & He4). cbn [venv set_venv tl] in Hv4.
      destruct (R_inv _ _ HR4) as (top4 & below4 & Hvi4 & Hvs4 & Hcs4).
      rewrite Hvi4. rewrite Hvi4 in Hv4. cbn [tl] in Hv4. subst below4.
      assert (HRr : R (set_retv (set_venv s4 (venv s1)) (retv s1)) (set_venv s4' (venv s1'))).
      { apply R_set_retv. rewrite Hvi, Hvs. apply R_venv_upd; auto. }
      assert (HFr : same_frame si (set_retv (set_venv s4 (venv s1)) (retv s1))).
      { split; [|split]; cbn; auto. destruct sg; cbn in He4.
        - destruct He4 as [_ H]; rewrite H; exact Hl1.
        - destruct He4 as [H _]; discriminate.
        - destruct He4 as [H _]; discriminate.
        - destruct He4 as (_ & _ & H); rewrite H; exact Hl1. }
      destruct sg; cbn in He4.
      * destruct He4 as [H _]. rewrite H. cbn. apply Qe_intro; auto.
      * destruct He4 as [H _]; discriminate.
      * destruct He4 as [H _]; discriminate.
      * destruct He4 as (_ & H & _). rewrite H. cbn. apply Qe_intro; auto.
    + destruct (Nat.eqb (length sig) (length vs')); cbn [negb]; [|err_leaf HR1].
      eapply Qe_shift; [exact HF1|].
      apply (shared_op _ (native_call_comm m nm sig vs' arg_spans)); auto.
  - (* EAccess *)
    eapply res_rel_bind; [apply Hev; auto|]. intros a s1 b s1' (-> & HR1 & HF1).
    eapply res_rel_bind; [apply Hev; eauto using ent_frame|]. intros a2 s2 b2 s2' (-> & HR2 & HF2).
    pose proof (same_frame_trans _ _ _ HF1 HF2) as HF.
    rewrite (R_heap _ _ HR2).
    destruct b2; try (err_leaf HR2).
    destruct b; try (err_leaf HR2).
    + destruct (nth_N s (index_of f0)); [cbn; apply Qe_intro; auto | err_leaf HR2].
    + destruct (list_at (heap s2') a); [|err_leaf HR2].
      destruct (nth_N l (index_of f0)); [cbn; apply Qe_intro; auto | err_leaf HR2].
  - (* EList *)
    eapply res_rel_bind; [apply eval_args_ok; eauto|]. intros vs s1 vs' s1' (-> & HR1 & HF1).
    eapply Qe_shift; [exact HF1|].
    apply (shared_op (fun st => new_list st vs') (new_list_comm vs')); auto.
  - (* EVar *)
    destruct (R_inv _ _ HR) as (top & below & Hvi & Hvs & Hcs).
    unfold lookup. rewrite Hvi, Hcs.
    destruct (scope_get top name); [cbn; apply Qe_intro; auto using same_frame_refl | err_leaf HR].
  - (* EAssign *)
    eapply res_rel_bind; [apply Hev; auto|]. intros a s1 b s1' (-> & HR1 & HF1).
    destruct (R_inv _ _ HR1) as (top & below & Hvi & Hvs & Hcs).
    unfold define. rewrite Hvi, Hcs. cbn. apply Qe_intro.
    + apply R_venv_upd; auto.
    + destruct HF1 as (H1 & H2 & H3). split; [|split]; cbn; auto. rewrite <- H1, Hvi. reflexivity.
  - (* ESet *)
    eapply res_rel_bind; [apply Hev; auto|]. intros a s1 b s1' (-> & HR1 & HF1).
    eapply res_rel_bind; [apply Hev; eauto using ent_frame|]. intros a2 s2 b2 s2' (-> & HR2 & HF2).
    pose proof (same_frame_trans _ _ _ HF1 HF2) as HF12.
    eapply res_rel_bind; [apply Hev; eauto using ent_frame|]. intros a3 s3 b3 s3' (-> & HR3 & HF3).
    pose proof (same_frame_trans _ _ _ HF12 HF3) as HF.
    rewrite (R_heap _ _ HR3).
    destruct b; try (err_leaf HR3).
    destruct b2; try (err_leaf HR3).
    destruct (list_at (heap s3') a); [|err_leaf HR3].
    destruct (index_of f0 <? N.of_nat (length l)); [|err_leaf HR3].
    cbn. apply Qe_intro; [apply R_heap_set; auto|]. exact HF.
Qed.

Lemma res_rel_bind_l {A B A'} (P : A -> state -> B -> state -> Prop) (Q : A' -> state -> B -> state -> Prop)
      (mi : res A) (ms : res B) ki :
  res_rel P mi ms ->
  (forall a si b ss, P a si b ss -> res_rel Q (ki a si) (ROk b ss)) ->
  res_rel Q (rbind mi ki) ms.
Proof. intros H Hk. destruct mi, ms; cbn in *; try contradiction; auto. Qed.

(** * the top level of a program or module *)
Definition Qtop (si : state) : unit -> state -> unit -> state -> Prop :=
  fun _ si' _ ss' => R si' ss' /\ tl (venv si') = tl (venv si) /\ retv si' = None /\ loops si' = loops si.

Lemma top_ok ex sex : ex_ok ex sex -> forall prog, wf_prog prog -> forall si ss, R si ss -> ent si ->
  res_rel (Qtop si) (block_top ex prog si) (s_top sex prog ss).
Proof.
  intros Hex prog Hp. induction Hp as [|s prog Hs Hp IH]; intros si ss HR He; cbn [block_top s_top].
  - cbn. split; [|split; [|split]]; auto. apply He.
  - eapply res_rel_bind; [apply (Hex s false false); auto; split; [auto | discriminate]|].
    intros ? s1 sg s1' (HR1 & Hv1 & He1).
    destruct sg; cbn in He1.
    + destruct He1 as [Hrv1 Hl1].
      eapply res_rel_mono; [apply IH; auto; split; auto; rewrite Hl1; apply He|].
      intros ? s2 ? s2' (HR2 & Hv2 & Hrv2 & Hl2). split; [|split; [|split]]; auto; congruence.
    + destruct He1 as [H _]; discriminate.
    + destruct He1 as [H _]; discriminate.
    + destruct He1 as [H _]; discriminate.
Qed.

Lemma Qs_normal in_fn in_loop si si' ss' :
  R si' ss' -> tl (venv si') = tl (venv si) -> retv si' = None -> loops si' = loops si ->
  Qs in_fn in_loop si tt si' Normal ss'.
Proof. intros. split; [|split; [|split]]; auto. Qed.

Lemma loop_exit in_fn in_loop si s0 s2 s2' sg :
  tl (venv s0) = tl (venv si) -> Ql in_fn (loops si) s0 tt s2 sg s2' ->
  pop_loop s2 = ROk tt (set_loops s2 (loops si)) /\
  Qs in_fn in_loop si tt (set_loops s2 (loops si)) sg s2'.
Proof.
  intros Hv (HR2 & Hv2 & Hl2 & Hsg). split.
  - unfold pop_loop. rewrite Hl2. reflexivity.
  - split; [apply R_set_loops; auto|]. split; [cbn; congruence|].
    destruct sg; cbn; try contradiction; auto.
    destruct Hsg; auto.
Qed.

Lemma pick_ok (P : unit -> state -> signal -> state -> Prop) si1 ss1 :
  out si1 = out ss1 -> funcs si1 = funcs ss1 -> tbl_wf (funcs si1) ->
  (forall t, tbl_wf t -> P tt (set_funcs si1 t) Normal (set_funcs ss1 t)) ->
  forall names tbl acc, tbl_wf tbl -> tbl_wf acc ->
  res_rel P
    ((fix pick (ns : list (text * Ast.span)) (tbl acc : ftable) {struct ns} : res unit :=
         match ns with
         | [] => ROk tt (set_funcs si1 (ft_extend (funcs si1) (rev acc)))
         | (n, sp) :: r =>
           match ft_get tbl n with
           | None => RErr InvalidFunction sp si1
           | Some fnv => pick r (ft_remove tbl n) ((n, fnv) :: acc)
           end
         end) names tbl acc)
    ((fix pick (ns : list (text * Ast.span)) (tbl acc : ftable) {struct ns} : res signal :=
         match ns with
         | [] => ROk Normal (set_funcs ss1 (ft_extend (funcs ss1) (rev acc)))
         | (n, sp) :: r =>
           match ft_get tbl n with
           | None => RErr InvalidFunction sp ss1
           | Some fnv => pick r (ft_remove tbl n) ((n, fnv) :: acc)
           end
         end) names tbl acc).
Proof.
  intros Ho Hf Hw HP. induction names as [|[n sp] names IH]; intros tbl acc Ht Ha.
  - cbn. rewrite <- Hf. apply HP. apply ft_extend_wf; auto. apply tbl_wf_rev; auto.
  - cbn beta iota. destruct (ft_get tbl n) as [fnv|] eqn:Eg.
    + apply IH; [apply ft_remove_wf; auto|]. constructor; auto. cbn. eapply ft_get_wf; [exact Ht | exact Eg].
    + cbn. auto.
Qed.

Section Main.
Hypothesis Hparse : forall ts p, parse_tokens ts = ParseOk p -> wf_prog p.

Lemma exec_step f : ev_ok (eval f) (seval f) -> ex_ok (exec f) (sexec f) -> ex_ok (exec (S f)) (sexec (S f)).
Proof.
  intros Hev Hex s in_fn in_loop si ss Hwf HR Hen.
  pose proof Hen as [He Hlp]. pose proof He as [Hrv Hfc].
  destruct s as [e|c t e|ctok n body|c body|x itok ltok le body|name exported params body|ss0|e| | |modname mtok only];
    cbn [exec sexec]; cbn [wf_stmt] in Hwf.
  - (* SExpr *)
    eapply res_rel_bind; [apply Hev; auto|]. intros a s1 b s1' (-> & HR1 & (Hv1 & Hrv1 & Hl1)).
    cbn. apply Qs_normal; auto; congruence.
  - (* SIf *)
    eapply res_rel_bind; [apply Hev; auto|]. intros a s1 b s1' (-> & HR1 & HF1).
    eapply res_rel_bind; [apply (shared_op _ (truthy_r_comm b)); auto|]. intros tv s2 t' s2' (-> & HR2 & HF2).
    pose proof (same_frame_trans _ _ _ HF1 HF2) as (Hv & Hrv2 & Hl).
    assert (Hen2 : entry in_loop s2).
    { split; [split; congruence|]. rewrite Hl. exact Hlp. }
    destruct Hwf as [Hwt Hwe].
    destruct t'.
    + eapply Qs_shift; [exact Hv | exact Hl|]. apply Hex; auto.
    + destruct e as [e1|].
      * eapply Qs_shift; [exact Hv | exact Hl|]. apply Hex; auto.
      * cbn. apply Qs_normal; auto; congruence.
  - (* SRepeatTimes *)
    eapply res_rel_bind; [apply Hev; auto|]. intros a s1 b s1' (-> & HR1 & (Hv1 & Hrv1 & Hl1)).
    destruct b; try (err_leaf HR1).
    eapply res_rel_bind_l.
    { apply (times_ok _ _ in_fn body Hex Hwf f (to_usize f0) (push_loop s1) s1' (loops s1));
        [apply R_set_loops; auto | cbn; congruence | reflexivity]. }
    intros ? s2 sg s2' HQ. rewrite Hl1 in HQ.
    destruct (loop_exit in_fn in_loop si _ _ _ _ Hv1 HQ) as [-> HQs]. exact HQs.
  - (* SRepeatUntil *)
    eapply res_rel_bind_l.
    { apply (until_ok _ _ _ _ in_fn c body Hev Hex Hwf f (push_loop si) ss (loops si));
        [apply R_set_loops; auto | cbn; congruence | reflexivity]. }
    intros ? s2 sg s2' HQ.
    destruct (loop_exit in_fn in_loop si _ _ _ _ eq_refl HQ) as [-> HQs]. exact HQs.
  - (* SForEach *)
    eapply res_rel_bind; [apply Hev; auto|]. intros a s1 b s1' (-> & HR1 & (Hv1 & Hrv1 & Hl1)).
    eapply res_rel_bind with
      (P := fun a s2 a' s2' => a = a' /\ R s2 s2' /\ venv s2 = venv s1 /\ retv s2 = retv s1 /\ loops s2 = loops s1).
    { destruct b; try (err_leaf HR1).
      - unfold alloc. rewrite (R_heap _ _ HR1). cbn. split; [reflexivity|]. split; auto using R_set_heap.
      - cbn. auto. }
    intros a s2 a' s2' (-> & HR2 & Hv2 & Hrv2 & Hl2).
    destruct (R_inv _ _ HR2) as (top & below & Hvi & Hvs & Hcs).
    rewrite Hvi, Hcs. unfold with_scope.
    cbn [heap push_loop set_loops set_venv]. rewrite (R_heap _ _ HR2).
    pose proof (R_venv_upd s2 s2' (scope_remove top x) below HR2) as HR3.
    eapply res_rel_bind.
    { apply (each_ok _ _ in_fn body a' x
               (match list_at (heap s2') a' with Some l => length l | None => 0%nat end)
               Hex Hwf f 0%nat (push_loop (set_venv s2 (scope_remove top x :: below))) _ (loops si));
        [apply R_set_loops; exact HR3 | cbn; congruence | cbn; congruence]. }
    intros ? s4 sg s4' HQ.
    assert (Hv3 : tl (venv (push_loop (set_venv s2 (scope_remove top x :: below)))) = tl (venv si)).
    { cbn. rewrite <- Hv1, <- Hv2, Hvi. reflexivity. }
    destruct (loop_exit in_fn in_loop si _ _ _ _ Hv3 HQ) as [-> (HR5 & Hv5 & He5)].
    cbn [rbind].
    destruct (R_inv _ _ HR5) as (top5 & below5 & Hvi5 & Hvs5 & Hcs5).
    destruct (scope_get top x) as [v|].
    + unfold define. rewrite Hvi5, Hcs5. cbn.
      split; [apply R_venv_upd; auto|]. split; [|exact He5].
      cbn. rewrite <- Hv5, Hvi5. reflexivity.
    + cbn. split; [|split]; auto.
  - (* SProc *)
    assert (Hfn : fn_wf (FUser params body)) by exact Hwf.
    assert (Hfw : tbl_wf (funcs ss)) by (rewrite <- (R_funcs _ _ HR); apply HR).
    assert (Hew : tbl_wf (exports ss)) by (rewrite <- (R_exports _ _ HR); apply HR).
    cbn [exports set_funcs]. rewrite (R_funcs _ _ HR), (R_exports _ _ HR).
    destruct exported; cbn.
    + apply Qs_normal; auto. apply R_set_exports; [apply R_set_funcs|]; auto using ft_set_wf.
    + apply Qs_normal; auto. apply R_set_funcs; auto using ft_set_wf.
  - (* SBlock *)
    destruct (R_inv _ _ HR) as (top & below & Hvi & Hvs & Hcs). rewrite Hvi.
    assert (HR0 : R (set_venv si (top :: top :: below)) ss).
    { destruct HR. constructor; cbn; eauto. }
    eapply res_rel_bind_l.
    { apply (block_ok _ _ in_fn in_loop Hex ss0 (wf_block_forall _ _ _ Hwf) _ _ HR0). exact Hen. }
    intros ? s1 sg s1' (HR1 & Hv1 & He1). cbn [venv set_venv tl] in Hv1.
    destruct (R_inv _ _ HR1) as (top1 & below1 & Hvi1 & Hvs1 & Hcs1).
    rewrite Hvi1. rewrite Hvi1 in Hv1. cbn [tl] in Hv1. subst below1.
    cbn. split; [|split].
    + destruct HR1. constructor; cbn; eauto.
    + cbn. rewrite Hvi. reflexivity.
    + exact He1.
  - (* SReturn *)
    destruct e as [e1|].
    + eapply res_rel_bind; [apply Hev; auto|]. intros a s1 b s1' (-> & HR1 & (Hv1 & Hrv1 & Hl1)).
      cbn. split; [apply R_set_retv; auto|]. split; [exact Hv1|]. cbn. auto.
    + cbn. split; [apply R_set_retv; auto|]. split; [reflexivity|]. cbn. auto.
  - (* SContinue *)
    destruct (Hlp Hwf) as [r Hr]. rewrite Hr. cbn.
    split; [apply R_set_loops; auto|]. split; [reflexivity|]. cbn. eauto 8.
  - (* SBreak *)
    destruct (Hlp Hwf) as [r Hr]. rewrite Hr. cbn.
    split; [apply R_set_loops; auto|]. split; [reflexivity|]. cbn. eauto 8.
  - (* SImport *)
    eapply res_rel_bind with
      (P := fun t s1 t' s1' => t = t' /\ tbl_wf t /\ R s1 s1' /\ venv s1 = venv si /\ retv s1 = retv si /\ loops s1 = loops si).
    { destruct (existsb _ module_registry).
      - cbn [res_rel]. split; [reflexivity|]. split; [|auto].
        destruct (find _ module_registry); [apply module_table_wf | constructor].
      - rewrite (R_path _ _ HR), (R_orc _ _ HR).
        destruct (negb _); [err_leaf HR|].
        destruct (find _ (o_files (orc ss))) as [[p0 src]|]; [|err_leaf HR].
        destruct (lex src) as [ts| |]; try (err_leaf HR).
        destruct (parse_tokens ts) as [prog| | |] eqn:Ep; try (err_leaf HR).
        rewrite (R_heap _ _ HR), (R_out _ _ HR), (R_stdin _ _ HR).
        set (ms := fresh_state _ _ _ _ _).
        eapply res_rel_bind.
        { apply (top_ok _ _ Hex prog (Hparse _ _ Ep) ms ms).
          - apply R_refl_clean. apply fresh_state_clean.
          - split; [reflexivity | exact I]. }
        intros ? m1 ? m1' (HRm & _).
        cbn [res_rel]. split; [apply (R_exports _ _ HRm)|]. split; [apply (R_ewf _ _ HRm)|]. split; [|auto].
        destruct HR, HRm. constructor; cbn; eauto. }
    intros t s1 t' s1' (-> & Ht & HR1 & Hv1 & Hrv1 & Hl1).
    assert (HP : forall t, tbl_wf t -> Qs in_fn in_loop si tt (set_funcs s1 t) Normal (set_funcs s1' t)).
    { intros t Htw. apply Qs_normal; cbn; try congruence. apply R_set_funcs; auto. }
    destruct only as [names|].
    + apply pick_ok; auto; try apply HR1. constructor.
    + cbn [res_rel]. rewrite (R_funcs _ _ HR1). apply HP. apply ft_extend_wf; auto.
      rewrite <- (R_funcs _ _ HR1). apply HR1.
Qed.

Lemma refine_all f : ev_ok (eval f) (seval f) /\ ex_ok (exec f) (sexec f).
Proof.
  induction f as [|f [IHe IHx]].
  - split; [intros e si ss _ _ | intros s a b si ss _ _ _]; exact I.
  - split; [apply eval_step | apply exec_step]; auto.
Qed.

Theorem refine_gen_ :
  forall fuel prog st0, wf_prog prog -> clean st0 ->
  observe (run_impl fuel prog st0) = observe (run_spec fuel prog st0).
Proof.
  intros fuel prog st0 Hp Hc. unfold run_impl, run_spec.
  eapply res_rel_observe.
  - apply (top_ok _ _ (proj2 (refine_all fuel)) prog Hp st0 st0 (R_refl_clean _ Hc)).
    destruct Hc as (_ & Hrv & Hl & _). split; [auto | rewrite Hl; exact I].
  - intros ? si ? ss (HR & _). apply HR.
Qed.
End Main.

Theorem refine_gen :
  (forall ts p, parse_tokens ts = ParseOk p -> wf_prog p) ->
  forall fuel prog st0, wf_prog prog -> clean st0 ->
  observe (run_impl fuel prog st0) = observe (run_spec fuel prog st0).
Proof. exact refine_gen_. Qed.

