(** OpsSpec: the declarative operator tables of the reference semantics, by operator. *)
From Aplang Require Import Base FloatX Token Ast Tables Value EvalImpl.
Open Scope N_scope.

(* == : numbers within epsilon, strings / booleans equal, NULL = NULL; everything else unequal *)
Definition spec_equals (a b : value) : bool :=
  match a, b with
  | VNum x, VNum y => PrimFloat.ltb (PrimFloat.abs (PrimFloat.sub x y)) f_epsilon
  | VStr x, VStr y => text_eqb x y
  | VBool x, VBool y => Bool.eqb x y
  | VNull, VNull => true
  | _, _ => false
  end.

Definition incomparable {A} (tok : Ast.span) (st : state) : res A := RErr Incomparable tok st.

Definition spec_binop (op : binop) (tok : Ast.span) (a b : value) (st : state) : res value :=
  match op with
  | BEqualEqual => ROk (VBool (spec_equals a b)) st
  | BNotEqual => ROk (VBool (negb (spec_equals a b))) st
  | BLess => match a, b with VNum x, VNum y => ROk (VBool (PrimFloat.ltb x y)) st | _, _ => incomparable tok st end
  | BLessEqual => match a, b with VNum x, VNum y => ROk (VBool (PrimFloat.leb x y)) st | _, _ => incomparable tok st end
  | BGreater => match a, b with VNum x, VNum y => ROk (VBool (PrimFloat.ltb y x)) st | _, _ => incomparable tok st end
  | BGreaterEqual => match a, b with VNum x, VNum y => ROk (VBool (PrimFloat.leb y x)) st | _, _ => incomparable tok st end
  | BMinus => match a, b with VNum x, VNum y => ROk (VNum (PrimFloat.sub x y)) st | _, _ => incomparable tok st end
  | BStar => match a, b with VNum x, VNum y => ROk (VNum (PrimFloat.mul x y)) st | _, _ => incomparable tok st end
  | BSlash =>
    match a, b with
    | VNum x, VNum y => if PrimFloat.eqb y 0 then RErr DivisionByZero tok st else ROk (VNum (PrimFloat.div x y)) st
    | _, _ => incomparable tok st
    end
  | BModulo =>
    match a, b with
    | VNum x, VNum y => if PrimFloat.eqb y 0 then RErr ModuloByZero tok st else ROk (VNum (fmod x y)) st
    | _, _ => incomparable tok st
    end
  | BPlus =>
    match a, b with
    | VNum x, VNum y => ROk (VNum (PrimFloat.add x y)) st
    | VStr s, _ =>                                  (* string + anything: the displayed form is appended *)
      match show_v st b with Some t => ROk (VStr (s ++ t)) st | None => RFuel end
    | VList x, VList y =>                           (* a fresh list; both operands unchanged *)
      match list_at (heap st) x, list_at (heap st) y with
      | Some lx, Some ly => new_list st (lx ++ ly)
      | _, _ => RPanic PanicTable st
      end
    | _, _ => incomparable tok st
    end
  end.

Definition spec_unop (op : unop) (tok : Ast.span) (v : value) (st : state) : res value :=
  match op, v with
  | UMinus, VNum x => ROk (VNum (PrimFloat.opp x)) st
  | UNot, _ => ROk (VBool (negb (match truthy v with Some b => b | None => true end))) st
  | UMinus, _ => RErr InvalidUnaryOp tok st
  end.
