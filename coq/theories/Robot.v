(** Robot: executable model of src/standard_library/robot.rs
    (grid parser, CAN_MOVE, MOVE_FORWARD, rotations, ASCII / Unicode rendering and the
    procedure bindings).  No proofs here; see RobotProofs.v and Props/C17.v. *)
From Aplang Require Import Base.
Open Scope N_scope.

Inductive cell := Wall | Goal | Space | Checkpoint (n : N).
Inductive dir := North | East | South | West.
Inductive rel := Forward | Left | Right | Backward.

Record robot := mkRobot {
  area : list (list cell);
  width : nat;          (* area_size.0 *)
  height : nat;         (* area_size.1 *)
  loc_x : nat;          (* location.0 *)
  loc_y : nat;          (* location.1 *)
  heading : dir;
  power : N             (* checkpoint_power *)
}.

Definition cell_eqb (a b : cell) : bool :=
  match a, b with
  | Wall, Wall | Goal, Goal | Space, Space => true
  | Checkpoint n, Checkpoint m => n =? m
  | _, _ => false
  end.

Definition is_checkpoint (c : cell) : bool :=
  match c with Checkpoint _ => true | _ => false end.

(** ** str::lines() *)
(* [cur] is the current line, reversed *)
Fixpoint lines_aux (s : text) (cur : text) : list text :=
  match s with
  | [] => match cur with [] => [] | _ => [rev cur] end
  | c :: r =>
    if c =? 10 then
      (match cur with
       | 13 :: cur' => rev cur'      (* "\r\n" ends the line *)
       | _ => rev cur
       end) :: lines_aux r []
    else lines_aux r (c :: cur)
  end.
Definition lines (s : text) : list text := lines_aux s [].

(** ** FromStr for Robot *)
Inductive sym := SCell (c : cell) | SRobot (d : dir) | SBad.

Definition classify (ch : N) : sym :=
  if (ch =? 35) || (ch =? 64) then SCell Wall                     (* # @ *)
  else if (ch =? 46) || (ch =? 44) || (ch =? 32) then SCell Space (* . , space *)
  else if (ch =? 120) || (ch =? 88) then SCell Goal               (* x X *)
  else if (ch =? 110) || (ch =? 78) then SRobot North             (* n N *)
  else if (ch =? 115) || (ch =? 83) then SRobot South             (* s S *)
  else if (ch =? 101) || (ch =? 69) then SRobot East              (* e E *)
  else if (ch =? 119) || (ch =? 87) then SRobot West              (* w W *)
  else if (48 <=? ch) && (ch <=? 57) then
    (if ch =? 48 then SBad else SCell (Checkpoint (ch - 48)))
  else SBad.

(* one row: x is the column of the next character; the robot found so far is threaded *)
Fixpoint parse_row (chars : text) (x y : nat) (rb : option (nat * nat * dir))
  : option (list cell * option (nat * nat * dir)) :=
  match chars with
  | [] => Some ([], rb)
  | ch :: r =>
    match classify ch with
    | SBad => None
    | SCell c =>
      match parse_row r (S x) y rb with
      | None => None
      | Some (cs, rb') => Some (c :: cs, rb')
      end
    | SRobot d =>
      match rb with
      | Some _ => None                      (* only one robot *)
      | None =>
        match parse_row r (S x) y (Some (x, y, d)) with
        | None => None
        | Some (cs, rb') => Some (Space :: cs, rb')
        end
      end
    end
  end.

Definition pad_row (chars : text) (w : nat) : text :=
  chars ++ repeat_text 32 (w - length chars).

Fixpoint parse_rows (ls : list text) (w : nat) (y : nat) (rb : option (nat * nat * dir))
  : option (list (list cell) * option (nat * nat * dir)) :=
  match ls with
  | [] => Some ([], rb)
  | l :: r =>
    match parse_row (pad_row l w) 0 y rb with
    | None => None
    | Some (row, rb') =>
      match parse_rows r w (S y) rb' with
      | None => None
      | Some (rows, rb'') => Some (row :: rows, rb'')
      end
    end
  end.

(* max_width is a maximum of *byte* lengths, as in the Rust *)
Definition max_width (ls : list text) : nat :=
  fold_right (fun l m => Nat.max (N.to_nat (byte_len l)) m) 0%nat ls.

Definition parse_grid (s : text) : option robot :=
  let ls := lines s in
  let w := max_width ls in
  match parse_rows ls w 0 None with
  | None => None
  | Some (rows, None) => None
  | Some (rows, Some (x, y, d)) =>
    Some (mkRobot rows w (length ls) x y d 1)
  end.

(** ** movement *)
Definition dir_num (d : dir) : Z :=
  match d with North => 0 | East => 1 | South => 2 | West => 3 end%Z.
Definition rel_num (r : rel) : Z :=
  match r with Forward => 0 | Left => -1 | Right => 1 | Backward => 2 end%Z.
(* From<i8> for AreaDirection: rem_euclid 4 *)
Definition dir_of_Z (z : Z) : dir :=
  match (z mod 4)%Z with 0%Z => North | 1%Z => East | 2%Z => South | _ => West end.

Definition get_z {A} (l : list A) (z : Z) : option A :=
  if (z <? 0)%Z then None else nth_error l (Z.to_nat z).

(* the (row, column) the robot would look at, as signed numbers *)
Definition check_pos (r : robot) (rl : rel) : Z * Z :=
  let y := Z.of_nat (loc_y r) in
  let x := Z.of_nat (loc_x r) in
  match dir_of_Z (dir_num (heading r) + rel_num rl) with
  | North => (y - 1, x)
  | East => (y, x + 1)
  | South => (y + 1, x)
  | West => (y, x - 1)
  end%Z.

(* tuple comparison (a, b) < (0, 0) *)
Definition lex_neg (p : Z * Z) : bool :=
  let '(a, b) := p in ((a <? 0) || ((a =? 0) && (b <? 0)))%Z.

Definition can_move (r : robot) (rl : rel) : bool :=
  let p := check_pos r rl in
  if lex_neg p then false else
  match get_z (area r) (fst p) with
  | None => false
  | Some row =>
    match get_z row (snd p) with
    | None => false
    | Some c => negb (cell_eqb c Wall)
    end
  end.

Definition cell_at (r : robot) (x y : nat) : option cell :=
  match nth_error (area r) y with None => None | Some row => nth_error row x end.

Definition set_cell (a : list (list cell)) (x y : nat) (c : cell) : list (list cell) :=
  match nth_error a y with
  | None => a
  | Some row => update_nth a y (update_nth row x c)
  end.

Definition any_cell (p : cell -> bool) (a : list (list cell)) : bool :=
  existsb (fun row => existsb p row) a.

Inductive move_result :=
| Moved (r : robot) (reached : bool)
| Blocked                      (* move_forward returned None: the binding terminates the program *)
| MovedIntoWall.               (* the unreachable panic!("THIS IS A BUG: Moved into a wall") *)

Definition move_forward (r : robot) : move_result :=
  if can_move r Forward then
    let '(x, y) :=
      match heading r with
      | North => (loc_x r, (loc_y r - 1)%nat)
      | East => (S (loc_x r), loc_y r)
      | South => (loc_x r, S (loc_y r))
      | West => ((loc_x r - 1)%nat, loc_y r)
      end in
    let r1 := mkRobot (area r) (width r) (height r) x y (heading r) (power r) in
    match cell_at r1 x y with
    | None => MovedIntoWall  (* index out of bounds in the Rust; shown unreachable *)
    | Some Goal =>
      if any_cell is_checkpoint (area r) then Moved r1 false
      else Moved (mkRobot (set_cell (area r) x y Space) (width r) (height r) x y (heading r) (power r)) true
    | Some (Checkpoint order) =>
      if order <=? power r then
        let a' := set_cell (area r) x y Space in
        let remaining := any_cell (fun c => match c with Checkpoint p => p <=? power r | _ => false end) a' in
        Moved (mkRobot a' (width r) (height r) x y (heading r) (if remaining then power r else power r + 1)) false
      else Moved r1 false
    | Some Space => Moved r1 false
    | Some Wall => MovedIntoWall
    end
  else Blocked.

Definition rotate (r : robot) (by_ : Z) : robot :=
  mkRobot (area r) (width r) (height r) (loc_x r) (loc_y r)
          (dir_of_Z (dir_num (heading r) + by_)) (power r).
Definition rotate_left (r : robot) := rotate r (-1).
Definition rotate_right (r : robot) := rotate r 1.

(** ** rendering *)
Definition ascii_dir (d : dir) : text :=
  match d with North => [110;110] | East => [101;101] | South => [115;115] | West => [119;119] end.
Definition ascii_cell (c : cell) : text :=
  match c with
  | Wall => [35;35] | Goal => [88;88] | Space => [46;46]
  | Checkpoint p => dec p ++ dec p
  end.
Definition uni_dir (d : dir) : text :=
  match d with North => [9650;9650] | East => [9658;9658] | South => [9660;9660] | West => [9668;9668] end.
Definition uni_cell (c : cell) : text :=
  match c with
  | Wall => [9608;9608] | Goal => [9587;9587] | Space => [9617;9617]
  | Checkpoint p => dec p ++ dec p
  end.

Section Render.
  Variable fdir : dir -> text.
  Variable fcell : cell -> text.
  Variable r : robot.

  (* area[y][x]: an out-of-range index would panic; rendered as [] and shown unreachable *)
  Fixpoint render_cols (y : nat) (n x : nat) : text :=
    match n with
    | O => []
    | S k =>
      (if Nat.eqb x (loc_x r) && Nat.eqb y (loc_y r) then fdir (heading r)
       else match cell_at r x y with Some c => fcell c | None => [] end)
      ++ [32] ++ render_cols y k (S x)
    end.

  Fixpoint render_rows (left right : text) (n y : nat) : text :=
    match n with
    | O => []
    | S k => left ++ render_cols y (width r) 0 ++ right ++ [10] ++ render_rows left right k (S y)
    end.
End Render.

Definition render_ascii (r : robot) : text :=
  let bar := [43] ++ repeat_text 45 (width r * 3) ++ [45; 43; 10] in
  bar ++ render_rows ascii_dir ascii_cell r [124; 32] [124] (height r) 0 ++ bar.

Definition render_unicode (r : robot) : text :=
  [9484] ++ repeat_text 9472 (width r * 3) ++ [9472; 9488; 10]
  ++ render_rows uni_dir uni_cell r [9474; 32] [9474] (height r) 0
  ++ [9492] ++ repeat_text 9472 (width r * 3) ++ [9472; 9496; 10].

(** ** RelativeDirection::from_str (ASCII upper-casing) *)
Definition ascii_upper (c : N) : N := if (97 <=? c) && (c <=? 122) then c - 32 else c.
Definition parse_rel (s : text) : option rel :=
  let u := map ascii_upper s in
  if text_eqb u [76;69;70;84] then Some Left
  else if text_eqb u [82;73;71;72;84] then Some Right
  else if text_eqb u [70;79;82;87;65;82;68] then Some Forward
  else if text_eqb u [66;65;67;75;87;65;82;68] then Some Backward
  else None.

(** ** command histories (the robot-level view used by the C17 theorems and the first
    correspondence channel): each command yields the displayed form of its result *)
Inductive cmd := CRotL | CRotR | CMove | CCan (direction : text) | CShow | CShowU.

Definition t_TRUE : text := [84;82;85;69].
Definition t_FALSE : text := [70;65;76;83;69].
Definition t_NULL : text := [78;85;76;76].
Definition show_bool (b : bool) : text := if b then t_TRUE else t_FALSE.

Inductive step_result :=
| Continue (r : robot) (shown : text)
| Exit                                     (* blocked MOVE_FORWARD: program terminated *)
| Bug.

Definition step (r : robot) (c : cmd) : step_result :=
  match c with
  | CRotL => Continue (rotate_left r) t_NULL
  | CRotR => Continue (rotate_right r) t_NULL
  | CMove =>
    match move_forward r with
    | Moved r' b => Continue r' (show_bool b)
    | Blocked => Exit
    | MovedIntoWall => Bug
    end
  | CCan d =>
    match parse_rel d with
    | None => Continue r t_NULL
    | Some rl => Continue r (show_bool (can_move r rl))
    end
  | CShow => Continue r (render_ascii r)
  | CShowU => Continue r (render_unicode r)
  end.

(* run a history; the output is what DISPLAY of each result prints, one line each *)
Fixpoint run_cmds (r : robot) (cs : list cmd) : list text * bool (* true = ended by Exit *) :=
  match cs with
  | [] => ([], false)
  | c :: rest =>
    match step r c with
    | Continue r' shown => let '(o, e) := run_cmds r' rest in (shown :: o, e)
    | Exit => ([], true)
    | Bug => ([[66;85;71]], true)
    end
  end.

Definition run_grid (g : text) (cs : list cmd) : list text * bool :=
  match parse_grid g with
  | None => ([t_NULL], false)
  | Some r => let '(o, e) := run_cmds r cs in (o, e)
  end.

(* the robot after a history, when no command ended the program *)
Fixpoint final_robot (r : robot) (cs : list cmd) : option robot :=
  match cs with
  | [] => Some r
  | c :: rest =>
    match step r c with
    | Continue r' _ => final_robot r' rest
    | _ => None
    end
  end.
