(** Token: token kinds (src/lexer/token.rs TokenType), literals, tokens, lexical errors. *)
From Aplang Require Import Base FloatX.
Open Scope N_scope.

Inductive tk :=
| SoftSemi
| LeftParen | RightParen | LeftBracket | RightBracket | LeftBrace | RightBrace
| Comma | Dot | Minus | Plus | Slash | Star
| Arrow | EqualEqual | BangEqual | Greater | GreaterEqual | Less | LessEqual
| Identifier | Number | StringLiteral
| Mod | If | Else | Repeat | Times | Until | For | Each | Continue | Break | In
| Procedure | Return | Not | And | Or
| True | False | Null
| Import | Export | From
| Eof.

Definition tk_num (k : tk) : N :=
  match k with
  | SoftSemi => 0 | LeftParen => 1 | RightParen => 2 | LeftBracket => 3 | RightBracket => 4
  | LeftBrace => 5 | RightBrace => 6 | Comma => 7 | Dot => 8 | Minus => 9 | Plus => 10
  | Slash => 11 | Star => 12 | Arrow => 13 | EqualEqual => 14 | BangEqual => 15 | Greater => 16
  | GreaterEqual => 17 | Less => 18 | LessEqual => 19 | Identifier => 20 | Number => 21
  | StringLiteral => 22 | Mod => 23 | If => 24 | Else => 25 | Repeat => 26 | Times => 27
  | Until => 28 | For => 29 | Each => 30 | Continue => 31 | Break => 32 | In => 33
  | Procedure => 34 | Return => 35 | Not => 36 | And => 37 | Or => 38 | True => 39 | False => 40
  | Null => 41 | Import => 42 | Export => 43 | From => 44 | Eof => 45
  end.

Definition tk_eqb (a b : tk) : bool := tk_num a =? tk_num b.

Lemma tk_eqb_eq a b : tk_eqb a b = true <-> a = b.
Proof.
  unfold tk_eqb; split.
  - intro H; apply N.eqb_eq in H; destruct a, b; simpl in H; try reflexivity; discriminate.
  - intros ->; apply N.eqb_refl.
Qed.

Definition tk_in (k : tk) (l : list tk) : bool := existsb (tk_eqb k) l.

(** the Debug name of the Rust variant (what the harness prints) *)
Definition tk_name (k : tk) : string :=
  match k with
  | SoftSemi => "SoftSemi" | LeftParen => "LeftParen" | RightParen => "RightParen"
  | LeftBracket => "LeftBracket" | RightBracket => "RightBracket" | LeftBrace => "LeftBrace"
  | RightBrace => "RightBrace" | Comma => "Comma" | Dot => "Dot" | Minus => "Minus" | Plus => "Plus"
  | Slash => "Slash" | Star => "Star" | Arrow => "Arrow" | EqualEqual => "EqualEqual"
  | BangEqual => "BangEqual" | Greater => "Greater" | GreaterEqual => "GreaterEqual" | Less => "Less"
  | LessEqual => "LessEqual" | Identifier => "Identifier" | Number => "Number"
  | StringLiteral => "StringLiteral" | Mod => "Mod" | If => "If" | Else => "Else" | Repeat => "Repeat"
  | Times => "Times" | Until => "Until" | For => "For" | Each => "Each" | Continue => "Continue"
  | Break => "Break" | In => "In" | Procedure => "Procedure" | Return => "Return" | Not => "Not"
  | And => "And" | Or => "Or" | True => "True" | False => "False" | Null => "Null"
  | Import => "Import" | Export => "Export" | From => "From" | Eof => "Eof"
  end%string.

Inductive literal := LNone | LNum (f : float) | LStr (s : text).

Record token := mkToken {
  tkind : tk;
  toff : N;        (* byte offset of the lexeme in the source *)
  tlen : N;        (* byte length *)
  tlex : text;     (* lexeme *)
  tlit : literal
}.

(** lexical errors: the class and the labelled byte ranges of the report *)
Inductive lex_err_kind :=
| EBang | EEquals | EBackslash | EUnknownSymbol | EInvalidEscape | EUnterminated | ENumber.

Record lex_error := mkLexError {
  ekind : lex_err_kind;
  elabels : list (N * N)
}.

Definition lex_err_code (k : lex_err_kind) : string :=
  match k with
  | EBang => "lexer::unknown_symbol::bang"
  | EEquals => "lexer::unknown_symbol::equals"
  | EBackslash => "-"
  | EUnknownSymbol => "lexer::unknown_symbol"
  | EInvalidEscape => "-"
  | EUnterminated => "lexer::unterminated_string"
  | ENumber => "lexer::unknown_token"
  end%string.

Fixpoint assoc_N {A} (k : N) (l : list (N * A)) : option A :=
  match l with
  | [] => None
  | (k', v) :: r => if k =? k' then Some v else assoc_N k r
  end.

Fixpoint assoc_text {A} (k : text) (l : list (text * A)) : option A :=
  match l with
  | [] => None
  | (k', v) :: r => if text_eqb k k' then Some v else assoc_text k r
  end.
