(** Token: token kinds (src/lexer/token.rs TokenType), literals, tokens, lexical errors. *)
From Aplang Require Import Base FloatX.
Open Scope N_scope.

Inductive tk :=
| TSoftSemi
| TLeftParen | TRightParen | TLeftBracket | TRightBracket | TLeftBrace | TRightBrace
| TComma | TDot | TMinus | TPlus | TSlash | TStar
| TArrow | TEqualEqual | TBangEqual | TGreater | TGreaterEqual | TLess | TLessEqual
| TIdentifier | TNumber | TStringLiteral
| TMod | TIf | TElse | TRepeat | TTimes | TUntil | TFor | TEach | TContinue | TBreak | TIn
| TProcedure | TReturn | TNot | TAnd | TOr
| TTrue | TFalse | TNull
| TImport | TExport | TFrom
| TEof.

Definition tk_num (k : tk) : N :=
  match k with
  | TSoftSemi => 0 | TLeftParen => 1 | TRightParen => 2 | TLeftBracket => 3 | TRightBracket => 4
  | TLeftBrace => 5 | TRightBrace => 6 | TComma => 7 | TDot => 8 | TMinus => 9 | TPlus => 10
  | TSlash => 11 | TStar => 12 | TArrow => 13 | TEqualEqual => 14 | TBangEqual => 15 | TGreater => 16
  | TGreaterEqual => 17 | TLess => 18 | TLessEqual => 19 | TIdentifier => 20 | TNumber => 21
  | TStringLiteral => 22 | TMod => 23 | TIf => 24 | TElse => 25 | TRepeat => 26 | TTimes => 27
  | TUntil => 28 | TFor => 29 | TEach => 30 | TContinue => 31 | TBreak => 32 | TIn => 33
  | TProcedure => 34 | TReturn => 35 | TNot => 36 | TAnd => 37 | TOr => 38 | TTrue => 39 | TFalse => 40
  | TNull => 41 | TImport => 42 | TExport => 43 | TFrom => 44 | TEof => 45
  end.

Definition tk_eqb (a b : tk) : bool := tk_num a =? tk_num b.

Lemma tk_eqb_eq a b : tk_eqb a b = true <-> a = b.
Proof.
  unfold tk_eqb; split.
  - intro H; apply N.eqb_eq in H; destruct a, b; simpl in H; try reflexivity; discriminate.
  - intros ->; apply N.eqb_refl.
Qed.

Definition tk_in (k : tk) (l : list tk) : bool := existsb (tk_eqb k) l.

(** the Debug name of the Rust variant (what the harness prints) *)
Definition tk_name (k : tk) : string :=
  match k with
  | TSoftSemi => "SoftSemi" | TLeftParen => "LeftParen" | TRightParen => "RightParen"
  | TLeftBracket => "LeftBracket" | TRightBracket => "RightBracket" | TLeftBrace => "LeftBrace"
  | TRightBrace => "RightBrace" | TComma => "Comma" | TDot => "Dot" | TMinus => "Minus" | TPlus => "Plus"
  | TSlash => "Slash" | TStar => "Star" | TArrow => "Arrow" | TEqualEqual => "EqualEqual"
  | TBangEqual => "BangEqual" | TGreater => "Greater" | TGreaterEqual => "GreaterEqual" | TLess => "Less"
  | TLessEqual => "LessEqual" | TIdentifier => "Identifier" | TNumber => "Number"
  | TStringLiteral => "StringLiteral" | TMod => "Mod" | TIf => "If" | TElse => "Else" | TRepeat => "Repeat"
  | TTimes => "Times" | TUntil => "Until" | TFor => "For" | TEach => "Each" | TContinue => "Continue"
  | TBreak => "Break" | TIn => "In" | TProcedure => "Procedure" | TReturn => "Return" | TNot => "Not"
  | TAnd => "And" | TOr => "Or" | TTrue => "True" | TFalse => "False" | TNull => "Null"
  | TImport => "Import" | TExport => "Export" | TFrom => "From" | TEof => "Eof"
  end%string.

Inductive literal := LNone | LNum (f : float) | LStr (s : text).

Record token := mkToken {
  tkind : tk;
  toff : N;        (* byte offset of the lexeme in the source *)
  tlen : N;        (* byte length *)
  tlex : text;     (* lexeme *)
  tlit : literal
}.

(** lexical errors: the class and the labelled byte ranges of the report *)
Inductive lex_err_kind :=
| EBang | EEquals | EBackslash | EUnknownSymbol | EInvalidEscape | EUnterminated | ENumber.

Record lex_error := mkLexError {
  ekind : lex_err_kind;
  elabels : list (N * N)
}.

Definition lex_err_code (k : lex_err_kind) : string :=
  match k with
  | EBang => "lexer::unknown_symbol::bang"
  | EEquals => "lexer::unknown_symbol::equals"
  | EBackslash => "-"
  | EUnknownSymbol => "lexer::unknown_symbol"
  | EInvalidEscape => "-"
  | EUnterminated => "lexer::unterminated_string"
  | ENumber => "lexer::unknown_token"
  end%string.

Fixpoint assoc_N {A} (k : N) (l : list (N * A)) : option A :=
  match l with
  | [] => None
  | (k', v) :: r => if k =? k' then Some v else assoc_N k r
  end.

Fixpoint assoc_text {A} (k : text) (l : list (text * A)) : option A :=
  match l with
  | [] => None
  | (k', v) :: r => if text_eqb k k' then Some v else assoc_text k r
  end.
