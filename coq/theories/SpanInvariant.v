(** SpanInvariant: the byte ranges kept in a syntax tree never influence a run.  Two programs with
    the same erasure (Erase.v), run from the same state with the same fuel, display the same bytes
    and end the same way up to the range of the error label.

    Method: states are compared after erasing the bodies of the user procedures they hold
    ([norm_st]); outcomes are compared after normalising their state and forgetting the label
    range ([norm_res]).  [rsim r1 r2] is equality of the normalised outcomes. *)
From Aplang Require Import Base FloatX Token Ast Tables Robot Value StrLib LexImpl ParseImpl EvalImpl EvalSpec Erase Meaning.
From Aplang Require Refine.
From Aplang.Gen Require Import Generated.
From Coq Require Import Lia.
Open Scope N_scope.

(** * normal forms *)
Definition norm_fn (f : fn) : fn :=
  match f with
  | FUser p b => FUser p (erase_stmt b)
  | FNative m n s => FNative m n s
  end.
Definition norm_ft (t : ftable) : ftable := map (fun p => (fst p, norm_fn (snd p))) t.
Definition norm_st (s : state) : state :=
  mkState (venv s) (norm_ft (funcs s)) (norm_ft (exports s)) (retv s) (loops s) (heap s) (out s)
          (stdin_ s) (orc s) (path s).
Definition norm_res {A} (r : res A) : res A :=
  match r with
  | ROk x s => ROk x (norm_st s)
  | RErr k _ s => RErr k z0 (norm_st s)
  | RExit s => RExit (norm_st s)
  | RPanic p s => RPanic p (norm_st s)
  | RFuel => RFuel
  end.

Definition ssim (s1 s2 : state) : Prop := norm_st s1 = norm_st s2.
Definition rsim {A} (r1 r2 : res A) : Prop := norm_res r1 = norm_res r2.

Lemma ssim_refl s : ssim s s.
Proof. reflexivity. Qed.
Lemma rsim_refl A (r : res A) : rsim r r.
Proof. reflexivity. Qed.
Lemma rsim_trans A (a b c : res A) : rsim a b -> rsim b c -> rsim a c.
Proof. unfold rsim. intros H1 H2. rewrite H1. exact H2. Qed.
Lemma rsim_sym A (a b : res A) : rsim a b -> rsim b a.
Proof. unfold rsim. intros H. symmetry. exact H. Qed.

(** ** the fields two similar states share *)
Lemma sim_venv s1 s2 : ssim s1 s2 -> venv s1 = venv s2.
Proof. intros H. exact (f_equal venv H). Qed.
Lemma sim_retv s1 s2 : ssim s1 s2 -> retv s1 = retv s2.
Proof. intros H. exact (f_equal retv H). Qed.
Lemma sim_loops s1 s2 : ssim s1 s2 -> loops s1 = loops s2.
Proof. intros H. exact (f_equal loops H). Qed.
Lemma sim_heap s1 s2 : ssim s1 s2 -> heap s1 = heap s2.
Proof. intros H. exact (f_equal heap H). Qed.
Lemma sim_out s1 s2 : ssim s1 s2 -> out s1 = out s2.
Proof. intros H. exact (f_equal out H). Qed.
Lemma sim_stdin s1 s2 : ssim s1 s2 -> stdin_ s1 = stdin_ s2.
Proof. intros H. exact (f_equal stdin_ H). Qed.
Lemma sim_orc s1 s2 : ssim s1 s2 -> orc s1 = orc s2.
Proof. intros H. exact (f_equal orc H). Qed.
Lemma sim_path s1 s2 : ssim s1 s2 -> path s1 = path s2.
Proof. intros H. exact (f_equal path H). Qed.
Lemma sim_funcs s1 s2 : ssim s1 s2 -> norm_ft (funcs s1) = norm_ft (funcs s2).
Proof. intros H. exact (f_equal funcs H). Qed.
Lemma sim_exports s1 s2 : ssim s1 s2 -> norm_ft (exports s1) = norm_ft (exports s2).
Proof. intros H. exact (f_equal exports H). Qed.

Lemma ssim_intro s1 s2 :
  venv s1 = venv s2 -> norm_ft (funcs s1) = norm_ft (funcs s2) -> norm_ft (exports s1) = norm_ft (exports s2) ->
  retv s1 = retv s2 -> loops s1 = loops s2 -> heap s1 = heap s2 -> out s1 = out s2 ->
  stdin_ s1 = stdin_ s2 -> orc s1 = orc s2 -> path s1 = path s2 -> ssim s1 s2.
Proof.
  intros H1 H2 H3 H4 H5 H6 H7 H8 H9 H10. unfold ssim, norm_st. congruence.
Qed.

(** ** the setters keep similarity *)
Ltac ssim_setter H :=
  apply ssim_intro; cbn;
  first [ reflexivity | assumption
        | exact (sim_venv _ _ H) | exact (sim_funcs _ _ H) | exact (sim_exports _ _ H) | exact (sim_retv _ _ H)
        | exact (sim_loops _ _ H) | exact (sim_heap _ _ H) | exact (sim_out _ _ H) | exact (sim_stdin _ _ H)
        | exact (sim_orc _ _ H) | exact (sim_path _ _ H) ].

Lemma ssim_set_venv s1 s2 v : ssim s1 s2 -> ssim (set_venv s1 v) (set_venv s2 v).
Proof. intros H. ssim_setter H. Qed.
Lemma ssim_set_retv s1 s2 v : ssim s1 s2 -> ssim (set_retv s1 v) (set_retv s2 v).
Proof. intros H. ssim_setter H. Qed.
Lemma ssim_set_loops s1 s2 v : ssim s1 s2 -> ssim (set_loops s1 v) (set_loops s2 v).
Proof. intros H. ssim_setter H. Qed.
Lemma ssim_set_heap s1 s2 v : ssim s1 s2 -> ssim (set_heap s1 v) (set_heap s2 v).
Proof. intros H. ssim_setter H. Qed.
Lemma ssim_set_out s1 s2 v : ssim s1 s2 -> ssim (set_out s1 v) (set_out s2 v).
Proof. intros H. ssim_setter H. Qed.
Lemma ssim_set_stdin s1 s2 v : ssim s1 s2 -> ssim (set_stdin s1 v) (set_stdin s2 v).
Proof. intros H. ssim_setter H. Qed.
Lemma ssim_set_orc s1 s2 v : ssim s1 s2 -> ssim (set_orc s1 v) (set_orc s2 v).
Proof. intros H. ssim_setter H. Qed.
Lemma ssim_set_funcs s1 s2 t1 t2 : ssim s1 s2 -> norm_ft t1 = norm_ft t2 -> ssim (set_funcs s1 t1) (set_funcs s2 t2).
Proof. intros H Ht. ssim_setter H. Qed.
Lemma ssim_set_exports s1 s2 t1 t2 : ssim s1 s2 -> norm_ft t1 = norm_ft t2 -> ssim (set_exports s1 t1) (set_exports s2 t2).
Proof. intros H Ht. ssim_setter H. Qed.

Create HintDb ssim.
#[export] Hint Resolve ssim_refl ssim_set_venv ssim_set_retv ssim_set_loops ssim_set_heap ssim_set_out
  ssim_set_stdin ssim_set_orc ssim_set_funcs ssim_set_exports : ssim.

(** ** outcomes *)
Lemma rsim_ok A (x : A) s1 s2 : ssim s1 s2 -> rsim (ROk x s1) (ROk x s2).
Proof. intros H. unfold rsim. cbn. rewrite H. reflexivity. Qed.
Lemma rsim_err A k sp1 sp2 s1 s2 : ssim s1 s2 -> rsim (@RErr A k sp1 s1) (RErr k sp2 s2).
Proof. intros H. unfold rsim. cbn. rewrite H. reflexivity. Qed.
Lemma rsim_exit A s1 s2 : ssim s1 s2 -> rsim (@RExit A s1) (RExit s2).
Proof. intros H. unfold rsim. cbn. rewrite H. reflexivity. Qed.
Lemma rsim_panic A p s1 s2 : ssim s1 s2 -> rsim (@RPanic A p s1) (RPanic p s2).
Proof. intros H. unfold rsim. cbn. rewrite H. reflexivity. Qed.
Lemma rsim_fuel A : rsim (@RFuel A) RFuel.
Proof. reflexivity. Qed.

Lemma rsim_bind A B (m1 m2 : res A) (k1 k2 : A -> state -> res B) :
  rsim m1 m2 ->
  (forall x s1 s2, ssim s1 s2 -> rsim (k1 x s1) (k2 x s2)) ->
  rsim (rbind m1 k1) (rbind m2 k2).
Proof.
  intros Hm Hk. unfold rsim in Hm.
  destruct m1, m2; cbn [norm_res] in Hm; try discriminate; cbn [rbind].
  - assert (Hs : ssim st st0).
    { unfold ssim. remember (norm_st st) as n1. remember (norm_st st0) as n2. injection Hm as _ Hs. exact Hs. }
    assert (Hx : x = x0).
    { remember (norm_st st) as n1. remember (norm_st st0) as n2. injection Hm as Hx _. exact Hx. }
    subst x0. apply Hk. exact Hs.
  - unfold rsim; cbn [norm_res]. remember (norm_st st) as n1. remember (norm_st st0) as n2.
    injection Hm as -> ->. reflexivity.
  - unfold rsim; cbn [norm_res]. remember (norm_st st) as n1. remember (norm_st st0) as n2.
    injection Hm as ->. reflexivity.
  - unfold rsim; cbn [norm_res]. remember (norm_st st) as n1. remember (norm_st st0) as n2.
    injection Hm as -> ->. reflexivity.
  - reflexivity.
Qed.

#[export] Hint Resolve rsim_ok rsim_err rsim_exit rsim_panic rsim_fuel rsim_refl : ssim.

(** * function tables *)
Lemma norm_ft_get t x : ft_get (norm_ft t) x = option_map norm_fn (ft_get t x).
Proof.
  induction t as [|[y f] t IH]; cbn; [reflexivity|].
  destruct (text_eqb x y); [reflexivity | exact IH].
Qed.
Lemma norm_ft_remove t x : norm_ft (ft_remove t x) = ft_remove (norm_ft t) x.
Proof.
  induction t as [|[y f] t IH]; cbn; [reflexivity|].
  destruct (text_eqb x y); [exact IH | cbn; f_equal; exact IH].
Qed.
Lemma norm_ft_set t x f : norm_ft (ft_set t x f) = ft_set (norm_ft t) x (norm_fn f).
Proof. unfold ft_set. cbn. rewrite norm_ft_remove. reflexivity. Qed.
Lemma norm_ft_extend more : forall t, norm_ft (ft_extend t more) = ft_extend (norm_ft t) (norm_ft more).
Proof.
  unfold ft_extend. induction more as [|[y f] more IH]; intros t; cbn; [reflexivity|].
  rewrite IH, norm_ft_set. reflexivity.
Qed.
Lemma norm_ft_rev t : norm_ft (rev t) = rev (norm_ft t).
Proof. unfold norm_ft. apply map_rev. Qed.

Lemma ft_get_sim t1 t2 x : norm_ft t1 = norm_ft t2 ->
  option_map norm_fn (ft_get t1 x) = option_map norm_fn (ft_get t2 x).
Proof. intros H. rewrite <- !norm_ft_get, H. reflexivity. Qed.

Lemma norm_ft_natives t : (forall p, In p t -> exists m n s, snd p = FNative m n s) -> norm_ft t = t.
Proof.
  induction t as [|[y f] t IH]; intros H; [reflexivity|].
  change (norm_ft ((y, f) :: t)) with ((y, norm_fn f) :: norm_ft t).
  rewrite IH by (intros p Hp; apply H; right; exact Hp).
  destruct (H (y, f) (or_introl eq_refl)) as (m & n & s & E). cbn in E. subst f. reflexivity.
Qed.

(** * the shared operations (Refine.commutes): they do not look at the procedure tables *)
Lemma ssim_frames s1 s2 : ssim s1 s2 ->
  exists v f1 e1 f2 e2 r l p,
    s1 = Refine.FR v f1 e1 r l p s1 /\ s2 = Refine.FR v f2 e2 r l p s1 /\
    norm_ft f1 = norm_ft f2 /\ norm_ft e1 = norm_ft e2.
Proof.
  intros H. destruct s1 as [v f1 e1 r l h o i oc p], s2 as [v2 f2 e2 r2 l2 h2 o2 i2 oc2 p2].
  unfold ssim, norm_st in H. cbn in H. injection H as -> Hf He -> -> -> -> -> -> ->.
  exists v2, f1, e1, f2, e2, r2, l2, p2. repeat split; assumption.
Qed.

Lemma shared_sim A (op : state -> res A) : Refine.commutes op -> forall s1 s2, ssim s1 s2 -> rsim (op s1) (op s2).
Proof.
  intros Hop s1 s2 H.
  destruct (ssim_frames _ _ H) as (v & f1 & e1 & f2 & e2 & r & l & p & E1 & E2 & Hf & He).
  rewrite E2. rewrite E1 at 1. rewrite !Hop.
  unfold rsim. destruct (op s1); unfold Refine.lift, norm_res, norm_st, Refine.FR;
    cbn [venv funcs exports retv loops heap out stdin_ orc path]; rewrite ?Hf, ?He; reflexivity.
Qed.

(** * ranges only label errors: the library and the operator tables *)
Ltac bm := match goal with |- context [match ?x with _ => _ end] => destruct x end.

Lemma apply_binop_span op t1 t2 a b s : rsim (apply_binop op t1 a b s) (apply_binop op t2 a b s).
Proof. unfold apply_binop, rsim. repeat first [reflexivity | bm]. Qed.

Lemma apply_unop_span op t1 t2 v s : rsim (apply_unop op t1 v s) (apply_unop op t2 v s).
Proof. unfold apply_unop, rsim. repeat first [reflexivity | bm]. Qed.

Lemma check_args_span sig : forall args sp1 sp2 s, length sp1 = length sp2 ->
  rsim (check_args sig args sp1 s) (check_args sig args sp2 s).
Proof.
  induction sig as [|k sig IH]; intros args sp1 sp2 s Hl; [reflexivity|].
  destruct args as [|v args]; [destruct sp1, sp2; reflexivity|].
  destruct sp1 as [|a sp1], sp2 as [|b sp2]; try discriminate; [reflexivity|].
  injection Hl as Hl. specialize (IH args sp1 sp2 s Hl).
  cbn [check_args]. unfold rsim in *. repeat first [exact IH | reflexivity | bm].
Qed.

Lemma native_body_span m name args sp1 sp2 s : rsim (native_body m name args sp1 s) (native_body m name args sp2 s).
Proof. unfold native_body, rsim. repeat first [reflexivity | bm]. Qed.

Lemma native_call_span m name sig args sp1 sp2 s : length sp1 = length sp2 ->
  rsim (native_call m name sig args sp1 s) (native_call m name sig args sp2 s).
Proof.
  intros Hl. unfold native_call. apply rsim_bind; [apply check_args_span; exact Hl|].
  intros _ s1 s2 H. destruct (str_eq m "FS").
  - apply shared_sim; [apply Refine.fs_call_comm | exact H].
  - eapply rsim_trans; [apply native_body_span|].
    apply shared_sim; [apply Refine.native_body_comm | exact H].
Qed.

Lemma native_call_sim m name sig args sp1 sp2 s1 s2 : length sp1 = length sp2 -> ssim s1 s2 ->
  rsim (native_call m name sig args sp1 s1) (native_call m name sig args sp2 s2).
Proof.
  intros Hl H. eapply rsim_trans; [apply native_call_span; exact Hl|].
  apply shared_sim; [apply Refine.native_call_comm | exact H].
Qed.

Lemma apply_binop_sim op t1 t2 a b s1 s2 : ssim s1 s2 -> rsim (apply_binop op t1 a b s1) (apply_binop op t2 a b s2).
Proof.
  intros H. eapply rsim_trans; [apply apply_binop_span|].
  apply shared_sim; [apply Refine.apply_binop_comm | exact H].
Qed.

Lemma apply_unop_sim op t1 t2 v s1 s2 : ssim s1 s2 -> rsim (apply_unop op t1 v s1) (apply_unop op t2 v s2).
Proof.
  intros H. eapply rsim_trans; [apply apply_unop_span|].
  apply shared_sim; [apply Refine.apply_unop_comm | exact H].
Qed.

Lemma truthy_r_sim v s1 s2 : ssim s1 s2 -> rsim (truthy_r v s1) (truthy_r v s2).
Proof. intros H. apply shared_sim; [apply Refine.truthy_r_comm | exact H]. Qed.

Lemma new_list_sim items s1 s2 : ssim s1 s2 -> rsim (new_list s1 items) (new_list s2 items).
Proof. intros H. apply (shared_sim _ (fun st => new_list st items)); [apply Refine.new_list_comm | exact H]. Qed.

#[export] Hint Resolve native_call_sim apply_binop_sim apply_unop_sim truthy_r_sim new_list_sim : ssim.

(** * the small state operations *)
Lemma lookup_sim s1 s2 x : ssim s1 s2 -> lookup s1 x = lookup s2 x.
Proof. intros H. unfold lookup. rewrite (sim_venv _ _ H). reflexivity. Qed.

Lemma top_flags_sim s1 s2 : ssim s1 s2 -> top_flags s1 = top_flags s2.
Proof. intros H. unfold top_flags. rewrite (sim_loops _ _ H). reflexivity. Qed.

Definition osim (o1 o2 : option state) : Prop :=
  match o1, o2 with
  | Some a, Some b => ssim a b
  | None, None => True
  | _, _ => False
  end.

Lemma define_sim s1 s2 x v : ssim s1 s2 -> osim (define s1 x v) (define s2 x v).
Proof.
  intros H. unfold define. rewrite (sim_venv _ _ H).
  destruct (venv s2); cbn [osim]; auto with ssim.
Qed.

Lemma push_loop_sim s1 s2 : ssim s1 s2 -> ssim (push_loop s1) (push_loop s2).
Proof. intros H. unfold push_loop. rewrite (sim_loops _ _ H). auto with ssim. Qed.

Lemma pop_loop_sim s1 s2 : ssim s1 s2 -> rsim (pop_loop s1) (pop_loop s2).
Proof. intros H. unfold pop_loop. rewrite (sim_loops _ _ H). destruct (loops s2); auto with ssim. Qed.

Lemma heap_set_sim s1 s2 a c : ssim s1 s2 -> ssim (heap_set s1 a c) (heap_set s2 a c).
Proof. intros H. unfold heap_set. rewrite (sim_heap _ _ H). auto with ssim. Qed.

Lemma alloc_sim s1 s2 c : ssim s1 s2 -> fst (alloc s1 c) = fst (alloc s2 c) /\ ssim (snd (alloc s1 c)) (snd (alloc s2 c)).
Proof. intros H. unfold alloc. cbn [fst snd]. rewrite (sim_heap _ _ H). auto with ssim. Qed.

Definition asim_t (o1 o2 : option (after_body * state)) : Prop :=
  match o1, o2 with
  | Some (g1, a), Some (g2, b) => g1 = g2 /\ ssim a b
  | None, None => True
  | _, _ => False
  end.
Lemma after_times_sim s1 s2 : ssim s1 s2 -> asim_t (after_times s1) (after_times s2).
Proof.
  intros H. unfold after_times. rewrite (sim_retv _ _ H), (sim_loops _ _ H).
  destruct (retv s2); [cbn; auto|].
  destruct (loops s2) as [|[b c] r]; [exact I|].
  destruct c; [cbn; auto with ssim|]. destruct b; cbn; auto with ssim.
Qed.

Definition asim_u (o1 o2 : option (after_body * bool * state)) : Prop :=
  match o1, o2 with
  | Some (g1, w1, a), Some (g2, w2, b) => g1 = g2 /\ w1 = w2 /\ ssim a b
  | None, None => True
  | _, _ => False
  end.
Lemma after_until_sim s1 s2 : ssim s1 s2 -> asim_u (after_until s1) (after_until s2).
Proof.
  intros H. unfold after_until. rewrite (sim_retv _ _ H), (sim_loops _ _ H).
  destruct (retv s2); [cbn; auto|].
  destruct (loops s2) as [|[b c] r]; [exact I|].
  destruct b; [cbn; auto with ssim|]. destruct c; cbn; auto with ssim.
Qed.

#[export] Hint Resolve push_loop_sim pop_loop_sim heap_set_sim : ssim.

(** * the mechanical step: two computations of the same shape over similar states *)
Ltac sim_rw :=
  repeat match goal with
  | H : ssim ?a ?b |- context [venv ?a] => rewrite (sim_venv a b H)
  | H : ssim ?a ?b |- context [retv ?a] => rewrite (sim_retv a b H)
  | H : ssim ?a ?b |- context [loops ?a] => rewrite (sim_loops a b H)
  | H : ssim ?a ?b |- context [heap ?a] => rewrite (sim_heap a b H)
  | H : ssim ?a ?b |- context [out ?a] => rewrite (sim_out a b H)
  | H : ssim ?a ?b |- context [stdin_ ?a] => rewrite (sim_stdin a b H)
  | H : ssim ?a ?b |- context [orc ?a] => rewrite (sim_orc a b H)
  | H : ssim ?a ?b |- context [path ?a] => rewrite (sim_path a b H)
  | H : ssim ?a ?b |- context [lookup ?a ?x] => rewrite (lookup_sim a b x H)
  | H : ssim ?a ?b |- context [top_flags ?a] => rewrite (top_flags_sim a b H)
  end.

Ltac sim_leaf :=
  first [ apply rsim_fuel | apply rsim_ok | apply rsim_err | apply rsim_exit | apply rsim_panic ];
  auto 6 with ssim.

Ltac sim_step :=
  cbv beta iota zeta; sim_rw;
  lazymatch goal with
  | |- rsim (rbind ?m _) (rbind ?m _) => destruct m; cbn [rbind]
  | |- rsim (rbind _ _) (rbind _ _) => apply rsim_bind; [| intros ? ? ? ?]
  | |- rsim (match define ?s1 ?x ?v with _ => _ end) (match define ?s2 ?x ?v with _ => _ end) =>
    let H := fresh "Hd" in
    assert (H : osim (define s1 x v) (define s2 x v)) by (apply define_sim; auto 6 with ssim);
    destruct (define s1 x v), (define s2 x v); cbn [osim] in H; try contradiction
  | |- rsim (match after_times ?s1 with _ => _ end) (match after_times ?s2 with _ => _ end) =>
    let H := fresh "Ha" in
    assert (H : asim_t (after_times s1) (after_times s2)) by (apply after_times_sim; auto 6 with ssim);
    destruct (after_times s1) as [[? ?]|], (after_times s2) as [[? ?]|]; cbn [asim_t] in H; try contradiction;
    [destruct H as [-> H]|]
  | |- rsim (match after_until ?s1 with _ => _ end) (match after_until ?s2 with _ => _ end) =>
    let H := fresh "Ha" in
    assert (H : asim_u (after_until s1) (after_until s2)) by (apply after_until_sim; auto 6 with ssim);
    destruct (after_until s1) as [[[? ?] ?]|], (after_until s2) as [[[? ?] ?]|]; cbn [asim_u] in H; try contradiction;
    [destruct H as [-> [-> H]]|]
  | |- rsim (match ?x with _ => _ end) (match ?x with _ => _ end) => destruct x
  | |- rsim (ROk _ _) (ROk _ _) => sim_leaf
  | |- rsim (RErr _ _ _) (RErr _ _ _) => sim_leaf
  | |- rsim (RPanic _ _) (RPanic _ _) => sim_leaf
  | |- rsim (RExit _) (RExit _) => sim_leaf
  | |- rsim RFuel RFuel => apply rsim_fuel
  | |- rsim _ _ => solve [eauto 6 with ssim]
  end.
Ltac sim_auto := repeat sim_step.

(** * the statement helpers *)
Section HelpersSim.
  Variable ev : expr -> state -> res value.
  Variable ex : stmt -> state -> res unit.
  Hypothesis Hev : forall e1 e2 s1 s2, erase e1 = erase e2 -> ssim s1 s2 -> rsim (ev e1 s1) (ev e2 s2).
  Hypothesis Hex : forall b1 b2 s1 s2, erase_stmt b1 = erase_stmt b2 -> ssim s1 s2 -> rsim (ex b1 s1) (ex b2 s2).

  Lemma eval_args_sim : forall es1 es2 s1 s2, map erase es1 = map erase es2 -> ssim s1 s2 ->
    rsim (eval_args ev es1 s1) (eval_args ev es2 s2).
  Proof.
    induction es1 as [|e1 es1 IH]; intros [|e2 es2] s1 s2 He H; try discriminate; cbn [eval_args].
    - sim_auto.
    - cbn [map] in He. injection He as He1 He2. sim_auto.
  Qed.

  Lemma block_stmts_sim : forall ss1 ss2 s1 s2, map erase_stmt ss1 = map erase_stmt ss2 -> ssim s1 s2 ->
    rsim (block_stmts ex ss1 s1) (block_stmts ex ss2 s2).
  Proof.
    induction ss1 as [|b1 ss1 IH]; intros [|b2 ss2] s1 s2 He H; try discriminate; cbn [block_stmts].
    - sim_auto.
    - cbn [map] in He. injection He as He1 He2. sim_auto.
  Qed.

  Lemma block_top_sim : forall ss1 ss2 s1 s2, map erase_stmt ss1 = map erase_stmt ss2 -> ssim s1 s2 ->
    rsim (block_top ex ss1 s1) (block_top ex ss2 s2).
  Proof.
    induction ss1 as [|b1 ss1 IH]; intros [|b2 ss2] s1 s2 He H; try discriminate; cbn [block_top].
    - sim_auto.
    - cbn [map] in He. injection He as He1 He2. sim_auto.
  Qed.

  Lemma times_loop_sim : forall k n b1 b2 s1 s2, erase_stmt b1 = erase_stmt b2 -> ssim s1 s2 ->
    rsim (times_loop ex k n b1 s1) (times_loop ex k n b2 s2).
  Proof.
    induction k as [|k IH]; intros n b1 b2 s1 s2 He H; cbn [times_loop]; sim_auto.
  Qed.

  Lemma until_loop_sim : forall k c1 c2 b1 b2 s1 s2, erase c1 = erase c2 -> erase_stmt b1 = erase_stmt b2 -> ssim s1 s2 ->
    rsim (until_loop ev ex k c1 b1 s1) (until_loop ev ex k c2 b2 s2).
  Proof.
    induction k as [|k IH]; intros c1 c2 b1 b2 s1 s2 Hc He H; cbn [until_loop]; sim_auto.
  Qed.

  Lemma each_loop_sim : forall k a x i len b1 b2 s1 s2, erase_stmt b1 = erase_stmt b2 -> ssim s1 s2 ->
    rsim (each_loop ex k a x i len b1 s1) (each_loop ex k a x i len b2 s2).
  Proof.
    induction k as [|k IH]; intros a x i len b1 b2 s1 s2 He H; cbn [each_loop]; sim_auto.
    apply IH; [exact He|]. cbn [heap set_venv]. sim_rw.
    match goal with |- ssim (match ?x with _ => _ end) _ => destruct x as [l'|] end;
      [destruct (Nat.ltb i (length l'))|]; auto 6 with ssim.
  Qed.
End HelpersSim.

#[export] Hint Resolve eval_args_sim block_stmts_sim block_top_sim times_loop_sim until_loop_sim each_loop_sim : ssim.

(** * the evaluator *)
Definition ev_sim (ev : expr -> state -> res value) : Prop :=
  forall e1 e2 s1 s2, erase e1 = erase e2 -> ssim s1 s2 -> rsim (ev e1 s1) (ev e2 s2).
Definition ex_sim (ex : stmt -> state -> res unit) : Prop :=
  forall b1 b2 s1 s2, erase_stmt b1 = erase_stmt b2 -> ssim s1 s2 -> rsim (ex b1 s1) (ex b2 s2).

Lemma bind_params_sim (pvs : list (text * value)) : forall s1 s2, ssim s1 s2 ->
  ssim (fold_left (fun s pv => match define s (fst pv) (snd pv) with Some s' => s' | None => s end) pvs s1)
       (fold_left (fun s pv => match define s (fst pv) (snd pv) with Some s' => s' | None => s end) pvs s2).
Proof.
  induction pvs as [|pv pvs IH]; intros s1 s2 H; cbn [fold_left]; [exact H|].
  apply IH. pose proof (define_sim s1 s2 (fst pv) (snd pv) H) as Hd.
  destruct (define s1 (fst pv) (snd pv)), (define s2 (fst pv) (snd pv)); cbn [osim] in Hd; try contradiction; auto.
Qed.
#[export] Hint Resolve bind_params_sim : ssim.

Lemma eval_step f : ev_sim (eval f) -> ex_sim (exec f) -> ev_sim (eval (S f)).
Proof.
  unfold ev_sim, ex_sim. intros Hev Hex e1 e2 s1 s2 He H.
  destruct e1; destruct e2; cbn [erase] in He; try discriminate; try (injection He; intros; subst); cbn [eval].
  all: try solve [sim_auto].
  (* ECall *)
  match goal with Hs : map _ ?sp1 = map _ ?sp2 |- context [native_call _ _ _ _ ?sp1] =>
    assert (Hlen : length sp1 = length sp2) by (rewrite <- (map_length (fun _ => z0) sp1), Hs; apply map_length) end.
  apply rsim_bind; [auto with ssim|]. intros vs t1 t2 Ht.
  pose proof (ft_get_sim (funcs t1) (funcs t2) name0 (sim_funcs _ _ Ht)) as Hg.
  destruct (ft_get (funcs t1) name0) as [fn1|], (ft_get (funcs t2) name0) as [fn2|]; cbn [option_map] in Hg;
    try discriminate; [|sim_auto].
  injection Hg as Hg.
  destruct fn1 as [ps1 b1|m1 n1 sg1], fn2 as [ps2 b2|m2 n2 sg2]; cbn [norm_fn] in Hg; try discriminate;
    injection Hg; intros; subst; sim_auto.
Qed.

Lemma exec_step f : ev_sim (eval f) -> ex_sim (exec f) -> ex_sim (exec (S f)).
Proof.
  unfold ev_sim, ex_sim. intros Hev Hex b1 b2 s1 s2 He H.
  destruct b1; destruct b2; try discriminate;
    repeat match goal with o : option _ |- _ => destruct o end; cbn [erase_stmt] in He; try discriminate.
  all: try (injection He; intros; subst); cbn [exec]; unfold alloc.
  all: try solve [sim_auto].
  - (* SForEach *)
    apply rsim_bind; [auto|]. intros lv t1 t2 Ht.
    apply rsim_bind; [sim_auto|]. intros a u1 u2 Hu.
    sim_rw. destruct (venv u2) as [|sc rest]; [sim_auto|].
    repeat match goal with |- context [heap (push_loop (set_venv ?s ?v))] =>
      change (heap (push_loop (set_venv s v))) with (heap s) end.
    sim_auto.
  - (* SProc *)
    assert (Hb : norm_fn (FUser params0 b1) = norm_fn (FUser params0 b2)) by (cbn [norm_fn]; congruence).
    assert (Hf : norm_ft (ft_set (funcs s1) name0 (FUser params0 b1)) = norm_ft (ft_set (funcs s2) name0 (FUser params0 b2))).
    { rewrite !norm_ft_set, (sim_funcs _ _ H), Hb. reflexivity. }
    apply rsim_ok. destruct exported0; [|auto with ssim].
    apply ssim_set_exports; [auto with ssim|]. cbn [exports set_funcs].
    rewrite !norm_ft_set, (sim_exports _ _ H), Hb. reflexivity.
  - (* SImport, some names *)
    apply rsim_bind; [sim_auto|]. intros table t1 t2 Ht.
    match goal with Hm : map _ ?l1 = map _ ?l2 |- _ => revert Hm; generalize l2; generalize l1 end.
    generalize table, (@nil (text * fn)).
    intros tbl acc l1. revert tbl acc.
    induction l1 as [|[n sp] l1 IH]; intros tbl acc [|[n0 sp0] l2] Hm; try discriminate.
    + apply rsim_ok. apply ssim_set_funcs; [exact Ht|].
      rewrite !norm_ft_extend, (sim_funcs _ _ Ht). reflexivity.
    + cbn [map fst] in Hm. injection Hm as -> Hm.
      cbv beta iota. destruct (ft_get tbl n0) as [fnv|]; [apply IH; exact Hm | sim_leaf].
  - (* SImport, all *)
    apply rsim_bind; [sim_auto|]. intros table t1 t2 Ht.
    apply rsim_ok. apply ssim_set_funcs; [exact Ht|].
    rewrite !norm_ft_extend, (sim_funcs _ _ Ht). reflexivity.
Qed.

Lemma eval_exec_sim : forall f, ev_sim (eval f) /\ ex_sim (exec f).
Proof.
  induction f as [|f [IHe IHx]]; split.
  - intros e1 e2 s1 s2 _ _. apply rsim_fuel.
  - intros b1 b2 s1 s2 _ _. apply rsim_fuel.
  - apply eval_step; assumption.
  - apply exec_step; assumption.
Qed.

(** * whole programs *)
Lemma observe_nospan_norm A (r : res A) : observe_nospan (norm_res r) = observe_nospan r.
Proof. destruct r; reflexivity. Qed.

Lemma rsim_observe A (r1 r2 : res A) : rsim r1 r2 -> observe_nospan r1 = observe_nospan r2.
Proof. intros H. rewrite <- (observe_nospan_norm _ r1), <- (observe_nospan_norm _ r2), H. reflexivity. Qed.

Theorem run_impl_sim : forall fuel p1 p2 s1 s2, erase_prog p1 = erase_prog p2 -> ssim s1 s2 ->
  rsim (run_impl fuel p1 s1) (run_impl fuel p2 s2).
Proof.
  intros fuel p1 p2 s1 s2 Hp H. unfold run_impl.
  apply block_top_sim; [exact (proj2 (eval_exec_sim fuel)) | exact Hp | exact H].
Qed.

Theorem eval_span_invariant : forall fuel p1 p2 st0, erase_prog p1 = erase_prog p2 ->
  observe_nospan (run_impl fuel p1 st0) = observe_nospan (run_impl fuel p2 st0).
Proof.
  intros fuel p1 p2 st0 Hp. apply rsim_observe. apply run_impl_sim; [exact Hp | apply ssim_refl].
Qed.
