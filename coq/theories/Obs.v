(** Obs: canonical observations of the models, in the textual form the Rust harness
    prints, for the correspondence check (evaluated with vm_compute on generated cases). *)
From Aplang Require Import Base Robot.
Open Scope N_scope.

Definition hex_or_dash (t : text) : text :=
  match t with [] => [45] | _ => hex_text t end.

(** robot histories: "E<0|1> <hex of everything displayed>" *)
Definition robot_obs (g : text) (cs : list cmd) : text :=
  let '(o, e) := run_grid g cs in
  [69; if e then 49 else 48; 32] ++ hex_or_dash (concat (map (fun l => l ++ [10]) o)).

(** * lexer channel K1 *)
From Aplang Require Import FloatX Token LexImpl.

Definition sp : text := [32].
Definition colon : text := [58].
Fixpoint join (sep : text) (l : list text) : text :=
  match l with [] => [] | [x] => x | x :: r => x ++ sep ++ join sep r end.

Definition lit_obs (l : literal) : text :=
  match l with
  | LNone => [45]
  | LNum f => 78 :: hex64 (float_bits f)
  | LStr s => 83 :: hex_text s
  end.

Definition token_obs (t : token) : text :=
  string_bytes (tk_name (tkind t)) ++ colon ++ dec (toff t) ++ colon ++ dec (tlen t) ++ colon
  ++ hex_text (tlex t) ++ colon ++ lit_obs (tlit t).

Definition label_obs (l : N * N) : text := dec (fst l) ++ [43] ++ dec (snd l).

Definition lex_error_obs (e : lex_error) : text :=
  string_bytes (lex_err_code (ekind e)) ++ [64] ++ join [44] (map label_obs (elabels e)).

Definition lex_result_obs (r : lex_result) : text :=
  match r with
  | LexOk ts => [79; 75] ++ concat (map (fun t => sp ++ token_obs t) ts)
  | LexErr es => [69; 82; 82; 32] ++ dec (N.of_nat (length es)) ++ concat (map (fun e => sp ++ lex_error_obs e) es)
  | LexFuel => [70; 85; 69; 76]
  end.

Definition lex_obs (s : text) : text := lex_result_obs (lex s).
