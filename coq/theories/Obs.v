(** Obs: canonical observations of the models, in the textual form the Rust harness
    prints, for the correspondence check (evaluated with vm_compute on generated cases). *)
From Aplang Require Import Base Robot.
Open Scope N_scope.

Definition hex_or_dash (t : text) : text :=
  match t with [] => [45] | _ => hex_text t end.

(** robot histories: "E<0|1> <hex of everything displayed>" *)
Definition robot_obs (g : text) (cs : list cmd) : text :=
  let '(o, e) := run_grid g cs in
  [69; if e then 49 else 48; 32] ++ hex_or_dash (concat (map (fun l => l ++ [10]) o)).

(** * lexer channel K1 *)
From Aplang Require Import FloatX Token LexImpl.

Definition sp : text := [32].
Definition colon : text := [58].
Fixpoint join (sep : text) (l : list text) : text :=
  match l with [] => [] | [x] => x | x :: r => x ++ sep ++ join sep r end.

Definition lit_obs (l : literal) : text :=
  match l with
  | LNone => [45]
  | LNum f => 78 :: hex64 (float_bits f)
  | LStr s => 83 :: hex_text s
  end.

Definition token_obs (t : token) : text :=
  string_bytes (tk_name (tkind t)) ++ colon ++ dec (toff t) ++ colon ++ dec (tlen t) ++ colon
  ++ hex_text (tlex t) ++ colon ++ lit_obs (tlit t).

Definition label_obs (l : N * N) : text := dec (fst l) ++ [43] ++ dec (snd l).

Definition lex_error_obs (e : lex_error) : text :=
  string_bytes (lex_err_code (ekind e)) ++ [64] ++ join [44] (map label_obs (elabels e)).

Definition lex_result_obs (r : lex_result) : text :=
  match r with
  | LexOk ts => [79; 75] ++ concat (map (fun t => sp ++ token_obs t) ts)
  | LexErr es => [69; 82; 82; 32] ++ dec (N.of_nat (length es)) ++ concat (map (fun e => sp ++ lex_error_obs e) es)
  | LexFuel => [70; 85; 69; 76]
  end.

Definition lex_obs (s : text) : text := lex_result_obs (lex s).

(** * parser channel K2 *)
From Aplang Require Import Ast ParseImpl.

Definition sb (s : string) : text := string_bytes s.
Definition span_obs (s : span) : text := dec (fst s) ++ [43] ++ dec (snd s).
Definition name_obs (s : text) : text := match s with [] => [95] | _ => hex_text s end.

Fixpoint expr_obs (e : expr) : text :=
  match e with
  | EGroup e => sb "(g " ++ expr_obs e ++ sb ")"
  | ENum f => sb "(n " ++ hex64 (float_bits f) ++ sb ")"
  | EStr s => sb "(s " ++ name_obs s ++ sb ")"
  | ETrue => sb "T" | EFalse => sb "F" | ENull => sb "N"
  | EBin op tok l r => sb "(b " ++ sb (binop_name op) ++ [64] ++ span_obs tok ++ sp ++ expr_obs l ++ sp ++ expr_obs r ++ sb ")"
  | ELog op tok l r => sb "(l " ++ sb (logop_name op) ++ [64] ++ span_obs tok ++ sp ++ expr_obs l ++ sp ++ expr_obs r ++ sb ")"
  | EUn op tok e => sb "(u " ++ sb (unop_name op) ++ [64] ++ span_obs tok ++ sp ++ expr_obs e ++ sb ")"
  | ECall name tok lp rp spans args =>
    sb "(c " ++ name_obs name ++ [64] ++ span_obs tok ++ sp ++ span_obs lp ++ sp ++ span_obs rp ++ sb " ["
    ++ join sp (map span_obs spans) ++ sb "]" ++ concat (map (fun a => sp ++ expr_obs a) args) ++ sb ")"
  | EAccess lt lb rb l k =>
    sb "(a " ++ span_obs lt ++ sp ++ span_obs lb ++ sp ++ span_obs rb ++ sp ++ expr_obs l ++ sp ++ expr_obs k ++ sb ")"
  | EList lb rb items => sb "(L " ++ span_obs lb ++ sp ++ span_obs rb ++ concat (map (fun a => sp ++ expr_obs a) items) ++ sb ")"
  | EVar name tok => sb "(v " ++ name_obs name ++ [64] ++ span_obs tok ++ sb ")"
  | EAssign name tok arrow v => sb "(= " ++ name_obs name ++ [64] ++ span_obs tok ++ sp ++ span_obs arrow ++ sp ++ expr_obs v ++ sb ")"
  | ESet lt lb rb arrow l i v =>
    sb "(S " ++ span_obs lt ++ sp ++ span_obs lb ++ sp ++ span_obs rb ++ sp ++ span_obs arrow ++ sp
    ++ expr_obs l ++ sp ++ expr_obs i ++ sp ++ expr_obs v ++ sb ")"
  end.

Fixpoint stmt_obs (s : stmt) : text :=
  match s with
  | SExpr e => sb "(e " ++ expr_obs e ++ sb ")"
  | SIf c t e => sb "(if " ++ expr_obs c ++ sp ++ stmt_obs t ++ sp ++ (match e with Some x => stmt_obs x | None => [45] end) ++ sb ")"
  | SRepeatTimes ct n b => sb "(rt " ++ span_obs ct ++ sp ++ expr_obs n ++ sp ++ stmt_obs b ++ sb ")"
  | SRepeatUntil c b => sb "(ru " ++ expr_obs c ++ sp ++ stmt_obs b ++ sb ")"
  | SForEach name it lt l b =>
    sb "(fe " ++ name_obs name ++ [64] ++ span_obs it ++ sp ++ span_obs lt ++ sp ++ expr_obs l ++ sp ++ stmt_obs b ++ sb ")"
  | SProc name ex params b =>
    sb "(p " ++ name_obs name ++ sp ++ (if ex then [49] else [48]) ++ sb " [" ++ join sp (map name_obs params) ++ sb "] " ++ stmt_obs b ++ sb ")"
  | SBlock ss => sb "(B" ++ concat (map (fun x => sp ++ stmt_obs x) ss) ++ sb ")"
  | SReturn e => sb "(ret " ++ (match e with Some x => expr_obs x | None => [45] end) ++ sb ")"
  | SContinue => sb "(cont)"
  | SBreak => sb "(brk)"
  | SImport m mt only =>
    sb "(imp S" ++ hex_text m ++ [64] ++ span_obs mt ++ sp ++
    (match only with
     | None => [45]
     | Some l => sb "[" ++ join sp (map (fun p => 83 :: hex_text (fst p) ++ [64] ++ span_obs (snd p)) l) ++ sb "]"
     end) ++ sb ")"
  end.

Definition perror_obs (e : perror) : text :=
  sb (pcode_name (pe_code e)) ++ [64] ++ join [44] (map label_obs (pe_labels e)).

Definition parse_result_obs (r : parse_result) : text :=
  match r with
  | ParseOk p => sb "OK" ++ concat (map (fun s => sp ++ stmt_obs s) p)
  | ParseErr es => sb "ERR " ++ dec (N.of_nat (length es)) ++ concat (map (fun e => sp ++ perror_obs e) es)
  | ParsePanic _ => sb "PANIC"
  | ParseFuel => sb "FUEL"
  end.

Definition parse_obs (s : text) : text :=
  match lex s with
  | LexOk ts => parse_result_obs (parse_tokens ts)
  | LexErr es => sb "LEX" ++ lex_result_obs (LexErr es)
  | LexFuel => sb "FUEL"
  end.

(** * run channel K3 *)
From Aplang Require Import Tables Value StrLib EvalImpl.

Definition run_fuel : nat := N.to_nat 6000.

Definition res_obs (r : res unit) : text :=
  match r with
  | ROk _ st => sb "OK " ++ hex_or_dash (output_of st)
  | RErr k spn st => sb "RT:" ++ sb (rt_name k) ++ colon ++ span_obs spn ++ sp ++ hex_or_dash (output_of st)
  | RExit st => sb "EXIT " ++ hex_or_dash (output_of st)
  | RPanic _ st => sb "PANIC " ++ hex_or_dash (output_of st)
  | RFuel => sb "FUEL"
  end.

Definition run_with (src : text) (orc0 : oracle) (stdin0 : text) : text :=
  match lex src with
  | LexErr es => sb "LEX" ++ lex_result_obs (LexErr es)
  | LexFuel => sb "FUEL"
  | LexOk ts =>
    match parse_tokens ts with
    | ParseOk prog => res_obs (block_top (exec run_fuel) prog (fresh_state [] [] stdin0 orc0 []))
    | ParseErr es => sb "PARSE" ++ parse_result_obs (ParseErr es)
    | ParsePanic _ => sb "PANIC"
    | ParseFuel => sb "FUEL"
    end
  end.

Definition no_oracle : oracle := mkOracle [] [] 1700000000000%float [] [].
Definition run_obs (src : text) : text := run_with src no_oracle [].
Definition run_obs_files (src : text) (files : list (text * text)) : text :=
  run_with src (mkOracle [] [] 1700000000000%float files []) [].
Definition run_obs_libm (src : text) (tab : list (string * list N * N)) : text :=
  run_with src (mkOracle tab [] 1700000000000%float [] []) [].

(** the reference semantics (EvalSpec) on the same channel: used as the direct oracle of C01-C03 *)
From Aplang Require Import EvalSpec.

Definition spec_with (src : text) (orc0 : oracle) (stdin0 : text) : text :=
  match lex src with
  | LexErr es => sb "LEX" ++ lex_result_obs (LexErr es)
  | LexFuel => sb "FUEL"
  | LexOk ts =>
    match parse_tokens ts with
    | ParseOk prog => res_obs (run_spec run_fuel prog (fresh_state [] [] stdin0 orc0 []))
    | ParseErr es => sb "PARSE" ++ parse_result_obs (ParseErr es)
    | ParsePanic _ => sb "PANIC"
    | ParseFuel => sb "FUEL"
    end
  end.
Definition spec_obs (src : text) : text := spec_with src no_oracle [].
(* implementation model | reference semantics *)
Definition both_obs (src : text) : text := run_obs src ++ [124] ++ spec_obs src.

(** * CLI channel K5 *)
From Aplang Require Import Driver.

Definition cli_obs (mode : N) (dbg : N) (chk : bool) (src stdin0 : text) : text :=
  let name : text := string_bytes "main.ap" in
  let s := match mode with 0 => SrcFile name | 1 => SrcEval src | _ => SrcStdin end in
  let d := match dbg with 0 => DNone | 1 => DTime | 2 => DAll | 3 => DLexer | 4 => DParser | _ => DInterpreter end in
  let files := match mode with 0 => [(name, src)] | _ => [] end in
  let input := match mode with 0 | 1 => stdin0 | _ => src end in
  let r := cli_run (mkConfig s d chk) files input no_oracle in
  sb "S" ++ dec (status r) ++ sp ++ hex_or_dash (stdout_ r) ++ sb " E" ++ (if stderr_nonempty r then [49] else [48]).

(** * FS channel K4: the run channel plus a dump of the named paths afterwards *)
Definition final_state {A} (r : res A) : option state :=
  match r with ROk _ st | RErr _ _ st | RExit st | RPanic _ st => Some st | RFuel => None end.

Definition fsent_obs (e : option fsent) : text :=
  match e with
  | None => sb "-"
  | Some FDir => sb "D"
  | Some (FFile c) => sb "F" ++ hex_text c
  end.

Definition run_obs_fs (src root : text) (paths : list text) : text :=
  match lex src with
  | LexOk ts =>
    match parse_tokens ts with
    | ParseOk prog =>
      let r := block_top (exec run_fuel) prog
                 (fresh_state [] [] [] (mkOracle [] [] 1700000000000%float [] [(root, FDir)]) []) in
      res_obs r ++ sb " |" ++
      match final_state r with
      | Some st => concat (map (fun p => sp ++ fsent_obs (fs_get (o_fs (orc st)) p)) paths)
      | None => []
      end
    | _ => sb "PARSE"
    end
  | _ => sb "LEX"
  end.

(** * the excluded classes of C10: does the heap hold a list / map that contains itself?
    Used only for cases on which the implementation overflowed its native stack: that is accepted
    iff this model run exhausts its fuel or ends with such a heap. *)
Definition val_addr (v : value) : list nat := match v with VList a | VObj a => [a] | _ => [] end.
Definition cell_children (c : cell) : list nat :=
  match c with
  | CList l => flat_map val_addr l
  | CMap m => flat_map (fun p => val_addr (fst p) ++ val_addr (snd p)) m
  | CRobot _ => []
  end.
(* one peeling round: a cell is known acyclic when all the cells it holds are *)
Definition peel (h : heap_t) (ok : list bool) : list bool :=
  map (fun c => forallb (fun a => nth a ok true) (cell_children c)) h.
Definition heap_cyclic (h : heap_t) : bool :=
  negb (forallb (fun b => b) (Nat.iter (length h) (peel h) (map (fun _ => false) h))).

Definition excluded_obs (src : text) (files : list (text * text)) : text :=
  match lex src with
  | LexOk ts =>
    match parse_tokens ts with
    | ParseOk prog =>
      let r := block_top (exec run_fuel) prog (fresh_state [] [] [] (mkOracle [] [] 1700000000000%float files []) []) in
      match final_state r with
      | None => sb "EXCLUDED"                                      (* fuel: recursion / nesting beyond the fixed depth *)
      | Some st => if heap_cyclic (heap st) then sb "EXCLUDED" else sb "NOCYCLE " ++ res_obs r
      end
    | _ => sb "PARSE"
    end
  | _ => sb "LEX"
  end.
