(** Obs: canonical observations of the models, in the textual form the Rust harness
    prints, for the correspondence check (evaluated with vm_compute on generated cases). *)
From Aplang Require Import Base Robot.
Open Scope N_scope.

Definition hex_or_dash (t : text) : text :=
  match t with [] => [45] | _ => hex_text t end.

(** robot histories: "E<0|1> <hex of everything displayed>" *)
Definition robot_obs (g : text) (cs : list cmd) : text :=
  let '(o, e) := run_grid g cs in
  [69; if e then 49 else 48; 32] ++ hex_or_dash (concat (map (fun l => l ++ [10]) o)).
