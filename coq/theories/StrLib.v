(** StrLib: the string operations behind the STRING and IO modules, over code-point lists
    (Rust's str methods with their edge cases).  Unicode tables are finite instances of what
    the theorems treat as parameters: [is_ws], [upper_of], [lower_of]. *)
From Aplang Require Import Base FloatX.
Open Scope N_scope.

(** ** prefix / search *)
Fixpoint prefix_b (p s : text) : bool :=
  match p, s with
  | [], _ => true
  | x :: p', y :: s' => (x =? y) && prefix_b p' s'
  | _ :: _, [] => false
  end.

Fixpoint contains_b (s p : text) : bool :=
  prefix_b p s || match s with [] => false | _ :: r => contains_b r p end.

Definition ends_with_b (s p : text) : bool := prefix_b (rev p) (rev s).

(** ** str::split(pat) *)
(* non-empty pattern: cut at every non-overlapping occurrence, left to right *)
Fixpoint split_ne (fuel : nat) (s p : text) (cur : text) (* reversed *) : list text :=
  match fuel with
  | O => [rev cur ++ s]
  | S f =>
    match s with
    | [] => [rev cur]
    | c :: r =>
      if prefix_b p s then rev cur :: split_ne f (skipn (length p) s) p []
      else split_ne f r p (c :: cur)
    end
  end.

Definition split (s p : text) : list text :=
  match p with
  | [] => [[]] ++ map (fun c => [c]) s ++ [[]]     (* "abc".split("") = ["", "a", "b", "c", ""] *)
  | _ => split_ne (S (length s)) s p []
  end.

Fixpoint join_with (sep : text) (l : list text) : text :=
  match l with [] => [] | [x] => x | x :: r => x ++ sep ++ join_with sep r end.

(** ** str::replace(from, to) *)
Definition replace (s from to : text) : text :=
  match from with
  | [] => to ++ flat_map (fun c => c :: to) s       (* "abc".replace("", "-") = "-a-b-c-" *)
  | _ => join_with to (split s from)
  end.

(** ** white space (char::is_whitespace), trim *)
Definition is_ws (c : N) : bool :=
  ((9 <=? c) && (c <=? 13)) || (c =? 32) || (c =? 133) || (c =? 160) || (c =? 5760)
  || ((8192 <=? c) && (c <=? 8202)) || (c =? 8232) || (c =? 8233) || (c =? 8239) || (c =? 8287) || (c =? 12288).

Fixpoint trim_start (s : text) : text :=
  match s with c :: r => if is_ws c then trim_start r else s | [] => [] end.
Definition trim_end (s : text) : text := rev (trim_start (rev s)).
Definition trim (s : text) : text := trim_end (trim_start s).

(** ** case mapping (str::to_uppercase / to_lowercase) for the listed alphabet *)
Definition case_pairs : list (N * N) :=   (* lower, upper *)
  [(233, 201); (955, 923); (241, 209); (252, 220); (1078, 1046); (228, 196); (246, 214); (224, 192); (1103, 1071); (963, 931)].

Definition upper_of (c : N) : text :=
  if (97 <=? c) && (c <=? 122) then [c - 32]
  else if c =? 223 then [83; 83]                    (* sharp s -> "SS" *)
  else if c =? 962 then [931]                       (* final sigma -> capital sigma *)
  else match find (fun p => fst p =? c) case_pairs with Some p => [snd p] | None => [c] end.
Definition lower_of (c : N) : text :=
  if (65 <=? c) && (c <=? 90) then [c + 32]
  else match find (fun p => snd p =? c) case_pairs with Some p => [fst p] | None => [c] end.
Definition to_upper (s : text) : text := flat_map upper_of s.

(* str::to_lowercase is context sensitive in exactly one place: a capital sigma at the end of a word (preceded by a cased
   letter, not followed by one) becomes the final form.  Cased letters of the listed alphabet; the alphabet has no
   case-ignorable characters (apostrophe, full stop, colon ...), which Rust skips on both sides. *)
Definition is_cased (c : N) : bool :=
  ((65 <=? c) && (c <=? 90)) || ((97 <=? c) && (c <=? 122)) || (c =? 223) ||
  existsb (fun p => (fst p =? c) || (snd p =? c)) case_pairs || (c =? 962).
Fixpoint lower_ctx (prev_cased : bool) (s : text) : text :=
  match s with
  | [] => []
  | c :: r =>
    (if c =? 931
     then (if prev_cased && negb (match r with d :: _ => is_cased d | [] => false end) then [962] else [963])
     else lower_of c) ++ lower_ctx (is_cased c) r
  end.
Definition to_lower (s : text) : text := lower_ctx false s.

Definition ascii_lower (c : N) : N := if (65 <=? c) && (c <=? 90) then c + 32 else c.
Definition ascii_upper_c (c : N) : N := if (97 <=? c) && (c <=? 122) then c - 32 else c.

(** ** <f64 as FromStr>::from_str *)
Definition isdig (c : N) : bool := (48 <=? c) && (c <=? 57).
Fixpoint take_digits (s : text) : text * text :=
  match s with
  | c :: r => if isdig c then let '(a, b) := take_digits r in (c :: a, b) else ([], s)
  | [] => ([], [])
  end.

Definition parse_f64 (s : text) : option float :=
  let '(neg, body) :=
    match s with
    | 45 :: r => (true, r)
    | 43 :: r => (false, r)
    | _ => (false, s)
    end in
  let low := map ascii_lower body in
  if text_eqb low [105; 110; 102] || text_eqb low [105; 110; 102; 105; 110; 105; 116; 121] then
    Some (if neg then neg_infinity else infinity)
  else if text_eqb low [110; 97; 110] then Some nan
  else
    let '(ip, r1) := take_digits body in
    let '(fp, r2) := match r1 with 46 :: r => take_digits r | _ => ([], r1) end in
    let dot := match r1 with 46 :: _ => true | _ => false end in
    match ip, fp with
    | [], [] => None
    | _, _ =>
      match r2 with
      | [] => Some (dec_to_float neg (digits_val (ip ++ fp) 0) (- Z.of_nat (length fp))%Z)
      | e :: r3 =>
        if (e =? 101) || (e =? 69) then
          let '(eneg, r4) := match r3 with 45 :: r => (true, r) | 43 :: r => (false, r) | _ => (false, r3) end in
          let '(ed, r5) := take_digits r4 in
          match ed, r5 with
          | _ :: _, [] =>
            (* clamp absurd exponents: the result is 0 or inf anyway *)
            let ev := Z.of_N (N.min (digits_val ed 0) 100000) in
            Some (dec_to_float neg (digits_val (ip ++ fp) 0) ((if eneg then - ev else ev) - Z.of_nat (length fp))%Z)
          | _, _ => None
          end
        else None
      end
    end.

Definition t_true : text := [116; 114; 117; 101].
Definition t_false : text := [102; 97; 108; 115; 101].
Definition parse_bool (s : text) : option bool :=
  if text_eqb s t_true then Some true else if text_eqb s t_false then Some false else None.

(** ** SUBSTRING(s, start, n) after the F15 repair: characters from 1-based [start], clipped *)
Definition substring (s : text) (start len : N) : text :=
  (* start, len are the saturated usize casts; avoid huge unary numbers *)
  let n := N.of_nat (length s) in
  let st := N.min (start - 1) n in
  let ln := N.min len n in
  firstn (N.to_nat ln) (skipn (N.to_nat st) s).
