(** FmodProofs: [FloatX.sf_fmod] (Rust's [%] on f64) is the exact IEEE remainder (Props/C01b): the result
    is a valid binary64 with the sign of the dividend whose value is exactly (A mod B) * 2^k, and the
    special cases.  Pure Z arithmetic; reuses the [binary_round] facts of ShowProofs / RoundProofs. *)
From Aplang Require Import Base FloatX ShowProofs RoundProofs.
From Coq Require Import SpecFloat Lia ZArith Zpower Bool.
Open Scope Z_scope.

(** m * 2^e in units of 2^k (same body as [C01_scaled] of the statement file) *)
Definition scaled (m : positive) (e k : Z) : Z := Zpos m * 2 ^ (e - k).

(** ** [binary_round] of p * 2^k with p < 2^53 and -1074 <= k <= 971 is exact: the canonical exponent
    max (digits p + k - 53) (-1074) is at most k, so the mantissa is only shifted left *)
Lemma binary_round_small_exact : forall s p k, Zpos p < 2 ^ 53 -> -1074 <= k <= 971 ->
  exists m' e', binary_round prec emax s p k = S754_finite s m' e' /\
    valid_binary prec emax (S754_finite s m' e') = true /\
    e' <= k /\ Zpos m' = Zpos p * 2 ^ (k - e').
Proof.
  intros s p k Hp Hk.
  pose proof (digits2_pos_bounds p) as [Hlo Hhi].
  assert (Hd : 1 <= Zpos (digits2_pos p) <= 53).
  { split; [lia|].
    assert (H : 2 ^ (Zpos (digits2_pos p) - 1) < 2 ^ 53) by lia.
    apply Z.pow_lt_mono_r_iff in H; lia. }
  unfold binary_round.
  set (e1 := fexp prec emax (Zpos (digits2_pos p) + k)).
  assert (He1 : -1074 <= e1 <= k) by (unfold e1; rewrite fexp_eq; lia).
  destruct (shl_align_spec p k e1) as (M & Esh & HM & Hdig).
  rewrite Esh.
  replace (Z.min k e1) with e1 in * by lia.
  assert (Hc : fexp prec emax (Zpos (digits2_pos M) + e1) = e1).
  { rewrite Hdig. reflexivity. }
  exists M, e1. rewrite (binary_round_aux_exact s M e1 Hc).
  replace (Zle_bool e1 (emax - prec)) with true
    by (symmetry; apply Zle_imp_le_bool; unfold emax, prec; lia).
  split; [reflexivity|]. split; [apply valid_binary_intro; [exact Hc|lia]|].
  split; [lia|exact HM].
Qed.

(** ** the finite case of [sf_fmod] *)
Lemma sf_fmod_finite : forall sa ma ea sb mb eb,
  sf_fmod (S754_finite sa ma ea) (S754_finite sb mb eb) =
  match scaled ma ea (Z.min ea eb) mod scaled mb eb (Z.min ea eb) with
  | Zpos r => binary_round prec emax sa r (Z.min ea eb)
  | _ => S754_zero sa
  end.
Proof. reflexivity. Qed.

(** the remainder is below 2^53 *)
Lemma fmod_rem_small : forall ma ea mb eb, Zpos ma < 2 ^ 53 -> Zpos mb < 2 ^ 53 ->
  0 <= scaled ma ea (Z.min ea eb) mod scaled mb eb (Z.min ea eb) < 2 ^ 53.
Proof.
  intros ma ea mb eb Ha Hb. unfold scaled.
  set (k := Z.min ea eb).
  assert (HA : 0 < Zpos ma * 2 ^ (ea - k)).
  { apply Z.mul_pos_pos; [lia|apply Z.pow_pos_nonneg; unfold k; lia]. }
  assert (HB : 0 < Zpos mb * 2 ^ (eb - k)).
  { apply Z.mul_pos_pos; [lia|apply Z.pow_pos_nonneg; unfold k; lia]. }
  pose proof (Z.mod_pos_bound (Zpos ma * 2 ^ (ea - k)) (Zpos mb * 2 ^ (eb - k)) HB) as Hr.
  pose proof (Z.mod_le (Zpos ma * 2 ^ (ea - k)) (Zpos mb * 2 ^ (eb - k)) (Z.lt_le_incl _ _ HA) HB) as Hle.
  split; [lia|].
  destruct (Z_le_gt_dec ea eb) as [Hc|Hc].
  - replace (ea - k) with 0 in Hle |- * by (unfold k; lia). rewrite Z.pow_0_r, Z.mul_1_r in Hle |- *. lia.
  - replace (eb - k) with 0 in Hr |- * by (unfold k; lia). rewrite Z.pow_0_r, Z.mul_1_r in Hr |- *. lia.
Qed.

(** ** the two delivered lemmas *)
Lemma fmod_exact : forall sa ma ea sb mb eb,
  valid_binary prec emax (S754_finite sa ma ea) = true ->
  valid_binary prec emax (S754_finite sb mb eb) = true ->
  let k := Z.min ea eb in
  let A := scaled ma ea k in
  let B := scaled mb eb k in
  let r := sf_fmod (S754_finite sa ma ea) (S754_finite sb mb eb) in
  valid_binary prec emax r = true /\
  match r with
  | S754_zero s => s = sa /\ (A mod B = 0)%Z
  | S754_finite s m' e' =>
      s = sa /\ (let j := Z.min e' k in Zpos m' * 2 ^ (e' - j) = (A mod B) * 2 ^ (k - j))%Z
  | _ => False
  end.
Proof.
  intros sa ma ea sb mb eb Hva Hvb k A B r.
  pose proof (valid_binary_bounds sa ma ea Hva) as (Hea & Hma & _).
  pose proof (valid_binary_bounds sb mb eb Hvb) as (Heb & Hmb & _).
  pose proof (fmod_rem_small ma ea mb eb Hma Hmb) as Hr. fold k A B in Hr.
  unfold r. rewrite sf_fmod_finite. fold k A B.
  destruct (A mod B) as [|p|p] eqn:Er.
  - split; [reflexivity|]. split; reflexivity.
  - destruct (binary_round_small_exact sa p k ltac:(lia) ltac:(unfold k; lia))
      as (m' & e' & Hb & Hv' & He' & Hm').
    rewrite Hb. split; [exact Hv'|]. split; [reflexivity|].
    cbv zeta. replace (Z.min e' k) with e' by lia.
    rewrite Z.sub_diag, Z.pow_0_r, Z.mul_1_r. exact Hm'.
  - lia.
Qed.

Lemma fmod_specials : forall a b,
  (a = S754_nan \/ b = S754_nan \/ (exists s, a = S754_infinity s) \/ (exists s, b = S754_zero s) ->
   sf_fmod a b = S754_nan) /\
  (forall s s' m e, a = S754_zero s -> b = S754_finite s' m e \/ b = S754_infinity s' ->
   sf_fmod a b = S754_zero s) /\
  (forall s m e s', a = S754_finite s m e -> b = S754_infinity s' -> sf_fmod a b = a).
Proof.
  intros a b. split; [|split].
  - intros [H|[H|[[s H]|[s H]]]]; subst.
    + reflexivity.
    + destruct a; reflexivity.
    + destruct b; reflexivity.
    + destruct a; reflexivity.
  - intros s s' m e Ha [Hb|Hb]; subst; reflexivity.
  - intros s m e s' Ha Hb; subst; reflexivity.
Qed.

(** ** sanity: concrete remainders *)
Example fmod_examples :
  map (fun p => sf_fmod (sf (fst p)) (sf (snd p))) [(5.5, 2.0); (-5.5, 2.0); (5.5, -2.0); (6.0, 2.0); (-6.0, 2.0)]%float =
  map sf [1.5; -1.5; 1.5; 0.0; -0.0]%float.
Proof. vm_compute. reflexivity. Qed.
