(** SpanProofs: the byte ranges of diagnostics come from the tokens of the source (Props/C11.v).
    - [tok_label_ok]: token ranges and gaps between tokens lie inside the source on character boundaries;
    - the parser: every label of a syntactic diagnostic and every range / bracket pair stored in a tree
      is a token range / a gap between two tokens in source order (one pass over the grammar functions,
      threading the position of the cursor in the token sequence);
    - the evaluator: the label of a runtime diagnostic is a range stored in the program's tree or the
      interior of one of its bracket pairs (one pass over [eval] / [exec]). *)
From Aplang Require Import Base FloatX Token Ast Tables Robot Value StrLib LexImpl LexSpec LexProofs
  ParseImpl ParseSpec EvalImpl EvalSpec SpanSpec.
From Aplang.Gen Require Import Generated.
From Coq Require Import Lia.
Open Scope N_scope.

(** * Part 1: token ranges and gaps lie inside the source *)

(* two splits of the same text on character boundaries nest *)
Lemma split_nest : forall (x y x' y' : text),
  x ++ y = x' ++ y' -> byte_len x <= byte_len x' -> exists m, x' = x ++ m /\ y = m ++ y'.
Proof.
  induction x as [|c x IH]; intros y x' y' E L.
  - exists x'. split; [reflexivity|exact E].
  - destruct x' as [|c' x'].
    + cbn [byte_len] in L. pose proof (utf8_len_pos c). lia.
    + cbn [app] in E. inversion E as [[Ec E']]. subst c'.
      cbn [byte_len] in L. destruct (IH y x' y' E') as (m & Hm1 & Hm2); [lia|].
      exists m. split; [cbn [app]; rewrite Hm1; reflexivity|exact Hm2].
Qed.

Lemma increasing_suffix : forall pre l, increasing (pre ++ l) -> increasing l.
Proof.
  induction pre as [|t pre IH]; intros l H; [exact H|].
  apply IH. cbn [app] in H. destruct (pre ++ l) as [|t2 r] eqn:E; [exact I|].
  cbn [increasing] in H. apply H.
Qed.

Lemma increasing_head : forall l a b, increasing (a :: l) -> In b l -> toff a + tlen a <= toff b.
Proof.
  induction l as [|t2 r IH]; intros a b H Hin; [contradiction|].
  cbn [increasing] in H. destruct H as [H1 H2]. destruct Hin as [->|Hin]; [exact H1|].
  pose proof (IH t2 b H2 Hin). lia.
Qed.

Lemma tok_label_ok : forall s ts l, spans_ok s ts -> tok_label ts l -> label_ok s l.
Proof.
  intros s ts l (body & eof & Ets & Hk & Hl0 & Hle & (pe & qe & Ese & Hpe) & Hbody & Hinc) Hl.
  rewrite Forall_forall in Hbody.
  destruct Hl as [(t & Hin & ->)|(a & b & pre & mid & post & E & Hkb & Hka & ->)].
  - subst ts. apply in_app_or in Hin as [Hin|[<-|[]]].
    + destruct (Hbody t Hin) as (_ & _ & (p & q & Es & Hp & Hq)).
      exists p, (tlex t), q. cbn [tspan fst snd]. auto.
    + exists pe, [], qe. cbn [tspan fst snd app byte_len]. auto.
  - (* a gap: both tokens are in the body *)
    assert (Hb : exists post', body = pre ++ a :: mid ++ b :: post').
    { destruct (exists_last (l := b :: post)) as (p' & lst & Ep); [discriminate|].
      destruct p' as [|b' p'].
      - cbn [app] in Ep. injection Ep as Eb Epost. rewrite E, Epost, Eb in Ets.
        replace (pre ++ a :: mid ++ [lst]) with ((pre ++ a :: mid) ++ [lst]) in Ets
          by (rewrite <- app_assoc; reflexivity).
        apply app_inj_tail in Ets as [_ Ee]. rewrite Eb, Ee in Hkb. contradiction.
      - cbn [app] in Ep. injection Ep as Eb Epost. exists p'.
        rewrite E, Epost in Ets.
        replace (pre ++ a :: mid ++ b :: p' ++ [lst]) with ((pre ++ a :: mid ++ b :: p') ++ [lst]) in Ets.
        + apply app_inj_tail in Ets as [Ee _]. symmetry; exact Ee.
        + rewrite <- app_assoc. cbn [app]. rewrite <- app_assoc. reflexivity. }
    destruct Hb as (post' & Eb).
    assert (Ha_in : In a body) by (rewrite Eb; apply in_or_app; right; left; reflexivity).
    assert (Hb_in : In b body).
    { rewrite Eb. apply in_or_app; right; right. apply in_or_app; right; left; reflexivity. }
    destruct (Hbody a Ha_in) as (_ & _ & (pa & qa & Esa & Hpa & Hqa)).
    destruct (Hbody b Hb_in) as (_ & _ & (pb & qb & Esb & Hpb & Hqb)).
    assert (Hord : toff a + tlen a <= toff b).
    { rewrite Eb in Hinc. apply increasing_suffix in Hinc.
      apply (increasing_head _ a b Hinc). apply in_or_app; right; left; reflexivity. }
    assert (E2 : (pa ++ tlex a) ++ qa = pb ++ (tlex b ++ qb)).
    { rewrite <- app_assoc, <- Esa. exact Esb. }
    destruct (split_nest _ _ _ _ E2) as (m & Hm1 & Hm2).
    { rewrite byte_len_app. lia. }
    exists (pa ++ tlex a), m, (tlex b ++ qb).
    unfold span_between. cbn [tspan fst snd]. split; [|split].
    + rewrite <- Hm2, <- app_assoc. exact Esa.
    + rewrite byte_len_app. lia.
    + assert (byte_len pb = byte_len (pa ++ tlex a) + byte_len m) by (rewrite Hm1, byte_len_app; reflexivity).
      rewrite byte_len_app in H. lia.
Qed.

(** * Part 2: the parser *)
From Aplang Require Import ParseProofs.

Lemma skipn_cons {A} : forall (l : list A) i t r,
  skipn i l = t :: r -> nth_error l i = Some t /\ skipn (S i) l = r.
Proof.
  induction l as [|a l IH]; intros [|i] t r H; cbn [skipn nth_error] in *; try discriminate.
  - inversion H; auto.
  - apply IH; exact H.
Qed.

Lemma nth_error_two {A} (l : list A) i j a b :
  nth_error l i = Some a -> nth_error l j = Some b -> (i < j)%nat ->
  exists pre mid post, l = pre ++ a :: mid ++ b :: post.
Proof.
  intros Ha Hb L. apply nth_error_split in Ha as (l1 & l2 & E & Hl). subst l.
  rewrite nth_error_app2 in Hb by lia. rewrite Hl in Hb.
  destruct (j - i)%nat as [|k] eqn:Ek; [lia|]. cbn [nth_error] in Hb.
  apply nth_error_split in Hb as (m & post & E2 & _). exists l1, m, post. rewrite E2. reflexivity.
Qed.

Fixpoint windows (l : list token) : list span :=
  match l with
  | a :: ((b :: _) as r) => span_between (tspan a) (tspan b) :: windows r
  | _ => []
  end.

Section ParseSpans.
Variable ts : list token.

Definition lab (l : span) : Prop := tok_label ts l.
Definition plab (p : span * span) : Prop := tok_label ts (span_between (fst p) (snd p)).
Definition at_ (i : nat) (t : token) : Prop := nth_error ts i = Some t /\ tkind t <> TEof.
Definition tokl (t : token) : Prop := lab (tspan t).

Lemma nth_lab i t : nth_error ts i = Some t -> lab (tspan t).
Proof. intro H. left. exists t. split; [eapply nth_error_In; eauto|reflexivity]. Qed.

Lemma at_lab i t : at_ i t -> lab (tspan t).
Proof. intros [H _]. eapply nth_lab; eauto. Qed.

Lemma gap_lab i j a b : at_ i a -> at_ j b -> (i < j)%nat -> lab (span_between (tspan a) (tspan b)).
Proof.
  intros [Ha Ka] [Hb Kb] L. destruct (nth_error_two ts i j a b Ha Hb L) as (pre & mid & post & E).
  right. exists a, b, pre, mid, post. auto.
Qed.

(** the cursor is at position [i] of [ts]; the previous token is an earlier real token *)
Definition sp_inv (st : pstate) (i : nat) : Prop :=
  skipn i ts = rest st /\ (forall p, prevt st = Some p -> exists j, (j < i)%nat /\ at_ j p).

Definition elab (e : perror) : Prop := Forall lab (pe_labels e).

Definition sp_post {A} (Q : nat -> A -> Prop) (i : nat) (r : pres A) : Prop :=
  match r with
  | POk x st' => exists i', (i <= i')%nat /\ sp_inv st' i' /\ Q i' x
  | PErr e st' => (exists i', (i <= i')%nat /\ sp_inv st' i') /\ elab e
  | _ => True
  end.

Lemma sp_le {A} (Q : nat -> A -> Prop) i i1 r : sp_post Q i1 r -> (i <= i1)%nat -> sp_post Q i r.
Proof.
  destruct r as [x st'|e st'|site|]; cbn [sp_post]; auto.
  - intros (i' & L & H) L1. exists i'. split; [lia|exact H].
  - intros [(i' & L & H) He] L1. split; [|exact He]. exists i'. split; [lia|exact H].
Qed.

Lemma sp_mono {A} (Q Q' : nat -> A -> Prop) i r :
  (forall i' x, (i <= i')%nat -> Q i' x -> Q' i' x) -> sp_post Q i r -> sp_post Q' i r.
Proof.
  intro H. destruct r as [x st'|e st'|site|]; cbn [sp_post]; auto.
  intros (i' & L & Hi & Hq). exists i'. auto.
Qed.

Lemma sp_bind {A B} (Q1 : nat -> A -> Prop) (Q2 : nat -> B -> Prop) i i1 (m : pres A) (k : A -> pstate -> pres B) :
  (i <= i1)%nat -> sp_post Q1 i1 m ->
  (forall x st2 i2, (i1 <= i2)%nat -> sp_inv st2 i2 -> Q1 i2 x -> sp_post Q2 i (k x st2)) ->
  sp_post Q2 i (pbind m k).
Proof.
  intros L Hm Hk. destruct m as [x st'|e st'|site|]; cbn [pbind sp_post] in *; auto.
  - destruct Hm as (i' & L' & Hi & Hq). eapply Hk; eauto.
  - destruct Hm as [(i' & L' & Hi) He]. split; [|exact He]. exists i'. split; [lia|exact Hi].
Qed.

Lemma sp_ret {A} (Q : nat -> A -> Prop) i i' x st : (i <= i')%nat -> sp_inv st i' -> Q i' x -> sp_post Q i (POk x st).
Proof. intros L H Hq. exists i'. auto. Qed.

Lemma sp_err {A} (Q : nat -> A -> Prop) i i' e st : (i <= i')%nat -> sp_inv st i' -> elab e -> sp_post Q i (PErr e st).
Proof. intros L H He. split; [exists i'; auto|exact He]. Qed.

Lemma sp_fail {A} (Q : nat -> A -> Prop) i i' st : (i <= i')%nat -> sp_inv st i' -> sp_post Q i (@fail A st).
Proof. intros L H. eapply sp_err; eauto. constructor. Qed.

Lemma sp_peek {A} (Q : nat -> A -> Prop) i0 st i (k : token -> pres A) :
  sp_inv st i ->
  (forall t r, rest st = t :: r -> nth_error ts i = Some t -> sp_post Q i0 (k t)) ->
  sp_post Q i0 (with_peek st k).
Proof.
  intros [Hs _] H. unfold with_peek. destruct (rest st) as [|t r] eqn:E; [exact I|].
  apply (H t r eq_refl). apply skipn_cons in Hs. apply Hs.
Qed.

Lemma sp_prev {A} (Q : nat -> A -> Prop) i0 st i (k : token -> pres A) :
  sp_inv st i ->
  (forall p j, (j < i)%nat -> at_ j p -> sp_post Q i0 (k p)) ->
  sp_post Q i0 (with_prev st k).
Proof.
  intros [_ Hp] H. unfold with_prev. destruct (prevt st) as [p|]; [|exact I].
  destruct (Hp p eq_refl) as (j & L & Hj). eapply H; eauto.
Qed.

Lemma sp_inv_flags st i a b : sp_inv st i -> sp_inv (set_flags st a b) i.
Proof. intro H. exact H. Qed.

Lemma sp_restore {A} (Q : nat -> A -> Prop) i a b r : sp_post Q i r -> sp_post Q i (restore a b r).
Proof. destruct r as [x st'|e st'|site|]; cbn [restore sp_post]; auto. Qed.

Lemma sp_advance st i t r : sp_inv st i -> rest st = t :: r -> tkind t <> TEof ->
  sp_inv (advance st) (S i) /\ at_ i t /\ prevt (advance st) = Some t.
Proof.
  intros [Hs Hp] E Hk. destruct (advance_moves st t r E Hk) as [Ea _]. rewrite Ea. cbn [rest prevt].
  rewrite E in Hs. apply skipn_cons in Hs as [Hn Hs'].
  assert (Hat : at_ i t) by (split; assumption).
  split; [split|split]; auto.
  intros p Hp'. inversion Hp'; subst p. exists i. split; [lia|exact Hat].
Qed.

Lemma sp_advance_any st i : sp_inv st i -> exists i', (i <= i')%nat /\ sp_inv (advance st) i'.
Proof.
  intro H. unfold advance. destruct (rest st) as [|t r] eqn:E; [exists i; auto|].
  destruct (tk_eqb (tkind t) TEof) eqn:Et; [exists i; auto|].
  assert (Ht : tkind t <> TEof) by (intro Hk; apply tk_eqb_eq in Hk; congruence).
  destruct (sp_advance st i t r H E Ht) as (H1 & _ & _). exists (S i). split; [lia|].
  unfold advance in H1. rewrite E, Et in H1. exact H1.
Qed.

Lemma sp_check k st i : sp_inv st i -> check k st = true ->
  sp_inv (advance st) (S i) /\ exists t, at_ i t /\ tkind t = k /\ prevt (advance st) = Some t.
Proof.
  intros H Hc. apply check_true in Hc as (t & r & E & Hk & Hk').
  destruct (sp_advance st i t r H E Hk) as (H1 & H2 & H3). split; [exact H1|]. exists t. auto.
Qed.

Lemma sp_match_tok k st i : sp_inv st i ->
  (match_tok k st = (true, advance st) /\ sp_inv (advance st) (S i) /\
   exists t, at_ i t /\ tkind t = k /\ prevt (advance st) = Some t)
  \/ match_tok k st = (false, st).
Proof.
  intro H. unfold match_tok. destruct (check k st) eqn:E; [left|right; reflexivity].
  split; [reflexivity|apply sp_check; assumption].
Qed.

Lemma sp_match_toks ks st i : sp_inv st i ->
  (match_toks ks st = (true, advance st) /\ sp_inv (advance st) (S i) /\
   exists t, at_ i t /\ prevt (advance st) = Some t)
  \/ match_toks ks st = (false, st).
Proof.
  intro H. induction ks as [|k ks IH]; cbn [match_toks]; [right; reflexivity|].
  destruct (check k st) eqn:E; [left|exact IH].
  split; [reflexivity|]. destruct (sp_check k st i H E) as (H1 & t & H2 & _ & H3). split; [exact H1|]. exists t. auto.
Qed.

Lemma sp_at_end st i : sp_inv st i -> at_end st = false ->
  exists t r, rest st = t :: r /\ sp_inv (advance st) (S i) /\ at_ i t /\ prevt (advance st) = Some t.
Proof.
  intros H He. apply at_end_false in He as (t & r & E & Hk). exists t, r. split; [exact E|].
  eapply sp_advance; eauto.
Qed.

Lemma sp_consume k rep st i0 i : sp_inv st i -> (i0 <= i)%nat -> k <> TEof ->
  (forall t, nth_error ts i = Some t -> elab (rep t)) ->
  sp_post (fun i' p => i' = S i /\ at_ i p) i0 (consume k rep st).
Proof.
  intros H L Hk Hrep. unfold consume. eapply sp_peek; [exact H|]. intros t r E Hn.
  destruct (tk_eqb (tkind t) k) eqn:Et.
  - apply tk_eqb_eq in Et. assert (Ht : tkind t <> TEof) by congruence.
    destruct (sp_advance st i t r H E Ht) as (H1 & H2 & H3). cbv zeta.
    unfold with_prev. rewrite H3. eapply sp_ret; [|exact H1|]; [lia|auto].
  - eapply sp_err; [exact L|exact H|]. apply Hrep; exact Hn.
Qed.

(** the tokens that follow the items of a list: real tokens at increasing positions, the last one
    at the cursor *)
Inductive afters_ok : nat -> list token -> nat -> Prop :=
| AO_nil lo hi : afters_ok lo [] hi
| AO_last lo hi a : (lo <= hi)%nat -> nth_error ts hi = Some a -> afters_ok lo [a] hi
| AO_cons lo hi j a r : (lo <= j)%nat -> at_ j a -> afters_ok (S j) r hi -> afters_ok lo (a :: r) hi.

Lemma afters_le lo lo' l hi : afters_ok lo l hi -> (lo' <= lo)%nat -> afters_ok lo' l hi.
Proof.
  intros H L. inversion H; subst.
  - constructor.
  - apply AO_last; [lia|assumption].
  - eapply AO_cons; [|eassumption|eassumption]. lia.
Qed.

Lemma windows_lab : forall lo l hi, afters_ok lo l hi ->
  forall j a, at_ j a -> (j < lo)%nat -> (forall x, nth_error ts hi = Some x -> tkind x <> TEof) ->
  Forall lab (windows (a :: l)).
Proof.
  induction 1 as [lo hi|lo hi x L Hx|lo hi j' a' r L Ha' Hr IH]; intros j a Ha Lj Hhi.
  - constructor.
  - cbn [windows]. constructor; [|constructor]. eapply (gap_lab j hi); [exact Ha|split; auto|lia].
  - cbn [windows]. constructor.
    + eapply (gap_lab j j'); [exact Ha|exact Ha'|lia].
    + apply (IH j' a' Ha'); [lia|exact Hhi].
Qed.

(** trees *)
Definition okE (e : expr) : Prop := Forall lab (expr_spans e) /\ Forall plab (expr_pairs e).
Definition okS (s : stmt) : Prop := Forall lab (stmt_spans s) /\ Forall plab (stmt_pairs s).

Lemma okE_list (es : list expr) : Forall okE es ->
  Forall lab (flat_map expr_spans es) /\ Forall plab (flat_map expr_pairs es).
Proof.
  induction 1 as [|e es [H1 H2] _ [IH1 IH2]]; cbn [flat_map]; [split; constructor|].
  split; apply Forall_app; auto.
Qed.

Lemma okS_list (ss : list stmt) : Forall okS ss ->
  Forall lab (flat_map stmt_spans ss) /\ Forall plab (flat_map stmt_pairs ss).
Proof.
  induction 1 as [|e es [H1 H2] _ [IH1 IH2]]; cbn [flat_map]; [split; constructor|].
  split; apply Forall_app; auto.
Qed.

Ltac ok_destruct :=
  cbv beta in *;
  repeat match goal with
         | H : okE _ |- _ => destruct H
         | H : okS _ |- _ => destruct H
         | H : Forall okE _ |- _ => apply okE_list in H; destruct H
         | H : Forall okS _ |- _ => apply okS_list in H; destruct H
         end.
Ltac ok_tree :=
  ok_destruct; split; cbn [expr_spans expr_pairs stmt_spans stmt_pairs];
  repeat first [apply Forall_nil | apply Forall_cons | apply Forall_app; split | assumption];
  try assumption; eauto using at_lab, nth_lab.

Ltac lab_list :=
  unfold elab; cbn [pe_labels];
  repeat first [apply Forall_nil | apply Forall_cons]; solve [eauto using at_lab, nth_lab].

Definition ok_expr (f : nat) : Prop :=
  (forall l st i, sp_inv st i -> sp_post (fun _ => okE) i (p_level f l st)) /\
  (forall rg e st i, sp_inv st i -> okE e -> sp_post (fun _ => okE) i (p_loop f rg e st)) /\
  (forall e sp st i, sp_inv st i -> okE e -> lab sp -> sp_post (fun _ => okE) i (p_access f e sp st)) /\
  (forall lim n st i, sp_inv st i ->
     sp_post (fun i' x => Forall okE (fst x) /\ afters_ok i (snd x) i') i (p_items f lim n st)) /\
  (forall st i, sp_inv st i -> sp_post (fun _ => okE) i (p_primary f st)).

Lemma ok_expr_all : forall f, ok_expr f.
Proof.
  induction f as [|f (IHl & IHlo & IHa & IHi & IHp)].
  { repeat split; intros; exact I. }
  assert (Hrung : forall rg st i, sp_inv st i ->
            sp_post (fun _ => okE) i (do e, st1 <- p_level f (r_first rg) st; p_loop f rg e st1)).
  { intros rg st i Hi. eapply (sp_bind _ _ i i); [lia|apply IHl; exact Hi|]. intros e st1 i1 L1 H1 He.
    eapply sp_le; [apply IHlo; eassumption|lia]. }
  repeat split.
  - (* p_level *)
    intros l st i Hi. cbn [p_level]. destruct l.
    + (* assignment *)
      eapply (sp_bind _ _ i i); [lia|apply IHl; exact Hi|]. intros e st1 i1 L1 H1 He.
      eapply sp_prev; [exact H1|]. intros et je Lje Hje.
      destruct (sp_match_tok TArrow st1 i1 H1) as [(E & H2 & t & Ht & _ & Hpv)|E]; rewrite E.
      * eapply sp_prev; [exact H2|]. intros arrow ja Lja Hja.
        eapply (sp_bind _ _ i (S i1)); [lia|apply IHl; exact H2|]. intros v st3 i3 L3 H3 Hv.
        destruct e; try solve [eapply sp_err; [|exact H3|]; [lia|lab_list]].
        -- (* EAccess -> ESet *)
           eapply sp_ret; [|exact H3|]; [lia|]. cbv beta. destruct He as [He1 He2].
           cbn [expr_spans expr_pairs] in He1, He2.
           inversion He1 as [|? ? A1 He1']; subst. inversion He1' as [|? ? A2 He1'']; subst.
           inversion He1'' as [|? ? A3 He1''']; subst. apply Forall_app in He1''' as [A4 A5].
           inversion He2 as [|? ? B1 He2']; subst. apply Forall_app in He2' as [B2 B3].
           assert (okE e1) by (split; assumption). assert (okE e2) by (split; assumption).
           ok_tree.
        -- (* EVar -> EAssign *)
           eapply sp_ret; [|exact H3|]; [lia|]. cbv beta. destruct He as [He1 He2].
           cbn [expr_spans expr_pairs] in He1, He2. inversion He1 as [|? ? A1 _]; subst.
           ok_tree.
      * eapply sp_ret; [|exact H1|]; [lia|exact He].
    + destruct (rung_of LvOr) as [rg|]; [apply Hrung; exact Hi|eapply sp_fail; [|exact Hi]; lia].
    + destruct (rung_of LvAnd) as [rg|]; [apply Hrung; exact Hi|eapply sp_fail; [|exact Hi]; lia].
    + destruct (rung_of LvEquality) as [rg|]; [apply Hrung; exact Hi|eapply sp_fail; [|exact Hi]; lia].
    + destruct (rung_of LvComparison) as [rg|]; [apply Hrung; exact Hi|eapply sp_fail; [|exact Hi]; lia].
    + destruct (rung_of LvAddition) as [rg|]; [apply Hrung; exact Hi|eapply sp_fail; [|exact Hi]; lia].
    + destruct (rung_of LvMultiplication) as [rg|]; [apply Hrung; exact Hi|eapply sp_fail; [|exact Hi]; lia].
    + (* unary *)
      destruct (sp_match_toks unary_ops st i Hi) as [(E & H1 & t & Ht & Hpv)|E]; rewrite E.
      * eapply sp_prev; [exact H1|]. intros tok jt Ljt Hjt.
        eapply (sp_bind _ _ i (S i)); [lia|apply IHl; exact H1|]. intros r st2 i2 L2 H2 Hr.
        destruct (assoc_tk (tkind tok) unop_of_token); [|eapply sp_fail; [|exact H2]; lia].
        eapply sp_ret; [|exact H2|]; [lia|]. cbv beta. ok_tree.
      * apply IHl; exact Hi.
    + (* access *)
      eapply (sp_bind _ _ i i); [lia|apply IHl; exact Hi|]. intros e st1 i1 L1 H1 He.
      eapply sp_prev; [exact H1|]. intros et je Lje Hje.
      eapply sp_le; [apply IHa; [exact H1|exact He|eapply at_lab; exact Hje]|lia].
    + apply IHp; exact Hi.
  - (* p_loop *)
    intros rg e st i Hi He. cbn [p_loop].
    destruct (sp_match_toks (r_ops rg) st i Hi) as [(E & H1 & t & Ht & Hpv)|E]; rewrite E.
    + eapply sp_prev; [exact H1|]. intros tok jt Ljt Hjt.
      eapply (sp_bind _ _ i (S i)); [lia|apply IHl; exact H1|]. intros r st2 i2 L2 H2 Hr.
      destruct (r_mk rg).
      * eapply sp_le; [apply IHlo; [exact H2|]|lia]. ok_tree.
      * destruct (assoc_tk (tkind tok) binop_of_token); [|eapply sp_fail; [|exact H2]; lia].
        eapply sp_le; [apply IHlo; [exact H2|]|lia]. ok_tree.
    + eapply sp_ret; [|exact Hi|]; [lia|exact He].
  - (* p_access *)
    intros e sp st i Hi He Hsp. cbn [p_access].
    destruct (sp_match_tok TLeftBracket st i Hi) as [(E & H1 & t & Ht & _ & Hpv)|E]; rewrite E.
    + eapply sp_prev; [exact H1|]. intros lb jl Ljl Hjl.
      eapply (sp_bind _ _ i (S i)); [lia|apply IHl; exact H1|]. intros idx st2 i2 L2 H2 Hidx.
      eapply (sp_bind _ _ i i2); [lia|apply sp_consume; [exact H2|lia|discriminate|]|].
      { intros x Hx. lab_list. }
      intros rb st3 i3 L3 H3 [E3 Hrb].
      eapply sp_le; [apply IHa; [exact H3| |exact Hsp]|lia].
      assert (plab (tspan lb, tspan rb)).
      { unfold plab. cbn [fst snd]. eapply (gap_lab jl i2); eauto. lia. }
      ok_tree.
    + eapply sp_ret; [|exact Hi|]; [lia|exact He].
  - (* p_items *)
    intros lim n st i Hi. cbn [p_items].
    destruct (match lim with Some m => m <=? n | None => false end); [eapply sp_fail; [|exact Hi]; lia|].
    eapply (sp_bind _ _ i i); [lia|apply IHl; exact Hi|]. intros e st1 i1 L1 H1 He.
    eapply sp_peek; [exact H1|]. intros after r E Hn.
    destruct (sp_match_tok TComma st1 i1 H1) as [(E2 & H2 & t & Ht & _ & Hpv)|E2]; rewrite E2.
    + eapply (sp_bind _ _ i (S i1)); [lia|apply IHi; exact H2|]. intros more st3 i3 L3 H3 [Hm1 Hm2].
      eapply sp_ret; [|exact H3|]; [lia|]. cbn [fst snd]. split; [constructor; assumption|].
      eapply (AO_cons i i3 i1); [lia| |exact Hm2].
      destruct Ht as [Ht1 Ht2]. rewrite Hn in Ht1. inversion Ht1; subst t. split; assumption.
    + eapply sp_ret; [|exact H1|]; [lia|]. cbn [fst snd]. split; [constructor; [assumption|constructor]|].
      apply AO_last; [lia|exact Hn].
  - (* p_primary *)
    intros st i Hi. cbn [p_primary]. eapply sp_peek; [exact Hi|]. intros t r E Hn.
    destruct (at_end st) eqn:Ee.
    { eapply sp_err; [|exact Hi|]; [lia|]. lab_list. }
    destruct (sp_at_end st i Hi Ee) as (t' & r' & E' & Hadv & Hat & Hpv).
    rewrite E in E'. inversion E'; subst t' r'. clear E'.
    assert (Hok0 : forall e, expr_spans e = [] -> expr_pairs e = [] -> okE e).
    { intros e0 A B. split; [rewrite A|rewrite B]; constructor. }
    destruct (tkind t) eqn:Ek;
      try solve [eapply sp_err; [|exact Hi|]; [lia|]; lab_list];
      try solve [eapply sp_ret; [|exact Hadv|]; [lia|]; apply Hok0; reflexivity].
    + (* ( *)
      eapply (sp_bind _ _ i (S i)); [lia|apply IHl; exact Hadv|]. intros e st2 i2 L2 H2 He.
      eapply (sp_bind _ _ i i2); [lia|apply sp_consume; [exact H2|lia|discriminate|]|].
      { intros x Hx. lab_list. }
      intros rp st3 i3 L3 H3 _. eapply sp_ret; [|exact H3|]; [lia|]. exact He.
    + (* [ *)
      eapply (sp_bind (fun _ x => Forall okE (fst x)) _ i (S i)); [lia| |].
      { destruct (check TRightBracket (advance st)).
        - eapply sp_ret; [|exact Hadv|]; [lia|]. constructor.
        - eapply sp_mono; [|apply IHi; exact Hadv]. cbv beta. intros i' x _ [Hx _]. exact Hx. }
      intros items st2 i2 L2 H2 Hitems.
      eapply (sp_bind _ _ i i2); [lia|apply sp_consume; [exact H2|lia|discriminate|]|].
      { intros x Hx. lab_list. }
      intros rb st3 i3 L3 H3 [_ Hrb]. eapply sp_ret; [|exact H3|]; [lia|]. cbv beta. ok_tree.
    + (* identifier *)
      destruct (sp_match_tok TLeftParen (advance st) (S i) Hadv) as [(E2 & H2 & lp0 & Hlp0 & _ & Hpv2)|E2]; rewrite E2.
      * unfold with_prev. rewrite Hpv2.
        eapply (sp_bind (fun i' x => Forall okE (fst x) /\ afters_ok (S (S i)) (snd x) i') _ i (S (S i))); [lia| |].
        { destruct (check TRightParen (advance (advance st))).
          - eapply sp_ret; [|exact H2|]; [lia|]. cbn [fst snd]. split; constructor.
          - apply IHi; exact H2. }
        intros items st3 i3 L3 H3 [Hitems Haft].
        eapply (sp_bind _ _ i i3); [lia|apply sp_consume; [exact H3|lia|discriminate|]|].
        { intros x Hx. lab_list. }
        intros rp st4 i4 L4 H4 [_ Hrp]. eapply sp_ret; [|exact H4|]; [lia|]. cbv beta.
        assert (Hw : Forall lab (windows (lp0 :: snd items))).
        { eapply (windows_lab (S (S i)) _ i3 Haft (S i)); [exact Hlp0|lia|].
          intros x Hx. destruct Hrp as [Hr1 Hr2]. rewrite Hx in Hr1. inversion Hr1; subst x. exact Hr2. }
        assert (plab (tspan lp0, tspan rp)).
        { unfold plab. cbn [fst snd]. eapply (gap_lab (S i) i3); [eassumption|eassumption|lia]. }
        change (okE (ECall (tlex t) (tspan t) (tspan lp0) (tspan rp) (windows (lp0 :: snd items)) (fst items))).
        ok_tree.
      * eapply sp_ret; [|exact Hadv|]; [lia|]. cbv beta. ok_tree.
    + (* number *)
      destruct (tlit t); try exact I. eapply sp_ret; [|exact Hadv|]; [lia|]. apply Hok0; reflexivity.
    + (* string *)
      destruct (tlit t); try exact I. eapply sp_ret; [|exact Hadv|]; [lia|]. apply Hok0; reflexivity.
Qed.

Lemma ok_level f l st i : sp_inv st i -> sp_post (fun _ => okE) i (p_level f l st).
Proof. apply ok_expr_all. Qed.

Lemma ok_expression f st i : sp_inv st i -> sp_post (fun _ => okE) i (p_expression f st).
Proof. apply ok_level. Qed.

Definition T_ {A} : nat -> A -> Prop := fun _ _ => True.

Lemma elab_err0 t : elab (err0 t).
Proof. constructor. Qed.

Lemma sp_params : forall f n st i, sp_inv st i -> sp_post T_ i (p_params f n st).
Proof.
  induction f as [|f IH]; intros n st i Hi; [exact I|]. cbn [p_params].
  destruct (255 <=? n); [eapply sp_fail; [|exact Hi]; lia|].
  eapply (sp_bind _ _ i i); [lia|apply sp_consume; [exact Hi|lia|discriminate|intros; apply elab_err0]|].
  intros t st1 i1 L1 H1 _.
  destruct (sp_match_tok TComma st1 i1 H1) as [(E & H2 & _)|E]; rewrite E.
  - eapply (sp_bind _ _ i (S i1)); [lia|apply IH; exact H2|]. intros more st3 i3 L3 H3 _.
    eapply sp_ret; [|exact H3|]; [lia|exact I].
  - eapply sp_ret; [|exact H1|]; [lia|exact I].
Qed.

Lemma sp_import_names : forall f lbr acc st i jl, sp_inv st i -> at_ jl lbr -> (jl < i)%nat ->
  Forall (fun t => exists j, (jl < j)%nat /\ at_ j t) acc ->
  sp_post (fun _ names => Forall tokl names) i (p_import_names f lbr acc st).
Proof.
  induction f as [|f IH]; intros lbr acc st i jl Hi Hl Ljl Hacc; [exact I|]. cbn [p_import_names].
  destruct (63 <=? N.of_nat (length acc)).
  { destruct acc as [|last acc]; [exact I|]. eapply sp_err; [|exact Hi|]; [lia|].
    inversion Hacc as [|? ? (j & Lj & Hj) _]; subst. unfold elab; cbn [pe_labels].
    constructor; [|constructor]. eapply (gap_lab jl j); eassumption. }
  eapply (sp_bind _ _ i i); [lia|apply sp_consume; [exact Hi|lia|discriminate|intros; apply elab_err0]|].
  intros t st1 i1 L1 H1 [E1 Ht].
  assert (Hacc' : Forall (fun t => exists j, (jl < j)%nat /\ at_ j t) (t :: acc)).
  { constructor; [exists i; split; [lia|exact Ht]|exact Hacc]. }
  destruct (sp_match_tok TComma st1 i1 H1) as [(E & H2 & _)|E]; rewrite E.
  - eapply sp_le; [eapply (IH lbr (t :: acc) _ (S i1) jl); [exact H2|exact Hl|lia|exact Hacc']|lia].
  - eapply sp_ret; [|exact H1|]; [lia|]. apply Forall_rev. eapply Forall_impl; [|exact Hacc'].
    cbv beta. intros x (j & _ & Hj). eapply at_lab; exact Hj.
Qed.

Lemma sp_end_of_statement st i : sp_inv st i -> sp_post T_ i (end_of_statement st).
Proof.
  intro Hi. unfold end_of_statement.
  destruct (at_end st || check TRightBrace st); [eapply sp_ret; [|exact Hi|]; [lia|exact I]|].
  eapply (sp_bind _ _ i i); [lia|apply sp_consume; [exact Hi|lia|discriminate|intros; apply elab_err0]|].
  intros t st1 i1 L1 H1 _. eapply sp_ret; [|exact H1|]; [lia|exact I].
Qed.

Lemma names_of_spans : forall l o, names_of l = Some o -> map snd o = map tspan l.
Proof.
  induction l as [|t l IH]; intros o H; cbn [names_of] in H.
  - inversion H; reflexivity.
  - destruct (lit_string t); [|discriminate]. destruct (names_of l) as [o'|]; [|discriminate].
    inversion H; subst o. cbn [map snd]. rewrite (IH o' eq_refl). reflexivity.
Qed.

Definition ok_stmt (f : nat) : Prop :=
  (forall st i, sp_inv st i -> sp_post (fun _ => okS) i (p_declaration f st)) /\
  (forall st i, sp_inv st i -> sp_post (fun _ => okS) i (p_procedure f st)) /\
  (forall st i, sp_inv st i -> sp_post (fun _ => okS) i (p_statement f st)) /\
  (forall st i, sp_inv st i -> sp_post (fun _ => okS) i (p_expr_stmt f st)) /\
  (forall lb acc st i, sp_inv st i -> tokl lb -> Forall okS acc -> sp_post (fun _ => okS) i (p_block f lb acc st)) /\
  (forall t st i, sp_inv st i -> tokl t -> sp_post (fun _ => okS) i (p_if f t st)) /\
  (forall st i, sp_inv st i -> sp_post (fun _ => okS) i (p_repeat_times f st)) /\
  (forall st i, sp_inv st i -> sp_post (fun _ => okS) i (p_repeat_until f st)) /\
  (forall st i, sp_inv st i -> sp_post (fun _ => okS) i (p_for_each f st)) /\
  (forall st i, sp_inv st i -> sp_post (fun _ => okS) i (p_import f st)).

Ltac cons_step i i1 H :=
  eapply (sp_bind _ _ i i1); [lia|apply sp_consume; [exact H|lia|discriminate|intros; try apply elab_err0; lab_list]|].

Lemma ok_stmt_all : forall f, ok_stmt f.
Proof.
  induction f as [|f (IHd & IHpr & IHs & IHes & IHb & IHif & IHrt & IHru & IHfe & IHim)].
  { repeat split; intros; exact I. }
  repeat split.
  - (* p_declaration *)
    intros st i Hi. cbn [p_declaration].
    destruct (sp_match_toks [TExport; TProcedure] st i Hi) as [(E & H1 & _)|E]; rewrite E.
    + eapply sp_le; [apply IHpr; exact H1|lia].
    + apply IHs; exact Hi.
  - (* p_procedure *)
    intros st i Hi. cbn [p_procedure]. eapply sp_prev; [exact Hi|]. intros eop je Lje Hje.
    eapply (sp_bind (fun _ pe => tokl (fst pe)) _ i i); [lia| |].
    { destruct (tk_eqb (tkind eop) TExport).
      - cons_step i i Hi. intros pt s1 i1 L1 H1 [_ Hpt]. eapply sp_ret; [|exact H1|]; [lia|].
        cbn [fst]. eapply at_lab; exact Hpt.
      - eapply sp_ret; [|exact Hi|]; [lia|]. cbn [fst]. eapply at_lab; exact Hje. }
    intros [proc_token exported] st1 i1 L1 H1 Hpt. cbn [fst] in Hpt. unfold tokl in Hpt.
    cons_step i i1 H1. intros name st2 i2 L2 H2 [_ Hname].
    cons_step i i2 H2. intros _lp st3 i3 L3 H3 _.
    eapply (sp_bind T_ _ i i3); [lia| |].
    { destruct (check TRightParen st3); [eapply sp_ret; [|exact H3|]; [lia|exact I]|apply sp_params; exact H3]. }
    intros params st4 i4 L4 H4 _.
    cons_step i i4 H4. intros _rp st5 i5 L5 H5 _.
    eapply (sp_bind _ _ i i5); [lia|apply sp_restore; apply IHs; apply sp_inv_flags; exact H5|].
    intros body st6 i6 L6 H6 Hb. eapply sp_ret; [|exact H6|]; [lia|]. ok_tree.
  - (* p_statement *)
    intros st i Hi. cbn [p_statement]. eapply sp_peek; [exact Hi|]. intros t r E Hn.
    destruct (at_end st) eqn:Ee; [apply IHes; exact Hi|].
    destruct (sp_at_end st i Hi Ee) as (t' & r' & E' & Hadv & Hat & Hpv).
    rewrite E in E'. inversion E'; subst t' r'. clear E'.
    assert (Hok0 : forall s, stmt_spans s = [] -> stmt_pairs s = [] -> okS s).
    { intros s0 A B. split; [rewrite A|rewrite B]; constructor. }
    destruct (tkind t) eqn:Ek; try (apply IHes; exact Hi).
    + (* { *)
      eapply sp_le; [apply IHb; [exact Hadv|eapply at_lab; exact Hat|constructor]|lia].
    + (* IF *)
      eapply sp_le; [apply IHif; [exact Hadv|eapply at_lab; exact Hat]|lia].
    + (* REPEAT *)
      apply sp_restore. eapply sp_le; [|apply Nat.le_succ_diag_r].
      destruct (check TUntil (set_flags (advance st) (in_fn (advance st)) true));
        [apply IHru|apply IHrt]; apply sp_inv_flags; exact Hadv.
    + (* FOR *)
      apply sp_restore. eapply sp_le; [|apply Nat.le_succ_diag_r]. apply IHfe. apply sp_inv_flags; exact Hadv.
    + (* CONTINUE *)
      destruct (in_loop (advance st)); [|eapply sp_fail; [|exact Hadv]; lia].
      eapply sp_ret; [|exact Hadv|]; [lia|]. apply Hok0; reflexivity.
    + (* BREAK *)
      destruct (in_loop (advance st)); [|eapply sp_fail; [|exact Hadv]; lia].
      eapply sp_ret; [|exact Hadv|]; [lia|]. apply Hok0; reflexivity.
    + (* RETURN *)
      destruct (in_fn (advance st)); cbn [negb]; [|eapply sp_fail; [|exact Hadv]; lia].
      destruct (at_end (advance st) || check TRightBrace (advance st)).
      { eapply sp_ret; [|exact Hadv|]; [lia|]. apply Hok0; reflexivity. }
      destruct (sp_match_tok TSoftSemi (advance st) (S i) Hadv) as [(E2 & H2 & _)|E2]; rewrite E2.
      * eapply sp_ret; [|exact H2|]; [lia|]. apply Hok0; reflexivity.
      * eapply (sp_bind _ _ i (S i)); [lia|apply ok_expression; exact Hadv|]. intros e st2 i2 L2 H2 He.
        eapply (sp_bind _ _ i i2); [lia|apply sp_end_of_statement; exact H2|]. intros _u st3 i3 L3 H3 _.
        eapply sp_ret; [|exact H3|]; [lia|]. ok_tree.
    + (* IMPORT *)
      eapply sp_le; [apply IHim; exact Hadv|lia].
  - (* p_expr_stmt *)
    intros st i Hi. cbn [p_expr_stmt].
    eapply (sp_bind _ _ i i); [lia|apply ok_expression; exact Hi|]. intros e st1 i1 L1 H1 He.
    assert (okS (SExpr e)) by ok_tree.
    destruct (at_end st1); [eapply sp_ret; [|exact H1|]; [lia|assumption]|].
    destruct (check TRightBrace st1); [eapply sp_ret; [|exact H1|]; [lia|assumption]|].
    cons_step i i1 H1. intros _t st2 i2 L2 H2 _. eapply sp_ret; [|exact H2|]; [lia|assumption].
  - (* p_block *)
    intros lb acc st i Hi Hlb Hacc. cbn [p_block].
    destruct (negb (check TRightBrace st) && negb (at_end st)).
    + destruct (sp_match_tok TSoftSemi st i Hi) as [(E & H1 & _)|E]; rewrite E.
      * eapply sp_le; [apply IHb; [exact H1|exact Hlb|exact Hacc]|lia].
      * eapply (sp_bind _ _ i i); [lia|apply IHd; exact Hi|]. intros s st1 i1 L1 H1 Hs.
        eapply sp_le; [apply IHb; [exact H1|exact Hlb|constructor; assumption]|lia].
    + eapply (sp_bind _ _ i i); [lia|apply sp_consume; [exact Hi|lia|discriminate|]|].
      { intros x Hx. unfold elab; cbn [pe_labels]. constructor; [exact Hlb|constructor]. }
      intros _rb st1 i1 L1 H1 _. eapply sp_ret; [|exact H1|]; [lia|].
      apply Forall_rev in Hacc. ok_tree.
  - (* p_if *)
    intros t st i Hi Ht. unfold tokl in Ht. cbn [p_if].
    cons_step i i Hi. intros _lp st1 i1 L1 H1 _.
    eapply (sp_bind _ _ i i1); [lia|apply ok_expression; exact H1|]. intros c st2 i2 L2 H2 Hc.
    cons_step i i2 H2. intros _rp st3 i3 L3 H3 _.
    eapply (sp_bind _ _ i i3); [lia|apply IHs; exact H3|]. intros th st4 i4 L4 H4 Hth.
    destruct (sp_match_tok TElse st4 i4 H4) as [(E & H5 & _)|E]; rewrite E.
    + eapply (sp_bind _ _ i (S i4)); [lia|apply IHs; exact H5|]. intros el st6 i6 L6 H6 Hel.
      eapply sp_ret; [|exact H6|]; [lia|]. ok_tree.
    + eapply sp_ret; [|exact H4|]; [lia|]. ok_tree.
  - (* p_repeat_times *)
    intros st i Hi. cbn [p_repeat_times].
    eapply (sp_bind _ _ i i); [lia|apply ok_expression; exact Hi|]. intros n st1 i1 L1 H1 Hn.
    eapply sp_prev; [exact H1|]. intros ct jc Ljc Hjc.
    cons_step i i1 H1. intros _t st2 i2 L2 H2 _.
    eapply (sp_bind _ _ i i2); [lia|apply IHs; exact H2|]. intros body st3 i3 L3 H3 Hb.
    eapply sp_ret; [|exact H3|]; [lia|]. ok_tree.
  - (* p_repeat_until *)
    intros st i Hi. cbn [p_repeat_until].
    cons_step i i Hi. intros ut st1 i1 L1 H1 [_ Hut].
    cons_step i i1 H1. intros _lp st2 i2 L2 H2 _.
    eapply (sp_bind _ _ i i2); [lia|apply ok_expression; exact H2|]. intros c st3 i3 L3 H3 Hc.
    cons_step i i3 H3. intros _rp st4 i4 L4 H4 _.
    eapply (sp_bind _ _ i i4); [lia|apply IHs; exact H4|]. intros body st5 i5 L5 H5 Hb.
    eapply sp_ret; [|exact H5|]; [lia|]. ok_tree.
  - (* p_for_each *)
    intros st i Hi. cbn [p_for_each].
    cons_step i i Hi. intros et st1 i1 L1 H1 [_ Het].
    cons_step i i1 H1. intros item st2 i2 L2 H2 [_ Hitem].
    cons_step i i2 H2. intros _in st3 i3 L3 H3 _.
    eapply (sp_bind _ _ i i3); [lia|apply ok_expression; exact H3|]. intros l st4 i4 L4 H4 Hl.
    eapply sp_prev; [exact H4|]. intros lt jl Ljl Hjl.
    eapply (sp_bind _ _ i i4); [lia|apply IHs; exact H4|]. intros body st5 i5 L5 H5 Hb.
    eapply sp_ret; [|exact H5|]; [lia|]. ok_tree.
  - (* p_import *)
    intros st i Hi. cbn [p_import].
    eapply (sp_bind (fun _ only => match only with Some l => Forall tokl l | None => True end) _ i i); [lia| |].
    { destruct (sp_match_tok TLeftBracket st i Hi) as [(E & H1 & t & Ht & _ & Hpv)|E]; rewrite E.
      - unfold with_prev. rewrite Hpv.
        eapply (sp_bind _ _ i (S i)); [lia|eapply (sp_import_names f t [] _ (S i) i); [exact H1|exact Ht|lia|constructor]|].
        intros names s2 i2 L2 H2 Hnames.
        cons_step i i2 H2. intros _rb s3 i3 L3 H3 _. eapply sp_ret; [|exact H3|]; [lia|exact Hnames].
      - destruct (sp_match_tok TStringLiteral st i Hi) as [(E2 & H2 & t & Ht & _ & Hpv)|E2]; rewrite E2.
        + unfold with_prev. rewrite Hpv. eapply sp_ret; [|exact H2|]; [lia|].
          constructor; [eapply at_lab; exact Ht|constructor].
        + eapply sp_ret; [|exact Hi|]; [lia|exact I]. }
    intros only st1 i1 L1 H1 Honly.
    eapply (sp_bind T_ _ i i1); [lia| |].
    { destruct only; [|eapply sp_ret; [|exact H1|]; [lia|exact I]].
      cons_step i1 i1 H1. intros t s i2 L2 H2 _. eapply sp_ret; [|exact H2|]; [lia|exact I]. }
    intros _from st2 i2 L2 H2 _.
    cons_step i i2 H2. intros _mod st3 i3 L3 H3 _.
    cons_step i i3 H3. intros name st4 i4 L4 H4 [_ Hname].
    eapply (sp_bind _ _ i i4); [lia|apply sp_end_of_statement; exact H4|]. intros _u st5 i5 L5 H5 _.
    destruct (lit_string name) as [m|]; [|exact I].
    destruct only as [l|].
    + destruct (names_of l) as [o|] eqn:Eo; cbn [option_map]; [|exact I].
      eapply sp_ret; [|exact H5|]; [lia|]. split; cbn [stmt_spans stmt_pairs]; [|constructor].
      constructor; [eapply at_lab; exact Hname|]. rewrite (names_of_spans l o Eo).
      apply Forall_map. exact Honly.
    + eapply sp_ret; [|exact H5|]; [lia|]. split; cbn [stmt_spans stmt_pairs]; [|constructor].
      constructor; [eapply at_lab; exact Hname|constructor].
Qed.

(** error recovery keeps the cursor inside [ts] *)
Lemma sp_sync_loop : forall f st i, sp_inv st i -> exists i', (i <= i')%nat /\ sp_inv (sync_loop f st) i'.
Proof.
  induction f as [|f IH]; intros st i Hi; cbn [sync_loop]; [exists i; auto|].
  destruct (at_end st); [exists i; auto|].
  destruct (peek_kind st) as [k|]; [|exists i; auto].
  destruct (tk_in k sync_set); [exists i; auto|].
  destruct (sp_advance_any st i Hi) as (i1 & L1 & H1).
  destruct (IH _ _ H1) as (i2 & L2 & H2). exists i2. split; [lia|exact H2].
Qed.

Lemma sp_synchronize st i : sp_inv st i -> exists i', (i <= i')%nat /\ sp_inv (synchronize st) i'.
Proof.
  intro Hi. unfold synchronize. destruct sync_advances_first.
  - destruct (sp_advance_any st i Hi) as (i1 & L1 & H1).
    destruct (sp_sync_loop (length (rest (advance st))) _ _ H1) as (i2 & L2 & H2). exists i2. split; [lia|exact H2].
  - apply sp_sync_loop; exact Hi.
Qed.

Lemma sp_program_loop inner : forall fuel st i stmts errs,
  sp_inv st i -> Forall okS stmts -> Forall elab errs ->
  match program_loop fuel inner st stmts errs with
  | ParseOk p => Forall okS p
  | ParseErr es => Forall elab es
  | _ => True
  end.
Proof.
  induction fuel as [|fuel IH]; intros st i stmts errs Hi Hs He; [exact I|].
  cbn [program_loop]. destruct (rest st) as [|t0 r0] eqn:Er; [exact I|].
  destruct (at_end st).
  { destruct errs as [|e errs]; [apply Forall_rev; exact Hs|].
    change (rev (e :: errs)) with (rev errs ++ [e]). apply Forall_rev in He. exact He. }
  destruct (sp_match_tok TSoftSemi st i Hi) as [(E & H1 & _)|E]; rewrite E.
  { eapply IH; eauto. }
  destruct (ok_stmt_all inner) as (Hd & _). specialize (Hd st i Hi).
  destruct (p_declaration inner st) as [s st1|e st1|site|]; cbn [sp_post] in Hd; try exact I.
  - destruct Hd as (i1 & L1 & H1 & Hs1). eapply IH; [exact H1|constructor; assumption|exact He].
  - destruct Hd as [(i1 & L1 & H1) He1]. destruct (sp_synchronize st1 i1 H1) as (i2 & L2 & H2).
    eapply IH; [exact H2|exact Hs|constructor; assumption].
Qed.

Lemma sp_parse_tokens :
  match parse_tokens ts with
  | ParseOk p => Forall okS p
  | ParseErr es => Forall elab es
  | _ => True
  end.
Proof.
  unfold parse_tokens. apply (sp_program_loop _ _ _ 0%nat); [|constructor|constructor].
  split; [reflexivity|]. cbn [prevt]. intros p Hp; discriminate.
Qed.
End ParseSpans.

Lemma parse_error_labels : forall ts es e l,
  parse_tokens ts = ParseErr es -> In e es -> In l (pe_labels e) -> tok_label ts l.
Proof.
  intros ts es e l H He Hl. pose proof (sp_parse_tokens ts) as Hp. rewrite H in Hp.
  rewrite Forall_forall in Hp. specialize (Hp e He). unfold elab in Hp. rewrite Forall_forall in Hp.
  apply Hp; exact Hl.
Qed.

Lemma parse_ast_spans : forall ts p l, parse_tokens ts = ParseOk p -> In l (prog_spans p) -> tok_label ts l.
Proof.
  intros ts p l H Hl. pose proof (sp_parse_tokens ts) as Hp. rewrite H in Hp.
  apply okS_list in Hp as [Hp _]. rewrite Forall_forall in Hp. apply Hp; exact Hl.
Qed.

Lemma parse_ast_pairs : forall ts p lb rb, parse_tokens ts = ParseOk p -> In (lb, rb) (prog_pairs p) ->
  tok_label ts (span_between lb rb).
Proof.
  intros ts p lb rb H Hl. pose proof (sp_parse_tokens ts) as Hp. rewrite H in Hp.
  apply okS_list in Hp as [_ Hp]. rewrite Forall_forall in Hp. apply (Hp (lb, rb)); exact Hl.
Qed.

Lemma parse_label_in_source : forall a s ts es e l,
  lex_gen a s = LexOk ts -> parse_tokens ts = ParseErr es -> In e es -> In l (pe_labels e) -> label_ok s l.
Proof.
  intros a s ts es e l Hlex Hp He Hl. eapply tok_label_ok; [eapply lex_spans; exact Hlex|].
  eapply parse_error_labels; eauto.
Qed.

(** * Part 3: the evaluator *)
Section RuntimeLabels.
Variable prog : list stmt.

Definition lbl (sp : Ast.span) : Prop := node_label prog sp.
Definition sub_e (e : expr) : Prop :=
  incl (expr_spans e) (prog_spans prog) /\ incl (expr_pairs e) (prog_pairs prog).
Definition sub_s (s : stmt) : Prop :=
  incl (stmt_spans s) (prog_spans prog) /\ incl (stmt_pairs s) (prog_pairs prog).
Definition fn_ok (f : fn) : Prop := match f with FUser _ body => sub_s body | FNative _ _ _ => True end.
Definition tbl_ok (t : ftable) : Prop := Forall (fun p => fn_ok (snd p)) t.
(* no user modules; the bodies of the user procedures are sub-trees of the program *)
Definition st_ok (st : state) : Prop := o_files (orc st) = [] /\ tbl_ok (funcs st).

Definition goodP {A} (P : Ast.span -> Prop) (r : res A) : Prop :=
  match r with
  | ROk _ st' => st_ok st'
  | RErr _ sp _ => P sp
  | _ => True
  end.
Notation good := (goodP lbl).

Lemma lbl_span sp : In sp (prog_spans prog) -> lbl sp.
Proof. intro H. left. exact H. Qed.
Lemma lbl_pair lb rb : In (lb, rb) (prog_pairs prog) -> lbl (interior lb rb).
Proof. intro H. right. exists lb, rb. split; [exact H|reflexivity]. Qed.

(** the state-changing primitives keep [st_ok] *)
Lemma st_ok_set_venv st v : st_ok st -> st_ok (set_venv st v). Proof. intro H; exact H. Qed.
Lemma st_ok_set_exports st v : st_ok st -> st_ok (set_exports st v). Proof. intro H; exact H. Qed.
Lemma st_ok_set_retv st v : st_ok st -> st_ok (set_retv st v). Proof. intro H; exact H. Qed.
Lemma st_ok_set_loops st v : st_ok st -> st_ok (set_loops st v). Proof. intro H; exact H. Qed.
Lemma st_ok_set_heap st v : st_ok st -> st_ok (set_heap st v). Proof. intro H; exact H. Qed.
Lemma st_ok_set_out st v : st_ok st -> st_ok (set_out st v). Proof. intro H; exact H. Qed.
Lemma st_ok_set_stdin st v : st_ok st -> st_ok (set_stdin st v). Proof. intro H; exact H. Qed.
Lemma st_ok_emit st t : st_ok st -> st_ok (emit st t). Proof. intro H; exact H. Qed.
Lemma st_ok_heap_set st a c : st_ok st -> st_ok (heap_set st a c). Proof. intro H; exact H. Qed.
Lemma st_ok_push_loop st : st_ok st -> st_ok (push_loop st). Proof. intro H; exact H. Qed.
Lemma st_ok_set_fs st fs : st_ok st -> st_ok (set_fs st fs). Proof. intro H; exact H. Qed.
Lemma st_ok_set_orc st a b c d : st_ok st -> st_ok (set_orc st (mkOracle a b c (o_files (orc st)) d)).
Proof. intro H; exact H. Qed.
Lemma st_ok_set_funcs st t : st_ok st -> tbl_ok t -> st_ok (set_funcs st t).
Proof. intros [H1 _] H2. split; [exact H1|exact H2]. Qed.

Lemma st_ok_define st x v st' : define st x v = Some st' -> st_ok st -> st_ok st'.
Proof.
  unfold define. destruct (venv st); [discriminate|]. intro H; injection H as <-. apply st_ok_set_venv.
Qed.
Lemma st_ok_alloc st c a st' : alloc st c = (a, st') -> st_ok st -> st_ok st'.
Proof. unfold alloc. intro H; injection H as _ <-. apply st_ok_set_heap. Qed.
Lemma st_ok_read_line st l st' : read_line st = (l, st') -> st_ok st -> st_ok st'.
Proof.
  unfold read_line. destruct (take_while _ (stdin_ st)). intro H; injection H as _ <-. apply st_ok_set_stdin.
Qed.
Lemma st_ok_after_times st ab st' : after_times st = Some (ab, st') -> st_ok st -> st_ok st'.
Proof.
  unfold after_times. destruct (retv st); [intro H; injection H as _ <-; auto|].
  destruct (loops st) as [|[b c] r]; [discriminate|].
  destruct c; [|destruct b]; intro H; injection H as _ <-; auto.
Qed.
Lemma st_ok_after_until st ab fl st' : after_until st = Some (ab, fl, st') -> st_ok st -> st_ok st'.
Proof.
  unfold after_until. destruct (retv st); [intro H; injection H as _ _ <-; auto|].
  destruct (loops st) as [|[b c] r]; [discriminate|].
  destruct b; [|destruct c]; intro H; injection H as _ _ <-; auto.
Qed.

Create HintDb stok.
Hint Resolve st_ok_set_venv st_ok_set_exports st_ok_set_retv st_ok_set_loops st_ok_set_heap st_ok_set_out
  st_ok_set_stdin st_ok_emit st_ok_heap_set st_ok_push_loop st_ok_set_fs st_ok_set_orc : stok.
Hint Extern 1 (st_ok ?s') =>
  match goal with H : define _ _ _ = Some s' |- _ => apply (st_ok_define _ _ _ _ H) end : stok.
Hint Extern 1 (st_ok ?s') =>
  match goal with H : alloc _ _ = (_, s') |- _ => apply (st_ok_alloc _ _ _ _ H) end : stok.
Hint Extern 1 (st_ok ?s') =>
  match goal with H : read_line _ = (_, s') |- _ => apply (st_ok_read_line _ _ _ H) end : stok.
Hint Extern 1 (st_ok ?s') =>
  match goal with H : after_times _ = Some (_, s') |- _ => apply (st_ok_after_times _ _ _ H) end : stok.
Hint Extern 1 (st_ok ?s') =>
  match goal with H : after_until _ = Some (_, _, s') |- _ => apply (st_ok_after_until _ _ _ _ H) end : stok.

Ltac stok :=
  repeat match goal with
         | |- st_ok (match ?x with _ => _ end) => destruct x
         | |- st_ok (if ?x then _ else _) => destruct x
         end;
  solve [eauto 12 with stok].

Lemma goodP_mono {A} (P Q : Ast.span -> Prop) (r : res A) : (forall sp, P sp -> Q sp) -> goodP P r -> goodP Q r.
Proof. intro H. destruct r; cbn [goodP]; auto. Qed.

Lemma goodP_rbind {A B} P (m : res A) (k : A -> state -> res B) :
  goodP P m -> (forall x st1, st_ok st1 -> goodP P (k x st1)) -> goodP P (rbind m k).
Proof. intros Hm Hk. destruct m; cbn [rbind goodP] in *; auto. Qed.

Ltac lbl_tac :=
  cbv beta;
  first [ assumption
        | apply lbl_span; assumption
        | apply lbl_pair; assumption
        | split; [reflexivity | cbn [length]; lia]
        | reflexivity ].

Ltac side := solve [ assumption | split; assumption | stok | eauto 6 with stok ].

Create HintDb good.

Ltac good_step :=
  cbv zeta;
  lazymatch goal with
  | |- goodP _ (ROk _ _) => cbn [goodP]; stok
  | |- goodP _ (RErr _ _ _) => cbn [goodP]; lbl_tac
  | |- goodP _ (RExit _) => exact I
  | |- goodP _ (RPanic _ _) => exact I
  | |- goodP _ RFuel => exact I
  | |- goodP _ (rbind _ _) => let x := fresh "x" in let st1 := fresh "st" in let Hok := fresh "Hok" in
    apply goodP_rbind; [| intros x st1 Hok]
  | |- goodP _ (match ?x with _ => _ end) => let Hcase := fresh "Hcase" in first [is_var x; destruct x | destruct x eqn:Hcase]
  | |- goodP _ _ => solve [eauto 4 with good stok | eauto 8 with good stok]
  end.
Ltac good_auto := repeat good_step.

(** ** the library *)
Lemma display_good P st v nl : st_ok st -> goodP (A := value) P (display st v nl).
Proof. intro H. unfold display. good_auto. Qed.
Lemma new_list_good P st items : st_ok st -> goodP P (new_list st items).
Proof. intro H. unfold new_list. good_auto. Qed.
Lemma truthy_r_good P v st : st_ok st -> goodP P (truthy_r v st).
Proof. intro H. unfold truthy_r. good_auto. Qed.
Lemma pop_loop_good P st : st_ok st -> goodP P (pop_loop st).
Proof. intro H. unfold pop_loop. good_auto. Qed.
Hint Resolve display_good new_list_good truthy_r_good pop_loop_good lbl_span lbl_pair : good.

Lemma check_args_res : forall sig args spans st,
  match check_args sig args spans st with
  | ROk _ st' => st' = st /\ ((length sig <= length args)%nat -> (length sig <= length spans)%nat)
  | RErr _ sp _ => In sp spans
  | _ => True
  end.
Proof.
  induction sig as [|k sig IH]; intros args spans st.
  - cbn [check_args]. split; [reflexivity|]. cbn [length]. lia.
  - destruct args as [|v args]; [exact I|]. destruct spans as [|sp spans]; [exact I|].
    cbn [check_args]. cbv zeta. specialize (IH args spans st).
    assert (Hok : match check_args sig args spans st with
                  | ROk _ st' => st' = st /\ ((length (k :: sig) <= length (v :: args))%nat ->
                                               (length (k :: sig) <= length (sp :: spans))%nat)
                  | RErr _ sp0 _ => In sp0 (sp :: spans)
                  | _ => True
                  end).
    { destruct (check_args sig args spans st); auto.
      - destruct IH as [E L]. split; [exact E|]. cbn [length]. lia.
      - right; exact IH. }
    destruct k, v; try exact Hok; try (left; reflexivity).
    destruct o; destruct (heap_get (heap st) a) as [[| |]|]; try exact Hok; left; reflexivity.
Qed.

Lemma apply_binop_good op tok a b st : st_ok st -> lbl tok -> good (apply_binop op tok a b st).
Proof.
  intros H Ht. unfold apply_binop. good_auto.
Qed.
Lemma apply_unop_good op tok v st : st_ok st -> lbl tok -> good (apply_unop op tok v st).
Proof. intros H Ht. unfold apply_unop. good_auto. Qed.
Hint Resolve apply_binop_good apply_unop_good : good.

Lemma native_body_good m name args spans st : st_ok st ->
  goodP (fun sp => sp = nth_span spans 1 /\ (2 <= length args)%nat) (native_body m name args spans st).
Proof.
  intro H. unfold native_body. good_auto.
  (* STRING.JOIN: the accumulating loop over the items *)
  match goal with |- goodP _ (?F ?items ?acc) => is_fix F;
    repeat match goal with H : list_at _ _ = Some items |- _ => clear H end;
    generalize acc; induction items as [|x r IHr]; intros acc0 end.
  - good_auto.
  - good_auto.
Qed.

Lemma fs_call_good name args st : st_ok st -> goodP (fun _ => False) (fs_call name args st).
Proof. intro H. unfold fs_call. good_auto. Qed.

Lemma native_call_good m name sig args spans st :
  st_ok st -> length sig = length args -> Forall lbl spans -> good (native_call m name sig args spans st).
Proof.
  intros H Hlen Hsp. unfold native_call. rewrite Forall_forall in Hsp.
  pose proof (check_args_res sig args spans st) as Hc.
  destruct (check_args sig args spans st) as [u st1|k sp st1|st1|site st1|]; cbn [rbind goodP]; try exact I.
  - destruct Hc as [-> Hl]. destruct (str_eq m "FS").
    + eapply goodP_mono; [|apply fs_call_good; exact H]. intros sp [].
    + eapply goodP_mono; [|apply native_body_good; exact H]. cbv beta. intros sp [-> L].
      apply Hsp. unfold nth_span. apply nth_In. lia.
  - apply Hsp; exact Hc.
Qed.

(** ** tables of procedures *)
Lemma ft_get_ok t x f : tbl_ok t -> ft_get t x = Some f -> fn_ok f.
Proof.
  unfold tbl_ok. induction t as [|[y g] t IH]; cbn [ft_get]; intros Hw H; [discriminate|].
  inversion Hw; subst. destruct (text_eqb x y); [inversion H; subst; auto | auto].
Qed.
Lemma ft_remove_ok t x : tbl_ok t -> tbl_ok (ft_remove t x).
Proof.
  unfold tbl_ok. induction t as [|[y g] t IH]; cbn [ft_remove]; intros Hw; auto.
  inversion Hw; subst. destruct (text_eqb x y); [auto | constructor; auto].
Qed.
Lemma ft_set_ok t x f : tbl_ok t -> fn_ok f -> tbl_ok (ft_set t x f).
Proof. intros Hw Hf. unfold ft_set. constructor; auto. apply ft_remove_ok; auto. Qed.
Lemma ft_extend_ok more : forall t, tbl_ok t -> tbl_ok more -> tbl_ok (ft_extend t more).
Proof.
  unfold ft_extend. induction more as [|[y g] more IH]; cbn [fold_left]; intros t Ht Hm; auto.
  inversion Hm; subst. apply IH; auto. apply ft_set_ok; auto.
Qed.
Lemma module_table_ok m : tbl_ok (module_table m).
Proof.
  unfold module_table, tbl_ok. apply Forall_forall. intros x Hx.
  apply in_map_iff in Hx. destruct Hx as [e [<- _]]. exact I.
Qed.
Lemma tbl_ok_rev t : tbl_ok t -> tbl_ok (rev t).
Proof. apply Forall_rev. Qed.

Lemma st_ok_bind_params : forall (pvs : list (text * value)) st, st_ok st ->
  st_ok (fold_left (fun s pv => match define s (fst pv) (snd pv) with Some s' => s' | None => s end) pvs st).
Proof.
  induction pvs as [|pv pvs IH]; intros st H; cbn [fold_left]; [exact H|].
  apply IH. destruct (define st (fst pv) (snd pv)) as [s'|] eqn:Hd; [|exact H].
  exact (st_ok_define _ _ _ _ Hd H).
Qed.

Lemma incl_flat_map {A B} (f : A -> list B) (l : list A) (m : list B) :
  incl (flat_map f l) m -> Forall (fun x => incl (f x) m) l.
Proof.
  induction l as [|x l IH]; cbn [flat_map]; intro H; [constructor|].
  apply incl_app_inv in H as [H1 H2]. constructor; auto.
Qed.

Lemma sub_e_list es : incl (flat_map expr_spans es) (prog_spans prog) ->
  incl (flat_map expr_pairs es) (prog_pairs prog) -> Forall sub_e es.
Proof.
  induction es as [|e es IH]; cbn [flat_map]; intros H1 H2; [constructor|].
  apply incl_app_inv in H1 as [A1 A2]. apply incl_app_inv in H2 as [B1 B2].
  constructor; [split; assumption|auto].
Qed.

Lemma sub_s_list ss : incl (flat_map stmt_spans ss) (prog_spans prog) ->
  incl (flat_map stmt_pairs ss) (prog_pairs prog) -> Forall sub_s ss.
Proof.
  induction ss as [|e es IH]; cbn [flat_map]; intros H1 H2; [constructor|].
  apply incl_app_inv in H1 as [A1 A2]. apply incl_app_inv in H2 as [B1 B2].
  constructor; [split; assumption|auto].
Qed.

(** ** the statement helpers, under hypotheses on the recursive calls *)
Section HelpersGood.
  Variable ev : expr -> state -> res value.
  Variable ex : stmt -> state -> res unit.
  Hypothesis Hev : forall e st, sub_e e -> st_ok st -> good (ev e st).
  Hypothesis Hex : forall s st, sub_s s -> st_ok st -> good (ex s st).

  Lemma eval_args_good : forall es st, Forall sub_e es -> st_ok st -> good (eval_args ev es st).
  Proof.
    induction es as [|e es IH]; intros st Hs H; cbn [eval_args]; [good_auto|].
    inversion Hs; subst. good_auto.
  Qed.

  Lemma block_stmts_good : forall ss st, Forall sub_s ss -> st_ok st -> good (block_stmts ex ss st).
  Proof.
    induction ss as [|s ss IH]; intros st Hs H; cbn [block_stmts]; [good_auto|].
    inversion Hs; subst. good_auto.
  Qed.

  Lemma block_top_good : forall ss st, Forall sub_s ss -> st_ok st -> good (block_top ex ss st).
  Proof.
    induction ss as [|s ss IH]; intros st Hs H; cbn [block_top]; [good_auto|].
    inversion Hs; subst. good_auto.
  Qed.

  Lemma times_loop_good : forall k n body st, sub_s body -> st_ok st -> good (times_loop ex k n body st).
  Proof.
    induction k as [|k IH]; intros n body st Hb H; cbn [times_loop]; good_auto.
  Qed.

  Lemma until_loop_good : forall k c body st, sub_e c -> sub_s body -> st_ok st -> good (until_loop ev ex k c body st).
  Proof.
    induction k as [|k IH]; intros c body st Hc Hb H; cbn [until_loop]; good_auto.
  Qed.

  Lemma each_loop_good : forall k a x i len body st, sub_s body -> st_ok st -> good (each_loop ex k a x i len body st).
  Proof.
    induction k as [|k IH]; intros a x i len body st Hb H; cbn [each_loop]; good_auto.
    apply IH; [exact Hb|stok].
  Qed.
End HelpersGood.
Hint Resolve eval_args_good block_stmts_good block_top_good times_loop_good until_loop_good each_loop_good : good.

Ltac incl_break :=
  repeat match goal with
         | H : incl (_ :: _) _ |- _ => apply incl_cons_inv in H; destruct H
         | H : incl (_ ++ _) _ |- _ => apply incl_app_inv in H; destruct H
         end;
  repeat match goal with
         | H1 : incl (expr_spans ?e) _, H2 : incl (expr_pairs ?e) _ |- _ =>
           assert (sub_e e) by (split; assumption); clear H1 H2
         | H1 : incl (stmt_spans ?e) _, H2 : incl (stmt_pairs ?e) _ |- _ =>
           assert (sub_s e) by (split; assumption); clear H1 H2
         | H1 : incl (flat_map expr_spans ?es) _, H2 : incl (flat_map expr_pairs ?es) _ |- _ =>
           pose proof (sub_e_list es H1 H2); clear H1 H2
         | H1 : incl (flat_map stmt_spans ?es) _, H2 : incl (flat_map stmt_pairs ?es) _ |- _ =>
           pose proof (sub_s_list es H1 H2); clear H1 H2
         end.

Lemma eval_exec_good : forall f,
  (forall e st, sub_e e -> st_ok st -> good (eval f e st)) /\
  (forall s st, sub_s s -> st_ok st -> good (exec f s st)).
Proof.
  induction f as [|f [IHe IHx]]; split; [intros; exact I|intros; exact I| |].
  - intros e st [Hs Hp] H.
    destruct e; cbn [eval]; cbn [expr_spans expr_pairs] in Hs, Hp; incl_break; try solve [good_auto].
    (* ECall *)
    apply goodP_rbind; [apply eval_args_good; auto|]. intros vs st1 Hok.
    destruct (ft_get (funcs st1) name) as [fnv|] eqn:Eg; [|good_auto].
    pose proof (ft_get_ok _ _ _ (proj2 Hok) Eg) as Hfn.
    destruct fnv as [params body|m nm sig]; cbv zeta.
    + cbn [fn_ok] in Hfn.
      destruct (N.of_nat (length params) <? 256); [|exact I].
      destruct (Nat.eqb (length params) (length vs)); [|good_auto].
      apply goodP_rbind.
      * apply IHx; [exact Hfn|]. apply st_ok_bind_params. stok.
      * intros u st4 Hok4. good_auto.
    + destruct (Nat.eqb (length sig) (length vs)) eqn:En; [|good_auto].
      apply Nat.eqb_eq in En. apply native_call_good; [exact Hok|exact En|].
      apply Forall_forall. intros sp Hsp. apply lbl_span. auto.
  - intros s st [Hs Hp] H.
    destruct s as [e|c t [e|]|ct n body|c body|x it lt l body|name exported params body|ss|[e|]| | |modname mtok only];
      cbn [exec]; cbn [stmt_spans stmt_pairs] in Hs, Hp; incl_break; try solve [good_auto].
    + (* PROCEDURE *)
      assert (Hst1 : st_ok (set_funcs st (ft_set (funcs st) name (FUser params body)))).
      { apply st_ok_set_funcs; [exact H|]. apply ft_set_ok; [apply H|]. cbn [fn_ok]; assumption. }
      cbn [goodP]. destruct exported; [apply st_ok_set_exports|]; exact Hst1.
    + (* IMPORT *)
      assert (Hnames : match only with Some l => Forall lbl (map snd l) | None => True end).
      { destruct only as [l|]; [|exact I]. apply Forall_forall. intros sp Hsp. apply lbl_span. auto. }
      match goal with |- goodP _ (rbind ?m ?k) =>
        assert (Hm : match m with ROk table st' => st_ok st' /\ tbl_ok table | RErr _ sp _ => lbl sp | _ => True end) end.
      { destruct (existsb _ module_registry).
        - split; [exact H|]. destruct (find _ module_registry); [apply module_table_ok|constructor].
        - cbv zeta. destruct H as [Hf _]. rewrite Hf. cbn [find].
          destruct (negb _); apply lbl_span; assumption. }
      match goal with |- goodP _ (rbind ?m ?k) => destruct m as [table st1|k0 sp st1|st1|site st1|] end;
        cbn [rbind goodP]; try exact I; [|exact Hm].
      destruct Hm as [Hok Htbl]. destruct only as [names|]; [|cbn [goodP]; apply st_ok_set_funcs; [exact Hok|apply ft_extend_ok; [apply Hok|exact Htbl]]].
      repeat match goal with Hi : incl _ _ |- _ => clear Hi end.
      assert (Hacc : tbl_ok []) by constructor. revert Htbl Hacc. generalize (@nil (text * fn)). generalize table.
      induction names as [|[n sp] names IHn]; intros tbl acc Htbl Hacc.
      * cbn [goodP]. apply st_ok_set_funcs; [exact Hok|]. apply ft_extend_ok; [apply Hok|apply tbl_ok_rev; exact Hacc].
      * cbn [map snd] in Hnames. inversion Hnames as [|? ? Hsp Hnames']; subst.
        destruct (ft_get tbl n) as [fnv|] eqn:Eg; [|exact Hsp].
        apply IHn; [exact Hnames'|apply ft_remove_ok; exact Htbl|].
        constructor; [exact (ft_get_ok _ _ _ Htbl Eg)|exact Hacc].
Qed.

Lemma incl_flat_map_in {A B} (f : A -> list B) (l : list A) x : In x l -> incl (f x) (flat_map f l).
Proof. intros Hx y Hy. apply in_flat_map. exists x. auto. Qed.

Lemma run_good : forall fuel st0, st_ok st0 -> good (run_impl fuel prog st0).
Proof.
  intros fuel st0 H. unfold run_impl. apply block_top_good; [apply eval_exec_good| |exact H].
  apply Forall_forall. intros s Hs. split.
  - apply (incl_flat_map_in stmt_spans prog s Hs).
  - apply (incl_flat_map_in stmt_pairs prog s Hs).
Qed.
End RuntimeLabels.

Lemma runtime_label_from_tree : forall fuel prog st0 k sp st,
  o_files (orc st0) = [] ->
  Forall (fun p => match snd p with FNative _ _ _ => True | FUser _ _ => False end) (funcs st0) ->
  run_impl fuel prog st0 = RErr k sp st -> node_label prog sp.
Proof.
  intros fuel prog st0 k sp st Hf Hn Hr.
  assert (H : st_ok prog st0).
  { split; [exact Hf|]. eapply Forall_impl; [|exact Hn]. intros [x fnv]. cbn [snd].
    destruct fnv; [intros []|intros _; exact I]. }
  pose proof (run_good prog fuel st0 H) as Hg. rewrite Hr in Hg. exact Hg.
Qed.

Lemma node_label_ok : forall s ts prog sp,
  spans_ok s ts -> parse_tokens ts = ParseOk prog -> node_label prog sp -> label_ok s sp.
Proof.
  intros s ts prog sp Hs Hp [Hl|(lb & rb & Hl & ->)]; eapply tok_label_ok; try exact Hs.
  - eapply parse_ast_spans; eauto.
  - eapply parse_ast_pairs; eauto.
Qed.

Lemma runtime_label_in_source : forall a s ts prog fuel st0 k sp st,
  lex_gen a s = LexOk ts -> parse_tokens ts = ParseOk prog ->
  o_files (orc st0) = [] ->
  Forall (fun p => match snd p with FNative _ _ _ => True | FUser _ _ => False end) (funcs st0) ->
  run_impl fuel prog st0 = RErr k sp st -> label_ok s sp.
Proof.
  intros a s ts prog fuel st0 k sp st Hlex Hp Hf Hn Hr.
  eapply node_label_ok; [eapply lex_spans; exact Hlex|exact Hp|].
  eapply runtime_label_from_tree; eauto.
Qed.
