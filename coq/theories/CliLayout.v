(** CliLayout: the command-line contract is blind to layout — two sources that scan to token sequences
    with the same views give the same exit status, the same standard output and the same
    standard-error emptiness, in every configuration (C12 composed with C06). *)
From Aplang Require Import Base FloatX Token Ast Tables Value StrLib LexImpl LexProofs ParseImpl EvalImpl EvalSpec
  Layout Erase Meaning ParseView SpanInvariant Driver.
Open Scope N_scope.

Lemma rsim_cases : forall (r1 r2 : res unit), rsim r1 r2 ->
  match r1, r2 with
  | ROk _ s1, ROk _ s2 => output_of s1 = output_of s2
  | RErr _ _ s1, RErr _ _ s2 => output_of s1 = output_of s2
  | RExit s1, RExit s2 => output_of s1 = output_of s2
  | RPanic _ s1, RPanic _ s2 => output_of s1 = output_of s2
  | RFuel, RFuel => True
  | _, _ => False
  end.
Proof.
  intros r1 r2 H. unfold rsim in H.
  destruct r1 as [x1 s1|k1 sp1 s1|s1|p1 s1|], r2 as [x2 s2|k2 sp2 s2|s2|p2 s2|]; cbn in H; try discriminate; try exact I;
    (assert (Hs : norm_st s1 = norm_st s2) by congruence;
     unfold output_of; change (out s1) with (out (norm_st s1)); rewrite Hs; reflexivity).
Qed.

Theorem cli_layout_invariant : forall s1 s2 ts1 ts2 d c files stdin0 orc0,
  lex s1 = LexOk ts1 -> lex s2 = LexOk ts2 -> same_views ts1 ts2 ->
  cli_run (mkConfig (SrcEval s1) d c) files stdin0 orc0 = cli_run (mkConfig (SrcEval s2) d c) files stdin0 orc0.
Proof.
  intros s1 s2 ts1 ts2 d c files stdin0 orc0 L1 L2 Hv.
  unfold cli_run. cbn [c_src c_debug c_check]. rewrite L1, L2.
  pose proof (parse_view ts1 ts2 Hv) as Hp.
  destruct (parse_tokens ts1) as [p1|e1|x1|], (parse_tokens ts2) as [p2|e2|x2|]; cbn in Hp; try contradiction; try reflexivity.
  destruct c; [reflexivity|].
  set (st0 := fresh_state [] [] stdin0 _ []).
  pose proof (run_impl_sim run_fuel_cli p1 p2 st0 st0 Hp (ssim_refl st0)) as Hr.
  unfold run_impl in Hr. apply rsim_cases in Hr.
  destruct (block_top (exec run_fuel_cli) p1 st0) as [u1 t1|k1 sp1 t1|t1|q1 t1|],
           (block_top (exec run_fuel_cli) p2 st0) as [u2 t2|k2 sp2 t2|t2|q2 t2|]; try contradiction; try reflexivity;
    rewrite Hr; reflexivity.
Qed.
