(** SpanSpec: where the byte ranges of diagnostics come from.
    Every range a node of the syntax tree stores, every label of a syntactic diagnostic and every
    label of a runtime diagnostic is the range of a token of the source, or the gap between two
    tokens that follow each other in the token sequence; with the scanner's span theorem
    (C07_lex_spans) such ranges lie inside the source on character boundaries. *)
From Aplang Require Import Base FloatX Token Ast LexSpec.
Open Scope N_scope.

(** [l] is the range of a token of [ts], or the gap from the end of a token [a] to the start of a
    later real token [b] *)
Definition tok_label (ts : list token) (l : span) : Prop :=
  (exists t, In t ts /\ l = tspan t) \/
  (exists a b pre mid post, ts = pre ++ a :: mid ++ b :: post /\ tkind b <> TEof /\ tkind a <> TEof /\
                            l = span_between (tspan a) (tspan b)).

(** all ranges stored in a tree; bracket pairs (whose interior is used as a label) are listed as pairs *)
Fixpoint expr_spans (e : expr) : list span :=
  match e with
  | EGroup e1 => expr_spans e1
  | EBin _ tok l r | ELog _ tok l r => tok :: expr_spans l ++ expr_spans r
  | EUn _ tok e1 => tok :: expr_spans e1
  | ECall _ tok lp rp spans args => tok :: lp :: rp :: spans ++ flat_map expr_spans args
  | EAccess lt lb rb l k => lt :: lb :: rb :: expr_spans l ++ expr_spans k
  | EList lb rb items => lb :: rb :: flat_map expr_spans items
  | EVar _ tok => [tok]
  | EAssign _ tok arrow v => tok :: arrow :: expr_spans v
  | ESet lt lb rb arrow l i v => lt :: lb :: rb :: arrow :: expr_spans l ++ expr_spans i ++ expr_spans v
  | _ => []
  end.

Fixpoint expr_pairs (e : expr) : list (span * span) :=
  match e with
  | EGroup e1 | EUn _ _ e1 | EAssign _ _ _ e1 => expr_pairs e1
  | EBin _ _ l r | ELog _ _ l r => expr_pairs l ++ expr_pairs r
  | ECall _ _ lp rp _ args => (lp, rp) :: flat_map expr_pairs args
  | EAccess _ lb rb l k => (lb, rb) :: expr_pairs l ++ expr_pairs k
  | EList _ _ items => flat_map expr_pairs items
  | ESet _ lb rb _ l i v => (lb, rb) :: expr_pairs l ++ expr_pairs i ++ expr_pairs v
  | _ => []
  end.

Fixpoint stmt_spans (s : stmt) : list span :=
  match s with
  | SExpr e => expr_spans e
  | SIf c t e => expr_spans c ++ stmt_spans t ++ match e with Some x => stmt_spans x | None => [] end
  | SRepeatTimes ct n b => ct :: expr_spans n ++ stmt_spans b
  | SRepeatUntil c b => expr_spans c ++ stmt_spans b
  | SForEach _ it lt l b => it :: lt :: expr_spans l ++ stmt_spans b
  | SProc _ _ _ b => stmt_spans b
  | SBlock ss => flat_map stmt_spans ss
  | SReturn (Some e) => expr_spans e
  | SImport _ mt only => mt :: match only with Some l => map snd l | None => [] end
  | _ => []
  end.

Fixpoint stmt_pairs (s : stmt) : list (span * span) :=
  match s with
  | SExpr e => expr_pairs e
  | SIf c t e => expr_pairs c ++ stmt_pairs t ++ match e with Some x => stmt_pairs x | None => [] end
  | SRepeatTimes _ n b => expr_pairs n ++ stmt_pairs b
  | SRepeatUntil c b => expr_pairs c ++ stmt_pairs b
  | SForEach _ _ _ l b => expr_pairs l ++ stmt_pairs b
  | SProc _ _ _ b => stmt_pairs b
  | SBlock ss => flat_map stmt_pairs ss
  | SReturn (Some e) => expr_pairs e
  | _ => []
  end.

Definition prog_spans (p : list stmt) : list span := flat_map stmt_spans p.
Definition prog_pairs (p : list stmt) : list (span * span) := flat_map stmt_pairs p.

(** a label of a runtime diagnostic of program [p]: a stored range, or the interior of a stored bracket pair *)
Definition node_label (p : list stmt) (l : span) : Prop :=
  In l (prog_spans p) \/ exists lb rb, In (lb, rb) (prog_pairs p) /\ l = span_between lb rb.
