(** FsProofs: laws of the file-system model behind the FS module (EvalImpl.fs_call):
    lookup after put / delete, the frame property of every single-path operation, the exact
    behaviour of FILE_CREATE / FILE_REMOVE / FILE_APPEND / FILE_OVERWRITE / FILE_READ, and
    totality (no panic, no runtime error) on a well-typed argument list. *)
From Aplang Require Import Base FloatX Token Ast Tables Value StrLib LexImpl EvalImpl.
Open Scope N_scope.

(** * lookup, delete, put *)

Lemma fs_get_del_same : forall fs p, fs_get (fs_del fs p) p = None.
Proof.
  intros fs p. induction fs as [|[k e] r IH]; cbn [fs_del fs_get]; [reflexivity|].
  destruct (text_eqb p k) eqn:E; [exact IH|].
  cbn [fs_get]. rewrite E. exact IH.
Qed.

Lemma fs_get_del_other : forall fs p q, text_eqb q p = false -> fs_get (fs_del fs p) q = fs_get fs q.
Proof.
  intros fs p q Hq. induction fs as [|[k e] r IH]; cbn [fs_del fs_get]; [reflexivity|].
  destruct (text_eqb p k) eqn:E.
  - apply text_eqb_eq in E. subst k. rewrite Hq. exact IH.
  - cbn [fs_get]. destruct (text_eqb q k); [reflexivity|exact IH].
Qed.

Lemma fs_get_app : forall l1 l2 q,
  fs_get (l1 ++ l2) q = match fs_get l1 q with Some e => Some e | None => fs_get l2 q end.
Proof.
  intros l1 l2 q. induction l1 as [|[k e] r IH]; cbn [app fs_get]; [reflexivity|].
  destruct (text_eqb q k); [reflexivity|exact IH].
Qed.

Lemma get_put_same : forall fs p e, fs_get (fs_put fs p e) p = Some e.
Proof.
  intros fs p e. unfold fs_put. rewrite fs_get_app, fs_get_del_same.
  cbn [fs_get]. rewrite text_eqb_refl. reflexivity.
Qed.

Lemma get_put_other : forall fs p e q, text_eqb q p = false -> fs_get (fs_put fs p e) q = fs_get fs q.
Proof.
  intros fs p e q Hq. unfold fs_put. rewrite fs_get_app, fs_get_del_other by exact Hq.
  destruct (fs_get fs q); [reflexivity|].
  cbn [fs_get]. rewrite Hq. reflexivity.
Qed.

(** a filter whose predicate keeps every entry with key [q] does not change the lookup of [q]
    (also with duplicate keys: the first entry with key [q] stays the first) *)
Lemma fs_get_filter : forall (f : text * fsent -> bool) fs q,
  (forall e, f (q, e) = true) -> fs_get (filter f fs) q = fs_get fs q.
Proof.
  intros f fs q Hf. induction fs as [|[k e] r IH]; cbn [filter fs_get]; [reflexivity|].
  destruct (text_eqb q k) eqn:E.
  - apply text_eqb_eq in E. subst k. rewrite Hf. cbn [fs_get]. rewrite text_eqb_refl. reflexivity.
  - destruct (f (k, e)); [cbn [fs_get]; rewrite E|]; exact IH.
Qed.

(** * prefixes, [below], [parent_of] *)

Lemma prefix_b_app : forall a s, prefix_b a (a ++ s) = true.
Proof.
  intros a s. induction a as [|x a IH]; cbn [app prefix_b]; [reflexivity|].
  rewrite N.eqb_refl. exact IH.
Qed.

Lemma prefix_b_split : forall a s, prefix_b a s = true -> exists r, s = a ++ r.
Proof.
  intros a. induction a as [|x a IH]; intros s H.
  - exists s. reflexivity.
  - destruct s as [|y s]; cbn [prefix_b] in H; [discriminate|].
    apply andb_true_iff in H as [H1 H2]. apply N.eqb_eq in H1. subst y.
    destruct (IH _ H2) as [r Hr]. exists r. rewrite Hr. reflexivity.
Qed.

Lemma below_child : forall d c, below d (d ++ 47 :: c) = true.
Proof.
  intros d c. unfold below.
  replace (d ++ 47 :: c) with ((d ++ [47]) ++ c) by (rewrite <- app_assoc; reflexivity).
  apply prefix_b_app.
Qed.

Lemma below_trans_app : forall q d r, below q d = true -> below q (d ++ r) = true.
Proof.
  intros q d r H. unfold below in *.
  destruct (prefix_b_split _ _ H) as [t Ht]. rewrite Ht, <- app_assoc. apply prefix_b_app.
Qed.

Lemma span_split : forall (f : N -> bool) s a b, LexImpl.span f s = (a, b) ->
  s = a ++ b /\ forallb f a = true /\ match b with [] => True | c :: _ => f c = false end.
Proof.
  intros f s. induction s as [|c r IH]; intros a b H; cbn [LexImpl.span] in H.
  - inversion H; subst. auto.
  - destruct (f c) eqn:E.
    + destruct (LexImpl.span f r) as [a' b'] eqn:E2. inversion H; subst.
      destruct (IH _ _ eq_refl) as [Hr [H1 H2]]. cbn [forallb app]. rewrite E, <- Hr. auto.
    + inversion H; subst. cbn [app forallb]. auto.
Qed.

Lemma forallb_rev : forall (f : N -> bool) l, forallb f (rev l) = forallb f l.
Proof.
  intros f l. induction l as [|x l IH]; [reflexivity|].
  cbn [rev]. rewrite forallb_app, IH. cbn [forallb]. rewrite andb_true_r. apply andb_comm.
Qed.

(** a path either splits at its last slash into parent and slash-free last component,
    or contains no slash and has the empty parent *)
Lemma parent_of_split : forall p,
  (exists d c, p = d ++ 47 :: c /\ parent_of p = d /\ forallb (fun x => negb (x =? 47)) c = true) \/
  (parent_of p = [] /\ forallb (fun x => negb (x =? 47)) p = true).
Proof.
  intros p. unfold parent_of, take_while.
  destruct (LexImpl.span (fun c => negb (c =? 47)) (rev p)) as [a b] eqn:E.
  apply span_split in E as (Hr & Ha & Hb). destruct b as [|c d].
  - right. split; [reflexivity|]. rewrite app_nil_r in Hr.
    rewrite <- (rev_involutive p), Hr, forallb_rev. exact Ha.
  - left. exists (rev d), (rev a).
    apply negb_false_iff, N.eqb_eq in Hb. subst c.
    split; [|split; [reflexivity|rewrite forallb_rev; exact Ha]].
    rewrite <- (rev_involutive p), Hr, rev_app_distr. cbn [rev]. rewrite <- app_assoc. reflexivity.
Qed.

(** * mkdir_p only touches the path and its ancestors *)

Lemma mkdir_p_nil : forall fuel fs fs', mkdir_p fuel fs [] = Some fs' -> fs' = fs.
Proof.
  intros fuel fs fs' H. destruct fuel as [|f]; cbn [mkdir_p] in H; [discriminate|].
  destruct (fs_get fs []) as [[c|]|]; inversion H; reflexivity.
Qed.

Lemma mkdir_p_frame : forall fuel fs p fs', mkdir_p fuel fs p = Some fs' ->
  forall q, text_eqb q p = false -> below q p = false -> fs_get fs' q = fs_get fs q.
Proof.
  intros fuel. induction fuel as [|f IH]; intros fs p fs' H q Hq Hb; [discriminate|].
  cbn [mkdir_p] in H.
  destruct (fs_get fs p) as [[c|]|] eqn:Eg; [discriminate|inversion H; reflexivity|].
  destruct p as [|x p0]; [discriminate|]. cbv iota in H.
  remember (x :: p0) as p eqn:Ep.
  destruct (mkdir_p f fs (parent_of p)) as [fs1|] eqn:Em; [|discriminate].
  destruct (is_dir fs1 (parent_of p)); [|discriminate].
  inversion H; subst fs'. rewrite get_put_other by exact Hq.
  destruct (parent_of_split p) as [(d & c & Hp & Hd & _) | [Hn _]].
  - rewrite Hd in Em. apply (IH _ _ _ Em).
    + destruct (text_eqb q d) eqn:E; [|reflexivity].
      apply text_eqb_eq in E. subst q. rewrite Hp, below_child in Hb. discriminate.
    + destruct (below q d) eqn:E; [|reflexivity].
      rewrite Hp, (below_trans_app _ _ _ E) in Hb. discriminate.
  - rewrite Hn in Em. apply mkdir_p_nil in Em. subst fs1. reflexivity.
Qed.

(** * the effect of a one-argument FS call on the tree *)

Inductive fs_effect (fs : fs_t) (p : text) (fs' : fs_t) : Prop :=
| FxSame : fs' = fs -> fs_effect fs p fs'
| FxDel : fs' = fs_del fs p -> fs_effect fs p fs'
| FxPut : forall e, fs' = fs_put fs p e -> fs_effect fs p fs'
| FxRmAll : fs' = filter (fun e => negb (text_eqb (fst e) p) && negb (below p (fst e))) fs -> fs_effect fs p fs'
| FxMkAll : forall fuel, mkdir_p fuel fs p = Some fs' -> fs_effect fs p fs'.

Lemma o_fs_set_fs : forall st fs, o_fs (orc (set_fs st fs)) = fs.
Proof. reflexivity. Qed.

(* evaluate the name tests on closed strings *)
Ltac eval_names :=
  repeat match goal with
  | |- context [str_eq ?a ?b] =>
    let r := eval vm_compute in (str_eq a b) in change (str_eq a b) with r
  end; cbv iota.

(* split the remaining matches of a hypothesis [H : <fs_call body> = ROk v st'] *)
Ltac split_matches H :=
  repeat match type of H with
  | context [match ?x with _ => _ end] => destruct x eqn:?
  end.

Ltac finish_effect H :=
  split_matches H; inversion H; subst;
  first [ apply FxSame; reflexivity
        | apply FxDel; reflexivity
        | eapply FxPut; reflexivity
        | apply FxRmAll; reflexivity
        | eapply FxMkAll; eassumption ].

Lemma fs_call_effect : forall name p st v st',
  fs_call name [VStr p] st = ROk v st' -> fs_effect (o_fs (orc st)) p (o_fs (orc st')).
Proof.
  intros name p st v st' H. unfold fs_call in H. cbv beta zeta in H.
  destruct (str_eq name "PATH_EXISTS"); [inversion H; subst; apply FxSame; reflexivity|].
  destruct (str_eq name "PATH_IS_FILE"); [inversion H; subst; apply FxSame; reflexivity|].
  destruct (str_eq name "PATH_IS_DIRECTORY"); [inversion H; subst; apply FxSame; reflexivity|].
  destruct (str_eq name "FILE_REMOVE"); [finish_effect H|].
  destruct (str_eq name "FILE_CREATE"); [finish_effect H|].
  destruct (str_eq name "FILE_READ"); [finish_effect H|].
  destruct (str_eq name "DIRECTORY_READ").
  { unfold new_list, alloc in H. cbv iota beta in H. finish_effect H. }
  destruct (str_eq name "DIRECTORY_CREATE"); [finish_effect H|].
  destruct (str_eq name "DIRECTORY_CREATE_ALL"); [finish_effect H|].
  destruct (str_eq name "DIRECTORY_REMOVE"); [finish_effect H|].
  destruct (str_eq name "DIRECTORY_REMOVE_ALL"); [finish_effect H|].
  discriminate.
Qed.

(** * the properties *)

Lemma fs_frame : forall name p st v st' q,
  fs_call name [VStr p] st = ROk v st' ->
  text_eqb q p = false -> below p q = false -> below q p = false ->
  fs_get (o_fs (orc st')) q = fs_get (o_fs (orc st)) q.
Proof.
  intros name p st v st' q H Hq Hpq Hqp.
  destruct (fs_call_effect _ _ _ _ _ H) as [E | E | e E | E | fuel E].
  - rewrite E. reflexivity.
  - rewrite E. apply fs_get_del_other. exact Hq.
  - rewrite E. apply get_put_other. exact Hq.
  - rewrite E. apply fs_get_filter. intros e. cbn [fst]. rewrite Hq, Hpq. reflexivity.
  - exact (mkdir_p_frame _ _ _ _ E q Hq Hqp).
Qed.

Lemma fs_frame_write : forall name p x st v st' q,
  fs_call name [VStr p; x] st = ROk v st' -> text_eqb q p = false ->
  fs_get (o_fs (orc st')) q = fs_get (o_fs (orc st)) q.
Proof.
  intros name p x st v st' q H Hq. unfold fs_call in H. cbv beta zeta in H.
  destruct (str_eq name "FILE_APPEND" || str_eq name "FILE_OVERWRITE"); [|discriminate].
  destruct (fs_get (o_fs (orc st)) p) as [[c|]|]; try (inversion H; subst; reflexivity).
  destruct (show_v st x) as [t|]; [|discriminate].
  inversion H; subst. rewrite o_fs_set_fs. apply get_put_other. exact Hq.
Qed.

Lemma queries_are_pure : forall name p st v st',
  In name ["PATH_EXISTS"; "PATH_IS_FILE"; "PATH_IS_DIRECTORY"; "FILE_READ"]%string ->
  fs_call name [VStr p] st = ROk v st' -> o_fs (orc st') = o_fs (orc st).
Proof.
  intros name p st v st' Hin H.
  cbn [In] in Hin. destruct Hin as [Hn | [Hn | [Hn | [Hn | []]]]]; subst name; revert H;
    unfold fs_call; cbv beta zeta; eval_names; intros H;
    split_matches H; inversion H; subst; reflexivity.
Qed.

Lemma failure_by_value : forall name args st,
  In name ["PATH_EXISTS"; "PATH_IS_FILE"; "PATH_IS_DIRECTORY"; "FILE_REMOVE"; "FILE_CREATE"; "FILE_READ"; "DIRECTORY_READ";
           "DIRECTORY_CREATE"; "DIRECTORY_CREATE_ALL"; "DIRECTORY_REMOVE"; "DIRECTORY_REMOVE_ALL"]%string ->
  (exists p, args = [VStr p]) ->
  exists v st', fs_call name args st = ROk v st'.
Proof.
  intros name args st Hin [p Hargs]. subst args.
  cbn [In] in Hin.
  destruct Hin as [Hn | [Hn | [Hn | [Hn | [Hn | [Hn | [Hn | [Hn | [Hn | [Hn | [Hn | []]]]]]]]]]]]; subst name;
    unfold fs_call; cbv beta zeta; eval_names; unfold new_list, alloc; cbv iota beta;
    repeat match goal with
    | |- context [match ?x with _ => _ end] => destruct x
    end; eexists; eexists; reflexivity.
Qed.

Lemma create_only_if_absent : forall p st,
  fs_call "FILE_CREATE" [VStr p] st =
    match fs_get (o_fs (orc st)) p with
    | None => if is_dir (o_fs (orc st)) (parent_of p)
              then ROk (VBool true) (set_fs st (fs_put (o_fs (orc st)) p (FFile []))) else ROk (VBool false) st
    | Some _ => ROk (VBool false) st
    end.
Proof.
  intros p st. unfold fs_call. cbv beta zeta. eval_names. reflexivity.
Qed.

Lemma write_requires_existing : forall name p x st,
  (name = "FILE_APPEND" \/ name = "FILE_OVERWRITE")%string -> is_file (o_fs (orc st)) p = false ->
  fs_call name [VStr p; x] st = ROk (VBool false) st.
Proof.
  intros name p x st Hn Hf. unfold is_file in Hf.
  destruct Hn as [Hn | Hn]; subst name; unfold fs_call; cbv beta zeta; eval_names;
    destruct (fs_get (o_fs (orc st)) p) as [[c|]|]; try discriminate; reflexivity.
Qed.

Lemma append_appends_displayed_form : forall p x st c t,
  fs_get (o_fs (orc st)) p = Some (FFile c) -> show_v st x = Some t ->
  fs_call "FILE_APPEND" [VStr p; x] st = ROk (VBool true) (set_fs st (fs_put (o_fs (orc st)) p (FFile (c ++ t)))) /\
  fs_call "FILE_OVERWRITE" [VStr p; x] st = ROk (VBool true) (set_fs st (fs_put (o_fs (orc st)) p (FFile t))).
Proof.
  intros p x st c t Hg Hs.
  split; unfold fs_call; cbv beta zeta; eval_names; rewrite Hg, Hs; reflexivity.
Qed.

Lemma read_returns_contents : forall p st c,
  fs_get (o_fs (orc st)) p = Some (FFile c) -> fs_call "FILE_READ" [VStr p] st = ROk (VStr c) st.
Proof.
  intros p st c Hg. unfold fs_call. cbv beta zeta. eval_names. rewrite Hg. reflexivity.
Qed.

Lemma remove_spec : forall p st,
  fs_call "FILE_REMOVE" [VStr p] st =
    (if is_file (o_fs (orc st)) p then ROk (VBool true) (set_fs st (fs_del (o_fs (orc st)) p)) else ROk (VBool false) st) /\
  fs_get (fs_del (o_fs (orc st)) p) p = None.
Proof.
  intros p st. split; [|apply fs_get_del_same].
  unfold fs_call. cbv beta zeta. eval_names. reflexivity.
Qed.
