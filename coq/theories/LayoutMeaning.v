(** LayoutMeaning: the three invariance results composed — two layouts of the same token views
    have the same meaning (Meaning.v), for every fuel and every starting state. *)
From Aplang Require Import Base FloatX Token Ast Value LexImpl LexSpec LexProofs ParseImpl EvalImpl EvalSpec
  Layout Erase Meaning LayoutProofs ParseView SpanInvariant.

Theorem layout_never_changes_meaning : forall a, ascii_ok a -> forall items1 trail1 items2 trail2,
  layout_ok a None items1 trail1 -> layout_ok a None items2 trail2 ->
  map (fun i : litem => tok_view (snd i)) items1 = map (fun i : litem => tok_view (snd i)) items2 ->
  forall fuel st0, meaning a fuel (render items1 trail1) st0 = meaning a fuel (render items2 trail2) st0.
Proof.
  intros a Ha items1 trail1 items2 trail2 H1 H2 Hv fuel st0.
  destruct (layouts_same_views a Ha items1 trail1 items2 trail2 H1 H2 Hv) as (ts1 & ts2 & L1 & L2 & Hs).
  unfold meaning. rewrite L1, L2.
  pose proof (parse_view ts1 ts2 Hs) as Hp.
  destruct (parse_tokens ts1) as [p1|e1|s1|], (parse_tokens ts2) as [p2|e2|s2|]; cbn in Hp; try contradiction; cbn.
  - f_equal. apply eval_span_invariant. exact Hp.
  - f_equal. exact Hp.
  - f_equal. exact Hp.
  - reflexivity.
Qed.

(** the same for two source texts known only through their token sequences *)
Theorem same_views_same_meaning : forall a s1 s2 ts1 ts2,
  lex_gen a s1 = LexOk ts1 -> lex_gen a s2 = LexOk ts2 -> same_views ts1 ts2 ->
  forall fuel st0, meaning a fuel s1 st0 = meaning a fuel s2 st0.
Proof.
  intros a s1 s2 ts1 ts2 L1 L2 Hs fuel st0.
  unfold meaning. rewrite L1, L2.
  pose proof (parse_view ts1 ts2 Hs) as Hp.
  destruct (parse_tokens ts1) as [p1|e1|x1|], (parse_tokens ts2) as [p2|e2|x2|]; cbn in Hp; try contradiction; cbn.
  - f_equal. apply eval_span_invariant. exact Hp.
  - f_equal. exact Hp.
  - f_equal. exact Hp.
  - reflexivity.
Qed.
