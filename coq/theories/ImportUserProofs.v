(** ImportUserProofs: IMPORT of a user module (EvalImpl.exec, case SImport, the branch that is not a
    library module): the module's exported table is merged into the importer's procedures, only the
    heap, the output, the input and the oracles thread through, a failing module is the importer's
    failure, and only procedures declared with EXPORT reach the exported table (Props/C13b.v). *)
From Aplang Require Import Base FloatX Token Ast Tables Robot Value StrLib LexImpl ParseImpl
  EvalImpl EvalSpec ImportProofs.
From Aplang.Gen Require Import Generated.
From Coq Require Import Lia.
Open Scope N_scope.

(** * 1. a user module that runs to completion *)
Lemma import_table_user (f : nat) (modname : text) (mtok : span) (st : state) (src : text)
      (ts : list token) (prog : list stmt) :
  existsb (fun m => text_eqb (string_bytes m) modname) module_registry = false ->
  has_ap_extension (path_join (path st) modname) = true ->
  find (fun e => text_eqb (fst e) (path_join (path st) modname)) (o_files (orc st)) = Some (path_join (path st) modname, src) ->
  lex src = LexOk ts -> parse_tokens ts = ParseOk prog ->
  import_table f modname mtok st =
    rbind (block_top (exec f) prog (fresh_state (heap st) (out st) (stdin_ st) (orc st) (dirname (path_join (path st) modname))))
          (fun _u ms1 => ROk (exports ms1)
             (set_orc (set_stdin (set_out (set_heap st (heap ms1)) (out ms1)) (stdin_ ms1)) (orc ms1))).
Proof.
  intros Hex Hext Hfind Hlex Hparse. unfold import_table. cbv zeta.
  rewrite Hex, Hext, Hfind. simpl negb. cbv iota. rewrite Hlex, Hparse. reflexivity.
Qed.

Lemma import_user_exact : forall f modname mtok st src ts prog ms1,
  existsb (fun m => text_eqb (string_bytes m) modname) module_registry = false ->
  has_ap_extension (path_join (path st) modname) = true ->
  find (fun e => text_eqb (fst e) (path_join (path st) modname)) (o_files (orc st)) = Some (path_join (path st) modname, src) ->
  lex src = LexOk ts -> parse_tokens ts = ParseOk prog ->
  block_top (exec f) prog (fresh_state (heap st) (out st) (stdin_ st) (orc st) (dirname (path_join (path st) modname))) = ROk tt ms1 ->
  exists st', exec (S f) (SImport modname mtok None) st = ROk tt st' /\
    funcs st' = ft_extend (funcs st) (exports ms1) /\
    heap st' = heap ms1 /\ out st' = out ms1 /\ stdin_ st' = stdin_ ms1 /\ orc st' = orc ms1 /\
    venv st' = venv st /\ exports st' = exports st /\ retv st' = retv st /\ loops st' = loops st /\ path st' = path st.
Proof.
  intros f modname mtok st src ts prog ms1 Hex Hext Hfind Hlex Hparse Hrun.
  rewrite exec_import_eq, (import_table_user f modname mtok st src ts prog Hex Hext Hfind Hlex Hparse), Hrun.
  cbn [rbind import_finish]. eexists. split; [reflexivity|]. repeat split.
Qed.

(** * 3. a user module that fails *)
Lemma import_user_error : forall f modname mtok only st src ts prog k sp ms1,
  existsb (fun m => text_eqb (string_bytes m) modname) module_registry = false ->
  has_ap_extension (path_join (path st) modname) = true ->
  find (fun e => text_eqb (fst e) (path_join (path st) modname)) (o_files (orc st)) = Some (path_join (path st) modname, src) ->
  lex src = LexOk ts -> parse_tokens ts = ParseOk prog ->
  block_top (exec f) prog (fresh_state (heap st) (out st) (stdin_ st) (orc st) (dirname (path_join (path st) modname))) = RErr k sp ms1 ->
  exec (S f) (SImport modname mtok only) st = RErr k sp ms1.
Proof.
  intros f modname mtok only st src ts prog k sp ms1 Hex Hext Hfind Hlex Hparse Hrun.
  rewrite exec_import_eq, (import_table_user f modname mtok st src ts prog Hex Hext Hfind Hlex Hparse), Hrun.
  reflexivity.
Qed.

(** * 2. only EXPORT procedures reach the exported table *)

(** [name] is declared with EXPORT somewhere in the statement (the definition of Props/C13b.v) *)
Fixpoint exported_in (s : stmt) (name : text) : Prop :=
  match s with
  | SProc n true _ b => n = name \/ exported_in b name
  | SProc _ false _ b => exported_in b name
  | SIf _ t e => exported_in t name \/ match e with Some x => exported_in x name | None => False end
  | SRepeatTimes _ _ b | SRepeatUntil _ b | SForEach _ _ _ _ b => exported_in b name
  | SBlock ss => (fix any (l : list stmt) : Prop := match l with [] => False | x :: r => exported_in x name \/ any r end) ss
  | _ => False
  end.

Lemma any_exported_in name : forall (l : list stmt) x, In x l -> exported_in x name ->
  (fix any (l : list stmt) : Prop := match l with [] => False | x :: r => exported_in x name \/ any r end) l.
Proof.
  induction l as [|y l IH]; intros x Hin Hx; [contradiction|].
  destruct Hin as [->|Hin]; [left; exact Hx|right; eapply IH; eauto].
Qed.

Section Exports.
Variable prog : list stmt.

(** the name is declared with EXPORT in the program *)
Definition Exp (name : text) : Prop := exists s0, In s0 prog /\ exported_in s0 name.
(** the EXPORT declarations of [s] are EXPORT declarations of the program *)
Definition in_s (s : stmt) : Prop := forall name, exported_in s name -> Exp name.

Lemma in_s_top s : In s prog -> in_s s.
Proof. intros Hin name Hn. exists s. split; assumption. Qed.

Lemma in_s_if c t e : in_s (SIf c t e) -> in_s t /\ match e with Some x => in_s x | None => True end.
Proof.
  intros H. split.
  - intros n Hn; apply H; cbn [exported_in]; tauto.
  - destruct e as [x|]; [|exact I]. intros n Hn; apply H; cbn [exported_in]; tauto.
Qed.
Lemma in_s_times ct c b : in_s (SRepeatTimes ct c b) -> in_s b.
Proof. intros H n Hn; apply H; exact Hn. Qed.
Lemma in_s_until c b : in_s (SRepeatUntil c b) -> in_s b.
Proof. intros H n Hn; apply H; exact Hn. Qed.
Lemma in_s_each x it lt l b : in_s (SForEach x it lt l b) -> in_s b.
Proof. intros H n Hn; apply H; exact Hn. Qed.
Lemma in_s_proc nm ex ps b : in_s (SProc nm ex ps b) -> in_s b.
Proof. intros H n Hn. apply H. destruct ex; cbn [exported_in]; tauto. Qed.
Lemma in_s_proc_name nm ps b : in_s (SProc nm true ps b) -> Exp nm.
Proof. intros H. apply H. cbn [exported_in]. left; reflexivity. Qed.
Lemma in_s_block ss : in_s (SBlock ss) -> Forall in_s ss.
Proof.
  intros H. apply Forall_forall. intros x Hx n Hn. apply H. cbn [exported_in]. eapply any_exported_in; eauto.
Qed.

(** states: no user modules; the bodies of the user procedures export only what the program exports;
    the exported table holds only names the program exports *)
Definition fn_in (f : fn) : Prop := match f with FUser _ body => in_s body | FNative _ _ _ => True end.
Definition tbl_in (t : ftable) : Prop := Forall (fun p => fn_in (snd p)) t.
Definition exp_in (t : ftable) : Prop := Forall (fun p => Exp (fst p)) t.
Definition rok (st : state) : Prop := o_files (orc st) = [] /\ tbl_in (funcs st) /\ exp_in (exports st).

Definition good {A} (r : res A) : Prop :=
  match r with
  | ROk _ st' => rok st'
  | _ => True
  end.

Lemma rok_set_venv st v : rok st -> rok (set_venv st v). Proof. intro H; exact H. Qed.
Lemma rok_set_retv st v : rok st -> rok (set_retv st v). Proof. intro H; exact H. Qed.
Lemma rok_set_loops st v : rok st -> rok (set_loops st v). Proof. intro H; exact H. Qed.
Lemma rok_set_heap st v : rok st -> rok (set_heap st v). Proof. intro H; exact H. Qed.
Lemma rok_set_out st v : rok st -> rok (set_out st v). Proof. intro H; exact H. Qed.
Lemma rok_set_stdin st v : rok st -> rok (set_stdin st v). Proof. intro H; exact H. Qed.
Lemma rok_emit st t : rok st -> rok (emit st t). Proof. intro H; exact H. Qed.
Lemma rok_heap_set st a c : rok st -> rok (heap_set st a c). Proof. intro H; exact H. Qed.
Lemma rok_push_loop st : rok st -> rok (push_loop st). Proof. intro H; exact H. Qed.
Lemma rok_set_fs st fs : rok st -> rok (set_fs st fs). Proof. intro H; exact H. Qed.
Lemma rok_set_orc st a b c d : rok st -> rok (set_orc st (mkOracle a b c (o_files (orc st)) d)).
Proof. intro H; exact H. Qed.
Lemma rok_set_funcs st t : rok st -> tbl_in t -> rok (set_funcs st t).
Proof. intros (H1 & _ & H3) H2. split; [exact H1|split; [exact H2|exact H3]]. Qed.
Lemma rok_set_exports st t : rok st -> exp_in t -> rok (set_exports st t).
Proof. intros (H1 & H2 & _) H3. split; [exact H1|split; [exact H2|exact H3]]. Qed.

Lemma rok_define st x v st' : define st x v = Some st' -> rok st -> rok st'.
Proof.
  unfold define. destruct (venv st); [discriminate|]. intro H; injection H as <-. apply rok_set_venv.
Qed.
Lemma rok_alloc st c a st' : alloc st c = (a, st') -> rok st -> rok st'.
Proof. unfold alloc. intro H; injection H as _ <-. apply rok_set_heap. Qed.
Lemma rok_read_line st l st' : read_line st = (l, st') -> rok st -> rok st'.
Proof.
  unfold read_line. destruct (take_while _ (stdin_ st)). intro H; injection H as _ <-. apply rok_set_stdin.
Qed.
Lemma rok_after_times st ab st' : after_times st = Some (ab, st') -> rok st -> rok st'.
Proof.
  unfold after_times. destruct (retv st); [intro H; injection H as _ <-; auto|].
  destruct (loops st) as [|[b c] r]; [discriminate|].
  destruct c; [|destruct b]; intro H; injection H as _ <-; auto.
Qed.
Lemma rok_after_until st ab fl st' : after_until st = Some (ab, fl, st') -> rok st -> rok st'.
Proof.
  unfold after_until. destruct (retv st); [intro H; injection H as _ _ <-; auto|].
  destruct (loops st) as [|[b c] r]; [discriminate|].
  destruct b; [|destruct c]; intro H; injection H as _ _ <-; auto.
Qed.

Create HintDb xrok.
Hint Resolve rok_set_venv rok_set_retv rok_set_loops rok_set_heap rok_set_out
  rok_set_stdin rok_emit rok_heap_set rok_push_loop rok_set_fs rok_set_orc : xrok.
Hint Extern 1 (rok ?s') =>
  match goal with H : define _ _ _ = Some s' |- _ => apply (rok_define _ _ _ _ H) end : xrok.
Hint Extern 1 (rok ?s') =>
  match goal with H : alloc _ _ = (_, s') |- _ => apply (rok_alloc _ _ _ _ H) end : xrok.
Hint Extern 1 (rok ?s') =>
  match goal with H : read_line _ = (_, s') |- _ => apply (rok_read_line _ _ _ H) end : xrok.
Hint Extern 1 (rok ?s') =>
  match goal with H : after_times _ = Some (_, s') |- _ => apply (rok_after_times _ _ _ H) end : xrok.
Hint Extern 1 (rok ?s') =>
  match goal with H : after_until _ = Some (_, _, s') |- _ => apply (rok_after_until _ _ _ _ H) end : xrok.

Ltac rok_tac :=
  repeat match goal with
         | |- rok (match ?x with _ => _ end) => destruct x
         | |- rok (if ?x then _ else _) => destruct x
         end;
  solve [eauto 12 with xrok].

Lemma good_rbind {A B} (m : res A) (k : A -> state -> res B) :
  good m -> (forall x st1, rok st1 -> good (k x st1)) -> good (rbind m k).
Proof. intros Hm Hk. destruct m; cbn [rbind good] in *; auto. Qed.

Create HintDb xgood.

Ltac good_step :=
  cbv zeta;
  lazymatch goal with
  | |- good (ROk _ _) => cbn [good]; rok_tac
  | |- good (RErr _ _ _) => exact I
  | |- good (RExit _) => exact I
  | |- good (RPanic _ _) => exact I
  | |- good RFuel => exact I
  | |- good (rbind _ _) => let x := fresh "x" in let st1 := fresh "st" in let Hok := fresh "Hok" in
    apply good_rbind; [| intros x st1 Hok]
  | |- good (match ?x with _ => _ end) => let Hcase := fresh "Hcase" in first [is_var x; destruct x | destruct x eqn:Hcase]
  | |- good _ => solve [eauto 4 with xgood xrok | eauto 8 with xgood xrok]
  end.
Ltac good_auto := repeat good_step.

(** ** the library *)
Lemma display_good st v nl : rok st -> good (A := value) (display st v nl).
Proof. intro H. unfold display. good_auto. Qed.
Lemma new_list_good st items : rok st -> good (new_list st items).
Proof. intro H. unfold new_list. good_auto. Qed.
Lemma truthy_r_good v st : rok st -> good (truthy_r v st).
Proof. intro H. unfold truthy_r. good_auto. Qed.
Lemma pop_loop_good st : rok st -> good (pop_loop st).
Proof. intro H. unfold pop_loop. good_auto. Qed.
Hint Resolve display_good new_list_good truthy_r_good pop_loop_good : xgood.

Lemma check_args_good : forall sig args spans st, rok st -> good (check_args sig args spans st).
Proof.
  induction sig as [|k sig IH]; intros args spans st H.
  - exact H.
  - destruct args as [|v args]; [exact I|]. destruct spans as [|sp spans]; [exact I|].
    cbn [check_args]. cbv zeta. specialize (IH args spans st H).
    destruct k, v; try exact IH; try exact I.
    destruct o; destruct (heap_get (heap st) a) as [[| |]|]; try exact IH; exact I.
Qed.

Lemma apply_binop_good op tok a b st : rok st -> good (apply_binop op tok a b st).
Proof.
  intros H. unfold apply_binop.
  destruct (find _ binop_arms) as [r|]; [|exact I].
  destruct (ba_act r); good_auto.
Qed.

Lemma apply_unop_good op tok v st : rok st -> good (apply_unop op tok v st).
Proof.
  intros H. unfold apply_unop.
  destruct (find _ unop_arms) as [r|]; [|exact I].
  destruct (ua_act r); good_auto.
Qed.

Lemma native_body_good m name args spans st : rok st -> good (native_body m name args spans st).
Proof.
  intro H. unfold native_body.
  good_auto.
  (* STRING.JOIN: the accumulating loop over the items *)
  match goal with |- good (?F ?items ?acc) => is_fix F;
    repeat match goal with H : list_at _ _ = Some items |- _ => clear H end;
    generalize acc; induction items as [|x r IHr]; intros acc0 end.
  - good_auto.
  - good_auto.
Qed.

Lemma fs_call_good name args st : rok st -> good (fs_call name args st).
Proof. intro H. unfold fs_call. good_auto. Qed.

Lemma native_call_good m name sig args spans st : rok st -> good (native_call m name sig args spans st).
Proof.
  intros H. unfold native_call.
  apply good_rbind; [apply check_args_good; exact H|]. intros u st1 Hok.
  destruct (str_eq m "FS"); [apply fs_call_good|apply native_body_good]; exact Hok.
Qed.
Hint Resolve apply_binop_good apply_unop_good native_call_good : xgood.

(** ** tables of procedures *)
Lemma ft_get_in t x f : tbl_in t -> ft_get t x = Some f -> fn_in f.
Proof.
  unfold tbl_in. induction t as [|[y g] t IH]; cbn [ft_get]; intros Hw H; [discriminate|].
  inversion Hw; subst. destruct (text_eqb x y); [inversion H; subst; auto | auto].
Qed.
Lemma ft_remove_in t x : tbl_in t -> tbl_in (ft_remove t x).
Proof.
  unfold tbl_in. induction t as [|[y g] t IH]; cbn [ft_remove]; intros Hw; auto.
  inversion Hw; subst. destruct (text_eqb x y); [auto | constructor; auto].
Qed.
Lemma ft_set_in t x f : tbl_in t -> fn_in f -> tbl_in (ft_set t x f).
Proof. intros Hw Hf. unfold ft_set. constructor; auto. apply ft_remove_in; auto. Qed.
Lemma ft_extend_in more : forall t, tbl_in t -> tbl_in more -> tbl_in (ft_extend t more).
Proof.
  unfold ft_extend. induction more as [|[y g] more IH]; cbn [fold_left]; intros t Ht Hm; auto.
  inversion Hm; subst. apply IH; auto. apply ft_set_in; auto.
Qed.
Lemma module_table_in m : tbl_in (module_table m).
Proof.
  unfold module_table, tbl_in. apply Forall_forall. intros x Hx.
  apply in_map_iff in Hx. destruct Hx as [e [<- _]]. exact I.
Qed.
Lemma tbl_in_rev t : tbl_in t -> tbl_in (rev t).
Proof. apply Forall_rev. Qed.

Lemma ft_remove_exp t x : exp_in t -> exp_in (ft_remove t x).
Proof.
  unfold exp_in. induction t as [|[y g] t IH]; cbn [ft_remove]; intros Hw; auto.
  inversion Hw; subst. destruct (text_eqb x y); [auto | constructor; auto].
Qed.
Lemma ft_set_exp t x f : exp_in t -> Exp x -> exp_in (ft_set t x f).
Proof. intros Hw Hf. unfold ft_set. constructor; auto. apply ft_remove_exp; auto. Qed.
Lemma ft_get_exp t x f : exp_in t -> ft_get t x = Some f -> Exp x.
Proof.
  intros Hw H. apply ft_get_In in H. unfold exp_in in Hw. rewrite Forall_forall in Hw.
  exact (Hw _ H).
Qed.

Lemma rok_bind_params : forall (pvs : list (text * value)) st, rok st ->
  rok (fold_left (fun s pv => match define s (fst pv) (snd pv) with Some s' => s' | None => s end) pvs st).
Proof.
  induction pvs as [|pv pvs IH]; intros st H; cbn [fold_left]; [exact H|].
  apply IH. destruct (define st (fst pv) (snd pv)) as [s'|] eqn:Hd; [|exact H].
  exact (rok_define _ _ _ _ Hd H).
Qed.

(** ** the statement helpers, under hypotheses on the recursive calls *)
Section HelpersGood.
  Variable ev : expr -> state -> res value.
  Variable ex : stmt -> state -> res unit.
  Hypothesis Hev : forall e st, rok st -> good (ev e st).
  Hypothesis Hex : forall s st, in_s s -> rok st -> good (ex s st).

  Lemma eval_args_good : forall es st, rok st -> good (eval_args ev es st).
  Proof.
    induction es as [|e es IH]; intros st H; cbn [eval_args]; good_auto.
  Qed.

  Lemma block_stmts_good : forall ss st, Forall in_s ss -> rok st -> good (block_stmts ex ss st).
  Proof.
    induction ss as [|s ss IH]; intros st Hs H; cbn [block_stmts]; [good_auto|].
    inversion Hs; subst. good_auto.
  Qed.

  Lemma block_top_good : forall ss st, Forall in_s ss -> rok st -> good (block_top ex ss st).
  Proof.
    induction ss as [|s ss IH]; intros st Hs H; cbn [block_top]; [good_auto|].
    inversion Hs; subst. good_auto.
  Qed.

  Lemma times_loop_good : forall k n body st, in_s body -> rok st -> good (times_loop ex k n body st).
  Proof.
    induction k as [|k IH]; intros n body st Hb H; cbn [times_loop]; good_auto.
  Qed.

  Lemma until_loop_good : forall k c body st, in_s body -> rok st -> good (until_loop ev ex k c body st).
  Proof.
    induction k as [|k IH]; intros c body st Hb H; cbn [until_loop]; good_auto.
  Qed.

  Lemma each_loop_good : forall k a x i len body st, in_s body -> rok st -> good (each_loop ex k a x i len body st).
  Proof.
    induction k as [|k IH]; intros a x i len body st Hb H; cbn [each_loop]; good_auto.
    apply IH; [exact Hb|rok_tac].
  Qed.
End HelpersGood.
Hint Resolve eval_args_good block_stmts_good block_top_good times_loop_good until_loop_good each_loop_good : xgood.

Lemma eval_exec_good : forall f,
  (forall e st, rok st -> good (eval f e st)) /\
  (forall s st, in_s s -> rok st -> good (exec f s st)).
Proof.
  induction f as [|f [IHe IHx]]; split; [intros; exact I|intros; exact I| |].
  - intros e st H.
    destruct e; cbn [eval].
    + good_auto.
    + good_auto.
    + good_auto.
    + good_auto.
    + good_auto.
    + good_auto.
    + good_auto.
    + good_auto.
    + good_auto.
    + (* ECall *)
      apply good_rbind; [apply eval_args_good; auto|]. intros vs st1 Hok.
      destruct (ft_get (funcs st1) name) as [fnv|] eqn:Eg; [|exact I].
      pose proof (ft_get_in _ _ _ (proj1 (proj2 Hok)) Eg) as Hfn.
      destruct fnv as [params body|m nm sig]; cbv zeta.
      * cbn [fn_in] in Hfn.
        destruct (N.of_nat (length params) <? 256); [|exact I].
        destruct (Nat.eqb (length params) (length vs)); [|exact I].
        apply good_rbind.
        -- apply IHx; [exact Hfn|]. apply rok_bind_params. rok_tac.
        -- intros u st4 Hok4. good_auto.
      * destruct (Nat.eqb (length sig) (length vs)); [|exact I].
        apply native_call_good; exact Hok.
    + good_auto.
    + good_auto.
    + good_auto.
    + good_auto.
    + good_auto.
  - intros s st Hin H.
    destruct s as [e|c t e|ct n body|c body|x it lt l body|name exported params body|ss|[e|]| | |modname mtok only];
      cbn [exec].
    + good_auto.
    + apply in_s_if in Hin as (Ht & He). destruct e as [e|]; good_auto.
    + apply in_s_times in Hin. good_auto.
    + apply in_s_until in Hin. good_auto.
    + apply in_s_each in Hin. good_auto.
    + (* PROCEDURE *)
      pose proof (in_s_proc _ _ _ _ Hin) as Hb.
      assert (Hst1 : rok (set_funcs st (ft_set (funcs st) name (FUser params body)))).
      { apply rok_set_funcs; [exact H|]. apply ft_set_in; [apply H|]. cbn [fn_in]; assumption. }
      cbn [good]. destruct exported; [|exact Hst1].
      apply rok_set_exports; [exact Hst1|]. apply ft_set_exp; [apply H|]. eapply in_s_proc_name; exact Hin.
    + apply in_s_block in Hin. good_auto.
    + good_auto.
    + good_auto.
    + good_auto.
    + good_auto.
    + (* IMPORT *)
      match goal with |- good (rbind ?m ?k) =>
        assert (Hm : match m with ROk table st' => rok st' /\ tbl_in table | _ => True end) end.
      { destruct (existsb _ module_registry).
        - split; [exact H|]. destruct (find _ module_registry); [apply module_table_in|constructor].
        - cbv zeta. destruct H as [Hf _]. rewrite Hf. cbn [find].
          destruct (negb _); exact I. }
      match goal with |- good (rbind ?m ?k) => destruct m as [table st1|k0 sp st1|st1|site st1|] end;
        cbn [rbind good]; try exact I.
      destruct Hm as [Hok Htbl].
      destruct only as [names|]; [|cbn [good]; apply rok_set_funcs; [exact Hok|apply ft_extend_in; [apply Hok|exact Htbl]]].
      clear Hin.
      assert (Hacc : tbl_in []) by constructor. revert Htbl Hacc. generalize (@nil (text * fn)). generalize table.
      induction names as [|[n sp] names IHn]; intros tbl acc Htbl Hacc.
      * cbn [good]. apply rok_set_funcs; [exact Hok|]. apply ft_extend_in; [apply Hok|apply tbl_in_rev; exact Hacc].
      * destruct (ft_get tbl n) as [fnv|] eqn:Eg; [|exact I].
        apply IHn; [apply ft_remove_in; exact Htbl|].
        constructor; [exact (ft_get_in _ _ _ Htbl Eg)|exact Hacc].
Qed.

Lemma run_good : forall fuel st0, rok st0 -> good (block_top (exec fuel) prog st0).
Proof.
  intros fuel st0 H. apply block_top_good; [apply eval_exec_good| |exact H].
  apply Forall_forall. intros s Hs. apply in_s_top; exact Hs.
Qed.
End Exports.

Lemma exports_only_from_export : forall fuel prog st0 st1 name fnv,
  exports st0 = [] -> o_files (orc st0) = [] ->
  Forall (fun p => match snd p with FNative _ _ _ => True | FUser _ _ => False end) (funcs st0) ->
  block_top (exec fuel) prog st0 = ROk tt st1 ->
  ft_get (exports st1) name = Some fnv ->
  exists s, In s prog /\ exported_in s name.
Proof.
  intros fuel prog st0 st1 name fnv He Hf Hn Hr Hg.
  assert (H : rok prog st0).
  { split; [exact Hf|split].
    - eapply Forall_impl; [|exact Hn]. intros [x g]. cbn [snd].
      destruct g; [intros []|intros _; exact I].
    - rewrite He. constructor. }
  pose proof (run_good prog fuel st0 H) as Hgood. rewrite Hr in Hgood. cbn [good] in Hgood.
  destruct Hgood as (_ & _ & Hexp). exact (ft_get_exp prog _ _ _ Hexp Hg).
Qed.
