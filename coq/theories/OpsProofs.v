(** OpsProofs: the generated operator tables are the reference tables (C01), evaluation order,
    short-circuit, and "output only grows". *)
From Aplang Require Import Base FloatX Token Ast Tables Robot Value StrLib LexImpl ParseImpl EvalImpl EvalSpec OpsSpec.
From Aplang.Gen Require Import Generated.
Open Scope N_scope.

(** * the operator tables *)

Lemma truthy_is_reference : forall v,
  truthy v = Some (negb (match v with
                         | VBool b => negb b
                         | VNull => true
                         | VNum f => PrimFloat.eqb f 0
                         | _ => false end)).
Proof.
  intros v. unfold truthy, apply_truthy, truthy_arms, is_zero_f.
  destruct v as [|x|b| s|a|a]; cbn [matches ya_v ya_act negb]; try reflexivity.
  - destruct (PrimFloat.eqb x 0); reflexivity.
  - destruct b; reflexivity.
Qed.

Lemma equals_is_reference : forall a b, equals a b = Some (spec_equals a b).
Proof.
  intros a b. unfold equals, apply_equals, equals_arms, spec_equals.
  destruct a as [|x|x|x|x|x]; destruct b as [|y|y|y|y|y];
    cbn [find matches qa_l qa_r qa_act andb]; reflexivity.
Qed.

(* evaluate the first-match lookup in the concrete generated table, and the message
   classification, without touching anything else in the goal *)
Ltac compute_find :=
  match goal with
  | |- context [@find ?A ?f ?l] =>
    let r := eval vm_compute in (@find A f l) in change (@find A f l) with r
  end.
Ltac compute_kind :=
  repeat match goal with
  | |- context [kind_of_message ?m] =>
    let r := eval vm_compute in (kind_of_message m) in change (kind_of_message m) with r
  end.

Lemma binop_is_reference : forall op tok a b st,
  apply_binop op tok a b st = spec_binop op tok a b st.
Proof.
  intros op tok a b st. unfold apply_binop, spec_binop, incomparable.
  rewrite !equals_is_reference. unfold is_zero_f.
  destruct op; destruct a as [|x|x|x|x|x]; destruct b as [|y|y|y|y|y];
    compute_find; cbv beta iota; cbn [ba_act]; compute_kind; reflexivity.
Qed.

Lemma unop_is_reference : forall op tok v st, apply_unop op tok v st = spec_unop op tok v st.
Proof.
  intros op tok v st. unfold apply_unop, spec_unop.
  destruct op; destruct v as [|x|x|x|x|x];
    compute_find; cbv beta iota; cbn [ua_act]; compute_kind;
    try rewrite truthy_is_reference; reflexivity.
Qed.

Lemma div_mod_zero_is_error : forall op tok x y st,
  (op = BSlash \/ op = BModulo) -> PrimFloat.eqb y 0 = true ->
  apply_binop op tok (VNum x) (VNum y) st = RErr (if binop_eqb op BSlash then DivisionByZero else ModuloByZero) tok st.
Proof.
  intros op tok x y st Hop Hz. rewrite binop_is_reference.
  destruct Hop as [Hop|Hop]; subst op; unfold spec_binop; rewrite Hz; reflexivity.
Qed.

Lemma binary_order : forall f op tok l r st,
  eval (S f) (EBin op tok l r) st =
    (let* a, st1 <- eval f l st; let* b, st2 <- eval f r st1; apply_binop op tok a b st2).
Proof. intros f op tok l r st. reflexivity. Qed.

Lemma logical_short_circuit : forall f op tok l r st a st1 t,
  eval f l st = ROk a st1 -> truthy a = Some t ->
  (match op with LOr => t | LAnd => negb t end) = true ->
  eval (S f) (ELog op tok l r) st = ROk a st1.
Proof.
  intros f op tok l r st a st1 t Hl Ht Hs.
  cbn [eval]. rewrite Hl. cbn [rbind]. unfold truthy_r. rewrite Ht. cbn [rbind].
  rewrite Hs. reflexivity.
Qed.

Lemma logical_otherwise_right : forall f op tok l r st a st1 t,
  eval f l st = ROk a st1 -> truthy a = Some t ->
  (match op with LOr => t | LAnd => negb t end) = false ->
  eval (S f) (ELog op tok l r) st = eval f r st1.
Proof.
  intros f op tok l r st a st1 t Hl Ht Hs.
  cbn [eval]. rewrite Hl. cbn [rbind]. unfold truthy_r. rewrite Ht. cbn [rbind].
  rewrite Hs. reflexivity.
Qed.

(** * output only grows *)

Definition extends (st st' : state) : Prop := exists more, out st' = more ++ out st.

Definition grows {A} (st : state) (r : res A) : Prop :=
  match r with
  | ROk _ st' | RErr _ _ st' | RExit st' | RPanic _ st' => extends st st'
  | RFuel => True
  end.

Lemma extends_refl : forall st, extends st st.
Proof. intros st. exists []. reflexivity. Qed.

Lemma extends_trans : forall a b c, extends a b -> extends b c -> extends a c.
Proof.
  intros a b c [m1 H1] [m2 H2]. exists (m2 ++ m1). rewrite H2, H1. apply app_assoc.
Qed.

Lemma extends_out : forall st0 st st', out st' = out st -> extends st0 st -> extends st0 st'.
Proof. intros st0 st st' Ho [m Hm]. exists m. rewrite Ho. exact Hm. Qed.

Lemma extends_emit : forall st0 st t, extends st0 st -> extends st0 (emit st t).
Proof. intros st0 st t [m Hm]. exists (t :: m). cbn. rewrite Hm. reflexivity. Qed.

(** the state-changing primitives other than [emit] leave the output alone *)
Lemma extends_set_venv : forall st0 st v, extends st0 st -> extends st0 (set_venv st v).
Proof. intros st0 st v H. exact (extends_out st0 st _ eq_refl H). Qed.
Lemma extends_set_funcs : forall st0 st v, extends st0 st -> extends st0 (set_funcs st v).
Proof. intros st0 st v H. exact (extends_out st0 st _ eq_refl H). Qed.
Lemma extends_set_exports : forall st0 st v, extends st0 st -> extends st0 (set_exports st v).
Proof. intros st0 st v H. exact (extends_out st0 st _ eq_refl H). Qed.
Lemma extends_set_retv : forall st0 st v, extends st0 st -> extends st0 (set_retv st v).
Proof. intros st0 st v H. exact (extends_out st0 st _ eq_refl H). Qed.
Lemma extends_set_loops : forall st0 st v, extends st0 st -> extends st0 (set_loops st v).
Proof. intros st0 st v H. exact (extends_out st0 st _ eq_refl H). Qed.
Lemma extends_set_heap : forall st0 st v, extends st0 st -> extends st0 (set_heap st v).
Proof. intros st0 st v H. exact (extends_out st0 st _ eq_refl H). Qed.
Lemma extends_set_stdin : forall st0 st v, extends st0 st -> extends st0 (set_stdin st v).
Proof. intros st0 st v H. exact (extends_out st0 st _ eq_refl H). Qed.
Lemma extends_set_orc : forall st0 st v, extends st0 st -> extends st0 (set_orc st v).
Proof. intros st0 st v H. exact (extends_out st0 st _ eq_refl H). Qed.
Lemma extends_heap_set : forall st0 st a c, extends st0 st -> extends st0 (heap_set st a c).
Proof. intros st0 st a c H. exact (extends_out st0 st _ eq_refl H). Qed.
Lemma extends_push_loop : forall st0 st, extends st0 st -> extends st0 (push_loop st).
Proof. intros st0 st H. exact (extends_out st0 st _ eq_refl H). Qed.

Lemma extends_define : forall st0 st x v st',
  define st x v = Some st' -> extends st0 st -> extends st0 st'.
Proof.
  intros st0 st x v st' Hd H. unfold define in Hd.
  destruct (venv st) as [|s r]; [discriminate Hd|].
  injection Hd as Hd. subst st'. apply extends_set_venv, H.
Qed.

Lemma extends_alloc : forall st0 st c a st',
  alloc st c = (a, st') -> extends st0 st -> extends st0 st'.
Proof.
  intros st0 st c a st' Ha H. unfold alloc in Ha. injection Ha as _ Ha. subst st'.
  apply extends_set_heap, H.
Qed.

Lemma extends_read_line : forall st0 st l st',
  read_line st = (l, st') -> extends st0 st -> extends st0 st'.
Proof.
  intros st0 st l st' Hr H. unfold read_line in Hr.
  destruct (take_while _ (stdin_ st)) as [line rest].
  injection Hr as _ Hr. subst st'. apply extends_set_stdin, H.
Qed.

Lemma extends_after_times : forall st0 st ab st',
  after_times st = Some (ab, st') -> extends st0 st -> extends st0 st'.
Proof.
  intros st0 st ab st' Ha H. unfold after_times in Ha.
  destruct (retv st) as [rv|].
  - injection Ha as _ Ha. subst st'. exact H.
  - destruct (loops st) as [|[b c] r]; [discriminate Ha|].
    destruct c; [|destruct b]; injection Ha as _ Ha; subst st';
      try apply extends_set_loops; exact H.
Qed.

Lemma extends_after_until : forall st0 st ab fl st',
  after_until st = Some (ab, fl, st') -> extends st0 st -> extends st0 st'.
Proof.
  intros st0 st ab fl st' Ha H. unfold after_until in Ha.
  destruct (retv st) as [rv|].
  - injection Ha as _ _ Ha. subst st'. exact H.
  - destruct (loops st) as [|[b c] r]; [discriminate Ha|].
    destruct b; [|destruct c]; injection Ha as _ _ Ha; subst st';
      try apply extends_set_loops; exact H.
Qed.

Create HintDb ext.
#[export] Hint Resolve extends_refl extends_emit extends_set_venv extends_set_funcs extends_set_exports
  extends_set_retv extends_set_loops extends_set_heap extends_set_stdin extends_set_orc
  extends_heap_set extends_push_loop : ext.
#[export] Hint Extern 1 (extends _ ?s') =>
  match goal with H : define _ _ _ = Some s' |- _ => apply (extends_define _ _ _ _ _ H) end : ext.
#[export] Hint Extern 1 (extends _ ?s') =>
  match goal with H : alloc _ _ = (_, s') |- _ => apply (extends_alloc _ _ _ _ _ H) end : ext.
#[export] Hint Extern 1 (extends _ ?s') =>
  match goal with H : read_line _ = (_, s') |- _ => apply (extends_read_line _ _ _ _ H) end : ext.
#[export] Hint Extern 1 (extends _ ?s') =>
  match goal with H : after_times _ = Some (_, s') |- _ => apply (extends_after_times _ _ _ _ H) end : ext.
#[export] Hint Extern 1 (extends _ ?s') =>
  match goal with H : after_until _ = Some (_, _, s') |- _ => apply (extends_after_until _ _ _ _ _ H) end : ext.

Ltac ext :=
  repeat match goal with
         | |- extends _ (match ?x with _ => _ end) => destruct x
         end;
  solve [eauto 12 with ext].

(** ** the monad *)
Lemma grows_weaken : forall A st0 st (r : res A), grows st r -> extends st0 st -> grows st0 r.
Proof.
  intros A st0 st r Hr H. destruct r; cbn [grows] in *; try exact I;
    eapply extends_trans; eassumption.
Qed.

Lemma grows_rbind : forall A B st0 (m : res A) (k : A -> state -> res B),
  grows st0 m -> (forall x st1, extends st0 st1 -> grows st0 (k x st1)) -> grows st0 (rbind m k).
Proof.
  intros A B st0 m k Hm Hk. destruct m; cbn [rbind grows] in *; auto.
Qed.

Create HintDb grows.

(* one step of the mechanical analysis of a goal [grows st0 r] *)
Ltac grow_step :=
  cbv zeta;
  lazymatch goal with
  | |- grows _ (ROk _ _) => cbn [grows]; ext
  | |- grows _ (RErr _ _ _) => cbn [grows]; ext
  | |- grows _ (RExit _) => cbn [grows]; ext
  | |- grows _ (RPanic _ _) => cbn [grows]; ext
  | |- grows _ RFuel => exact I
  | |- grows _ (rbind _ _) => let x := fresh "x" in let st1 := fresh "st" in let Hext := fresh "Hext" in
    apply grows_rbind; [| intros x st1 Hext]
  | |- grows _ (match ?x with _ => _ end) => let Hcase := fresh "Hcase" in first [is_var x; destruct x | destruct x eqn:Hcase]
  | |- grows _ _ => eapply grows_weaken; [solve [eauto 3 with grows] | ext]
  end.
Ltac grow := repeat grow_step.

(** ** the library *)
Lemma display_grows : forall st v nl, grows st (display st v nl).
Proof. intros st v nl. unfold display. grow. Qed.

Lemma new_list_grows : forall st items, grows st (new_list st items).
Proof. intros st items. unfold new_list. grow. Qed.

Lemma truthy_r_grows : forall v st, grows st (truthy_r v st).
Proof. intros v st. unfold truthy_r. grow. Qed.

Lemma pop_loop_grows : forall st, grows st (pop_loop st).
Proof. intros st. unfold pop_loop. grow. Qed.

#[export] Hint Resolve display_grows new_list_grows truthy_r_grows pop_loop_grows : grows.

Lemma check_args_grows : forall sig args spans st, grows st (check_args sig args spans st).
Proof.
  induction sig as [|k sig IHsig]; intros args spans st.
  - cbn [check_args]. grow.
  - destruct args as [|v args]; [cbn [check_args]; grow|].
    destruct spans as [|sp spans]; [cbn [check_args]; grow|].
    cbn [check_args]. grow.
Qed.
#[export] Hint Resolve check_args_grows : grows.

Lemma apply_binop_grows : forall op tok a b st, grows st (apply_binop op tok a b st).
Proof.
  intros op tok a b st. rewrite binop_is_reference. unfold spec_binop, incomparable. grow.
Qed.

Lemma apply_unop_grows : forall op tok v st, grows st (apply_unop op tok v st).
Proof.
  intros op tok v st. rewrite unop_is_reference. unfold spec_unop. grow.
Qed.
#[export] Hint Resolve apply_binop_grows apply_unop_grows : grows.

Lemma native_body_grows : forall m name args spans st, grows st (native_body m name args spans st).
Proof.
  intros m name args spans st. unfold native_body. grow.
  (* STRING.JOIN: the accumulating loop over the items *)
  match goal with |- grows _ (?F ?items ?acc) => is_fix F;
    repeat match goal with H : list_at _ _ = Some items |- _ => clear H end;
    generalize acc; induction items as [|x r IHr]; intros acc0 end.
  - grow.
  - grow.
Qed.

#[export] Hint Resolve native_body_grows : grows.

Lemma fs_call_grows : forall name args st, grows st (fs_call name args st).
Proof. intros name args st. unfold fs_call, set_fs. grow. Qed.
#[export] Hint Resolve fs_call_grows : grows.

Lemma native_call_grows : forall m name sig args spans st, grows st (native_call m name sig args spans st).
Proof. intros m name sig args spans st. unfold native_call. grow. Qed.
#[export] Hint Resolve native_call_grows : grows.

(** ** the statement helpers, assuming the recursive calls only append *)
Section HelpersGrow.
  Variable ev : expr -> state -> res value.
  Variable ex : stmt -> state -> res unit.
  Hypothesis Hev : forall e st, grows st (ev e st).
  Hypothesis Hex : forall s st, grows st (ex s st).

  Lemma eval_args_grows : forall es st, grows st (eval_args ev es st).
  Proof.
    induction es as [|e es IHes]; intros st; cbn [eval_args]; grow.
  Qed.

  Lemma block_stmts_grows : forall ss st, grows st (block_stmts ex ss st).
  Proof.
    induction ss as [|s ss IHss]; intros st; cbn [block_stmts]; grow.
  Qed.

  Lemma block_top_grows : forall ss st, grows st (block_top ex ss st).
  Proof.
    induction ss as [|s ss IHss]; intros st; cbn [block_top]; grow.
  Qed.

  Lemma times_loop_grows : forall k n body st, grows st (times_loop ex k n body st).
  Proof.
    induction k as [|k IHk]; intros n body st; cbn [times_loop]; grow.
  Qed.

  Lemma until_loop_grows : forall k c body st, grows st (until_loop ev ex k c body st).
  Proof.
    induction k as [|k IHk]; intros c body st; cbn [until_loop]; grow.
  Qed.

  Lemma each_loop_grows : forall k a x i len body st, grows st (each_loop ex k a x i len body st).
  Proof.
    induction k as [|k IHk]; intros a x i len body st; cbn [each_loop]; grow.
  Qed.
End HelpersGrow.
#[export] Hint Resolve eval_args_grows block_stmts_grows block_top_grows times_loop_grows
  until_loop_grows each_loop_grows : grows.

(** binding the parameters of a call leaves the output alone *)
Lemma extends_bind_params : forall (pvs : list (text * value)) st0 st,
  extends st0 st ->
  extends st0 (fold_left (fun s pv => match define s (fst pv) (snd pv) with Some s' => s' | None => s end) pvs st).
Proof.
  induction pvs as [|pv pvs IHpvs]; intros st0 st H; cbn [fold_left]; [exact H|].
  apply IHpvs. destruct (define st (fst pv) (snd pv)) as [s'|] eqn:Hd; [|exact H].
  exact (extends_define _ _ _ _ _ Hd H).
Qed.
#[export] Hint Resolve extends_bind_params : ext.

(** ** the evaluator *)
Lemma eval_exec_grow : forall f,
  (forall e st, grows st (eval f e st)) /\ (forall s st, grows st (exec f s st)).
Proof.
  induction f as [|f [IHe IHx]]; split.
  - intros e st. exact I.
  - intros s st. exact I.
  - intros e st. destruct e; cbn [eval]; grow.
  - intros s st. destruct s; cbn [exec]; grow.
    + (* IMPORT of a user module: the nested interpreter starts from the importer's output *)
      eapply grows_weaken; [apply block_top_grows; exact IHx|].
      apply (extends_out st st); [reflexivity|apply extends_refl].
    + (* IMPORT ... FROM: picking the named procedures *)
      match goal with |- grows _ (?F ?ns ?tbl ?acc) =>
        is_fix F; generalize acc; generalize tbl; induction ns as [|[n sp] ns IHns]; intros tbl0 acc0 end.
      * grow.
      * grow.
Qed.

Lemma output_only_grows_eval : forall f e st,
  match eval f e st with
  | ROk _ st' | RErr _ _ st' | RExit st' | RPanic _ st' => extends st st'
  | RFuel => True
  end.
Proof. intros f e st. exact (proj1 (eval_exec_grow f) e st). Qed.

Lemma output_only_grows_exec : forall f s st,
  match exec f s st with
  | ROk _ st' | RErr _ _ st' | RExit st' | RPanic _ st' => extends st st'
  | RFuel => True
  end.
Proof. intros f s st. exact (proj2 (eval_exec_grow f) s st). Qed.
