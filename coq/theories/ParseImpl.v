(** ParseImpl: executable model of src/parser/parser.rs (Parser::parse), function by function,
    with the contextual flags, the error recovery ([synchronize]) and every panic-capable
    site as an explicit outcome.  The expression ladder is driven by the tables regenerated
    from the source (Gen/Generated.v).  No proofs here. *)
From Aplang Require Import Base FloatX Token Ast.
From Aplang.Gen Require Import Generated.
Open Scope N_scope.

(** parser state: the tokens from the cursor on, the previously consumed token, the flags *)
Record pstate := mkP {
  rest : list token;
  prevt : option token;
  in_fn : bool;
  in_loop : bool
}.

Inductive pcode :=
| PC_none | PC_standalone_export | PC_unnamed_procedure | PC_missing_lp | PC_missing_rp | PC_missing_rb
| PC_missing_times | PC_missing_each | PC_missing_ident | PC_missing_in | PC_missing_eol
| PC_invalid_assignment_target | PC_missing_rbracket.

Definition pcode_name (c : pcode) : string :=
  match c with
  | PC_none => "-" | PC_standalone_export => "standalone_export" | PC_unnamed_procedure => "unnamed_procedure"
  | PC_missing_lp => "missing_lp" | PC_missing_rp => "missing_rp" | PC_missing_rb => "missing_rb"
  | PC_missing_times => "missing_times" | PC_missing_each => "missing_each" | PC_missing_ident => "missing_ident"
  | PC_missing_in => "missing_in" | PC_missing_eol => "missing_eol"
  | PC_invalid_assignment_target => "invalid_assignment_target" | PC_missing_rbracket => "missing_rbracket"
  end%string.

Record perror := mkPErr { pe_code : pcode; pe_labels : list span }.

Inductive psite :=
| PanicPeek          (* peek().expect: no token at the cursor *)
| PanicPrevious      (* previous() with current == 0 *)
| PanicLiteral.      (* miette_expect / panic! on a literal-less Number / StringLiteral *)

Inductive pres (A : Type) :=
| POk (x : A) (st : pstate)
| PErr (e : perror) (st : pstate)
| PPanic (site : psite)
| PFuel.
Arguments POk {A} x st.
Arguments PErr {A} e st.
Arguments PPanic {A} site.
Arguments PFuel {A}.

Definition pbind {A B} (m : pres A) (k : A -> pstate -> pres B) : pres B :=
  match m with
  | POk x st => k x st
  | PErr e st => PErr e st
  | PPanic s => PPanic s
  | PFuel => PFuel
  end.
Notation "'do' x , st <- m ; k" := (pbind m (fun x st => k)) (at level 200, x name, st name, m at level 100, k at level 200).

(** cursor primitives *)
Definition peek_kind (st : pstate) : option tk :=
  match rest st with t :: _ => Some (tkind t) | [] => None end.

Definition at_end (st : pstate) : bool :=
  match rest st with t :: _ => tk_eqb (tkind t) TEof | [] => true end.   (* [] is PanicPeek; see with_peek *)

Definition check (k : tk) (st : pstate) : bool :=
  match rest st with t :: _ => negb (tk_eqb (tkind t) TEof) && tk_eqb (tkind t) k | [] => false end.

(* advance: moves unless at Eof *)
Definition advance (st : pstate) : pstate :=
  match rest st with
  | t :: r => if tk_eqb (tkind t) TEof then st else mkP r (Some t) (in_fn st) (in_loop st)
  | [] => st
  end.

(* the token at the cursor (peek) or a panic *)
Definition with_peek {A} (st : pstate) (k : token -> pres A) : pres A :=
  match rest st with t :: _ => k t | [] => PPanic PanicPeek end.
Definition with_prev {A} (st : pstate) (k : token -> pres A) : pres A :=
  match prevt st with Some t => k t | None => PPanic PanicPrevious end.

(* match_token *)
Definition match_tok (k : tk) (st : pstate) : bool * pstate :=
  if check k st then (true, advance st) else (false, st).
Fixpoint match_toks (ks : list tk) (st : pstate) : bool * pstate :=
  match ks with
  | [] => (false, st)
  | k :: r => if check k st then (true, advance st) else match_toks r st
  end.

(* consume: the expected kind, else the report built from the token at the cursor *)
Definition consume (k : tk) (report : token -> perror) (st : pstate) : pres token :=
  with_peek st (fun t =>
    if tk_eqb (tkind t) k then
      (* next_token.token_type() == token_type; advance() does not move at Eof *)
      let st' := advance st in with_prev st' (fun p => POk p st')
    else PErr (report t) st).

Definition err0 : token -> perror := fun _ => mkPErr PC_none [].
Definition fail {A} (st : pstate) : pres A := PErr (mkPErr PC_none []) st.

Definition set_flags (st : pstate) (f l : bool) : pstate := mkP (rest st) (prevt st) f l.
Definition restore {A} (f l : bool) (r : pres A) : pres A :=
  match r with
  | POk x st => POk x (set_flags st f l)
  | PErr e st => PErr e (set_flags st f l)
  | other => other
  end.

Definition rung_of (l : level) : option rung :=
  match find (fun p => level_eqb (fst p) l) ladder with Some p => Some (snd p) | None => None end.
Fixpoint assoc_tk {A} (k : tk) (l : list (tk * A)) : option A :=
  match l with [] => None | (k', v) :: r => if tk_eqb k k' then Some v else assoc_tk k r end.

Definition lit_string (t : token) : option text := match tlit t with LStr s => Some s | _ => None end.

(** ** the grammar functions, by mutual recursion on fuel *)
Fixpoint p_level (fuel : nat) (l : level) (st : pstate) {struct fuel} : pres expr :=
  match fuel with O => PFuel | S f =>
  match l with
  | LvAssignment =>
    do e, st1 <- p_level f assignment_first st;
    with_prev st1 (fun expr_token =>
    match match_tok TArrow st1 with
    | (true, st2) =>
      with_prev st2 (fun arrow =>
      do v, st3 <- p_level f assignment_value st2;
      match e with
      | EVar name tok => POk (EAssign name tok (tspan arrow) v) st3
      | EAccess lt lb rb lst key => POk (ESet lt lb rb (tspan arrow) lst key v) st3
      | _ => PErr (mkPErr PC_invalid_assignment_target [tspan arrow; tspan expr_token]) st3
      end)
    | (false, _) => POk e st1
    end)
  | LvUnary =>
    match match_toks unary_ops st with
    | (true, st1) =>
      with_prev st1 (fun tok =>
      do r, st2 <- p_level f unary_operand st1;
      match assoc_tk (tkind tok) unop_of_token with
      | Some op => POk (EUn op (tspan tok) r) st2
      | None => fail st2       (* to_unary_op()? *)
      end)
    | (false, _) => p_level f unary_else st
    end
  | LvAccess =>
    do e, st1 <- p_level f access_first st;
    with_prev st1 (fun expr_token => p_access f e (tspan expr_token) st1)
  | LvPrimary => p_primary f st
  | _ =>
    match rung_of l with
    | None => fail st
    | Some rg =>
      do e, st1 <- p_level f (r_first rg) st;
      p_loop f rg e st1
    end
  end end

with p_loop (fuel : nat) (rg : rung) (e : expr) (st : pstate) {struct fuel} : pres expr :=
  match fuel with O => PFuel | S f =>
  match match_toks (r_ops rg) st with
  | (true, st1) =>
    with_prev st1 (fun tok =>
    do r, st2 <- p_level f (r_loop rg) st1;
    match r_mk rg with
    | MkLog op => p_loop f rg (ELog op (tspan tok) e r) st2
    | MkBin =>
      match assoc_tk (tkind tok) binop_of_token with
      | Some op => p_loop f rg (EBin op (tspan tok) e r) st2
      | None => fail st2     (* to_binary_op()? *)
      end
    end)
  | (false, _) => POk e st
  end end

with p_access (fuel : nat) (e : expr) (expr_tok : span) (st : pstate) {struct fuel} : pres expr :=
  match fuel with O => PFuel | S f =>
  match match_tok TLeftBracket st with
  | (true, st1) =>
    with_prev st1 (fun lb =>
    do idx, st2 <- p_level f expression_entry st1;
    do rb, st3 <- consume TRightBracket (fun t => mkPErr PC_missing_rbracket [tspan t]) st2;
    p_access f (EAccess expr_tok (tspan lb) (tspan rb) e idx) expr_tok st3)
  | (false, _) => POk e st
  end end

(* comma-separated expressions; [n] counts the items parsed so far (for the 255 limit);
   returns the items and the token that follows each one (for the argument spans) *)
with p_items (fuel : nat) (limit : option N) (n : N) (st : pstate) {struct fuel} : pres (list expr * list token) :=
  match fuel with O => PFuel | S f =>
  if (match limit with Some m => m <=? n | None => false end) then fail st else
  do e, st1 <- p_level f expression_entry st;
  with_peek st1 (fun after =>
  match match_tok TComma st1 with
  | (true, st2) =>
    do more, st3 <- p_items f limit (n + 1) st2;
    POk (e :: fst more, after :: snd more) st3
  | (false, _) => POk ([e], [after]) st1
  end)
  end

with p_primary (fuel : nat) (st : pstate) {struct fuel} : pres expr :=
  match fuel with O => PFuel | S f =>
  with_peek st (fun t =>
  if at_end st then PErr (mkPErr PC_none [tspan t]) st else
  match tkind t with
  | TTrue => POk ETrue (advance st)
  | TFalse => POk EFalse (advance st)
  | TNull => POk ENull (advance st)
  | TStringLiteral => match tlit t with LStr s => POk (EStr s) (advance st) | _ => PPanic PanicLiteral end
  | TNumber => match tlit t with LNum x => POk (ENum x) (advance st) | _ => PPanic PanicLiteral end
  | TIdentifier =>
    let st1 := advance st in
    match match_tok TLeftParen st1 with
    | (true, st2) =>
      with_prev st2 (fun lp =>
      do items, st3 <- (if check TRightParen st2 then POk ([], []) st2 else p_items f (Some 255) 0 st2);
      do rp, st4 <- consume TRightParen (fun x => mkPErr PC_missing_rp [tspan x]) st3;
      let toks := lp :: snd items in
      let spans := (fix windows (l : list token) : list span :=
                      match l with
                      | a :: ((b :: _) as r) => span_between (tspan a) (tspan b) :: windows r
                      | _ => []
                      end) toks in
      POk (ECall (tlex t) (tspan t) (tspan lp) (tspan rp) spans (fst items)) st4)
    | (false, _) => POk (EVar (tlex t) (tspan t)) st1
    end
  | TLeftParen =>
    let st1 := advance st in
    do e, st2 <- p_level f expression_entry st1;
    do rp, st3 <- consume TRightParen (fun x => mkPErr PC_missing_lp [tspan x]) st2;
    POk (EGroup e) st3
  | TLeftBracket =>
    let st1 := advance st in
    do items, st2 <- (if check TRightBracket st1 then POk ([], []) st1 else p_items f None 0 st1);
    do rb, st3 <- consume TRightBracket (fun x => mkPErr PC_missing_rb [tspan x]) st2;
    POk (EList (tspan t) (tspan rb) (fst items)) st3
  | _ => PErr (mkPErr PC_none [tspan t]) st
  end)
  end.

Definition p_expression (fuel : nat) (st : pstate) : pres expr := p_level fuel expression_entry st.

(* parameter list of a procedure: IDENT (, IDENT)* with the 255 limit *)
Fixpoint p_params (fuel : nat) (n : N) (st : pstate) : pres (list text) :=
  match fuel with O => PFuel | S f =>
  if 255 <=? n then fail st else
  do t, st1 <- consume TIdentifier err0 st;
  match match_tok TComma st1 with
  | (true, st2) => do more, st3 <- p_params f (n + 1) st2; POk (tlex t :: more) st3
  | (false, _) => POk [tlex t] st1
  end end.

(* the specific function names of IMPORT [..]: STRING (, STRING)* with the limit of 63 *)
Fixpoint p_import_names (fuel : nat) (lbracket : token) (acc : list token) (st : pstate) : pres (list token) :=
  match fuel with O => PFuel | S f =>
  if 63 <=? N.of_nat (length acc) then
    match acc with
    | last :: _ => PErr (mkPErr PC_none [span_between (tspan lbracket) (tspan last)]) st
    | [] => PPanic PanicPrevious
    end
  else
  do t, st1 <- consume TStringLiteral err0 st;
  match match_tok TComma st1 with
  | (true, st2) => p_import_names f lbracket (t :: acc) st2
  | (false, _) => POk (rev (t :: acc)) st1
  end end.

Definition name_of (t : token) : pres (text * span) -> pres (text * span) := fun x => x.

Fixpoint names_of (ts : list token) : option (list (text * span)) :=
  match ts with
  | [] => Some []
  | t :: r => match lit_string t, names_of r with Some s, Some l => Some ((s, tspan t) :: l) | _, _ => None end
  end.

(* statement terminator shared by RETURN value and IMPORT (after the F10/F11 repairs) *)
Definition end_of_statement (st : pstate) : pres unit :=
  if at_end st || check TRightBrace st then POk tt st
  else do _t, st1 <- consume TSoftSemi err0 st; POk tt st1.

Fixpoint p_declaration (fuel : nat) (st : pstate) {struct fuel} : pres stmt :=
  match fuel with O => PFuel | S f =>
  match match_toks [TExport; TProcedure] st with
  | (true, st1) => p_procedure f st1
  | (false, _) => p_statement f st
  end end

with p_procedure (fuel : nat) (st : pstate) {struct fuel} : pres stmt :=
  match fuel with O => PFuel | S f =>
  with_prev st (fun eop =>
  do pe, st1 <- (if tk_eqb (tkind eop) TExport
                 then do pt, s1 <- consume TProcedure (fun t => mkPErr PC_standalone_export [tspan t; tspan t]) st; POk (pt, true) s1
                 else POk (eop, false) st);
  let '(proc_token, exported) := pe in
  do name_token, st2 <- consume TIdentifier (fun t => mkPErr PC_unnamed_procedure [tspan proc_token; tspan t]) st1;
  do _lp, st3 <- consume TLeftParen (fun t => mkPErr PC_missing_lp [tspan t; tspan name_token]) st2;
  do params, st4 <- (if check TRightParen st3 then POk [] st3 else p_params f 0 st3);
  do _rp, st5 <- consume TRightParen (fun t => mkPErr PC_missing_rp [tspan t]) st4;
  let fn0 := in_fn st5 in
  let lp0 := in_loop st5 in
  do body, st6 <- restore fn0 lp0 (p_statement f (set_flags st5 true false));
  POk (SProc (tlex name_token) exported params body) st6)
  end

with p_statement (fuel : nat) (st : pstate) {struct fuel} : pres stmt :=
  match fuel with O => PFuel | S f =>
  with_peek st (fun t =>
  if at_end st then p_expr_stmt f st else
  match tkind t with
  | TImport => p_import f (advance st)
  | TIf => p_if f t (advance st)
  | TRepeat =>
    let st1 := advance st in
    let lp0 := in_loop st1 in
    restore (in_fn st1) lp0
      (let st2 := set_flags st1 (in_fn st1) true in
       if check TUntil st2 then p_repeat_until f st2 else p_repeat_times f st2)
  | TFor =>
    let st1 := advance st in
    restore (in_fn st1) (in_loop st1) (p_for_each f (set_flags st1 (in_fn st1) true))
  | TLeftBrace => p_block f t [] (advance st)
  | TContinue => let st1 := advance st in if in_loop st1 then POk SContinue st1 else fail st1
  | TBreak => let st1 := advance st in if in_loop st1 then POk SBreak st1 else fail st1
  | TReturn =>
    let st1 := advance st in
    if negb (in_fn st1) then fail st1 else
    if at_end st1 || check TRightBrace st1 then POk (SReturn None) st1 else
    match match_tok TSoftSemi st1 with
    | (true, st2) => POk (SReturn None) st2
    | (false, _) =>
      do e, st2 <- p_expression f st1;
      do _u, st3 <- end_of_statement st2;
      POk (SReturn (Some e)) st3
    end
  | _ => p_expr_stmt f st
  end)
  end

with p_expr_stmt (fuel : nat) (st : pstate) {struct fuel} : pres stmt :=
  match fuel with O => PFuel | S f =>
  do e, st1 <- p_expression f st;
  if at_end st1 then POk (SExpr e) st1
  else if check TRightBrace st1 then POk (SExpr e) st1
  else do _t, st2 <- consume TSoftSemi (fun t => mkPErr PC_missing_eol [tspan t]) st1; POk (SExpr e) st2
  end

(* block: [acc] holds the statements parsed so far, reversed *)
with p_block (fuel : nat) (lb : token) (acc : list stmt) (st : pstate) {struct fuel} : pres stmt :=
  match fuel with O => PFuel | S f =>
  if negb (check TRightBrace st) && negb (at_end st) then
    match match_tok TSoftSemi st with
    | (true, st1) => p_block f lb acc st1
    | (false, _) =>
      do s, st1 <- p_declaration f st;
      p_block f lb (s :: acc) st1
    end
  else
    do _rb, st1 <- consume TRightBrace (fun _ => mkPErr PC_missing_rb [tspan lb]) st;
    POk (SBlock (rev acc)) st1
  end

with p_if (fuel : nat) (if_token : token) (st : pstate) {struct fuel} : pres stmt :=
  match fuel with O => PFuel | S f =>
  do _lp, st1 <- consume TLeftParen (fun t => mkPErr PC_missing_lp [tspan t; tspan if_token]) st;
  do c, st2 <- p_expression f st1;
  do _rp, st3 <- consume TRightParen (fun t => mkPErr PC_missing_rp [tspan t]) st2;
  do th, st4 <- p_statement f st3;
  match match_tok TElse st4 with
  | (true, st5) => do el, st6 <- p_statement f st5; POk (SIf c th (Some el)) st6
  | (false, _) => POk (SIf c th None) st4
  end end

with p_repeat_times (fuel : nat) (st : pstate) {struct fuel} : pres stmt :=
  match fuel with O => PFuel | S f =>
  do n, st1 <- p_expression f st;
  with_prev st1 (fun count_token =>
  do _t, st2 <- consume TTimes (fun t => mkPErr PC_missing_times [tspan t]) st1;
  do body, st3 <- p_statement f st2;
  POk (SRepeatTimes (tspan count_token) n body) st3)
  end

with p_repeat_until (fuel : nat) (st : pstate) {struct fuel} : pres stmt :=
  match fuel with O => PFuel | S f =>
  do until_token, st1 <- consume TUntil err0 st;
  do _lp, st2 <- consume TLeftParen (fun t => mkPErr PC_missing_lp [tspan t; tspan until_token]) st1;
  do c, st3 <- p_expression f st2;
  do _rp, st4 <- consume TRightParen (fun t => mkPErr PC_missing_rp [tspan t]) st3;
  do body, st5 <- p_statement f st4;
  POk (SRepeatUntil c body) st5
  end

with p_for_each (fuel : nat) (st : pstate) {struct fuel} : pres stmt :=
  match fuel with O => PFuel | S f =>
  do each_token, st1 <- consume TEach (fun t => mkPErr PC_missing_each [tspan t]) st;
  do item, st2 <- consume TIdentifier (fun t => mkPErr PC_missing_ident [tspan each_token; tspan t]) st1;
  do _in, st3 <- consume TIn (fun t => mkPErr PC_missing_in [tspan item; tspan t]) st2;
  do l, st4 <- p_expression f st3;
  with_prev st4 (fun list_token =>
  do body, st5 <- p_statement f st4;
  POk (SForEach (tlex item) (tspan item) (tspan list_token) l body) st5)
  end

with p_import (fuel : nat) (st : pstate) {struct fuel} : pres stmt :=
  match fuel with O => PFuel | S f =>
  do only, st1 <-
    (match match_tok TLeftBracket st with
     | (true, s1) =>
       with_prev s1 (fun lbracket =>
       do names, s2 <- p_import_names f lbracket [] s1;
       do _rb, s3 <- consume TRightBracket err0 s2;
       POk (Some names) s3)
     | (false, _) =>
       match match_tok TStringLiteral st with
       | (true, s1) => with_prev s1 (fun one => POk (Some [one]) s1)
       | (false, _) => POk None st
       end
     end);
  do _from, st2 <- (match only with
                    | Some _ => do t, s <- consume TFrom err0 st1; POk tt s
                    | None => POk tt st1
                    end);
  do _mod, st3 <- consume TMod err0 st2;
  do name, st4 <- consume TStringLiteral err0 st3;
  do _u, st5 <- end_of_statement st4;
  match lit_string name, (match only with Some ts => option_map Some (names_of ts) | None => Some None end) with
  | Some m, Some o => POk (SImport m (tspan name) o) st5
  | _, _ => PPanic PanicLiteral        (* unreachable!() in the interpreter: literal-less string token *)
  end
  end.

(** synchronize: advance once, then up to the next statement keyword *)
Fixpoint sync_loop (fuel : nat) (st : pstate) : pstate :=
  match fuel with O => st | S f =>
  if at_end st then st
  else match peek_kind st with
       | Some k => if tk_in k sync_set then st else sync_loop f (advance st)
       | None => st
       end
  end.
Definition synchronize (st : pstate) : pstate :=
  let st1 := if sync_advances_first then advance st else st in
  sync_loop (length (rest st1)) st1.

(** Parser::parse: the program loop *)
Inductive parse_result :=
| ParseOk (p : list stmt)
| ParseErr (es : list perror)
| ParsePanic (site : psite)
| ParseFuel.

Fixpoint program_loop (fuel inner : nat) (st : pstate) (stmts : list stmt) (errs : list perror) : parse_result :=
  match fuel with O => ParseFuel | S f =>
  match rest st with
  | [] => ParsePanic PanicPeek
  | _ =>
    if at_end st then
      match errs with [] => ParseOk (rev stmts) | _ => ParseErr (rev errs) end
    else
      match match_tok TSoftSemi st with
      | (true, st1) => program_loop f inner st1 stmts errs
      | (false, _) =>
        match p_declaration inner st with
        | POk s st1 => program_loop f inner st1 (s :: stmts) errs
        | PErr e st1 => program_loop f inner (synchronize st1) stmts (e :: errs)
        | PPanic site => ParsePanic site
        | PFuel => ParseFuel
        end
      end
  end end.

Definition fuel_for (ts : list token) : nat := 16 * (length ts + 2).

Definition parse_tokens (ts : list token) : parse_result :=
  program_loop (S (S (length ts))) (fuel_for ts) (mkP ts None false false) [] [].
