(** PrinterStmt: the documented statement grammar as a printer over token sequences, on top of the
    expression printer (Printer.v).  [pr_stmt full s] writes statement [s]; [ex_stmt full s] is the
    tree the parser must return for those tokens (dummy ranges, an [EGroup] exactly where the
    expression printer wrote a parenthesis); [doc_stmt fn lp s] says which trees are programs of the
    documented grammar in a context that is (not) inside a procedure / a loop.  No proofs here. *)
From Aplang Require Import Base FloatX Token Ast Printer.
Open Scope N_scope.

Definition ident (name : text) : token := tk0 TIdentifier name LNone.
Definition strlit (s : text) : token := tk0 TStringLiteral [] (LStr s).
Definition eof0 : token := kw TEof.

Fixpoint sep_tokens (l : list (list token)) : list token :=
  match l with
  | [] => []
  | [x] => x
  | x :: r => x ++ kw TComma :: sep_tokens r
  end.

Definition is_block (s : stmt) : bool := match s with SBlock _ => true | _ => false end.

Section PrintStmt.
  Variable full : bool.

  Definition pr_import (modname : text) (only : option (list (text * span))) : list token :=
    kw TImport ::
    (match only with
     | None => []
     | Some [(one, _)] => [strlit one; kw TFrom]
     | Some names => kw TLeftBracket :: sep_tokens (map (fun p => [strlit (fst p)]) names) ++ [kw TRightBracket; kw TFrom]
     end) ++ [kw TMod; strlit modname; kw TSoftSemi].

  Fixpoint pr_stmt (s : stmt) : list token :=
    match s with
    | SExpr e => print full 0 e ++ [kw TSoftSemi]
    | SIf c t e =>
      kw TIf :: lp :: print full 0 c ++ rp :: pr_stmt t ++
      (match e with Some el => kw TElse :: pr_stmt el | None => [] end)
    | SRepeatTimes _ n body => kw TRepeat :: print full 0 n ++ kw TTimes :: pr_stmt body
    | SRepeatUntil c body => kw TRepeat :: kw TUntil :: lp :: print full 0 c ++ rp :: pr_stmt body
    | SForEach name _ _ l body => kw TFor :: kw TEach :: ident name :: kw TIn :: print full 0 l ++ pr_stmt body
    | SProc name exported params body =>
      (if exported then [kw TExport] else []) ++ kw TProcedure :: ident name :: lp ::
      sep_tokens (map (fun p => [ident p]) params) ++ rp :: pr_stmt body
    | SBlock ss =>
      kw TLeftBrace ::
      (fix go (l : list stmt) : list token := match l with [] => [] | x :: r => pr_stmt x ++ go r end) ss
      ++ [kw TRightBrace]
    | SReturn None => [kw TReturn; kw TSoftSemi]
    | SReturn (Some e) => kw TReturn :: print full 0 e ++ [kw TSoftSemi]
    | SContinue => [kw TContinue]
    | SBreak => [kw TBreak]
    | SImport m _ only => pr_import m only
    end.

  Definition pr_prog (p : list stmt) : list token := flat_map pr_stmt p ++ [eof0].

  (** the tree the parser returns for [pr_stmt s] *)
  Fixpoint ex_stmt (s : stmt) : stmt :=
    match s with
    | SExpr e => SExpr (expected full 0 e)
    | SIf c t e => SIf (expected full 0 c) (ex_stmt t) (match e with Some el => Some (ex_stmt el) | None => None end)
    | SRepeatTimes _ n body => SRepeatTimes z (expected full 0 n) (ex_stmt body)
    | SRepeatUntil c body => SRepeatUntil (expected full 0 c) (ex_stmt body)
    | SForEach name _ _ l body => SForEach name z z (expected full 0 l) (ex_stmt body)
    | SProc name exported params body => SProc name exported params (ex_stmt body)
    | SBlock ss => SBlock (map ex_stmt ss)
    | SReturn None => SReturn None
    | SReturn (Some e) => SReturn (Some (expected full 0 e))
    | SContinue => SContinue
    | SBreak => SBreak
    | SImport m _ only => SImport m z (match only with Some l => Some (map (fun p => (fst p, z)) l) | None => None end)
    end.
End PrintStmt.

(** forgetting groups and ranges in statements *)
Fixpoint strip_stmt (s : stmt) : stmt :=
  match s with
  | SExpr e => SExpr (strip e)
  | SIf c t e => SIf (strip c) (strip_stmt t) (match e with Some el => Some (strip_stmt el) | None => None end)
  | SRepeatTimes _ n body => SRepeatTimes z (strip n) (strip_stmt body)
  | SRepeatUntil c body => SRepeatUntil (strip c) (strip_stmt body)
  | SForEach name _ _ l body => SForEach name z z (strip l) (strip_stmt body)
  | SProc name exported params body => SProc name exported params (strip_stmt body)
  | SBlock ss => SBlock (map strip_stmt ss)
  | SReturn None => SReturn None
  | SReturn (Some e) => SReturn (Some (strip e))
  | SContinue => SContinue
  | SBreak => SBreak
  | SImport m _ only => SImport m z (match only with Some l => Some (map (fun p => (fst p, z)) l) | None => None end)
  end.

(** the programs of the documented grammar: bodies are blocks (an ELSE branch may also be another IF),
    RETURN only inside a procedure, BREAK / CONTINUE only inside a loop (a procedure body starts
    outside any loop), at most 255 parameters, 1..63 names in a selective import, printable expressions *)
Fixpoint doc_stmt (fn lp : bool) (s : stmt) : Prop :=
  match s with
  | SExpr e => printable e
  | SIf c t e =>
    printable c /\ is_block t = true /\ doc_stmt fn lp t /\
    (match e with
     | Some el => (is_block el = true \/ (match el with SIf _ _ _ => True | _ => False end)) /\ doc_stmt fn lp el
     | None => True
     end)
  | SRepeatTimes _ n body => printable n /\ is_block body = true /\ doc_stmt fn true body
  | SRepeatUntil c body => printable c /\ is_block body = true /\ doc_stmt fn true body
  | SForEach _ _ _ l body => printable l /\ is_block body = true /\ doc_stmt fn true body
  | SProc _ _ params body => (length params <= 255)%nat /\ is_block body = true /\ doc_stmt true false body
  | SBlock ss => (fix all (l : list stmt) : Prop := match l with [] => True | x :: r => doc_stmt fn lp x /\ all r end) ss
  | SReturn None => fn = true
  | SReturn (Some e) => fn = true /\ printable e
  | SContinue | SBreak => lp = true
  | SImport _ _ only =>
    match only with Some l => (1 <= length l <= 63)%nat | None => True end
  end.

Fixpoint doc_prog (p : list stmt) : Prop :=
  match p with [] => True | s :: r => doc_stmt false false s /\ doc_prog r end.
