(** C15 (text round trip) — for every double: the printer terminates with a decimal inside the
    rounding interval, no decimal with fewer significant digits reads back as the same double, and
    TO_NUMBER of the printed text is the same double. *)
From Aplang Require Import Base FloatX StrLib ShowProofs.
Import SpecFloat.

(** 17 digits always suffice: the search never gives up on a valid binary64 *)
Theorem C15_show_total : forall s m e, valid_binary prec emax (S754_finite s m e) = true ->
  exists d p, search (Zpos m) e 18 1 (floor_log10 (Zpos m) e) = Some (d, p) /\ (0 < d)%Z.
Proof. exact show_total. Qed.

(** shortest: every decimal d' * 10^p' inside the rounding interval has at least as many
    significant digits as the one found *)
Definition C15_sig_digits (d : Z) : nat := length (dec (Z.to_N (fst (strip_zeros 400 d 0)))).

Theorem C15_show_shortest : forall s m e, valid_binary prec emax (S754_finite s m e) = true ->
  forall d p, search (Zpos m) e 18 1 (floor_log10 (Zpos m) e) = Some (d, p) ->
  forall d' p', (0 < d')%Z -> in_interval (Zpos m) e d' p' = true ->
  (C15_sig_digits d <= C15_sig_digits d')%nat.
Proof. exact show_shortest. Qed.

(** the text reads back as the same double: TO_NUMBER (the displayed form of x) = x, for every x
    (NaN, infinities and both zeros included) *)
Theorem C15_show_parse_roundtrip : forall x : float, option_map sf (parse_f64 (show_float x)) = Some (sf x).
Proof. exact show_parse_roundtrip. Qed.
