(** C06 — layout, comments and keyword case never change a program's meaning.
    (Table part; the layout theorems over the lexical grammar are in C07; the behavioural part is
    decided by re-rendering running programs, see DESIGN.md 3.6.) *)
From Aplang Require Import Base FloatX Token Ast LexImpl LexSpec LexProofs TableProofs.
From Aplang.Gen Require Import Generated.

(** every keyword is recognised in its lower-case and in its UPPER-case spelling, as the same token *)
Theorem C06_keywords_both_cases : forall w k, In (w, k) keywords ->
  assoc_text (map upper_ascii w) keywords = Some k /\ assoc_text (map lower_ascii w) keywords = Some k.
Proof. exact keywords_both_cases. Qed.

(** the implicit-terminator set is exactly: identifier, literals, NULL TRUE FALSE, BREAK CONTINUE RETURN, ) ] } *)
Theorem C06_end_set_is_reference : forall k, tk_in k end_set = tk_in k ref_end_set.
Proof. exact end_set_is_reference. Qed.

(** blanks (space, CR, tab), comments up to the end of the line and backslash-newline produce no
    token, wherever they stand; a newline produces no token unless the previous token can end a statement *)
Theorem C06_trivia_produces_no_token : forall a prev off last w rest ts,
  Trivia prev w rest -> Lexes a prev (off + byte_len w) off rest ts -> Lexes a prev off last (w ++ rest) ts.
Proof. intros; eapply L_trivia; eauto. Qed.

(** conversely a newline after an identifier, literal, closing bracket, BREAK, CONTINUE or RETURN always
    ends the statement: it is the SoftSemi token *)
Theorem C06_newline_after_ender_terminates : forall a k off last rest ts,
  tk_in k ref_end_set = true ->
  Lexes a (Some TSoftSemi) (off + 1) off rest ts ->
  Lexes a (Some k) off last (10%N :: rest) (mkToken TSoftSemi off 1 [10%N] LNone :: ts).
Proof.
  intros a k off last rest ts Hk H.
  change (10%N :: rest) with ([10%N] ++ rest).
  eapply L_token; [eapply K_newline; eauto | exact H].
Qed.

(** ';' is the same terminator token *)
Theorem C06_semicolon_is_terminator : forall a prev off last rest ts,
  Lexes a (Some TSoftSemi) (off + 1) off rest ts ->
  Lexes a prev off last (59%N :: rest) (mkToken TSoftSemi off 1 [59%N] LNone :: ts).
Proof.
  intros a prev off last rest ts H.
  change (59%N :: rest) with ([59%N] ++ rest).
  eapply L_token; [eapply K_single; reflexivity | exact H].
Qed.
