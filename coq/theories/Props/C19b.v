(** C19 (whole histories) — for EVERY sequence of FS calls: an entry that no call of the history names,
    lies below or lies above is the same after the history as before it (nothing outside the named
    paths is touched), and a history of one-path procedures never terminates the program: each call
    reports through its result. *)
From Aplang Require Import Base FloatX Token Ast Tables Value StrLib EvalImpl FsProofs FsHistory.

Theorem C19_history_frame : forall q ops st vs st',
  forallb (unrelated q) ops = true -> fs_run ops st = Some (vs, st') ->
  fs_get (o_fs (orc st')) q = fs_get (o_fs (orc st)) q.
Proof. exact fs_history_frame. Qed.

Theorem C19_history_total : forall ops st,
  Forall (fun o : fsop => In (fst o) path_procs /\ exists p, snd o = [VStr p]) ops ->
  exists vs st', fs_run ops st = Some (vs, st') /\ length vs = length ops.
Proof. exact fs_history_total. Qed.

(** [unrelated] is satisfiable: sibling paths do not concern one another *)
Example C19_unrelated_example :
  unrelated [97; 47; 98] ("FILE_REMOVE"%string, [VStr [97; 47; 99]]) = true /\
  unrelated [97; 47; 98] ("FILE_APPEND"%string, [VStr [97; 47; 99]; VNull]) = true /\
  unrelated [97; 47; 98] ("DIRECTORY_REMOVE_ALL"%string, [VStr [97]]) = false.
Proof. vm_compute. repeat split. Qed.
