(** C15 (FLOOR / CEIL / INT / ROUND) — the four rounding procedures of the MATH module, which the model
    computes itself (no oracle), return the mathematical result for every finite double: the integer
    obtained from the exact value v = (-1)^s * m * 2^e by flooring, ceiling, truncating toward zero, or
    rounding half away from zero (Rust's f64::floor / ceil / trunc / round), exactly, with the sign of the
    argument (so CEIL(-0.5) is -0). *)
From Aplang Require Import Base FloatX RoundProofs.
Import SpecFloat.

(** the reference, in integer arithmetic: v = n / d with n = (-1)^s * m * 2^max(e,0), d = 2^max(-e,0) *)
Definition C15_round_ref (mode : rmode) (s : bool) (m : positive) (e : Z) : Z :=
  let n := (if s then - Zpos m else Zpos m) * 2 ^ (Z.max e 0) in
  let d := 2 ^ (Z.max (- e) 0) in
  match mode with
  | RFloor => n / d                                   (* Z.div rounds toward minus infinity *)
  | RCeil => - ((- n) / d)
  | RTrunc => Z.quot n d                              (* Z.quot rounds toward zero *)
  | RRound => (if s then -1 else 1) * ((2 * Z.abs n + d) / (2 * d))
  end.

Theorem C15_round_int_value : forall mode s m e, valid_binary prec emax (S754_finite s m e) = true ->
  sf_trunc_Z (sf_round_int mode (S754_finite s m e)) = Some (C15_round_ref mode s m e).
Proof. exact round_int_value. Qed.

(** the result is a valid double, integral (a fixed point of every rounding mode), with the argument's sign *)
Theorem C15_round_int_shape : forall mode s m e, valid_binary prec emax (S754_finite s m e) = true ->
  let r := sf_round_int mode (S754_finite s m e) in
  valid_binary prec emax r = true /\
  (forall mode', sf_round_int mode' r = r) /\
  match r with S754_finite s' _ _ | S754_zero s' => s' = s | _ => False end.
Proof. exact round_int_shape. Qed.
