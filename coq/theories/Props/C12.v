(** C12 — CLI contract: exit status, stream separation, --check purity, mode equivalence.
    Theorems about the driver model (Driver.v); clap, OS exit codes, buffering are observed through
    the real binary only (correspondence channel K5). *)
From Aplang Require Import Base FloatX Token Ast Tables Value StrLib LexImpl ParseImpl EvalImpl Driver.

(** status 0 exactly when the program lexed, parsed and (unless --check) ran to completion *)
Theorem C12_exit0_iff_completed : forall src d chk files stdin0 orc0,
  status (cli_run (mkConfig (SrcEval src) d chk) files stdin0 orc0) = 0%N <->
  (if chk then checks_ok src = true else completes src [] stdin0 files orc0 = true).
Proof.
  intros src d chk files stdin0 orc0. unfold cli_run, completes, checks_ok. cbn [c_src c_check c_debug].
  destruct (lex src) as [ts|es|]; cbn [status]; try (destruct chk; split; intro H; discriminate).
  destruct (parse_tokens ts) as [prog|es|site|]; cbn [status]; try (destruct chk; split; intro H; discriminate).
  destruct chk; cbn [status]; [tauto|].
  destruct (block_top _ _ _); cbn [status]; split; intro H; try reflexivity; try discriminate.
Qed.

(** --check executes nothing and prints nothing *)
Ltac pick_source s files :=
  destruct s as [p|code|]; cbn [c_src c_check c_debug];
  [destruct (find (fun e => text_eqb (fst e) p) files) as [e|] | |].

Theorem C12_check_is_pure : forall s d files stdin0 orc0,
  let r := cli_run (mkConfig s d true) files stdin0 orc0 in
  stdout_ r = [] /\ (status r = 0%N -> stderr_nonempty r = false).
Proof.
  intros s d files stdin0 orc0. unfold cli_run. pick_source s files;
  try (cbn; split; [reflexivity|discriminate]);
  match goal with |- context [lex ?src] => destruct (lex src) as [ts|es|] end;
  try (cbn; split; [reflexivity|discriminate]);
  destruct (parse_tokens ts); cbn; split; try reflexivity; try discriminate.
Qed.

(** standard output and the status do not depend on the debug mode *)
Theorem C12_debug_mode_irrelevant_for_stdout : forall s d1 d2 chk files stdin0 orc0,
  stdout_ (cli_run (mkConfig s d1 chk) files stdin0 orc0) = stdout_ (cli_run (mkConfig s d2 chk) files stdin0 orc0) /\
  status (cli_run (mkConfig s d1 chk) files stdin0 orc0) = status (cli_run (mkConfig s d2 chk) files stdin0 orc0).
Proof.
  intros s d1 d2 chk files stdin0 orc0. unfold cli_run. pick_source s files;
  try (cbn; split; reflexivity);
  match goal with |- context [lex ?src] => destruct (lex src) as [ts|es|] end;
  try (cbn; split; reflexivity);
  (destruct (parse_tokens ts); try (cbn; split; reflexivity));
  (destruct chk; [cbn; split; reflexivity|]);
  match goal with |- context [block_top ?a ?b ?c] => destruct (block_top a b c) end; cbn; split; reflexivity.
Qed.

(** a lexical or syntactic error: non-zero status, nothing on standard output, diagnostics on standard error *)
Theorem C12_front_end_error : forall s d chk files stdin0 orc0 src dir input,
  (match s with
   | SrcFile p => match find (fun e => text_eqb (fst e) p) files with Some e => Some (snd e, dirname p, stdin0) | None => None end
   | SrcEval code => Some (code, [], stdin0)
   | SrcStdin => Some (stdin0, [], [])
   end) = Some (src, dir, input) ->
  checks_ok src = false ->
  cli_run (mkConfig s d chk) files stdin0 orc0 = mkCli 1 [] true.
Proof.
  intros s d chk files stdin0 orc0 src dir input Hs Hc. unfold cli_run. cbn [c_src c_check c_debug].
  rewrite Hs. unfold checks_ok in Hc.
  destruct (lex src) as [ts|es|]; try reflexivity.
  destruct (parse_tokens ts); try reflexivity; discriminate.
Qed.

(** the same source gives the same status and output as a file, with -e, or on standard input
    (for a program that reads no input: empty stdin; no user modules: same directory) *)
Theorem C12_mode_equivalence : forall src d chk files orc0 p,
  find (fun e => text_eqb (fst e) p) files = Some (p, src) -> dirname p = [] ->
  let rf := cli_run (mkConfig (SrcFile p) d chk) files [] orc0 in
  let re := cli_run (mkConfig (SrcEval src) d chk) files [] orc0 in
  let rs := cli_run (mkConfig SrcStdin d chk) files src orc0 in
  rf = re /\ re = rs.
Proof.
  intros src d chk files orc0 p Hf Hd. unfold cli_run. cbn [c_src c_check c_debug]. rewrite Hf. cbn [snd]. rewrite Hd. split; reflexivity.
Qed.

(** the tool is a function of its inputs: the same invocation gives the same result on every run
    (RANDOM / TIME are inputs here: the oracle) *)
Theorem C12_deterministic : forall cfg files stdin0 orc0 r1 r2,
  r1 = cli_run cfg files stdin0 orc0 -> r2 = cli_run cfg files stdin0 orc0 -> r1 = r2.
Proof. intros; subst; reflexivity. Qed.
