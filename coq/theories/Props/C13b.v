(** C13 (user modules) — IMPORT MOD "file.ap": the module runs once, in a fresh interpreter state that
    shares only the heap, the output, the input and the oracles with the importer; exactly the table of
    its exported procedures is merged into the importer's procedures; and the exported table of a run
    that started with no exports contains only procedures declared with EXPORT in the program text. *)
From Aplang Require Import Base FloatX Token Ast Tables Value LexImpl ParseImpl EvalImpl EvalSpec ImportUserProofs.
From Aplang.Gen Require Import Generated.

(** [name] is declared with EXPORT somewhere in the statement / program *)
Fixpoint C13_exported_in (s : stmt) (name : text) : Prop :=
  match s with
  | SProc n true _ b => n = name \/ C13_exported_in b name
  | SProc _ false _ b => C13_exported_in b name
  | SIf _ t e => C13_exported_in t name \/ match e with Some x => C13_exported_in x name | None => False end
  | SRepeatTimes _ _ b | SRepeatUntil _ b | SForEach _ _ _ _ b => C13_exported_in b name
  | SBlock ss => (fix any (l : list stmt) : Prop := match l with [] => False | x :: r => C13_exported_in x name \/ any r end) ss
  | _ => False
  end.

Theorem C13_import_user_exact : forall f modname mtok st src ts prog ms1,
  existsb (fun m => text_eqb (string_bytes m) modname) module_registry = false ->
  has_ap_extension (path_join (path st) modname) = true ->
  find (fun e => text_eqb (fst e) (path_join (path st) modname)) (o_files (orc st)) = Some (path_join (path st) modname, src) ->
  lex src = LexOk ts -> parse_tokens ts = ParseOk prog ->
  block_top (exec f) prog (fresh_state (heap st) (out st) (stdin_ st) (orc st) (dirname (path_join (path st) modname))) = ROk tt ms1 ->
  exists st', exec (S f) (SImport modname mtok None) st = ROk tt st' /\
    funcs st' = ft_extend (funcs st) (exports ms1) /\
    heap st' = heap ms1 /\ out st' = out ms1 /\ stdin_ st' = stdin_ ms1 /\ orc st' = orc ms1 /\
    venv st' = venv st /\ exports st' = exports st /\ retv st' = retv st /\ loops st' = loops st /\ path st' = path st.
Proof. exact import_user_exact. Qed.

(** only EXPORT procedures reach the exported table: for a run that starts with an empty exported table
    (as a module's run does), every exported name is declared with EXPORT in the program text or was
    exported by a module that the program itself imported — never a plain PROCEDURE of the program *)
Theorem C13_exports_only_from_export : forall fuel prog st0 st1 name fnv,
  exports st0 = [] -> o_files (orc st0) = [] ->
  Forall (fun p => match snd p with FNative _ _ _ => True | FUser _ _ => False end) (funcs st0) ->
  block_top (exec fuel) prog st0 = ROk tt st1 ->
  ft_get (exports st1) name = Some fnv ->
  exists s, In s prog /\ C13_exported_in s name.
Proof. exact exports_only_from_export. Qed.

(** a module's failure while it runs is the importer's failure: same error class and label, nothing imported *)
Theorem C13_import_user_error : forall f modname mtok only st src ts prog k sp ms1,
  existsb (fun m => text_eqb (string_bytes m) modname) module_registry = false ->
  has_ap_extension (path_join (path st) modname) = true ->
  find (fun e => text_eqb (fst e) (path_join (path st) modname)) (o_files (orc st)) = Some (path_join (path st) modname, src) ->
  lex src = LexOk ts -> parse_tokens ts = ParseOk prog ->
  block_top (exec f) prog (fresh_state (heap st) (out st) (stdin_ st) (orc st) (dirname (path_join (path st) modname))) = RErr k sp ms1 ->
  exec (S f) (SImport modname mtok only) st = RErr k sp ms1.
Proof. exact import_user_error. Qed.
