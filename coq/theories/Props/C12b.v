(** C12 (layout) — the command-line contract is blind to layout, comments and keyword case: two sources
    whose token sequences have the same views give the same exit status, standard output and
    standard-error emptiness in every configuration. *)
From Aplang Require Import Base FloatX Token Ast Tables Value LexImpl ParseImpl EvalImpl Layout Driver CliLayout.

Theorem C12_layout_invariant : forall s1 s2 ts1 ts2 d c files stdin0 orc0,
  lex s1 = LexOk ts1 -> lex s2 = LexOk ts2 -> same_views ts1 ts2 ->
  cli_run (mkConfig (SrcEval s1) d c) files stdin0 orc0 = cli_run (mkConfig (SrcEval s2) d c) files stdin0 orc0.
Proof. exact cli_layout_invariant. Qed.
