(** C10 — any valid program ends normally or with a runtime diagnostic, never a crash.
    No panic site of the evaluator / library model is reachable from a well-formed program. *)
From Aplang Require Import Base FloatX Token Ast Tables Robot RobotProofs Value StrLib LexImpl ParseImpl EvalImpl EvalSpec
                           ParseSpec ParseProofs NoPanic.
From Aplang.Gen Require Import Generated.

(** heap typing: every address a value mentions holds a cell of the right kind *)
Definition C10_value_ok (h : heap_t) (v : value) : Prop :=
  match v with
  | VList a => exists l, nth_error h a = Some (CList l)
  | VObj a => (exists m, nth_error h a = Some (CMap m)) \/ (exists r, nth_error h a = Some (CRobot r))
  | _ => True
  end.

Definition C10_heap_ok (h : heap_t) : Prop :=
  forall a c, nth_error h a = Some c ->
    match c with
    | CList l => Forall (C10_value_ok h) l
    | CMap m => Forall (fun kv => C10_value_ok h (fst kv) /\ C10_value_ok h (snd kv)) m
    | CRobot r => RobotProofs.Inv r
    end.

(** every call node carries one argument range per argument (what the parser builds) *)
Fixpoint C10_expr_ok (e : expr) : Prop :=
  match e with
  | EGroup e1 | EUn _ _ e1 | EAssign _ _ _ e1 => C10_expr_ok e1
  | EBin _ _ l r | ELog _ _ l r | EAccess _ _ _ l r => C10_expr_ok l /\ C10_expr_ok r
  | ESet _ _ _ _ l i v => C10_expr_ok l /\ C10_expr_ok i /\ C10_expr_ok v
  | ECall _ _ _ _ spans args =>
    length spans = length args /\
    (fix all (l : list expr) : Prop := match l with [] => True | x :: r => C10_expr_ok x /\ all r end) args
  | EList _ _ items =>
    (fix all (l : list expr) : Prop := match l with [] => True | x :: r => C10_expr_ok x /\ all r end) items
  | _ => True
  end.

Fixpoint C10_stmt_ok (s : stmt) : Prop :=
  match s with
  | SExpr e => C10_expr_ok e
  | SIf c t e => C10_expr_ok c /\ C10_stmt_ok t /\ match e with Some x => C10_stmt_ok x | None => True end
  | SRepeatTimes _ n b => C10_expr_ok n /\ C10_stmt_ok b
  | SRepeatUntil c b => C10_expr_ok c /\ C10_stmt_ok b
  | SForEach _ _ _ l b => C10_expr_ok l /\ C10_stmt_ok b
  | SProc _ _ _ b => C10_stmt_ok b
  | SBlock ss => (fix all (l : list stmt) : Prop := match l with [] => True | x :: r => C10_stmt_ok x /\ all r end) ss
  | SReturn (Some e) => C10_expr_ok e
  | _ => True
  end.

Definition C10_prog_ok (p : list stmt) : Prop := wf_prog p /\ Forall C10_stmt_ok p.

Definition C10_fn_ok (f : fn) : Prop :=
  match f with
  | FUser params body => wf_stmt true false body /\ (length params <= 255)%nat /\ C10_stmt_ok body
  | FNative m n sig => In (m, n, sig) std_sigs
  end.

Definition C10_start_ok (st : state) : Prop :=
  (exists s, venv st = [s] /\ Forall (fun p => C10_value_ok (heap st) (snd p)) s) /\
  retv st = None /\ loops st = [] /\ C10_heap_ok (heap st) /\
  Forall (fun p => C10_fn_ok (snd p)) (funcs st) /\ Forall (fun p => C10_fn_ok (snd p)) (exports st).

(** the theorem: from a start state, a well-formed program never reaches a panic site, for every fuel
    (what the parser accepts is well formed: C09_parse_wf and [parse_calls_ok]) *)
Theorem C10_run_no_panic : forall fuel prog st0, C10_prog_ok prog -> C10_start_ok st0 ->
  forall site st, run_impl fuel prog st0 <> RPanic site st.
Proof. exact (run_no_panic_gen parse_prog_ok). Qed.

(** the state a run starts from qualifies *)
Theorem C10_fresh_state_ok : forall o i orc0 d, C10_start_ok (fresh_state [] o i orc0 d).
Proof. exact fresh_state_ok. Qed.

(** what the parser accepts qualifies *)
Theorem C10_parse_prog_ok : forall ts p, parse_tokens ts = ParseOk p -> C10_prog_ok p.
Proof. exact parse_prog_ok. Qed.

(** every library procedure of the regenerated signature table is total: whatever the arguments
    the body answers without reaching a panic site *)
Theorem C10_lib_total : forall m name sig args spans st,
  In (m, name, sig) std_sigs ->
  length args = length sig -> length spans = length args -> C10_heap_ok (heap st) -> Forall (C10_value_ok (heap st)) args ->
  forall site st', native_call m name sig args spans st <> RPanic site st'.
Proof. exact lib_total. Qed.

(** the robot terminates the program only through a blocked MOVE_FORWARD *)
Theorem C10_exit_only_from_move : forall m name sig args spans st st',
  native_call m name sig args spans st = RExit st' ->
  m = "ROBOT"%string /\ (name = "MOVE_FORWARD"%string \/ name = "MOVE_FOWARD"%string).
Proof. exact exit_only_from_move. Qed.
