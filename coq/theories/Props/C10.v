(** C10 — any valid program ends normally or with a runtime diagnostic, never a crash.
    No panic site of the evaluator / library model is reachable from a well-formed program. *)
From Aplang Require Import Base FloatX Token Ast Tables Robot Value EvalImpl EvalSpec ParseSpec NoPanic.

(** heap typing: every address a value mentions holds a cell of the right kind, robots are inside
    their grid (RobotProofs.Inv), at every place a value can live *)
Definition C10_value_ok (h : heap_t) (v : value) : Prop :=
  match v with
  | VList a => exists l, nth_error h a = Some (CList l)
  | VObj a => (exists m, nth_error h a = Some (CMap m)) \/ (exists r, nth_error h a = Some (CRobot r))
  | _ => True
  end.

Theorem C10_run_no_panic : forall fuel prog st0, wf_prog prog -> C10_start_ok st0 ->
  forall site st, run_impl fuel prog st0 <> RPanic site st.
Proof. exact run_no_panic. Qed.

(** the state a run starts from qualifies *)
Theorem C10_fresh_state_ok : forall o i orc0 d, C10_start_ok (fresh_state [] o i orc0 d).
Proof. exact fresh_state_ok. Qed.

(** every library procedure of the regenerated signature table is total: whatever the arguments
    (after the cast prologue accepted them) the body answers without reaching a panic site *)
Theorem C10_lib_total : forall m name sig args spans st,
  In (m, name, sig) Generated.std_sigs -> m <> "FS"%string ->
  length args = length sig -> length spans = length args -> C10_heap_ok st -> Forall (C10_value_ok (heap st)) args ->
  forall site st', native_call m name sig args spans st <> RPanic site st'.
Proof. exact lib_total. Qed.

(** the robot terminates the program only through a blocked MOVE_FORWARD *)
Theorem C10_exit_only_from_move : forall m name sig args spans st st',
  native_call m name sig args spans st = RExit st' ->
  m = "ROBOT"%string /\ (name = "MOVE_FORWARD"%string \/ name = "MOVE_FOWARD"%string).
Proof. exact exit_only_from_move. Qed.
