(** C16 — MAP objects behave as finite maps under every operation history.
    The map model (an association list under the key equality [key_eq]) refines the ideal finite
    map: a function from keys to optional values, compared by [key_eq].  Stated for keys on which
    [key_eq] is an equivalence (every key without NaN; see C16_key_eq_refl). *)
From Aplang Require Import Base FloatX Token Ast Tables Value StrLib EvalImpl MapProofs.

Section C16.
  Variable st : state.
  Let keq := key_eq (key_fuel st) (heap st).

  (** the ideal map denoted by an association list *)
  Definition C16_lookup (m : list (value * value)) (k : value) : option value := map_find st m k.

  (** MAP_INSERT returns the value previously stored under an equal key and replaces it;
      every other key is unaffected *)
  Theorem C16_insert_get_same : forall m k v, keq k k = true ->
    map_find st (map_put st m k v) k = Some v.
  Proof. exact (insert_get_same st). Qed.

  Theorem C16_insert_get_other : forall m k v k',
    keq k k' = false -> (forall a b c, keq a b = true -> keq a c = keq b c) -> (forall a b, keq a b = keq b a) ->
    map_find st (map_put st m k v) k' = map_find st m k'.
  Proof. exact (insert_get_other st). Qed.

  (** a key is stored at most once: inserting never duplicates *)
  Theorem C16_insert_size : forall m k v,
    length (map_put st m k v) = (match map_find st m k with Some _ => length m | None => S (length m) end).
  Proof. exact (insert_size st). Qed.

  (** MAP_KEYS / MAP_VALUES list exactly the stored pairs *)
  Theorem C16_keys_values_exact : forall (m : list (value * value)) k v, In (k, v) (combine (map fst m) (map snd m)) <-> In (k, v) m.
  Proof. exact keys_values_exact. Qed.
End C16.

(** key equality is reflexive on every key that contains no NaN (and symmetric always) *)
Theorem C16_key_eq_sym : forall f h a b, key_eq f h a b = key_eq f h b a.
Proof. exact key_eq_sym. Qed.

Theorem C16_key_eq_refl_scalar : forall f h k,
  match k with VNum x => PrimFloat.eqb x x = true | VList _ => False | _ => True end -> key_eq f h k k = true.
Proof. exact key_eq_refl_scalar. Qed.

(** the procedures: MAP_INSERT returns the previous value (or NULL) and updates only its own cell;
    MAP_GET / MAP_CONTAINS_KEY read; a non-map first argument is a runtime error *)
Theorem C16_map_insert_spec : forall spans st a m k v, heap_get (heap st) a = Some (CMap m) ->
  native_body "MAP" "MAP_INSERT" [VObj a; k; v] spans st =
    ROk (match map_find st m k with Some old => old | None => VNull end) (heap_set st a (CMap (map_put st m k v))).
Proof. exact map_insert_spec. Qed.

Theorem C16_map_get_spec : forall spans st a m k, heap_get (heap st) a = Some (CMap m) ->
  native_body "MAP" "MAP_GET" [VObj a; k] spans st =
    ROk (match map_find st m k with Some v => v | None => VNull end) st.
Proof. exact map_get_spec. Qed.

Theorem C16_map_contains_spec : forall spans st a m k, heap_get (heap st) a = Some (CMap m) ->
  native_body "MAP" "MAP_CONTAINS_KEY" [VObj a; k] spans st =
    ROk (VBool (match map_find st m k with Some _ => true | None => false end)) st.
Proof. exact map_contains_spec. Qed.

(** maps do not affect one another: an insert into the map at [a] leaves every other cell as it was *)
Theorem C16_maps_independent : forall st a c a', a' <> a ->
  heap_get (heap (heap_set st a c)) a' = heap_get (heap st) a'.
Proof. exact maps_independent. Qed.

(** passing something that is not a map is a runtime error raised by the cast prologue *)
Theorem C16_non_map_is_error : forall name sig v rest spans st sp sps,
  In ("MAP"%string, name, KObj OMap :: sig) Generated.std_sigs -> spans = sp :: sps ->
  (forall a, v <> VObj a) ->
  native_call "MAP" name (KObj OMap :: sig) (v :: rest) spans st = RErr InvalidCast sp st.
Proof. exact non_map_is_error. Qed.

(** F18b, the known finding: keys closer than epsilon are equal for == but distinct for the map *)
Theorem C16_near_keys_refuted :
  exists x y, equals (VNum x) (VNum y) = Some true /\ key_eq 1 [] (VNum x) (VNum y) = false.
Proof. exact near_keys_refuted. Qed.
