(** C18 — all user-visible output goes through the single output channel of the build.
    Source-level part: the inventory of every output statement of src/ (both cfg configurations),
    regenerated on every run, contains no direct write to a process stream outside the front end
    (main.rs, splash.rs), the channel's own definition (output.rs) and the verification hook.
    Dynamic part (correspondence): bytes captured by the channel sink equal the model's output and
    nothing reaches the real standard output. *)
From Aplang Require Import Base Token Ast Tables.
From Aplang.Gen Require Import Generated.
Open Scope string_scope.

Definition C18_front_end_file (f : string) : bool :=
  String.eqb f "main.rs" || String.eqb f "splash.rs" || String.eqb f "output.rs" || String.eqb f "verif.rs".

Definition C18_channel_macro (m : string) : bool := String.eqb m "display!" || String.eqb m "display_error!".

(* io::stdout().flush() inside input(): flushing the channel's own stream, not a write *)
Definition C18_flush_site (s : string * string * string * bool) : bool :=
  let '(f, fn_, m, _) := s in String.eqb f "standard_library/io.rs" && String.eqb fn_ "input" && String.eqb m "io::stdout()".

Definition C18_allowed (s : string * string * string * bool) : bool :=
  let '(f, fn_, m, test) := s in
  test || C18_front_end_file f || C18_channel_macro m || C18_flush_site s.

Theorem C18_no_direct_output_outside_front_end : forall s, In s output_sites -> C18_allowed s = true.
Proof.
  assert (H : forallb C18_allowed output_sites = true) by (vm_compute; reflexivity).
  intros s Hin. rewrite forallb_forall in H. exact (H s Hin).
Qed.

(** the lexer and the parser contain no output statement at all *)
Definition C18_in_dir (d f : string) : bool := String.prefix d f.

Theorem C18_lexer_parser_silent : forall f fn_ m t, In (f, fn_, m, t) output_sites ->
  t = false -> C18_in_dir "lexer/" f = false /\ C18_in_dir "parser/" f = false.
Proof.
  assert (H : forallb (fun s => let '(f, _, _, t) := s in t || (negb (C18_in_dir "lexer/" f) && negb (C18_in_dir "parser/" f))) output_sites = true)
    by (vm_compute; reflexivity).
  intros f fn_ m t Hin Ht. rewrite forallb_forall in H. specialize (H _ Hin). cbn beta iota in H. subst t.
  cbn [orb] in H. apply andb_true_iff in H as [H1 H2]. apply negb_true_iff in H1, H2. split; assumption.
Qed.

(** the inventory is not empty: the channel is used *)
Example C18_channel_is_used : exists f fn_, In (f, fn_, "display!", false) output_sites.
Proof. exists "standard_library/mod.rs", "DISPLAY". vm_compute. tauto. Qed.
