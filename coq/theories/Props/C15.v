(** C15 — MATH procedures, number text round-trips and RANDOM's range.
    The regenerated MATH table is the documented one; the exactly defined functions have their
    IEEE meaning on the spec_float view; the number printer's output is inside the rounding
    interval of its argument by construction; RANDOM stays in range for every draw. *)
From Aplang Require Import Base FloatX Token Ast Tables Value StrLib EvalImpl MathProofs.
From Aplang.Gen Require Import Generated.
Open Scope string_scope.

(** each MATH procedure names the documented function with the documented argument order *)
Definition C15_reference_math : list (string * mathfn * list nat) :=
  [("SIN", MFn "sin", [0]); ("COS", MFn "cos", [0]); ("TAN", MFn "tan", [0]); ("ASIN", MFn "asin", [0]);
   ("ACOS", MFn "acos", [0]); ("ATAN", MFn "atan", [0]); ("ATAN2", MFn "atan2", [0; 1]); ("SINH", MFn "sinh", [0]);
   ("COSH", MFn "cosh", [0]); ("TANH", MFn "tanh", [0]); ("ASINH", MFn "asinh", [0]); ("ACOSH", MFn "acosh", [0]);
   ("ATANH", MFn "atanh", [0]); ("EXP", MFn "exp", [0]); ("LOG", MFn "log", [0; 1]); ("LOG10", MFn "log10", [0]);
   ("LOG2", MFn "log2", [0]); ("ROUND", MFn "round", [0]); ("FLOOR", MFn "floor", [0]); ("CEIL", MFn "ceil", [0]);
   ("INT", MFn "trunc", [0]); ("CLAMP", MClamp, [0; 1; 2]); ("PI", MConst "PI", []); ("E", MConst "E", []);
   ("TAU", MConst "TAU", [])]%nat.

Theorem C15_math_table_is_reference : forall name,
  find (fun e => String.eqb (fst (fst e)) name) math_bodies = find (fun e => String.eqb (fst (fst e)) name) C15_reference_math.
Proof. exact math_table_is_reference. Qed.

(** FLOOR / CEIL / INT / ROUND on the spec_float view: the result of a finite argument is never NaN
    and is integer valued: its exponent is non-negative or [2 ^ (- e')] divides its mantissa (floats
    stay canonical, so e.g. FLOOR 1.5 = 2^52 * 2^-52 has a negative exponent:
    [MathProofs.round_int_exponent_can_be_negative]) *)
Theorem C15_round_int_integral : forall mode x s m e,
  sf x = SpecFloat.S754_finite s m e ->
  match sf_round_int mode (sf x) with
  | SpecFloat.S754_finite _ m' e' => (0 <= e')%Z \/ (Zpos m' mod 2 ^ (- e') = 0)%Z
  | SpecFloat.S754_zero _ => True
  | SpecFloat.S754_infinity _ => True
  | SpecFloat.S754_nan => False
  end.
Proof. exact round_int_integral. Qed.

Theorem C15_round_int_specials : forall mode x,
  match sf x with SpecFloat.S754_finite _ _ _ => True | other => sf_round_int mode other = other end.
Proof. exact round_int_specials. Qed.

(** the number printer: non-finite values print as Rust prints them; a finite value prints digits d
    and an exponent p that lie inside its rounding interval (so the text reads back as the same
    double under round-to-nearest), by construction of the search *)
Theorem C15_show_specials :
  show_sf SpecFloat.S754_nan = [78; 97; 78]%N /\
  show_sf (SpecFloat.S754_infinity false) = [105; 110; 102]%N /\
  show_sf (SpecFloat.S754_infinity true) = [45; 105; 110; 102]%N /\
  show_sf (SpecFloat.S754_zero false) = [48]%N /\ show_sf (SpecFloat.S754_zero true) = [45; 48]%N.
Proof. exact show_specials. Qed.

Theorem C15_search_in_interval : forall m e fuel n k d p,
  search m e fuel n k = Some (d, p) -> in_interval m e d p = true.
Proof. exact search_in_interval. Qed.

(** integers below 2^53 print without a decimal point, exactly (spot-checked classes are in the
    correspondence; this is the layout law) *)
Theorem C15_layout_integer : forall d p, (0 <= p)%Z -> (0 < d)%Z ->
  layout d p = (dec (Z.to_N d) ++ zeros p)%list.
Proof. exact layout_integer. Qed.

(** RANDOM(a, b): for every draw of the oracle the result n satisfies a <= n <= b, and both ends
    are reachable *)
Theorem C15_random_in_range : forall lo hi d, (lo <= hi)%Z ->
  (lo <= lo + Z.of_N d mod (hi - lo + 1) <= hi)%Z.
Proof. exact random_in_range. Qed.

Theorem C15_random_reaches_both_ends : forall lo hi, (lo <= hi)%Z ->
  (exists d, lo + Z.of_N d mod (hi - lo + 1) = lo)%Z /\ (exists d, lo + Z.of_N d mod (hi - lo + 1) = hi)%Z.
Proof. exact random_reaches_both_ends. Qed.

(** TO_NUMBER accepts the printer's output shape: digits with an optional fraction (spot: model evaluation) *)
Example C15_roundtrip_examples :
  map (fun x => match parse_f64 (show_float x) with Some y => PrimFloat.eqb x y | None => false end)
      [0.1; 0.30000000000000004; 1e21; 5e-324; 1.7976931348623157e308; 123456.789; 2.2250738585072014e-308]%float
  = [true; true; true; true; true; true; true].
Proof. exact roundtrip_examples. Qed.
