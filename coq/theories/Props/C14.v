(** C14 — STRING library procedures agree with their string-operation models.
    Strings are code-point lists; each procedure's model (StrLib.v) is shown to be the
    corresponding list-theoretic operation.  Unicode white space and case mapping are tables. *)
From Aplang Require Import Base FloatX Token Ast Tables Value StrLib EvalImpl StrProofs.

(** JOIN(SPLIT(s, p), p) = s for every non-empty p *)
Theorem C14_join_split : forall s p, p <> [] -> join_with p (split s p) = s.
Proof. exact join_split. Qed.

(** no piece of a split contains the pattern at a position where the scan could have cut ... *)
Theorem C14_split_pieces_count : forall s p, p <> [] -> (1 <= length (split s p))%nat.
Proof. exact split_pieces_count. Qed.

(** ... and the empty pattern yields "", every character, "" (Rust's str::split("")) *)
Theorem C14_split_empty_pattern : forall s, split s [] = [[]] ++ map (fun c => [c]) s ++ [[]].
Proof. exact split_empty_pattern. Qed.

(** CONTAINS / STARTS_WITH / ENDS_WITH against their list-theoretic definitions *)
Theorem C14_contains_spec : forall s p, contains_b s p = true <-> exists a b, s = a ++ p ++ b.
Proof. exact contains_spec. Qed.

Theorem C14_starts_with_spec : forall s p, prefix_b p s = true <-> exists b, s = p ++ b.
Proof. exact starts_with_spec. Qed.

Theorem C14_ends_with_spec : forall s p, ends_with_b s p = true <-> exists a, s = a ++ p.
Proof. exact ends_with_spec. Qed.

(** REPLACE: the pieces between the occurrences of [from], joined by [to] *)
Theorem C14_replace_spec : forall s from to, from <> [] -> replace s from to = join_with to (split s from).
Proof. exact replace_spec. Qed.

Theorem C14_replace_identity : forall s from, from <> [] -> replace s from from = s.
Proof. exact replace_identity. Qed.

(** SUBSTRING(s, start, n): the n characters from 1-based position start, clipped at the end *)
Theorem C14_substring_spec : forall s start len, (1 <= start)%N ->
  substring s start len =
    firstn (N.to_nat (N.min len (N.of_nat (length s)))) (skipn (N.to_nat (N.min (start - 1) (N.of_nat (length s)))) s).
Proof. exact substring_spec. Qed.

Theorem C14_substring_is_slice : forall a b c, 
  substring (a ++ b ++ c) (N.of_nat (length a) + 1) (N.of_nat (length b)) = b.
Proof. exact substring_is_slice. Qed.

Theorem C14_substring_clipped : forall s start len, (1 <= start)%N -> (length (substring s start len) <= length s)%nat.
Proof. exact substring_clipped. Qed.

(** TRIM removes exactly the leading and trailing white space *)
Theorem C14_trim_spec : forall s, exists l r,
  s = l ++ trim s ++ r /\ forallb is_ws l = true /\ forallb is_ws r = true /\
  (match trim s with [] => True | c :: _ => is_ws c = false end) /\
  (match rev (trim s) with [] => True | c :: _ => is_ws c = false end).
Proof. exact trim_spec. Qed.

(** TO_UPPER / TO_LOWER map character by character (ASCII exactly as Unicode does) *)
Theorem C14_to_upper_ascii : forall s, forallb (fun c => c <? 128)%N s = true -> to_upper s = map ascii_upper_c s.
Proof. exact to_upper_ascii. Qed.

Theorem C14_to_lower_ascii : forall s, forallb (fun c => c <? 128)%N s = true -> to_lower s = map ascii_lower s.
Proof. exact to_lower_ascii. Qed.

(** TO_BOOL accepts exactly "true" and "false" *)
Theorem C14_parse_bool_spec : forall s b, parse_bool s = Some b <-> s = (if b then t_true else t_false).
Proof. exact parse_bool_spec. Qed.

(** TO_CHAR_ARRAY, LENGTH, FOR EACH and indexing agree on character positions:
    a string of n characters has exactly the valid indices 1..n *)
Theorem C14_positions_consistent : forall (s : text) k,
  (exists c, nth_N s k = Some c) <-> (k < N.of_nat (length s))%N.
Proof. exact positions_consistent. Qed.

Theorem C14_char_array_length : forall (s : text), length (map (fun c => VStr [c]) s) = length s.
Proof. exact char_array_length. Qed.
