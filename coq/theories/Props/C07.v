(** C07 — tokenisation is correct and spans are exact for every source string.
    Property theorems only; every proof is [exact <lemma of LexProofs>].
    [a] stands for char::is_alphanumeric (any classification that agrees with ASCII). *)
From Aplang Require Import Base FloatX Token LexImpl LexSpec LexProofs.
From Aplang.Gen Require Import Generated.

(** the classification agrees with ASCII: letters and digits are alphanumeric, nothing else below 128 is *)
Definition C07_ascii_ok (a : N -> bool) : Prop :=
  forall c, (c < 128)%N -> a c = (ascii_digit c || ascii_alpha c).

(** the tables regenerated from the source are the reference tables *)
Theorem C07_keywords_are_reference : forall w, assoc_text w keywords = assoc_text w ref_keywords.
Proof. exact keywords_are_reference. Qed.

Theorem C07_single_char_tokens_are_reference : forall c, assoc_N c single_char_tokens = assoc_N c ref_single.
Proof. exact single_are_reference. Qed.

Theorem C07_escapes_are_reference : forall c, assoc_N c escapes = assoc_N c ref_escapes.
Proof. exact escapes_are_reference. Qed.

Theorem C07_end_set_is_reference : forall k, tk_in k end_set = tk_in k ref_end_set.
Proof. exact end_set_is_reference. Qed.

Theorem C07_blanks_are_reference : forall c, existsb (N.eqb c) blank_chars = existsb (N.eqb c) ref_blanks.
Proof. exact blanks_are_reference. Qed.

(** every keyword spelling is made of ASCII letters, so the identifier rule reaches the table *)
Theorem C07_keywords_are_words : forall w k, In (w, k) keywords ->
  w <> [] /\ forallb ascii_alpha w = true.
Proof. exact keywords_are_words. Qed.

(** the scanner terminates: the fuel [length s] is never exhausted *)
Theorem C07_lex_fuel_enough : forall a s, lex_gen a s <> LexFuel.
Proof. exact lex_fuel_enough. Qed.

(** either a token sequence or at least one diagnostic *)
Theorem C07_lex_total : forall a s,
  (exists ts, lex_gen a s = LexOk ts) \/ (exists es, es <> [] /\ lex_gen a s = LexErr es).
Proof. exact lex_total. Qed.

(** success yields exactly the token sequence the lexical grammar defines ... *)
Theorem C07_lex_ok_iff_grammar : forall a, C07_ascii_ok a -> forall s ts, lex_gen a s = LexOk ts <-> Tokenises a s ts.
Proof. exact lex_ok_iff_grammar. Qed.

(** ... which is unique *)
Theorem C07_grammar_deterministic : forall a, C07_ascii_ok a -> forall s ts1 ts2, Tokenises a s ts1 -> Tokenises a s ts2 -> ts1 = ts2.
Proof. exact grammar_deterministic. Qed.

(** it fails exactly when the string contains a lexical error *)
Theorem C07_lex_err_iff : forall a, C07_ascii_ok a -> forall s, (exists es, lex_gen a s = LexErr es) <-> lexical_error a s = true.
Proof. exact lex_err_iff. Qed.

(** ranges: increasing, non-overlapping, on character boundaries, reproducing the token's
    text; exactly one end-of-input marker, last, empty, inside the source *)
Theorem C07_lex_spans : forall a s ts, lex_gen a s = LexOk ts -> spans_ok s ts.
Proof. exact lex_spans. Qed.

(** literal values: a number is [literal_float] of its digits (the correctly rounded decimal
    conversion of FloatX), a string is the unescaped text between its quotes *)
Theorem C07_lex_literals : forall a, C07_ascii_ok a -> forall s ts t, lex_gen a s = LexOk ts -> In t ts ->
  match tkind t with
  | TNumber => exists ds fs, forallb is_digit ds = true /\ forallb is_digit fs = true /\ ds <> [] /\
                tlex t = ds ++ (match fs with [] => [] | _ => 46%N :: fs end) /\ tlit t = LNum (literal_float ds fs)
  | TStringLiteral => exists body v, tlex t = 34%N :: body ++ [34%N] /\ unescape body = Some v /\ tlit t = LStr v
  | _ => tlit t = LNone
  end.
Proof. exact lex_literals. Qed.

(** every label of every lexical diagnostic lies inside the source on character boundaries (C11, C08) *)
Theorem C07_lex_labels_ok : forall a s es e l,
  lex_gen a s = LexErr es -> In e es -> In l (elabels e) -> label_ok s l.
Proof. exact lex_labels_ok. Qed.

(** non-vacuity *)
Example C07_example : exists ts, lex (txt "x <- ""é"" + 1.5"%string) = LexOk ts /\ length ts = 6%nat.
Proof. exact lex_example. Qed.

Example C07_uni_alnum_ascii_ok : C07_ascii_ok uni_alnum.
Proof. exact uni_alnum_ascii_ok. Qed.
