(** C08 — lexing and parsing terminate without crashing on any input; parsing yields a tree
    or a non-empty list of diagnostics; error recovery always consumes input.
    (Rendering of diagnostics and the native stack are outside the model: see DESIGN.md.) *)
From Aplang Require Import Base FloatX Token Ast LexImpl LexSpec LexProofs ParseImpl ParseSpec ParseProofs.

(** the scanner never runs out of fuel and always answers (C07_lex_total restated) *)
Theorem C08_lex_total : forall a s,
  (exists ts, lex_gen a s = LexOk ts) \/ (exists es, es <> [] /\ lex_gen a s = LexErr es).
Proof. exact lex_total. Qed.

(** what the scanner hands to the parser is well shaped *)
Theorem C08_lex_output_shaped : forall a s ts, lex_gen a s = LexOk ts -> shaped ts.
Proof. exact lex_output_shaped. Qed.

(** none of the parser's panic sites (peek on an exhausted cursor, previous() at the start,
    a literal-less literal token) is reachable on a shaped token sequence *)
Theorem C08_parse_no_panic : forall ts, shaped ts -> forall site, parse_tokens ts <> ParsePanic site.
Proof. exact parse_no_panic. Qed.

(** the parser terminates: the fuel [fuel_for ts] (linear in the number of tokens) is never exhausted *)
Theorem C08_parse_fuel_enough : forall ts, shaped ts -> parse_tokens ts <> ParseFuel.
Proof. exact parse_fuel_enough. Qed.

(** a tree, or at least one diagnostic *)
Theorem C08_parse_result : forall ts, shaped ts ->
  (exists p, parse_tokens ts = ParseOk p) \/ (exists es, es <> [] /\ parse_tokens ts = ParseErr es).
Proof. exact parse_result. Qed.

(** error recovery consumes input: synchronize moves the cursor unless it is at the end *)
Theorem C08_synchronize_progress : forall st t r,
  rest st = t :: r -> tkind t <> TEof -> (length (rest (synchronize st)) < length (rest st))%nat.
Proof. exact synchronize_progress. Qed.

(** a successfully parsed declaration consumes at least one token, a failed one never moves backwards *)
Theorem C08_declaration_progress : forall f st,
  match p_declaration f st with
  | POk _ st' => (length (rest st') < length (rest st))%nat
  | PErr _ st' => (length (rest st') <= length (rest st))%nat
  | _ => True
  end.
Proof. exact declaration_progress. Qed.

(** the whole front end on any text *)
Theorem C08_front_end_total : forall a s,
  match lex_gen a s with
  | LexOk ts => (exists p, parse_tokens ts = ParseOk p) \/ (exists es, es <> [] /\ parse_tokens ts = ParseErr es)
  | LexErr es => es <> []
  | LexFuel => False
  end.
Proof. exact front_end_total. Qed.
