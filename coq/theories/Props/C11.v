(** C11 — diagnostics point into the source, at the construct that failed.
    Lexical labels: C07_lex_labels_ok.  Syntactic and runtime labels are token ranges or gaps between
    tokens of the scanned source; such ranges lie inside the source on character boundaries.
    (That a runtime label lies inside the extent of the failing construct is decided by the
    correspondence with recorded construct positions, DESIGN.md 3.11.) *)
From Aplang Require Import Base FloatX Token Ast Tables Value LexImpl LexSpec LexProofs ParseImpl ParseSpec EvalImpl EvalSpec SpanSpec SpanProofs.

(** token ranges and gaps between tokens lie inside the source, on character boundaries *)
Theorem C11_tok_label_ok : forall s ts l, spans_ok s ts -> tok_label ts l -> label_ok s l.
Proof. exact tok_label_ok. Qed.

(** every label of every syntactic diagnostic is such a range *)
Theorem C11_parse_error_labels : forall ts es e l,
  parse_tokens ts = ParseErr es -> In e es -> In l (pe_labels e) -> tok_label ts l.
Proof. exact parse_error_labels. Qed.

(** every range stored in an accepted syntax tree is such a range, and every stored bracket pair
    consists of two tokens in source order (so its interior is a gap between tokens) *)
Theorem C11_parse_ast_spans : forall ts p l, parse_tokens ts = ParseOk p -> In l (prog_spans p) -> tok_label ts l.
Proof. exact parse_ast_spans. Qed.

Theorem C11_parse_ast_pairs : forall ts p lb rb, parse_tokens ts = ParseOk p -> In (lb, rb) (prog_pairs p) ->
  tok_label ts (span_between lb rb).
Proof. exact parse_ast_pairs. Qed.

(** the label of a runtime diagnostic is a range stored in the program's tree or the interior of one of
    its bracket pairs (programs without user modules: a module's diagnostics refer to the module's text) *)
Theorem C11_runtime_label_from_tree : forall fuel prog st0 k sp st,
  o_files (orc st0) = [] -> Forall (fun p => match snd p with FNative _ _ _ => True | FUser _ _ => False end) (funcs st0) ->
  run_impl fuel prog st0 = RErr k sp st -> node_label prog sp.
Proof. exact runtime_label_from_tree. Qed.

(** end to end: source text -> tokens -> tree -> run: the label of any runtime diagnostic lies inside the source *)
Theorem C11_runtime_label_in_source : forall a s ts prog fuel st0 k sp st,
  lex_gen a s = LexOk ts -> parse_tokens ts = ParseOk prog ->
  o_files (orc st0) = [] -> Forall (fun p => match snd p with FNative _ _ _ => True | FUser _ _ => False end) (funcs st0) ->
  run_impl fuel prog st0 = RErr k sp st -> label_ok s sp.
Proof. exact runtime_label_in_source. Qed.

Theorem C11_parse_label_in_source : forall a s ts es e l,
  lex_gen a s = LexOk ts -> parse_tokens ts = ParseErr es -> In e es -> In l (pe_labels e) -> label_ok s l.
Proof. exact parse_label_in_source. Qed.
