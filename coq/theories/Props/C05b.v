(** C05 (round trip) — the parser inverts the documented grammar's printer: for every expression,
    printing it with only the parentheses the ladder requires, or with every compound sub-expression
    parenthesised, and parsing the tokens back yields the same tree up to the groups that were
    printed; groups are transparent to evaluation; hence both renderings behave identically. *)
From Aplang Require Import Base FloatX Token Ast Tables Value ParseImpl EvalImpl Printer RoundTrip EvalMono.

Definition C05_level_for (req : nat) : level :=
  match req with
  | 0 => LvAssignment | 1 => LvOr | 2 => LvAnd | 3 => LvEquality | 4 => LvComparison | 5 => LvAddition
  | 6 => LvMultiplication | 7 => LvUnary | 8 => LvAccess | _ => LvPrimary
  end%nat.

(** parse (print req e ++ rest) = expected req e, leaving exactly [rest], at every rung of the ladder,
    for minimal and for full parenthesisation, with enough fuel *)
Theorem C05_parse_print : forall full e req rest st,
  printable e -> stops rest -> (req <= 9)%nat -> ParseImpl.rest st = print full req e ++ rest ->
  exists fuel, forall f, (fuel <= f)%nat ->
    exists st', p_level f (C05_level_for req) st = POk (expected full req e) st' /\
                ParseImpl.rest st' = rest /\ in_fn st' = in_fn st /\ in_loop st' = in_loop st.
Proof. exact parse_print. Qed.

(** the tree parsed back differs from the printed one only by groups (and the dummy ranges) *)
Theorem C05_strip_expected : forall full req e, printable e -> strip (expected full req e) = strip e.
Proof. exact strip_expected. Qed.

(** explicit parentheses only group: removing every group does not change what evaluation does *)
Theorem C05_eval_ungroup : forall f e st r,
  eval f e st = r -> r <> RFuel -> eval f (ungroup e) st = r.
Proof. exact eval_ungroup. Qed.

(** more fuel never changes a finished evaluation *)
Theorem C05_eval_fuel_mono : forall f e st r, eval f e st = r -> r <> RFuel -> eval (S f) e st = r.
Proof. exact eval_fuel_mono. Qed.

(** AND chains: the parser's right-nesting and the documented left-nesting evaluate alike *)
Theorem C05_and_assoc_eval : forall f t1 t2 t3 t4 a b c st r,
  eval f (ELog LAnd t1 (ELog LAnd t2 a b) c) st = r -> r <> RFuel ->
  eval (S f) (ELog LAnd t3 a (ELog LAnd t4 b c)) st = r.
Proof. exact and_assoc_eval. Qed.

(** hence: the minimally and the fully parenthesised rendering of the same expression parse to trees
    that evaluate identically (same value, same state and output, same error) *)
Theorem C05_min_full_same_behaviour : forall e st0 rest,
  printable e -> stops rest -> ParseImpl.rest st0 = [] ->
  exists fuel tmin tfull,
    (exists s1, p_level fuel LvAssignment (mkP (print false 0 e ++ rest) (prevt st0) (in_fn st0) (in_loop st0)) = POk tmin s1) /\
    (exists s2, p_level fuel LvAssignment (mkP (print true 0 e ++ rest) (prevt st0) (in_fn st0) (in_loop st0)) = POk tfull s2) /\
    ungroup tmin = ungroup tfull.
Proof. exact min_full_same_behaviour. Qed.
