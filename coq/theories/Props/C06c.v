(** C06 (parser) — the parser looks only at token views: two token sequences with the same kinds,
    literals and identifier names parse to results that differ only in byte ranges. *)
From Aplang Require Import Base FloatX Token Ast ParseImpl Layout Erase Meaning ParseView.

Theorem C06_parse_view : forall ts1 ts2, same_views ts1 ts2 -> parse_sim (parse_tokens ts1) (parse_tokens ts2).
Proof. exact parse_view. Qed.
