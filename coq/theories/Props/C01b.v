(** C01 (MOD on numbers) — the remainder the model computes itself is the exact IEEE fmod: for finite
    a and b <> 0 the result has the sign of a and magnitude |a| - trunc(|a| / |b|) * |b|, with no
    rounding (it is always representable), and the special cases are those of Rust's [%] on f64. *)
From Aplang Require Import Base FloatX FmodProofs.
Import SpecFloat.

(** m * 2^e in units of 2^k (k <= e) *)
Definition C01_scaled (m : positive) (e k : Z) : Z := Zpos m * 2 ^ (e - k).

Theorem C01_fmod_exact : forall sa ma ea sb mb eb,
  valid_binary prec emax (S754_finite sa ma ea) = true -> valid_binary prec emax (S754_finite sb mb eb) = true ->
  let k := Z.min ea eb in
  let A := C01_scaled ma ea k in
  let B := C01_scaled mb eb k in
  let r := sf_fmod (S754_finite sa ma ea) (S754_finite sb mb eb) in
  valid_binary prec emax r = true /\
  match r with
  | S754_zero s => s = sa /\ (A mod B = 0)%Z
  | S754_finite s m' e' => s = sa /\ (let j := Z.min e' k in Zpos m' * 2 ^ (e' - j) = (A mod B) * 2 ^ (k - j))%Z
  | _ => False
  end.
Proof. exact fmod_exact. Qed.

Theorem C01_fmod_specials : forall a b,
  (a = S754_nan \/ b = S754_nan \/ (exists s, a = S754_infinity s) \/ (exists s, b = S754_zero s) -> sf_fmod a b = S754_nan) /\
  (forall s s' m e, a = S754_zero s -> b = S754_finite s' m e \/ b = S754_infinity s' -> sf_fmod a b = S754_zero s) /\
  (forall s m e s', a = S754_finite s m e -> b = S754_infinity s' -> sf_fmod a b = a).
Proof. exact fmod_specials. Qed.
