(** C10 (end to end) — for every source text: if it scans and parses, running it from the state a run
    starts from never reaches a panic site, for every fuel, every input, every oracle (libm table, draws,
    clock, host files) and every module directory; and scanning and parsing themselves never panic.
    Composition of C07/C08 (front end) and C10_run_no_panic. *)
From Aplang Require Import Base FloatX Token Ast Tables Value LexImpl ParseImpl EvalImpl EvalSpec PipelineProofs.

Theorem C10_pipeline_no_panic : forall a s,
  match lex_gen a s with
  | LexOk ts =>
    match parse_tokens ts with
    | ParseOk p => forall fuel o i orc0 d site st, run_impl fuel p (fresh_state [] o i orc0 d) <> RPanic site st
    | ParsePanic _ => False
    | _ => True
    end
  | _ => True
  end.
Proof. exact pipeline_no_panic. Qed.
