(** C01 — expressions evaluate to the value the semantics defines.
    The operator tables regenerated from Interpreter::binary / unary / equals / is_truthy are
    shown equal to the declarative reference tables; evaluation order, short-circuit and
    "output only grows" are theorems about the evaluator model. *)
From Aplang Require Import Base FloatX Token Ast Tables Value EvalImpl EvalSpec OpsSpec OpsProofs.
From Aplang.Gen Require Import Generated.

(** the generated arms of Interpreter::binary, applied first-match, are the reference table *)
Theorem C01_binop_is_reference : forall op tok a b st,
  apply_binop op tok a b st = spec_binop op tok a b st.
Proof. exact binop_is_reference. Qed.

Theorem C01_unop_is_reference : forall op tok v st, apply_unop op tok v st = spec_unop op tok v st.
Proof. exact unop_is_reference. Qed.

(** truthiness: exactly FALSE, 0 (either sign) and NULL are false *)
Theorem C01_truthy_spec : forall v,
  truthy v = Some (negb (match v with
                         | VBool b => negb b
                         | VNull => true
                         | VNum f => PrimFloat.eqb f 0
                         | _ => false end)).
Proof. exact truthy_is_reference. Qed.

(** equality: epsilon on numbers, same-type only *)
Theorem C01_equals_spec : forall a b, equals a b = Some (spec_equals a b).
Proof. exact equals_is_reference. Qed.

(** both operands of a binary operator are evaluated, exactly once, left then right, before the
    table is consulted *)
Theorem C01_binary_order : forall f op tok l r st,
  eval (S f) (EBin op tok l r) st =
    (let* a, st1 <- eval f l st; let* b, st2 <- eval f r st1; apply_binop op tok a b st2).
Proof. exact binary_order. Qed.

(** AND / OR short-circuit and yield the deciding operand; the right operand is not evaluated *)
Theorem C01_logical_short_circuit : forall f op tok l r st a st1 t,
  eval f l st = ROk a st1 -> truthy a = Some t ->
  (match op with LOr => t | LAnd => negb t end) = true ->
  eval (S f) (ELog op tok l r) st = ROk a st1.
Proof. exact logical_short_circuit. Qed.

Theorem C01_logical_otherwise_right : forall f op tok l r st a st1 t,
  eval f l st = ROk a st1 -> truthy a = Some t ->
  (match op with LOr => t | LAnd => negb t end) = false ->
  eval (S f) (ELog op tok l r) st = eval f r st1.
Proof. exact logical_otherwise_right. Qed.

(** division and MOD by zero (either sign) are errors at the operator, never a value *)
Theorem C01_div_mod_zero_is_error : forall op tok x y st,
  (op = BSlash \/ op = BModulo) -> PrimFloat.eqb y 0 = true ->
  apply_binop op tok (VNum x) (VNum y) st = RErr (if binop_eqb op BSlash then DivisionByZero else ModuloByZero) tok st.
Proof. exact div_mod_zero_is_error. Qed.

(** what was displayed stays displayed: every evaluation only appends to the output, also when
    it ends in an error *)
Definition C01_extends (st st' : state) : Prop := exists more, out st' = more ++ out st.

Theorem C01_output_only_grows_eval : forall f e st,
  match eval f e st with
  | ROk _ st' | RErr _ _ st' | RExit st' | RPanic _ st' => C01_extends st st'
  | RFuel => True
  end.
Proof. exact output_only_grows_eval. Qed.

Theorem C01_output_only_grows_exec : forall f s st,
  match exec f s st with
  | ROk _ st' | RErr _ _ st' | RExit st' | RPanic _ st' => C01_extends st st'
  | RFuel => True
  end.
Proof. exact output_only_grows_exec. Qed.
