(** C06 (evaluator) — byte ranges never influence a run: two programs with the same erasure show
    the same bytes and end the same way (same error class), from the same starting state, for
    every fuel. *)
From Aplang Require Import Base FloatX Token Ast Tables Value EvalImpl EvalSpec Erase Meaning SpanInvariant.

Theorem C06_eval_span_invariant : forall fuel p1 p2 st0, erase_prog p1 = erase_prog p2 ->
  observe_nospan (run_impl fuel p1 st0) = observe_nospan (run_impl fuel p2 st0).
Proof. exact eval_span_invariant. Qed.
