(** C05 — operator precedence and associativity match the documented grammar.
    (Table part: the ladder regenerated from parser.rs is the documented one; the behavioural
    part is decided by running the minimal and the full rendering of every tree, see DESIGN.md 3.5.) *)
From Aplang Require Import Base FloatX Token Ast Tables Value EvalImpl TableProofs.
From Aplang.Gen Require Import Generated.

Theorem C05_ladder_is_reference : ladder = reference_ladder.
Proof. exact ladder_is_reference. Qed.

Theorem C05_unary_is_reference :
  unary_ops = [TNot; TMinus] /\ unary_operand = LvUnary /\ unary_else = LvAccess /\
  unop_of_token = [(TMinus, UMinus); (TNot, UNot)].
Proof. exact unary_is_reference. Qed.

Theorem C05_entry_points_are_reference :
  expression_entry = LvAssignment /\ assignment_first = LvOr /\ assignment_value = LvAssignment /\ access_first = LvPrimary.
Proof. exact entry_points_are_reference. Qed.

Theorem C05_binop_of_token_is_reference : binop_of_token = reference_binop_of_token.
Proof. exact binop_of_token_is_reference. Qed.

(** explicit parentheses are transparent to evaluation: a group evaluates as its content *)
Theorem C05_group_transparent : forall f e st, eval (S f) (EGroup e) st = eval f e st.
Proof. reflexivity. Qed.
