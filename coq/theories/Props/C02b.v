(** C02 (loops, continued) — REPEAT n TIMES runs its body exactly floor(n) times; REPEAT UNTIL runs the
    body once more each time its condition is false; FOR EACH binds the loop variable to the elements in
    order, one iteration at a time, stops at the end of the list, and leaves an outer variable of the
    same name as it was.  Statements on the reference semantics; C02_refine carries them to the
    implementation model. *)
From Aplang Require Import Base FloatX Token Ast Tables Value EvalImpl EvalSpec LoopLemmas.
Import SpecFloat.

(** n iterations of a body that completes normally each time are n applications of its effect, in order *)
Theorem C02_times_runs_exactly : forall ex body (g : state -> state) n k st,
  (forall s, ex body s = ROk Normal (g s)) -> (N.to_nat n < k)%nat ->
  s_times ex k n body st = ROk Normal (Nat.iter (N.to_nat n) g st).
Proof. exact times_runs_exactly. Qed.

(** the count of REPEAT n TIMES is floor(n) for a finite non-negative n below 2^64 (m * 2^e, sign +) *)
Theorem C02_count_is_floor : forall x m e, sf x = S754_finite false m e ->
  (Zpos m * 2 ^ (Z.max e 0) / 2 ^ (Z.max (- e) 0) < 2 ^ 64)%Z ->
  Z.of_N (to_usize x) = (Zpos m * 2 ^ (Z.max e 0) / 2 ^ (Z.max (- e) 0))%Z.
Proof. exact count_is_floor. Qed.

(** REPEAT UNTIL: a false condition runs the body once, then the loop starts over (Break ends it, Return
    propagates) *)
Theorem C02_until_step : forall ev ex k c body st v st1 sg st2,
  ev c st = ROk v st1 -> truthy v = Some false -> ex body st1 = ROk sg st2 ->
  s_until ev ex (S k) c body st =
    match sg with
    | Break => ROk Normal st2
    | Return r => ROk (Return r) st2
    | _ => s_until ev ex k c body st2
    end.
Proof. exact until_step. Qed.

(** FOR EACH, one iteration: the i-th element (read when the iteration starts) is bound to the loop
    variable and the body runs; Break ends the loop, Return propagates, Continue goes on with the next
    position; a normally completed iteration writes the variable back into position i (if it still
    exists) and removes it from the scope before going on *)
Theorem C02_each_step : forall ex k a x i len body st l item,
  (i < len)%nat -> list_at (heap st) a = Some l -> nth_error l i = Some item ->
  s_each ex (S k) a x i len body st =
    (let st1 := with_scope st (scope_set (cur_scope st) x item) in
     match ex body st1 with
     | ROk Break st2 => ROk Normal st2
     | ROk (Return v) st2 => ROk (Return v) st2
     | ROk Continue st2 => s_each ex k a x (S i) len body st2
     | ROk Normal st2 =>
       match scope_get (cur_scope st2) x with
       | None => RPanic PanicForEachVar st2
       | Some v =>
         let st3 := with_scope st2 (scope_remove (cur_scope st2) x) in
         let st4 := match list_at (heap st3) a with
                    | Some l' => if Nat.ltb i (length l') then heap_set st3 a (CList (update_nth l' i v)) else st3
                    | None => st3
                    end in
         s_each ex k a x (S i) len body st4
       end
     | RErr kd sp st2 => RErr kd sp st2
     | RExit st2 => RExit st2
     | RPanic site st2 => RPanic site st2
     | RFuel => RFuel
     end).
Proof. exact each_step. Qed.

(** ... and the loop ends at the length the list had when it started (or where the list ends now) *)
Theorem C02_each_done : forall ex k a x i len body st, (len <= i)%nat -> s_each ex (S k) a x i len body st = ROk Normal st.
Proof. exact each_done. Qed.

Theorem C02_each_past_end : forall ex k a x i len body st l,
  (i < len)%nat -> list_at (heap st) a = Some l -> nth_error l i = None -> s_each ex (S k) a x i len body st = ROk Normal st.
Proof. exact each_past_end. Qed.

(** an outer variable with the name of the loop variable has its old value after the loop *)
Theorem C02_foreach_restores_outer : forall f x itok ltok le body st sg st' v,
  sexec (S f) (SForEach x itok ltok le body) st = ROk sg st' ->
  (forall lv st1, seval f le st = ROk lv st1 -> scope_get (cur_scope st1) x = Some v) ->
  scope_get (cur_scope st') x = Some v.
Proof. exact foreach_restores_outer. Qed.
