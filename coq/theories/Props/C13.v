(** C13 — IMPORT exposes exactly the requested procedures and isolates module state.
    Stated on the evaluator model's IMPORT (EvalImpl.exec, case SImport). *)
From Aplang Require Import Base FloatX Token Ast Tables Value StrLib LexImpl ParseImpl EvalImpl ImportProofs.
From Aplang.Gen Require Import Generated.

(** the library modules and their procedure names: the regenerated registry is the reference one *)
Definition C13_reference_modules : list string :=
  ["CORE"; "FS"; "TIME"; "MATH"; "IO"; "STRING"; "STYLE"; "MAP"; "ROBOT"]%string.

Theorem C13_registry_is_reference : module_registry = C13_reference_modules.
Proof. exact registry_is_reference. Qed.

(** only CORE is preloaded *)
Theorem C13_only_core_preloaded : forall name f,
  ft_get initial_funcs name = Some f -> exists n sig, f = FNative "CORE" n sig.
Proof. exact only_core_preloaded. Qed.

(** the procedures of a module table all belong to that module *)
Theorem C13_module_table_sound : forall m name f, ft_get (module_table m) name = Some f ->
  exists n sig, f = FNative m n sig /\ In (m, n, sig) std_sigs /\ name = string_bytes n.
Proof. exact module_table_sound. Qed.

(** IMPORT MOD m of a library module: exactly the module's procedures are added (later entries win),
    nothing else of the state changes *)
Theorem C13_import_mod_exact : forall f m mtok st,
  In m module_registry ->
  exec (S f) (SImport (string_bytes m) mtok None) st = ROk tt (set_funcs st (ft_extend (funcs st) (module_table m))).
Proof. exact import_mod_exact. Qed.

Theorem C13_ft_extend_spec : forall t more name,
  ft_get (ft_extend t more) name =
    match ft_get (rev more) name with Some f => Some f | None => ft_get t name end.
Proof. exact ft_extend_spec. Qed.

(** IMPORT f FROM MOD m / IMPORT [f, g] FROM MOD m: an unknown name is an error and the table is unchanged *)
Theorem C13_import_unknown_name : forall f m mtok names n sp st,
  In m module_registry -> In (n, sp) names -> ft_get (module_table m) n = None ->
  exists n' sp' st', exec (S f) (SImport (string_bytes m) mtok (Some names)) st = RErr InvalidFunction sp' st' /\
                     funcs st' = funcs st /\ In (n', sp') names.
Proof. exact import_unknown_name. Qed.

(** ... otherwise exactly the named procedures become callable *)
Theorem C13_import_only_exact : forall f m mtok names st st',
  In m module_registry ->
  exec (S f) (SImport (string_bytes m) mtok (Some names)) st = ROk tt st' ->
  (forall name, ft_get (funcs st') name =
     if existsb (fun p => text_eqb (fst p) name) names then ft_get (module_table m) name else ft_get (funcs st) name) /\
  venv st' = venv st /\ heap st' = heap st /\ out st' = out st.
Proof. exact import_only_exact. Qed.

(** an unknown module name (no .ap extension) and a missing module file are diagnostics *)
Theorem C13_unknown_module_is_error : forall f modname mtok only st,
  existsb (fun m => text_eqb (string_bytes m) modname) module_registry = false ->
  has_ap_extension (path_join (path st) modname) = false ->
  exec (S f) (SImport modname mtok only) st = RErr ModuleNotFound mtok st.
Proof. exact unknown_module_is_error. Qed.

Theorem C13_missing_file_is_error : forall f modname mtok only st,
  existsb (fun m => text_eqb (string_bytes m) modname) module_registry = false ->
  has_ap_extension (path_join (path st) modname) = true ->
  find (fun e => text_eqb (fst e) (path_join (path st) modname)) (o_files (orc st)) = None ->
  exec (S f) (SImport modname mtok only) st = RErr ModuleFileMissing mtok st.
Proof. exact missing_file_is_error. Qed.

(** a user module that does not lex or parse is a diagnostic at the import *)
Theorem C13_invalid_module_is_error : forall f modname mtok only st src,
  existsb (fun m => text_eqb (string_bytes m) modname) module_registry = false ->
  has_ap_extension (path_join (path st) modname) = true ->
  find (fun e => text_eqb (fst e) (path_join (path st) modname)) (o_files (orc st)) = Some (path_join (path st) modname, src) ->
  (forall ts, lex src = LexOk ts -> forall p, parse_tokens ts <> ParseOk p) ->
  exec (S f) (SImport modname mtok only) st = RErr ModuleInvalid mtok st.
Proof. exact invalid_module_is_error. Qed.

(** a user module runs in a fresh interpreter state: it sees none of the importer's variables, and the
    importer's variables, pending flags and return slot are untouched by the import *)
Theorem C13_import_keeps_importer_state : forall f modname mtok only st st',
  exec (S f) (SImport modname mtok only) st = ROk tt st' ->
  venv st' = venv st /\ retv st' = retv st /\ loops st' = loops st /\ exports st' = exports st /\ path st' = path st.
Proof. exact import_keeps_importer_state. Qed.
