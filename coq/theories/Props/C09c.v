(** C09 (rejection) — a token sequence whose brackets do not nest is never accepted. *)
From Aplang Require Import Base FloatX Token Ast ParseImpl ParseSpec Brackets BracketProofs.

Theorem C09_accepted_is_balanced : forall ts p, shaped ts -> parse_tokens ts = ParseOk p -> balanced ts = true.
Proof. exact accepted_is_balanced. Qed.

Theorem C09_unbalanced_rejected : forall ts, shaped ts -> balanced ts = false ->
  exists es, es <> [] /\ parse_tokens ts = ParseErr es.
Proof. exact unbalanced_rejected. Qed.
