(** C09 (acceptance) — every program of the documented grammar is accepted, and the tree returned
    is the program (up to the groups the printer wrote and the byte ranges). *)
From Aplang Require Import Base FloatX Token Ast ParseImpl Printer PrinterStmt RoundTripStmt.

Theorem C09_documented_grammar_accepted : forall full p, doc_prog p ->
  parse_tokens (pr_prog full p) = ParseOk (map (ex_stmt full) p).
Proof. exact doc_grammar_accepted. Qed.

Theorem C09_accepted_tree_is_program : forall full p, doc_prog p ->
  map strip_stmt (map (ex_stmt full) p) = map strip_stmt p.
Proof. exact strip_ex_prog. Qed.
