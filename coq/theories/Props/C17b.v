(** C17 (the observation is faithful) — FORMAT_ROBOT_ASCII shows the whole state the property speaks
    about: two robots on grids of the same size whose renderings are equal stand on the same cell with
    the same heading, and every other cell of the two grids is the same (walls, goal, spaces, remaining
    checkpoints).  [C17_digits]: checkpoint numbers are single digits, as the grid parser produces. *)
From Aplang Require Import Base Robot RobotProofs RenderProofs.

Definition C17b_Inv (r : robot) : Prop :=
  length (area r) = height r /\
  Forall (fun row => length row = width r) (area r) /\
  (loc_x r < width r)%nat /\ (loc_y r < height r)%nat.

Definition C17_digits (r : robot) : Prop :=
  forall x y k, cell_at r x y = Some (Checkpoint k) -> (1 <= k <= 9)%N.

Theorem C17_parse_grid_digits : forall s r, parse_grid s = Some r -> C17_digits r.
Proof. exact parse_grid_digits. Qed.

Theorem C17_step_digits : forall r c r' shown, C17b_Inv r -> C17_digits r -> step r c = Continue r' shown -> C17_digits r'.
Proof. exact step_digits. Qed.

Theorem C17_render_faithful : forall r1 r2,
  C17b_Inv r1 -> C17b_Inv r2 -> C17_digits r1 -> C17_digits r2 ->
  width r1 = width r2 -> height r1 = height r2 ->
  render_ascii r1 = render_ascii r2 ->
  loc_x r1 = loc_x r2 /\ loc_y r1 = loc_y r2 /\ heading r1 = heading r2 /\
  forall x y, (x < width r1)%nat -> (y < height r1)%nat -> (x = loc_x r1 /\ y = loc_y r1) \/ cell_at r1 x y = cell_at r2 x y.
Proof. exact render_faithful. Qed.
