(** C02 / C03 (shared core) — the evaluator with its flags, return slot and copied block scopes
    refines the reference semantics with signals, for every fuel.
    [clean]: the starting state of a run (one empty-or-not scope, no pending flag or return
    value, every user procedure in the tables well formed). *)
From Aplang Require Import Base FloatX Token Ast Tables Value EvalImpl EvalSpec ParseSpec ParseProofs SpecLemmas Refine.

Definition C02_fn_wf (f : fn) : Prop :=
  match f with FUser params body => wf_stmt true false body /\ (length params <= 255)%nat | FNative _ _ _ => True end.

Definition C02_clean (st : state) : Prop :=
  (exists s, venv st = [s]) /\ retv st = None /\ loops st = [] /\
  Forall (fun p => C02_fn_wf (snd p)) (funcs st) /\ Forall (fun p => C02_fn_wf (snd p)) (exports st).

(** the refinement theorem: same displayed bytes, same ending (error class and label), for all
    programs, all fuels, all starting states of a run *)
Theorem C02_refine : forall fuel prog st0, wf_prog prog -> C02_clean st0 ->
  observe (run_impl fuel prog st0) = observe (run_spec fuel prog st0).
Proof. exact (refine_gen parse_wf). Qed.

(** the state a run starts from is clean *)
Theorem C02_fresh_state_clean : forall h o i orc0 d, C02_clean (fresh_state h o i orc0 d).
Proof. exact fresh_state_clean. Qed.

(** Spec sanity: the reference semantics visibly means what the property says *)

(* IF runs exactly the branch selected by the truthiness of its condition *)
Theorem C02_if_one_branch : forall f c t e st v st1 b,
  seval f c st = ROk v st1 -> truthy v = Some b ->
  sexec (S f) (SIf c t e) st =
    (if b then sexec f t st1 else match e with Some e1 => sexec f e1 st1 | None => ROk Normal st1 end).
Proof. exact if_one_branch. Qed.

(* REPEAT n TIMES: the count is [to_usize n]: 0 for n <= 0 and NaN ... *)
Theorem C02_count_nonpositive : forall x, (PrimFloat.leb x 0 = true \/ is_nan_f x = true) -> to_usize x = 0%N.
Proof. exact count_nonpositive. Qed.

(* ... and a zero count runs nothing *)
Theorem C02_times_zero : forall ex k body st, s_times ex (S k) 0 body st = ROk Normal st.
Proof. exact times_zero. Qed.

(* one iteration: Break ends the loop, Return propagates, Normal / Continue go on with n-1 *)
Theorem C02_times_step : forall ex k n body st sg st1, n <> 0%N -> ex body st = ROk sg st1 ->
  s_times ex (S k) n body st =
    match sg with
    | Break => ROk Normal st1
    | Return v => ROk (Return v) st1
    | _ => s_times ex k (n - 1) body st1
    end.
Proof. exact times_step. Qed.

(* REPEAT UNTIL tests before every iteration and stops the first time the condition is true *)
Theorem C02_until_pretest : forall ev ex k c body st v st1,
  ev c st = ROk v st1 -> truthy v = Some true -> s_until ev ex (S k) c body st = ROk Normal st1.
Proof. exact until_pretest. Qed.

(* after BREAK or CONTINUE (or RETURN) no further statement of the block runs *)
Theorem C02_nothing_after_signal : forall ex s ss st sg st1,
  ex s st = ROk sg st1 -> sg <> Normal -> s_block ex (s :: ss) st = ROk sg st1.
Proof. exact nothing_after_signal. Qed.

(* otherwise statements run in order *)
Theorem C02_block_in_order : forall ex s ss st st1,
  ex s st = ROk Normal st1 -> s_block ex (s :: ss) st = s_block ex ss st1.
Proof. exact block_in_order. Qed.

(* Break / Continue only affect the innermost loop: a loop always ends with Normal or Return *)
Theorem C02_loop_absorbs_break : forall ex k n body st sg st1,
  s_times ex k n body st = ROk sg st1 -> sg = Normal \/ exists v, sg = Return v.
Proof. exact loop_absorbs_break. Qed.
