(** C11 (second sentence, end to end) — for every source text that scans and parses and every run that
    ends with a runtime diagnostic: the diagnostic is raised by a construct [n] of the program, its
    label is the range LabelSpec assigns to that construct for that error class (the operator, the
    name, the bracketed index, the argument list or the offending argument, the count / collection
    expression, the module name), and the label lies inside the part of the source the construct was
    parsed from.  (Programs without user modules: a module's diagnostics refer to the module's text.) *)
From Aplang Require Import Base FloatX Token Ast Tables Value LexImpl ParseImpl EvalImpl EvalSpec GrammarSpec LabelSpec LabelCompose.

Theorem C11_label_at_construct : forall a s ts prog fuel st0 k sp st,
  lex_gen a s = LexOk ts -> parse_tokens ts = ParseOk prog ->
  o_files (orc st0) = [] -> Forall (fun p => match snd p with FNative _ _ _ => True | FUser _ _ => False end) (funcs st0) ->
  run_impl fuel prog st0 = RErr k sp st ->
  exists n seg, sub_prog n prog /\ own_label n k sp /\ node_segment ts n seg /\ within seg sp.
Proof. exact label_at_construct. Qed.
