(** C06 (layout) — every layout of the same lexemes scans to the same tokens, for every layout:
    gaps of blanks, tabs, carriage returns, backslash-newlines, comments, and newlines where no
    statement can end, before any lexeme and at the end; [layout_ok] is the side condition that
    each piece is trivia where it stands and that no lexeme fuses with what follows. *)
From Aplang Require Import Base FloatX Token LexImpl LexSpec LexProofs TableProofs Layout LayoutProofs.

Theorem C06_lex_render : forall a, ascii_ok a -> forall items trail,
  layout_ok a None items trail ->
  exists ts, lex_gen a (render items trail) = LexOk ts /\
             map tok_view ts = map (fun i : litem => tok_view (snd i)) items ++ [(TEof, LNone, [])].
Proof. exact lex_render. Qed.

(** hence two layouts of the same token views scan to token sequences with the same views *)
Theorem C06_layouts_same_views : forall a, ascii_ok a -> forall items1 trail1 items2 trail2,
  layout_ok a None items1 trail1 -> layout_ok a None items2 trail2 ->
  map (fun i : litem => tok_view (snd i)) items1 = map (fun i : litem => tok_view (snd i)) items2 ->
  exists ts1 ts2, lex_gen a (render items1 trail1) = LexOk ts1 /\ lex_gen a (render items2 trail2) = LexOk ts2 /\
                  same_views ts1 ts2.
Proof. exact layouts_same_views. Qed.

(** the keyword table is case-blind in the two documented spellings: a keyword lexeme and its
    other-case spelling are the same token view *)
Theorem C06_keyword_case_same_view : forall a, ascii_ok a -> forall prev w k,
  In (w, k) ref_keywords ->
  exists t1 t2, Tok a prev 0 (map upper_ascii w) [] t1 /\ Tok a prev 0 (map lower_ascii w) [] t2 /\
                tok_view t1 = tok_view t2 /\ tkind t1 = k.
Proof. exact keyword_case_same_view. Qed.

(** non-vacuity: a concrete layout with every kind of piece satisfies [layout_ok] *)
Example C06_layout_example : exists items trail,
  layout_ok uni_alnum None items trail /\ (4 <= length items)%nat /\
  (exists c, In (PBlank c) (concat (map (fun i : litem => fst (fst i)) items))) /\
  In PCont (concat (map (fun i : litem => fst (fst i)) items)) /\
  In PNewline (concat (map (fun i : litem => fst (fst i)) items)) /\
  (exists b, In (POpenComment b) (concat (map (fun i : litem => fst (fst i)) items))).
Proof. exact layout_example. Qed.
