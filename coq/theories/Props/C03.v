(** C03 — procedure calls: fresh scope, positional binding, RETURN ends the activation.
    Stated on the reference semantics; [C02_refine] carries them to the implementation model. *)
From Aplang Require Import Base FloatX Token Ast Tables Value EvalImpl EvalSpec ParseSpec SpecLemmas.

(** a call evaluates its arguments left to right, then looks the procedure up, then checks the
    arity, and only then runs the body: an undefined name or a wrong argument count is an error
    whose state is the one after the arguments (no effect of the body) *)
Theorem C03_undefined_is_error : forall f name tok lp rp spans args st vs st1,
  eval_args (seval f) args st = ROk vs st1 -> ft_get (funcs st1) name = None ->
  seval (S f) (ECall name tok lp rp spans args) st = RErr InvalidProcedure tok st1.
Proof. exact undefined_is_error. Qed.

Theorem C03_arity_is_error : forall f name tok lp rp spans args st vs st1 params body,
  eval_args (seval f) args st = ROk vs st1 -> ft_get (funcs st1) name = Some (FUser params body) ->
  length params <> length vs ->
  seval (S f) (ECall name tok lp rp spans args) st = RErr IncorrectArgs (interior lp rp) st1.
Proof. exact arity_is_error. Qed.

(** the value of the call is the RETURN value, NULL when the body falls off its end; the
    caller's variables are exactly as before the call *)
Theorem C03_call_value_and_frame : forall f name tok lp rp spans args st vs st1 params body sg st2,
  eval_args (seval f) args st = ROk vs st1 -> ft_get (funcs st1) name = Some (FUser params body) ->
  length params = length vs ->
  sexec f body (with_scope st1 (fold_left (fun sc pv => scope_set sc (fst pv) (snd pv)) (combine params vs) [])) = ROk sg st2 ->
  seval (S f) (ECall name tok lp rp spans args) st =
    ROk (match sg with Return v => v | _ => VNull end) (set_venv st2 (venv st1)).
Proof. exact call_value_and_frame. Qed.

(** the body starts in a scope that holds the parameters and nothing else *)
Theorem C03_callee_scope : forall params vs x,
  length params = length vs ->
  scope_get (fold_left (fun sc pv => scope_set sc (fst pv) (snd pv)) (combine params vs) []) x <> None ->
  In x params.
Proof. exact callee_scope. Qed.

(** the body cannot read the caller's variables: its result does not depend on them *)
Theorem C03_call_independent_of_caller_env : forall f body st sc venv1 venv2,
  sexec f body (with_scope (set_venv st venv1) sc) = sexec f body (with_scope (set_venv st venv2) sc).
Proof. exact call_independent_of_caller_env. Qed.

(** RETURN ends the activation at once, from inside any nesting of blocks *)
Theorem C03_return_propagates_through_blocks : forall ex s ss st v st1,
  ex s st = ROk (Return v) st1 -> s_block ex (s :: ss) st = ROk (Return v) st1.
Proof. exact return_propagates_through_blocks. Qed.

(** and from inside the three loop forms *)
Theorem C03_return_propagates_through_loops : forall ex k n body st v st1, n <> 0%N ->
  ex body st = ROk (Return v) st1 -> s_times ex (S k) n body st = ROk (Return v) st1.
Proof. exact return_propagates_through_times. Qed.

(** scalars are passed by value, lists by reference: binding copies the value, and a [VList a]
    argument denotes the same cell [a] in the callee *)
Theorem C03_binding_copies_values : forall params vs p v,
  NoDup params -> length params = length vs -> In (p, v) (combine params vs) ->
  scope_get (fold_left (fun sc pv => scope_set sc (fst pv) (snd pv)) (combine params vs) []) p = Some v.
Proof. exact binding_copies_values. Qed.
