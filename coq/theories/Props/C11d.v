(** C11 (extent) — every sub-node of a derived program owns a contiguous segment of the tokens, and the
    range a node labels an error with lies inside that segment. *)
From Aplang Require Import Base FloatX Token Ast LexSpec GrammarSpec LabelSpec SegmentProofs.

Theorem C11_subnode_segment : forall ts p n, DProg ts p -> sub_prog n p -> exists seg, node_segment ts n seg.
Proof. exact subnode_segment. Qed.

Theorem C11_own_label_within : forall s ts n seg k sp,
  spans_ok s ts -> node_segment ts n seg -> own_label n k sp -> within seg sp.
Proof. exact own_label_within. Qed.
