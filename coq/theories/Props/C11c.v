(** C11 (roles) — a runtime diagnostic is raised by a construct of the program and labels the range
    LabelSpec assigns to that construct for that error class. *)
From Aplang Require Import Base FloatX Token Ast Tables Value ParseImpl EvalImpl EvalSpec GrammarSpec LabelSpec LabelProofs.

Theorem C11_label_roles : forall ts prog fuel st0 k sp st,
  parse_tokens ts = ParseOk prog ->
  o_files (orc st0) = [] -> Forall (fun p => match snd p with FNative _ _ _ => True | FUser _ _ => False end) (funcs st0) ->
  run_impl fuel prog st0 = RErr k sp st ->
  exists n, sub_prog n prog /\ own_label n k sp.
Proof. exact label_roles. Qed.
