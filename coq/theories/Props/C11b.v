(** C11 / C09 (soundness of the parser) — an accepted token sequence is a derivation of the grammar:
    every node was built from a contiguous segment of the tokens, and every byte range the tree
    stores is the range of the token GrammarSpec says (the operator between its operands, the
    brackets around the index, an argument's range between its separators, ...).
    [shaped]: exactly one end marker, last (what the scanner produces, C08_lex_output_shaped); without
    it the statement is false — the parser stops at the first end marker
    ([GrammarProofs.parse_sound_needs_shape]). *)
From Aplang Require Import Base FloatX Token Ast ParseImpl ParseSpec GrammarSpec GrammarProofs.

Theorem C11_parse_sound : forall ts p, shaped ts -> parse_tokens ts = ParseOk p -> DProg ts p.
Proof. exact parse_sound. Qed.
