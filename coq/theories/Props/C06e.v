(** C06 (composite) — layout, comments and keyword case never change a program's meaning: two
    layouts whose lexemes are the same tokens up to byte ranges and keyword spelling have the same
    meaning — the same lexical / syntactic verdict, and when they run, the same displayed bytes and
    the same ending (error class), for every fuel and every starting state.  Composition of
    C06_lex_render (scanner), C06_parse_view (parser) and C06_eval_span_invariant (evaluator). *)
From Aplang Require Import Base FloatX Token Ast Value LexImpl LexSpec LexProofs ParseImpl EvalImpl EvalSpec
  Layout Erase Meaning LayoutMeaning.

Theorem C06_layout_never_changes_meaning : forall a, ascii_ok a -> forall items1 trail1 items2 trail2,
  layout_ok a None items1 trail1 -> layout_ok a None items2 trail2 ->
  map (fun i : litem => tok_view (snd i)) items1 = map (fun i : litem => tok_view (snd i)) items2 ->
  forall fuel st0, meaning a fuel (render items1 trail1) st0 = meaning a fuel (render items2 trail2) st0.
Proof. exact layout_never_changes_meaning. Qed.

Theorem C06_same_views_same_meaning : forall a s1 s2 ts1 ts2,
  lex_gen a s1 = LexOk ts1 -> lex_gen a s2 = LexOk ts2 -> same_views ts1 ts2 ->
  forall fuel st0, meaning a fuel s1 st0 = meaning a fuel s2 st0.
Proof. exact same_views_same_meaning. Qed.
