(** C04 — lists and strings: 1-based, bounds-checked, sequence operations, no action at a distance.
    Theorems about the evaluator model's index arithmetic, the CORE list procedures and the heap:
    each operation is the corresponding operation on a mathematical sequence and changes nothing else. *)
From Aplang Require Import Base FloatX Token Ast Tables Value EvalImpl HeapProofs.

(** an index is usable only if it is at least 1: anything below 1 (0, negatives, fractions below 1, NaN)
    maps to a position no list or string has *)
Theorem C04_index_below_one : forall idx, PrimFloat.leb 1 idx = false -> index_of idx = usize_max.
Proof. exact index_below_one. Qed.

(** ... for every list the machine can hold (at most usize::MAX elements; a Coq [list] has no such bound) *)
Theorem C04_no_element_at_usize_max : forall A (l : list A),
  (N.of_nat (length l) <= usize_max)%N -> nth_N l usize_max = None.
Proof. exact no_element_at_usize_max. Qed.

(** reading position k succeeds exactly for k inside the sequence, and yields that element *)
Theorem C04_nth_N_spec : forall A (l : list A) k v,
  nth_N l k = Some v <-> (k < N.of_nat (length l))%N /\ nth_error l (N.to_nat k) = Some v.
Proof. exact nth_N_spec. Qed.

(** index read on a list / string: the element at [index_of idx], else an Invalid List Index error
    labelled between the brackets -- never a different element *)
Theorem C04_read_list : forall f lt lb rb le ke st a st1 idx st2 l,
  eval f le st = ROk (VList a) st1 -> eval f ke st1 = ROk (VNum idx) st2 -> list_at (heap st2) a = Some l ->
  eval (S f) (EAccess lt lb rb le ke) st =
    match nth_N l (index_of idx) with Some v => ROk v st2 | None => RErr InvalidListIndex (interior lb rb) st2 end.
Proof. exact read_list. Qed.

Theorem C04_read_string : forall f lt lb rb le ke st s st1 idx st2,
  eval f le st = ROk (VStr s) st1 -> eval f ke st1 = ROk (VNum idx) st2 ->
  eval (S f) (EAccess lt lb rb le ke) st =
    match nth_N s (index_of idx) with Some c => ROk (VStr [c]) st2 | None => RErr InvalidListIndex (interior lb rb) st2 end.
Proof. exact read_string. Qed.

(** index write: exactly one position of exactly one cell changes *)
Theorem C04_write_list : forall f lt lb rb arrow le ie ve st a st1 idx st2 v st3 l,
  eval f le st = ROk (VList a) st1 -> eval f ie st1 = ROk (VNum idx) st2 -> eval f ve st2 = ROk v st3 ->
  list_at (heap st3) a = Some l ->
  eval (S f) (ESet lt lb rb arrow le ie ve) st =
    if (index_of idx <? N.of_nat (length l))%N
    then ROk v (heap_set st3 a (CList (update_nth l (N.to_nat (index_of idx)) v)))
    else RErr InvalidListIndex (interior lb rb) st3.
Proof. exact write_list. Qed.

(** frame: replacing cell [a] leaves every other cell, every variable and all output untouched *)
Theorem C04_heap_set_frame : forall st a c,
  (forall a', a' <> a -> heap_get (heap (heap_set st a c)) a' = heap_get (heap st) a') /\
  venv (heap_set st a c) = venv st /\ out (heap_set st a c) = out st /\ length (heap (heap_set st a c)) = length (heap st).
Proof. exact heap_set_frame. Qed.

(** APPEND, INSERT, REMOVE, LENGTH as sequence operations *)
Theorem C04_append_spec : forall spans st a l v, list_at (heap st) a = Some l ->
  native_body "CORE" "APPEND" [VList a; v] spans st = ROk VNull (heap_set st a (CList (l ++ [v]))).
Proof. exact append_spec. Qed.

Theorem C04_insert_spec : forall spans st a l i v, list_at (heap st) a = Some l ->
  native_body "CORE" "INSERT" [VList a; VNum i; v] spans st =
    if PrimFloat.leb 1 i && (to_usize i <=? N.of_nat (length l) + 1)%N
    then ROk VNull (heap_set st a (CList (firstn (N.to_nat (to_usize i - 1)) l ++ v :: skipn (N.to_nat (to_usize i - 1)) l)))
    else RErr InvalidListIndex (nth_span spans 1) st.
Proof. exact insert_spec. Qed.

Theorem C04_remove_spec : forall spans st a l i, list_at (heap st) a = Some l ->
  native_body "CORE" "REMOVE" [VList a; VNum i] spans st =
    if PrimFloat.leb 1 i && (to_usize i <=? N.of_nat (length l))%N
    then match nth_error l (N.to_nat (to_usize i - 1)) with
         | Some x => ROk x (heap_set st a (CList (firstn (N.to_nat (to_usize i - 1)) l ++ skipn (S (N.to_nat (to_usize i - 1))) l)))
         | None => RPanic PanicTable st
         end
    else RErr InvalidListIndex (nth_span spans 1) st.
Proof. exact remove_spec. Qed.

(** ... and REMOVE within range always finds its element *)
Theorem C04_remove_in_range : forall (l : list value) i,
  PrimFloat.leb 1 i = true -> (to_usize i <= N.of_nat (length l))%N -> (1 <= to_usize i)%N ->
  nth_error l (N.to_nat (to_usize i - 1)) <> None.
Proof. exact remove_in_range. Qed.

Theorem C04_length_spec : forall spans st a l, list_at (heap st) a = Some l ->
  native_body "CORE" "LENGTH" [VList a] spans st = ROk (VNum (of_N (N.of_nat (length l)))) st.
Proof. exact length_list_spec. Qed.

Theorem C04_length_string_spec : forall spans st s,
  native_body "CORE" "LENGTH" [VStr s] spans st = ROk (VNum (of_N (N.of_nat (length s)))) st.
Proof. exact length_string_spec. Qed.

(** + and list literals build a fresh cell and leave every existing cell unchanged *)
Theorem C04_concat_fresh : forall tok x y st lx ly,
  list_at (heap st) x = Some lx -> list_at (heap st) y = Some ly ->
  apply_binop BPlus tok (VList x) (VList y) st =
    ROk (VList (length (heap st))) (set_heap st (heap st ++ [CList (lx ++ ly)])).
Proof. exact concat_fresh. Qed.

Theorem C04_alloc_frame : forall st c a', (a' < length (heap st))%nat ->
  heap_get (heap (snd (alloc st c))) a' = heap_get (heap st) a' /\ fst (alloc st c) = length (heap st).
Proof. exact alloc_frame. Qed.

(** assignment x <- e rebinds x and changes no cell: what is seen through any other variable, and
    every list, is exactly as after evaluating e *)
Theorem C04_assign_changes_no_cell : forall f x tok arrow ve st v st1,
  eval f ve st = ROk v st1 -> venv st1 <> [] ->
  exists st2, eval (S f) (EAssign x tok arrow ve) st = ROk v st2 /\
    heap st2 = heap st1 /\ out st2 = out st1 /\
    lookup st2 x = Some (Some v) /\
    forall y, text_eqb y x = false -> lookup st2 y = lookup st1 y.
Proof. exact assign_changes_no_cell. Qed.
