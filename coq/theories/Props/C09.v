(** C09 (contextual part) — no accepted program has a RETURN outside a procedure body or a
    BREAK / CONTINUE outside a loop of the same body; a rejected program has at least one
    diagnostic and nothing executes.  (Acceptance of the documented grammar: see the
    round-trip theorems; DESIGN.md section 3.9.) *)
From Aplang Require Import Base FloatX Token Ast LexImpl ParseImpl ParseSpec ParseProofs.

Theorem C09_parse_wf : forall ts p, parse_tokens ts = ParseOk p -> wf_prog p.
Proof. exact parse_wf. Qed.

(** hence a top-level RETURN / BREAK / CONTINUE is never accepted *)
Theorem C09_misplaced_rejected : forall ts p, parse_tokens ts = ParseOk p ->
  ~ In (SReturn None) p /\ ~ In SBreak p /\ ~ In SContinue p /\ forall e, ~ In (SReturn (Some e)) p.
Proof. exact misplaced_rejected. Qed.

(** rejection comes with at least one diagnostic *)
Theorem C09_rejection_has_diagnostic : forall ts es, parse_tokens ts = ParseErr es -> es <> [].
Proof. exact rejection_has_diagnostic. Qed.

(** non-vacuity *)
Example C09_accepts_example :
  exists p, (match lex (txt "PROCEDURE f(n) { IF (n) { RETURN 1 } RETURN }"%string) with
             | LexOk ts => parse_tokens ts | _ => ParseFuel end) = ParseOk p /\ wf_prog p.
Proof. exact accepts_example. Qed.
