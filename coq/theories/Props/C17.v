(** C17 — ROBOT follows the grid-world model and never leaves the grid or enters a wall.
    Property theorems only; every proof is [exact <lemma of RobotProofs>]. *)
From Aplang Require Import Base Robot RobotProofs.

(** The invariant: the area is a [height] x [width] rectangle, the robot is inside it
    and the cell it stands on is not a wall. *)
Definition C17_Inv (r : robot) : Prop :=
  length (area r) = height r /\
  Forall (fun row => length row = width r) (area r) /\
  (loc_x r < width r)%nat /\ (loc_y r < height r)%nat /\
  exists c, cell_at r (loc_x r) (loc_y r) = Some c /\ c <> Wall.

(** every grid the parser accepts satisfies the invariant *)
Theorem C17_parse_grid_inv : forall s r, parse_grid s = Some r -> C17_Inv r.
Proof. exact parse_grid_inv. Qed.

(** every command preserves it (a blocked move ends the program instead) *)
Theorem C17_step_inv : forall r c r' shown, C17_Inv r -> step r c = Continue r' shown -> C17_Inv r'.
Proof. exact step_inv. Qed.

(** ... hence it holds after every history of commands, of any length *)
Theorem C17_history_inv : forall cs r r', C17_Inv r -> final_robot r cs = Some r' -> C17_Inv r'.
Proof. exact history_inv. Qed.

(** the unreachable "moved into a wall" panic and the out-of-range indexing of the
    area are indeed unreachable *)
Theorem C17_no_bug : forall r c, C17_Inv r -> step r c <> Bug.
Proof. exact step_no_bug. Qed.

(** rotations turn by 90 degrees and move nothing *)
Theorem C17_rotate_keeps_position : forall r z,
  loc_x (rotate r z) = loc_x r /\ loc_y (rotate r z) = loc_y r /\ area (rotate r z) = area r /\
  power (rotate r z) = power r /\
  dir_num (heading (rotate r z)) = ((dir_num (heading r) + z) mod 4)%Z.
Proof. exact rotate_keeps_position. Qed.

(** the neighbour cell in a relative direction, in signed coordinates (row, column) *)
Definition C17_neighbour (r : robot) (rl : rel) : Z * Z :=
  let y := Z.of_nat (loc_y r) in let x := Z.of_nat (loc_x r) in
  match ((dir_num (heading r) + rel_num rl) mod 4)%Z with
  | 0 => (y - 1, x) | 1 => (y, x + 1) | 2 => (y + 1, x) | _ => (y, x - 1)
  end%Z.

(** CAN_MOVE is true exactly when the adjacent cell is inside the grid and not a wall *)
Theorem C17_can_move_iff : forall r rl, C17_Inv r ->
  (can_move r rl = true <->
   let '(y, x) := C17_neighbour r rl in
   (0 <= y < Z.of_nat (height r))%Z /\ (0 <= x < Z.of_nat (width r))%Z /\
   exists c, cell_at r (Z.to_nat x) (Z.to_nat y) = Some c /\ c <> Wall).
Proof. exact can_move_iff. Qed.

(** MOVE_FORWARD advances exactly one cell in the heading and keeps the heading *)
Theorem C17_move_advances_one : forall r r' b, C17_Inv r -> move_forward r = Moved r' b ->
  can_move r Forward = true /\
  (Z.of_nat (loc_y r'), Z.of_nat (loc_x r')) = C17_neighbour r Forward /\
  heading r' = heading r /\ width r' = width r /\ height r' = height r.
Proof. exact move_advances_one. Qed.

(** a blocked move terminates the program (no successor state exists) *)
Theorem C17_blocked_move_exits : forall r, can_move r Forward = false -> step r CMove = Exit.
Proof. exact blocked_move_exits. Qed.

(** MOVE_FORWARD returns TRUE only on the goal cell with no checkpoint left *)
Theorem C17_true_only_at_goal : forall r r', C17_Inv r -> move_forward r = Moved r' true ->
  cell_at r (loc_x r') (loc_y r') = Some Goal /\ any_cell is_checkpoint (area r) = false.
Proof. exact true_only_at_goal. Qed.

(** checkpoints are collected in order: with [C17_CpInv] (no remaining checkpoint is
    below the robot's power) a move changes at most the cell moved onto, and it removes a
    checkpoint [k] only when [k] is the robot's power, so no checkpoint smaller than [k]
    remains *)
Definition C17_CpInv (r : robot) : Prop :=
  forall x y k, cell_at r x y = Some (Checkpoint k) -> (power r <= k)%N.

Theorem C17_parse_cp_inv : forall s r, parse_grid s = Some r -> C17_CpInv r.
Proof. exact parse_cp_inv. Qed.

Theorem C17_move_cp_inv : forall r r' b, C17_Inv r -> C17_CpInv r -> move_forward r = Moved r' b -> C17_CpInv r'.
Proof. exact move_cp_inv. Qed.

Theorem C17_checkpoints_in_order : forall r r' b x y k, C17_Inv r -> C17_CpInv r ->
  move_forward r = Moved r' b ->
  cell_at r x y = Some (Checkpoint k) -> cell_at r' x y <> Some (Checkpoint k) ->
  x = loc_x r' /\ y = loc_y r' /\ k = power r /\
  forall x2 y2 k2, cell_at r x2 y2 = Some (Checkpoint k2) -> (k <= k2)%N.
Proof. exact checkpoints_in_order. Qed.

(** a move changes no cell other than the one moved onto *)
Theorem C17_move_frame : forall r r' b x y, C17_Inv r -> move_forward r = Moved r' b ->
  (x <> loc_x r' \/ y <> loc_y r') -> cell_at r' x y = cell_at r x y.
Proof. exact move_frame. Qed.

(** malformed grids yield NULL: an unknown symbol anywhere, no robot, or two robots *)
Theorem C17_malformed_unknown_symbol : forall s ch,
  In ch s -> classify ch = SBad -> ch <> 10%N -> ch <> 13%N -> parse_grid s = None.
Proof. exact malformed_unknown_symbol. Qed.

Theorem C17_malformed_no_robot : forall s,
  (forall ch, In ch s -> forall d, classify ch <> SRobot d) -> parse_grid s = None.
Proof. exact malformed_no_robot. Qed.

Theorem C17_malformed_two_robots : forall a b c ch1 ch2 d1 d2,
  classify ch1 = SRobot d1 -> classify ch2 = SRobot d2 ->
  parse_grid (a ++ ch1 :: b ++ ch2 :: c) = None.
Proof. exact malformed_two_robots. Qed.

(** non-vacuity: a concrete grid satisfies the hypotheses *)
Example C17_inv_holds_somewhere :
  exists r, parse_grid [35;110;46;10;46;49;120] = Some r /\ can_move r Right = true.
Proof. exact inv_holds_somewhere. Qed.
