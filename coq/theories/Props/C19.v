(** C19 — FS procedures act like a file-system model on the named paths only.
    The model of the 13 procedures (EvalImpl.fs_call over a list of (path, entry)) is itself the
    simple file-system model; the theorems state its laws: only the named path (and, for the
    recursive operations, its ancestors / descendants) can change, impossible operations return
    FALSE / NULL and leave the tree unchanged, nothing ever terminates the program. *)
From Aplang Require Import Base FloatX Token Ast Tables Value StrLib EvalImpl FsProofs.

Definition C19_fs (st : state) : fs_t := o_fs (orc st).

(** no FS operation ever panics or raises a runtime error once its arguments passed the casts *)
Theorem C19_failure_by_value : forall name args st,
  In name ["PATH_EXISTS"; "PATH_IS_FILE"; "PATH_IS_DIRECTORY"; "FILE_REMOVE"; "FILE_CREATE"; "FILE_READ"; "DIRECTORY_READ";
           "DIRECTORY_CREATE"; "DIRECTORY_CREATE_ALL"; "DIRECTORY_REMOVE"; "DIRECTORY_REMOVE_ALL"]%string ->
  (exists p, args = [VStr p]) ->
  exists v st', fs_call name args st = ROk v st'.
Proof. exact failure_by_value. Qed.

(** frame: a path that is neither the named one, nor below it, nor one of its ancestors is untouched
    by any single-path operation *)
Theorem C19_fs_frame : forall name p st v st' q,
  fs_call name [VStr p] st = ROk v st' ->
  text_eqb q p = false -> below p q = false -> below q p = false ->
  fs_get (C19_fs st') q = fs_get (C19_fs st) q.
Proof. exact fs_frame. Qed.

Theorem C19_fs_frame_write : forall name p x st v st' q,
  fs_call name [VStr p; x] st = ROk v st' -> text_eqb q p = false ->
  fs_get (C19_fs st') q = fs_get (C19_fs st) q.
Proof. exact fs_frame_write. Qed.

(** the predicates and FILE_READ change nothing *)
Theorem C19_queries_are_pure : forall name p st v st',
  In name ["PATH_EXISTS"; "PATH_IS_FILE"; "PATH_IS_DIRECTORY"; "FILE_READ"]%string ->
  fs_call name [VStr p] st = ROk v st' -> C19_fs st' = C19_fs st.
Proof. exact queries_are_pure. Qed.

(** FILE_CREATE creates an empty file only where nothing exists (and the parent is a directory) *)
Theorem C19_create_only_if_absent : forall p st,
  fs_call "FILE_CREATE" [VStr p] st =
    match fs_get (C19_fs st) p with
    | None => if is_dir (C19_fs st) (parent_of p)
              then ROk (VBool true) (set_fs st (fs_put (C19_fs st) p (FFile []))) else ROk (VBool false) st
    | Some _ => ROk (VBool false) st
    end.
Proof. exact create_only_if_absent. Qed.

(** FILE_APPEND / FILE_OVERWRITE write the displayed form of the value to an existing file only *)
Theorem C19_write_requires_existing : forall name p x st,
  (name = "FILE_APPEND" \/ name = "FILE_OVERWRITE")%string -> is_file (C19_fs st) p = false ->
  fs_call name [VStr p; x] st = ROk (VBool false) st.
Proof. exact write_requires_existing. Qed.

Theorem C19_append_appends_displayed_form : forall p x st c t,
  fs_get (C19_fs st) p = Some (FFile c) -> show_v st x = Some t ->
  fs_call "FILE_APPEND" [VStr p; x] st = ROk (VBool true) (set_fs st (fs_put (C19_fs st) p (FFile (c ++ t)))) /\
  fs_call "FILE_OVERWRITE" [VStr p; x] st = ROk (VBool true) (set_fs st (fs_put (C19_fs st) p (FFile t))).
Proof. exact append_appends_displayed_form. Qed.

(** FILE_READ returns the exact contents; reading after a write sees what was written *)
Theorem C19_read_returns_contents : forall p st c,
  fs_get (C19_fs st) p = Some (FFile c) -> fs_call "FILE_READ" [VStr p] st = ROk (VStr c) st.
Proof. exact read_returns_contents. Qed.

Theorem C19_get_put_same : forall fs p e, fs_get (fs_put fs p e) p = Some e.
Proof. exact get_put_same. Qed.

Theorem C19_get_put_other : forall fs p e q, text_eqb q p = false -> fs_get (fs_put fs p e) q = fs_get fs q.
Proof. exact get_put_other. Qed.

(** removing: FILE_REMOVE only files, DIRECTORY_REMOVE only empty directories; afterwards the path is absent *)
Theorem C19_remove_spec : forall p st,
  fs_call "FILE_REMOVE" [VStr p] st =
    (if is_file (C19_fs st) p then ROk (VBool true) (set_fs st (fs_del (C19_fs st) p)) else ROk (VBool false) st) /\
  fs_get (fs_del (C19_fs st) p) p = None.
Proof. exact remove_spec. Qed.
