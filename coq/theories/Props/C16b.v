(** C16 (whole histories) — for EVERY sequence of MAP_INSERT / MAP_GET / MAP_CONTAINS_KEY calls on any
    number of maps, the results of the map model equal those of the ideal finite map (a function from
    keys to optional values, updated under the key equality), with no hypothesis on the keys: the key
    equality is symmetric and congruent on every value (NaN and lists included), which is all an
    update needs.  Stored keys stay pairwise distinct, so MAP_KEYS never lists a key twice. *)
From Aplang Require Import Base FloatX Token Ast Tables Value StrLib EvalImpl MapProofs MapHistory.

Theorem C16_key_eq_cong : forall f h a b c, key_eq f h a b = true -> key_eq f h a c = key_eq f h b c.
Proof. exact key_eq_cong. Qed.

(** lookup after insert, for every probe key: the unconditional form of C16_insert_get_same/other *)
Theorem C16_find_put : forall st m k v k',
  map_find st (map_put st m k v) k' = if key_eq (key_fuel st) (heap st) k k' then Some v else map_find st m k'.
Proof. exact find_put. Qed.

(** one step and whole histories refine the ideal maps: same result values, stores still related *)
Theorem C16_step_refines : forall st c s o, ieq (abs st c) s ->
  snd (cstep st c o) = snd (istep st s o) /\ ieq (abs st (fst (cstep st c o))) (fst (istep st s o)).
Proof. exact step_refines. Qed.

Theorem C16_history_refines : forall st ops c s, ieq (abs st c) s ->
  snd (run (cstep st) c ops) = snd (run (istep st) s ops) /\
  ieq (abs st (fst (run (cstep st) c ops))) (fst (run (istep st) s ops)).
Proof. exact history_refines. Qed.

Theorem C16_history_from_empty : forall st ops,
  snd (run (cstep st) (fun _ => []) ops) = snd (run (istep st) (fun _ _ => None) ops).
Proof. exact history_from_empty. Qed.

(** in every reachable store the keys of each map are pairwise distinct under the key equality *)
Theorem C16_history_distinct : forall st ops c, (forall i, keys_distinct st (c i)) ->
  forall i, keys_distinct st (fst (run (cstep st) c ops) i).
Proof. exact history_distinct. Qed.

(** the steps of the history are the MAP arms of the evaluator model (C16_map_insert_spec etc.):
    result and stored association list of [cstep] are those of [native_body] *)
Theorem C16_cstep_is_native_insert : forall spans st a i c k v, heap_get (heap st) a = Some (CMap (c i)) ->
  native_body "MAP" "MAP_INSERT" [VObj a; k; v] spans st =
    ROk (snd (cstep st c (OIns i k v))) (heap_set st a (CMap (fst (cstep st c (OIns i k v)) i))).
Proof.
  intros spans st a i c k v H. rewrite (map_insert_spec spans st a (c i) k v H).
  cbn [cstep fst snd]. unfold upd. rewrite Nat.eqb_refl. reflexivity.
Qed.

Theorem C16_cstep_is_native_get : forall spans st a i c k, heap_get (heap st) a = Some (CMap (c i)) ->
  native_body "MAP" "MAP_GET" [VObj a; k] spans st = ROk (snd (cstep st c (OGet i k))) st /\
  fst (cstep st c (OGet i k)) = c.
Proof. intros spans st a i c k H. rewrite (map_get_spec spans st a (c i) k H). split; reflexivity. Qed.

Theorem C16_cstep_is_native_contains : forall spans st a i c k, heap_get (heap st) a = Some (CMap (c i)) ->
  native_body "MAP" "MAP_CONTAINS_KEY" [VObj a; k] spans st = ROk (snd (cstep st c (OHas i k))) st /\
  fst (cstep st c (OHas i k)) = c.
Proof. intros spans st a i c k H. rewrite (map_contains_spec spans st a (c i) k H). split; reflexivity. Qed.

(** non-vacuity: a history with an overwrite through an equal-but-different key (0 and -0), a second
    map, and a NaN key (never found again) *)
Example C16_history_example : forall st,
  snd (run (cstep st) (fun _ => [])
         [OIns 0 (VNum 0) (VNum 1); OIns 0 (VNum (-0)) (VNum 2); OGet 0 (VNum 0); OHas 1 (VNum 0);
          OIns 0 (VNum PrimFloat.nan) VNull; OHas 0 (VNum PrimFloat.nan); OHas 0 (VNum (-0))])
  = [VNull; VNum 1; VNum 2; VBool false; VNull; VBool false; VBool true].
Proof. intros st. vm_compute. reflexivity. Qed.
