(** LabelProofs: a runtime diagnostic is raised by a construct of the program and labels the range
    LabelSpec assigns to that construct for that error class (Props/C11c.v).
    One pass over [eval] / [exec], in the style of SpanProofs (Section RuntimeLabels), with an
    invariant that remembers the node that raised the error. *)
From Aplang Require Import Base FloatX Token Ast Tables Robot Value StrLib LexImpl ParseImpl
  EvalImpl EvalSpec GrammarSpec LabelSpec.
From Aplang.Gen Require Import Generated.
From Coq Require Import Lia.
Open Scope N_scope.

(** * the operator tables raise operator errors only *)
Lemma binop_arms_kinds :
  Forall (fun r => match ba_act r with
                   | AGuarded _ msg | AErr msg => operator_kind (kind_of_message msg)
                   | _ => True
                   end) binop_arms.
Proof.
  unfold binop_arms. repeat (apply Forall_cons; [cbv; auto 10|]). apply Forall_nil.
Qed.

Lemma unop_arms_kinds :
  Forall (fun r => match ua_act r with
                   | UErr msg => operator_kind (kind_of_message msg)
                   | _ => True
                   end) unop_arms.
Proof.
  unfold unop_arms. repeat (apply Forall_cons; [cbv; auto 10|]). apply Forall_nil.
Qed.

(** * membership in the nested disjunctions of [sub_expr] / [sub_stmt] *)
Lemma any_expr_in n : forall (l : list expr) x, In x l -> sub_expr n x ->
  (fix any (l : list expr) : Prop := match l with [] => False | x :: r => sub_expr n x \/ any r end) l.
Proof.
  induction l as [|y l IH]; intros x Hin Hx; [contradiction|].
  destruct Hin as [->|Hin]; [left; exact Hx|right; eapply IH; eauto].
Qed.

Lemma any_stmt_in n : forall (l : list stmt) x, In x l -> sub_stmt n x ->
  (fix any (l : list stmt) : Prop := match l with [] => False | x :: r => sub_stmt n x \/ any r end) l.
Proof.
  induction l as [|y l IH]; intros x Hin Hx; [contradiction|].
  destruct Hin as [->|Hin]; [left; exact Hx|right; eapply IH; eauto].
Qed.

Section Roles.
Variable prog : list stmt.

(** the error is the one LabelSpec assigns to some node of the program *)
Definition lblK (k : rt_kind) (sp : Ast.span) : Prop := exists n, sub_prog n prog /\ own_label n k sp.

(** every node of the tree is a node of the program *)
Definition in_e (e : expr) : Prop := forall n, sub_expr n e -> sub_prog n prog.
Definition in_s (s : stmt) : Prop := forall n, sub_stmt n s -> sub_prog n prog.

Lemma in_e_self e : in_e e -> sub_prog (NE e) prog.
Proof. intro H. apply H. destruct e; left; reflexivity. Qed.
Lemma in_s_self s : in_s s -> sub_prog (NS s) prog.
Proof. intro H. apply H. destruct s; left; reflexivity. Qed.

Lemma in_s_top s : In s prog -> in_s s.
Proof. intros Hin n Hn. exists s. split; assumption. Qed.

Lemma in_e_group x : in_e (EGroup x) -> in_e x.
Proof. intros H n Hn. apply H. cbn [sub_expr]. tauto. Qed.
Lemma in_e_un op tok x : in_e (EUn op tok x) -> in_e x.
Proof. intros H n Hn. apply H. cbn [sub_expr]. tauto. Qed.
Lemma in_e_assign nm tok ar x : in_e (EAssign nm tok ar x) -> in_e x.
Proof. intros H n Hn. apply H. cbn [sub_expr]. tauto. Qed.
Lemma in_e_bin op tok l r : in_e (EBin op tok l r) -> in_e l /\ in_e r.
Proof. intros H. split; intros n Hn; apply H; cbn [sub_expr]; tauto. Qed.
Lemma in_e_log op tok l r : in_e (ELog op tok l r) -> in_e l /\ in_e r.
Proof. intros H. split; intros n Hn; apply H; cbn [sub_expr]; tauto. Qed.
Lemma in_e_access lt lb rb l r : in_e (EAccess lt lb rb l r) -> in_e l /\ in_e r.
Proof. intros H. split; intros n Hn; apply H; cbn [sub_expr]; tauto. Qed.
Lemma in_e_set lt lb rb ar l i v : in_e (ESet lt lb rb ar l i v) -> in_e l /\ in_e i /\ in_e v.
Proof. intros H. repeat split; intros n Hn; apply H; cbn [sub_expr]; tauto. Qed.
Lemma in_e_call nm tok lp rp spans args : in_e (ECall nm tok lp rp spans args) -> Forall in_e args.
Proof.
  intros H. apply Forall_forall. intros x Hx n Hn. apply H. right. eapply any_expr_in; eauto.
Qed.
Lemma in_e_list lb rb items : in_e (EList lb rb items) -> Forall in_e items.
Proof.
  intros H. apply Forall_forall. intros x Hx n Hn. apply H. right. eapply any_expr_in; eauto.
Qed.

Lemma in_s_expr e : in_s (SExpr e) -> in_e e.
Proof. intros H n Hn. apply H. cbn [sub_stmt]. tauto. Qed.
Lemma in_s_if c t e : in_s (SIf c t e) -> in_e c /\ in_s t /\ match e with Some x => in_s x | None => True end.
Proof.
  intros H. split; [|split].
  - intros n Hn; apply H; cbn [sub_stmt]; tauto.
  - intros n Hn; apply H; cbn [sub_stmt]; tauto.
  - destruct e as [x|]; [|exact I]. intros n Hn; apply H; cbn [sub_stmt]; tauto.
Qed.
Lemma in_s_times ct c b : in_s (SRepeatTimes ct c b) -> in_e c /\ in_s b.
Proof. intros H. split; intros n Hn; apply H; cbn [sub_stmt]; tauto. Qed.
Lemma in_s_until c b : in_s (SRepeatUntil c b) -> in_e c /\ in_s b.
Proof. intros H. split; intros n Hn; apply H; cbn [sub_stmt]; tauto. Qed.
Lemma in_s_each x it lt l b : in_s (SForEach x it lt l b) -> in_e l /\ in_s b.
Proof. intros H. split; intros n Hn; apply H; cbn [sub_stmt]; tauto. Qed.
Lemma in_s_proc nm ex ps b : in_s (SProc nm ex ps b) -> in_s b.
Proof. intros H n Hn. apply H. cbn [sub_stmt]. tauto. Qed.
Lemma in_s_block ss : in_s (SBlock ss) -> Forall in_s ss.
Proof.
  intros H. apply Forall_forall. intros x Hx n Hn. apply H. right. eapply any_stmt_in; eauto.
Qed.
Lemma in_s_return e : in_s (SReturn (Some e)) -> in_e e.
Proof. intros H n Hn. apply H. cbn [sub_stmt]. tauto. Qed.

(** * states: no user modules; the bodies of the user procedures are parts of the program *)
Definition fn_in (f : fn) : Prop := match f with FUser _ body => in_s body | FNative _ _ _ => True end.
Definition tbl_in (t : ftable) : Prop := Forall (fun p => fn_in (snd p)) t.
Definition rok (st : state) : Prop := o_files (orc st) = [] /\ tbl_in (funcs st).

Definition goodK {A} (P : rt_kind -> Ast.span -> Prop) (r : res A) : Prop :=
  match r with
  | ROk _ st' => rok st'
  | RErr k sp _ => P k sp
  | _ => True
  end.

Lemma rok_set_venv st v : rok st -> rok (set_venv st v). Proof. intro H; exact H. Qed.
Lemma rok_set_exports st v : rok st -> rok (set_exports st v). Proof. intro H; exact H. Qed.
Lemma rok_set_retv st v : rok st -> rok (set_retv st v). Proof. intro H; exact H. Qed.
Lemma rok_set_loops st v : rok st -> rok (set_loops st v). Proof. intro H; exact H. Qed.
Lemma rok_set_heap st v : rok st -> rok (set_heap st v). Proof. intro H; exact H. Qed.
Lemma rok_set_out st v : rok st -> rok (set_out st v). Proof. intro H; exact H. Qed.
Lemma rok_set_stdin st v : rok st -> rok (set_stdin st v). Proof. intro H; exact H. Qed.
Lemma rok_emit st t : rok st -> rok (emit st t). Proof. intro H; exact H. Qed.
Lemma rok_heap_set st a c : rok st -> rok (heap_set st a c). Proof. intro H; exact H. Qed.
Lemma rok_push_loop st : rok st -> rok (push_loop st). Proof. intro H; exact H. Qed.
Lemma rok_set_fs st fs : rok st -> rok (set_fs st fs). Proof. intro H; exact H. Qed.
Lemma rok_set_orc st a b c d : rok st -> rok (set_orc st (mkOracle a b c (o_files (orc st)) d)).
Proof. intro H; exact H. Qed.
Lemma rok_set_funcs st t : rok st -> tbl_in t -> rok (set_funcs st t).
Proof. intros [H1 _] H2. split; [exact H1|exact H2]. Qed.

Lemma rok_define st x v st' : define st x v = Some st' -> rok st -> rok st'.
Proof.
  unfold define. destruct (venv st); [discriminate|]. intro H; injection H as <-. apply rok_set_venv.
Qed.
Lemma rok_alloc st c a st' : alloc st c = (a, st') -> rok st -> rok st'.
Proof. unfold alloc. intro H; injection H as _ <-. apply rok_set_heap. Qed.
Lemma rok_read_line st l st' : read_line st = (l, st') -> rok st -> rok st'.
Proof.
  unfold read_line. destruct (take_while _ (stdin_ st)). intro H; injection H as _ <-. apply rok_set_stdin.
Qed.
Lemma rok_after_times st ab st' : after_times st = Some (ab, st') -> rok st -> rok st'.
Proof.
  unfold after_times. destruct (retv st); [intro H; injection H as _ <-; auto|].
  destruct (loops st) as [|[b c] r]; [discriminate|].
  destruct c; [|destruct b]; intro H; injection H as _ <-; auto.
Qed.
Lemma rok_after_until st ab fl st' : after_until st = Some (ab, fl, st') -> rok st -> rok st'.
Proof.
  unfold after_until. destruct (retv st); [intro H; injection H as _ _ <-; auto|].
  destruct (loops st) as [|[b c] r]; [discriminate|].
  destruct b; [|destruct c]; intro H; injection H as _ _ <-; auto.
Qed.

Create HintDb rok.
Hint Resolve rok_set_venv rok_set_exports rok_set_retv rok_set_loops rok_set_heap rok_set_out
  rok_set_stdin rok_emit rok_heap_set rok_push_loop rok_set_fs rok_set_orc : rok.
Hint Extern 1 (rok ?s') =>
  match goal with H : define _ _ _ = Some s' |- _ => apply (rok_define _ _ _ _ H) end : rok.
Hint Extern 1 (rok ?s') =>
  match goal with H : alloc _ _ = (_, s') |- _ => apply (rok_alloc _ _ _ _ H) end : rok.
Hint Extern 1 (rok ?s') =>
  match goal with H : read_line _ = (_, s') |- _ => apply (rok_read_line _ _ _ H) end : rok.
Hint Extern 1 (rok ?s') =>
  match goal with H : after_times _ = Some (_, s') |- _ => apply (rok_after_times _ _ _ H) end : rok.
Hint Extern 1 (rok ?s') =>
  match goal with H : after_until _ = Some (_, _, s') |- _ => apply (rok_after_until _ _ _ _ H) end : rok.

Ltac rok_tac :=
  repeat match goal with
         | |- rok (match ?x with _ => _ end) => destruct x
         | |- rok (if ?x then _ else _) => destruct x
         end;
  solve [eauto 12 with rok].

Lemma goodK_mono {A} (P Q : rt_kind -> Ast.span -> Prop) (r : res A) :
  (forall k sp, P k sp -> Q k sp) -> goodK P r -> goodK Q r.
Proof. intro H. destruct r; cbn [goodK]; auto. Qed.

Lemma goodK_rbind {A B} P (m : res A) (k : A -> state -> res B) :
  goodK P m -> (forall x st1, rok st1 -> goodK P (k x st1)) -> goodK P (rbind m k).
Proof. intros Hm Hk. destruct m; cbn [rbind goodK] in *; auto. Qed.

Create HintDb goodk.

(** [err] closes the goals [P k sp] at the error sites *)
Ltac good_step err :=
  cbv zeta;
  lazymatch goal with
  | |- goodK _ (ROk _ _) => cbn [goodK]; rok_tac
  | |- goodK _ (RErr _ _ _) => cbn [goodK]; cbv beta; err
  | |- goodK _ (RExit _) => exact I
  | |- goodK _ (RPanic _ _) => exact I
  | |- goodK _ RFuel => exact I
  | |- goodK _ (rbind _ _) => let x := fresh "x" in let st1 := fresh "st" in let Hok := fresh "Hok" in
    apply goodK_rbind; [| intros x st1 Hok]
  | |- goodK _ (match ?x with _ => _ end) => let Hcase := fresh "Hcase" in first [is_var x; destruct x | destruct x eqn:Hcase]
  | |- goodK _ _ => solve [eauto 4 with goodk rok | eauto 8 with goodk rok]
  end.
Ltac good_auto err := repeat (good_step err).
Ltac no_err := fail.

(** ** the library *)
Lemma display_good P st v nl : rok st -> goodK (A := value) P (display st v nl).
Proof. intro H. unfold display. good_auto no_err. Qed.
Lemma new_list_good P st items : rok st -> goodK P (new_list st items).
Proof. intro H. unfold new_list. good_auto no_err. Qed.
Lemma truthy_r_good P v st : rok st -> goodK P (truthy_r v st).
Proof. intro H. unfold truthy_r. good_auto no_err. Qed.
Lemma pop_loop_good P st : rok st -> goodK P (pop_loop st).
Proof. intro H. unfold pop_loop. good_auto no_err. Qed.
Hint Resolve display_good new_list_good truthy_r_good pop_loop_good : goodk.

(** the cast prologue: an InvalidCast / InvalidObject error at the range of the offending argument *)
Lemma check_args_kinds : forall sig args spans st,
  match check_args sig args spans st with
  | ROk _ st' => st' = st /\ ((length sig <= length args)%nat -> (length sig <= length spans)%nat)
  | RErr k sp _ => ~ call_kind k /\ In sp spans
  | _ => True
  end.
Proof.
  induction sig as [|k sig IH]; intros args spans st.
  - cbn [check_args]. split; [reflexivity|]. cbn [length]. lia.
  - destruct args as [|v args]; [exact I|]. destruct spans as [|sp spans]; [exact I|].
    cbn [check_args]. cbv zeta. specialize (IH args spans st).
    assert (Hok : match check_args sig args spans st with
                  | ROk _ st' => st' = st /\ ((length (k :: sig) <= length (v :: args))%nat ->
                                               (length (k :: sig) <= length (sp :: spans))%nat)
                  | RErr k0 sp0 _ => ~ call_kind k0 /\ In sp0 (sp :: spans)
                  | _ => True
                  end).
    { destruct (check_args sig args spans st); auto.
      - destruct IH as [E L]. split; [exact E|]. cbn [length]. lia.
      - destruct IH as [IH1 IH2]. split; [exact IH1|right; exact IH2]. }
    assert (Hc : ~ call_kind InvalidCast /\ In sp (sp :: spans)).
    { split; [intros [Hk|Hk]; discriminate|left; reflexivity]. }
    assert (Ho : ~ call_kind InvalidObject /\ In sp (sp :: spans)).
    { split; [intros [Hk|Hk]; discriminate|left; reflexivity]. }
    destruct k, v; try exact Hok; try exact Hc.
    destruct o; destruct (heap_get (heap st) a) as [[| |]|]; try exact Hok; exact Ho.
Qed.

Lemma apply_binop_good op tok a b st : rok st ->
  goodK (fun k sp => operator_kind k /\ sp = tok) (apply_binop op tok a b st).
Proof.
  intros H. unfold apply_binop.
  destruct (find _ binop_arms) as [r|] eqn:Ef; [|exact I].
  apply find_some in Ef as [Hin _]. pose proof binop_arms_kinds as Hk.
  rewrite Forall_forall in Hk. specialize (Hk r Hin).
  destruct (ba_act r); good_auto ltac:(split; [exact Hk|reflexivity]).
Qed.

Lemma apply_unop_good op tok v st : rok st ->
  goodK (fun k sp => operator_kind k /\ sp = tok) (apply_unop op tok v st).
Proof.
  intros H. unfold apply_unop.
  destruct (find _ unop_arms) as [r|] eqn:Ef; [|exact I].
  apply find_some in Ef as [Hin _]. pose proof unop_arms_kinds as Hk.
  rewrite Forall_forall in Hk. specialize (Hk r Hin).
  destruct (ua_act r); good_auto ltac:(split; [exact Hk|reflexivity]).
Qed.

(** the bodies of the natives: an error of a non-call class at the range of the second argument *)
Lemma native_body_good m name args spans st : rok st ->
  goodK (fun k sp => ~ call_kind k /\ sp = nth_span spans 1 /\ (2 <= length args)%nat)
        (native_body m name args spans st).
Proof.
  intro H. unfold native_body.
  good_auto ltac:(split; [intros [Hk|Hk]; discriminate|split; [reflexivity|cbn [length]; lia]]).
  (* STRING.JOIN: the accumulating loop over the items *)
  match goal with |- goodK _ (?F ?items ?acc) => is_fix F;
    repeat match goal with H : list_at _ _ = Some items |- _ => clear H end;
    generalize acc; induction items as [|x r IHr]; intros acc0 end.
  - good_auto no_err.
  - good_auto no_err.
Qed.

Lemma fs_call_good name args st : rok st -> goodK (fun _ _ => False) (fs_call name args st).
Proof. intro H. unfold fs_call. good_auto no_err. Qed.

Lemma native_call_good m name sig args spans st :
  rok st -> length sig = length args ->
  goodK (fun k sp => ~ call_kind k /\ In sp spans) (native_call m name sig args spans st).
Proof.
  intros H Hlen. unfold native_call.
  pose proof (check_args_kinds sig args spans st) as Hc.
  destruct (check_args sig args spans st) as [u st1|k sp st1|st1|site st1|]; cbn [rbind goodK]; try exact I.
  - destruct Hc as [-> Hl]. destruct (str_eq m "FS").
    + eapply goodK_mono; [|apply fs_call_good; exact H]. intros k sp [].
    + eapply goodK_mono; [|apply native_body_good; exact H]. cbv beta. intros k sp (Hk & -> & L).
      split; [exact Hk|]. unfold nth_span. apply nth_In. lia.
  - exact Hc.
Qed.

(** ** tables of procedures *)
Lemma ft_get_in t x f : tbl_in t -> ft_get t x = Some f -> fn_in f.
Proof.
  unfold tbl_in. induction t as [|[y g] t IH]; cbn [ft_get]; intros Hw H; [discriminate|].
  inversion Hw; subst. destruct (text_eqb x y); [inversion H; subst; auto | auto].
Qed.
Lemma ft_remove_in t x : tbl_in t -> tbl_in (ft_remove t x).
Proof.
  unfold tbl_in. induction t as [|[y g] t IH]; cbn [ft_remove]; intros Hw; auto.
  inversion Hw; subst. destruct (text_eqb x y); [auto | constructor; auto].
Qed.
Lemma ft_set_in t x f : tbl_in t -> fn_in f -> tbl_in (ft_set t x f).
Proof. intros Hw Hf. unfold ft_set. constructor; auto. apply ft_remove_in; auto. Qed.
Lemma ft_extend_in more : forall t, tbl_in t -> tbl_in more -> tbl_in (ft_extend t more).
Proof.
  unfold ft_extend. induction more as [|[y g] more IH]; cbn [fold_left]; intros t Ht Hm; auto.
  inversion Hm; subst. apply IH; auto. apply ft_set_in; auto.
Qed.
Lemma module_table_in m : tbl_in (module_table m).
Proof.
  unfold module_table, tbl_in. apply Forall_forall. intros x Hx.
  apply in_map_iff in Hx. destruct Hx as [e [<- _]]. exact I.
Qed.
Lemma tbl_in_rev t : tbl_in t -> tbl_in (rev t).
Proof. apply Forall_rev. Qed.

Lemma rok_bind_params : forall (pvs : list (text * value)) st, rok st ->
  rok (fold_left (fun s pv => match define s (fst pv) (snd pv) with Some s' => s' | None => s end) pvs st).
Proof.
  induction pvs as [|pv pvs IH]; intros st H; cbn [fold_left]; [exact H|].
  apply IH. destruct (define st (fst pv) (snd pv)) as [s'|] eqn:Hd; [|exact H].
  exact (rok_define _ _ _ _ Hd H).
Qed.

Notation good := (goodK lblK).

(** ** the statement helpers, under hypotheses on the recursive calls *)
Section HelpersGood.
  Variable ev : expr -> state -> res value.
  Variable ex : stmt -> state -> res unit.
  Hypothesis Hev : forall e st, in_e e -> rok st -> good (ev e st).
  Hypothesis Hex : forall s st, in_s s -> rok st -> good (ex s st).

  Lemma eval_args_good : forall es st, Forall in_e es -> rok st -> good (eval_args ev es st).
  Proof.
    induction es as [|e es IH]; intros st Hs H; cbn [eval_args]; [good_auto no_err|].
    inversion Hs; subst. good_auto no_err.
  Qed.

  Lemma block_stmts_good : forall ss st, Forall in_s ss -> rok st -> good (block_stmts ex ss st).
  Proof.
    induction ss as [|s ss IH]; intros st Hs H; cbn [block_stmts]; [good_auto no_err|].
    inversion Hs; subst. good_auto no_err.
  Qed.

  Lemma block_top_good : forall ss st, Forall in_s ss -> rok st -> good (block_top ex ss st).
  Proof.
    induction ss as [|s ss IH]; intros st Hs H; cbn [block_top]; [good_auto no_err|].
    inversion Hs; subst. good_auto no_err.
  Qed.

  Lemma times_loop_good : forall k n body st, in_s body -> rok st -> good (times_loop ex k n body st).
  Proof.
    induction k as [|k IH]; intros n body st Hb H; cbn [times_loop]; good_auto no_err.
  Qed.

  Lemma until_loop_good : forall k c body st, in_e c -> in_s body -> rok st -> good (until_loop ev ex k c body st).
  Proof.
    induction k as [|k IH]; intros c body st Hc Hb H; cbn [until_loop]; good_auto no_err.
  Qed.

  Lemma each_loop_good : forall k a x i len body st, in_s body -> rok st -> good (each_loop ex k a x i len body st).
  Proof.
    induction k as [|k IH]; intros a x i len body st Hb H; cbn [each_loop]; good_auto no_err.
    apply IH; [exact Hb|rok_tac].
  Qed.
End HelpersGood.
Hint Resolve eval_args_good block_stmts_good block_top_good times_loop_good until_loop_good each_loop_good : goodk.

(** the node [n] of the program raises the error *)
Ltac own_tac Hself :=
  eexists; split; [exact Hself|];
  cbn [own_label]; unfold operator_kind, index_kind, call_kind, import_kind; auto 10.

Lemma eval_exec_good : forall f,
  (forall e st, in_e e -> rok st -> good (eval f e st)) /\
  (forall s st, in_s s -> rok st -> good (exec f s st)).
Proof.
  induction f as [|f [IHe IHx]]; split; [intros; exact I|intros; exact I| |].
  - intros e st Hin H. pose proof (in_e_self _ Hin) as Hself.
    destruct e; cbn [eval].
    + (* EGroup *) apply in_e_group in Hin. good_auto no_err.
    + good_auto no_err.
    + good_auto no_err.
    + good_auto no_err.
    + good_auto no_err.
    + good_auto no_err.
    + (* EBin *)
      apply in_e_bin in Hin as [Hl Hr].
      apply goodK_rbind; [auto|]. intros a st1 Hok1.
      apply goodK_rbind; [auto|]. intros b st2 Hok2.
      eapply goodK_mono; [|apply apply_binop_good; exact Hok2].
      cbv beta. intros k sp [Hk ->]. exists (NE (EBin op tok e1 e2)). split; [exact Hself|].
      cbn [own_label]. auto.
    + (* ELog *)
      apply in_e_log in Hin as [Hl Hr]. good_auto no_err.
    + (* EUn *)
      apply in_e_un in Hin.
      apply goodK_rbind; [auto|]. intros a st1 Hok1.
      eapply goodK_mono; [|apply apply_unop_good; exact Hok1].
      cbv beta. intros k sp [Hk ->]. exists (NE (EUn op tok e)). split; [exact Hself|].
      cbn [own_label]. auto.
    + (* ECall *)
      apply in_e_call in Hin.
      apply goodK_rbind; [apply eval_args_good; auto|]. intros vs st1 Hok.
      destruct (ft_get (funcs st1) name) as [fnv|] eqn:Eg; [|good_auto ltac:(own_tac Hself)].
      pose proof (ft_get_in _ _ _ (proj2 Hok) Eg) as Hfn.
      destruct fnv as [params body|m nm sig]; cbv zeta.
      * cbn [fn_in] in Hfn.
        destruct (N.of_nat (length params) <? 256); [|exact I].
        destruct (Nat.eqb (length params) (length vs)); [|good_auto ltac:(own_tac Hself)].
        apply goodK_rbind.
        -- apply IHx; [exact Hfn|]. apply rok_bind_params. rok_tac.
        -- intros u st4 Hok4. good_auto no_err.
      * destruct (Nat.eqb (length sig) (length vs)) eqn:En; [|good_auto ltac:(own_tac Hself)].
        apply Nat.eqb_eq in En.
        eapply goodK_mono; [|apply native_call_good; [exact Hok|exact En]].
        cbv beta. intros k sp [Hk Hsp]. eexists. split; [exact Hself|].
        cbn [own_label]. right; right. split; assumption.
    + (* EAccess *)
      apply in_e_access in Hin as [Hl Hr]. good_auto ltac:(own_tac Hself).
    + (* EList *)
      apply in_e_list in Hin. good_auto no_err.
    + (* EVar *)
      good_auto ltac:(own_tac Hself).
    + (* EAssign *)
      apply in_e_assign in Hin. good_auto no_err.
    + (* ESet *)
      apply in_e_set in Hin as (Hl & Hi & Hv). good_auto ltac:(own_tac Hself).
  - intros s st Hin H. pose proof (in_s_self _ Hin) as Hself.
    destruct s as [e|c t e|ct n body|c body|x it lt l body|name exported params body|ss|[e|]| | |modname mtok only];
      cbn [exec].
    + apply in_s_expr in Hin. good_auto no_err.
    + apply in_s_if in Hin as (Hc & Ht & He). destruct e as [e|]; good_auto no_err.
    + apply in_s_times in Hin as (Hc & Hb). good_auto ltac:(own_tac Hself).
    + apply in_s_until in Hin as (Hc & Hb). good_auto no_err.
    + apply in_s_each in Hin as (Hl & Hb). good_auto ltac:(own_tac Hself).
    + (* PROCEDURE *)
      apply in_s_proc in Hin.
      assert (Hst1 : rok (set_funcs st (ft_set (funcs st) name (FUser params body)))).
      { apply rok_set_funcs; [exact H|]. apply ft_set_in; [apply H|]. cbn [fn_in]; assumption. }
      cbn [goodK]. destruct exported; [apply rok_set_exports|]; exact Hst1.
    + apply in_s_block in Hin. good_auto no_err.
    + apply in_s_return in Hin. good_auto no_err.
    + good_auto no_err.
    + good_auto no_err.
    + good_auto no_err.
    + (* IMPORT *)
      match goal with |- goodK _ (rbind ?m ?k) =>
        assert (Hm : match m with ROk table st' => rok st' /\ tbl_in table | RErr k0 sp _ => lblK k0 sp | _ => True end) end.
      { destruct (existsb _ module_registry).
        - split; [exact H|]. destruct (find _ module_registry); [apply module_table_in|constructor].
        - cbv zeta. destruct H as [Hf _]. rewrite Hf. cbn [find].
          destruct (negb _); own_tac Hself. }
      match goal with |- goodK _ (rbind ?m ?k) => destruct m as [table st1|k0 sp st1|st1|site st1|] end;
        cbn [rbind goodK]; try exact I; [|exact Hm].
      destruct Hm as [Hok Htbl].
      destruct only as [names|]; [|cbn [goodK]; apply rok_set_funcs; [exact Hok|apply ft_extend_in; [apply Hok|exact Htbl]]].
      assert (Hnames : forall sp, In sp (map snd names) -> lblK InvalidFunction sp).
      { intros sp Hsp. eexists. split; [exact Hself|]. cbn [own_label]. split; [|right; exact Hsp].
        unfold import_kind. auto 10. }
      clear Hself Hin.
      assert (Hacc : tbl_in []) by constructor. revert Htbl Hacc. generalize (@nil (text * fn)). generalize table.
      induction names as [|[n sp] names IHn]; intros tbl acc Htbl Hacc.
      * cbn [goodK]. apply rok_set_funcs; [exact Hok|]. apply ft_extend_in; [apply Hok|apply tbl_in_rev; exact Hacc].
      * destruct (ft_get tbl n) as [fnv|] eqn:Eg; [|cbn [goodK]; apply Hnames; left; reflexivity].
        apply IHn; [intros sp0 Hsp0; apply Hnames; right; exact Hsp0|apply ft_remove_in; exact Htbl|].
        constructor; [exact (ft_get_in _ _ _ Htbl Eg)|exact Hacc].
Qed.

Lemma run_good : forall fuel st0, rok st0 -> good (run_impl fuel prog st0).
Proof.
  intros fuel st0 H. unfold run_impl. apply block_top_good; [apply eval_exec_good| |exact H].
  apply Forall_forall. intros s Hs. apply in_s_top; exact Hs.
Qed.
End Roles.

Lemma label_roles : forall ts prog fuel st0 k sp st,
  parse_tokens ts = ParseOk prog ->
  o_files (orc st0) = [] ->
  Forall (fun p => match snd p with FNative _ _ _ => True | FUser _ _ => False end) (funcs st0) ->
  run_impl fuel prog st0 = RErr k sp st ->
  exists n, sub_prog n prog /\ own_label n k sp.
Proof.
  intros ts prog fuel st0 k sp st _ Hf Hn Hr.
  assert (H : rok prog st0).
  { split; [exact Hf|]. eapply Forall_impl; [|exact Hn]. intros [x fnv]. cbn [snd].
    destruct fnv; [intros []|intros _; exact I]. }
  pose proof (run_good prog fuel st0 H) as Hg. rewrite Hr in Hg. exact Hg.
Qed.
