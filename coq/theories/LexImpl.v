(** LexImpl: executable model of src/lexer/lexer.rs (Lexer::scan_tokens), driven by the
    tables regenerated from the source (Gen/Generated.v).
    The cursor is (byte offset, remaining text): after the F7 repair the Rust cursor is a
    byte offset that always rests on a character boundary.  No proofs here. *)
From Aplang Require Import Base FloatX Token.
From Aplang.Gen Require Import Generated.
Open Scope N_scope.

(** Unicode classification is not re-derived: [is_alnum] stands for char::is_alphanumeric.
    For execution it is instantiated by [uni_alnum] below. *)
Definition ascii_digit (c : N) : bool := (48 <=? c) && (c <=? 57).
Definition ascii_alpha (c : N) : bool := ((65 <=? c) && (c <=? 90)) || ((97 <=? c) && (c <=? 122)).

(* the non-ASCII alphanumeric characters the generators use *)
Definition alnum_extra : list N :=
  [233; 201; 955; 923; 223; 20013; 1635; 241; 252; 1078; 12354; 178; 189; 170; 181; 186; 8544; 65313].
(* e-acute E-acute lambda Lambda sharp-s zhong arabic-3 n-tilde u-umlaut zhe hiragana-a
   superscript-2 one-half ordinal-a micro ordinal-o roman-numeral-one fullwidth-A *)
Definition uni_alnum (c : N) : bool :=
  if c <? 128 then ascii_digit c || ascii_alpha c else existsb (N.eqb c) alnum_extra.

Section Lexer.
  Variable is_alnum : N -> bool.

  Definition ident_char (c : N) : bool := is_alnum c || (c =? 95).

  (* longest prefix whose characters satisfy p: (prefix, rest) *)
  Fixpoint span (p : N -> bool) (s : text) : text * text :=
    match s with
    | [] => ([], [])
    | c :: r => if p c then let '(a, b) := span p r in (c :: a, b) else ([], s)
    end.

  (** string(): the cursor is just after the opening quote.
      Result: the decoded value, the raw text consumed (without the opening quote), the rest. *)
  Inductive str_result :=
  | StrOk (value raw rest : text)            (* closing quote consumed; raw includes it *)
  | StrBadEscape (raw rest : text)           (* returned mid-string: raw = consumed incl. the backslash *)
  | StrUnterminated (raw : text).            (* reached the end of input *)

  Fixpoint string_body (s : text) (value raw : text) (* both reversed *) : str_result :=
    match s with
    | [] => StrUnterminated (rev raw)
    | c :: r =>
      if c =? 34 then StrOk (rev value) (rev (c :: raw)) r
      else if c =? 92 then
        match r with
        | [] => StrBadEscape (rev (c :: raw)) []
        | e :: r' =>
          match assoc_N e escapes with
          | Some v => string_body r' (v :: value) (e :: c :: raw)
          | None => StrBadEscape (rev (c :: raw)) r
          end
        end
      else string_body r (c :: value) (c :: raw)
    end.

  Definition mk (k : tk) (off : N) (lexeme : text) (l : literal) : token :=
    mkToken k off (byte_len lexeme) lexeme l.

  (** one call of scan_token at a non-empty input: what it produced and where it stopped *)
  Inductive scan_result :=
  | STok (t : token) (rest : text)
  | SSkip (consumed rest : text)                (* blanks, comments, continuation, ignored newline *)
  | SErr (e : lex_error) (consumed rest : text).

  Definition scan_token (c : N) (r : text) (off : N) (prev : option tk) : scan_result :=
    match assoc_N c single_char_tokens with
    | Some k => STok (mk k off [c] LNone) r
    | None =>
    match assoc_N c compound_tokens with
    | Some (alts, fallback) =>
      match r with
      | d :: r' =>
        match assoc_N d alts with
        | Some k => STok (mk k off [c; d] LNone) r'
        | None =>
          match fallback with
          | Some k => STok (mk k off [c] LNone) r
          | None => SErr (mkLexError (if c =? 33 then EBang else EEquals) [(off, 1)]) [c] r
          end
        end
      | [] =>
        match fallback with
        | Some k => STok (mk k off [c] LNone) r
        | None => SErr (mkLexError (if c =? 33 then EBang else EEquals) [(off, 1)]) [c] r
        end
      end
    | None =>
    if c =? 47 then                                    (* '/' *)
      match r with
      | 47 :: r' => let '(body, rest) := span (fun x => negb (x =? 10)) r' in SSkip (c :: 47 :: body) rest
      | _ => STok (mk TSlash off [c] LNone) r
      end
    else if c =? 92 then                               (* '\\' *)
      match r with
      | 10 :: r' => SSkip [c; 10] r'
      | _ => SErr (mkLexError EBackslash [(off, 1)]) [c] r
      end
    else if existsb (N.eqb c) blank_chars then SSkip [c] r
    else if c =? 10 then
      match prev with
      | Some k => if tk_in k end_set then STok (mk TSoftSemi off [c] LNone) r else SSkip [c] r
      | None => SSkip [c] r
      end
    else if c =? 34 then
      match string_body r [] [] with
      | StrOk v raw rest => STok (mk TStringLiteral off (c :: raw) (LStr v)) rest
      | StrBadEscape raw rest => SErr (mkLexError EInvalidEscape []) (c :: raw) rest
      | StrUnterminated raw =>
        SErr (mkLexError EUnterminated [(off, 0); (off, byte_len (c :: raw))]) (c :: raw) []
      end
    else if ascii_digit c then
      let '(ds, rest) := span ascii_digit r in
      match rest with
      | 46 :: d :: rest' =>
        if ascii_digit d then
          let '(fs, rest'') := span ascii_digit rest' in
          STok (mk TNumber off ((c :: ds) ++ 46 :: d :: fs) (LNum (literal_float (c :: ds) (d :: fs)))) rest''
        else STok (mk TNumber off (c :: ds) (LNum (literal_float (c :: ds) []))) rest
      | _ => STok (mk TNumber off (c :: ds) (LNum (literal_float (c :: ds) []))) rest
      end
    else if is_alnum c then
      let '(cs, rest) := span ident_char r in
      let lexeme := c :: cs in
      match assoc_text lexeme keywords with
      | Some k => STok (mk k off lexeme LNone) rest
      | None => STok (mk TIdentifier off lexeme LNone) rest
      end
    else SErr (mkLexError EUnknownSymbol [(off, utf8_len c)]) [c] r
    end end.

  Definition eof_lexeme : text := [60; 69; 79; 70; 62].

  (** scan_tokens: [last] is the offset at which the most recent scan_token call started
      (the Eof token is placed there) *)
  Fixpoint scan (fuel : nat) (s : text) (off last : N) (prev : option tk)
           (toks : list token) (errs : list lex_error)  (* both reversed *)
    : outcome (list token * list lex_error) :=
    match s with
    | [] => Ok (rev (mkToken TEof last 0 eof_lexeme LNone :: toks), rev errs)
    | c :: r =>
      match fuel with
      | O => OutOfFuel
      | S f =>
        match scan_token c r off prev with
        | STok t rest => scan f rest (off + tlen t) off (Some (tkind t)) (t :: toks) errs
        | SSkip consumed rest => scan f rest (off + byte_len consumed) off prev toks errs
        | SErr e consumed rest => scan f rest (off + byte_len consumed) off prev toks (e :: errs)
        end
      end
    end.

  Inductive lex_result :=
  | LexOk (ts : list token)
  | LexErr (es : list lex_error)
  | LexFuel.

  Definition lex_with (fuel : nat) (s : text) : lex_result :=
    match scan fuel s 0 0 None [] [] with
    | OutOfFuel => LexFuel
    | Ok (ts, []) => LexOk ts
    | Ok (_, es) => LexErr es
    end.

  Definition lex_gen (s : text) : lex_result := lex_with (length s) s.
End Lexer.

Definition lex (s : text) : lex_result := lex_gen uni_alnum s.
