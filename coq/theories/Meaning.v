(** Meaning: what a source text means — the whole pipeline (scanner, parser, evaluator models) up to
    the byte ranges that only say where in the text a diagnostic points.  No proofs here. *)
From Aplang Require Import Base FloatX Token Ast Tables Value LexImpl ParseImpl EvalImpl EvalSpec Erase.
Open Scope N_scope.

Definition forget_label (e : ending) : ending :=
  match e with EndErr k _ => EndErr k z0 | other => other end.

(** the displayed bytes and the ending, without the label's range *)
Definition observe_nospan {A} (r : res A) : option (text * ending) :=
  match observe r with Some (o, e) => Some (o, forget_label e) | None => None end.

Inductive meaning_t :=
| MLexErr (kinds : list lex_err_kind)
| MLexFuel
| MParseErr (codes : list pcode)
| MParsePanic (site : psite)
| MParseFuel
| MRun (o : option (text * ending)).     (* None: the evaluator's fuel ran out *)

Definition parse_meaning (r : parse_result) (run : list stmt -> option (text * ending)) : meaning_t :=
  match r with
  | ParseOk p => MRun (run p)
  | ParseErr es => MParseErr (map pe_code es)
  | ParsePanic s => MParsePanic s
  | ParseFuel => MParseFuel
  end.

Definition meaning (is_alnum : N -> bool) (fuel : nat) (s : text) (st0 : state) : meaning_t :=
  match lex_gen is_alnum s with
  | LexErr es => MLexErr (map ekind es)
  | LexFuel => MLexFuel
  | LexOk ts => parse_meaning (parse_tokens ts) (fun p => observe_nospan (run_impl fuel p st0))
  end.

(** two parse results that differ only in byte ranges *)
Definition parse_sim (r1 r2 : parse_result) : Prop :=
  match r1, r2 with
  | ParseOk p1, ParseOk p2 => erase_prog p1 = erase_prog p2
  | ParseErr e1, ParseErr e2 => map pe_code e1 = map pe_code e2
  | ParsePanic s1, ParsePanic s2 => s1 = s2
  | ParseFuel, ParseFuel => True
  | _, _ => False
  end.
