(** PipelineProofs: the front-end and evaluator no-panic results composed over the whole pipeline. *)
From Aplang Require Import Base FloatX Token Ast Tables Value LexImpl LexProofs ParseImpl ParseSpec ParseProofs EvalImpl EvalSpec NoPanic.

Lemma pipeline_no_panic : forall a s,
  match lex_gen a s with
  | LexOk ts =>
    match parse_tokens ts with
    | ParseOk p => forall fuel o i orc0 d site st, run_impl fuel p (fresh_state [] o i orc0 d) <> RPanic site st
    | ParsePanic _ => False
    | _ => True
    end
  | _ => True
  end.
Proof.
  intros a s. destruct (lex_gen a s) as [ts|es|] eqn:L; [|exact I|exact I].
  pose proof (lex_output_shaped a s ts L) as Hs.
  destruct (parse_tokens ts) as [p|es|site|] eqn:P; try exact I.
  - intros fuel o i orc0 d site st.
    apply (run_no_panic_gen parse_prog_ok); [eapply parse_prog_ok; exact P | apply fresh_state_ok].
  - exact (parse_no_panic ts Hs site P).
Qed.
