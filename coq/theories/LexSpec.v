(** LexSpec: the reference lexical grammar, written independently of the scanner.
    - [lexical_error]: the five error classes of the property statement, as a
      character-at-a-time automaton;
    - [Lexes]: the relational grammar (trivia rules, one rule per token class with its
      maximal-munch side condition, the newline rule indexed by the previous token);
    - [spans_ok]: what "exact spans" means.
    The reference tables ([ref_*]) are written out here and compared with the tables
    regenerated from the source (Gen/Generated.v) by theorems in Props. *)
From Aplang Require Import Base FloatX Token.
Open Scope N_scope.

(** ** reference tables *)
Definition ref_end_set : list tk :=
  [TIdentifier; TNumber; TStringLiteral; TNull; TTrue; TFalse; TBreak; TContinue; TReturn;
   TRightParen; TRightBracket; TRightBrace].

Definition ref_escapes : list (N * N) := [(110, 10); (114, 13); (116, 9); (92, 92); (34, 34)].

Definition ref_single : list (N * tk) :=
  [(40, TLeftParen); (41, TRightParen); (91, TLeftBracket); (93, TRightBracket); (123, TLeftBrace);
   (125, TRightBrace); (44, TComma); (46, TDot); (45, TMinus); (43, TPlus); (42, TStar); (59, TSoftSemi)].

Definition ref_blanks : list N := [32; 13; 9].

Definition ref_keyword_names : list (string * tk) :=
  [("mod", TMod); ("if", TIf); ("else", TElse); ("repeat", TRepeat); ("times", TTimes); ("until", TUntil);
   ("for", TFor); ("each", TEach); ("continue", TContinue); ("break", TBreak); ("in", TIn);
   ("procedure", TProcedure); ("return", TReturn); ("not", TNot); ("and", TAnd); ("or", TOr);
   ("true", TTrue); ("false", TFalse); ("null", TNull); ("import", TImport); ("export", TExport);
   ("from", TFrom)]%string.

Definition upper_ascii (c : N) : N := if (97 <=? c) && (c <=? 122) then c - 32 else c.

(* every keyword in its lower-case and its UPPER-case spelling *)
Definition ref_keywords : list (text * tk) :=
  flat_map (fun p => let w := string_bytes (fst p) in [(w, snd p); (map upper_ascii w, snd p)]) ref_keyword_names.

Definition is_digit (c : N) : bool := (48 <=? c) && (c <=? 57).

Section Spec.
  Variable is_alnum : N -> bool.

  Definition id_char (c : N) : bool := is_alnum c || (c =? 95).

  (** ** the error predicate *)
  Inductive lstate :=
  | QCode          (* between lexemes *)
  | QWord          (* inside an identifier / keyword *)
  | QNum           (* inside the digits of a number *)
  | QBang          (* after '!' *)
  | QEq            (* after a '=' that does not complete ==, !=, <=, >= *)
  | QLt            (* after '<' *)
  | QGt            (* after '>' *)
  | QSlash         (* after '/' *)
  | QComment
  | QBack          (* after a backslash outside a string *)
  | QStr
  | QStrEsc.       (* after a backslash inside a string *)

  (* step in "code position" (the previous lexeme is complete): Some new state, or None = error *)
  Definition code_step (c : N) : option lstate :=
    if c =? 34 then Some QStr
    else if c =? 92 then Some QBack
    else if c =? 33 then Some QBang
    else if c =? 61 then Some QEq
    else if c =? 60 then Some QLt
    else if c =? 62 then Some QGt
    else if c =? 47 then Some QSlash
    else if existsb (N.eqb c) [40; 41; 91; 93; 123; 125; 44; 46; 45; 43; 42; 59; 32; 13; 9; 10] then Some QCode
    else if is_digit c then Some QNum
    else if is_alnum c then Some QWord
    else None.

  Fixpoint err_from (q : lstate) (s : text) : bool :=
    match s with
    | [] =>
      match q with
      | QBang | QEq | QBack | QStr | QStrEsc => true      (* lone ! or =, dangling backslash, open string *)
      | _ => false
      end
    | c :: r =>
      match q with
      | QCode | QLt | QGt | QSlash | QWord | QNum =>
        (* characters that continue the pending lexeme *)
        if (match q with
            | QWord => id_char c
            | QNum => is_digit c
            | _ => false end) then err_from q r
        else if (match q with QLt => (c =? 61) || (c =? 45) | QGt => c =? 61 | _ => false end) then err_from QCode r
        else if (match q with QSlash => c =? 47 | _ => false end) then err_from QComment r
        else match code_step c with Some q' => err_from q' r | None => true end
      | QBang => if c =? 61 then err_from QCode r else true
      | QEq => if c =? 61 then err_from QCode r else true
      | QComment => if c =? 10 then err_from QCode r else err_from QComment r
      | QBack => if c =? 10 then err_from QCode r else true
      | QStr => if c =? 34 then err_from QCode r else if c =? 92 then err_from QStrEsc r else err_from QStr r
      | QStrEsc => if existsb (N.eqb c) [110; 114; 116; 92; 34] then err_from QStr r else true
      end
    end.

  Definition lexical_error (s : text) : bool := err_from QCode s.

  (** ** the relational grammar *)

  (* the decoded value of a string body (between the quotes) *)
  Fixpoint unescape (body : text) : option text :=
    match body with
    | [] => Some []
    | 92 :: e :: r =>
      match assoc_N e ref_escapes, unescape r with
      | Some v, Some t => Some (v :: t)
      | _, _ => None
      end
    | [92] => None
    | c :: r => if c =? 34 then None else option_map (cons c) (unescape r)
    end.

  Definition starts_with_p (p : N -> bool) (s : text) : bool :=
    match s with c :: _ => p c | [] => false end.

  (* trivia: text that produces no token *)
  Inductive Trivia (prev : option tk) : text -> text -> Prop :=
  | T_blank : forall c rest, In c ref_blanks -> Trivia prev [c] rest
  | T_comment : forall body rest,
      forallb (fun x => negb (x =? 10)) body = true ->
      starts_with_p (fun x => negb (x =? 10)) rest = false ->
      Trivia prev (47 :: 47 :: body) rest
  | T_continuation : forall rest, Trivia prev [92; 10] rest
  | T_newline : forall rest,
      (match prev with Some k => tk_in k ref_end_set | None => false end) = false ->
      Trivia prev [10] rest.

  (* [Tok prev off w rest t]: the text [w], followed by [rest], is the single token [t] at offset [off] *)
  Inductive Tok (prev : option tk) (off : N) : text -> text -> token -> Prop :=
  | K_single : forall c k rest,
      assoc_N c ref_single = Some k ->
      Tok prev off [c] rest (mkToken k off 1 [c] LNone)
  | K_bangeq : forall rest, Tok prev off [33; 61] rest (mkToken TBangEqual off 2 [33; 61] LNone)
  | K_eqeq : forall rest, Tok prev off [61; 61] rest (mkToken TEqualEqual off 2 [61; 61] LNone)
  | K_le : forall rest, Tok prev off [60; 61] rest (mkToken TLessEqual off 2 [60; 61] LNone)
  | K_arrow : forall rest, Tok prev off [60; 45] rest (mkToken TArrow off 2 [60; 45] LNone)
  | K_lt : forall rest,
      starts_with_p (fun x => (x =? 61) || (x =? 45)) rest = false ->
      Tok prev off [60] rest (mkToken TLess off 1 [60] LNone)
  | K_ge : forall rest, Tok prev off [62; 61] rest (mkToken TGreaterEqual off 2 [62; 61] LNone)
  | K_gt : forall rest,
      starts_with_p (fun x => x =? 61) rest = false ->
      Tok prev off [62] rest (mkToken TGreater off 1 [62] LNone)
  | K_slash : forall rest,
      starts_with_p (fun x => x =? 47) rest = false ->
      Tok prev off [47] rest (mkToken TSlash off 1 [47] LNone)
  | K_newline : forall k rest,
      prev = Some k -> tk_in k ref_end_set = true ->
      Tok prev off [10] rest (mkToken TSoftSemi off 1 [10] LNone)
  | K_string : forall body v rest,
      unescape body = Some v ->
      Tok prev off (34 :: body ++ [34]) rest
          (mkToken TStringLiteral off (byte_len (34 :: body ++ [34])) (34 :: body ++ [34]) (LStr v))
  | K_int : forall ds rest,
      ds <> [] -> forallb is_digit ds = true ->
      starts_with_p is_digit rest = false ->
      (* a fraction would be consumed: "." followed by a digit *)
      (match rest with 46 :: d :: _ => is_digit d | _ => false end) = false ->
      Tok prev off ds rest (mkToken TNumber off (byte_len ds) ds (LNum (literal_float ds [])))
  | K_frac : forall ds fs rest,
      ds <> [] -> forallb is_digit ds = true -> fs <> [] -> forallb is_digit fs = true ->
      starts_with_p is_digit rest = false ->
      Tok prev off (ds ++ 46 :: fs) rest
          (mkToken TNumber off (byte_len (ds ++ 46 :: fs)) (ds ++ 46 :: fs) (LNum (literal_float ds fs)))
  | K_word : forall c cs rest k,
      is_alnum c = true -> is_digit c = false -> forallb id_char cs = true ->
      starts_with_p id_char rest = false ->
      k = match assoc_text (c :: cs) ref_keywords with Some kw => kw | None => TIdentifier end ->
      Tok prev off (c :: cs) rest (mkToken k off (byte_len (c :: cs)) (c :: cs) LNone).

  Definition eof_token (last : N) : token := mkToken TEof last 0 [60; 69; 79; 70; 62] LNone.

  (* [Lexes prev off last s ts]: scanning [s], which starts at byte offset [off], after a token of
     kind [prev], yields [ts]; [last] is where the previous lexeme (token or trivia) started *)
  Inductive Lexes : option tk -> N -> N -> text -> list token -> Prop :=
  | L_eof : forall prev off last, Lexes prev off last [] [eof_token last]
  | L_trivia : forall prev off last w rest ts,
      Trivia prev w rest ->
      Lexes prev (off + byte_len w) off rest ts ->
      Lexes prev off last (w ++ rest) ts
  | L_token : forall prev off last w rest t ts,
      Tok prev off w rest t ->
      Lexes (Some (tkind t)) (off + byte_len w) off rest ts ->
      Lexes prev off last (w ++ rest) (t :: ts).

  Definition Tokenises (s : text) (ts : list token) : Prop := Lexes None 0 0 s ts.
End Spec.

(** ** exact spans *)

(* [t] is the text of the source at byte offset [toff t]: a character-boundary-respecting slice *)
Definition slice_ok (s : text) (t : token) : Prop :=
  exists pre post, s = pre ++ tlex t ++ post /\ byte_len pre = toff t /\ byte_len (tlex t) = tlen t.

Fixpoint increasing (ts : list token) : Prop :=
  match ts with
  | t1 :: ((t2 :: _) as r) => toff t1 + tlen t1 <= toff t2 /\ increasing r
  | _ => True
  end.

Definition spans_ok (s : text) (ts : list token) : Prop :=
  exists body eof,
    ts = body ++ [eof] /\
    tkind eof = TEof /\ tlen eof = 0 /\ toff eof <= byte_len s /\
    (exists pre post, s = pre ++ post /\ byte_len pre = toff eof) /\   (* on a character boundary *)
    Forall (fun t => tkind t <> TEof /\ 0 < tlen t /\ slice_ok s t) body /\
    increasing body.

(* a diagnostic label (offset, length) lies inside the source on character boundaries *)
Definition label_ok (s : text) (l : N * N) : Prop :=
  exists pre mid post, s = pre ++ mid ++ post /\ byte_len pre = fst l /\ byte_len mid = snd l.
