(** MapProofs: the MAP module of the evaluator model (EvalImpl.v: [map_find], [map_put], the MAP
    arms of [native_body], the cast prologue [check_args]) as a finite map under the key equality
    [key_eq] of Value.v.  The lemmas here are the ones Props/C16.v closes its theorems with.
    [PrimFloat.eqb] stays opaque; its symmetry comes from the stdlib specification
    [FloatAxioms.eqb_spec]. *)
From Coq Require Import Floats.
From Aplang Require Import Base FloatX Token Ast Tables Value StrLib EvalImpl.
From Aplang.Gen Require Import Generated.

(** ** tactics: evaluate the string tests of [native_body] and nothing else *)
Ltac map_str_tests :=
  repeat match goal with
         | |- context [str_eq ?a ?b] =>
           let r := eval vm_compute in (str_eq a b) in change (str_eq a b) with r
         end.

Ltac map_native_step := unfold native_body; map_str_tests; cbv beta iota zeta.

(** ** the association list as a finite map *)
Lemma insert_get_same (st : state) : forall m k v,
  key_eq (key_fuel st) (heap st) k k = true ->
  map_find st (map_put st m k v) k = Some v.
Proof.
  intros m k v Hrefl.
  induction m as [|[k0 v0] r IH]; cbn [map_find map_put length].
  - rewrite Hrefl. reflexivity.
  - destruct (key_eq (key_fuel st) (heap st) k0 k) eqn:Hk0; cbn [map_find map_put]; rewrite Hk0.
    + reflexivity.
    + exact IH.
Qed.

Lemma insert_get_other (st : state) : forall m k v k',
  key_eq (key_fuel st) (heap st) k k' = false ->
  (forall a b c, key_eq (key_fuel st) (heap st) a b = true ->
                 key_eq (key_fuel st) (heap st) a c = key_eq (key_fuel st) (heap st) b c) ->
  (forall a b, key_eq (key_fuel st) (heap st) a b = key_eq (key_fuel st) (heap st) b a) ->
  map_find st (map_put st m k v) k' = map_find st m k'.
Proof.
  intros m k v k' Hne Hcong Hsym.
  induction m as [|[k0 v0] r IH]; cbn [map_find map_put length].
  - rewrite Hne. reflexivity.
  - destruct (key_eq (key_fuel st) (heap st) k0 k) eqn:Hk0; cbn [map_find map_put length].
    + rewrite (Hcong k0 k k' Hk0). rewrite Hne. reflexivity.
    + destruct (key_eq (key_fuel st) (heap st) k0 k') eqn:Hk0'.
      * reflexivity.
      * exact IH.
Qed.

Lemma insert_size (st : state) : forall m k v,
  length (map_put st m k v) =
  (match map_find st m k with Some _ => length m | None => S (length m) end).
Proof.
  intros m k v.
  induction m as [|[k0 v0] r IH]; cbn [map_find map_put length].
  - reflexivity.
  - destruct (key_eq (key_fuel st) (heap st) k0 k) eqn:Hk0; cbn [map_find map_put length].
    + reflexivity.
    + rewrite IH. destruct (map_find st r k) as [old|]; reflexivity.
Qed.

Lemma combine_fst_snd : forall (A B : Type) (m : list (A * B)), combine (map fst m) (map snd m) = m.
Proof.
  intros A B m. induction m as [|[x y] r IH]; simpl.
  - reflexivity.
  - rewrite IH. reflexivity.
Qed.

Lemma keys_values_exact : forall (m : list (value * value)) k v,
  In (k, v) (combine (map fst m) (map snd m)) <-> In (k, v) m.
Proof.
  intros m k v. rewrite combine_fst_snd. reflexivity.
Qed.

(** ** the key equality *)

(* symmetry of the specification-level float equality *)
Lemma SFcompare_antisym : forall x y,
  SFcompare y x = match SFcompare x y with Some c => Some (CompOpp c) | None => None end.
Proof.
  intros x y.
  destruct x as [sx|sx| |sx mx ex]; destruct y as [sy|sy| |sy my ey]; simpl;
    try reflexivity;
    try (destruct sx; reflexivity);
    try (destruct sy; reflexivity);
    try (destruct sx; destruct sy; reflexivity).
  destruct sx; destruct sy; try reflexivity.
  - rewrite (Z.compare_antisym ex ey).
    destruct (ex ?= ey)%Z eqn:Hexp; simpl; try reflexivity.
    change (Pos.compare_cont Eq mx my) with (Pos.compare mx my).
    change (Pos.compare_cont Eq my mx) with (Pos.compare my mx).
    rewrite (Pos.compare_antisym my mx). destruct (my ?= mx)%positive; reflexivity.
  - rewrite (Z.compare_antisym ex ey).
    destruct (ex ?= ey)%Z eqn:Hexp; simpl; try reflexivity.
    change (Pos.compare_cont Eq mx my) with (Pos.compare mx my).
    change (Pos.compare_cont Eq my mx) with (Pos.compare my mx).
    rewrite (Pos.compare_antisym my mx). destruct (my ?= mx)%positive; reflexivity.
Qed.

Lemma SFeqb_sym : forall x y, SFeqb x y = SFeqb y x.
Proof.
  intros x y. unfold SFeqb. rewrite (SFcompare_antisym x y).
  destruct (SFcompare x y) as [[| |]|]; reflexivity.
Qed.

Lemma float_eqb_sym : forall x y : float, PrimFloat.eqb x y = PrimFloat.eqb y x.
Proof.
  intros x y. rewrite (FloatAxioms.eqb_spec x y), (FloatAxioms.eqb_spec y x). apply SFeqb_sym.
Qed.

Lemma bool_eqb_sym : forall x y : bool, Bool.eqb x y = Bool.eqb y x.
Proof. intros [|] [|]; reflexivity. Qed.

Lemma text_eqb_sym : forall x y : text, text_eqb x y = text_eqb y x.
Proof.
  intros x. induction x as [|c x IH]; intros [|d y]; simpl; try reflexivity.
  rewrite (N.eqb_sym c d), (IH y). reflexivity.
Qed.

Lemma key_eq_sym : forall f h a b, key_eq f h a b = key_eq f h b a.
Proof.
  intros f h. induction f as [|f IH]; intros a b.
  - destruct a as [|x|x|x|x|x]; destruct b as [|y|y|y|y|y]; simpl; try reflexivity.
    + apply float_eqb_sym.
    + apply bool_eqb_sym.
    + apply text_eqb_sym.
    + apply Nat.eqb_sym.
  - destruct a as [|x|x|x|x|x]; destruct b as [|y|y|y|y|y]; simpl; try reflexivity.
    + apply float_eqb_sym.
    + apply bool_eqb_sym.
    + apply text_eqb_sym.
    + destruct (list_at h x) as [lx|]; destruct (list_at h y) as [ly|]; try reflexivity.
      revert ly. induction lx as [|u r1 IHl]; intros [|w r2]; try reflexivity.
      rewrite (IH u w), (IHl r2). reflexivity.
    + apply Nat.eqb_sym.
Qed.

Lemma key_eq_refl_scalar : forall f h k,
  match k with VNum x => PrimFloat.eqb x x = true | VList _ => False | _ => True end ->
  key_eq f h k k = true.
Proof.
  intros f h k Hk.
  destruct k as [|x|x|x|x|x]; destruct f as [|f]; simpl; try reflexivity; try exact Hk;
    try (destruct Hk; fail);
    try (destruct x; reflexivity);
    try apply text_eqb_refl;
    try apply Nat.eqb_refl.
Qed.

(** ** the procedures *)
Lemma map_insert_spec : forall spans st a m k v, heap_get (heap st) a = Some (CMap m) ->
  native_body "MAP" "MAP_INSERT" [VObj a; k; v] spans st =
    ROk (match map_find st m k with Some old => old | None => VNull end)
        (heap_set st a (CMap (map_put st m k v))).
Proof.
  intros spans st a m k v Hcell. map_native_step. rewrite Hcell. reflexivity.
Qed.

Lemma map_get_spec : forall spans st a m k, heap_get (heap st) a = Some (CMap m) ->
  native_body "MAP" "MAP_GET" [VObj a; k] spans st =
    ROk (match map_find st m k with Some v => v | None => VNull end) st.
Proof.
  intros spans st a m k Hcell. map_native_step. rewrite Hcell. reflexivity.
Qed.

Lemma map_contains_spec : forall spans st a m k, heap_get (heap st) a = Some (CMap m) ->
  native_body "MAP" "MAP_CONTAINS_KEY" [VObj a; k] spans st =
    ROk (VBool (match map_find st m k with Some _ => true | None => false end)) st.
Proof.
  intros spans st a m k Hcell. map_native_step. rewrite Hcell. reflexivity.
Qed.

Lemma maps_independent : forall st a c a', a' <> a ->
  heap_get (heap (heap_set st a c)) a' = heap_get (heap st) a'.
Proof.
  intros st a c a' Hne. unfold heap_set, set_heap, heap_get. simpl.
  apply nth_error_update_nth_neq. intro Heq. apply Hne. symmetry. exact Heq.
Qed.

Lemma non_map_is_error : forall name sig v rest spans st sp sps,
  In ("MAP"%string, name, KObj OMap :: sig) Generated.std_sigs -> spans = sp :: sps ->
  (forall a, v <> VObj a) ->
  native_call "MAP" name (KObj OMap :: sig) (v :: rest) spans st = RErr InvalidCast sp st.
Proof.
  intros name sig v rest spans st sp sps Hsig Hspans Hnot.
  subst spans. unfold native_call.
  destruct v as [|x|x|x|x|x]; simpl; try reflexivity.
  exfalso. exact (Hnot x eq_refl).
Qed.

(** ** F18b: keys closer than epsilon *)
Lemma near_keys_refuted :
  exists x y, equals (VNum x) (VNum y) = Some true /\ key_eq 1 [] (VNum x) (VNum y) = false.
Proof.
  exists 0x1.3333333333333p-2%float, 0x1.3333333333334p-2%float.
  split; vm_compute; reflexivity.
Qed.
