(** EvalSpec: the reference semantics the properties C01-C03 talk about, written as simply as
    possible: a big-step evaluator in which control flow is a *signal*
    ([Normal | Break | Continue | Return v]) instead of flags and a return slot, a block is just
    a sequence (no scope copies), and a procedure body runs in a fresh one-scope environment.
    Values, the heap, the operator tables and the native procedures are shared with the
    implementation model (Value.v, EvalImpl.v); fuel is spent at the same nodes, so that the
    refinement theorem (Refine.v) is an equality for every fuel.  No proofs here. *)
From Aplang Require Import Base FloatX Token Ast Tables Robot Value StrLib LexImpl ParseImpl EvalImpl.
From Aplang.Gen Require Import Generated.
Open Scope N_scope.

Inductive signal := Normal | Break | Continue | Return (v : value).

(* the one scope of the running activation *)
Definition cur_scope (st : state) : scope := match venv st with s :: _ => s | [] => [] end.
Definition with_scope (st : state) (s : scope) : state := set_venv st [s].

Section SpecHelpers.
  Variable ev : expr -> state -> res value.
  Variable ex : stmt -> state -> res signal.

  (* a sequence of statements: stop at the first signal that is not Normal *)
  Fixpoint s_block (ss : list stmt) (st : state) : res signal :=
    match ss with
    | [] => ROk Normal st
    | s :: r =>
      let* sg, st1 <- ex s st;
      match sg with Normal => s_block r st1 | _ => ROk sg st1 end
    end.

  (* REPEAT n TIMES: Break ends the loop, Continue and Normal go on, Return propagates *)
  Fixpoint s_times (k : nat) (n : N) (body : stmt) (st : state) : res signal :=
    match k with O => RFuel | S k' =>
    if n =? 0 then ROk Normal st else
    let* sg, st1 <- ex body st;
    match sg with
    | Break => ROk Normal st1
    | Return v => ROk (Return v) st1
    | _ => s_times k' (n - 1) body st1
    end end.

  (* REPEAT UNTIL: the condition is tested before every iteration *)
  Fixpoint s_until (k : nat) (c : expr) (body : stmt) (st : state) : res signal :=
    match k with O => RFuel | S k' =>
    let* v, st1 <- ev c st;
    let* t, st2 <- truthy_r v st1;
    if t then ROk Normal st2 else
    let* sg, st3 <- ex body st2;
    match sg with
    | Break => ROk Normal st3
    | Return v => ROk (Return v) st3
    | _ => s_until k' c body st3
    end end.

  (* FOR EACH over the live cell [a]; a normally completed iteration writes the variable back *)
  Fixpoint s_each (k : nat) (a : nat) (x : text) (i len : nat) (body : stmt) (st : state) : res signal :=
    match k with O => RFuel | S k' =>
    if Nat.leb len i then ROk Normal st else
    match list_at (heap st) a with
    | None => RPanic PanicTable st
    | Some l =>
      match nth_error l i with
      | None => ROk Normal st
      | Some item =>
        let st1 := with_scope st (scope_set (cur_scope st) x item) in
        let* sg, st2 <- ex body st1;
        match sg with
        | Break => ROk Normal st2
        | Return v => ROk (Return v) st2
        | Continue => s_each k' a x (S i) len body st2
        | Normal =>
          match scope_get (cur_scope st2) x with
          | None => RPanic PanicForEachVar st2
          | Some v =>
            let st3 := with_scope st2 (scope_remove (cur_scope st2) x) in
            let st4 := match list_at (heap st3) a with
                       | Some l' => if Nat.ltb i (length l') then heap_set st3 a (CList (update_nth l' i v)) else st3
                       | None => st3
                       end in
            s_each k' a x (S i) len body st4
          end
        end
      end
    end end.

  (* the statements of a program (or of a module), in order *)
  Fixpoint s_top (ss : list stmt) (st : state) : res unit :=
    match ss with
    | [] => ROk tt st
    | s :: r => let* _sg, st1 <- ex s st; s_top r st1
    end.
End SpecHelpers.

Fixpoint seval (fuel : nat) (e : expr) (st : state) {struct fuel} : res value :=
  match fuel with O => RFuel | S f =>
  match e with
  | EGroup e1 => seval f e1 st
  | ENum x => ROk (VNum x) st
  | EStr s => ROk (VStr s) st
  | ETrue => ROk (VBool true) st
  | EFalse => ROk (VBool false) st
  | ENull => ROk VNull st
  | EBin op tok l r =>
    let* a, st1 <- seval f l st;
    let* b, st2 <- seval f r st1;
    apply_binop op tok a b st2
  | ELog op tok l r =>
    let* a, st1 <- seval f l st;
    let* t, st2 <- truthy_r a st1;
    (* OR yields its left operand when that is truthy, AND when it is not; else the right operand *)
    let short := match op with LOr => t | LAnd => negb t end in
    if short then ROk a st2 else seval f r st2
  | EUn op tok e1 =>
    let* v, st1 <- seval f e1 st;
    apply_unop op tok v st1
  | ECall name tok lp rp spans args =>
    (* arguments left to right, then lookup, then the arity, then the body *)
    let* vs, st1 <- eval_args (seval f) args st;
    match ft_get (funcs st1) name with
    | None => RErr InvalidProcedure tok st1
    | Some fnv =>
      let n := match fnv with FUser params _ => length params | FNative _ _ sig => length sig end in
      if negb (Nat.eqb n (length vs)) then RErr IncorrectArgs (interior lp rp) st1
      else
        match fnv with
        | FNative m nm sig => native_call m nm sig vs spans st1
        | FUser params body =>
          (* the body runs in a fresh scope holding only the parameters; the caller's
             environment is restored exactly afterwards *)
          let caller := venv st1 in
          let callee := fold_left (fun sc pv => scope_set sc (fst pv) (snd pv)) (combine params vs) [] in
          let* sg, st2 <- sexec f body (with_scope st1 callee);
          ROk (match sg with Return v => v | _ => VNull end) (set_venv st2 caller)
        end
    end
  | EAccess lt lb rb le ke =>
    let* lv, st1 <- seval f le st;
    let* kv, st2 <- seval f ke st1;
    match kv with
    | VNum idx =>
      match lv with
      | VStr s => match nth_N s (index_of idx) with
                  | Some c => ROk (VStr [c]) st2
                  | None => RErr InvalidListIndex (interior lb rb) st2
                  end
      | VList a =>
        match list_at (heap st2) a with
        | Some l => match nth_N l (index_of idx) with
                    | Some v => ROk v st2
                    | None => RErr InvalidListIndex (interior lb rb) st2
                    end
        | None => RPanic PanicTable st2
        end
      | _ => RErr InvalidType lt st2
      end
    | _ => RErr InvalidIndex (interior lb rb) st2
    end
  | EList lb rb items =>
    let* vs, st1 <- eval_args (seval f) items st;
    new_list st1 vs
  | EVar name tok =>
    match scope_get (cur_scope st) name with
    | None => RErr InvalidVariable tok st
    | Some v => ROk v st
    end
  | EAssign name tok arrow ve =>
    let* v, st1 <- seval f ve st;
    (* rebinding: no cell changes *)
    ROk v (with_scope st1 (scope_set (cur_scope st1) name v))
  | ESet lt lb rb arrow le ie ve =>
    let* lv, st1 <- seval f le st;
    let* iv, st2 <- seval f ie st1;
    let* v, st3 <- seval f ve st2;
    match lv with
    | VList a =>
      match iv with
      | VNum idx =>
        match list_at (heap st3) a with
        | Some l =>
          let k := index_of idx in
          if k <? N.of_nat (length l) then ROk v (heap_set st3 a (CList (update_nth l (N.to_nat k) v)))
          else RErr InvalidListIndex (interior lb rb) st3
        | None => RPanic PanicTable st3
        end
      | _ => RErr InvalidIndex (interior lb rb) st3
      end
    | _ => RErr InvalidType lt st3
    end
  end end

with sexec (fuel : nat) (s : stmt) (st : state) {struct fuel} : res signal :=
  match fuel with O => RFuel | S f =>
  match s with
  | SExpr e => let* _v, st1 <- seval f e st; ROk Normal st1
  | SIf c t e =>
    (* exactly the one branch selected by the truthiness of the condition *)
    let* v, st1 <- seval f c st;
    let* b, st2 <- truthy_r v st1;
    if b then sexec f t st2
    else match e with Some e1 => sexec f e1 st2 | None => ROk Normal st2 end
  | SRepeatTimes ctok n body =>
    (* n is evaluated once; the body runs floor(n) times (none for n <= 0 or NaN) *)
    let* v, st1 <- seval f n st;
    match v with
    | VNum c => s_times (sexec f) f (to_usize c) body st1
    | _ => RErr InvalidCount ctok st1
    end
  | SRepeatUntil c body => s_until (seval f) (sexec f) f c body st
  | SForEach x itok ltok le body =>
    let* lv, st1 <- seval f le st;
    let* a, st2 <-
      (match lv with
       | VList a => ROk a st1
       | VStr s => let '(a, st') := alloc st1 (CList (map (fun c => VStr [c]) s)) in ROk a st'
       | _ => RErr InvalidIterator ltok st1
       end);
    (* an outer variable of the same name is set aside and restored afterwards *)
    let outer := scope_get (cur_scope st2) x in
    let st3 := with_scope st2 (scope_remove (cur_scope st2) x) in
    let len := match list_at (heap st3) a with Some l => length l | None => 0%nat end in
    let* sg, st4 <- s_each (sexec f) f a x 0 len body st3;
    ROk sg (match outer with
            | Some v => with_scope st4 (scope_set (cur_scope st4) x v)
            | None => st4
            end)
  | SProc name exported params body =>
    let fnv := FUser params body in
    let st1 := set_funcs st (ft_set (funcs st) name fnv) in
    ROk Normal (if exported then set_exports st1 (ft_set (exports st1) name fnv) else st1)
  | SBlock ss => s_block (sexec f) ss st
  | SReturn e =>
    match e with
    | None => ROk (Return VNull) st
    | Some e1 => let* v, st1 <- seval f e1 st; ROk (Return v) st1
    end
  | SContinue => ROk Continue st
  | SBreak => ROk Break st
  | SImport modname mtok only =>
    let* table, st1 <-
      (if existsb (fun m => text_eqb (string_bytes m) modname) module_registry then
         ROk (match find (fun m => text_eqb (string_bytes m) modname) module_registry with
              | Some m => module_table m | None => [] end) st
       else
         let p := path_join (path st) modname in
         if negb (has_ap_extension p) then RErr ModuleNotFound mtok st
         else match find (fun e => text_eqb (fst e) p) (o_files (orc st)) with
              | None => RErr ModuleFileMissing mtok st
              | Some (_, src) =>
                match lex src with
                | LexOk ts =>
                  match parse_tokens ts with
                  | ParseOk prog =>
                    let ms := fresh_state (heap st) (out st) (stdin_ st) (orc st) (dirname p) in
                    let* _u, ms1 <- s_top (sexec f) prog ms;
                    ROk (exports ms1)
                        (set_orc (set_stdin (set_out (set_heap st (heap ms1)) (out ms1)) (stdin_ ms1)) (orc ms1))
                  | _ => RErr ModuleInvalid mtok st
                  end
                | _ => RErr ModuleInvalid mtok st
                end
              end)
      ;
    match only with
    | None => ROk Normal (set_funcs st1 (ft_extend (funcs st1) table))
    | Some names =>
      (fix pick (ns : list (text * Ast.span)) (tbl acc : ftable) : res signal :=
         match ns with
         | [] => ROk Normal (set_funcs st1 (ft_extend (funcs st1) (rev acc)))
         | (n, sp) :: r =>
           match ft_get tbl n with
           | None => RErr InvalidFunction sp st1
           | Some fnv => pick r (ft_remove tbl n) ((n, fnv) :: acc)
           end
         end) names table []
    end
  end end.

(** running a whole program *)
Definition run_spec (fuel : nat) (prog : list stmt) (st0 : state) : res unit := s_top (sexec fuel) prog st0.
Definition run_impl (fuel : nat) (prog : list stmt) (st0 : state) : res unit := block_top (exec fuel) prog st0.

(** what a run shows: the bytes displayed and how it ended (error class and label) *)
Inductive ending := EndOk | EndErr (k : rt_kind) (sp : Ast.span) | EndExit | EndPanic | EndFuel.
Definition observe {A} (r : res A) : option (text * ending) :=
  match r with
  | ROk _ st => Some (output_of st, EndOk)
  | RErr k sp st => Some (output_of st, EndErr k sp)
  | RExit st => Some (output_of st, EndExit)
  | RPanic _ st => Some (output_of st, EndPanic)
  | RFuel => None
  end.
