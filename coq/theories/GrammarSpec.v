(** GrammarSpec: the grammar as a relation between a segment of the token sequence and the tree
    built from it, with every byte range the tree stores tied to the token it comes from.
    [DExpr seg e]: the tokens [seg], in this order and with nothing else, were consumed to build
    [e].  The relation does not encode precedence (that is C05's subject): it says which tokens
    a node owns and where its stored ranges come from — the operator token sits between the two
    operand segments, the brackets enclose the index, an argument's range is the gap between the
    separators around it, and so on.  [DProg ts p] is the same for a whole token sequence.
    No proofs here. *)
From Aplang Require Import Base FloatX Token Ast.
From Aplang.Gen Require Import Generated.
Open Scope N_scope.

Fixpoint assoc_kind {A} (k : tk) (l : list (tk * A)) : option A :=
  match l with [] => None | (k', v) :: r => if tk_eqb k k' then Some v else assoc_kind k r end.

Definition last_tok (seg : list token) (t : token) : Prop := exists pre, seg = pre ++ [t].

(* the ranges of the arguments of a call: gaps between consecutive separators ( lp , , ... rp ) *)
Fixpoint gaps (seps : list token) : list span :=
  match seps with
  | a :: ((b :: _) as r) => span_between (tspan a) (tspan b) :: gaps r
  | _ => []
  end.

Inductive DExpr : list token -> expr -> Prop :=
| D_num : forall t x, tkind t = TNumber -> tlit t = LNum x -> DExpr [t] (ENum x)
| D_str : forall t s, tkind t = TStringLiteral -> tlit t = LStr s -> DExpr [t] (EStr s)
| D_true : forall t, tkind t = TTrue -> DExpr [t] ETrue
| D_false : forall t, tkind t = TFalse -> DExpr [t] EFalse
| D_null : forall t, tkind t = TNull -> DExpr [t] ENull
| D_var : forall t, tkind t = TIdentifier -> DExpr [t] (EVar (tlex t) (tspan t))
| D_group : forall lp seg e rp, tkind lp = TLeftParen -> tkind rp = TRightParen -> DExpr seg e ->
    DExpr (lp :: seg ++ [rp]) (EGroup e)
| D_bin : forall segl t segr l r op, assoc_kind (tkind t) binop_of_token = Some op ->
    DExpr segl l -> DExpr segr r -> DExpr (segl ++ t :: segr) (EBin op (tspan t) l r)
| D_log : forall segl t segr l r op, (tkind t = TOr /\ op = LOr) \/ (tkind t = TAnd /\ op = LAnd) ->
    DExpr segl l -> DExpr segr r -> DExpr (segl ++ t :: segr) (ELog op (tspan t) l r)
| D_un : forall t seg e op, assoc_kind (tkind t) unop_of_token = Some op -> DExpr seg e ->
    DExpr (t :: seg) (EUn op (tspan t) e)
| D_call : forall name lp segs seps args rp,
    tkind name = TIdentifier -> tkind lp = TLeftParen -> tkind rp = TRightParen ->
    DItems segs seps args rp ->
    DExpr (name :: lp :: segs ++ [rp]) (ECall (tlex name) (tspan name) (tspan lp) (tspan rp) (gaps (lp :: seps)) args)
| D_list : forall lb segs seps items rb, tkind lb = TLeftBracket -> tkind rb = TRightBracket ->
    DItems segs seps items rb ->
    DExpr (lb :: segs ++ [rb]) (EList (tspan lb) (tspan rb) items)
| D_access : forall segb b lb segk k rb lt, tkind lb = TLeftBracket -> tkind rb = TRightBracket ->
    DExpr segb b -> DExpr segk k -> In lt segb ->
    DExpr (segb ++ lb :: segk ++ [rb]) (EAccess (tspan lt) (tspan lb) (tspan rb) b k)
| D_assign : forall name arrow segv v, tkind name = TIdentifier -> tkind arrow = TArrow -> DExpr segv v ->
    DExpr (name :: arrow :: segv) (EAssign (tlex name) (tspan name) (tspan arrow) v)
| D_set : forall segb b lb segi i rb arrow segv v lt,
    tkind lb = TLeftBracket -> tkind rb = TRightBracket -> tkind arrow = TArrow ->
    DExpr segb b -> DExpr segi i -> DExpr segv v -> In lt segb ->
    DExpr (segb ++ lb :: segi ++ rb :: arrow :: segv) (ESet (tspan lt) (tspan lb) (tspan rb) (tspan arrow) b i v)

(* [DItems segs seps es close]: comma-separated expressions; [seps] lists, for each expression, the
   token that follows it (a comma, or [close] after the last one); [segs] does not include [close] *)
with DItems : list token -> list token -> list expr -> token -> Prop :=
| DI_nil : forall close, DItems [] [] [] close
| DI_one : forall seg e close, DExpr seg e -> DItems seg [close] [e] close
| DI_cons : forall seg e comma segs seps es close, tkind comma = TComma -> DExpr seg e ->
    DItems segs seps es close -> es <> [] ->
    DItems (seg ++ comma :: segs) (comma :: seps) (e :: es) close.

Definition opt_semi (tail : list token) : Prop :=
  tail = [] \/ exists semi, tkind semi = TSoftSemi /\ tail = [semi].

Fixpoint idents (ts : list token) (names : list text) : Prop :=
  match ts, names with
  | [], [] => True
  | [t], [n] => tkind t = TIdentifier /\ tlex t = n
  | t :: c :: r, n :: ns => tkind t = TIdentifier /\ tlex t = n /\ tkind c = TComma /\ ns <> [] /\ idents r ns
  | _, _ => False
  end.

Fixpoint strings (ts : list token) (names : list (text * span)) : Prop :=
  match ts, names with
  | [t], [n] => tkind t = TStringLiteral /\ tlit t = LStr (fst n) /\ snd n = tspan t
  | t :: c :: r, n :: ns => tkind t = TStringLiteral /\ tlit t = LStr (fst n) /\ snd n = tspan t /\
                            tkind c = TComma /\ ns <> [] /\ strings r ns
  | _, _ => False
  end.

Inductive DStmt : list token -> stmt -> Prop :=
| DS_expr : forall seg e tail, DExpr seg e -> opt_semi tail -> DStmt (seg ++ tail) (SExpr e)
| DS_if : forall kw lp segc c rp segt t,
    tkind kw = TIf -> tkind lp = TLeftParen -> tkind rp = TRightParen ->
    DExpr segc c -> DStmt segt t ->
    DStmt (kw :: lp :: segc ++ rp :: segt) (SIf c t None)
| DS_if_else : forall kw lp segc c rp segt t el sege e,
    tkind kw = TIf -> tkind lp = TLeftParen -> tkind rp = TRightParen -> tkind el = TElse ->
    DExpr segc c -> DStmt segt t -> DStmt sege e ->
    DStmt (kw :: lp :: segc ++ rp :: segt ++ el :: sege) (SIf c t (Some e))
| DS_times : forall kw segn n times segb body ct,
    tkind kw = TRepeat -> tkind times = TTimes -> DExpr segn n -> last_tok segn ct -> DStmt segb body ->
    DStmt (kw :: segn ++ times :: segb) (SRepeatTimes (tspan ct) n body)
| DS_until : forall kw un lp segc c rp segb body,
    tkind kw = TRepeat -> tkind un = TUntil -> tkind lp = TLeftParen -> tkind rp = TRightParen ->
    DExpr segc c -> DStmt segb body ->
    DStmt (kw :: un :: lp :: segc ++ rp :: segb) (SRepeatUntil c body)
| DS_foreach : forall kw each item kin segl l segb body lt,
    tkind kw = TFor -> tkind each = TEach -> tkind item = TIdentifier -> tkind kin = TIn ->
    DExpr segl l -> last_tok segl lt -> DStmt segb body ->
    DStmt (kw :: each :: item :: kin :: segl ++ segb) (SForEach (tlex item) (tspan item) (tspan lt) l body)
| DS_proc : forall pre kw name lp ps params rp segb body exported,
    (exported = false /\ pre = []) \/ (exported = true /\ exists ex, tkind ex = TExport /\ pre = [ex]) ->
    tkind kw = TProcedure -> tkind name = TIdentifier -> tkind lp = TLeftParen -> tkind rp = TRightParen ->
    idents ps params -> DStmt segb body ->
    DStmt (pre ++ kw :: name :: lp :: ps ++ rp :: segb) (SProc (tlex name) exported params body)
| DS_block : forall lb segs ss rb, tkind lb = TLeftBrace -> tkind rb = TRightBrace -> DStmts segs ss ->
    DStmt (lb :: segs ++ [rb]) (SBlock ss)
| DS_return : forall kw tail, tkind kw = TReturn -> opt_semi tail -> DStmt (kw :: tail) (SReturn None)
| DS_return_val : forall kw seg e tail, tkind kw = TReturn -> DExpr seg e -> opt_semi tail ->
    DStmt (kw :: seg ++ tail) (SReturn (Some e))
| DS_continue : forall kw, tkind kw = TContinue -> DStmt [kw] SContinue
| DS_break : forall kw, tkind kw = TBreak -> DStmt [kw] SBreak
| DS_import_all : forall kw md name tail m,
    tkind kw = TImport -> tkind md = TMod -> tkind name = TStringLiteral -> tlit name = LStr m -> opt_semi tail ->
    DStmt (kw :: md :: name :: tail) (SImport m (tspan name) None)
| DS_import_one : forall kw one from md name tail m f,
    tkind kw = TImport -> tkind one = TStringLiteral -> tlit one = LStr f -> tkind from = TFrom ->
    tkind md = TMod -> tkind name = TStringLiteral -> tlit name = LStr m -> opt_semi tail ->
    DStmt (kw :: one :: from :: md :: name :: tail) (SImport m (tspan name) (Some [(f, tspan one)]))
| DS_import_list : forall kw lb ns names rb from md name tail m,
    tkind kw = TImport -> tkind lb = TLeftBracket -> tkind rb = TRightBracket -> strings ns names ->
    tkind from = TFrom -> tkind md = TMod -> tkind name = TStringLiteral -> tlit name = LStr m -> opt_semi tail ->
    DStmt (kw :: lb :: ns ++ rb :: from :: md :: name :: tail) (SImport m (tspan name) (Some names))

(* statements of a block / of the program, with any number of stray terminators between them *)
with DStmts : list token -> list stmt -> Prop :=
| DSS_nil : DStmts [] []
| DSS_semi : forall semi segs ss, tkind semi = TSoftSemi -> DStmts segs ss -> DStmts (semi :: segs) ss
| DSS_cons : forall seg s segs ss, DStmt seg s -> DStmts segs ss -> DStmts (seg ++ segs) (s :: ss).

Definition DProg (ts : list token) (p : list stmt) : Prop :=
  exists body eof, ts = body ++ [eof] /\ tkind eof = TEof /\ DStmts body p.
