(** LayoutProofs: every layout satisfying [layout_ok] scans to the tokens of its lexemes (C06b). *)
From Aplang Require Import Base FloatX Token LexImpl LexSpec LexProofs TableProofs Layout.
Open Scope N_scope.

(** * [no_fuse] without the nested pattern match *)

Definition nf_gen (a : N -> bool) (c : N) (w next : text) : bool :=
  if is_digit c then
    negb (starts_with_p is_digit next) &&
    (existsb (N.eqb 46) w || negb (match next with 46 :: d :: _ => is_digit d | _ => false end))
  else if a c then negb (starts_with_p (id_char a) next)
  else true.

Lemma no_fuse_cons a c r next :
  no_fuse a (c :: r) next =
  match r with
  | [] => if c =? 60 then negb (starts_with_p (fun x => (x =? 61) || (x =? 45)) next)
          else if c =? 62 then negb (starts_with_p (fun x => x =? 61) next)
          else if c =? 47 then negb (starts_with_p (fun x => x =? 47) next)
          else nf_gen a c [c] next
  | _ => nf_gen a c (c :: r) next
  end.
Proof. destruct r; (destruct c as [|p]; [reflexivity|split_pos p; reflexivity]). Qed.

Lemma no_fuse_gen a c r next : (c =? 60) = false -> (c =? 62) = false -> (c =? 47) = false ->
  no_fuse a (c :: r) next = nf_gen a c (c :: r) next.
Proof. intros H1 H2 H3. rewrite no_fuse_cons. destruct r; [rewrite H1, H2, H3|]; reflexivity. Qed.

Lemma digit_not_op c : is_digit c = true -> (c =? 60) = false /\ (c =? 62) = false /\ (c =? 47) = false /\ (46 =? c) = false.
Proof.
  unfold is_digit. intro H. apply andb_true_iff in H as [H1 H2].
  apply N.leb_le in H1, H2. repeat split; apply N.eqb_neq; lia.
Qed.

Lemma alnum_not_op a c : ascii_ok a -> a c = true -> (c =? 60) = false /\ (c =? 62) = false /\ (c =? 47) = false.
Proof.
  intros Ha H.
  repeat split;
    match goal with |- (c =? ?n) = false =>
      destruct (c =? n) eqn:E; [apply N.eqb_eq in E; subst c; rewrite Ha in H by reflexivity; discriminate H|reflexivity]
    end.
Qed.

Lemma digits_no_dot ds : forallb is_digit ds = true -> existsb (N.eqb 46) ds = false.
Proof.
  induction ds as [|c r IH]; cbn [forallb existsb]; intro H; [reflexivity|].
  apply andb_true_iff in H as [Hc Hr]. apply digit_not_op in Hc as (_ & _ & _ & Hc).
  rewrite Hc, IH by assumption. reflexivity.
Qed.

(** * A lexeme that is a token standing alone is the same token in front of text it does not fuse with *)

Lemma Tok_transport a prev w t off next : ascii_ok a ->
  Tok a prev 0 w [] t -> no_fuse a w next = true ->
  exists t', Tok a prev off w next t' /\ tok_view t' = tok_view t /\ tkind t' = tkind t.
Proof.
  intros Ha H Hnf. inversion H; subst.
  - (* single *) eexists; split; [eapply K_single; eassumption|split; reflexivity].
  - eexists; split; [apply K_bangeq|split; reflexivity].
  - eexists; split; [apply K_eqeq|split; reflexivity].
  - eexists; split; [apply K_le|split; reflexivity].
  - eexists; split; [apply K_arrow|split; reflexivity].
  - (* lt *) rewrite no_fuse_cons in Hnf. cbn [N.eqb Pos.eqb] in Hnf. apply negb_true_iff in Hnf.
    eexists; split; [apply K_lt; exact Hnf|split; reflexivity].
  - eexists; split; [apply K_ge|split; reflexivity].
  - (* gt *) rewrite no_fuse_cons in Hnf. cbn [N.eqb Pos.eqb] in Hnf. apply negb_true_iff in Hnf.
    eexists; split; [apply K_gt; exact Hnf|split; reflexivity].
  - (* slash *) rewrite no_fuse_cons in Hnf. cbn [N.eqb Pos.eqb] in Hnf. apply negb_true_iff in Hnf.
    eexists; split; [apply K_slash; exact Hnf|split; reflexivity].
  - (* newline *) eexists; split; [eapply K_newline; [reflexivity|eassumption]|split; reflexivity].
  - (* string *) eexists; split; [eapply K_string; eassumption|split; reflexivity].
  - (* int *)
    match goal with Hne : w <> [], Hd : forallb is_digit w = true |- _ =>
      destruct w as [|c r]; [congruence|];
      pose proof Hd as Hd'; cbn [forallb] in Hd'; apply andb_true_iff in Hd' as [Hc _];
      destruct (digit_not_op c Hc) as (E1 & E2 & E3 & _);
      rewrite (no_fuse_gen a c r next E1 E2 E3) in Hnf; unfold nf_gen in Hnf; rewrite Hc in Hnf;
      rewrite (digits_no_dot _ Hd) in Hnf; cbn [orb] in Hnf;
      apply andb_true_iff in Hnf as [Hn1 Hn2]; apply negb_true_iff in Hn1, Hn2;
      eexists; split; [apply K_int; [exact Hne|exact Hd|exact Hn1|exact Hn2]|split; reflexivity]
    end.
  - (* frac *)
    match goal with Hne : ds <> [], Hd : forallb is_digit ds = true |- _ =>
      destruct ds as [|c r]; [congruence|];
      pose proof Hd as Hd'; cbn [forallb] in Hd'; apply andb_true_iff in Hd' as [Hc _];
      destruct (digit_not_op c Hc) as (E1 & E2 & E3 & _);
      cbn [app] in Hnf;
      rewrite (no_fuse_gen a c _ next E1 E2 E3) in Hnf; unfold nf_gen in Hnf; rewrite Hc in Hnf;
      apply andb_true_iff in Hnf as [Hn1 _]; apply negb_true_iff in Hn1;
      eexists; split; [apply K_frac; [exact Hne|exact Hd|assumption|assumption|exact Hn1]|split; reflexivity]
    end.
  - (* word *)
    match goal with Hc : a c = true, Hd : is_digit c = false |- _ =>
      destruct (alnum_not_op a c Ha Hc) as (E1 & E2 & E3);
      rewrite (no_fuse_gen a c cs next E1 E2 E3) in Hnf; unfold nf_gen in Hnf; rewrite Hd, Hc in Hnf;
      apply negb_true_iff in Hnf;
      eexists; split; [apply K_word; [exact Hc|exact Hd|assumption|exact Hnf|reflexivity]|split; reflexivity]
    end.
Qed.

(** * A gap is a sequence of trivia steps *)

Lemma gap_lexes a (P : list token -> Prop) prev following g :
  gap_ok prev g following ->
  (forall off last, exists ts, Lexes a prev off last following ts /\ P ts) ->
  forall off last, exists ts, Lexes a prev off last (gap_text g ++ following) ts /\ P ts.
Proof.
  induction g as [|p g IH]; intros Hg Hf off last.
  - apply Hf.
  - unfold gap_text. cbn [flat_map]. change (flat_map piece_text g) with (gap_text g).
    rewrite <- app_assoc.
    destruct p as [c| | |body]; cbn [gap_ok] in Hg; cbn [piece_text].
    + destruct Hg as [Hc Hg].
      destruct (IH Hg Hf (off + byte_len [c]) off) as (ts & HL & HP).
      exists ts. split; [|exact HP].
      apply (L_trivia a prev off last [c] (gap_text g ++ following) ts); [apply T_blank; exact Hc|exact HL].
    + destruct (IH Hg Hf (off + byte_len [92; 10]) off) as (ts & HL & HP).
      exists ts. split; [|exact HP].
      apply (L_trivia a prev off last [92; 10] (gap_text g ++ following) ts); [apply T_continuation|exact HL].
    + destruct Hg as [Hn Hg].
      destruct (IH Hg Hf (off + byte_len [10]) off) as (ts & HL & HP).
      exists ts. split; [|exact HP].
      apply (L_trivia a prev off last [10] (gap_text g ++ following) ts); [apply T_newline; exact Hn|exact HL].
    + destruct Hg as (Hb & Hs & Hg).
      destruct (IH Hg Hf (off + byte_len (47 :: 47 :: body)) off) as (ts & HL & HP).
      exists ts. split; [|exact HP].
      apply (L_trivia a prev off last (47 :: 47 :: body) (gap_text g ++ following) ts);
        [apply T_comment; [exact Hb|exact Hs]|exact HL].
Qed.

(** * The rendered text of a layout is in the lexical grammar *)

Lemma layout_lexes a (Ha : ascii_ok a) trail : forall items prev, layout_ok a prev items trail ->
  forall off last, exists ts, Lexes a prev off last (render items trail) ts /\
    map tok_view ts = map (fun i : litem => tok_view (snd i)) items ++ [(TEof, LNone, [])].
Proof.
  induction items as [|[[g w] t] r IH]; intros prev Hok.
  - cbn [layout_ok render map app] in *. rewrite <- (app_nil_r (gap_text trail)).
    apply (gap_lexes a (fun ts => map tok_view ts = [(TEof, LNone, [])]) prev [] trail Hok).
    intros off last. eexists; split; [apply L_eof|reflexivity].
  - cbn [layout_ok] in Hok. destruct Hok as (Hg & Ht & Hnf & Hr).
    cbn [render]. unfold item_text. cbn [fst snd]. rewrite <- app_assoc.
    apply (gap_lexes a (fun ts => map tok_view ts =
             map (fun i : litem => tok_view (snd i)) ((g, w, t) :: r) ++ [(TEof, LNone, [])])
             prev (w ++ render r trail) g Hg).
    intros off last.
    destruct (Tok_transport a prev w t off (render r trail) Ha Ht Hnf) as (t' & Ht' & Hv & Hk).
    destruct (IH _ Hr (off + byte_len w) off) as (ts & HL & HV).
    rewrite <- Hk in HL.
    exists (t' :: ts). split.
    + apply (L_token a prev off last w (render r trail) t' ts Ht' HL).
    + cbn [map app snd]. rewrite Hv, HV. reflexivity.
Qed.

Lemma lex_render : forall a, ascii_ok a -> forall items trail,
  layout_ok a None items trail ->
  exists ts, lex_gen a (render items trail) = LexOk ts /\
             map tok_view ts = map (fun i : litem => tok_view (snd i)) items ++ [(TEof, LNone, [])].
Proof.
  intros a Ha items trail Hok.
  destruct (layout_lexes a Ha trail items None Hok 0 0) as (ts & HL & HV).
  exists ts. split; [|exact HV].
  apply (lex_ok_iff_grammar a Ha). exact HL.
Qed.

Lemma layouts_same_views : forall a, ascii_ok a -> forall items1 trail1 items2 trail2,
  layout_ok a None items1 trail1 -> layout_ok a None items2 trail2 ->
  map (fun i : litem => tok_view (snd i)) items1 = map (fun i : litem => tok_view (snd i)) items2 ->
  exists ts1 ts2, lex_gen a (render items1 trail1) = LexOk ts1 /\ lex_gen a (render items2 trail2) = LexOk ts2 /\
                  same_views ts1 ts2.
Proof.
  intros a Ha items1 trail1 items2 trail2 H1 H2 E.
  destruct (lex_render a Ha _ _ H1) as (ts1 & L1 & V1).
  destruct (lex_render a Ha _ _ H2) as (ts2 & L2 & V2).
  exists ts1, ts2. split; [exact L1|split; [exact L2|]].
  unfold same_views. rewrite V1, V2, E. reflexivity.
Qed.

(** * Keywords in both cases *)

Lemma alpha_facts a c : ascii_ok a -> ascii_alpha c = true ->
  a c = true /\ is_digit c = false /\ id_char a c = true.
Proof.
  intros Ha H. pose proof H as H'. unfold ascii_alpha in H'.
  apply orb_true_iff in H'. repeat rewrite andb_true_iff in H'. repeat rewrite N.leb_le in H'.
  assert (Hc : a c = true).
  { rewrite Ha by lia. rewrite H. apply orb_true_r. }
  split; [exact Hc|]. split.
  - unfold is_digit. apply andb_false_iff. repeat rewrite N.leb_gt. lia.
  - unfold id_char. rewrite Hc. reflexivity.
Qed.

Lemma word_tok a prev off w k : ascii_ok a -> w <> [] -> forallb ascii_alpha w = true ->
  assoc_text w ref_keywords = Some k ->
  Tok a prev off w [] (mkToken k off (byte_len w) w LNone).
Proof.
  intros Ha Hne Hw Hk. destruct w as [|c cs]; [congruence|].
  cbn [forallb] in Hw. apply andb_true_iff in Hw as [Hc Hcs].
  destruct (alpha_facts a c Ha Hc) as (H1 & H2 & _).
  apply K_word; [exact H1|exact H2| |reflexivity|rewrite Hk; reflexivity].
  apply forallb_forall. intros x Hx. rewrite forallb_forall in Hcs.
  apply (alpha_facts a x Ha (Hcs x Hx)).
Qed.

Definition kw_case_check (p : text * tk) : bool :=
  negb (text_eqb (fst p) []) &&
  forallb ascii_alpha (map upper_ascii (fst p)) && forallb ascii_alpha (map lower_ascii (fst p)) &&
  opt_eqb tk_eqb (assoc_text (map upper_ascii (fst p)) ref_keywords) (Some (snd p)) &&
  opt_eqb tk_eqb (assoc_text (map lower_ascii (fst p)) ref_keywords) (Some (snd p)) &&
  negb (tk_eqb (snd p) TIdentifier).

Lemma kw_case_checked : forallb kw_case_check ref_keywords = true.
Proof. vm_compute. reflexivity. Qed.

Lemma keyword_case_same_view : forall a, ascii_ok a -> forall prev w k,
  In (w, k) ref_keywords ->
  exists t1 t2, Tok a prev 0 (map upper_ascii w) [] t1 /\ Tok a prev 0 (map lower_ascii w) [] t2 /\
                tok_view t1 = tok_view t2 /\ tkind t1 = k.
Proof.
  intros a Ha prev w k Hin.
  pose proof kw_case_checked as H. rewrite forallb_forall in H. specialize (H _ Hin).
  unfold kw_case_check in H. cbn [fst snd] in H.
  repeat (apply andb_true_iff in H as [H ?]).
  match goal with
  | Hne : negb (text_eqb w []) = true,
    Hau : forallb ascii_alpha (map upper_ascii w) = true,
    Hal : forallb ascii_alpha (map lower_ascii w) = true,
    Hku : opt_eqb tk_eqb (assoc_text (map upper_ascii w) ref_keywords) (Some k) = true,
    Hkl : opt_eqb tk_eqb (assoc_text (map lower_ascii w) ref_keywords) (Some k) = true,
    Hid : negb (tk_eqb k TIdentifier) = true |- _ =>
    apply (opt_eqb_eq tk_eqb tk_eqb_true) in Hku, Hkl; apply negb_true_iff in Hid;
    assert (Hw : w <> []) by (intros ->; discriminate Hne);
    exists (mkToken k 0 (byte_len (map upper_ascii w)) (map upper_ascii w) LNone),
           (mkToken k 0 (byte_len (map lower_ascii w)) (map lower_ascii w) LNone);
    split; [apply word_tok; [exact Ha|destruct w; [congruence|discriminate]|exact Hau|exact Hku]|];
    split; [apply word_tok; [exact Ha|destruct w; [congruence|discriminate]|exact Hal|exact Hkl]|];
    split; [unfold tok_view; cbn [tkind tlit tlex]; rewrite Hid; reflexivity|reflexivity]
  end.
Qed.

(** * A concrete layout:   x <-// c⏎\⏎⇥1 +\⏎y //!   *)

Definition ex_items : list litem :=
  [ ([], [120], mkToken TIdentifier 0 1 [120] LNone);
    ([PBlank 32], [60; 45], mkToken TArrow 0 2 [60; 45] LNone);
    ([POpenComment [32; 99]; PNewline; PCont; PBlank 9], [49],
       mkToken TNumber 0 1 [49] (LNum (literal_float [49] [])));
    ([PBlank 32], [43], mkToken TPlus 0 1 [43] LNone);
    ([PCont], [121], mkToken TIdentifier 0 1 [121] LNone) ].

Definition ex_trail : list piece := [PBlank 32; POpenComment [33]].

Lemma ex_layout_ok : layout_ok uni_alnum None ex_items ex_trail.
Proof.
  unfold ex_items, ex_trail. cbn [layout_ok gap_ok tkind].
  repeat match goal with |- _ /\ _ => split end;
    try exact I;
    try (match goal with |- In _ ref_blanks => cbn; tauto end);
    try (match goal with |- not_ender _ => reflexivity end);
    try (match goal with |- @eq bool _ _ => vm_compute; reflexivity end).
  - apply (K_word uni_alnum None 0 120 [] [] TIdentifier); vm_compute; reflexivity.
  - apply (K_arrow uni_alnum (Some TIdentifier) 0 []).
  - apply (K_int uni_alnum (Some TArrow) 0 [49] []); [discriminate|reflexivity|reflexivity|reflexivity].
  - apply (K_single uni_alnum (Some TNumber) 0 43 TPlus []); reflexivity.
  - apply (K_word uni_alnum (Some TPlus) 0 121 [] [] TIdentifier); vm_compute; reflexivity.
Qed.

Lemma layout_example : exists items trail,
  layout_ok uni_alnum None items trail /\ (4 <= length items)%nat /\
  (exists c, In (PBlank c) (concat (map (fun i : litem => fst (fst i)) items))) /\
  In PCont (concat (map (fun i : litem => fst (fst i)) items)) /\
  In PNewline (concat (map (fun i : litem => fst (fst i)) items)) /\
  (exists b, In (POpenComment b) (concat (map (fun i : litem => fst (fst i)) items))).
Proof.
  exists ex_items, ex_trail.
  split; [exact ex_layout_ok|].
  split; [cbn; lia|].
  split; [exists 32; cbn; repeat (first [left; reflexivity|right])|].
  split; [cbn; repeat (first [left; reflexivity|right])|].
  split; [cbn; repeat (first [left; reflexivity|right])|].
  exists [32; 99]. cbn. repeat (first [left; reflexivity|right]).
Qed.

(** the example really is what the scanner sees *)
Lemma layout_example_lex : exists ts, lex (render ex_items ex_trail) = LexOk ts /\ length ts = 6%nat.
Proof.
  destruct (lex_render uni_alnum uni_alnum_ascii_ok _ _ ex_layout_ok) as (ts & HL & HV).
  exists ts. split; [exact HL|].
  apply (f_equal (@length _)) in HV. rewrite map_length in HV. rewrite HV. reflexivity.
Qed.
