(** BracketProofs: an accepted token sequence has nesting brackets (Props/C09c.v).
    Every grammar function that returns [POk] consumed a stretch of tokens over which the bracket
    machine [bal] returns to the stack it started from (for every stack); [p_block], entered after
    its opening brace, pops the owed closing brace.  An accepted program ran no error recovery. *)
From Aplang Require Import Base FloatX Token Ast ParseImpl ParseSpec Brackets ParseProofs.
From Aplang.Gen Require Import Generated.
Open Scope N_scope.

(** * The effect of one token on the bracket machine *)

Definition beq (st st' : pstate) : Prop := forall s, bal s (rest st) = bal s (rest st').

Definition eff (k : tk) (st st' : pstate) : Prop :=
  match closer_of k with
  | Some c => forall s, bal s (rest st) = bal (c :: s) (rest st')
  | None => if is_closer k then forall s, bal (k :: s) (rest st) = bal s (rest st')
            else forall s, bal s (rest st) = bal s (rest st')
  end.

Definition nbb (k : tk) : bool :=
  match closer_of k with Some _ => false | None => negb (is_closer k) end.

Lemma tk_eqb_refl k : tk_eqb k k = true.
Proof. apply tk_eqb_eq; reflexivity. Qed.

Lemma advance_eff st t r : rest st = t :: r -> eff (tkind t) st (advance st).
Proof.
  intro E. unfold advance. rewrite E.
  destruct (tk_eqb (tkind t) TEof) eqn:Et.
  - apply tk_eqb_eq in Et. rewrite Et. cbv [eff closer_of is_closer]. intro s; reflexivity.
  - unfold eff. cbn [rest]. rewrite E.
    destruct (closer_of (tkind t)) as [c|] eqn:Ec.
    + intro s. cbn [bal]. rewrite Ec. reflexivity.
    + destruct (is_closer (tkind t)) eqn:Ei; intro s; cbn [bal]; rewrite Ec, Ei; [|reflexivity].
      rewrite tk_eqb_refl. reflexivity.
Qed.

Lemma check_eff k st : check k st = true -> eff k st (advance st).
Proof.
  intro H. apply check_true in H as (t & r & E & _ & Hk). subst k. eapply advance_eff; eauto.
Qed.

Lemma match_tok_inv k st b st' : match_tok k st = (b, st') ->
  (b = true /\ eff k st st') \/ (b = false /\ st' = st).
Proof.
  unfold match_tok. destruct (check k st) eqn:E; intro H; inversion H; subst.
  - left. split; [reflexivity|apply check_eff; exact E].
  - right. auto.
Qed.

Lemma match_toks_inv ks st b st' : forallb nbb ks = true -> match_toks ks st = (b, st') -> beq st st'.
Proof.
  induction ks as [|k ks IH]; cbn [match_toks forallb]; intros Hn H.
  - inversion H; subst. intro s; reflexivity.
  - apply andb_true_iff in Hn as [Hk Hn]. destruct (check k st) eqn:E.
    + inversion H; subst. apply check_eff in E. unfold eff in E. unfold nbb in Hk.
      destruct (closer_of k); [discriminate|]. destruct (is_closer k); [discriminate|]. exact E.
    + apply IH; assumption.
Qed.

Lemma consume_inv k rep st p st' : consume k rep st = POk p st' -> eff k st st'.
Proof.
  unfold consume, with_peek, with_prev. destruct (rest st) as [|t r] eqn:E; [discriminate|].
  destruct (tk_eqb (tkind t) k) eqn:Et; [|discriminate]. cbv zeta.
  destruct (prevt (advance st)); [|discriminate]. intro H. inversion H; subst.
  apply tk_eqb_eq in Et. subst k. eapply advance_eff; eauto.
Qed.

Lemma restore_inv {A} a b (r : pres A) x st' : restore a b r = POk x st' ->
  exists st0, r = POk x st0 /\ rest st' = rest st0.
Proof. destruct r; cbn [restore]; intro H; inversion H; subst. eexists; split; reflexivity. Qed.

Lemma ladder_nb l rg : rung_of l = Some rg -> forallb nbb (r_ops rg) = true.
Proof. destruct l; vm_compute; intro H; inversion H; subst; reflexivity. Qed.

Lemma unary_nb : forallb nbb unary_ops = true.
Proof. reflexivity. Qed.

(** * Tactics *)

(* [H : pbind m k = POk _ _]: name the result of [m] *)
Ltac bind H y s1 E :=
  match type of H with
  | pbind ?m _ = POk _ _ => destruct m as [y s1| | |] eqn:E; cbn [pbind] in H; try discriminate H
  end.
Ltac prev H t :=
  match type of H with
  | with_prev ?st _ = _ => unfold with_prev at 1 in H; destruct (prevt st) as [t|]; [|discriminate H]
  end.
Ltac mtok H k st b s1 :=
  let E := fresh "Em" in let M := fresh "M" in
  destruct (match_tok k st) as [b s1] eqn:E;
  apply match_tok_inv in E as [[-> M]|[-> ->]]; [cbv [eff closer_of is_closer] in M|].
Ltac cons E := apply consume_inv in E; cbv [eff closer_of is_closer] in E.
Ltac chain :=
  let s := fresh "s" in
  unfold beq in *; intros s; cbn [rest set_flags] in *;
  repeat (match goal with
          | H : forall s, bal _ (rest ?a) = _ |- bal _ (rest ?a) = _ => rewrite H; clear H
          | H : rest ?a = _ |- context [rest ?a] => rewrite H; clear H
          end);
  reflexivity.

(** * Expressions *)

Definition bexpr (f : nat) : Prop :=
  (forall l st x st', p_level f l st = POk x st' -> beq st st') /\
  (forall rg e st x st', forallb nbb (r_ops rg) = true -> p_loop f rg e st = POk x st' -> beq st st') /\
  (forall e sp st x st', p_access f e sp st = POk x st' -> beq st st') /\
  (forall lim n st x st', p_items f lim n st = POk x st' -> beq st st') /\
  (forall st x st', p_primary f st = POk x st' -> beq st st').

Lemma bexpr_all : forall f, bexpr f.
Proof.
  induction f as [|f (IHl & IHlo & IHa & IHi & IHp)].
  { repeat split; intros; discriminate. }
  assert (Hrung : forall l rg st x st', rung_of l = Some rg ->
            (do e, st1 <- p_level f (r_first rg) st; p_loop f rg e st1) = POk x st' -> beq st st').
  { intros l rg st x st' Er H. bind H e st1 E1. apply IHl in E1. apply IHlo in H; [|eapply ladder_nb; eauto]. chain. }
  repeat split.
  - (* p_level *)
    intros l st x st' H. cbn [p_level] in H. destruct l.
    + bind H e st1 E1. apply IHl in E1. prev H et.
      mtok H TArrow st1 b st2.
      * prev H arrow. bind H v st3 E3. apply IHl in E3.
        destruct e; inversion H; subst; chain.
      * inversion H; subst. chain.
    + destruct (rung_of LvOr) as [rg|] eqn:Er; [eapply Hrung; eauto|discriminate].
    + destruct (rung_of LvAnd) as [rg|] eqn:Er; [eapply Hrung; eauto|discriminate].
    + destruct (rung_of LvEquality) as [rg|] eqn:Er; [eapply Hrung; eauto|discriminate].
    + destruct (rung_of LvComparison) as [rg|] eqn:Er; [eapply Hrung; eauto|discriminate].
    + destruct (rung_of LvAddition) as [rg|] eqn:Er; [eapply Hrung; eauto|discriminate].
    + destruct (rung_of LvMultiplication) as [rg|] eqn:Er; [eapply Hrung; eauto|discriminate].
    + destruct (match_toks unary_ops st) as [b st1] eqn:Em.
      pose proof (match_toks_inv _ _ _ _ unary_nb Em) as M. destruct b.
      * prev H tok. bind H r st2 E2. apply IHl in E2.
        destruct (assoc_tk (tkind tok) unop_of_token); inversion H; subst. chain.
      * eapply IHl; eauto.
    + bind H e st1 E1. apply IHl in E1. prev H et. apply IHa in H. chain.
    + eapply IHp; eauto.
  - (* p_loop *)
    intros rg e st x st' Hn H. cbn [p_loop] in H.
    destruct (match_toks (r_ops rg) st) as [b st1] eqn:Em.
    pose proof (match_toks_inv _ _ _ _ Hn Em) as M. destruct b.
    + prev H tok. bind H r st2 E2. apply IHl in E2.
      destruct (r_mk rg).
      * apply IHlo in H; [|exact Hn]. chain.
      * destruct (assoc_tk (tkind tok) binop_of_token); [|discriminate].
        apply IHlo in H; [|exact Hn]. chain.
    + inversion H; subst. intro s; reflexivity.
  - (* p_access *)
    intros e sp st x st' H. cbn [p_access] in H.
    mtok H TLeftBracket st b st1.
    + prev H lb. bind H idx st2 E2. apply IHl in E2. bind H rb st3 E3. cons E3.
      apply IHa in H. chain.
    + inversion H; subst. intro s; reflexivity.
  - (* p_items *)
    intros lim n st x st' H. cbn [p_items] in H.
    destruct (match lim with Some m => m <=? n | None => false end); [discriminate|].
    bind H e st1 E1. apply IHl in E1. unfold with_peek in H. destruct (rest st1) as [|after r] eqn:Er; [discriminate|].
    try rewrite <- Er in *. clear Er.
    mtok H TComma st1 b st2.
    + bind H more st3 E3. apply IHi in E3. inversion H; subst. chain.
    + inversion H; subst. chain.
  - (* p_primary *)
    intros st x st' H. cbn [p_primary] in H. unfold with_peek in H.
    destruct (rest st) as [|t r] eqn:Er; [discriminate|].
    destruct (at_end st) eqn:Ee; [discriminate|].
    pose proof (advance_eff st t r Er) as A. try rewrite <- Er in *. clear Er.
    destruct (tkind t) eqn:Ek; try discriminate; cbv [eff closer_of is_closer] in A.
    + (* ( *)
      bind H e st2 E2. apply IHl in E2. bind H rp st3 E3. cons E3. inversion H; subst. chain.
    + (* [ *)
      bind H items st2 E2. bind H rb st3 E3. cons E3. inversion H; subst.
      destruct (check TRightBracket (advance st)).
      * inversion E2; subst. chain.
      * apply IHi in E2. chain.
    + (* identifier *)
      mtok H TLeftParen (advance st) b st2.
      * prev H lp. bind H items st3 E3. bind H rp st4 E4. cons E4. inversion H; subst.
        destruct (check TRightParen st2).
        -- inversion E3; subst. chain.
        -- apply IHi in E3. chain.
      * inversion H; subst. chain.
    + destruct (tlit t); inversion H; subst; chain.
    + destruct (tlit t); inversion H; subst; chain.
    + inversion H; subst; chain.
    + inversion H; subst; chain.
    + inversion H; subst; chain.
Qed.

Lemma bexpression f st x st' : p_expression f st = POk x st' -> beq st st'.
Proof. unfold p_expression. apply bexpr_all. Qed.

(** * Parameter lists, import names, statement terminators *)

Lemma bparams : forall f n st x st', p_params f n st = POk x st' -> beq st st'.
Proof.
  induction f as [|f IH]; intros n st x st' H; [discriminate|]. cbn [p_params] in H.
  destruct (255 <=? n); [discriminate|].
  bind H t st1 E1. cons E1. mtok H TComma st1 b st2.
  - bind H more st3 E3. apply IH in E3. inversion H; subst. chain.
  - inversion H; subst. chain.
Qed.

Lemma bimport_names : forall f lb acc st x st', p_import_names f lb acc st = POk x st' -> beq st st'.
Proof.
  induction f as [|f IH]; intros lb acc st x st' H; [discriminate|]. cbn [p_import_names] in H.
  destruct (63 <=? N.of_nat (length acc)); [destruct acc; discriminate|].
  bind H t st1 E1. cons E1. mtok H TComma st1 b st2.
  - apply IH in H. chain.
  - inversion H; subst. chain.
Qed.

Lemma bend_of_statement st x st' : end_of_statement st = POk x st' -> beq st st'.
Proof.
  unfold end_of_statement. destruct (at_end st || check TRightBrace st); intro H.
  - inversion H; subst. intro s; reflexivity.
  - bind H t st1 E1. cons E1. inversion H; subst. chain.
Qed.

(** * Statements *)

Definition bstmt (f : nat) : Prop :=
  (forall st x st', p_declaration f st = POk x st' -> beq st st') /\
  (forall st x st', p_procedure f st = POk x st' -> beq st st') /\
  (forall st x st', p_statement f st = POk x st' -> beq st st') /\
  (forall st x st', p_expr_stmt f st = POk x st' -> beq st st') /\
  (forall lb acc st x st', p_block f lb acc st = POk x st' ->
     forall s, bal (TRightBrace :: s) (rest st) = bal s (rest st')) /\
  (forall t st x st', p_if f t st = POk x st' -> beq st st') /\
  (forall st x st', p_repeat_times f st = POk x st' -> beq st st') /\
  (forall st x st', p_repeat_until f st = POk x st' -> beq st st') /\
  (forall st x st', p_for_each f st = POk x st' -> beq st st') /\
  (forall st x st', p_import f st = POk x st' -> beq st st').

Lemma decl_ops_nb : forallb nbb [TExport; TProcedure] = true.
Proof. reflexivity. Qed.

Lemma bstmt_all : forall f, bstmt f.
Proof.
  induction f as [|f (IHd & IHpr & IHs & IHes & IHb & IHif & IHrt & IHru & IHfe & IHim)].
  { repeat split; intros; discriminate. }
  repeat split.
  - (* p_declaration *)
    intros st x st' H. cbn [p_declaration] in H.
    destruct (match_toks [TExport; TProcedure] st) as [b st1] eqn:Em.
    pose proof (match_toks_inv _ _ _ _ decl_ops_nb Em) as M. destruct b.
    + apply IHpr in H. chain.
    + eapply IHs; eauto.
  - (* p_procedure *)
    intros st x st' H. cbn [p_procedure] in H. prev H eop.
    bind H pe st1 E1. destruct pe as [proc_token exported].
    assert (B1 : beq st st1).
    { destruct (tk_eqb (tkind eop) TExport).
      - bind E1 pt s1 E0. cons E0. inversion E1; subst. chain.
      - inversion E1; subst. intro s; reflexivity. }
    clear E1.
    bind H name st2 E2. cons E2. bind H _lp st3 E3. cons E3.
    bind H params st4 E4.
    assert (B4 : beq st3 st4).
    { destruct (check TRightParen st3).
      - inversion E4; subst. intro s; reflexivity.
      - eapply bparams; eauto. }
    clear E4.
    bind H _rp st5 E5. cons E5. bind H body st6 E6.
    apply restore_inv in E6 as (st0 & E6 & R6). apply IHs in E6.
    inversion H; subst. chain.
  - (* p_statement *)
    intros st x st' H. cbn [p_statement] in H. unfold with_peek in H.
    destruct (rest st) as [|t r] eqn:Er; [discriminate|].
    destruct (at_end st) eqn:Ee; [eapply IHes; eauto|].
    pose proof (advance_eff st t r Er) as A. try rewrite <- Er in *. clear Er.
    destruct (tkind t) eqn:Ek; try (eapply IHes; eauto; fail); cbv [eff closer_of is_closer] in A.
    + (* { *) pose proof (IHb _ _ _ _ _ H) as B. chain.
    + (* IF *) apply IHif in H. chain.
    + (* REPEAT *)
      apply restore_inv in H as (st0 & H & R0).
      destruct (check TUntil (set_flags (advance st) (in_fn (advance st)) true));
        [apply IHru in H|apply IHrt in H]; chain.
    + (* FOR *)
      apply restore_inv in H as (st0 & H & R0). apply IHfe in H. chain.
    + (* CONTINUE *) destruct (in_loop (advance st)); inversion H; subst. chain.
    + (* BREAK *) destruct (in_loop (advance st)); inversion H; subst. chain.
    + (* RETURN *)
      destruct (negb (in_fn (advance st))); [discriminate|].
      destruct (at_end (advance st) || check TRightBrace (advance st)); [inversion H; subst; chain|].
      mtok H TSoftSemi (advance st) b st2.
      * inversion H; subst. chain.
      * bind H e st2 E2. apply bexpression in E2. bind H u st3 E3. apply bend_of_statement in E3.
        inversion H; subst. chain.
    + (* IMPORT *) apply IHim in H. chain.
  - (* p_expr_stmt *)
    intros st x st' H. cbn [p_expr_stmt] in H.
    bind H e st1 E1. apply bexpression in E1.
    destruct (at_end st1); [inversion H; subst; chain|].
    destruct (check TRightBrace st1); [inversion H; subst; chain|].
    bind H t st2 E2. cons E2. inversion H; subst. chain.
  - (* p_block *)
    intros lb acc st x st' H. cbn [p_block] in H.
    destruct (negb (check TRightBrace st) && negb (at_end st)).
    + mtok H TSoftSemi st b st1.
      * pose proof (IHb _ _ _ _ _ H) as B. chain.
      * bind H s0 st1 E1. apply IHd in E1. pose proof (IHb _ _ _ _ _ H) as B. chain.
    + bind H rb st1 E1. cons E1. inversion H; subst. chain.
  - (* p_if *)
    intros t st x st' H. cbn [p_if] in H.
    bind H _lp st1 E1. cons E1. bind H c st2 E2. apply bexpression in E2.
    bind H _rp st3 E3. cons E3. bind H th st4 E4. apply IHs in E4.
    mtok H TElse st4 b st5.
    + bind H el st6 E6. apply IHs in E6. inversion H; subst. chain.
    + inversion H; subst. chain.
  - (* p_repeat_times *)
    intros st x st' H. cbn [p_repeat_times] in H.
    bind H n st1 E1. apply bexpression in E1. prev H ct.
    bind H _t st2 E2. cons E2. bind H body st3 E3. apply IHs in E3. inversion H; subst. chain.
  - (* p_repeat_until *)
    intros st x st' H. cbn [p_repeat_until] in H.
    bind H ut st1 E1. cons E1. bind H _lp st2 E2. cons E2.
    bind H c st3 E3. apply bexpression in E3. bind H _rp st4 E4. cons E4.
    bind H body st5 E5. apply IHs in E5. inversion H; subst. chain.
  - (* p_for_each *)
    intros st x st' H. cbn [p_for_each] in H.
    bind H et st1 E1. cons E1. bind H item st2 E2. cons E2. bind H _in st3 E3. cons E3.
    bind H l st4 E4. apply bexpression in E4. prev H ltok.
    bind H body st5 E5. apply IHs in E5. inversion H; subst. chain.
  - (* p_import *)
    intros st x st' H. cbn [p_import] in H.
    bind H only st1 E1.
    assert (B1 : beq st st1).
    { mtok E1 TLeftBracket st b s1.
      - prev E1 lbr. bind E1 names s2 E2. apply bimport_names in E2.
        bind E1 _rb s3 E3. cons E3. inversion E1; subst. chain.
      - mtok E1 TStringLiteral st b s1.
        + prev E1 onet. inversion E1; subst. chain.
        + inversion E1; subst. intro s; reflexivity. }
    clear E1.
    bind H _from st2 E2.
    assert (B2 : beq st1 st2).
    { destruct only.
      - bind E2 t s0 E0. cons E0. inversion E2; subst. chain.
      - inversion E2; subst. intro s; reflexivity. }
    clear E2.
    bind H _mod st3 E3. cons E3. bind H name st4 E4. cons E4.
    bind H _u st5 E5. apply bend_of_statement in E5.
    destruct (lit_string name); [|discriminate].
    destruct (match only with Some ts => option_map Some (names_of ts) | None => Some None end); [|discriminate].
    inversion H; subst. chain.
Qed.

Lemma bdeclaration f st x st' : p_declaration f st = POk x st' -> beq st st'.
Proof. apply bstmt_all. Qed.

(** * The program loop *)

Lemma shaped_eof_last t r : shaped (t :: r) -> tkind t = TEof -> r = [].
Proof.
  intros (body & eof & E & _ & Hb & _) Hk. destruct body as [|b body]; cbn [app] in E.
  - inversion E; reflexivity.
  - inversion E; subst. inversion Hb; subst. contradiction.
Qed.

Lemma program_loop_balanced inner : forall fuel st stmts errs p,
  cursor_ok st -> program_loop fuel inner st stmts errs = ParseOk p ->
  errs = [] /\ bal [] (rest st) = true.
Proof.
  induction fuel as [|fuel IH]; intros st stmts errs p Hc H; [discriminate|].
  cbn [program_loop] in H. destruct (rest st) as [|t0 r0] eqn:Er; [discriminate|].
  destruct (at_end st) eqn:Ee.
  { destruct errs; [|discriminate]. split; [reflexivity|].
    unfold at_end in Ee. rewrite Er in Ee. apply tk_eqb_eq in Ee.
    unfold cursor_ok in Hc. rewrite Er in Hc. rewrite (shaped_eof_last _ _ Hc Ee).
    cbn [bal]. rewrite Ee. reflexivity. }
  try rewrite <- Er in *. clear Er.
  destruct (match_tok_cases TSoftSemi st) as [(E & H1 & _)|E]; rewrite E in H.
  { destruct (IH _ _ _ _ (rel_cursor _ _ _ H1 Hc) H) as [He Hb]. split; [exact He|].
    apply match_tok_inv in E as [[_ M]|[Hf _]]; [|discriminate].
    cbv [eff closer_of is_closer] in M. rewrite M. exact Hb. }
  pose proof (decl_postF inner st) as Hd.
  destruct (p_declaration inner st) as [s st1|e st1|site|] eqn:Ed; try discriminate.
  - cbn [post] in Hd. destruct Hd as [_ H1].
    destruct (IH _ _ _ _ (rel_cursor _ _ _ H1 Hc) H) as [He Hb]. split; [exact He|].
    rewrite (bdeclaration _ _ _ _ Ed []). exact Hb.
  - cbn [post] in Hd. exfalso.
    assert (Hc' : cursor_ok (synchronize st1)).
    { eapply step_cursor; [|exact Hc]. eapply step_trans; [exact Hd|apply synchronize_step]. }
    destruct (IH _ _ _ _ Hc' H) as [He _]. discriminate.
Qed.

(** * The theorems of Props/C09c.v *)

Lemma accepted_is_balanced : forall ts p, shaped ts -> parse_tokens ts = ParseOk p -> balanced ts = true.
Proof.
  intros ts p Hs H. unfold parse_tokens in H.
  apply program_loop_balanced in H as [_ H]; [exact H|exact Hs].
Qed.

Lemma unbalanced_rejected : forall ts, shaped ts -> balanced ts = false ->
  exists es, es <> [] /\ parse_tokens ts = ParseErr es.
Proof.
  intros ts Hs Hb. destruct (parse_result ts Hs) as [[p Hp]|He]; [|exact He].
  rewrite (accepted_is_balanced ts p Hs Hp) in Hb. discriminate.
Qed.
