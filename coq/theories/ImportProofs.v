(** ImportProofs: the IMPORT statement of the evaluator model (EvalImpl.exec, case SImport):
    library modules contribute exactly their procedures, IMPORT ... FROM trims to the named
    procedures, unknown / missing / invalid modules are diagnostics, and the importer's
    variables, flags and return slot are untouched. *)
From Aplang Require Import Base FloatX Token Ast Tables Value StrLib LexImpl ParseImpl EvalImpl.
From Aplang.Gen Require Import Generated.
Open Scope N_scope.

(** * the registry *)
Lemma registry_is_reference :
  module_registry = ["CORE"; "FS"; "TIME"; "MATH"; "IO"; "STRING"; "STYLE"; "MAP"; "ROBOT"]%string.
Proof. reflexivity. Qed.

(** * function tables *)
Lemma text_eqb_sym (a b : text) : text_eqb a b = text_eqb b a.
Proof.
  destruct (text_eqb a b) eqn:Eab; destruct (text_eqb b a) eqn:Eba; try reflexivity.
  - apply text_eqb_eq in Eab. subst b. rewrite text_eqb_refl in Eba. discriminate Eba.
  - apply text_eqb_eq in Eba. subst b. rewrite text_eqb_refl in Eab. discriminate Eab.
Qed.

Lemma ft_get_remove (t : ftable) (x y : text) :
  ft_get (ft_remove t x) y = if text_eqb y x then None else ft_get t y.
Proof.
  induction t as [|[z g] t IH]; simpl.
  - destruct (text_eqb y x); reflexivity.
  - destruct (text_eqb x z) eqn:Exz.
    + rewrite IH. destruct (text_eqb y x) eqn:Eyx; [reflexivity|].
      destruct (text_eqb y z) eqn:Eyz; [|reflexivity].
      apply text_eqb_eq in Exz. apply text_eqb_eq in Eyz. subst z. subst y.
      rewrite text_eqb_refl in Eyx. discriminate Eyx.
    + simpl. destruct (text_eqb y z) eqn:Eyz.
      * destruct (text_eqb y x) eqn:Eyx; [|reflexivity].
        apply text_eqb_eq in Eyz. apply text_eqb_eq in Eyx. subst z. subst y.
        rewrite text_eqb_refl in Exz. discriminate Exz.
      * exact IH.
Qed.

Lemma ft_get_set (t : ftable) (x : text) (f : fn) (y : text) :
  ft_get (ft_set t x f) y = if text_eqb y x then Some f else ft_get t y.
Proof.
  unfold ft_set. simpl. rewrite ft_get_remove. destruct (text_eqb y x); reflexivity.
Qed.

Lemma ft_get_app (l l' : ftable) (y : text) :
  ft_get (l ++ l') y = match ft_get l y with Some f => Some f | None => ft_get l' y end.
Proof.
  induction l as [|[z g] l IH]; simpl; [reflexivity|].
  destruct (text_eqb y z); [reflexivity|exact IH].
Qed.

Lemma ft_extend_gen : forall (more t : ftable) (name : text),
  ft_get (fold_left (fun acc p => ft_set acc (fst p) (snd p)) more t) name =
    match ft_get (rev more) name with Some f => Some f | None => ft_get t name end.
Proof.
  induction more as [|[x g] more IH]; intros t name; simpl fold_left.
  - reflexivity.
  - rewrite IH. simpl rev. rewrite ft_get_app.
    destruct (ft_get (rev more) name) as [h|]; [reflexivity|].
    cbn [ft_get fst snd]. rewrite ft_get_set. destruct (text_eqb name x); reflexivity.
Qed.

Lemma ft_extend_spec : forall (t more : ftable) (name : text),
  ft_get (ft_extend t more) name =
    match ft_get (rev more) name with Some f => Some f | None => ft_get t name end.
Proof. intros t more name. unfold ft_extend. apply ft_extend_gen. Qed.

Lemma ft_get_In (t : ftable) (name : text) (f : fn) : ft_get t name = Some f -> In (name, f) t.
Proof.
  induction t as [|[z g] t IH]; simpl; intro H; [discriminate H|].
  destruct (text_eqb name z) eqn:E.
  - apply text_eqb_eq in E. subst z. injection H as H. subst g. left. reflexivity.
  - right. apply IH. exact H.
Qed.

(** * library module tables *)
Lemma table_sound_gen (sigs : list (string * string * list akind)) (m : string) (name : text) (f : fn) :
  ft_get (map (fun e => (string_bytes (snd (fst e)), FNative (fst (fst e)) (snd (fst e)) (snd e)))
              (filter (fun e => str_eq (fst (fst e)) m) sigs)) name = Some f ->
  exists n sig, f = FNative m n sig /\ In (m, n, sig) sigs /\ name = string_bytes n.
Proof.
  intro H. apply ft_get_In in H.
  apply in_map_iff in H. destruct H as [[[m' n] sig] [Heq Hin]].
  apply filter_In in Hin. destruct Hin as [Hin Hm]. cbn [fst snd] in Heq, Hm.
  unfold str_eq in Hm. apply String.eqb_eq in Hm. subst m'.
  injection Heq as Hname Hf. exists n, sig. split; [|split].
  - symmetry. exact Hf.
  - exact Hin.
  - symmetry. exact Hname.
Qed.

Lemma module_table_sound : forall (m : string) (name : text) (f : fn),
  ft_get (module_table m) name = Some f ->
  exists n sig, f = FNative m n sig /\ In (m, n, sig) std_sigs /\ name = string_bytes n.
Proof. intros m name f. exact (table_sound_gen std_sigs m name f). Qed.

Lemma initial_funcs_core : initial_funcs = module_table "CORE" ++ [].
Proof. reflexivity. Qed.

Lemma only_core_preloaded : forall (name : text) (f : fn),
  ft_get initial_funcs name = Some f -> exists n sig, f = FNative "CORE" n sig.
Proof.
  intros name f H. rewrite initial_funcs_core, app_nil_r in H.
  apply module_table_sound in H. destruct H as [n [sig [Hf _]]]. exists n, sig. exact Hf.
Qed.

(** * the IMPORT statement, in named pieces *)
Definition import_table (f : nat) (modname : text) (mtok : span) (st : state) : res ftable :=
  if existsb (fun m => text_eqb (string_bytes m) modname) module_registry then
    ROk (match find (fun m => text_eqb (string_bytes m) modname) module_registry with
         | Some m => module_table m | None => [] end) st
  else
    let p := path_join (path st) modname in
    if negb (has_ap_extension p) then RErr ModuleNotFound mtok st
    else match find (fun e => text_eqb (fst e) p) (o_files (orc st)) with
         | None => RErr ModuleFileMissing mtok st
         | Some (_, src) =>
           match lex src with
           | LexOk ts =>
             match parse_tokens ts with
             | ParseOk prog =>
               let ms := fresh_state (heap st) (out st) (stdin_ st) (orc st) (dirname p) in
               let* _u, ms1 <- block_top (exec f) prog ms;
               ROk (exports ms1)
                   (set_orc (set_stdin (set_out (set_heap st (heap ms1)) (out ms1)) (stdin_ ms1)) (orc ms1))
             | _ => RErr ModuleInvalid mtok st
             end
           | _ => RErr ModuleInvalid mtok st
           end
         end.

Definition pick (st1 : state) : list (text * span) -> ftable -> ftable -> res unit :=
  fix pick (ns : list (text * span)) (tbl acc : ftable) : res unit :=
    match ns with
    | [] => ROk tt (set_funcs st1 (ft_extend (funcs st1) (rev acc)))
    | (n, sp) :: r =>
      match ft_get tbl n with
      | None => RErr InvalidFunction sp st1
      | Some fnv => pick r (ft_remove tbl n) ((n, fnv) :: acc)
      end
    end.

Definition import_finish (only : option (list (text * span))) (table : ftable) (st1 : state) : res unit :=
  match only with
  | None => ROk tt (set_funcs st1 (ft_extend (funcs st1) table))
  | Some names => pick st1 names table []
  end.

Lemma exec_import_eq (f : nat) (modname : text) (mtok : span) (only : option (list (text * span))) (st : state) :
  exec (S f) (SImport modname mtok only) st =
    rbind (import_table f modname mtok st) (fun table st1 => import_finish only table st1).
Proof. reflexivity. Qed.

Lemma rbind_ok_inv {A B} (m : res A) (k : A -> state -> res B) (y : B) (st' : state) :
  rbind m k = ROk y st' -> exists x st1, m = ROk x st1 /\ k x st1 = ROk y st'.
Proof.
  destruct m as [x st1|e sp st1|st1|s st1|]; simpl; intro H; try discriminate H.
  exists x, st1. split; [reflexivity|exact H].
Qed.

Lemma pick_nil (st1 : state) (tbl acc : ftable) :
  pick st1 [] tbl acc = ROk tt (set_funcs st1 (ft_extend (funcs st1) (rev acc))).
Proof. reflexivity. Qed.

Lemma pick_cons (st1 : state) (n : text) (sp : span) (r : list (text * span)) (tbl acc : ftable) :
  pick st1 ((n, sp) :: r) tbl acc =
    match ft_get tbl n with
    | None => RErr InvalidFunction sp st1
    | Some fnv => pick st1 r (ft_remove tbl n) ((n, fnv) :: acc)
    end.
Proof. reflexivity. Qed.

(** the registry lookup of a library module *)
Lemma registry_lookup (m : string) : In m module_registry ->
  existsb (fun m' => text_eqb (string_bytes m') (string_bytes m)) module_registry = true /\
  find (fun m' => text_eqb (string_bytes m') (string_bytes m)) module_registry = Some m.
Proof.
  intro H. unfold module_registry in H. simpl in H.
  repeat (destruct H as [H|H]; [subst m; split; reflexivity|]).
  destruct H.
Qed.

Lemma import_table_library (f : nat) (m : string) (mtok : span) (st : state) :
  In m module_registry -> import_table f (string_bytes m) mtok st = ROk (module_table m) st.
Proof.
  intro Hin. destruct (registry_lookup m Hin) as [He Hf].
  unfold import_table. rewrite He, Hf. reflexivity.
Qed.

Lemma import_mod_exact : forall (f : nat) (m : string) (mtok : span) (st : state),
  In m module_registry ->
  exec (S f) (SImport (string_bytes m) mtok None) st = ROk tt (set_funcs st (ft_extend (funcs st) (module_table m))).
Proof.
  intros f m mtok st Hin. rewrite exec_import_eq, (import_table_library f m mtok st Hin). reflexivity.
Qed.

(** * IMPORT ... FROM: the trimming loop *)
Lemma pick_unknown (st1 : state) (n : text) (sp : span) :
  forall (ns : list (text * span)) (tbl acc : ftable),
  In (n, sp) ns -> ft_get tbl n = None ->
  exists n' sp', pick st1 ns tbl acc = RErr InvalidFunction sp' st1 /\ In (n', sp') ns.
Proof.
  induction ns as [|[n0 sp0] r IH]; intros tbl acc Hin Hnone.
  - destruct Hin.
  - rewrite pick_cons. destruct (ft_get tbl n0) as [fnv|] eqn:Eg.
    + destruct Hin as [Heq|Hin].
      * injection Heq as Hn Hsp. subst n0. rewrite Hnone in Eg. discriminate Eg.
      * assert (Hnone' : ft_get (ft_remove tbl n0) n = None).
        { rewrite ft_get_remove. destruct (text_eqb n n0); [reflexivity|exact Hnone]. }
        destruct (IH (ft_remove tbl n0) ((n0, fnv) :: acc) Hin Hnone') as [n' [sp' [Hp Hin']]].
        exists n', sp'. split; [exact Hp|right; exact Hin'].
    + exists n0, sp0. split; [reflexivity|left; reflexivity].
Qed.

Lemma import_unknown_name : forall (f : nat) (m : string) (mtok : span) (names : list (text * span))
                                   (n : text) (sp : span) (st : state),
  In m module_registry -> In (n, sp) names -> ft_get (module_table m) n = None ->
  exists n' sp' st', exec (S f) (SImport (string_bytes m) mtok (Some names)) st = RErr InvalidFunction sp' st' /\
                     funcs st' = funcs st /\ In (n', sp') names.
Proof.
  intros f m mtok names n sp st Hm Hin Hnone.
  destruct (pick_unknown st n sp names (module_table m) [] Hin Hnone) as [n' [sp' [Hp Hin']]].
  exists n', sp', st. split; [|split].
  - rewrite exec_import_eq, (import_table_library f m mtok st Hm). simpl. exact Hp.
  - reflexivity.
  - exact Hin'.
Qed.

Lemma pick_ok (st1 : state) : forall (ns : list (text * span)) (tbl acc : ftable) (st' : state),
  pick st1 ns tbl acc = ROk tt st' ->
  exists acc', st' = set_funcs st1 (ft_extend (funcs st1) (rev acc')) /\
    (forall x, existsb (fun p => text_eqb (fst p) x) ns = true -> ft_get tbl x <> None) /\
    (forall x, ft_get acc' x = if existsb (fun p => text_eqb (fst p) x) ns then ft_get tbl x else ft_get acc x).
Proof.
  induction ns as [|[n sp] r IH]; intros tbl acc st' H.
  - rewrite pick_nil in H. injection H as H. exists acc. split; [symmetry; exact H|]. split.
    + intros x Hx. discriminate Hx.
    + intro x. reflexivity.
  - rewrite pick_cons in H. destruct (ft_get tbl n) as [fnv|] eqn:Eg; [|discriminate H].
    apply IH in H. destruct H as [acc' [Hst [Hne Hget]]]. exists acc'. split; [exact Hst|]. split.
    + intros x Hx. simpl in Hx. apply orb_true_iff in Hx. destruct Hx as [Hx|Hx].
      * apply text_eqb_eq in Hx. subst x. rewrite Eg. discriminate.
      * specialize (Hne x Hx). rewrite ft_get_remove in Hne.
        destruct (text_eqb x n); [exfalso; apply Hne; reflexivity|exact Hne].
    + intro x. rewrite Hget. simpl existsb. destruct (text_eqb n x) eqn:Enx.
      * apply text_eqb_eq in Enx. subst x. simpl orb.
        destruct (existsb (fun p => text_eqb (fst p) n) r) eqn:Er.
        -- exfalso. apply (Hne n Er). rewrite ft_get_remove, text_eqb_refl. reflexivity.
        -- simpl. rewrite text_eqb_refl. symmetry. exact Eg.
      * simpl orb. assert (Exn : text_eqb x n = false) by (rewrite text_eqb_sym; exact Enx).
        destruct (existsb (fun p => text_eqb (fst p) x) r) eqn:Er.
        -- rewrite ft_get_remove, Exn. reflexivity.
        -- simpl. rewrite Exn. reflexivity.
Qed.

Lemma import_only_exact : forall (f : nat) (m : string) (mtok : span) (names : list (text * span)) (st st' : state),
  In m module_registry ->
  exec (S f) (SImport (string_bytes m) mtok (Some names)) st = ROk tt st' ->
  (forall name, ft_get (funcs st') name =
     if existsb (fun p => text_eqb (fst p) name) names then ft_get (module_table m) name else ft_get (funcs st) name) /\
  venv st' = venv st /\ heap st' = heap st /\ out st' = out st.
Proof.
  intros f m mtok names st st' Hm H.
  rewrite exec_import_eq, (import_table_library f m mtok st Hm) in H. simpl in H.
  apply pick_ok in H. destruct H as [acc' [Hst [Hne Hget]]]. subst st'.
  split; [|split; [reflexivity|split; reflexivity]].
  intro name. simpl funcs. rewrite ft_extend_spec, rev_involutive, Hget.
  destruct (existsb (fun p => text_eqb (fst p) name) names) eqn:Ex.
  - specialize (Hne name Ex). destruct (ft_get (module_table m) name) as [g|]; [reflexivity|].
    exfalso. apply Hne. reflexivity.
  - reflexivity.
Qed.

(** * diagnostics *)
Lemma unknown_module_is_error : forall (f : nat) (modname : text) (mtok : span)
                                       (only : option (list (text * span))) (st : state),
  existsb (fun m => text_eqb (string_bytes m) modname) module_registry = false ->
  has_ap_extension (path_join (path st) modname) = false ->
  exec (S f) (SImport modname mtok only) st = RErr ModuleNotFound mtok st.
Proof.
  intros f modname mtok only st Hex Hext. rewrite exec_import_eq. unfold import_table. cbv zeta.
  rewrite Hex, Hext. reflexivity.
Qed.

Lemma missing_file_is_error : forall (f : nat) (modname : text) (mtok : span)
                                     (only : option (list (text * span))) (st : state),
  existsb (fun m => text_eqb (string_bytes m) modname) module_registry = false ->
  has_ap_extension (path_join (path st) modname) = true ->
  find (fun e => text_eqb (fst e) (path_join (path st) modname)) (o_files (orc st)) = None ->
  exec (S f) (SImport modname mtok only) st = RErr ModuleFileMissing mtok st.
Proof.
  intros f modname mtok only st Hex Hext Hfind. rewrite exec_import_eq. unfold import_table. cbv zeta.
  rewrite Hex, Hext, Hfind. reflexivity.
Qed.

Lemma invalid_module_is_error : forall (f : nat) (modname : text) (mtok : span)
                                       (only : option (list (text * span))) (st : state) (src : text),
  existsb (fun m => text_eqb (string_bytes m) modname) module_registry = false ->
  has_ap_extension (path_join (path st) modname) = true ->
  find (fun e => text_eqb (fst e) (path_join (path st) modname)) (o_files (orc st)) = Some (path_join (path st) modname, src) ->
  (forall ts, lex src = LexOk ts -> forall p, parse_tokens ts <> ParseOk p) ->
  exec (S f) (SImport modname mtok only) st = RErr ModuleInvalid mtok st.
Proof.
  intros f modname mtok only st src Hex Hext Hfind Hbad. rewrite exec_import_eq. unfold import_table. cbv zeta.
  rewrite Hex, Hext, Hfind. simpl negb. cbv iota.
  destruct (lex src) as [ts|es|] eqn:El; try reflexivity.
  destruct (parse_tokens ts) as [prog|es|site|] eqn:Ep; try reflexivity.
  exfalso. exact (Hbad ts eq_refl prog Ep).
Qed.

(** * the importer's frame *)
Definition same_frame (a b : state) : Prop :=
  venv a = venv b /\ retv a = retv b /\ loops a = loops b /\ exports a = exports b /\ path a = path b.

Lemma import_table_frame (f : nat) (modname : text) (mtok : span) (st : state) (table : ftable) (st1 : state) :
  import_table f modname mtok st = ROk table st1 -> same_frame st1 st.
Proof.
  unfold import_table. cbv zeta. intro H.
  destruct (existsb (fun m => text_eqb (string_bytes m) modname) module_registry).
  - injection H as _ H. subst st1. repeat split.
  - destruct (negb (has_ap_extension (path_join (path st) modname))); [discriminate H|].
    destruct (find (fun e => text_eqb (fst e) (path_join (path st) modname)) (o_files (orc st))) as [[p src]|];
      [|discriminate H].
    destruct (lex src) as [ts|es|]; try discriminate H.
    destruct (parse_tokens ts) as [prog|es|site|]; try discriminate H.
    apply rbind_ok_inv in H. destruct H as [u [ms1 [_ H]]].
    injection H as _ H. subst st1. repeat split.
Qed.

Lemma import_finish_frame (only : option (list (text * span))) (table : ftable) (st1 st' : state) :
  import_finish only table st1 = ROk tt st' -> same_frame st' st1.
Proof.
  destruct only as [names|]; simpl; intro H.
  - apply pick_ok in H. destruct H as [acc' [Hst _]]. subst st'. repeat split.
  - injection H as H. subst st'. repeat split.
Qed.

Lemma import_keeps_importer_state : forall (f : nat) (modname : text) (mtok : span)
                                           (only : option (list (text * span))) (st st' : state),
  exec (S f) (SImport modname mtok only) st = ROk tt st' ->
  venv st' = venv st /\ retv st' = retv st /\ loops st' = loops st /\ exports st' = exports st /\ path st' = path st.
Proof.
  intros f modname mtok only st st' H. rewrite exec_import_eq in H.
  apply rbind_ok_inv in H. destruct H as [table [st1 [Ht Hf]]].
  apply import_table_frame in Ht. apply import_finish_frame in Hf.
  destruct Ht as [T1 [T2 [T3 [T4 T5]]]]. destruct Hf as [F1 [F2 [F3 [F4 F5]]]].
  repeat split; etransitivity; eassumption.
Qed.
