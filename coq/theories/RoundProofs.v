(** RoundProofs: FLOOR / CEIL / INT / ROUND on the [spec_float] view ([FloatX.sf_round_int]) return the
    mathematical result for every finite double (Props/C15c).  Pure Z arithmetic on top of the
    [binary_round] analysis of ShowProofs. *)
From Aplang Require Import Base FloatX ShowProofs.
From Coq Require Import SpecFloat Lia ZArith Zpower Bool.
Open Scope Z_scope.

(** the reference of Props/C15c (same body; the statement file's definition is convertible with it) *)
Definition round_ref (mode : rmode) (s : bool) (m : positive) (e : Z) : Z :=
  let n := (if s then - Zpos m else Zpos m) * 2 ^ (Z.max e 0) in
  let d := 2 ^ (Z.max (- e) 0) in
  match mode with
  | RFloor => n / d
  | RCeil => - ((- n) / d)
  | RTrunc => Z.quot n d
  | RRound => (if s then -1 else 1) * ((2 * Z.abs n + d) / (2 * d))
  end.

(** ** [binary_round] on an integer below 2^53 is exact *)
Lemma digits2_pos_shift_pos : forall d p,
  digits2_pos (shift_pos d p) = (digits2_pos p + d)%positive.
Proof.
  intros d p. unfold shift_pos.
  induction d as [|d IHd] using Pos.peano_ind.
  - simpl. lia.
  - rewrite Pos.iter_succ. simpl. rewrite IHd. lia.
Qed.

Lemma binary_round_aux_exact : forall s mz ez,
  fexp prec emax (Zpos (digits2_pos mz) + ez) = ez ->
  binary_round_aux prec emax s (Zpos mz) ez loc_Exact =
  if Zle_bool ez (emax - prec) then S754_finite s mz ez else S754_infinity s.
Proof.
  intros s mz ez Hf. unfold binary_round_aux.
  assert (Hs : shr_fexp prec emax (Zpos mz) ez loc_Exact =
               ({| shr_m := Zpos mz; shr_r := false; shr_s := false |}, ez)).
  { unfold shr_fexp. cbn [Zdigits2 shr_record_of_loc]. rewrite Hf, Z.sub_diag. reflexivity. }
  rewrite Hs. cbn [shr_m loc_of_shr_record round_nearest_even]. rewrite Hs. reflexivity.
Qed.

Lemma valid_binary_intro : forall s m e,
  fexp prec emax (Zpos (digits2_pos m) + e) = e -> e <= 971 ->
  valid_binary prec emax (S754_finite s m e) = true.
Proof.
  intros s m e Hf He. unfold valid_binary, bounded, canonical_mantissa.
  apply andb_true_iff. split.
  - rewrite Hf. apply Zeq_is_eq_bool. reflexivity.
  - apply Zle_imp_le_bool. unfold emax, prec. lia.
Qed.

Lemma binary_round_small_int : forall s p, Zpos p < 2 ^ 53 ->
  exists m' e', binary_round prec emax s p 0 = S754_finite s m' e' /\
    valid_binary prec emax (S754_finite s m' e') = true /\
    e' <= 0 /\ Zpos m' = Zpos p * 2 ^ (- e').
Proof.
  intros s p Hp.
  pose proof (digits2_pos_bounds p) as [Hlo Hhi].
  assert (Hd : 1 <= Zpos (digits2_pos p) <= 53).
  { split; [lia|].
    assert (H : 2 ^ (Zpos (digits2_pos p) - 1) < 2 ^ 53) by lia.
    apply Z.pow_lt_mono_r_iff in H; lia. }
  unfold binary_round.
  set (d := Zpos (digits2_pos p)) in *.
  assert (Hf : fexp prec emax (d + 0) = d - 53) by (rewrite fexp_eq; lia).
  rewrite Hf. unfold shl_align.
  destruct (d - 53 - 0) as [|k|k] eqn:Ek.
  - assert (Ed : d = 53) by lia.
    assert (Hc : fexp prec emax (Zpos (digits2_pos p) + 0) = 0).
    { fold d. rewrite Hf. lia. }
    exists p, 0. rewrite (binary_round_aux_exact s p 0 Hc).
    split; [reflexivity|]. split; [apply valid_binary_intro; [exact Hc|lia]|].
    split; [lia|]. simpl. lia.
  - lia.
  - assert (Ed : d - 53 = Zneg k) by lia.
    assert (Hc : fexp prec emax (Zpos (digits2_pos (shift_pos k p)) + (d - 53)) = d - 53).
    { rewrite digits2_pos_shift_pos, Pos2Z.inj_add. fold d. rewrite fexp_eq. lia. }
    exists (shift_pos k p), (d - 53).
    rewrite (binary_round_aux_exact s (shift_pos k p) (d - 53) Hc).
    replace (Zle_bool (d - 53) (emax - prec)) with true
      by (symmetry; apply Zle_imp_le_bool; unfold emax, prec; lia).
    split; [reflexivity|]. split; [apply valid_binary_intro; [exact Hc|lia]|].
    split; [lia|].
    rewrite shift_pos_correct, Z.pow_pos_fold, Ed. simpl (- Zneg k). lia.
Qed.

(** the integer value of such a result *)
Lemma trunc_exact : forall s m' e' p, e' <= 0 -> Zpos m' = Zpos p * 2 ^ (- e') ->
  sf_trunc_Z (S754_finite s m' e') = Some (if s then - Zpos p else Zpos p).
Proof.
  intros s m' e' p He Hm. unfold sf_trunc_Z.
  destruct (0 <=? e') eqn:E.
  - apply Z.leb_le in E. assert (e' = 0) by lia. subst e'.
    change (- 0) with 0 in Hm. rewrite Z.pow_0_r, Z.mul_1_r in Hm.
    rewrite Z.pow_0_r, Z.mul_1_r, Hm. reflexivity.
  - rewrite Hm. rewrite Z.div_mul by (apply Z.pow_nonzero; lia). reflexivity.
Qed.

(** and it is a fixed point of every mode *)
Lemma round_int_fixed_exact : forall mode s m' e' p,
  binary_round prec emax s p 0 = S754_finite s m' e' ->
  e' <= 0 -> Zpos m' = Zpos p * 2 ^ (- e') ->
  sf_round_int mode (S754_finite s m' e') = S754_finite s m' e'.
Proof.
  intros mode s m' e' p Hb He Hm. unfold sf_round_int.
  destruct (0 <=? e') eqn:E; [reflexivity|].
  apply Z.leb_gt in E.
  assert (HP : 2 ^ (- e') <> 0) by (apply Z.pow_nonzero; lia).
  rewrite Hm. rewrite Z.mod_mul by exact HP. rewrite Z.div_mul by exact HP.
  rewrite Z.eqb_refl. exact Hb.
Qed.

(** ** the magnitude chosen by [sf_round_int] *)
Definition round_mag (mode : rmode) (s : bool) (M d : Z) : Z :=
  let q := M / d in
  let r := M mod d in
  let up :=
    if r =? 0 then false else
    match mode with
    | RTrunc => false
    | RFloor => s
    | RCeil => negb s
    | RRound => d <=? 2 * r
    end in
  if up then q + 1 else q.

Lemma sf_round_int_neg : forall mode s m e, e < 0 ->
  sf_round_int mode (S754_finite s m e) =
  match round_mag mode s (Zpos m) (2 ^ (- e)) with
  | Zpos p => binary_round prec emax s p 0
  | _ => S754_zero s
  end.
Proof.
  intros mode s m e He. unfold sf_round_int, round_mag.
  apply Z.leb_gt in He. rewrite He. reflexivity.
Qed.

Lemma round_mag_bounds : forall mode s M d, 0 < M -> 2 <= d ->
  0 <= round_mag mode s M d /\ 2 * round_mag mode s M d <= M + 2.
Proof.
  intros mode s M d HM Hd. unfold round_mag.
  pose proof (Z.div_mod M d ltac:(lia)) as Hdm.
  pose proof (Z.mod_pos_bound M d ltac:(lia)) as Hr.
  assert (Hq : 0 <= M / d) by (apply Z.div_pos; lia).
  set (q := M / d) in *. set (r := M mod d) in *. clearbody q r.
  destruct (r =? 0) eqn:Er.
  - split; [lia|]. nia.
  - apply Z.eqb_neq in Er.
    assert (Hup : 2 * (q + 1) <= M + 2) by nia.
    assert (Hdn : 2 * q <= M + 2) by nia.
    match goal with |- context [if ?u then q + 1 else q] => destruct u end; split; lia.
Qed.

(** the arithmetic heart: the signed chosen magnitude is the reference *)
Lemma round_mag_ref : forall mode (s : bool) M d, 0 < M -> 0 < d ->
  let n := if s then - M else M in
  (if s then - round_mag mode s M d else round_mag mode s M d) =
  match mode with
  | RFloor => n / d
  | RCeil => - ((- n) / d)
  | RTrunc => Z.quot n d
  | RRound => (if s then -1 else 1) * ((2 * Z.abs n + d) / (2 * d))
  end.
Proof.
  intros mode s M d HM Hd n. unfold round_mag.
  pose proof (Z.div_mod M d ltac:(lia)) as Hdm.
  pose proof (Z.mod_pos_bound M d Hd) as Hr.
  set (q := M / d) in *. set (r := M mod d) in *.
  (* floor of the negated numerator *)
  assert (Hneg : (- M) / d = if r =? 0 then - q else - q - 1).
  { destruct (r =? 0) eqn:Er.
    - apply Z.eqb_eq in Er. symmetry. apply Z.div_unique with 0; lia.
    - apply Z.eqb_neq in Er. symmetry. apply Z.div_unique with (d - r); lia. }
  assert (Habs : Z.abs n = M) by (unfold n; destruct s; lia).
  destruct mode.
  - (* floor *)
    unfold n. destruct s.
    + rewrite Hneg. destruct (r =? 0); lia.
    + fold q. destruct (r =? 0); reflexivity.
  - (* ceil *)
    unfold n. destruct s; cbn [negb].
    + rewrite Z.opp_involutive. fold q. destruct (r =? 0); reflexivity.
    + rewrite Hneg. destruct (r =? 0); lia.
  - (* trunc *)
    assert (Hquot : Z.quot M d = q) by (apply Z.quot_div_nonneg; lia).
    unfold n. destruct s.
    + rewrite Z.quot_opp_l by lia. rewrite Hquot. destruct (r =? 0); reflexivity.
    + rewrite Hquot. destruct (r =? 0); reflexivity.
  - (* round half away from zero *)
    rewrite Habs.
    assert (Hrnd : (2 * M + d) / (2 * d) = if d <=? 2 * r then q + 1 else q).
    { destruct (d <=? 2 * r) eqn:Ec.
      - apply Z.leb_le in Ec. symmetry. apply Z.div_unique with (2 * r - d); lia.
      - apply Z.leb_gt in Ec. symmetry. apply Z.div_unique with (2 * r + d); lia. }
    rewrite Hrnd.
    destruct (r =? 0) eqn:Er.
    + apply Z.eqb_eq in Er.
      replace (d <=? 2 * r) with false by (symmetry; apply Z.leb_gt; lia).
      destruct s; lia.
    + destruct (d <=? 2 * r); destruct s; lia.
Qed.

(** ** the case analysis of the result for a negative exponent *)
Lemma round_int_neg_cases : forall mode s m e,
  valid_binary prec emax (S754_finite s m e) = true -> e < 0 ->
  let g := round_mag mode s (Zpos m) (2 ^ (- e)) in
  (g = 0 /\ sf_round_int mode (S754_finite s m e) = S754_zero s) \/
  (exists p m' e', g = Zpos p /\
     sf_round_int mode (S754_finite s m e) = S754_finite s m' e' /\
     binary_round prec emax s p 0 = S754_finite s m' e' /\
     valid_binary prec emax (S754_finite s m' e') = true /\
     e' <= 0 /\ Zpos m' = Zpos p * 2 ^ (- e')).
Proof.
  intros mode s m e Hv He g.
  pose proof (valid_binary_bounds s m e Hv) as (_ & Hm & _).
  assert (Hd : 2 <= 2 ^ (- e)).
  { change 2 with (2 ^ 1) at 1. apply Z.pow_le_mono_r; lia. }
  pose proof (round_mag_bounds mode s (Zpos m) (2 ^ (- e)) ltac:(lia) Hd) as [Hg0 Hg1].
  fold g in Hg0, Hg1.
  rewrite (sf_round_int_neg mode s m e He). fold g.
  destruct g as [|p|p] eqn:Eg.
  - left. split; reflexivity.
  - right.
    assert (Hp : Zpos p < 2 ^ 53).
    { change (2 ^ 53) with 9007199254740992 in *. lia. }
    destruct (binary_round_small_int s p Hp) as (m' & e' & Hb & Hv' & He' & Hm').
    exists p, m', e'. rewrite Hb. repeat split; assumption.
  - lia.
Qed.

(** ** the two delivered lemmas *)
Lemma round_int_value : forall mode s m e,
  valid_binary prec emax (S754_finite s m e) = true ->
  sf_trunc_Z (sf_round_int mode (S754_finite s m e)) = Some (round_ref mode s m e).
Proof.
  intros mode s m e Hv. unfold round_ref.
  destruct (Z_lt_le_dec e 0) as [He|He].
  - (* fractional bits present *)
    replace (Z.max e 0) with 0 by lia. replace (Z.max (- e) 0) with (- e) by lia.
    simpl (2 ^ 0). rewrite Z.mul_1_r.
    assert (Hd : 0 < 2 ^ (- e)) by (apply Z.pow_pos_nonneg; lia).
    pose proof (round_mag_ref mode s (Zpos m) (2 ^ (- e)) ltac:(lia) Hd) as Href.
    cbv zeta in Href. rewrite <- Href. clear Href.
    destruct (round_int_neg_cases mode s m e Hv He)
      as [[Hg Hr]|(p & m' & e' & Hg & Hr & _ & _ & He' & Hm')]; cbv zeta in Hg.
    + rewrite Hr, Hg. simpl. destruct s; reflexivity.
    + rewrite Hr, Hg. apply trunc_exact; assumption.
  - (* already an integer *)
    replace (Z.max e 0) with e by lia. replace (Z.max (- e) 0) with 0 by lia.
    simpl (2 ^ 0).
    unfold sf_round_int. assert (E : (0 <=? e) = true) by (apply Z.leb_le; exact He).
    rewrite E. unfold sf_trunc_Z. rewrite E. f_equal.
    assert (HP : 0 < Zpos m * 2 ^ e).
    { apply Z.mul_pos_pos; [lia|apply Z.pow_pos_nonneg; lia]. }
    set (A := Zpos m * 2 ^ e) in *.
    destruct mode.
    + rewrite Z.div_1_r. destruct s; lia.
    + rewrite Z.div_1_r. destruct s; lia.
    + rewrite Z.quot_1_r. destruct s; lia.
    + assert (Habs : Z.abs ((if s then - Zpos m else Zpos m) * 2 ^ e) = A)
        by (destruct s; fold A; lia).
      rewrite Habs.
      assert (Hh : (2 * A + 1) / (2 * 1) = A) by (symmetry; apply Z.div_unique with 1; lia).
      rewrite Hh. destruct s; lia.
Qed.

Lemma round_int_shape : forall mode s m e,
  valid_binary prec emax (S754_finite s m e) = true ->
  let r := sf_round_int mode (S754_finite s m e) in
  valid_binary prec emax r = true /\
  (forall mode', sf_round_int mode' r = r) /\
  match r with S754_finite s' _ _ | S754_zero s' => s' = s | _ => False end.
Proof.
  intros mode s m e Hv r. unfold r. clear r.
  destruct (Z_lt_le_dec e 0) as [He|He].
  - destruct (round_int_neg_cases mode s m e Hv He)
      as [[_ Hr]|(p & m' & e' & _ & Hr & Hb & Hv' & He' & Hm')].
    + rewrite Hr. split; [reflexivity|]. split; [intros mode'; reflexivity|reflexivity].
    + rewrite Hr. split; [exact Hv'|]. split; [|reflexivity].
      intros mode'. apply (round_int_fixed_exact mode' s m' e' p); assumption.
  - assert (Hx : forall mode', sf_round_int mode' (S754_finite s m e) = S754_finite s m e).
    { intros mode'. unfold sf_round_int.
      replace (0 <=? e) with true by (symmetry; apply Z.leb_le; exact He). reflexivity. }
    rewrite Hx. split; [exact Hv|]. split; [exact Hx|reflexivity].
Qed.

(** ** sanity: the statements evaluated on concrete doubles *)
Example round_examples :
  map (fun x => map (fun mode => sf_trunc_Z (sf_round_int mode (sf x))) [RFloor; RCeil; RTrunc; RRound])
      [2.5; -2.5; 0.5; -0.5; 4503599627370495.5]%float =
  [[Some 2; Some 3; Some 2; Some 3]; [Some (-3); Some (-2); Some (-2); Some (-3)];
   [Some 0; Some 1; Some 0; Some 1]; [Some (-1); Some 0; Some 0; Some (-1)];
   [Some 4503599627370495; Some 4503599627370496; Some 4503599627370495; Some 4503599627370496]].
Proof. vm_compute. reflexivity. Qed.

Example ceil_neg_half_is_neg_zero : sf_round_int RCeil (sf (-0.5)%float) = S754_zero true.
Proof. vm_compute. reflexivity. Qed.
