(** FsHistory: the frame laws of the FS model (FsProofs.fs_frame, fs_frame_write) lifted to every
    sequence of FS calls: a path that no call of the history names, lies below or lies above keeps
    its entry through the whole history ("nothing outside the named paths is touched"). *)
From Aplang Require Import Base FloatX Token Ast Tables Value StrLib EvalImpl FsProofs.

(** one call of the history: procedure name and argument values *)
Definition fsop : Type := (string * list value)%type.

(** run a history; [None] when a call does not return normally (never, for the path procedures:
    FsProofs.failure_by_value) *)
Fixpoint fs_run (ops : list fsop) (st : state) : option (list value * state) :=
  match ops with
  | [] => Some ([], st)
  | (name, args) :: r =>
    match fs_call name args st with
    | ROk v st1 => match fs_run r st1 with Some (vs, st2) => Some (v :: vs, st2) | None => None end
    | _ => None
    end
  end.

(** the call cannot concern [q]: a one-path call names a path that is not [q], not above and not
    below it; a write names another path *)
Definition unrelated (q : text) (o : fsop) : bool :=
  match snd o with
  | [VStr p] => negb (text_eqb q p) && negb (below p q) && negb (below q p)
  | [VStr p; _] => negb (text_eqb q p)
  | _ => false
  end.

Lemma fs_history_frame : forall q ops st vs st',
  forallb (unrelated q) ops = true -> fs_run ops st = Some (vs, st') ->
  fs_get (o_fs (orc st')) q = fs_get (o_fs (orc st)) q.
Proof.
  intros q. induction ops as [|[name args] r IH]; intros st vs st' Hu Hr; cbn [fs_run forallb] in *.
  - inversion Hr; subst. reflexivity.
  - apply andb_prop in Hu. destruct Hu as [Ho Hrest].
    destruct (fs_call name args st) as [v st1| | | |] eqn:Hc; try discriminate.
    destruct (fs_run r st1) as [[vs1 st2]|] eqn:Hr1; try discriminate.
    inversion Hr; subst. rewrite (IH st1 vs1 st' Hrest Hr1).
    unfold unrelated in Ho. cbn [snd] in Ho.
    destruct args as [|a1 rest]; [discriminate|].
    destruct a1 as [| | |p| |]; try discriminate.
    destruct rest as [|a2 rest].
    + apply andb_prop in Ho. destruct Ho as [Ho Hb2]. apply andb_prop in Ho. destruct Ho as [Hne Hb1].
      apply Bool.negb_true_iff in Hne, Hb1, Hb2.
      exact (fs_frame name p st v st1 q Hc Hne Hb1 Hb2).
    + destruct rest as [|a3 rest]; [|discriminate].
      apply Bool.negb_true_iff in Ho.
      exact (fs_frame_write name p a2 st v st1 q Hc Ho).
Qed.

(** no history of one-path FS calls ever terminates the program: every call returns a value *)
Definition path_procs : list string :=
  ["PATH_EXISTS"; "PATH_IS_FILE"; "PATH_IS_DIRECTORY"; "FILE_REMOVE"; "FILE_CREATE"; "FILE_READ"; "DIRECTORY_READ";
   "DIRECTORY_CREATE"; "DIRECTORY_CREATE_ALL"; "DIRECTORY_REMOVE"; "DIRECTORY_REMOVE_ALL"]%string.

Lemma fs_history_total : forall ops st,
  Forall (fun o : fsop => In (fst o) path_procs /\ exists p, snd o = [VStr p]) ops ->
  exists vs st', fs_run ops st = Some (vs, st') /\ length vs = length ops.
Proof.
  induction ops as [|[name args] r IH]; intros st H; cbn [fs_run].
  - exists [], st. split; reflexivity.
  - inversion H as [|o l Ho Hr]; subst. cbn [fst snd] in Ho. destruct Ho as [Hin Hp].
    destruct (failure_by_value name args st Hin Hp) as [v [st1 Hc]]. rewrite Hc.
    destruct (IH st1 Hr) as [vs [st2 [Hrun Hlen]]]. rewrite Hrun.
    exists (v :: vs), st2. split; [reflexivity | cbn [length]; rewrite Hlen; reflexivity].
Qed.
