(** MapHistory: the MAP model under whole operation histories.  [key_eq] is a partial equivalence
    on every value (symmetric: MapProofs.key_eq_sym; congruent: [key_eq_cong] here, from the
    IEEE comparison specification [FloatAxioms.eqb_spec]), so the association list refines the
    ideal finite map [value -> option value] keyed by [key_eq] for every history of MAP_INSERT /
    MAP_GET / MAP_CONTAINS_KEY on any number of maps, with no hypothesis on the keys. *)
From Coq Require Import Floats.
From Aplang Require Import Base FloatX Token Ast Tables Value StrLib EvalImpl MapProofs.

Lemma SFeqb_cong : forall x y z, SFeqb x y = true -> SFeqb x z = SFeqb y z.
Proof.
  intros x y z H. unfold SFeqb in *.
  destruct x as [sx|sx| |sx mx ex], y as [sy|sy| |sy my ey]; cbn in H; try discriminate;
    try (destruct sx; discriminate); try (destruct sy; discriminate).
  - destruct z; reflexivity.
  - destruct sx, sy; try discriminate; reflexivity.
  - destruct sx, sy; try discriminate.
    + destruct (Z.compare_spec ex ey) as [He|He|He]; cbn in H; try discriminate.
      destruct (Pos.compare_cont Eq mx my) eqn:Hm; cbn in H; try discriminate.
      apply Pos.compare_eq in Hm. subst. reflexivity.
    + destruct (Z.compare_spec ex ey) as [He|He|He]; cbn in H; try discriminate.
      destruct (Pos.compare_cont Eq mx my) eqn:Hm; cbn in H; try discriminate.
      apply Pos.compare_eq in Hm. subst. reflexivity.
Qed.

Lemma float_eqb_cong : forall x y z : float,
  PrimFloat.eqb x y = true -> PrimFloat.eqb x z = PrimFloat.eqb y z.
Proof.
  intros x y z H. rewrite (FloatAxioms.eqb_spec x z), (FloatAxioms.eqb_spec y z).
  rewrite (FloatAxioms.eqb_spec x y) in H. apply SFeqb_cong; exact H.
Qed.

Lemma key_eq_cong : forall f h a b c, key_eq f h a b = true -> key_eq f h a c = key_eq f h b c.
Proof.
  intros f h. induction f as [|f IH]; intros a b c H.
  - destruct a as [|x|x|x|x|x]; destruct b as [|y|y|y|y|y]; simpl in H; try discriminate;
      destruct c as [|z|z|z|z|z]; simpl; try reflexivity.
    + apply float_eqb_cong; exact H.
    + apply Bool.eqb_prop in H. subst. reflexivity.
    + apply text_eqb_eq in H. subst. reflexivity.
    + apply Nat.eqb_eq in H. subst. reflexivity.
  - destruct a as [|x|x|x|x|x]; destruct b as [|y|y|y|y|y]; simpl in H; try discriminate;
      destruct c as [|z|z|z|z|z]; simpl; try reflexivity.
    + apply float_eqb_cong; exact H.
    + apply Bool.eqb_prop in H. subst. reflexivity.
    + apply text_eqb_eq in H. subst. reflexivity.
    + destruct (list_at h x) as [lx|]; destruct (list_at h y) as [ly|]; try discriminate.
      destruct (list_at h z) as [lz|]; try reflexivity.
      revert ly lz H. induction lx as [|u r1 IHl]; intros [|w r2] lz H; try discriminate.
      * reflexivity.
      * apply andb_prop in H. destruct H as [Hu Hr].
        destruct lz as [|t r3]; try reflexivity.
        rewrite (IH u w t Hu), (IHl r2 r3 Hr). reflexivity.
    + apply Nat.eqb_eq in H. subst. reflexivity.
Qed.

(** ** find after put, for every probe key *)
Lemma find_put (st : state) : forall m k v k',
  map_find st (map_put st m k v) k' =
  if key_eq (key_fuel st) (heap st) k k' then Some v else map_find st m k'.
Proof.
  intros m k v k'.
  induction m as [|[k0 v0] r IH]; cbn [map_find map_put].
  - reflexivity.
  - destruct (key_eq (key_fuel st) (heap st) k0 k) eqn:Hk0; cbn [map_find].
    + rewrite (key_eq_cong _ _ k0 k k' Hk0).
      destruct (key_eq (key_fuel st) (heap st) k k'); reflexivity.
    + rewrite IH.
      destruct (key_eq (key_fuel st) (heap st) k0 k') eqn:Hk0'; [|reflexivity].
      destruct (key_eq (key_fuel st) (heap st) k k') eqn:Hkk'; [|reflexivity].
      exfalso. rewrite (key_eq_cong _ _ k0 k' k Hk0'), (key_eq_sym _ _ k' k), Hkk' in Hk0.
      discriminate.
Qed.

(** ** histories over any number of maps *)
Inductive mop : Type :=
| OIns (i : nat) (k v : value)
| OGet (i : nat) (k : value)
| OHas (i : nat) (k : value).

Section History.
  Variable st : state.
  Let keq := key_eq (key_fuel st) (heap st).

  Definition upd {A} (f : nat -> A) (i : nat) (x : A) : nat -> A := fun j => if Nat.eqb j i then x else f j.

  (** the implementation side: one association list per map *)
  Definition cstep (c : nat -> list (value * value)) (o : mop) : (nat -> list (value * value)) * value :=
    match o with
    | OIns i k v => (upd c i (map_put st (c i) k v), match map_find st (c i) k with Some old => old | None => VNull end)
    | OGet i k => (c, match map_find st (c i) k with Some v => v | None => VNull end)
    | OHas i k => (c, VBool (match map_find st (c i) k with Some _ => true | None => false end))
    end.

  (** the ideal side: one function from keys to optional values per map, updated under [keq] *)
  Definition ideal := value -> option value.
  Definition iput (s : ideal) (k v : value) : ideal := fun k' => if keq k k' then Some v else s k'.
  Definition istep (s : nat -> ideal) (o : mop) : (nat -> ideal) * value :=
    match o with
    | OIns i k v => (upd s i (iput (s i) k v), match s i k with Some old => old | None => VNull end)
    | OGet i k => (s, match s i k with Some v => v | None => VNull end)
    | OHas i k => (s, VBool (match s i k with Some _ => true | None => false end))
    end.

  Fixpoint run {S} (step : S -> mop -> S * value) (s : S) (ops : list mop) : S * list value :=
    match ops with
    | [] => (s, [])
    | o :: r => let '(s1, x) := step s o in let '(s2, xs) := run step s1 r in (s2, x :: xs)
    end.

  Definition abs (c : nat -> list (value * value)) : nat -> ideal := fun i k => map_find st (c i) k.
  Definition ieq (s t : nat -> ideal) : Prop := forall i k, s i k = t i k.

  Lemma step_refines : forall c s o, ieq (abs c) s ->
    snd (cstep c o) = snd (istep s o) /\ ieq (abs (fst (cstep c o))) (fst (istep s o)).
  Proof.
    intros c s o H. destruct o as [i k v|i k|i k]; cbn [cstep istep fst snd].
    - split.
      + rewrite <- (H i k). reflexivity.
      + intros j k'. unfold abs, upd, iput. destruct (Nat.eqb j i) eqn:Hj.
        * rewrite find_put. fold keq. rewrite <- (H i k'). reflexivity.
        * apply (H j k').
    - split; [rewrite <- (H i k); reflexivity | exact H].
    - split; [rewrite <- (H i k); reflexivity | exact H].
  Qed.

  (** every history: the same results, and the final stores still agree *)
  Lemma history_refines : forall ops c s, ieq (abs c) s ->
    snd (run cstep c ops) = snd (run istep s ops) /\ ieq (abs (fst (run cstep c ops))) (fst (run istep s ops)).
  Proof.
    induction ops as [|o r IH]; intros c s H; cbn [run].
    - split; [reflexivity | exact H].
    - destruct (step_refines c s o H) as [Hout Hst].
      destruct (cstep c o) as [c1 x] eqn:Hc. destruct (istep s o) as [s1 y] eqn:Hs.
      cbn [fst snd] in Hout, Hst. subst y.
      destruct (IH c1 s1 Hst) as [Hout' Hst'].
      destruct (run cstep c1 r) as [c2 xs]. destruct (run istep s1 r) as [s2 ys].
      cbn [fst snd] in *. subst ys. split; [reflexivity | exact Hst'].
  Qed.

  Lemma history_from_empty : forall ops,
    snd (run cstep (fun _ => []) ops) = snd (run istep (fun _ _ => None) ops).
  Proof. intros ops. apply history_refines. intros i k. reflexivity. Qed.

  (** stored keys are pairwise distinct under [keq] in every reachable store *)
  Fixpoint keys_distinct (m : list (value * value)) : Prop :=
    match m with
    | [] => True
    | (k, _) :: r => map_find st r k = None /\ keys_distinct r
    end.

  Lemma find_put_none : forall m k v k0, keq k k0 = false -> map_find st m k0 = None ->
    map_find st (map_put st m k v) k0 = None.
  Proof. intros m k v k0 Hne Hn. rewrite find_put. fold keq. rewrite Hne. exact Hn. Qed.

  Lemma put_distinct : forall m k v, keys_distinct m -> keys_distinct (map_put st m k v).
  Proof.
    induction m as [|[k0 v0] r IH]; intros k v Hd; cbn [map_put keys_distinct].
    - split; [reflexivity | exact I].
    - destruct Hd as [Hn Hr].
      destruct (key_eq (key_fuel st) (heap st) k0 k) eqn:Hk0; cbn [keys_distinct].
      + split; assumption.
      + split; [|apply IH; exact Hr].
        apply find_put_none; [|exact Hn]. unfold keq. rewrite key_eq_sym. exact Hk0.
  Qed.

  Lemma history_distinct : forall ops c, (forall i, keys_distinct (c i)) ->
    forall i, keys_distinct (fst (run cstep c ops) i).
  Proof.
    induction ops as [|o r IH]; intros c H; cbn [run].
    - exact H.
    - destruct (cstep c o) as [c1 x] eqn:Hc.
      assert (H1 : forall i, keys_distinct (c1 i)).
      { destruct o as [i k v|i k|i k]; cbn [cstep] in Hc; inversion Hc; subst; try exact H.
        intros j. unfold upd. destruct (Nat.eqb j i); [apply put_distinct; apply H | apply H]. }
      specialize (IH c1 H1). destruct (run cstep c1 r) as [c2 xs]. exact IH.
  Qed.
End History.
