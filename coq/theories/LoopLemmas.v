(** LoopLemmas: the loops of the reference semantics (EvalSpec.v), used by Props/C02b.v —
    REPEAT n TIMES runs its body exactly floor(n) times, REPEAT UNTIL one step, FOR EACH one
    iteration / the end of the list / the outer variable of the same name. *)
From Aplang Require Import Base FloatX Token Ast Tables Value EvalImpl EvalSpec SpecLemmas.
From Coq Require Import Floats SpecFloat ZArith NArith Lia List.
Import ListNotations.

(** * REPEAT n TIMES *)

Lemma iter_succ_r_ : forall (A : Type) (g : A -> A) n x, Nat.iter (S n) g x = Nat.iter n g (g x).
Proof.
  intros A g n. induction n as [|n IH]; intros x.
  - reflexivity.
  - change (g (Nat.iter (S n) g x) = g (Nat.iter n g (g x))). rewrite IH. reflexivity.
Qed.

Lemma times_runs_exactly : forall ex body (g : state -> state) n k st,
  (forall s, ex body s = ROk Normal (g s)) -> (N.to_nat n < k)%nat ->
  s_times ex k n body st = ROk Normal (Nat.iter (N.to_nat n) g st).
Proof.
  intros ex body g n k st Hbody. revert n st.
  induction k as [|k IH]; intros n st Hk.
  - lia.
  - destruct (N.eq_dec n 0%N) as [Hn | Hn].
    + subst n. rewrite times_zero. reflexivity.
    + rewrite (times_step ex k n body st Normal (g st) Hn (Hbody st)).
      rewrite IH by lia.
      replace (N.to_nat n) with (S (N.to_nat (n - 1))) by lia.
      rewrite iter_succ_r_. reflexivity.
Qed.

(** * the repeat count *)

Lemma trunc_arg_uniform : forall m e,
  (if (0 <=? e)%Z then (Zpos m * 2 ^ e)%Z else (Zpos m / 2 ^ (- e))%Z) =
  (Zpos m * 2 ^ (Z.max e 0) / 2 ^ (Z.max (- e) 0))%Z.
Proof.
  intros m e. destruct (0 <=? e)%Z eqn:He.
  - apply Z.leb_le in He.
    rewrite (Z.max_l e 0) by lia. rewrite (Z.max_r (- e) 0) by lia.
    rewrite Z.pow_0_r, Z.div_1_r. reflexivity.
  - apply Z.leb_gt in He.
    rewrite (Z.max_r e 0) by lia. rewrite (Z.max_l (- e) 0) by lia.
    rewrite Z.pow_0_r, Z.mul_1_r. reflexivity.
Qed.

Lemma count_is_floor : forall x m e, sf x = S754_finite false m e ->
  (Zpos m * 2 ^ (Z.max e 0) / 2 ^ (Z.max (- e) 0) < 2 ^ 64)%Z ->
  Z.of_N (to_usize x) = (Zpos m * 2 ^ (Z.max e 0) / 2 ^ (Z.max (- e) 0))%Z.
Proof.
  intros x m e Hsf Hlt.
  unfold to_usize. rewrite Hsf. cbn [sf_trunc_Z].
  pose proof (trunc_arg_nonneg m e) as Hnn.
  rewrite trunc_arg_uniform in *.
  set (a := (Zpos m * 2 ^ (Z.max e 0) / 2 ^ (Z.max (- e) 0))%Z) in *.
  change (2 ^ 64)%Z with 18446744073709551616%Z in Hlt.
  destruct (a <? 0)%Z eqn:Hneg; [apply Z.ltb_lt in Hneg; lia|].
  destruct (18446744073709551615 <? a)%Z eqn:Hbig; [apply Z.ltb_lt in Hbig; lia|].
  apply Z2N.id. exact Hnn.
Qed.

(** * REPEAT UNTIL *)

Lemma until_step : forall ev ex k c body st v st1 sg st2,
  ev c st = ROk v st1 -> truthy v = Some false -> ex body st1 = ROk sg st2 ->
  s_until ev ex (S k) c body st =
    match sg with
    | Break => ROk Normal st2
    | Return r => ROk (Return r) st2
    | _ => s_until ev ex k c body st2
    end.
Proof.
  intros ev ex k c body st v st1 sg st2 Hev Ht Hex.
  cbn [s_until]. rewrite Hev. cbn [rbind]. rewrite (truthy_r_some _ _ _ Ht). cbn [rbind].
  rewrite Hex. cbn [rbind]. destruct sg; reflexivity.
Qed.

(** * FOR EACH *)

Lemma each_step : forall ex k a x i len body st l item,
  (i < len)%nat -> list_at (heap st) a = Some l -> nth_error l i = Some item ->
  s_each ex (S k) a x i len body st =
    (let st1 := with_scope st (scope_set (cur_scope st) x item) in
     match ex body st1 with
     | ROk Break st2 => ROk Normal st2
     | ROk (Return v) st2 => ROk (Return v) st2
     | ROk Continue st2 => s_each ex k a x (S i) len body st2
     | ROk Normal st2 =>
       match scope_get (cur_scope st2) x with
       | None => RPanic PanicForEachVar st2
       | Some v =>
         let st3 := with_scope st2 (scope_remove (cur_scope st2) x) in
         let st4 := match list_at (heap st3) a with
                    | Some l' => if Nat.ltb i (length l') then heap_set st3 a (CList (update_nth l' i v)) else st3
                    | None => st3
                    end in
         s_each ex k a x (S i) len body st4
       end
     | RErr kd sp st2 => RErr kd sp st2
     | RExit st2 => RExit st2
     | RPanic site st2 => RPanic site st2
     | RFuel => RFuel
     end).
Proof.
  intros ex k a x i len body st l item Hi Hl Hn.
  cbn [s_each]. destruct (Nat.leb len i) eqn:E; [apply Nat.leb_le in E; lia|].
  rewrite Hl, Hn. cbn zeta.
  destruct (ex body (with_scope st (scope_set (cur_scope st) x item))) as [sg st2|kd sp st2|st2|site st2|];
    cbn [rbind]; [|reflexivity..].
  destruct sg; reflexivity.
Qed.

Lemma each_done : forall ex k a x i len body st, (len <= i)%nat -> s_each ex (S k) a x i len body st = ROk Normal st.
Proof.
  intros ex k a x i len body st H. cbn [s_each]. destruct (Nat.leb len i) eqn:E; [reflexivity|].
  apply Nat.leb_gt in E. lia.
Qed.

Lemma each_past_end : forall ex k a x i len body st l,
  (i < len)%nat -> list_at (heap st) a = Some l -> nth_error l i = None -> s_each ex (S k) a x i len body st = ROk Normal st.
Proof.
  intros ex k a x i len body st l Hi Hl Hn.
  cbn [s_each]. destruct (Nat.leb len i) eqn:E; [apply Nat.leb_le in E; lia|].
  rewrite Hl, Hn. reflexivity.
Qed.

(** ** the outer variable *)

(* what FOR EACH does once the cell [a] to iterate over is known *)
Definition foreach_rest (f : nat) (x : text) (body : stmt) (a : nat) (st2 : state) : res signal :=
  let outer := scope_get (cur_scope st2) x in
  let st3 := with_scope st2 (scope_remove (cur_scope st2) x) in
  let len := match list_at (heap st3) a with Some l => length l | None => 0%nat end in
  let* sg, st4 <- s_each (sexec f) f a x 0 len body st3;
  ROk sg (match outer with
          | Some v => with_scope st4 (scope_set (cur_scope st4) x v)
          | None => st4
          end).

Lemma sexec_S_foreach : forall f x itok ltok le body st,
  sexec (S f) (SForEach x itok ltok le body) st =
    (let* lv, st1 <- seval f le st;
     let* a, st2 <-
       (match lv with
        | VList a => ROk a st1
        | VStr s => let '(a, st') := alloc st1 (CList (map (fun c => VStr [c]) s)) in ROk a st'
        | _ => RErr InvalidIterator ltok st1
        end);
     foreach_rest f x body a st2).
Proof. reflexivity. Qed.

Lemma cur_scope_with_scope : forall st s, cur_scope (with_scope st s) = s.
Proof. reflexivity. Qed.

Lemma cur_scope_alloc : forall st c, cur_scope (snd (alloc st c)) = cur_scope st.
Proof. reflexivity. Qed.

Lemma foreach_rest_restores : forall f x body a st2 sg st' v,
  scope_get (cur_scope st2) x = Some v ->
  foreach_rest f x body a st2 = ROk sg st' ->
  scope_get (cur_scope st') x = Some v.
Proof.
  intros f x body a st2 sg st' v Hv Hr.
  unfold foreach_rest in Hr. cbn zeta in Hr. rewrite Hv in Hr.
  destruct (s_each (sexec f) f a x 0
              match list_at (heap (with_scope st2 (scope_remove (cur_scope st2) x))) a with
              | Some l => length l | None => 0%nat end
              body (with_scope st2 (scope_remove (cur_scope st2) x))) as [sg0 st4| | | |];
    cbn [rbind] in Hr; try discriminate Hr.
  injection Hr as _ Hst. subst st'.
  rewrite cur_scope_with_scope, scope_get_set, text_eqb_refl. reflexivity.
Qed.

Lemma foreach_restores_outer : forall f x itok ltok le body st sg st' v,
  sexec (S f) (SForEach x itok ltok le body) st = ROk sg st' ->
  (forall lv st1, seval f le st = ROk lv st1 -> scope_get (cur_scope st1) x = Some v) ->
  scope_get (cur_scope st') x = Some v.
Proof.
  intros f x itok ltok le body st sg st' v H Hout.
  rewrite sexec_S_foreach in H.
  destruct (seval f le st) as [lv st1| | | |] eqn:E; cbn [rbind] in H; try discriminate H.
  specialize (Hout lv st1 eq_refl).
  destruct lv as [| | | s | a | a]; cbn [rbind] in H; try discriminate H.
  - (* a string: its characters go into a fresh cell; the scope is untouched *)
    pose proof (cur_scope_alloc st1 (CList (map (fun c => VStr [c]) s))) as Ha.
    destruct (alloc st1 (CList (map (fun c => VStr [c]) s))) as [a st1'].
    cbn [snd] in Ha. cbn [rbind] in H.
    apply (foreach_rest_restores f x body a st1' sg st' v); [rewrite Ha; exact Hout | exact H].
  - exact (foreach_rest_restores f x body a st1 sg st' v Hout H).
Qed.
